// Engine htmltok: html.Tokenizer reading generated HTML-ish input through a
// chunking io.Reader owned by the simulator (C39). Sequential engine: the plan
// (input, tokenizer options, fault position) is drawn inline from rapid; the
// reader's per-Read decisions come from a tape drawn *before* the tokenizer runs,
// because Read is called from inside vs.Guard.
//
// Oracles (DESIGN.md §5 C39, properties.jsonl C39):
//   panic                 no panic in Next/Raw/Token
//   raw_not_prefix        Σ Raw() of the returned (non-error) tokens is a prefix of the
//                         bytes the reader delivered
//   raw_incomplete        on normal completion at EOF the omitted tail is empty or an
//                         unterminated tag at the very end of the input (WHATWG tag
//                         syntax, scanner written from the spec)
//   no_progress           tokenization terminates (bounded number of tokens)
//   chunk_independence    token sequence (type, raw, data, attributes) and final error
//                         equal those of a single-chunk read of the same bytes
//   spurious_buffer_exceeded / maxbuf_not_enforced / maxbuf_changes_tokens
//                         SetMaxBuf(n): ErrBufferExceeded only with a limit; a token
//                         whose Raw is longer than n is only ever the last one before
//                         tokenization stops; every token before the last equals the
//                         unlimited tokenization.
// The property says nothing about the exact length of the last, partial token that
// is handed out before ErrBufferExceeded, so that is a don't-care.

package html

import (
	"bytes"
	"errors"
	"fmt"
	"io"
	"strings"
	"testing"

	vs "golang.org/x/net/internal/verifsim"
	"pgregory.net/rapid"
)

var errHTInjected = errors.New("verif: injected read error")

// ---------------------------------------------------------------------------
// Input generator

var htNames = []string{"a", "p", "div", "br", "IMG", "b", "span", "table", "x-y", "h1", "input", "select", "option", "foreignObject", "desc", "a\x00b", "p\xff"}
var htRawNames = []string{"script", "style", "title", "textarea", "xmp", "iframe", "noembed", "noframes", "noscript", "plaintext"}
var htAttrKeys = []string{"id", "class", "HREF", "a", "x:y", "data-x", "=", "k\x00", "k\xff", "ID", "b", "xlink:href", "a/b", "\"q"}
var htWords = []string{"hello", " ", "world", "\n", "a<b", "x > y", "&amp;", "&lt", "&#x41;", "&#0;", "&#xD800;", "&notit;", "&nGt;", "&nLt;", "&nGt", "&NotEqualTilde;", "&", "<", "< ", "<3", "\x00", "\xff\xfe", "\xc3", "é", "\r\n", "\r", "]]>", "--", "'", "\"", "=", "/", "\t\f"}
var htScriptBits = []string{"x", "<!--", "-->", "<script", "</script", "</SCRIPT >", "<script>", "</scr", "ipt>", "-", "<", "/", "</script\t", " ", "\n", "var a='</script>';", "</style>", "</title>", "</TEXTAREA>", "</xmp", "<!-", "--!>", "\x00", "&amp;", "</", "</scriptx"}
var htSoup = []byte("<>/!-='\" \t\n\r\f\x00&;#[]?aZsScCdD\x80\xff\xc3")

func htCase(c vs.Chooser, s string) string {
	switch c.Intn(4) {
	case 0:
		return s
	case 1:
		return strings.ToUpper(s)
	case 2:
		if len(s) > 0 {
			return strings.ToUpper(s[:1]) + s[1:]
		}
		return s
	default:
		b := []byte(s)
		for i := range b {
			if i%2 == 1 && 'a' <= b[i] && b[i] <= 'z' {
				b[i] -= 'a' - 'A'
			}
		}
		return string(b)
	}
}

func htFiller(c vs.Chooser) string {
	n := vs.SizeBiased(c, vs.Thorough(9000, 40000), 2048, 4096, 8192)
	pat := vs.Pick(c, "x", "ab ", "-", "<", "&amp;", "\x00", "]", "é")
	return strings.Repeat(pat, n/len(pat)+1)
}

func htWS(c vs.Chooser) string {
	return vs.Pick(c, " ", "", "\n", "\t", "  ", "\r\n", "\f", "/", " / ")
}

func htAttrs(c vs.Chooser, sb *strings.Builder) {
	n := c.Intn(5)
	for i := 0; i < n; i++ {
		ws := htWS(c)
		if i == 0 && ws == "" {
			ws = " "
		}
		sb.WriteString(ws)
		sb.WriteString(vs.Pick(c, htAttrKeys...))
		val := vs.Pick(c, "v", "", "a b", "x>y", "a&amp;b", "/", "a/", "\x00", "\r\n", "'", "\"", "=", "&#x3c;", "\xff", "x&nGt;", "&nLt;")
		if vs.Pct(c, 6) {
			val = htFiller(c)
		}
		switch c.Intn(7) {
		case 0:
			sb.WriteString("=\"" + strings.ReplaceAll(val, "\"", "") + "\"")
		case 1:
			sb.WriteString("='" + strings.ReplaceAll(val, "'", "") + "'")
		case 2:
			sb.WriteString("=" + val) // unquoted (may contain anything)
		case 3:
			// no value
		case 4:
			sb.WriteString(" = \"" + val + "\"") // quote characters inside the value allowed
		case 5:
			sb.WriteString("=")
		default:
			sb.WriteString("\t=\n'" + val)
			if vs.Bool(c) {
				sb.WriteString("'")
			}
		}
	}
}

func htTagEnd(c vs.Chooser) string {
	return vs.Pick(c, ">", "/>", " >", " />", "\n>", "/ >", "//>")
}

func htText(c vs.Chooser, sb *strings.Builder) {
	n := vs.Range(c, 1, 5)
	for i := 0; i < n; i++ {
		sb.WriteString(vs.Pick(c, htWords...))
	}
}

func htRawContent(c vs.Chooser, sb *strings.Builder) {
	n := c.Intn(8)
	for i := 0; i < n; i++ {
		sb.WriteString(vs.Pick(c, htScriptBits...))
	}
	if vs.Pct(c, 5) {
		sb.WriteString(htFiller(c))
	}
}

func htFragment(c vs.Chooser, sb *strings.Builder) {
	switch c.Intn(13) {
	case 0:
		htText(c, sb)
	case 1: // start / self-closing tag
		sb.WriteString("<" + vs.Pick(c, htNames...))
		htAttrs(c, sb)
		sb.WriteString(htTagEnd(c))
	case 2: // end tag
		sb.WriteString("</" + vs.Pick(c, htNames...))
		if vs.Pct(c, 20) {
			htAttrs(c, sb)
		}
		sb.WriteString(vs.Pick(c, ">", " >", "/>", "\n>"))
	case 3: // raw text / RCDATA element
		name := vs.Pick(c, htRawNames...)
		sb.WriteString("<" + htCase(c, name))
		htAttrs(c, sb)
		sb.WriteString(htTagEnd(c))
		htRawContent(c, sb)
		if vs.Pct(c, 80) {
			end := name
			if vs.Pct(c, 10) {
				end = vs.Pick(c, htRawNames...)
			}
			sb.WriteString("</" + htCase(c, end) + vs.Pick(c, ">", " >", "\n>", "/>", "\t x=y>", ""))
		}
	case 4: // comments
		sb.WriteString(vs.Pick(c, "<!--x-->", "<!-->", "<!--->", "<!---->", "<!--a--!>", "<!--a--!-->", "<!--a-b--c--->", "<!-- <p> -->", "<!--\x00-->", "<!--a", "<!--a-", "<!--a--", "<!--a--!", "<!-", "<!", "<!--\r\n-->", "<!---!>", "<!----!>", "<!--a--!b-->"))
	case 5: // doctype
		sb.WriteString(vs.Pick(c, "<!DOCTYPE html>", "<!doctype html PUBLIC \"x\" 'y'>", "<!DOCTYPE>", "<!DOCTYPE  ", "<!DOCTYP", "<!DOC", "<!DOCTYPEhtml>", "<!DocType \x00>", "<!DOCTYPE html"))
	case 6: // CDATA
		sb.WriteString(vs.Pick(c, "<![CDATA[x]]>", "<![CDATA[]]>", "<![CDATA[a]]b]]]>", "<![CDATA[ <p> ]] > ]]>", "<![CDATA[x", "<![CDATA[x]]", "<![CDAT", "<![cdata[x]]>", "<![CDATA[\x00\r\n]]>", "<![CDATA[x]>y]]>"))
	case 7: // processing instructions, bogus comments
		sb.WriteString(vs.Pick(c, "<?xml version=\"1.0\"?>", "<?", "<?>", "</>", "</ x>", "</", "</3>", "<!x>", "<!>", "<!->", "</\x00>", "<! doctype>", "<?php echo '>' ?>"))
	case 8: // foreign content
		sb.WriteString(vs.Pick(c, "<svg>", "<math>", "<SVG viewBox='0 0 1 1'>", "<svg/>", "<svg><title>a<b>c</b></title>", "<math><mi>x</mi>", "<svg><![CDATA[a<b]]></svg>", "<svg><script>1</script>", "<svg><textarea>", "<foreignObject><p>"))
		if vs.Bool(c) {
			htFragment(c, sb)
		}
		sb.WriteString(vs.Pick(c, "</svg>", "</math>", "", "</SVG >"))
	case 9: // byte soup
		n := vs.Range(c, 1, 12)
		for i := 0; i < n; i++ {
			sb.WriteByte(htSoup[c.Intn(len(htSoup))])
		}
	case 10: // long filler in some context
		switch c.Intn(5) {
		case 0:
			sb.WriteString(htFiller(c))
		case 1:
			sb.WriteString("<a title=\"" + htFiller(c) + "\" id=z>")
		case 2:
			sb.WriteString("<!--" + htFiller(c) + "-->")
		case 3:
			sb.WriteString("<textarea>" + htFiller(c) + "</textarea>")
		default:
			sb.WriteString("<p " + htFiller(c) + ">")
		}
	case 11: // many attributes (span re-basing over a long tag)
		sb.WriteString("<" + vs.Pick(c, htNames...))
		n := vs.Range(c, 3, 40)
		for i := 0; i < n; i++ {
			fmt.Fprintf(sb, " k%d=\"v%d\"", i, i*7)
		}
		sb.WriteString(">")
	default:
		htText(c, sb)
	}
}

func htGenInput(c vs.Chooser) []byte {
	var sb strings.Builder
	n := c.Intn(vs.Thorough(20, 60))
	for i := 0; i < n; i++ {
		htFragment(c, &sb)
	}
	b := []byte(sb.String())
	if len(b) > 0 && vs.Pct(c, 30) { // cut somewhere: unterminated constructs
		b = b[:c.Intn(len(b)+1)]
	}
	if len(b) > 0 && vs.Pct(c, 10) { // corrupt one byte
		b[c.Intn(len(b))] = htSoup[c.Intn(len(htSoup))]
	}
	return b
}

// ---------------------------------------------------------------------------
// The reader seam

type htReader struct {
	data        []byte // bytes delivered before the final error
	pos         int
	finalErr    error
	errWithData bool // deliver the final error together with the last bytes
	single      bool // reference reader: fill p completely, no zero reads
	mode        int
	tape        *vs.Tape
	zeroRun     int
	z           *Tokenizer

	reads, zeroReads                     int
	errFired                             bool
	midToken, liveAttrs, grown, tinyRead bool
}

func (r *htReader) Read(p []byte) (int, error) {
	if len(p) == 0 {
		return 0, nil
	}
	if r.pos >= len(r.data) {
		r.errFired = true
		return 0, r.finalErr
	}
	rem := len(r.data) - r.pos
	var sz int
	if r.single {
		sz = rem
	} else {
		if r.z != nil {
			// white-box probes only (read-only): what is live while the buffer is refilled
			d := r.z.raw.end - r.z.raw.start
			if d > 0 {
				r.midToken = true
				if n := len(r.z.attr); n > 0 && r.z.attr[n-1][0].start >= 0 && r.z.attr[n-1][0].end > 0 && r.z.buf[0] == '<' {
					r.liveAttrs = true
				}
			}
			if cap(r.z.buf) > 4096 {
				r.grown = true
			}
		}
		if r.zeroRun < 3 && r.tape.Intn(12) == 11 {
			r.zeroRun++
			r.zeroReads++
			return 0, nil
		}
		r.zeroRun = 0
		m := r.mode
		if m == 6 {
			m = r.tape.Intn(6)
		}
		switch m {
		case 0:
			sz = rem
		case 1:
			sz = 1
		case 2:
			sz = 1 + r.tape.Intn(4)
		case 3:
			sz = 1 + r.tape.Intn(64)
		case 4:
			sz = 1 + r.tape.Intn(1024)
		default:
			sz = 1 + r.tape.Intn(8192)
		}
		if sz <= 4 {
			r.tinyRead = true
		}
	}
	n := min(sz, len(p), rem)
	copy(p, r.data[r.pos:r.pos+n])
	r.pos += n
	r.reads++
	if r.pos == len(r.data) && r.errWithData {
		r.errFired = true
		return n, r.finalErr
	}
	return n, nil
}

// ---------------------------------------------------------------------------
// Running the tokenizer

type htTok struct {
	typ  TokenType
	raw  string
	data string
	attr []Attribute
}

func (t htTok) String() string {
	return fmt.Sprintf("{%v raw=%q data=%q attr=%q}", t.typ, htClip(t.raw), htClip(t.data), t.attr)
}

func htClip(s string) string {
	if len(s) > 60 {
		return s[:40] + fmt.Sprintf("…(+%d)…", len(s)-50) + s[len(s)-10:]
	}
	return s
}

func htTokEqual(a, b htTok) bool {
	if a.typ != b.typ || a.raw != b.raw || a.data != b.data || len(a.attr) != len(b.attr) {
		return false
	}
	for i := range a.attr {
		if a.attr[i] != b.attr[i] {
			return false
		}
	}
	return true
}

type htOpts struct {
	maxBuf     int
	cdataMode  int // 0 never, 1 always, 2 while inside svg/math (what a parser would do)
	notRawFor  bool
	contextTag string
}

type htResult struct {
	toks     []htTok
	finalErr error
}

// htTokenize drives one Tokenizer over rd to the first ErrorToken.
func htTokenize(rd *htReader, o htOpts, inputLen int) (res htResult, v *vs.Violation) {
	var z *Tokenizer
	if o.contextTag != "" {
		z = NewTokenizerFragment(rd, o.contextTag)
	} else {
		z = NewTokenizer(rd)
	}
	rd.z = z
	if o.maxBuf > 0 {
		z.SetMaxBuf(o.maxBuf)
	}
	if o.cdataMode == 1 {
		z.AllowCDATA(true)
	}
	depth := 0
	limit := 4*inputLen + 64
	for i := 0; ; i++ {
		if i > limit {
			return res, vs.Violf("C39", "no_progress", "no_progress", "more than %d tokens for %d input bytes; last %v", limit, inputLen, res.toks[len(res.toks)-1])
		}
		var tk htTok
		if v = vs.Guard("C39", "panic_in_next", func() {
			tk.typ = z.Next()
			tk.raw = string(z.Raw())
		}); v != nil {
			return res, v
		}
		if tk.typ == ErrorToken {
			res.finalErr = z.Err()
			// a further Next must not panic either
			if v = vs.Guard("C39", "panic_in_next_after_error", func() { z.Next() }); v != nil {
				return res, v
			}
			return res, nil
		}
		if v = vs.Guard("C39", "panic_in_token", func() {
			t := z.Token()
			tk.data, tk.attr = t.Data, t.Attr
		}); v != nil {
			return res, v
		}
		res.toks = append(res.toks, tk)
		// tokenizer options a parser would toggle: a pure function of the token stream
		switch tk.typ {
		case StartTagToken:
			if tk.data == "svg" || tk.data == "math" {
				depth++
			} else if depth > 0 && o.notRawFor {
				z.NextIsNotRawText()
			}
		case EndTagToken:
			if (tk.data == "svg" || tk.data == "math") && depth > 0 {
				depth--
			}
		}
		if o.cdataMode == 2 {
			z.AllowCDATA(depth > 0)
		}
	}
}

// htIsUnterminatedTag reports whether t is a start or end tag that is still open
// at the end of t, following the WHATWG tokenizer states (tag open, tag name,
// before/after attribute name, attribute name, before attribute value, attribute
// value double-quoted/single-quoted/unquoted, after attribute value (quoted),
// self-closing start tag).
func htIsUnterminatedTag(t []byte) bool {
	i := 1
	if len(t) < 2 || t[0] != '<' {
		return false
	}
	if t[i] == '/' {
		i++
	}
	if i >= len(t) || !('a' <= t[i] && t[i] <= 'z' || 'A' <= t[i] && t[i] <= 'Z') {
		return false
	}
	const (
		sName = iota
		sBeforeAttr
		sAttrName
		sAfterAttrName
		sBeforeVal
		sValDQ
		sValSQ
		sValUnq
		sAfterValQ
		sSelfClosing
	)
	st := sName
	for ; i < len(t); i++ {
		c := t[i]
		ws := c == ' ' || c == '\t' || c == '\n' || c == '\f' || c == '\r'
	again:
		switch st {
		case sName:
			switch {
			case ws:
				st = sBeforeAttr
			case c == '/':
				st = sSelfClosing
			case c == '>':
				return false
			}
		case sBeforeAttr:
			switch {
			case ws:
			case c == '/' || c == '>':
				st = sAfterAttrName
				goto again
			default: // '=' starts a name too
				st = sAttrName
			}
		case sAttrName:
			switch {
			case ws || c == '/' || c == '>':
				st = sAfterAttrName
				goto again
			case c == '=':
				st = sBeforeVal
			}
		case sAfterAttrName:
			switch {
			case ws:
			case c == '/':
				st = sSelfClosing
			case c == '=':
				st = sBeforeVal
			case c == '>':
				return false
			default:
				st = sAttrName
			}
		case sBeforeVal:
			switch {
			case ws:
			case c == '"':
				st = sValDQ
			case c == '\'':
				st = sValSQ
			case c == '>':
				return false
			default:
				st = sValUnq
			}
		case sValDQ:
			if c == '"' {
				st = sAfterValQ
			}
		case sValSQ:
			if c == '\'' {
				st = sAfterValQ
			}
		case sValUnq:
			switch {
			case ws:
				st = sBeforeAttr
			case c == '>':
				return false
			}
		case sAfterValQ:
			switch {
			case ws:
				st = sBeforeAttr
			case c == '/':
				st = sSelfClosing
			case c == '>':
				return false
			default:
				st = sBeforeAttr
				goto again
			}
		case sSelfClosing:
			if c == '>' {
				return false
			}
			st = sBeforeAttr
			goto again
		}
	}
	return true
}

// htCheckRaw checks the partition oracle of one tokenization of the delivered
// bytes eff (the reader's final error was rdErr).
func htCheckRaw(who string, res htResult, eff []byte, rdErr error, maxBuf int) (v *vs.Violation, omitted bool) {
	var cat []byte
	for _, t := range res.toks {
		cat = append(cat, t.raw...)
	}
	if !bytes.HasPrefix(eff, cat) {
		d := 0
		for d < len(cat) && d < len(eff) && cat[d] == eff[d] {
			d++
		}
		return vs.Violf("C39", "raw_not_prefix", who, "concatenated Raw() (%d bytes) is not a prefix of the %d delivered bytes: first difference at offset %d (raw %q, input %q)",
			len(cat), len(eff), d, htClip(string(cat[d:min(len(cat), d+40)])), htClip(string(eff[d:min(len(eff), d+40)]))), false
	}
	if res.finalErr == ErrBufferExceeded {
		if maxBuf == 0 {
			return vs.Violf("C39", "spurious_buffer_exceeded", who, "ErrBufferExceeded without SetMaxBuf after %d of %d bytes", len(cat), len(eff)), false
		}
	}
	if maxBuf > 0 {
		for i, t := range res.toks {
			// Tokenization must stop rather than go on past an over-limit token. The
			// size of the last (partial) token and, when the input happens to end
			// right there, the identity of the final error are not the property's
			// business (observed: limit+2 bytes and io.EOF on the doctype path).
			if len(t.raw) > maxBuf && i != len(res.toks)-1 {
				return vs.Violf("C39", "maxbuf_not_enforced", who, "SetMaxBuf(%d): token %d %v has %d raw bytes and tokenization went on with %d more tokens (final error %v)", maxBuf, i, t, len(t.raw), len(res.toks)-1-i, res.finalErr), false
			}
		}
	}
	if res.finalErr == ErrBufferExceeded {
		return nil, false
	}
	tail := eff[len(cat):]
	if len(tail) == 0 {
		return nil, false
	}
	if rdErr != io.EOF {
		// injected read error: only the prefix property is demanded
		return nil, true
	}
	if !htIsUnterminatedTag(tail) {
		return vs.Violf("C39", "raw_incomplete", who, "tokenization ended (%v) with %d of %d bytes returned; the omitted tail %q is not an unterminated tag", res.finalErr, len(cat), len(eff), htClip(string(tail))), false
	}
	return nil, true
}

func htCompare(oracle, sig string, a, b htResult, aName, bName string, allButLastOfA bool) *vs.Violation {
	na := len(a.toks)
	if allButLastOfA {
		na--
	}
	for i := 0; i < na; i++ {
		if i >= len(b.toks) {
			return vs.Violf("C39", oracle, sig, "%s has token %d %v but %s ended after %d tokens (%v)", aName, i, a.toks[i], bName, len(b.toks), b.finalErr)
		}
		if !htTokEqual(a.toks[i], b.toks[i]) {
			return vs.Violf("C39", oracle, sig, "token %d differs: %s %v, %s %v", i, aName, a.toks[i], bName, b.toks[i])
		}
	}
	if !allButLastOfA {
		if len(b.toks) != len(a.toks) {
			return vs.Violf("C39", oracle, sig, "%s ended after %d tokens (%v) but %s has token %d %v", aName, len(a.toks), a.finalErr, bName, len(a.toks), b.toks[len(a.toks)])
		}
		if a.finalErr != b.finalErr {
			return vs.Violf("C39", oracle, sig, "final error differs: %s %v, %s %v", aName, a.finalErr, bName, b.finalErr)
		}
	}
	return nil
}

func htRun(rt *rapid.T) {
	c := vs.RapidChooser{T: rt}
	tr := vs.NewTrace()
	for _, p := range []string{"probe.refill_mid_token", "probe.refill_with_live_attr_spans", "probe.buffer_grown", "probe.unterminated_tag_omitted",
		"probe.rawtext_token", "probe.cdata_as_text", "probe.maxbuf_stop", "probe.maxbuf_completed", "probe.token_over_2k", "fault.read_error", "fault.zero_read"} {
		vs.G.Add(p, 0)
	}

	// ---- plan
	input := htGenInput(c)
	o := htOpts{cdataMode: c.Intn(3), notRawFor: vs.Pct(c, 30)}
	if vs.Pct(c, 12) {
		o.contextTag = vs.Pick(c, "title", "textarea", "script", "style", "div", "PLAINTEXT", "svg")
	}
	if vs.Pct(c, 35) {
		o.maxBuf = 1 + vs.SizeBiased(c, len(input)+8, 4096, len(input)/2)
	}
	eff := input
	rdErr := io.EOF
	if len(input) > 0 && vs.Pct(c, 30) {
		k := c.Intn(len(input) + 1)
		eff = input[:k]
		rdErr = errHTInjected
	}
	mode := c.Intn(7)
	errWithData := vs.Bool(c)
	tape := vs.DrawTape(rt, vs.Thorough(256, 1024))
	tr.Ev("input len=%d %q", len(input), htClip(string(input)))
	tr.Ev("opts maxbuf=%d cdata=%d notraw=%v ctx=%q deliver=%d err=%v mode=%d errWithData=%v", o.maxBuf, o.cdataMode, o.notRawFor, o.contextTag, len(eff), rdErr, mode, errWithData)

	// ---- reference: a single-chunk read of the same bytes, same options
	ref, viol := htTokenize(&htReader{data: eff, finalErr: rdErr, single: true}, o, len(eff))
	if viol == nil {
		viol, _ = htCheckRaw("single-chunk", ref, eff, rdErr, o.maxBuf)
	}
	// ---- the unlimited tokenization (reference for SetMaxBuf)
	var unl htResult
	if viol == nil && o.maxBuf > 0 {
		ou := o
		ou.maxBuf = 0
		unl, viol = htTokenize(&htReader{data: eff, finalErr: rdErr, single: true}, ou, len(eff))
		if viol == nil {
			// The last token handed out under a limit may be a partial one (and its
			// data is not the property's business); everything before it must be
			// exactly what the unlimited tokenizer returns.
			viol = htCompare("maxbuf_changes_tokens", "limited-vs-unlimited", ref, unl, fmt.Sprintf("SetMaxBuf(%d)", o.maxBuf), "unlimited", true)
		}
	}
	// ---- the chunked run
	var got htResult
	rd := &htReader{data: eff, finalErr: rdErr, errWithData: errWithData, mode: mode, tape: tape}
	omitted := false
	if viol == nil {
		got, viol = htTokenize(rd, o, len(eff))
		for i, t := range got.toks {
			if i < 200 {
				tr.Ev("tok %v raw=%d data=%d attr=%d", t.typ, len(t.raw), len(t.data), len(t.attr))
			}
		}
		tr.Ev("end %v tokens=%d reads=%d zero=%d", got.finalErr, len(got.toks), rd.reads, rd.zeroReads)
		if viol == nil {
			viol, omitted = htCheckRaw("chunked", got, eff, rdErr, o.maxBuf)
		}
		if viol == nil {
			viol = htCompare("chunk_independence", "chunked-vs-single", got, ref, "chunked", "single-chunk", false)
		}
	}

	// ---- statistics
	if rd.errFired && rdErr == errHTInjected {
		vs.G.Inc("fault.read_error")
	}
	vs.G.Add("fault.zero_read", int64(rd.zeroReads))
	if rd.midToken {
		vs.G.Inc("probe.refill_mid_token")
	}
	if rd.liveAttrs {
		vs.G.Inc("probe.refill_with_live_attr_spans")
	}
	if rd.grown {
		vs.G.Inc("probe.buffer_grown")
	}
	if omitted {
		vs.G.Inc("probe.unterminated_tag_omitted")
	}
	if o.maxBuf > 0 {
		if got.finalErr == ErrBufferExceeded {
			vs.G.Inc("probe.maxbuf_stop")
		} else {
			vs.G.Inc("probe.maxbuf_completed")
		}
	}
	for i, t := range got.toks {
		if len(t.raw) > 2048 {
			vs.G.Inc("probe.token_over_2k")
		}
		if t.typ == TextToken && i > 0 && got.toks[i-1].typ == StartTagToken {
			switch got.toks[i-1].data {
			case "script", "style", "title", "textarea", "xmp", "iframe", "noembed", "noframes", "noscript", "plaintext":
				vs.G.Inc("probe.rawtext_token")
			}
		}
		if t.typ == TextToken && strings.HasPrefix(t.raw, "<![CDATA[") {
			vs.G.Inc("probe.cdata_as_text")
		}
	}
	vs.G.Add("tokens", int64(len(got.toks)))
	vs.G.Add("input_bytes", int64(len(eff)))
	vs.G.EndRun(tr, len(got.toks) > 0 && rd.reads > 1, 0, func() any {
		return map[string]any{"input": htClip(string(input)), "events": tr.Log[:min(len(tr.Log), 30)]}
	})
	vs.Report(rt, viol, tr)
}

func TestVerif_C39(t *testing.T) { vs.Check(t, htRun) }
