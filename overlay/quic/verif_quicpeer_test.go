// Engine quicpeer: ONE real quic.Conn (created through the package's newTestConn
// inside a synctest bubble, so its peer is the package's fake peer testConn)
// driven by GENERATED frame sequences. It covers the error-path halves of
// C20 (flow-control limits the conn advertises are enforced), C21 (stream-count
// limits are enforced, MAX_STREAMS bounded), C25 (ACKs of unsent / skipped packet
// numbers are refused, no packet is processed twice) and C32 (final sizes) - the
// parts a well-behaved real peer (engine quicnet) can never exercise.
// The send-side half of C20 against the same scripted peer (the conn's own STREAM
// frames judged against limits the fake peer dictates) is in
// verif_quicpeer_send_test.go (identifiers starting with qs).
//
// Every choice is drawn from rapid BEFORE the bubble is entered (a plan of
// relative operations plus raw auxiliary integers); inside the bubble the plan is
// resolved against what the conn has actually advertised (transport parameters it
// sent, MAX_DATA / MAX_STREAM_DATA / MAX_STREAMS frames read from its datagrams)
// and what the fake peer has actually written. One frame per packet, one packet
// per step; after every step the bubble quiesces and ALL output of the conn is
// read, so the reference model and the conn never disagree about order.
//
// All top-level identifiers of this file start with qp.

package quic

import (
	"context"
	"errors"
	"fmt"
	"io"
	"log/slog"
	"math/rand/v2"
	"runtime"
	"sort"
	"strings"
	"sync"
	"testing"
	"testing/synctest"
	"time"

	vs "golang.org/x/net/internal/verifsim"
	"pgregory.net/rapid"
)

// ---------------------------------------------------------------------------
// bubble: like vs.Bubble, but hands the bubble's own *testing.T to f (newTestConn
// registers its cleanups on it, so they run inside the bubble).

func qpBubble(t *testing.T, f func(t *testing.T)) (deadlock string) {
	var rootPanic any
	var rootStack []byte
	func() {
		defer func() {
			if r := recover(); r != nil {
				deadlock = fmt.Sprint(r)
			}
		}()
		synctest.Test(t, func(t *testing.T) {
			defer func() {
				if r := recover(); r != nil {
					rootPanic = r
					rootStack = make([]byte, 8192)
					rootStack = rootStack[:runtime.Stack(rootStack, false)]
				}
			}()
			f(t)
		})
	}()
	if rootPanic != nil {
		panic(fmt.Sprintf("%v\n(root goroutine of bubble)\n%s", rootPanic, rootStack))
	}
	return deadlock
}

// ---------------------------------------------------------------------------
// small reference structures (written for the oracle, not the package's rangeset)

type qpIv struct{ s, e int64 }

// qpSet is a sorted list of disjoint, non-adjacent half-open intervals.
type qpSet []qpIv

func (x qpSet) add(s, e int64) qpSet {
	if s >= e {
		return x
	}
	var out qpSet
	i := 0
	for i < len(x) && x[i].e < s {
		out = append(out, x[i])
		i++
	}
	for i < len(x) && x[i].s <= e {
		s = min(s, x[i].s)
		e = max(e, x[i].e)
		i++
	}
	out = append(out, qpIv{s, e})
	out = append(out, x[i:]...)
	return out
}

func (x qpSet) covers(s, e int64) bool {
	if s >= e {
		return true
	}
	for _, iv := range x {
		if iv.s <= s && e <= iv.e {
			return true
		}
	}
	return false
}

type qpPnSet map[packetNumber]bool

func (s qpPnSet) sorted() []packetNumber {
	out := make([]packetNumber, 0, len(s))
	for n := range s {
		out = append(out, n)
	}
	sort.Slice(out, func(i, j int) bool { return out[i] < out[j] })
	return out
}

// qpRanges turns a set of numbers into normalized ACK ranges (ascending,
// disjoint, non-adjacent), the form debugFrameAck.write expects.
func qpRanges(nums []packetNumber) []i64range[packetNumber] {
	sort.Slice(nums, func(i, j int) bool { return nums[i] < nums[j] })
	var out []i64range[packetNumber]
	for _, n := range nums {
		if k := len(out); k > 0 && out[k-1].end >= n {
			if out[k-1].end == n {
				out[k-1].end = n + 1
			}
			continue
		}
		out = append(out, i64range[packetNumber]{n, n + 1})
	}
	return out
}

func qpRangesString(rs []i64range[packetNumber]) string {
	var sb strings.Builder
	for _, r := range rs {
		fmt.Fprintf(&sb, "[%d,%d)", r.start, r.end)
	}
	return sb.String()
}

// qpByte is the content of stream id at offset off: every (re)transmission of a
// range carries the same bytes.
func qpByte(id streamID, off int64) byte {
	return byte(off*7 + int64(id)*13 + off>>8 + 1)
}

func qpData(id streamID, off int64, n int) []byte {
	b := make([]byte, n)
	for i := range b {
		b[i] = qpByte(id, off+int64(i))
	}
	return b
}

// ---------------------------------------------------------------------------
// qlog handler: counts transport:packet_received events per (packet type, number)

type qpQlog struct {
	mu   sync.Mutex
	recv map[string]int
	dup  string // first key seen twice
}

func newQpQlog() *qpQlog { return &qpQlog{recv: map[string]int{}} }

func (h *qpQlog) Enabled(_ context.Context, l slog.Level) bool { return l >= QLogLevelPacket }
func (h *qpQlog) WithAttrs([]slog.Attr) slog.Handler           { return h }
func (h *qpQlog) WithGroup(string) slog.Handler                { return h }
func (h *qpQlog) Handle(_ context.Context, r slog.Record) error {
	if r.Message != "transport:packet_received" {
		return nil
	}
	var typ string
	var pn uint64
	r.Attrs(func(a slog.Attr) bool {
		if a.Key == "header" && a.Value.Kind() == slog.KindGroup {
			for _, g := range a.Value.Group() {
				switch g.Key {
				case "packet_type":
					typ = g.Value.String()
				case "packet_number":
					pn = g.Value.Uint64()
				}
			}
		}
		return true
	})
	key := fmt.Sprintf("%s/%d", typ, pn)
	h.mu.Lock()
	h.recv[key]++
	if h.recv[key] > 1 && h.dup == "" {
		h.dup = key
	}
	h.mu.Unlock()
	return nil
}

func (h *qpQlog) firstDup() string {
	h.mu.Lock()
	defer h.mu.Unlock()
	return h.dup
}

func (h *qpQlog) count() int {
	h.mu.Lock()
	defer h.mu.Unlock()
	return len(h.recv)
}

// ---------------------------------------------------------------------------
// reference model of the receive side of the conn (what it advertised, what the
// peer sent). Built only from frames actually read / written.

type qpStream struct {
	id    streamID
	kind  string // "peer-bidi", "peer-uni", "local-bidi"
	limit int64  // largest MAX_STREAM_DATA the conn sent for it, or the initial limit
	last  int64  // last MAX_STREAM_DATA value seen (-1 none): monotonicity
	high  int64  // highest offset the peer has sent (accepted frames)
	final int64  // final size known from accepted frames, -1 unknown
	sent  qpSet  // byte ranges the peer has sent
	// reset bookkeeping (C32)
	resetCodes      []uint64
	reset           bool
	finBeforeReset  bool // a FIN had been processed before the first reset
	readAllAtReset  bool // ... and the application had read everything up to it
	readPos         int64
	app             *Stream
	appClosedRead   bool
	appClosedWrite  bool
	finishedCounted bool
	forgotten       bool // the application finished both directions: the conn may drop the stream
	referenced      bool // a frame naming exactly this stream was accepted
	peerFinSent     bool
	closeReadHigh   int64 // configuration peer-closeread: highest offset at the time of CloseRead (-1: not closed)
}

type qpModel struct {
	side       connSide // the conn's side
	initLocal  int64    // initial_max_stream_data_bidi_local the conn sent
	initRemote int64
	initUni    int64
	maxData    int64 // largest MAX_DATA the conn sent (or initial)
	lastData   int64
	sumHigh    int64
	maxStreams [streamTypeCount]int64 // largest MAX_STREAMS sent (or initial)
	lastStrms  [streamTypeCount]int64
	cfgStreams [streamTypeCount]int64 // configured maximum (from the plan, not the implementation)
	finished   [streamTypeCount]int64 // peer-initiated streams the application has fully finished
	opened     [streamTypeCount]int64 // peer's view: highest referenced number + 1
	streams    map[streamID]*qpStream
}

func (m *qpModel) kindOf(id streamID) string {
	if id.initiator() == m.side {
		if id.streamType() == uniStream {
			return "local-uni"
		}
		return "local-bidi"
	}
	if id.streamType() == uniStream {
		return "peer-uni"
	}
	return "peer-bidi"
}

func (m *qpModel) initialLimit(id streamID) int64 {
	switch m.kindOf(id) {
	case "local-bidi":
		return m.initLocal
	case "peer-bidi":
		return m.initRemote
	case "peer-uni":
		return m.initUni
	}
	return 0
}

// stream returns the model entry for id, creating a virtual one (not stored) if
// the stream is not known yet.
func (m *qpModel) stream(id streamID) (st *qpStream, known bool) {
	if st := m.streams[id]; st != nil {
		return st, true
	}
	return &qpStream{id: id, kind: m.kindOf(id), limit: m.initialLimit(id), last: -1, final: -1, closeReadHigh: -1}, false
}

func (m *qpModel) ensure(id streamID) *qpStream {
	st, known := m.stream(id)
	if !known {
		m.streams[id] = st
	}
	return st
}

// qpExpect is what RFC 9000 lets / makes the conn do with one frame.
type qpExpect struct {
	flow, final, limit bool
	dontCare           bool
	why                string
}

func (e qpExpect) any() bool { return e.flow || e.final || e.limit }

func (e qpExpect) allows(code transportError) bool {
	return e.flow && code == errFlowControl || e.final && code == errFinalSize || e.limit && code == errStreamLimit
}

func (e qpExpect) String() string {
	var s []string
	if e.flow {
		s = append(s, "FLOW_CONTROL_ERROR")
	}
	if e.final {
		s = append(s, "FINAL_SIZE_ERROR")
	}
	if e.limit {
		s = append(s, "STREAM_LIMIT_ERROR")
	}
	if e.dontCare {
		s = append(s, "dont-care")
	}
	if len(s) == 0 {
		return "accept"
	}
	return strings.Join(s, "|") + " (" + e.why + ")"
}

// classify says what a STREAM (end = off+len) or RESET_STREAM (end = final size,
// isFinal) frame for stream id amounts to, given everything processed before.
// onlyLimit is for frames that carry no offsets (MAX_STREAM_DATA, STOP_SENDING).
func (m *qpModel) classify(id streamID, end int64, isFinal, onlyLimit bool) qpExpect {
	var e qpExpect
	var why []string
	if id.initiator() != m.side {
		if num := id.num(); num >= m.maxStreams[id.streamType()] {
			e.limit = true
			why = append(why, fmt.Sprintf("stream number %d >= MAX_STREAMS %d", num, m.maxStreams[id.streamType()]))
		}
	}
	st, _ := m.stream(id)
	if !onlyLimit {
		if end > st.limit {
			e.flow = true
			why = append(why, fmt.Sprintf("offset %d > MAX_STREAM_DATA %d", end, st.limit))
		}
		if nh := max(st.high, end); m.sumHigh+nh-st.high > m.maxData {
			e.flow = true
			why = append(why, fmt.Sprintf("sum of offsets %d > MAX_DATA %d", m.sumHigh+nh-st.high, m.maxData))
		}
		if st.final != -1 && end > st.final {
			e.final = true
			why = append(why, fmt.Sprintf("offset %d beyond final size %d", end, st.final))
		}
		if isFinal && st.final != -1 && end != st.final {
			e.final = true
			why = append(why, fmt.Sprintf("final size %d != known %d", end, st.final))
		}
		if isFinal && end < st.high {
			e.final = true
			why = append(why, fmt.Sprintf("final size %d < received %d", end, st.high))
		}
		if st.forgotten && (e.flow || e.final) {
			e.dontCare = true
		}
	}
	e.why = strings.Join(why, "; ")
	return e
}

// apply records an accepted STREAM / RESET_STREAM frame.
func (m *qpModel) apply(id streamID, off, end int64, isFinal bool) *qpStream {
	st := m.ensure(id)
	st.referenced = true
	if id.initiator() != m.side {
		t := id.streamType()
		if n := id.num() + 1; n > m.opened[t] {
			m.opened[t] = n
		}
	}
	if end > st.high {
		m.sumHigh += end - st.high
		st.high = end
	}
	if isFinal {
		st.final = end
	}
	st.sent = st.sent.add(off, end)
	return st
}

// touch records an accepted offset-less frame naming the stream.
func (m *qpModel) touch(id streamID) *qpStream {
	st := m.ensure(id)
	st.referenced = true
	if id.initiator() != m.side {
		t := id.streamType()
		if n := id.num() + 1; n > m.opened[t] {
			m.opened[t] = n
		}
	}
	return st
}

// ---------------------------------------------------------------------------
// one run

type qpBase struct {
	side                                connSide
	cfgStream, cfgConn, cfgBidi, cfgUni int64 // raw Config values
	seed                                uint64
	qlog                                bool
	// C20 send side: the fake peer's transport parameters (nil: permissive) and
	// Config.MaxStreamWriteBufferSize
	peerTP   func(*transportParameters)
	writeBuf int64
}

func (b qpBase) String() string {
	return fmt.Sprintf("side=%v MaxStreamReadBufferSize=%d MaxConnReadBufferSize=%d MaxBidiRemoteStreams=%d MaxUniRemoteStreams=%d", b.side, b.cfgStream, b.cfgConn, b.cfgBidi, b.cfgUni)
}

type qpClose struct {
	transport bool
	code      transportError
	appCode   uint64
	reason    string
}

func (c *qpClose) String() string {
	if c == nil {
		return "none"
	}
	if c.transport {
		return fmt.Sprintf("CONNECTION_CLOSE(%v %q)", c.code, c.reason)
	}
	return fmt.Sprintf("CONNECTION_CLOSE(app %d %q)", c.appCode, c.reason)
}

type qpRun struct {
	t     *testing.T
	tc    *testConn
	tr    *vs.Trace
	focus string
	b     qpBase
	m     *qpModel
	ql    *qpQlog

	sentPn [numberSpaceCount]qpPnSet // packet numbers observed from the conn
	maxPn  [numberSpaceCount]packetNumber
	peerPn [numberSpaceCount]qpPnSet // packet numbers the fake peer has sent

	closed     *qpClose
	viol       *vs.Violation
	harness    string
	nontrivial bool
	peerFrames int

	localOpened int64 // local bidi streams the application has opened
	localUni    *Stream

	// C25
	hsAcked    qpPnSet // 1-RTT packet numbers acknowledged by the fake peer during the handshake
	pathSent   map[pathChallengeData]bool
	pathResp   map[pathChallengeData]int
	lastAction string
	connAckMin packetNumber // smallest number in the conn's most recent 1-RTT ACK frame

	outLog []string // frames seen in the current step (for the trace)

	send *qsState // C20 send side (TestVerif_C20_send)

	// C20 held-back phase (qpOpBulk): the application has written bulk data on
	// bulkID; the conn's STREAM frames for it are summarised in the trace
	bulk                  bool
	bulkID                streamID
	bulkFrames, bulkBytes int
	bulkEnd               int64
}

func (r *qpRun) setViol(v *vs.Violation) {
	if r.viol == nil && v != nil {
		r.viol = v
	}
}

func (r *qpRun) over() bool { return r.viol != nil || r.harness != "" || r.closed != nil }

func qpConfigDefault(v, def int64) int64 {
	switch {
	case v == 0:
		return def
	case v < 0:
		return 0
	}
	return v
}

func newQpRun(t *testing.T, tr *vs.Trace, focus string, b qpBase) *qpRun {
	r := &qpRun{t: t, tr: tr, focus: focus, b: b,
		pathSent: map[pathChallengeData]bool{}, pathResp: map[pathChallengeData]int{}, hsAcked: qpPnSet{}}
	for i := range r.sentPn {
		r.sentPn[i] = qpPnSet{}
		r.peerPn[i] = qpPnSet{}
		r.maxPn[i] = -1
	}
	if b.qlog {
		r.ql = newQpQlog()
	}
	cfgOpt := func(c *Config) {
		c.MaxStreamReadBufferSize = b.cfgStream
		c.MaxConnReadBufferSize = b.cfgConn
		c.MaxBidiRemoteStreams = b.cfgBidi
		c.MaxUniRemoteStreams = b.cfgUni
		c.MaxStreamWriteBufferSize = b.writeBuf
		c.MaxIdleTimeout = -1
		if r.ql != nil {
			c.QLogLogger = slog.New(r.ql)
		} else {
			c.QLogLogger = nil
		}
	}
	peerTP := b.peerTP
	if peerTP == nil {
		peerTP = permissiveTransportParameters
	}
	r.tc = newTestConn(t, b.side, cfgOpt, peerTP)
	// The conn's PRNG (only used to choose which packet numbers to skip) is seeded
	// from crypto/rand; reseed it from the plan before any 1-RTT packet exists.
	r.tc.conn.runOnLoop(context.Background(), func(now time.Time, c *Conn) {
		c.prng = rand.New(rand.NewPCG(b.seed, 0x9e3779b97f4a7c15))
		c.skip = skipState{}
		c.skip.init(c)
	})
	if !r.handshake() {
		if r.harness == "" {
			r.harness = "handshake with the fake peer did not complete; close=" + r.closed.String()
		}
		return r
	}
	tp := r.tc.sentTransportParameters
	if tp == nil {
		r.harness = "conn's transport parameters were not observed"
		return r
	}
	r.m = &qpModel{side: b.side, initLocal: tp.initialMaxStreamDataBidiLocal, initRemote: tp.initialMaxStreamDataBidiRemote,
		initUni: tp.initialMaxStreamDataUni, maxData: tp.initialMaxData, lastData: tp.initialMaxData,
		streams: map[streamID]*qpStream{}}
	r.m.maxStreams = [streamTypeCount]int64{bidiStream: tp.initialMaxStreamsBidi, uniStream: tp.initialMaxStreamsUni}
	r.m.lastStrms = r.m.maxStreams
	r.m.cfgStreams = [streamTypeCount]int64{bidiStream: qpConfigDefault(b.cfgBidi, 100), uniStream: qpConfigDefault(b.cfgUni, 100)}
	tr.Ev("conn %v; advertised initial: max_data=%d stream_data(local/remote/uni)=%d/%d/%d max_streams(bidi/uni)=%d/%d",
		b, tp.initialMaxData, tp.initialMaxStreamDataBidiLocal, tp.initialMaxStreamDataBidiRemote, tp.initialMaxStreamDataUni,
		tp.initialMaxStreamsBidi, tp.initialMaxStreamsUni)
	return r
}

// handshake is testConn.handshake without the assertions: it feeds the fake
// peer's handshake datagrams and records everything the conn sends.
func (r *qpRun) handshake() bool {
	tc := r.tc
	saved := tc.ignoreFrames
	tc.ignoreFrames = nil
	defer func() { tc.ignoreFrames = saved }()
	dgrams := handshakeDatagrams(tc)
	i := 0
	for {
		if i == len(dgrams)-1 {
			time.Sleep(maxAckDelay - timerGranularity)
		}
		r.observe(tc.readDatagram())
		if !(tc.conn.side == serverSide && i == 0) && i < len(dgrams) {
			fillCryptoFrames(dgrams[i], tc.cryptoDataOut)
			i++
		}
		if i >= len(dgrams) {
			break
		}
		fillCryptoFrames(dgrams[i], tc.cryptoDataIn)
		for _, p := range dgrams[i].packets {
			r.peerPn[spaceForPacketType(p.ptype)][p.num] = true
			if p.ptype == packetType1RTT {
				for _, f := range p.frames {
					if ack, ok := f.(debugFrameAck); ok {
						for _, n := range qpFlatten(ack.ranges) {
							r.hsAcked[n] = true
						}
					}
				}
			}
		}
		tc.write(dgrams[i])
		i++
	}
	r.drain()
	r.outLog = nil
	ok := false
	tc.conn.runOnLoop(context.Background(), func(now time.Time, c *Conn) {
		ok = c.handshakeConfirmed.isSet() && c.lifetime.state == connStateAlive
	})
	return ok && r.closed == nil
}

// drain reads everything the conn has sent.
func (r *qpRun) drain() {
	for {
		d := r.tc.readDatagram()
		if d == nil {
			return
		}
		r.observe(d)
	}
}

func (r *qpRun) observe(d *testDatagram) {
	if d == nil {
		return
	}
	for _, p := range d.packets {
		if p.ptype == packetTypeRetry {
			continue
		}
		space := spaceForPacketType(p.ptype)
		if r.sentPn[space][p.num] {
			r.setViol(vs.Violf("C25", "conn_reused_packet_number", "reuse:"+space.String(), "conn sent packet number %d twice in space %v", p.num, space))
		}
		r.sentPn[space][p.num] = true
		if p.num > r.maxPn[space] {
			r.maxPn[space] = p.num
		}
		for _, f := range p.frames {
			r.onFrame(space, p.num, f)
		}
	}
}

func (r *qpRun) onFrame(space numberSpace, pn packetNumber, f debugFrame) {
	if r.send != nil && space == appDataSpace {
		r.send.onConnFrame(pn, f)
	}
	switch f := f.(type) {
	case debugFramePadding, debugFramePing:
		return
	case debugFrameAck:
		for _, rg := range f.ranges {
			for n := rg.start; n < rg.end; n++ {
				if !r.peerPn[space][n] {
					r.setViol(vs.Violf("C25", "ack_of_unreceived", "ack_unreceived:"+space.String(),
						"conn's ACK frame %v in packet %d acknowledges %v packet %d which the fake peer never sent", f, pn, space, n))
					return
				}
			}
		}
		if space == appDataSpace && len(f.ranges) > 0 {
			r.connAckMin = f.ranges[0].start
			if r.focus == "C25" {
				r.outLog = append(r.outLog, "ACK"+qpRangesString(f.ranges))
			}
		}
		return
	case debugFrameMaxData:
		if r.m != nil {
			if f.max < r.m.lastData {
				r.setViol(vs.Violf("C20", "max_data_decreased", "max_data_decreased", "MAX_DATA %d sent after %d", f.max, r.m.lastData))
			}
			r.m.lastData = f.max
			if f.max > r.m.maxData {
				r.m.maxData = f.max
			}
			vs.G.Inc("probe.max_data_seen")
		}
	case debugFrameMaxStreamData:
		if r.m != nil {
			st := r.m.ensure(f.id)
			prev := st.last
			if prev < 0 {
				prev = r.m.initialLimit(f.id)
			}
			if f.max < prev {
				r.setViol(vs.Violf("C20", "max_stream_data_decreased", "max_stream_data_decreased:"+st.kind, "MAX_STREAM_DATA(%d) %d sent after %d", f.id, f.max, prev))
			}
			st.last = f.max
			if f.max > st.limit {
				st.limit = f.max
			}
			vs.G.Inc("probe.max_stream_data_seen")
		}
	case debugFrameMaxStreams:
		if r.m != nil {
			t := f.streamType
			if f.max < r.m.lastStrms[t] {
				r.setViol(vs.Violf("C21", "max_streams_decreased", "max_streams_decreased:"+t.String(), "MAX_STREAMS(%v) %d sent after %d", t, f.max, r.m.lastStrms[t]))
			}
			if bound := r.m.finished[t] + r.m.cfgStreams[t]; f.max > bound {
				r.setViol(vs.Violf("C21", "max_streams_exceeds_open_bound", "max_streams_bound:"+t.String(),
					"MAX_STREAMS(%v) %d > %d streams fully finished by the application + configured maximum %d: the peer could hold more than the configured number of streams open", t, f.max, r.m.finished[t], r.m.cfgStreams[t]))
			}
			r.m.lastStrms[t] = f.max
			if f.max > r.m.maxStreams[t] {
				r.m.maxStreams[t] = f.max
			}
			vs.G.Inc("probe.max_streams_seen")
		}
	case debugFrameConnectionCloseTransport:
		if r.closed == nil {
			r.closed = &qpClose{transport: true, code: f.code, reason: f.reason}
		}
	case debugFrameConnectionCloseApplication:
		if r.closed == nil {
			r.closed = &qpClose{appCode: f.code, reason: f.reason}
		}
	case debugFrameStream:
		if r.bulk && f.id == r.bulkID && len(f.data) > 0 {
			// the conn's own bulk data: one summary line per step instead of one per frame
			r.bulkFrames++
			r.bulkBytes += len(f.data)
			r.bulkEnd = max(r.bulkEnd, f.off+int64(len(f.data)))
			return
		}
	case debugFramePathResponse:
		r.pathResp[f.data]++
		if !r.pathSent[f.data] {
			r.setViol(vs.Violf("C25", "path_response_unknown", "path_response_unknown", "PATH_RESPONSE %x answers no PATH_CHALLENGE the peer sent", f.data))
		} else if r.pathResp[f.data] > 1 {
			r.setViol(vs.Violf("C25", "frame_processed_twice", "path_response_twice:"+r.lastAction,
				"PATH_RESPONSE %x sent %d times: the packet carrying the one PATH_CHALLENGE with this data was processed more than once (last action: %s)", f.data, r.pathResp[f.data], r.lastAction))
		}
	}
	r.outLog = append(r.outLog, fmt.Sprint(f))
}

func (r *qpRun) flushLog(label string) {
	if r.bulkFrames > 0 {
		r.outLog = append(r.outLog, fmt.Sprintf("%d STREAM frames of the application's bulk data on stream %d, %d bytes, up to offset %d", r.bulkFrames, r.bulkID, r.bulkBytes, r.bulkEnd))
		r.bulkFrames, r.bulkBytes = 0, 0
	}
	if len(r.outLog) > 0 {
		r.tr.Ev("%s -> %s", label, strings.Join(r.outLog, ", "))
	} else {
		r.tr.Ev("%s", label)
	}
	r.outLog = nil
}

// peerSend writes one 1-RTT packet with one frame and reads all output.
func (r *qpRun) peerSend(f debugFrame) {
	pn := r.tc.peerNextPacketNum[appDataSpace]
	r.peerPn[appDataSpace][pn] = true
	r.tc.writeFrames(packetType1RTT, f)
	r.peerFrames++
	r.drain()
}

// peerSendPn writes a 1-RTT packet with an explicit packet number (C25 replays).
func (r *qpRun) peerSendPn(pn packetNumber, frames ...debugFrame) {
	tc := r.tc
	dst := tc.conn.connIDState.local[0].cid
	if tc.conn.connIDState.local[0].seq == -1 {
		dst = tc.conn.connIDState.local[1].cid
	}
	r.peerPn[appDataSpace][pn] = true
	tc.write(&testDatagram{
		packets: []*testPacket{{ptype: packetType1RTT, num: pn, keyNumber: tc.sendKeyNumber, keyPhaseBit: tc.sendKeyPhaseBit,
			frames: frames, version: quicVersion1, dstConnID: dst, srcConnID: tc.peerConnID}},
		addr: tc.conn.peerAddr,
	})
	r.peerFrames++
	r.drain()
}

// ackAll acknowledges exactly the 1-RTT packets observed so far (a valid ACK).
func (r *qpRun) ackAll() {
	nums := r.sentPn[appDataSpace].sorted()
	if len(nums) == 0 {
		return
	}
	rs := qpRanges(nums)
	if len(rs) > 32 {
		rs = rs[len(rs)-32:]
	}
	r.peerSend(debugFrameAck{ranges: rs})
	r.flushLog("peer: ACK of everything received " + qpRangesString(rs))
	if r.closed != nil {
		r.setViol(vs.Violf("C25", "valid_ack_closed_conn", "valid_ack_closed:ackall", "ACK %s of packets the conn really sent closed the connection: %v", qpRangesString(rs), r.closed))
	}
}

// judge compares the conn's reaction to one peer frame with the expectation.
func (r *qpRun) judge(e qpExpect, sig, desc string) (accepted bool) {
	closed := r.closed != nil
	if e.dontCare {
		vs.G.Inc("probe.dont_care_frame")
		return !closed
	}
	propFor := func() string {
		switch {
		case r.focus == "C20" && e.flow, r.focus == "C21" && e.limit, r.focus == "C32" && e.final:
			return r.focus
		case e.flow:
			return "C20"
		case e.final:
			return "C32"
		case e.limit:
			return "C21"
		}
		return r.focus
	}
	kind := func() string {
		switch propFor() {
		case "C20":
			return "flow_control"
		case "C21":
			return "stream_limit"
		case "C32":
			return "final_size"
		}
		return "limit"
	}
	switch {
	case e.any() && !closed:
		r.setViol(vs.Violf(propFor(), kind()+"_not_enforced", sig, "%s: %s, but the conn sent no CONNECTION_CLOSE", desc, e))
		return true
	case e.any() && closed:
		if !r.closed.transport || !e.allows(r.closed.code) {
			r.setViol(vs.Violf(propFor(), kind()+"_wrong_close", sig, "%s: expected %s, conn sent %v", desc, e, r.closed))
		} else {
			vs.G.Inc("fault.refused_" + r.closed.code.String())
		}
		return false
	case closed:
		prop, oracle := r.focus, "unexpected_close"
		if r.closed.transport {
			switch r.closed.code {
			case errFlowControl:
				prop, oracle = "C20", "spurious_flow_control_error"
			case errStreamLimit:
				prop, oracle = "C21", "spurious_stream_limit_error"
			case errFinalSize:
				prop, oracle = "C32", "spurious_final_size_error"
			}
		}
		r.setViol(vs.Violf(prop, oracle, sig, "%s is within everything the conn advertised and consistent with all earlier frames, but the conn sent %v", desc, r.closed))
		return false
	}
	return true
}

// appStream returns the application's handle for a peer-initiated stream,
// accepting streams until it shows up (nil if the conn never delivered it).
func (r *qpRun) appStream(st *qpStream) *Stream {
	if st.app != nil {
		return st.app
	}
	for {
		s, err := r.tc.conn.AcceptStream(canceledContext())
		if err != nil {
			return nil
		}
		s.SetReadContext(canceledContext())
		s.SetWriteContext(canceledContext())
		ast := r.m.ensure(streamID(s.ID()))
		ast.app = s
		if ast == st {
			return s
		}
	}
}

// openLocal makes the application open local bidirectional streams up to number k.
func (r *qpRun) openLocal(k int64) *qpStream {
	for r.localOpened <= k {
		s, err := r.tc.conn.NewStream(canceledContext())
		if err != nil {
			r.harness = "NewStream: " + err.Error()
			return nil
		}
		s.SetReadContext(canceledContext())
		s.SetWriteContext(canceledContext())
		s.Write([]byte{1})
		s.Flush()
		st := r.m.ensure(streamID(s.ID()))
		st.app = s
		st.appClosedWrite = false
		r.localOpened++
		r.drain()
		r.flushLog(fmt.Sprintf("app: NewStream %d", s.ID()))
	}
	return r.m.ensure(newStreamID(r.b.side, bidiStream, k))
}

// appRead reads up to n bytes (non-blocking) and checks them.
// It returns the number of bytes and the error of the Read.
func (r *qpRun) appRead(st *qpStream, n int) (int, error) {
	s := r.appStream(st)
	if s == nil {
		return 0, errors.New("not accepted")
	}
	buf := make([]byte, n)
	var got int
	var err error
	if v := vs.Guard(r.focus, "read_panic", func() { got, err = s.Read(buf) }); v != nil {
		r.setViol(v)
		return 0, errors.New("panic")
	}
	prop := r.focus
	if prop != "C32" {
		prop = "C20"
	}
	if got > 0 {
		if !st.sent.covers(st.readPos, st.readPos+int64(got)) {
			r.setViol(vs.Violf(prop, "delivered_unsent_bytes", "delivered_unsent:"+st.kind, "stream %d: Read returned offsets [%d,%d) but the peer only sent %v", st.id, st.readPos, st.readPos+int64(got), st.sent))
		} else {
			for i := 0; i < got; i++ {
				if buf[i] != qpByte(st.id, st.readPos+int64(i)) {
					r.setViol(vs.Violf(prop, "delivered_wrong_bytes", "delivered_wrong:"+st.kind, "stream %d: byte at offset %d is %#x, the peer sent %#x", st.id, st.readPos+int64(i), buf[i], qpByte(st.id, st.readPos+int64(i))))
					break
				}
			}
		}
		st.readPos += int64(got)
	}
	if err == io.EOF {
		legit := st.final != -1 && st.readPos == st.final && st.sent.covers(0, st.final) && (!st.reset || st.readAllAtReset)
		switch {
		case st.reset && !legit:
			r.setViol(vs.Violf("C32", "eof_after_reset", "eof_after_reset:"+st.kind, "stream %d: Read returned io.EOF after RESET_STREAM %v was processed (fin before reset: %v, read pos %d, final size %d)", st.id, st.resetCodes, st.finBeforeReset, st.readPos, st.final))
		case !legit:
			r.setViol(vs.Violf(prop, "premature_eof", "premature_eof:"+st.kind, "stream %d: Read returned io.EOF at offset %d, final size %d, sent %v", st.id, st.readPos, st.final, st.sent))
		}
	}
	r.drain()
	return got, err
}

// ---------------------------------------------------------------------------
// plan shared by C20 and C32: a stream workload

const (
	qpOpData = iota
	qpOpReset
	qpOpRead
	qpOpAckAll
	qpOpCloseRead
	qpOpBulk // C20 held-back phase only (never drawn by weight): application bulk Write + Flush
)

// data modes
const (
	qpDNext = iota
	qpDDup
	qpDOverlap
	qpDGap
	qpDAtStreamLimit
	qpDOverStream1
	qpDOverStreamFar
	qpDAtConnLimit
	qpDOverConn1
	qpDOverConnFar
	qpDAtFinal
	qpDBeyondFinal
	qpDFinBelowHigh
	qpDFinOther
	qpDModes
)

var qpDName = [...]string{"next", "dup", "overlap", "gap", "at_stream_limit", "stream_limit_plus_1", "stream_limit_far", "at_conn_limit", "conn_limit_plus_1", "conn_limit_far", "at_final", "beyond_final", "fin_below_received", "fin_other_size"}

// reset modes
const (
	qpRAtHigh = iota
	qpRAtFinal
	qpRAhead
	qpRAtStreamLimit
	qpROverStream1
	qpROverFar
	qpRAtConnLimit
	qpROverConn1
	qpRBelowHigh
	qpROtherFinal
	qpRModes
)

var qpRName = [...]string{"at_received", "at_final", "ahead", "at_stream_limit", "stream_limit_plus_1", "limit_far", "at_conn_limit", "conn_limit_plus_1", "below_received", "other_final"}

type qpOp struct {
	kind, s, mode, n, a int
	far                 int
	fin                 bool
	code                uint64
	hold                bool // C20 held-back phase: the fake peer sends no ACK before / as this operation
}

type qpSlot struct {
	kind string
	id   streamID
}

type qpStreamPlan struct {
	base  qpBase
	slots []qpSlot
	ops   []qpOp
	held  bool // a held-back phase was spliced into ops (qpSpliceHeldBack)
}

func qpDrawLimit(c vs.Chooser, allowSpecial bool) int64 {
	k := 6
	if allowSpecial {
		k = 8
	}
	switch c.Intn(k) {
	case 0:
		return int64(vs.Range(c, 1, 16))
	case 1, 2:
		return int64(vs.Range(c, 17, 300))
	case 3, 4:
		return int64(vs.Range(c, 301, 3000))
	case 5:
		return int64(vs.Range(c, 3001, 70000))
	case 6:
		return 0 // default (1 MiB)
	default:
		return -1 // zero
	}
}

func qpDrawSlots(c vs.Chooser, side connSide, maxSlots int) []qpSlot {
	n := vs.Range(c, 1, maxSlots)
	var slots []qpSlot
	var cnt [3]int64
	for i := 0; i < n; i++ {
		switch c.Intn(3) {
		case 0:
			slots = append(slots, qpSlot{"peer-bidi", newStreamID(side.peer(), bidiStream, cnt[0])})
			cnt[0]++
		case 1:
			slots = append(slots, qpSlot{"peer-uni", newStreamID(side.peer(), uniStream, cnt[1])})
			cnt[1]++
		default:
			slots = append(slots, qpSlot{"local-bidi", newStreamID(side, bidiStream, cnt[2])})
			cnt[2]++
		}
	}
	return slots
}

func qpWeighted(c vs.Chooser, w []int) int {
	total := 0
	for _, x := range w {
		total += x
	}
	v := c.Intn(total)
	for i, x := range w {
		if v < x {
			return i
		}
		v -= x
	}
	return 0
}

func qpDrawStreamPlan(rt *rapid.T, focus string) qpStreamPlan {
	c := vs.RapidChooser{T: rt}
	var p qpStreamPlan
	p.base.side = vs.Pick(c, serverSide, clientSide)
	p.base.seed = uint64(c.Intn(1 << 30))
	var dataW, resetW []int
	var kindW []int
	if focus == "C20" {
		p.base.cfgStream = qpDrawLimit(c, true)
		p.base.cfgConn = qpDrawLimit(c, true)
		if vs.Pct(c, 50) && p.base.cfgStream > 0 {
			// connection limit of the order of a few stream windows
			p.base.cfgConn = max(1, p.base.cfgStream*int64(vs.Range(c, 1, 5))/2+int64(c.Intn(8))-4)
		}
		//            next dup ovl gap atS S+1 Sfar atC C+1 Cfar atF byF finB finO
		dataW = []int{10, 4, 4, 3, 6, 5, 2, 6, 5, 2, 0, 0, 0, 0}
		//             atH atF ahd atS S+1 far atC C+1 blw oth
		resetW = []int{4, 0, 3, 3, 3, 1, 3, 3, 0, 0}
		kindW = []int{14, 3, 7, 2, 0} // data reset read ack closeread
		if vs.Config() == "peer-closeread" {
			// not a registered job: explores what the conn does with data that
			// arrives after the application's CloseRead (see the engine's assumptions)
			kindW[4] = 3
		}
	} else {
		p.base.cfgStream = vs.Pick(c, int64(0), 4000, 200, 64)
		p.base.cfgConn = vs.Pick(c, int64(0), 20000, 1000)
		dataW = []int{8, 3, 3, 2, 1, 1, 0, 0, 0, 0, 6, 5, 4, 4}
		resetW = []int{5, 5, 3, 1, 1, 0, 0, 0, 4, 5}
		kindW = []int{12, 7, 5, 1, 0}
		if vs.Config() == "peer-closeread" {
			// the application read-closes streams in mid-history: data that arrives
			// afterwards is discarded but still fixes the highest offset, and a final
			// size below it is an error
			kindW[4] = 3
		}
	}
	p.slots = qpDrawSlots(c, p.base.side, 4)
	nops := vs.Range(c, 1, vs.Thorough(30, 60))
	for i := 0; i < nops; i++ {
		op := qpOp{kind: qpWeighted(c, kindW), s: c.Intn(len(p.slots))}
		switch op.kind {
		case qpOpData:
			op.mode = qpWeighted(c, dataW)
			op.n = vs.SizeBiased(c, 1000, 1, 2)
			op.a = c.Intn(1 << 16)
			op.far = vs.SizeBiased(c, 1<<20, 1, 1000)
			if focus == "C20" {
				op.fin = vs.Pct(c, 12)
			} else {
				op.fin = vs.Pct(c, 35)
			}
		case qpOpReset:
			op.mode = qpWeighted(c, resetW)
			op.a = c.Intn(1 << 16)
			op.far = vs.SizeBiased(c, 1<<20, 1, 1000)
			op.code = uint64(c.Intn(5))
		case qpOpRead, qpOpCloseRead:
			op.n = vs.SizeBiased(c, 4096, 1)
			if op.n == 0 {
				op.n = 1
			}
			op.mode = c.Intn(4) // 0: read until it would block
		}
		p.ops = append(p.ops, op)
	}
	if focus == "C20" && vs.Config() != "peer-closeread" && vs.Pct(c, 30) {
		// (drawn last, and not in configuration peer-closeread, so that the draws of
		// every other plan are what they were before this phase existed)
		qpSpliceHeldBack(c, &p)
	}
	return p
}

// qpSpliceHeldBack inserts a "held-back" phase into a C20 plan: the conn cannot
// send ack-eliciting packets (hence no MAX_DATA / MAX_STREAM_DATA) because its own
// bulk data fills the congestion window and the fake peer withholds every ACK,
// while the application goes on reading and the peer goes on probing the limits.
// The limits that count are still only those in frames the conn has really sent.
//
//	fill:   1-10 in-order STREAM frames of the peer (mostly 1000 bytes, clamped to
//	        what the conn advertised), before or after the bulk write
//	bulk:   the application writes 1..200000 bytes (mostly 13000..40000, more than
//	        the initial congestion window) on a bidirectional stream and flushes
//	read:   the application reads the filled stream (or every stream) until it
//	        would block
//	probes: 1-2 STREAM / RESET_STREAM frames, mostly exactly at / one beyond / far
//	        beyond the connection limit
//	tail:   the next 0-8 operations of the plan, still without any ACK
//
// No clock advance happens in these jobs, so no PTO probe (which would bypass the
// congestion window) is sent during the phase.
func qpSpliceHeldBack(c vs.Chooser, p *qpStreamPlan) {
	p.held = true
	at := c.Intn(min(len(p.ops), 6) + 1)
	rs := c.Intn(len(p.slots))
	var fill, phase []qpOp
	for i, k := 0, vs.Range(c, 1, 10); i < k; i++ {
		op := qpOp{kind: qpOpData, s: rs, mode: qpDNext, n: 1000, hold: true}
		if vs.Pct(c, 25) {
			op.n = max(1, vs.SizeBiased(c, 1000, 1, 2))
		}
		if vs.Pct(c, 20) {
			op.s = c.Intn(len(p.slots))
		}
		fill = append(fill, op)
	}
	bulk := qpOp{kind: qpOpBulk, s: c.Intn(len(p.slots) + 1), hold: true} // s == len(slots): a conn-initiated stream of its own
	switch c.Intn(8) {
	case 0, 1, 2, 3:
		bulk.n = vs.Range(c, 13000, 40000)
	case 4, 5:
		bulk.n = vs.Range(c, 40001, 100000)
	case 6:
		bulk.n = vs.Range(c, 100001, 200000)
	default:
		bulk.n = vs.Range(c, 1, 12999) // may leave the congestion window open
	}
	if vs.Bool(c) {
		phase = append(append(phase, fill...), bulk)
	} else {
		phase = append(append(phase, bulk), fill...)
	}
	if vs.Pct(c, 40) {
		for i := range p.slots {
			phase = append(phase, qpOp{kind: qpOpRead, s: i, n: 4096, hold: true})
		}
	} else {
		phase = append(phase, qpOp{kind: qpOpRead, s: rs, n: 4096, hold: true})
	}
	for i, k := 0, vs.Range(c, 1, 2); i < k; i++ {
		op := qpOp{s: rs, hold: true, a: c.Intn(1 << 16), far: vs.SizeBiased(c, 1<<20, 1, 1000)}
		if vs.Pct(c, 40) {
			op.s = c.Intn(len(p.slots))
		}
		if vs.Pct(c, 15) {
			op.kind = qpOpReset
			op.mode = vs.Pick(c, qpROverConn1, qpRAtConnLimit, qpROverFar, qpRAhead)
			op.code = uint64(c.Intn(5))
		} else {
			op.kind = qpOpData
			//                         next dup ovl gap atS S+1 Sfar atC C+1 Cfar
			op.mode = qpWeighted(c, []int{1, 0, 0, 0, 1, 1, 0, 3, 5, 3})
			op.n = vs.SizeBiased(c, 1000, 1, 2)
		}
		phase = append(phase, op)
	}
	tail := c.Intn(9)
	ops := append([]qpOp{}, p.ops[:at]...)
	ops = append(ops, phase...)
	for i, op := range p.ops[at:] {
		op.hold = i < tail
		ops = append(ops, op)
	}
	p.ops = ops
}

// slotStream returns the model stream of a slot, opening local streams first.
func (r *qpRun) slotStream(sl qpSlot) *qpStream {
	if sl.kind == "local-bidi" {
		return r.openLocal(sl.id.num())
	}
	st, _ := r.m.stream(sl.id)
	return st
}

func (r *qpRun) connRoom(st *qpStream) int64 {
	return r.m.maxData - (r.m.sumHigh - st.high)
}

// resolveData turns a data op into (off, len, fin) against the current model.
func (r *qpRun) resolveData(st *qpStream, op qpOp) (off int64, n int, fin bool) {
	H, L, F := st.high, st.limit, st.final
	room := r.connRoom(st)
	n = op.n
	fin = op.fin
	byEnd := func(end int64) {
		if end < 0 {
			end = 0
		}
		n = int(min(int64(n), end))
		off = end - int64(n)
	}
	// the well-behaved modes stay within everything advertised
	allowed := min(L, room)
	if F >= 0 {
		allowed = min(allowed, F)
	}
	clamp := func() {
		if int64(n) > allowed-off {
			n = int(max(0, allowed-off))
		}
	}
	switch op.mode {
	case qpDNext:
		off = H
		clamp()
	case qpDDup:
		if len(st.sent) == 0 {
			off = H
			break
		}
		iv := st.sent[op.a%len(st.sent)]
		size := iv.e - iv.s
		o := int64(op.a>>4) % size
		off = iv.s + o
		n = int(min(int64(max(n, 1)), iv.e-off))
		fin = false
	case qpDOverlap:
		if H == 0 {
			off = 0
			break
		}
		off = int64(op.a) % H
		clamp()
	case qpDGap:
		off = H + 1 + int64(op.a%64)
		if off >= allowed {
			off = H
		}
		clamp()
	case qpDAtStreamLimit:
		byEnd(L)
	case qpDOverStream1:
		byEnd(L + 1)
	case qpDOverStreamFar:
		byEnd(L + 2 + int64(op.far))
	case qpDAtConnLimit:
		byEnd(room)
	case qpDOverConn1:
		byEnd(room + 1)
	case qpDOverConnFar:
		byEnd(room + 2 + int64(op.far))
	case qpDAtFinal:
		if F < 0 {
			F = H
		}
		byEnd(F)
	case qpDBeyondFinal:
		if F < 0 {
			off = H
			break
		}
		if n == 0 {
			n = 1
		}
		byEnd(F + 1 + int64(op.a%8))
		fin = op.fin && op.a&0x100 != 0
	case qpDFinBelowHigh:
		fin = true
		if H == 0 {
			off = 0
			break
		}
		byEnd(H - 1 - int64(op.a)%H)
	case qpDFinOther:
		fin = true
		if F < 0 {
			off = H
			break
		}
		d := 1 + int64(op.a%16)
		if op.a&0x100 != 0 && F-d >= 0 {
			byEnd(F - d)
		} else {
			byEnd(F + d)
		}
	}
	if n > 1000 {
		n = 1000
	}
	return off, n, fin
}

func (r *qpRun) resolveReset(st *qpStream, op qpOp) int64 {
	H, L, F := st.high, st.limit, st.final
	room := r.connRoom(st)
	var fs int64
	switch op.mode {
	case qpRAtHigh:
		fs = H
	case qpRAtFinal:
		fs = F
		if F < 0 {
			fs = H
		}
	case qpRAhead:
		fs = H + int64(op.a%64)
	case qpRAtStreamLimit:
		fs = L
	case qpROverStream1:
		fs = L + 1
	case qpROverFar:
		fs = max(L, room) + 2 + int64(op.far)
	case qpRAtConnLimit:
		fs = room
	case qpROverConn1:
		fs = room + 1
	case qpRBelowHigh:
		if H == 0 {
			fs = 0
		} else {
			fs = H - 1 - int64(op.a)%H
		}
	case qpROtherFinal:
		if F < 0 {
			fs = H + 1
		} else {
			d := 1 + int64(op.a%16)
			if op.a&0x100 != 0 && F-d >= 0 {
				fs = F - d
			} else {
				fs = F + d
			}
		}
	}
	if fs < 0 {
		fs = 0
	}
	return fs
}

// sendStreamFrame sends one STREAM frame and judges the reaction.
func (r *qpRun) sendStreamFrame(st *qpStream, off int64, n int, fin bool, mode string) {
	end := off + int64(n)
	pend := r.unsentMaxData() // statistics only; read (and the conn's output drained) before the frame is classified
	e := r.m.classify(st.id, end, fin, false)
	// keep each check focused: frames that only break a property another job
	// owns would end the run without testing anything here.
	if (r.focus == "C20" && (e.final || e.limit) && !e.flow) || (r.focus == "C21" && (e.final || e.flow) && !e.limit) {
		vs.G.Inc("gen.skipped_foreign_frame")
		return
	}
	wasKnownHigh, wasLimit, wasRoom, wasSum, wasMaxData := st.high, st.limit, r.connRoom(st), r.m.sumHigh, r.m.maxData
	dup := st.sent.covers(off, end) && n > 0
	f := debugFrameStream{id: st.id, off: off, data: qpData(st.id, off, n), fin: fin}
	r.probeHeldBack(pend, end, wasRoom)
	r.peerSend(f)
	desc := fmt.Sprintf("peer: %v [%s] (stream %s: received %d, limit %d, final %d; conn: sum %d, MAX_DATA %d)", f, mode, st.kind, wasKnownHigh, wasLimit, st.final, wasSum, wasMaxData)
	r.flushLog(desc + " expect " + e.String())
	r.nontrivial = true
	r.probeFrame(e, end, wasLimit, wasRoom, dup, false)
	sig := "stream:" + mode + ":" + st.kind
	if st.closeReadHigh >= 0 {
		sig = "stream:after_close_read:" + mode + ":" + st.kind
	}
	if st.reset && !e.any() {
		// a (re)transmission that agrees with the RESET_STREAM processed before
		sig = "stream:consistent_after_reset:" + qpReadTag(st) + ":" + st.kind
	}
	if fin && st.final >= 0 && end == st.final && !e.any() {
		vs.G.Inc("probe.consistent_final_repeat")
	}
	if r.judge(e, sig, desc) && !e.any() {
		st = r.m.apply(st.id, off, end, fin)
		if fin {
			st.peerFinSent = true
		}
	}
}

func (r *qpRun) sendResetFrame(st *qpStream, fs int64, code uint64, mode string) {
	pend := r.unsentMaxData()
	e := r.m.classify(st.id, fs, true, false)
	if (r.focus == "C20" && (e.final || e.limit) && !e.flow) || (r.focus == "C21" && (e.final || e.flow) && !e.limit) {
		vs.G.Inc("gen.skipped_foreign_frame")
		return
	}
	wasHigh, wasLimit, wasRoom, wasSum, wasMaxData := st.high, st.limit, r.connRoom(st), r.m.sumHigh, r.m.maxData
	f := debugFrameResetStream{id: st.id, code: code, finalSize: fs}
	r.probeHeldBack(pend, fs, wasRoom)
	r.peerSend(f)
	desc := fmt.Sprintf("peer: %v [%s] (stream %s: received %d, limit %d, final %d; conn: sum %d, MAX_DATA %d)", f, mode, st.kind, wasHigh, wasLimit, st.final, wasSum, wasMaxData)
	r.flushLog(desc + " expect " + e.String())
	r.nontrivial = true
	r.probeFrame(e, fs, wasLimit, wasRoom, false, true)
	sig := "reset:" + mode + ":" + st.kind
	if st.closeReadHigh >= 0 {
		sig = "reset:after_close_read:" + mode + ":" + st.kind
	}
	if st.reset && !e.any() {
		sig = "reset:repeat_of_reset:" + qpReadTag(st) + ":" + st.kind
	}
	if st.final >= 0 && fs == st.final && !e.any() {
		vs.G.Inc("probe.consistent_final_repeat")
	}
	if r.judge(e, sig, desc) && !e.any() {
		st = r.m.apply(st.id, fs, fs, true)
		if !st.reset {
			st.reset = true
			st.finBeforeReset = st.peerFinSent
			st.readAllAtReset = st.peerFinSent && st.readPos == st.final
			vs.G.Inc("probe.reset_processed")
		}
		st.resetCodes = append(st.resetCodes, code)
	}
}

// qpReadTag says whether the application had read from the stream (part of the
// signature of findings about frames that follow a reset).
func qpReadTag(st *qpStream) string {
	if st.readPos > 0 {
		return "after_app_read"
	}
	return "no_app_read"
}

func (r *qpRun) probeFrame(e qpExpect, end, limit, room int64, dup, reset bool) {
	switch {
	case e.flow:
		vs.G.Inc("fault.peer_exceeds_flow_limit")
		if end > limit {
			vs.G.Inc("probe.stream_limit_exceeded")
			if end == limit+1 {
				vs.G.Inc("probe.stream_limit_plus_1")
			}
		}
		if end > room {
			vs.G.Inc("probe.conn_limit_exceeded")
			if end == room+1 {
				vs.G.Inc("probe.conn_limit_plus_1")
			}
		}
		if reset {
			vs.G.Inc("probe.reset_exceeds_flow_limit")
		}
	case e.final:
		vs.G.Inc("fault.peer_contradicts_final_size")
	case e.limit:
		vs.G.Inc("fault.peer_exceeds_stream_limit")
	default:
		if end == limit {
			vs.G.Inc("probe.exactly_at_stream_limit")
		}
		if end == room {
			vs.G.Inc("probe.exactly_at_conn_limit")
		}
		if dup {
			vs.G.Inc("probe.duplicate_data_accepted")
		}
	}
}

func (r *qpRun) registerProbes(names ...string) {
	for _, n := range names {
		vs.G.Add(n, 0)
	}
}

// runStreamOps executes a C20 / C32 plan.
func (r *qpRun) runStreamOps(p qpStreamPlan) {
	for i, op := range p.ops {
		if r.over() {
			return
		}
		// keep the conn's congestion window and pacer out of the picture
		if i%8 == 7 {
			if op.hold {
				r.noteAckWithheld()
			} else {
				r.ackAll()
			}
			if r.over() {
				return
			}
		}
		if op.kind == qpOpBulk {
			r.bulkWrite(p, op)
			continue
		}
		sl := p.slots[op.s]
		st := r.slotStream(sl)
		if st == nil || r.over() {
			return
		}
		switch op.kind {
		case qpOpData:
			off, n, fin := r.resolveData(st, op)
			if n == 0 && !fin && off > st.high {
				continue // an empty non-FIN frame beyond the received data: RFC 9000 leaves its weight open
			}
			r.sendStreamFrame(st, off, n, fin, qpDName[op.mode])
		case qpOpReset:
			r.sendResetFrame(st, r.resolveReset(st, op), op.code, qpRName[op.mode])
		case qpOpRead:
			r.readOp(st, op)
		case qpOpAckAll:
			if op.hold {
				r.noteAckWithheld()
				continue
			}
			r.ackAll()
		case qpOpCloseRead:
			if sl.kind == "local-bidi" || !st.referenced || st.closeReadHigh >= 0 {
				continue
			}
			if s := r.appStream(st); s != nil {
				st.closeReadHigh = st.high
				st.appClosedRead = true
				r.noteAppClosed(st) // a peer-initiated unidirectional stream may now be dropped by the conn
				s.CloseRead()
				r.drain()
				r.flushLog(fmt.Sprintf("app: CloseRead stream %d at received offset %d", st.id, st.high))
				vs.G.Inc("probe.app_close_read")
			}
		}
	}
	if r.over() {
		return
	}
	// final sweep: everything received in order must be readable and intact
	for _, sl := range p.slots {
		if st := r.m.streams[sl.id]; st != nil && st.referenced && !r.over() {
			r.readOp(st, qpOp{kind: qpOpRead, n: 4096})
		}
	}
}

func (r *qpRun) noteAckWithheld() {
	if r.bulk {
		vs.G.Inc("fault.ack_withheld_while_conn_has_bulk_data")
	}
}

// bulkWrite (held-back phase of C20) makes the application write and flush op.n
// bytes on a bidirectional stream: the slot's stream if the application can write
// to it (conn-initiated, or peer-initiated and already delivered to the
// application), otherwise a conn-initiated stream of its own. From here on the
// conn's STREAM frames for that stream are summarised in the trace.
func (r *qpRun) bulkWrite(p qpStreamPlan, op qpOp) {
	var st *qpStream
	if op.s < len(p.slots) {
		switch sl := p.slots[op.s]; sl.kind {
		case "local-bidi":
			st = r.openLocal(sl.id.num())
		case "peer-bidi":
			if ps := r.m.streams[sl.id]; ps != nil && ps.referenced && !ps.forgotten && !ps.appClosedWrite && r.appStream(ps) != nil {
				st = ps
			}
		}
	}
	if st == nil && !r.over() {
		var k int64
		for _, sl := range p.slots {
			if sl.kind == "local-bidi" {
				k++
			}
		}
		st = r.openLocal(k)
	}
	if st == nil || st.app == nil || r.over() {
		return
	}
	r.bulk, r.bulkID, r.bulkEnd = true, st.id, 0
	var n int
	var err error
	if v := vs.Guard("C20", "write_panic", func() {
		n, err = st.app.Write(make([]byte, op.n))
		st.app.Flush()
	}); v != nil {
		r.setViol(v)
		return
	}
	r.drain()
	errs := "nil"
	if err != nil {
		errs = err.Error()
	}
	r.flushLog(fmt.Sprintf("app: bulk Write of %d bytes on stream %d (%s) = %d, %s; Flush; the fake peer withholds ACKs", op.n, st.id, st.kind, n, errs))
	vs.G.Inc("probe.app_bulk_write")
	if r.over() {
		return
	}
	// white-box, statistics only: is the conn now unable to send ack-eliciting packets?
	limited := false
	r.tc.conn.runOnLoop(context.Background(), func(now time.Time, c *Conn) {
		l, _ := c.loss.sendLimit(now)
		limited = l != ccOK
	})
	r.drain()
	if limited {
		vs.G.Inc("probe.conn_send_blocked_after_bulk_write")
	}
}

// unsentMaxData (white-box, statistics only - the oracle never sees it) is how far
// the MAX_DATA value the conn wants to send is above the last one it has sent.
// After quiescence this is non-zero only while the conn cannot send the frame.
// Only looked at after a bulk write (held-back phase of C20).
func (r *qpRun) unsentMaxData() (pend int64) {
	if !r.bulk || r.over() {
		return 0
	}
	r.tc.conn.runOnLoop(context.Background(), func(now time.Time, c *Conn) {
		pend = c.streams.inflow.newLimit - c.streams.inflow.sentLimit
	})
	r.drain()
	return pend
}

// probeHeldBack counts peer frames at / beyond the connection limit that arrive
// while a MAX_DATA update is due (the application has read enough) but has not
// appeared in the conn's output.
func (r *qpRun) probeHeldBack(pend, end, room int64) {
	if pend <= 0 {
		return
	}
	if end >= room {
		vs.G.Inc("probe.conn_limit_probe_while_max_data_held_back")
	}
	if end > room && end <= room+pend {
		vs.G.Inc("probe.overshoot_within_unsent_max_data")
	}
}

// readOp lets the application read (op.mode 0: until it would block).
func (r *qpRun) readOp(st *qpStream, op qpOp) {
	if sl := st; sl.kind != "local-bidi" && !st.referenced {
		return
	}
	if st.closeReadHigh >= 0 || st.appClosedRead {
		return // the application gave up reading
	}
	total, calls := 0, 0
	var lastErr error
	for i := 0; i < 64; i++ {
		got, err := r.appRead(st, op.n)
		calls++
		total += got
		lastErr = err
		if err != nil || op.mode != 0 || r.over() {
			break
		}
	}
	errs := "nil"
	if lastErr != nil {
		errs = lastErr.Error()
	}
	r.flushLog(fmt.Sprintf("app: read stream %d with a %d-byte buffer: %d bytes in %d calls (pos %d), last err=%s", st.id, op.n, total, calls, st.readPos, errs))
	if total > 0 {
		vs.G.Inc("probe.app_read_bytes")
		if r.unsentMaxData() > 0 {
			vs.G.Inc("probe.max_data_update_held_back_after_read")
		}
	}
	if r.over() {
		return
	}
	if st.reset {
		// after the RESET_STREAM was processed the reader must get the reset error
		// (possibly after bytes that were already handed to the fast path)
		got, err := 0, lastErr
		for i := 0; i < 8 && err == nil; i++ {
			got, err = r.appRead(st, 4096)
			_ = got
		}
		var code StreamErrorCode
		switch {
		case err == nil || r.viol != nil:
		case errors.As(err, &code):
			ok := false
			for _, c := range st.resetCodes {
				if uint64(code) == c {
					ok = true
				}
			}
			if !ok {
				r.setViol(vs.Violf("C32", "reset_code_mismatch", "reset_code:"+st.kind, "stream %d: Read error %v carries code %d, the peer's RESET_STREAM frames carried %v", st.id, err, uint64(code), st.resetCodes))
			}
			vs.G.Inc("probe.reset_error_read")
		case err == io.EOF:
			// judged in appRead
		default:
			r.setViol(vs.Violf("C32", "reset_not_reported", "reset_not_reported:"+st.kind, "stream %d: after RESET_STREAM %v was processed Read returned %v, not an error wrapping StreamErrorCode", st.id, st.resetCodes, err))
		}
	}
}

// finishRun reports the run to the statistics and to rapid.
func qpFinish(t *testing.T, rt *rapid.T, focus string, tr *vs.Trace, res qpResult, sample func() any) {
	vs.G.EndRun(tr, res.nontrivial, res.simDur, sample)
	if res.harness != "" && res.viol == nil {
		vs.LogTrace(rt, tr)
		vs.Harnessf(rt, "%s", res.harness)
	}
	viol := res.viol
	if viol != nil && viol.Prop != focus {
		vs.G.Inc("foreign_violation." + viol.Prop + "." + viol.Oracle)
		viol = nil
	}
	vs.Report(rt, viol, tr)
}

type qpResult struct {
	viol       *vs.Violation
	harness    string
	simDur     time.Duration
	nontrivial bool
}

func qpExec(t *testing.T, tr *vs.Trace, focus string, b qpBase, body func(r *qpRun)) qpResult {
	var res qpResult
	deadlock := qpBubble(t, func(t *testing.T) {
		start := time.Now()
		r := newQpRun(t, tr, focus, b)
		if r.harness == "" && r.viol == nil {
			body(r)
		}
		if r.closed != nil {
			tr.Ev("conn closed: %v", r.closed)
		}
		res.viol, res.harness, res.nontrivial = r.viol, r.harness, r.nontrivial
		res.simDur = time.Since(start)
	})
	if deadlock != "" && res.viol == nil && res.harness == "" {
		res.harness = "bubble did not wind down: " + deadlock
	}
	return res
}

func qpTraceHead(tr *vs.Trace) []string { return tr.Log[:min(len(tr.Log), 40)] }

// ---------------------------------------------------------------------------
// C20

func TestVerif_C20_peer(t *testing.T) {
	vs.Check(t, func(rt *rapid.T) {
		p := qpDrawStreamPlan(rt, "C20")
		tr := vs.NewTrace()
		res := qpExec(t, tr, "C20", p.base, func(r *qpRun) {
			r.registerProbes("probe.stream_limit_exceeded", "probe.stream_limit_plus_1", "probe.conn_limit_exceeded", "probe.conn_limit_plus_1",
				"probe.exactly_at_stream_limit", "probe.exactly_at_conn_limit", "probe.duplicate_data_accepted", "probe.reset_exceeds_flow_limit",
				"probe.max_data_seen", "probe.max_stream_data_seen", "probe.app_read_bytes", "fault.peer_exceeds_flow_limit", "fault.refused_FLOW_CONTROL_ERROR")
			if vs.Config() != "peer-closeread" {
				r.registerProbes("probe.app_bulk_write", "probe.conn_send_blocked_after_bulk_write", "probe.max_data_update_held_back_after_read",
					"probe.conn_limit_probe_while_max_data_held_back", "probe.overshoot_within_unsent_max_data", "fault.ack_withheld_while_conn_has_bulk_data")
			}
			r.runStreamOps(p)
		})
		qpFinish(t, rt, "C20", tr, res, func() any {
			return map[string]any{"config": p.base.String(), "streams": len(p.slots), "ops": len(p.ops), "held_back_phase": p.held, "trace_head": qpTraceHead(tr)}
		})
	})
}

// ---------------------------------------------------------------------------
// C32

func TestVerif_C32_peer(t *testing.T) {
	vs.Check(t, func(rt *rapid.T) {
		p := qpDrawStreamPlan(rt, "C32")
		tr := vs.NewTrace()
		res := qpExec(t, tr, "C32", p.base, func(r *qpRun) {
			r.registerProbes("fault.peer_contradicts_final_size", "fault.refused_FINAL_SIZE_ERROR", "probe.reset_processed", "probe.reset_error_read",
				"probe.consistent_final_repeat", "probe.app_read_bytes")
			r.runStreamOps(p)
		})
		qpFinish(t, rt, "C32", tr, res, func() any {
			return map[string]any{"config": p.base.String(), "streams": len(p.slots), "ops": len(p.ops), "trace_head": qpTraceHead(tr)}
		})
	})
}

// ---------------------------------------------------------------------------
// C21: stream-count limits

const (
	qpSOpen   = iota
	qpSFinish // peer ends its direction, app reads to the end, app Close, peer ACKs
	qpSPeerFin
	qpSPeerReset
	qpSAppRead
	qpSAppClose
	qpSAckAll
)

const (
	qpONext = iota
	qpOSkip
	qpOLastAllowed
	qpOAtLimit
	qpOBeyond
	qpOImplicitLower
	qpOExisting
	qpOClosedAgain
)

var qpOName = [...]string{"next", "skip_ahead", "last_allowed", "at_limit", "beyond_limit", "implicit_lower", "existing", "closed_again"}

const (
	qpFEmpty = iota
	qpFData
	qpFDataFin
	qpFReset
	qpFMaxStreamData
	qpFStopSending
)

var qpFName = [...]string{"STREAM(empty)", "STREAM(data)", "STREAM(data,FIN)", "RESET_STREAM", "MAX_STREAM_DATA", "STOP_SENDING"}

type qpSOp struct{ kind, typ, mode, k, fk, n, pick, how int }

type qpCountPlan struct {
	base qpBase
	ops  []qpSOp
}

func qpDrawStreamLimit(c vs.Chooser) int64 {
	if vs.Pct(c, 4) {
		return 0 // default 100
	}
	e := int64(vs.SizeBiased(c, 20, 1, 8))
	if e == 0 {
		return -1 // "if negative, the limit is zero"
	}
	return e
}

func qpDrawCountPlan(rt *rapid.T) qpCountPlan {
	c := vs.RapidChooser{T: rt}
	var p qpCountPlan
	p.base.side = vs.Pick(c, serverSide, clientSide)
	p.base.seed = uint64(c.Intn(1 << 30))
	p.base.cfgBidi = qpDrawStreamLimit(c)
	p.base.cfgUni = qpDrawStreamLimit(c)
	nops := vs.Range(c, 1, vs.Thorough(50, 100))
	//             open fin pfin prst read close ack
	kindW := []int{16, 9, 2, 2, 2, 3, 2}
	//             next skip last atlim beyond impl exist closed
	modeW := []int{12, 5, 5, 2, 2, 4, 3, 3}
	for i := 0; i < nops; i++ {
		op := qpSOp{kind: qpWeighted(c, kindW), typ: c.Intn(2), pick: c.Intn(1 << 12)}
		switch op.kind {
		case qpSOpen:
			op.mode = qpWeighted(c, modeW)
			op.k = c.Intn(1 << 10)
			op.fk = qpWeighted(c, []int{4, 4, 4, 2, 1, 1})
			op.n = vs.Range(c, 1, 10)
		case qpSAppClose:
			op.how = c.Intn(4)
		}
		p.ops = append(p.ops, op)
	}
	return p
}

// peerStreams lists model streams of type t initiated by the peer that satisfy f,
// in stream-number order.
func (r *qpRun) peerStreams(t streamType, f func(*qpStream) bool) []*qpStream {
	var out []*qpStream
	for num := int64(0); num < r.m.opened[t]; num++ {
		if st := r.m.streams[newStreamID(r.b.side.peer(), t, num)]; st != nil && f(st) {
			out = append(out, st)
		}
	}
	return out
}

// sendCountFrame sends one frame of kind fk naming stream id and judges it.
func (r *qpRun) sendCountFrame(id streamID, fk, n int, mode string) {
	st, _ := r.m.stream(id)
	if id.streamType() == uniStream && (fk == qpFMaxStreamData || fk == qpFStopSending) {
		fk = qpFEmpty
	}
	tag := mode + ":" + qpFName[fk]
	switch fk {
	case qpFEmpty:
		r.sendStreamFrame(st, st.high, 0, false, tag)
	case qpFData, qpFDataFin:
		fin := fk == qpFDataFin
		off := st.high
		switch {
		case st.final >= 0 && fin:
			off, n = st.final, 0
		case st.final >= 0:
			// the stream's size is fixed: repeat bytes already sent, or nothing
			off, n = max(0, st.final-int64(n)), int(min(int64(n), st.final))
		}
		r.sendStreamFrame(st, off, n, fin, tag)
	case qpFReset:
		fs := st.high
		if st.final >= 0 {
			fs = st.final
		}
		r.sendResetFrame(st, fs, 3, tag)
	case qpFMaxStreamData, qpFStopSending:
		e := r.m.classify(id, 0, false, true)
		var f debugFrame = debugFrameMaxStreamData{id: id, max: 1 << 20}
		if fk == qpFStopSending {
			f = debugFrameStopSending{id: id, code: 7}
		}
		r.peerSend(f)
		desc := fmt.Sprintf("peer: %v [%s]", f, tag)
		r.flushLog(desc + " expect " + e.String())
		r.nontrivial = true
		if e.limit {
			vs.G.Inc("fault.peer_exceeds_stream_limit")
		}
		if r.judge(e, "frame:"+tag+":"+st.kind, desc) && !e.any() {
			r.m.touch(id)
		}
	}
}

func (r *qpRun) noteAppClosed(st *qpStream) {
	if st.id.initiator() == r.b.side {
		return
	}
	done := st.appClosedRead && (st.kind == "peer-uni" || st.appClosedWrite)
	if done && !st.finishedCounted {
		st.finishedCounted = true
		st.forgotten = true
		r.m.finished[st.id.streamType()]++
		vs.G.Inc("probe.stream_finished_by_app")
	}
}

// appClose performs one of the application's closing calls. The bookkeeping of
// "finished by the application" is updated before the call that completes it.
func (r *qpRun) appClose(st *qpStream, how int) {
	s := r.appStream(st)
	if s == nil {
		return
	}
	name := ""
	switch how {
	case 0:
		name = "Close"
		st.appClosedRead, st.appClosedWrite = true, true
		r.noteAppClosed(st)
		s.Close()
	case 1:
		name = "CloseRead"
		st.appClosedRead = true
		r.noteAppClosed(st)
		s.CloseRead()
	case 2:
		name = "CloseWrite"
		st.appClosedWrite = true
		r.noteAppClosed(st)
		s.CloseWrite()
	default:
		name = "Reset"
		st.appClosedWrite = true
		r.noteAppClosed(st)
		s.Reset(9)
	}
	r.drain()
	r.flushLog(fmt.Sprintf("app: %s stream %d (finished by app: bidi=%d uni=%d)", name, st.id, r.m.finished[bidiStream], r.m.finished[uniStream]))
}

func (r *qpRun) peerEnd(st *qpStream, reset bool) {
	switch {
	case reset || st.appClosedRead && st.final < 0:
		fs := st.high
		if st.final >= 0 {
			fs = st.final
		}
		r.sendResetFrame(st, fs, 5, "end")
	case st.final < 0:
		r.sendStreamFrame(st, st.high, 0, true, "end")
	}
}

func (r *qpRun) runCountOps(p qpCountPlan) {
	initial := r.m.maxStreams
	for i, op := range p.ops {
		if r.over() {
			return
		}
		if i%10 == 9 {
			r.ackAll()
			if r.over() {
				return
			}
		}
		t := streamType(op.typ)
		live := r.peerStreams(t, func(st *qpStream) bool { return st.referenced && !st.forgotten })
		pickLive := func() *qpStream {
			if len(live) == 0 {
				return nil
			}
			return live[op.pick%len(live)]
		}
		switch op.kind {
		case qpSOpen:
			lim, opened := r.m.maxStreams[t], r.m.opened[t]
			mode := op.mode
			var num int64
			switch mode {
			case qpONext:
				num = opened
			case qpOSkip:
				num = opened + 1 + int64(op.k%5)
				if num >= lim {
					num = lim - 1
				}
			case qpOLastAllowed:
				num = lim - 1
			case qpOAtLimit:
				num = lim
			case qpOBeyond:
				num = lim + 1 + int64(op.k%50)
			case qpOImplicitLower:
				var cand []int64
				for n := int64(0); n < opened; n++ {
					if st := r.m.streams[newStreamID(r.b.side.peer(), t, n)]; st == nil || !st.referenced {
						cand = append(cand, n)
					}
				}
				if len(cand) == 0 {
					mode, num = qpONext, opened
				} else {
					num = cand[op.k%len(cand)]
				}
			case qpOExisting:
				if st := pickLive(); st != nil {
					num = st.id.num()
				} else {
					mode, num = qpONext, opened
				}
			case qpOClosedAgain:
				gone := r.peerStreams(t, func(st *qpStream) bool { return st.forgotten })
				if len(gone) == 0 {
					mode, num = qpONext, opened
				} else {
					num = gone[op.k%len(gone)].id.num()
				}
			}
			if (mode == qpONext || mode == qpOSkip || mode == qpOLastAllowed) && (num >= lim || num < 0) {
				// no room left below the limit: a well-behaved peer waits
				if st := pickLive(); st != nil {
					mode, num = qpOExisting, st.id.num()
				} else {
					vs.G.Inc("gen.no_room_below_limit")
					continue
				}
			}
			id := newStreamID(r.b.side.peer(), t, num)
			st, known := r.m.stream(id)
			wasOpened := opened
			fk := op.fk
			if known && st.forgotten && fk != qpFMaxStreamData && fk != qpFStopSending {
				fk = qpFData // repeats bytes already sent (or nothing): benign under any reading
				if st.final < 0 {
					fk = qpFEmpty
				}
			}
			r.sendCountFrame(id, fk, op.n, qpOName[mode])
			if r.closed == nil && r.viol == nil {
				switch {
				case num > wasOpened:
					vs.G.Inc("probe.implicit_open")
				case mode == qpOImplicitLower:
					vs.G.Inc("probe.implicitly_opened_then_used")
				case mode == qpOClosedAgain:
					vs.G.Inc("probe.frame_for_finished_stream")
				}
				if num == lim-1 {
					vs.G.Inc("probe.last_allowed_accepted")
				}
				if num >= initial[t] {
					vs.G.Inc("probe.opened_beyond_initial_limit")
				}
			} else if r.closed != nil && num == lim {
				vs.G.Inc("probe.exactly_at_limit_refused")
			}
		case qpSFinish:
			st := pickLive()
			if st == nil {
				continue
			}
			r.peerEnd(st, false)
			if r.over() {
				return
			}
			if r.appStream(st) == nil {
				continue
			}
			r.readOp(st, qpOp{n: 4096})
			if r.over() {
				return
			}
			r.appClose(st, 0)
			if r.over() {
				return
			}
			r.ackAll()
		case qpSPeerFin, qpSPeerReset:
			if st := pickLive(); st != nil {
				r.peerEnd(st, op.kind == qpSPeerReset)
			}
		case qpSAppRead:
			if st := pickLive(); st != nil && r.appStream(st) != nil {
				r.readOp(st, qpOp{n: 4096})
			}
		case qpSAppClose:
			if st := pickLive(); st != nil {
				r.appClose(st, op.how)
			}
		case qpSAckAll:
			r.ackAll()
		}
	}
}

func TestVerif_C21_peer(t *testing.T) {
	vs.Check(t, func(rt *rapid.T) {
		p := qpDrawCountPlan(rt)
		tr := vs.NewTrace()
		res := qpExec(t, tr, "C21", p.base, func(r *qpRun) {
			r.registerProbes("fault.peer_exceeds_stream_limit", "fault.refused_STREAM_LIMIT_ERROR", "probe.implicit_open", "probe.implicitly_opened_then_used",
				"probe.frame_for_finished_stream", "probe.last_allowed_accepted", "probe.exactly_at_limit_refused", "probe.opened_beyond_initial_limit",
				"probe.max_streams_seen", "probe.stream_finished_by_app")
			r.runCountOps(p)
		})
		qpFinish(t, rt, "C21", tr, res, func() any {
			return map[string]any{"config": p.base.String(), "ops": len(p.ops), "trace_head": qpTraceHead(tr)}
		})
	})
}

// ---------------------------------------------------------------------------
// C25: peer ACK frames, replayed packets

const (
	qpAWrite = iota
	qpAPeerPkt
	qpAReplay
	qpAAck
	qpAAdvance
)

const (
	qpKAll = iota
	qpKSome
	qpKOld
	qpKLatest
	qpKBeyond
	qpKNext
	qpKSkipped
)

var qpKName = [...]string{"all", "some", "already_acked", "latest", "beyond_next", "next_number", "skipped"}

type qpAOp struct{ kind, mode, n, a, b int }

type qpAckPlan struct {
	base   qpBase
	skipAt int // > 0: the conn's next skipped packet number is moved to next+skipAt
	ops    []qpAOp
}

func qpDrawAckPlan(rt *rapid.T) qpAckPlan {
	c := vs.RapidChooser{T: rt}
	var p qpAckPlan
	p.base.side = vs.Pick(c, serverSide, clientSide)
	p.base.seed = uint64(c.Intn(1 << 30))
	p.base.qlog = true
	natural := vs.Pct(c, 8)
	if !natural {
		p.skipAt = vs.Range(c, 1, 40)
	}
	nops := vs.Range(c, 1, vs.Thorough(40, 80))
	//             write pkt replay ack advance
	kindW := []int{10, 8, 6, 10, 2}
	//            all some old latest beyond next skipped
	ackW := []int{3, 8, 2, 3, 2, 2, 8}
	for i := 0; i < nops; i++ {
		op := qpAOp{kind: qpWeighted(c, kindW), a: c.Intn(1 << 16), b: c.Intn(1 << 16)}
		switch op.kind {
		case qpAWrite:
			op.n = vs.SizeBiased(c, 12, 1)
			if natural && vs.Pct(c, 50) {
				op.n = vs.Range(c, 20, 90)
			}
			if op.n == 0 {
				op.n = 1
			}
		case qpAPeerPkt:
			op.mode = qpWeighted(c, []int{5, 7, 3})
		case qpAReplay:
			op.mode = qpWeighted(c, []int{2, 4, 3})
		case qpAAck:
			op.mode = qpWeighted(c, ackW)
			op.n = vs.Pick(c, 0, 1, 100, 5000)
		case qpAAdvance:
			op.n = vs.Pick(c, 1, 5, 24, 30, 100, 400, 2000)
		}
		p.ops = append(p.ops, op)
	}
	return p
}

type qpPeerPkt struct {
	pn     packetNumber
	frames []debugFrame
}

type qpAckState struct {
	acked    qpPnSet
	maxAcked packetNumber
	pkts     []qpPeerPkt
	serial   uint64
	advanced time.Duration
}

// classifyAck applies the soundness rule of DESIGN.md C25 to an ACK frame.
// next is the conn's next packet number to be sent (read from lossState before
// the frame is written; used only to tell "never sent" from "skipped" for the
// single number maxSent+1).
func (r *qpRun) classifyAck(a *qpAckState, rs []i64range[packetNumber], next packetNumber) (must, dontCare bool, sig, why string) {
	S := r.sentPn[appDataSpace]
	L := r.maxPn[appDataSpace]
	for _, rg := range rs {
		if rg.end-1 >= L+2 {
			return true, false, "beyond_next", fmt.Sprintf("range [%d,%d) reaches beyond the next packet number to be sent (largest sent %d)", rg.start, rg.end, L)
		}
	}
	for _, rg := range rs {
		lower := false // a packet certainly still outstanding, covered by this range, below n
		for n := rg.start; n < rg.end; n++ {
			if S[n] {
				if n > a.maxAcked {
					lower = true
				}
				continue
			}
			switch {
			case n == L+1 && next == L+1:
				return true, false, "next_unsent", fmt.Sprintf("range [%d,%d) acknowledges %d, the next packet number to be sent", rg.start, rg.end, n)
			case lower:
				return true, false, "skipped_with_lower_outstanding", fmt.Sprintf("range [%d,%d) acknowledges skipped number %d together with a lower packet that was still outstanding (largest acknowledged before: %d)", rg.start, rg.end, n, a.maxAcked)
			default:
				dontCare = true
				why = fmt.Sprintf("range [%d,%d) names skipped number %d whose placeholder may have been forgotten", rg.start, rg.end, n)
			}
		}
	}
	return false, dontCare, "", why
}

func (r *qpRun) noteAcked(a *qpAckState, rs []i64range[packetNumber]) {
	for _, rg := range rs {
		for n := rg.start; n < rg.end; n++ {
			if r.sentPn[appDataSpace][n] {
				a.acked[n] = true
				if n > a.maxAcked {
					a.maxAcked = n
				}
			}
		}
	}
}

// buildAck resolves an ack op into ranges.
func (r *qpRun) buildAck(a *qpAckState, op qpAOp) []i64range[packetNumber] {
	nums := r.sentPn[appDataSpace].sorted()
	if len(nums) == 0 {
		return nil
	}
	L := r.maxPn[appDataSpace]
	var gaps []packetNumber
	for n := packetNumber(0); n < L; n++ {
		if !r.sentPn[appDataSpace][n] {
			gaps = append(gaps, n)
		}
	}
	sub := func(lo, hi packetNumber) []packetNumber { // sent numbers in [lo,hi]
		var out []packetNumber
		for _, n := range nums {
			if n >= lo && n <= hi {
				out = append(out, n)
			}
		}
		return out
	}
	span := func(lo, hi packetNumber) []i64range[packetNumber] { // one raw range, gaps included
		return []i64range[packetNumber]{{lo, hi + 1}}
	}
	outstanding := func(below packetNumber) (packetNumber, bool) { // lowest certainly outstanding packet < below
		for _, n := range nums {
			if n > a.maxAcked && n < below {
				return n, true
			}
		}
		return 0, false
	}
	mode := op.mode
	if mode == qpKSkipped && len(gaps) == 0 {
		mode = qpKNext // the placeholder of a just-skipped number, if any, is maxSent+1
		if op.a&1 == 0 {
			mode = qpKSome
		}
	}
	switch mode {
	case qpKAll:
		return qpRanges(nums)
	case qpKSome:
		i := op.a % len(nums)
		j := i + op.b%(len(nums)-i)
		rs := qpRanges(sub(nums[i], nums[j]))
		if op.b&0x100 != 0 && i > 1 {
			rs = append(qpRanges(sub(nums[0], nums[(op.b>>9)%i])), rs...)
			rs = qpRanges(qpFlatten(rs))
		}
		return rs
	case qpKOld:
		var old []packetNumber
		for _, n := range nums {
			if a.acked[n] {
				old = append(old, n)
			}
		}
		if len(old) == 0 {
			return qpRanges([]packetNumber{L})
		}
		i := op.a % len(old)
		return qpRanges(old[i : i+1+op.b%(len(old)-i)])
	case qpKLatest:
		return qpRanges([]packetNumber{L})
	case qpKBeyond:
		hi := L + 2 + packetNumber(op.a%20)
		if op.b&1 == 0 {
			return span(hi, hi)
		}
		lo := nums[op.b%len(nums)]
		if op.b&2 == 0 {
			lo = max(lo, L-packetNumber(op.b>>2)%4)
		}
		return span(lo, hi)
	case qpKNext:
		if p, ok := outstanding(L + 1); ok && op.b&1 == 0 {
			return span(p, L+1)
		}
		if op.b&2 == 0 {
			return span(L, L+1)
		}
		return span(L+1, L+1)
	case qpKSkipped:
		g := gaps[op.a%len(gaps)]
		switch op.b % 4 {
		case 0, 1:
			if p, ok := outstanding(g); ok {
				hi := g
				if op.b&0x10 != 0 {
					hi = min(L, g+packetNumber(op.b>>5)%4)
				}
				return span(p, hi)
			}
			return span(g, g)
		case 2:
			return span(g, min(L, g+1+packetNumber(op.b>>5)%4))
		default:
			return span(g, g)
		}
	}
	return qpRanges(nums)
}

func qpFlatten(rs []i64range[packetNumber]) []packetNumber {
	var out []packetNumber
	for _, r := range rs {
		for n := r.start; n < r.end; n++ {
			out = append(out, n)
		}
	}
	return out
}

func (r *qpRun) checkOnce(what string) {
	if r.ql == nil {
		return
	}
	if d := r.ql.firstDup(); d != "" {
		r.setViol(vs.Violf("C25", "packet_processed_twice", "qlog_dup:"+r.lastAction,
			"packet_received logged twice for %s: the same packet number was processed again (last action: %s)", d, what))
	}
}

func (r *qpRun) runAckOps(p qpAckPlan) {
	a := &qpAckState{acked: qpPnSet{}, maxAcked: -1}
	// ACK frames the fake peer sent during the handshake
	for n := range r.hsAcked {
		a.acked[n] = true
		if n > a.maxAcked {
			a.maxAcked = n
		}
	}
	s, err := r.tc.conn.NewSendOnlyStream(canceledContext())
	if err != nil {
		r.harness = "NewSendOnlyStream: " + err.Error()
		return
	}
	s.SetWriteContext(canceledContext())
	if p.skipAt > 0 {
		r.tc.conn.runOnLoop(context.Background(), func(now time.Time, c *Conn) {
			c.skip.skip = c.loss.nextNumber(appDataSpace) + packetNumber(p.skipAt)
		})
	}
	r.tr.Ev("skip override: +%d; acked in handshake: up to %d", p.skipAt, a.maxAcked)
	sawGap := false
	for _, op := range p.ops {
		if r.over() {
			return
		}
		switch op.kind {
		case qpAWrite:
			before := len(r.sentPn[appDataSpace])
			for i := 0; i < op.n && !r.over(); i++ {
				s.Write([]byte{byte(i)})
				s.Flush()
				r.drain()
			}
			r.lastAction = "app_write"
			r.outLog = nil
			r.tr.Ev("app: %d single-byte writes -> %d packets, largest %d", op.n, len(r.sentPn[appDataSpace])-before, r.maxPn[appDataSpace])
		case qpAPeerPkt:
			next := r.tc.peerNextPacketNum[appDataSpace]
			pn := next
			switch op.mode {
			case 1:
				pn = next + 1 + packetNumber(op.a%3)
			case 2:
				var unused []packetNumber
				for n := packetNumber(0); n < next; n++ {
					if !r.peerPn[appDataSpace][n] {
						unused = append(unused, n)
					}
				}
				if len(unused) > 0 {
					pn = unused[op.a%len(unused)]
				}
			}
			if pn > 115 {
				continue // keep 1-byte packet number encodings decodable for replays
			}
			a.serial++
			var data pathChallengeData
			for i := range data {
				data[i] = byte(a.serial >> (8 * i))
			}
			data[7] = 0xc5
			frames := []debugFrame{debugFramePathChallenge{data: data}}
			r.pathSent[data] = true
			a.pkts = append(a.pkts, qpPeerPkt{pn, frames})
			r.lastAction = "new_packet"
			r.peerSendPn(pn, frames...)
			r.flushLog(fmt.Sprintf("peer: packet %d PATH_CHALLENGE %x", pn, data))
			r.nontrivial = true
		case qpAReplay:
			if len(a.pkts) == 0 {
				continue
			}
			var pk qpPeerPkt
			switch op.mode {
			case 0:
				pk = a.pkts[len(a.pkts)-1]
				r.lastAction = "replay_latest"
			case 1:
				pk = a.pkts[0]
				r.lastAction = "replay_oldest"
			default:
				pk = a.pkts[op.a%len(a.pkts)]
				r.lastAction = "replay_any"
			}
			vs.G.Inc("fault.replayed_packet")
			if pk.pn < r.connAckMin {
				// the conn no longer acknowledges this number: its ACK ranges were pruned
				vs.G.Inc("fault.replayed_packet_below_ack_floor")
				r.lastAction = "replay_below_ack_floor"
			}
			r.peerSendPn(pk.pn, pk.frames...)
			r.flushLog(fmt.Sprintf("peer: REPLAY of packet %d (%s)", pk.pn, r.lastAction))
			r.nontrivial = true
		case qpAAdvance:
			d := time.Duration(op.n) * time.Millisecond
			if a.advanced+d > 20*time.Second {
				continue
			}
			a.advanced += d
			before := len(r.sentPn[appDataSpace])
			time.Sleep(d)
			r.drain()
			r.lastAction = "advance"
			if len(r.sentPn[appDataSpace]) > before {
				vs.G.Inc("probe.timer_driven_packets")
			}
			r.flushLog(fmt.Sprintf("time: +%v", d))
		case qpAAck:
			rs := r.buildAck(a, op)
			if len(rs) == 0 {
				continue
			}
			if len(rs) > 24 {
				rs = rs[len(rs)-24:]
			}
			var next packetNumber
			r.tc.conn.runOnLoop(context.Background(), func(now time.Time, c *Conn) { next = c.loss.nextNumber(appDataSpace) })
			r.drain()
			must, dontCare, sig, why := r.classifyAck(a, rs, next)
			L := r.maxPn[appDataSpace]
			r.lastAction = "ack"
			r.peerSend(debugFrameAck{ackDelay: unscaledAckDelay(op.n), ranges: rs})
			desc := fmt.Sprintf("peer: ACK %s [%s] (largest sent %d, largest acked before %d)", qpRangesString(rs), qpKName[op.mode], L, a.maxAcked)
			r.nontrivial = true
			switch {
			case must:
				vs.G.Inc("fault.ack_of_unsent." + sig)
				r.flushLog(desc + " must be refused: " + why)
				if r.closed == nil {
					r.setViol(vs.Violf("C25", "ack_of_unsent_not_refused", sig, "%s: %s, but the conn sent no CONNECTION_CLOSE", desc, why))
				} else if !r.closed.transport || r.closed.code != errProtocolViolation {
					r.setViol(vs.Violf("C25", "ack_of_unsent_wrong_close", sig, "%s: %s; expected PROTOCOL_VIOLATION, conn sent %v", desc, why, r.closed))
				} else {
					vs.G.Inc("fault.refused_PROTOCOL_VIOLATION")
				}
			case dontCare:
				vs.G.Inc("probe.ack_dont_care")
				r.flushLog(desc + " don't-care: " + why)
				if r.closed == nil {
					r.noteAcked(a, rs)
				} else {
					vs.G.Inc("probe.ack_dont_care_refused")
				}
			default:
				vs.G.Inc("probe.valid_ack")
				r.flushLog(desc + " valid")
				if r.closed != nil {
					r.setViol(vs.Violf("C25", "valid_ack_closed_conn", "valid_ack_closed:"+qpKName[op.mode], "%s names only packets the conn really sent, but the conn sent %v", desc, r.closed))
				} else {
					r.noteAcked(a, rs)
				}
			}
		}
		r.checkOnce(r.lastAction)
		if !sawGap {
			for n := packetNumber(0); n < r.maxPn[appDataSpace]; n++ {
				if !r.sentPn[appDataSpace][n] {
					sawGap = true
					vs.G.Inc("probe.skipped_number_observed")
					r.tr.Ev("conn skipped packet number %d", n)
					break
				}
			}
		}
	}
	if r.ql != nil {
		vs.G.Add("probe.qlog_packets_received", int64(r.ql.count()))
	}
}

func TestVerif_C25_peer(t *testing.T) {
	vs.Check(t, func(rt *rapid.T) {
		p := qpDrawAckPlan(rt)
		tr := vs.NewTrace()
		res := qpExec(t, tr, "C25", p.base, func(r *qpRun) {
			r.registerProbes("fault.ack_of_unsent.beyond_next", "fault.ack_of_unsent.next_unsent", "fault.ack_of_unsent.skipped_with_lower_outstanding",
				"fault.refused_PROTOCOL_VIOLATION", "fault.replayed_packet", "fault.replayed_packet_below_ack_floor", "probe.ack_dont_care", "probe.ack_dont_care_refused", "probe.valid_ack",
				"probe.skipped_number_observed", "probe.timer_driven_packets", "probe.qlog_packets_received")
			r.runAckOps(p)
		})
		qpFinish(t, rt, "C25", tr, res, func() any {
			return map[string]any{"config": p.base.String(), "skip_override": p.skipAt, "ops": len(p.ops), "trace_head": qpTraceHead(tr)}
		})
	})
}
