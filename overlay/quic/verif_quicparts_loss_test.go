// Engine quicparts, C26: the real lossState + ccReno + sentPacketList driven the
// way Conn drives them (conn.go loop, conn_send.go maybeSend, conn_recv.go
// handleAckFrame, key discards, Retry) against a simulated peer, network and
// clock. The harness owns `now`, records every packet handed to packetSent and
// the fate reported for it, and checks the accounting after every call.

package quic

import (
	"fmt"
	"sort"
	"testing"
	"time"

	vs "golang.org/x/net/internal/verifsim"
	"pgregory.net/rapid"
)

const (
	lsFateNone = iota
	lsFateAcked
	lsFateLost
	lsFateDiscarded
)

var lsFateName = [...]string{"none", "acked", "lost", "discarded"}

type lsPkt struct {
	space        numberSpace
	num          packetNumber
	size         int
	inFlight     bool
	ackEliciting bool
	skipped      bool // a skipped packet number (never sent)
	fate         int
	sentAt       time.Time
	deliverAt    time.Time // when the simulated network delivers it to the peer; zero = lost
}

const (
	lsKeyNone = iota
	lsKeyLive
	lsKeyDiscarded
)

type lsSim struct {
	rt   *rapid.T
	c    vs.Chooser
	tr   *vs.Trace
	side connSide
	mds  int
	ls   lossState
	t0   time.Time
	now  time.Time
	pk   [numberSpaceCount][]*lsPkt // index = packet number
	keys [numberSpaceCount]int
	low  [numberSpaceCount]int // every packet below this index is resolved (speeds up inv)
	viol *vs.Violation

	ended        bool // the connection aborted (ACK of an unsent packet)
	retried      bool
	ackedInitial bool // an ACK frame was processed in the Initial space
	maxAckSet    bool
	lastSkipped  bool

	// run parameters of the simulated network / application
	owd        time.Duration
	jitter     time.Duration
	lossPct    int
	reorderPct int
	byz        bool
	skipPct    int
	appBusyPct int

	nSent, nAcked, nLost, nDisc int
}

func (s *lsSim) rel(t time.Time) string {
	if t.IsZero() {
		return "-"
	}
	return t.Sub(s.t0).String()
}

func (s *lsSim) fail(v *vs.Violation) {
	if s.viol == nil && v != nil {
		s.viol = v
	}
}

func (s *lsSim) guard(sig string, f func()) {
	s.fail(vs.Guard("C26", sig, f))
}

// onFate is the ack/loss callback the connection passes to lossState.
func (s *lsSim) onFate(space numberSpace, sent *sentPacket, fate packetFate) {
	f := lsFateLost
	if fate == packetAcked {
		f = lsFateAcked
	}
	s.tr.Ev("  -> %s %v %d", lsFateName[f], space, sent.num)
	if int(space) >= int(numberSpaceCount) {
		s.fail(vs.Violf("C26", "fate_unknown_packet", "bad_space", "callback for number space %d", space))
		return
	}
	if s.keys[space] == lsKeyDiscarded {
		s.fail(vs.Violf("C26", "fate_after_discard", "fate_after_key_discard", "packet %v/%d reported %s after the keys of its space were discarded (it was already accounted as discarded)", space, sent.num, lsFateName[f]))
		return
	}
	if sent.num < 0 || int(sent.num) >= len(s.pk[space]) || s.pk[space][sent.num].skipped {
		s.fail(vs.Violf("C26", "fate_unknown_packet", "fate_for_never_sent", "packet %v/%d reported %s but was never sent", space, sent.num, lsFateName[f]))
		return
	}
	p := s.pk[space][sent.num]
	if p.fate != lsFateNone {
		if p.fate != f {
			s.fail(vs.Violf("C26", "acked_and_lost", "acked_and_lost", "packet %v/%d reported %s after it was already %s", space, sent.num, lsFateName[f], lsFateName[p.fate]))
		} else {
			s.fail(vs.Violf("C26", "duplicate_fate", "duplicate_"+lsFateName[f], "packet %v/%d reported %s twice", space, sent.num, lsFateName[f]))
		}
		return
	}
	if sent.size != p.size || sent.inFlight != p.inFlight || sent.ackEliciting != p.ackEliciting {
		s.fail(vs.Violf("C26", "fate_wrong_packet", "callback_packet_differs", "callback for %v/%d carries size=%d inFlight=%v ackEliciting=%v, sent was size=%d inFlight=%v ackEliciting=%v", space, sent.num, sent.size, sent.inFlight, sent.ackEliciting, p.size, p.inFlight, p.ackEliciting))
		return
	}
	p.fate = f
	if f == lsFateAcked {
		s.nAcked++
		vs.G.Inc("probe.acked")
	} else {
		s.nLost++
		vs.G.Inc("probe.lost")
		if !p.deliverAt.IsZero() {
			vs.G.Inc("probe.spurious_loss")
		}
	}
}

// inv checks the accounting identities after a call into lossState.
func (s *lsSim) inv(after string) {
	if s.viol != nil {
		return
	}
	sum := 0
	for sp := range s.pk {
		for s.low[sp] < len(s.pk[sp]) && (s.pk[sp][s.low[sp]].skipped || s.pk[sp][s.low[sp]].fate != lsFateNone) {
			s.low[sp]++
		}
		for _, p := range s.pk[sp][s.low[sp]:] {
			if p.skipped || p.fate != lsFateNone {
				continue
			}
			if p.inFlight {
				sum += p.size
			}
			// A packet without a fate must still be tracked, otherwise it can never get one.
			e := s.ls.spaces[sp].num(p.num)
			if e == nil || e.state != sentPacketSent || e.num != p.num {
				st := "absent"
				if e != nil {
					st = fmt.Sprintf("state=%d num=%d", e.state, e.num)
				}
				s.fail(vs.Violf("C26", "lost_track", "unresolved_packet_untracked", "after %s: packet %v/%d has no fate (never reported acked or lost, keys not discarded) but is no longer tracked as outstanding (%s)", after, numberSpace(sp), p.num, st))
				return
			}
		}
	}
	bif := s.ls.cc.bytesInFlight
	if bif < 0 {
		s.fail(vs.Violf("C26", "bytes_in_flight_negative", "bytes_in_flight_negative", "after %s: bytesInFlight=%d", after, bif))
		return
	}
	if bif != sum {
		s.fail(vs.Violf("C26", "bytes_in_flight", "bytes_in_flight_mismatch", "after %s: bytesInFlight=%d but in-flight packets without a fate sum to %d", after, bif, sum))
		return
	}
	if w, m := s.ls.cc.congestionWindow, 2*s.mds; w < m {
		s.fail(vs.Violf("C26", "cwnd_floor", "cwnd_below_minimum", "after %s: congestion window %d < minimum window %d (2 x %d)", after, w, m, s.mds))
		return
	}
	if s.ls.cc.congestionWindow == 2*s.mds {
		vs.G.Inc("probe.cwnd_at_minimum")
	}
}

func (s *lsSim) discardKeys(space numberSpace) {
	n := 0
	for _, p := range s.pk[space] {
		if !p.skipped && p.fate == lsFateNone {
			p.fate = lsFateDiscarded
			s.nDisc++
			n++
		}
	}
	if n > 0 {
		vs.G.Inc("probe.discard_keys_with_outstanding")
	}
	s.tr.Ev("discardKeys %v (%d outstanding)", space, n)
	s.guard("panic_in_discardKeys", func() { s.ls.discardKeys(s.now, nil, space) })
	s.keys[space] = lsKeyDiscarded
	s.inv("discardKeys")
}

// sendPacket records one packet the way Conn.packetSent does.
func (s *lsSim) sendPacket(space numberSpace, size int, ackEliciting, inFlight bool) {
	num := s.ls.nextNumber(space)
	if int(num) != len(s.pk[space]) {
		// the harness indexes packets by number; it cannot go on (not a C26 matter)
		vs.Harnessf(s.rt, "nextNumber(%v)=%d after %d numbers were used", space, num, len(s.pk[space]))
		return
	}
	p := &lsPkt{space: space, num: num, size: size, inFlight: inFlight, ackEliciting: ackEliciting, sentAt: s.now}
	// network fate
	if !vs.Pct(s.c, s.lossPct) {
		d := s.owd
		if s.jitter > 0 {
			d += time.Duration(s.c.Intn(int(s.jitter) + 1))
		}
		if vs.Pct(s.c, s.reorderPct) {
			d += time.Duration(vs.Range(s.c, 1, 8)) * (s.owd + time.Millisecond)
		}
		p.deliverAt = s.now.Add(d)
	}
	s.pk[space] = append(s.pk[space], p)
	s.nSent++
	sent := newSentPacket()
	sent.num = num
	sent.size = size
	sent.ackEliciting = ackEliciting
	sent.inFlight = inFlight
	switch space {
	case initialSpace:
		sent.ptype = packetTypeInitial
	case handshakeSpace:
		sent.ptype = packetTypeHandshake
	default:
		sent.ptype = packetType1RTT
	}
	s.tr.Ev("send %v %d size=%d ae=%v if=%v deliver=%s", space, num, size, ackEliciting, inFlight, s.rel(p.deliverAt))
	if inFlight && !ackEliciting {
		vs.G.Inc("probe.inflight_not_ackeliciting")
	}
	s.guard("panic_in_packetSent", func() { s.ls.packetSent(s.now, nil, space, sent) })
	s.lastSkipped = false
	s.inv("packetSent")
}

// maybeSend mirrors Conn.maybeSend: one datagram per iteration, at most one
// packet per number space with write keys, gated by sendLimit.
func (s *lsSim) maybeSend() {
	underutilized := false
	for dg := 0; dg < 6 && s.viol == nil; dg++ {
		var limit ccLimit
		s.guard("panic_in_sendLimit", func() { limit, _ = s.ls.sendLimit(s.now) })
		if s.viol != nil {
			return
		}
		switch limit {
		case ccBlocked:
			vs.G.Inc("probe.amplification_blocked")
			s.setUnderutilized(false)
			return
		case ccLimited:
			vs.G.Inc("probe.cc_limited")
		case ccPaced:
			vs.G.Inc("probe.paced")
		}
		avail := s.ls.maxSendSize()
		pto := s.ls.ptoExpired
		// What the connection has to send right now.
		wantData := limit == ccOK && (vs.Pct(s.c, s.appBusyPct) || (pto && vs.Pct(s.c, 90)))
		type plan struct {
			space        numberSpace
			size         int
			ackEliciting bool
			inFlight     bool
		}
		var plans []plan
		var live []numberSpace
		for sp := initialSpace; sp < numberSpaceCount; sp++ {
			if s.keys[sp] == lsKeyLive {
				live = append(live, sp)
			}
		}
		if len(live) == 0 {
			break
		}
		dataSpace := live[s.c.Intn(len(live))]
		for _, sp := range live {
			if avail < 40 {
				break
			}
			var pl plan
			switch {
			case wantData && (sp == dataSpace || vs.Pct(s.c, 20)):
				pl = plan{sp, vs.Range(s.c, 30, avail), true, true}
				if vs.Pct(s.c, 50) {
					pl.size = avail // full-size packets are the common case
				}
			case vs.Pct(s.c, 25):
				// ACK-only packet: allowed even when congestion control or pacing limit sending
				pl = plan{sp, vs.Range(s.c, 25, min(avail, 80)), false, false}
				if limit == ccOK && vs.Pct(s.c, 10) {
					pl.ackEliciting, pl.inFlight = true, true // PING added after a run of ACK-only packets
				}
			default:
				continue
			}
			if sp == initialSpace && (s.side == clientSide || pl.ackEliciting) && vs.Pct(s.c, 70) {
				// Initial datagrams are padded; the padding is accounted to the Initial
				// packet and makes it count as in flight.
				pl.inFlight = true
			}
			avail -= pl.size
			plans = append(plans, pl)
		}
		if len(plans) == 0 {
			if limit == ccOK {
				underutilized = true
			}
			break
		}
		// Order of packetSent calls in Conn.maybeSend: Handshake, 1-RTT, then Initial.
		var initial *plan
		for i := range plans {
			pl := plans[i]
			if pl.space == initialSpace {
				initial = &plans[i]
				continue
			}
			s.sendPacket(pl.space, pl.size, pl.ackEliciting, pl.inFlight)
			if s.viol != nil {
				return
			}
			if pl.space == handshakeSpace && s.side == clientSide && s.keys[initialSpace] == lsKeyLive {
				// a client discards Initial keys when it first sends a Handshake packet
				s.discardKeys(initialSpace)
			}
			if pl.space == appDataSpace && !s.lastSkipped && vs.Pct(s.c, s.skipPct) {
				s.tr.Ev("skipNumber %d", s.ls.nextNumber(appDataSpace))
				s.pk[appDataSpace] = append(s.pk[appDataSpace], &lsPkt{space: appDataSpace, num: s.ls.nextNumber(appDataSpace), skipped: true})
				s.guard("panic_in_skipNumber", func() { s.ls.skipNumber(s.now, appDataSpace) })
				s.lastSkipped = true
				vs.G.Inc("probe.skipped_number")
				s.inv("skipNumber")
			}
		}
		if initial != nil && s.keys[initialSpace] == lsKeyLive {
			s.sendPacket(initialSpace, initial.size, initial.ackEliciting, initial.inFlight)
		}
	}
	s.setUnderutilized(underutilized)
}

func (s *lsSim) setUnderutilized(v bool) {
	if s.viol != nil {
		return
	}
	if v != s.ls.cc.underutilized {
		s.tr.Ev("underutilized=%v", v)
	}
	s.guard("panic_in_setUnderutilized", func() { s.ls.cc.setUnderutilized(nil, v) })
}

// descending, non-adjacent ranges of a sorted ascending list of numbers.
func lsRanges(nums []packetNumber) []i64range[packetNumber] {
	var out []i64range[packetNumber]
	for i := len(nums) - 1; i >= 0; i-- {
		n := nums[i]
		if k := len(out); k > 0 && out[k-1].start == n+1 {
			out[k-1].start = n
		} else if k > 0 && out[k-1].start <= n {
			continue // duplicate
		} else {
			out = append(out, i64range[packetNumber]{n, n + 1})
		}
	}
	return out
}

// ackFrame processes one ACK frame the way Conn.handleAckFrame does: every
// range is passed on even after one was refused, then receiveAckEnd.
func (s *lsSim) ackFrame(space numberSpace, ranges []i64range[packetNumber], delay time.Duration, kind string) {
	if len(ranges) == 0 {
		return
	}
	desc := ""
	for _, r := range ranges {
		desc += fmt.Sprintf("[%d,%d)", r.start, r.end)
	}
	s.tr.Ev("ack %v %s %s delay=%v", space, kind, desc, delay)
	if space == initialSpace {
		s.ackedInitial = true
	}
	s.guard("panic_in_receiveAck", func() {
		s.ls.receiveAckStart()
		for i, r := range ranges {
			if err := s.ls.receiveAckRange(s.now, space, i, r.start, r.end, s.onFate); err != nil {
				if !s.ended {
					s.tr.Ev("  refused: %v", err)
				}
				s.ended = true
			}
		}
		s.ls.receiveAckEnd(s.now, nil, space, delay, s.onFate)
	})
	if s.ended {
		vs.G.Inc("probe.ack_refused")
		if kind == "honest" || kind == "drain" {
			vs.G.Inc("honest_ack_refused")
		}
	}
	s.inv("ack frame")
}

// genAck builds an ACK frame for a space.
func (s *lsSim) genAck(space numberSpace) {
	pk := s.pk[space]
	if s.byz && vs.Pct(s.c, 25) {
		// Arbitrary valid frame: descending, non-adjacent ranges of non-negative
		// numbers, not tied to what was delivered (optimistic or confused peer).
		next := int(s.ls.nextNumber(space))
		hi := next - 1
		if vs.Pct(s.c, 15) {
			hi += vs.Range(s.c, 1, 3) // beyond what was sent
		}
		if hi < 0 {
			if !vs.Pct(s.c, 30) {
				return
			}
			hi = 0
		}
		hi -= s.c.Intn(min(hi, 6) + 1)
		var ranges []i64range[packetNumber]
		for n := vs.Range(s.c, 1, 4); n > 0 && hi >= 0; n-- {
			l := s.c.Intn(min(hi, 12) + 1)
			ranges = append(ranges, i64range[packetNumber]{packetNumber(hi - l), packetNumber(hi + 1)})
			hi = hi - l - 2 - s.c.Intn(4)
		}
		delay := time.Duration(vs.Pick(s.c, 0, 1, 1000, 25_000_000, 10_000_000_000, 1<<62))
		vs.G.Inc("probe.arbitrary_ack")
		s.ackFrame(space, ranges, delay, "arbitrary")
		return
	}
	// Honest frame: what the peer had received at the time it generated the frame;
	// frames are delayed and reordered by the network, so generation times are not monotone.
	back := time.Duration(s.c.Intn(int(s.owd+s.jitter)*2 + 1))
	gen := s.now.Add(-back)
	var nums []packetNumber
	var largestAt time.Time
	for _, p := range pk {
		if p.skipped || p.deliverAt.IsZero() || p.deliverAt.After(gen) {
			continue
		}
		nums = append(nums, p.num)
		largestAt = p.deliverAt
	}
	if len(nums) == 0 {
		return
	}
	ranges := lsRanges(nums)
	// The peer bounds the ranges it reports and forgets old ones.
	if k := vs.Pick(s.c, 0, 0, 1, 2, 8); k > 0 && len(ranges) > k {
		ranges = ranges[:k]
		vs.G.Inc("probe.ack_ranges_pruned")
	}
	delay := gen.Sub(largestAt)
	switch s.c.Intn(6) {
	case 0:
		delay = 0
	case 1:
		delay = time.Duration(vs.Pick(s.c, 1_000, 1_000_000, 25_000_000, 500_000_000, 20_000_000_000))
	}
	if len(ranges) > 1 {
		vs.G.Inc("probe.ack_with_gaps")
	}
	s.ackFrame(space, ranges, delay, "honest")
}

// progress makes one step of the handshake as far as lossState sees it.
func (s *lsSim) progress() {
	type ev struct {
		name string
		f    func()
	}
	var evs []ev
	setMaxAck := func() {
		if s.maxAckSet {
			return
		}
		s.maxAckSet = true
		d := vs.Pick(s.c, 25*time.Millisecond, 0, time.Millisecond, 100*time.Millisecond, 16383*time.Millisecond, 16384*time.Millisecond)
		s.tr.Ev("setMaxAckDelay %v", d)
		s.ls.setMaxAckDelay(d)
	}
	if s.side == clientSide && !s.retried && !s.ackedInitial && s.keys[handshakeSpace] == lsKeyNone && s.keys[initialSpace] == lsKeyLive {
		evs = append(evs, ev{"retry", func() {
			// Retry: everything sent in Initial packets is declared lost and will be resent.
			s.retried = true
			n := 0
			for _, p := range s.pk[initialSpace] {
				if p.fate == lsFateNone {
					n++
				}
			}
			if n > 0 {
				vs.G.Inc("probe.retry_with_outstanding")
			}
			s.tr.Ev("retry: discardPackets Initial (%d outstanding)", n)
			s.guard("panic_in_discardPackets", func() { s.ls.discardPackets(initialSpace, nil, s.onFate) })
			s.inv("discardPackets")
		}})
	}
	if s.keys[handshakeSpace] == lsKeyNone && s.keys[initialSpace] == lsKeyLive {
		evs = append(evs, ev{"handshake_keys", func() {
			s.tr.Ev("handshake keys installed")
			s.keys[handshakeSpace] = lsKeyLive
			if s.side == serverSide {
				setMaxAck() // the client's transport parameters arrive in its Initial flight
				if vs.Bool(s.c) {
					s.tr.Ev("1-RTT keys installed")
					s.keys[appDataSpace] = lsKeyLive
				}
			}
		}})
	}
	if s.keys[handshakeSpace] != lsKeyNone && s.keys[appDataSpace] == lsKeyNone {
		evs = append(evs, ev{"appdata_keys", func() {
			s.tr.Ev("1-RTT keys installed")
			s.keys[appDataSpace] = lsKeyLive
			setMaxAck()
		}})
	}
	if s.side == serverSide && s.keys[handshakeSpace] == lsKeyLive && s.keys[initialSpace] == lsKeyLive {
		evs = append(evs, ev{"server_handshake_packet", func() {
			s.tr.Ev("server processed a Handshake packet: address validated")
			s.ls.validateClientAddress()
			s.discardKeys(initialSpace)
		}})
	}
	if s.keys[appDataSpace] == lsKeyLive && s.keys[handshakeSpace] == lsKeyLive && s.keys[initialSpace] == lsKeyDiscarded {
		evs = append(evs, ev{"confirm", func() {
			s.tr.Ev("handshake confirmed")
			s.ls.confirmHandshake()
			s.discardKeys(handshakeSpace)
		}})
	}
	if len(evs) == 0 {
		return
	}
	evs[s.c.Intn(len(evs))].f()
}

func (s *lsSim) advance(why string) {
	s.tr.Ev("advance(%s) now=%s timer=%s", why, s.rel(s.now), s.rel(s.ls.timer))
	was := s.ls.ptoExpired
	s.guard("panic_in_advance", func() { s.ls.advance(s.now, s.onFate) })
	if s.ls.ptoExpired && !was {
		vs.G.Inc("probe.pto_expired")
	}
	s.inv("advance")
}

func (s *lsSim) step() {
	// 1. time passes
	var dt time.Duration
	timer := s.ls.timer
	switch k := s.c.Intn(10); {
	case k == 0:
		dt = 0
	case k < 3:
		dt = time.Duration(vs.Range(s.c, 1, 1_000_000))
	case k < 5:
		dt = time.Duration(vs.Range(s.c, 1, 100)) * time.Millisecond
	case k < 9 && !timer.IsZero() && timer.After(s.now) && timer.Sub(s.now) < 10*time.Minute:
		dt = timer.Sub(s.now) + time.Duration(vs.Pick(s.c, 0, 0, 1, 1000, 5_000_000))
		vs.G.Inc("probe.advance_to_timer")
	case k < 9:
		dt = s.owd + time.Duration(s.c.Intn(int(s.owd+s.jitter)+1))
	default:
		dt = time.Duration(vs.Range(s.c, 1, 60_000)) * time.Millisecond
	}
	s.now = s.now.Add(dt)
	// 2. one event wakes the connection loop
	switch k := s.c.Intn(10); {
	case k < 2:
		s.tr.Ev("wake at %s", s.rel(s.now))
	case k < 4:
		s.advance("timer event")
	default:
		size := vs.Pick(s.c, 1200, 40, 100, 1500)
		s.tr.Ev("datagram received size=%d at %s", size, s.rel(s.now))
		s.guard("panic_in_datagramReceived", func() { s.ls.datagramReceived(s.now, size) })
		s.inv("datagramReceived")
		for n := vs.Range(s.c, 0, 3); n > 0 && s.viol == nil && !s.ended; n-- {
			if vs.Pct(s.c, 25) {
				s.progress()
				continue
			}
			var live []numberSpace
			for sp := initialSpace; sp < numberSpaceCount; sp++ {
				if s.keys[sp] == lsKeyLive {
					live = append(live, sp)
				}
			}
			if len(live) > 0 {
				s.genAck(live[s.c.Intn(len(live))])
			}
		}
	}
	if s.ended {
		return
	}
	// 3. the loop tries to send, and handles an expired loss timer right away
	for i := 0; i < 4 && s.viol == nil; i++ {
		s.maybeSend()
		if s.viol != nil || s.ls.timer.IsZero() || !s.ls.timer.Before(s.now) {
			break
		}
		s.now = s.now.Add(time.Duration(vs.Pick(s.c, 0, 1, 50_000)))
		s.advance("expired timer")
	}
}

// drain: the peer finally acknowledges every packet that was really sent in the
// spaces that still have keys; afterwards every packet must have a fate.
func (s *lsSim) drain() {
	s.now = s.now.Add(time.Duration(vs.Range(s.c, 0, 50)) * time.Millisecond)
	for sp := initialSpace; sp < numberSpaceCount && s.viol == nil; sp++ {
		if s.keys[sp] != lsKeyLive {
			continue
		}
		var nums []packetNumber
		for _, p := range s.pk[sp] {
			if !p.skipped {
				nums = append(nums, p.num)
			}
		}
		sort.Slice(nums, func(i, j int) bool { return nums[i] < nums[j] })
		s.ackFrame(sp, lsRanges(nums), 0, "drain")
		if s.ended && s.viol == nil {
			s.fail(vs.Violf("C26", "drain", "full_ack_refused", "an ACK frame covering exactly the packets sent in %v was refused", sp))
		}
	}
	if s.viol != nil {
		return
	}
	for sp := range s.pk {
		for _, p := range s.pk[sp] {
			if !p.skipped && p.fate == lsFateNone {
				s.fail(vs.Violf("C26", "drain", "packet_without_fate", "packet %v/%d (size %d, inFlight=%v) still has no fate after the peer acknowledged every sent packet", numberSpace(sp), p.num, p.size, p.inFlight))
				return
			}
		}
	}
	if s.ls.cc.bytesInFlight != 0 {
		s.fail(vs.Violf("C26", "bytes_in_flight", "bytes_in_flight_after_drain", "bytesInFlight=%d after every packet met its fate", s.ls.cc.bytesInFlight))
	}
	vs.G.Inc("probe.drained")
}

func c26Run(rt *rapid.T) {
	c := vs.RapidChooser{T: rt}
	tr := vs.NewTrace()
	qpProbes("acked", "lost", "spurious_loss", "discard_keys_with_outstanding", "retry_with_outstanding", "pto_expired",
		"cwnd_at_minimum", "cc_limited", "amplification_blocked", "skipped_number", "ack_refused", "arbitrary_ack",
		"ack_with_gaps", "ack_ranges_pruned", "inflight_not_ackeliciting", "advance_to_timer", "drained", "recovery_entered", "paced")
	s := &lsSim{rt: rt, c: c, tr: tr}
	s.side = vs.Pick(c, clientSide, serverSide)
	s.mds = vs.Pick(c, 1200, 1200, 1252, 1472, 4096)
	s.t0 = time.Date(2001, 2, 3, 4, 5, 6, 0, time.UTC)
	s.now = s.t0
	s.owd = vs.Pick(c, 5*time.Millisecond, 100*time.Microsecond, 50*time.Millisecond, 300*time.Millisecond)
	s.jitter = time.Duration(vs.Pick(c, 0, 1, 4)) * s.owd / 4
	s.lossPct = vs.Pick(c, 0, 5, 20, 50)
	s.reorderPct = vs.Pick(c, 0, 10, 40)
	s.byz = vs.Pct(c, 40)
	s.skipPct = vs.Pick(c, 0, 5, 30)
	s.appBusyPct = vs.Pick(c, 80, 30, 100)
	s.keys[initialSpace] = lsKeyLive
	tr.Ev("side=%v mds=%d owd=%v jitter=%v loss=%d%% reorder=%d%% byz=%v skip=%d%% busy=%d%%", s.side, s.mds, s.owd, s.jitter, s.lossPct, s.reorderPct, s.byz, s.skipPct, s.appBusyPct)
	s.guard("panic_in_init", func() { s.ls.init(s.side, s.mds, s.now) })
	s.inv("init")
	if s.side == clientSide {
		s.maybeSend()
	}
	nsteps := vs.Range(c, 1, vs.Thorough(70, 250))
	for i := 0; i < nsteps && s.viol == nil && !s.ended; i++ {
		s.step()
	}
	if s.ls.cc.slowStartThreshold < 1<<60 {
		vs.G.Inc("probe.recovery_entered")
	}
	if s.viol == nil && !s.ended {
		s.drain()
	}
	vs.G.EndRun(tr, s.nSent > 0 && s.nAcked+s.nLost+s.nDisc > 0, s.now.Sub(s.t0), func() any {
		return map[string]any{"sent": s.nSent, "acked": s.nAcked, "lost": s.nLost, "discarded": s.nDisc, "events": tr.Log[:min(len(tr.Log), 60)]}
	})
	vs.Report(rt, s.viol, tr)
}

func TestVerif_C26(t *testing.T) { vs.Check(t, c26Run) }
