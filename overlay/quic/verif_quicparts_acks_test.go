// Engine quicparts, component halves of
//   C25: ackState (duplicate suppression across ACK-range pruning, content of ACK
//        frames) and lossState's refusal of ACKs for never-sent packet numbers;
//   C31: retryState.makeToken/validateToken under a simulated clock and generated
//        mutations, plus the stateless-reset-token side assertion.

package quic

import (
	"bytes"
	"crypto/rand"
	"fmt"
	"io"
	"net/netip"
	"testing"
	"time"

	"golang.org/x/crypto/chacha20poly1305"
	vs "golang.org/x/net/internal/verifsim"
	"pgregory.net/rapid"
)

// ---------------------------------------------------------------------------
// C25 (component half)

type akFrame struct {
	largest packetNumber
}

func c25AckState(rt *rapid.T, c vs.Chooser, tr *vs.Trace) (viol *vs.Violation, nontrivial bool) {
	space := vs.Pick(c, appDataSpace, initialSpace, handshakeSpace)
	var acks ackState
	processed := map[packetNumber]bool{}
	var history []packetNumber // every number the peer ever sent (arrived or not)
	var bag []packetNumber     // copies in the network
	var frames []akFrame       // ACK frames we sent (largest acknowledged of each)
	now := time.Date(2002, 3, 4, 5, 6, 7, 0, time.UTC)
	next := packetNumber(vs.Pick(c, 0, 0, 1, 1<<14-4, 1<<32-4))
	gapPct := vs.Pick(c, 30, 0, 10, 60)
	nsteps := vs.Range(c, 1, vs.Thorough(120, 400))
	arrivals := 0
	tr.Ev("ackState space=%v first=%d gap=%d%%", space, next, gapPct)

	// checkAcks: whatever acksToSend offers must have been received, and the
	// ACK frame the packet writer builds from it (possibly truncated to the room
	// left in the packet) must acknowledge only received numbers.
	checkAcks := func(send bool) *vs.Violation {
		var seen rangeset[packetNumber]
		var delay time.Duration
		if v := vs.Guard("C25", "panic_in_acksToSend", func() { seen, delay = acks.acksToSend(now) }); v != nil {
			return v
		}
		for _, r := range seen {
			for n := r.start; n < r.end; n++ {
				if !processed[n] {
					return vs.Violf("C25", "acks_to_send", "ack_of_unreceived", "acksToSend offers %v which contains %d, never received in this space", seen, n)
				}
			}
		}
		if !send || len(seen) == 0 {
			return nil
		}
		var w packetWriter
		w.reset(1200)
		w.start1RTTPacket(0, 0, nil)
		room := vs.Pick(c, 1000, 3, 4, 5, 6, 8, 10, 14, 20, 40)
		w.pktLim = w.payOff + room
		var added bool
		if v := vs.Guard("C25", "panic_in_appendAckFrame", func() {
			added = w.appendAckFrame(seen, unscaledAckDelayFromDuration(delay, ackDelayExponent), acks.ecn)
		}); v != nil {
			return v
		}
		if !added {
			tr.Ev("ack frame does not fit in %d bytes", room)
			w.abandonPacket()
			return nil
		}
		payload := append([]byte(nil), w.payload()...)
		w.abandonPacket()
		var viol *vs.Violation
		nranges := 0
		largest, _, _, n := consumeAckFrame(payload, func(_ int, start, end packetNumber) {
			nranges++
			for pn := start; pn < end && viol == nil; pn++ {
				if !processed[pn] {
					viol = vs.Violf("C25", "ack_frame", "frame_acks_unreceived", "ACK frame %x (room %d) built from %v acknowledges %d, never received", payload, room, seen, pn)
				}
			}
		})
		if viol != nil {
			return viol
		}
		if n != len(payload) {
			return vs.Violf("C25", "ack_frame", "frame_unparsable", "ACK frame %x built from %v does not parse (n=%d of %d)", payload, seen, n, len(payload))
		}
		if nranges < len(seen) {
			vs.G.Inc("probe.ack_frame_truncated")
		}
		tr.Ev("sent ACK largest=%d ranges=%d", largest, nranges)
		frames = append(frames, akFrame{largest})
		acks.sentAck()
		return nil
	}

	for step := 0; step < nsteps; step++ {
		var arrive packetNumber = -1
		switch k := c.Intn(16); {
		case k < 5: // the peer sends a new packet (possibly skipping numbers); the network makes 0..3 copies
			if vs.Pct(c, gapPct) {
				next += packetNumber(vs.Pick(c, 1, 1, 2, 5, 300))
			}
			n := next
			next++
			history = append(history, n)
			for i := vs.Pick(c, 1, 1, 0, 2, 3); i > 0; i-- {
				bag = append(bag, n)
			}
			continue
		case k < 11: // the network delivers one of the copies in flight (any order)
			if len(bag) == 0 {
				continue
			}
			i := c.Intn(len(bag))
			if vs.Pct(c, 60) {
				i = 0 // mostly in order
			}
			arrive = bag[i]
			bag = append(bag[:i], bag[i+1:]...)
		case k < 13: // a replay of something sent long ago
			if len(history) == 0 {
				continue
			}
			arrive = history[c.Intn(len(history))]
			if vs.Bool(c) {
				arrive = history[c.Intn(min(len(history), 12))]
			}
		case k < 14: // we send an ACK frame
			if v := checkAcks(true); v != nil {
				return v, true
			}
			continue
		case k < 15: // the peer acknowledged a packet of ours that carried an ACK frame (any one, any order)
			if len(frames) == 0 {
				continue
			}
			f := frames[c.Intn(len(frames))]
			tr.Ev("handleAck(%d)", f.largest)
			vs.G.Inc("probe.ack_of_ack")
			if v := vs.Guard("C25", "panic_in_handleAck", func() { acks.handleAck(f.largest) }); v != nil {
				return v, true
			}
			if v := checkAcks(false); v != nil {
				return v, true
			}
			continue
		default:
			now = now.Add(time.Duration(vs.Pick(c, 1, 1000, 1_000_000, 30_000_000)))
			continue
		}
		// A packet with number `arrive` was decrypted: Conn asks shouldProcess, handles
		// the frames, then calls receive.
		var ok bool
		if v := vs.Guard("C25", "panic_in_shouldProcess", func() { ok = acks.shouldProcess(arrive) }); v != nil {
			return v, true
		}
		arrivals++
		if !ok {
			tr.Ev("arrive %d: dropped", arrive)
			if processed[arrive] {
				if arrive < acks.seen.min() {
					vs.G.Inc("probe.duplicate_below_pruned_floor")
				} else {
					vs.G.Inc("probe.duplicate_in_kept_range")
				}
			} else {
				vs.G.Inc("probe.new_packet_below_floor_dropped")
			}
			continue
		}
		if processed[arrive] {
			return vs.Violf("C25", "processed_twice", "duplicate_processed", "packet number %d was already processed in this space, shouldProcess says true again (kept ranges %v)", arrive, acks.seen), true
		}
		ae := vs.Pct(c, 70)
		ecn := vs.Pick(c, ecnBits(ecnNotECT), ecnECT0, ecnECT1, ecnCE)
		tr.Ev("arrive %d: processed ae=%v", arrive, ae)
		if v := vs.Guard("C25", "panic_in_receive", func() { acks.receive(now, space, arrive, ae, ecn) }); v != nil {
			return v, true
		}
		processed[arrive] = true
		if len(processed) > 9 && acks.seen.numRanges() < len(processed) && acks.seen.min() > history[0] {
			vs.G.Inc("probe.ranges_pruned")
		}
		if v := checkAcks(false); v != nil {
			return v, true
		}
	}
	return nil, arrivals > 1
}

// c25LossUnsent: lossState must refuse ACK frames for packet numbers that were
// never sent. Only the two cases the property pins down are asserted (see
// DESIGN.md C25): a range reaching beyond the next packet number to be sent,
// and a range covering a skipped number together with a lower-numbered packet
// that was still outstanding before the frame. Everything else is executed but
// is a don't-care.
func c25LossUnsent(rt *rapid.T, c vs.Chooser, tr *vs.Trace) (viol *vs.Violation, nontrivial bool) {
	var ls lossState
	now := time.Date(2002, 3, 4, 5, 6, 7, 0, time.UTC)
	side := vs.Pick(c, clientSide, serverSide)
	ls.init(side, 1200, now)
	ls.validateClientAddress()
	space := vs.Pick(c, appDataSpace, appDataSpace, initialSpace, handshakeSpace)
	tr.Ev("lossState side=%v space=%v", side, space)
	const (
		stUnsent = iota
		stOutstanding
		stResolved
	)
	var st []int // per packet number
	fate := func(_ numberSpace, sent *sentPacket, _ packetFate) {
		if int(sent.num) < len(st) {
			st[sent.num] = stResolved
		}
	}
	nsteps := vs.Range(c, 1, vs.Thorough(40, 120))
	checks := 0
	for step := 0; step < nsteps; step++ {
		now = now.Add(time.Duration(vs.Pick(c, 1, 1000, 1_000_000, 20_000_000)))
		switch k := c.Intn(10); {
		case k < 5:
			sent := newSentPacket()
			sent.num = ls.nextNumber(space)
			sent.size = vs.Range(c, 30, 1200)
			sent.ackEliciting, sent.inFlight = true, true
			tr.Ev("send %d", sent.num)
			if v := vs.Guard("C25", "panic_in_packetSent", func() { ls.packetSent(now, nil, space, sent) }); v != nil {
				return v, true
			}
			st = append(st, stOutstanding)
			if space == appDataSpace && vs.Pct(c, 30) {
				tr.Ev("skip %d", ls.nextNumber(space))
				ls.skipNumber(now, space)
				st = append(st, stUnsent)
				vs.G.Inc("probe.loss_skipped_number")
			}
		case k < 6:
			if v := vs.Guard("C25", "panic_in_advance", func() { ls.advance(now, fate) }); v != nil {
				return v, true
			}
		default:
			next := len(st)
			if next == 0 && !vs.Pct(c, 20) {
				continue
			}
			hi := next - 1 - c.Intn(min(next, 5)+1)
			if vs.Pct(c, 20) {
				hi = next - 1 + vs.Range(c, 1, 3)
			}
			if hi < 0 {
				hi = 0
			}
			var ranges []i64range[packetNumber]
			for n := vs.Range(c, 1, 3); n > 0 && hi >= 0; n-- {
				l := c.Intn(min(hi, 10) + 1)
				ranges = append(ranges, i64range[packetNumber]{packetNumber(hi - l), packetNumber(hi + 1)})
				hi = hi - l - 2 - c.Intn(3)
			}
			// What the property demands for this frame, decided before it is processed.
			must := ""
			for _, r := range ranges {
				if int(r.end) > next {
					must = fmt.Sprintf("range [%d,%d) reaches beyond the next packet number %d", r.start, r.end, next)
					vs.G.Inc("probe.ack_beyond_next")
					break
				}
				outstandingBelow := false
				for n := int(r.start); n < int(r.end); n++ {
					if st[n] == stOutstanding {
						outstandingBelow = true
					}
					if st[n] == stUnsent && outstandingBelow {
						must = fmt.Sprintf("range [%d,%d) covers skipped number %d and an outstanding lower-numbered packet", r.start, r.end, n)
						vs.G.Inc("probe.ack_of_tracked_skipped_number")
						break
					}
				}
				if must != "" {
					break
				}
			}
			tr.Ev("ack %v must_refuse=%v", ranges, must != "")
			var firstErr error
			if v := vs.Guard("C25", "panic_in_receiveAck", func() {
				ls.receiveAckStart()
				for i, r := range ranges {
					if err := ls.receiveAckRange(now, space, i, r.start, r.end, fate); err != nil && firstErr == nil {
						firstErr = err
					}
				}
				ls.receiveAckEnd(now, nil, space, 0, fate)
			}); v != nil {
				return v, true
			}
			checks++
			if must != "" {
				lte, isLTE := firstErr.(localTransportError)
				if firstErr == nil {
					return vs.Violf("C25", "ack_unsent_accepted", "ack_of_unsent_accepted", "ACK frame %v accepted although %s", ranges, must), true
				}
				if !isLTE || lte.code != errProtocolViolation {
					return vs.Violf("C25", "ack_unsent_accepted", "ack_of_unsent_wrong_error", "ACK frame %v (%s) refused with %v, want PROTOCOL_VIOLATION", ranges, must, firstErr), true
				}
			}
			if firstErr != nil {
				// the connection is closed by the error
				return nil, true
			}
		}
	}
	return nil, checks > 0
}

func c25Run(rt *rapid.T) {
	c := vs.RapidChooser{T: rt}
	tr := vs.NewTrace()
	qpProbes("ack_of_ack", "duplicate_below_pruned_floor", "duplicate_in_kept_range", "ranges_pruned", "ack_frame_truncated",
		"new_packet_below_floor_dropped", "loss_skipped_number", "ack_beyond_next", "ack_of_tracked_skipped_number")
	var viol *vs.Violation
	var nontrivial bool
	if vs.Pct(c, 25) {
		viol, nontrivial = c25LossUnsent(rt, c, tr)
	} else {
		viol, nontrivial = c25AckState(rt, c, tr)
	}
	vs.G.EndRun(tr, nontrivial, 0, func() any {
		return map[string]any{"events": tr.Log[:min(len(tr.Log), 50)]}
	})
	vs.Report(rt, viol, tr)
}

func TestVerif_C25_parts(t *testing.T) { vs.Check(t, c25Run) }

// ---------------------------------------------------------------------------
// C31 (component half)

// qpRand is a deterministic stand-in for crypto/rand.Reader during a run (the
// token nonce is the only thing drawn from it).
type qpRand struct{ s uint64 }

func (r *qpRand) Read(b []byte) (int, error) {
	for i := range b {
		r.s += 0x9e3779b97f4a7c15
		z := r.s
		z = (z ^ (z >> 30)) * 0xbf58476d1ce4e5b9
		z = (z ^ (z >> 27)) * 0x94d049bb133111eb
		b[i] = byte(z >> 40)
	}
	return len(b), nil
}

var _ io.Reader = (*qpRand)(nil)

func qpBytes(seed uint64, n int) []byte {
	b := make([]byte, n)
	(&qpRand{s: seed}).Read(b)
	return b
}

type rtIssue struct {
	key    int
	token  []byte
	src    []byte
	odcid  []byte
	newDst []byte
	addr   netip.AddrPort
	at     time.Time
}

type rtPresent struct {
	key   int
	token []byte
	src   []byte
	dst   []byte
	addr  netip.AddrPort
}

func (p rtPresent) matches(is *rtIssue) bool {
	return p.key == is.key && bytes.Equal(p.token, is.token) && bytes.Equal(p.src, is.src) &&
		bytes.Equal(p.dst, is.newDst) && p.addr == is.addr
}

func absDur(a, b time.Time) (d time.Duration, saturated bool) {
	d = a.Sub(b)
	if d < 0 {
		d = b.Sub(a)
	}
	// time.Sub saturates; a saturated difference is certainly larger than any validity period
	return d, d == 1<<63-1
}

func c31Run(rt *rapid.T) {
	c := vs.RapidChooser{T: rt}
	tr := vs.NewTrace()
	qpProbes("accepted_exact", "must_accept_checked", "rejected_outside_validity", "rejected_mutation", "window_edge",
		"clock_backwards", "cross_token_combination", "reset_tokens_checked", "mutated_token", "mutated_addr", "mutated_port",
		"mutated_src", "mutated_dst", "other_key", "reframed_src_addr_boundary")
	extreme := vs.Config() == "parts-extreme"
	if extreme {
		qpProbes("extreme_clock_offset")
	}
	oldReader := rand.Reader
	rand.Reader = &qpRand{s: uint64(c.Intn(1 << 30))}
	defer func() { rand.Reader = oldReader }()

	// one or two endpoints' keys
	var rs [2]retryState
	for i := range rs {
		aead, err := chacha20poly1305.NewX(qpBytes(uint64(1000+i*77+c.Intn(4)), chacha20poly1305.KeySize))
		if err != nil {
			vs.Harnessf(rt, "chacha20poly1305.NewX: %v", err)
		}
		rs[i].aead = aead
	}
	ips := []netip.Addr{
		netip.MustParseAddr("192.0.2.1"), netip.MustParseAddr("192.0.2.2"), netip.MustParseAddr("::ffff:192.0.2.1"),
		netip.MustParseAddr("2001:db8::1"), netip.MustParseAddr("2001:db8::2"), netip.MustParseAddr("0.0.0.0"), netip.MustParseAddr("::"),
	}
	ports := []uint16{443, 0, 1, 50000, 50001, 65535, 0x0100, 0x0001}
	cid := func() []byte {
		n := vs.Pick(c, 8, 0, 1, 4, 19, 20)
		return qpBytes(uint64(c.Intn(3)), n) // few distinct values: prefixes of each other occur
	}
	base := time.Date(2020, 1, 2, 3, 4, 5, 0, time.UTC).Add(time.Duration(c.Intn(2_000_000_000)))
	if vs.Pct(c, 10) {
		base = vs.Pick(c, time.Unix(0, 0), time.Unix(-1, 500_000_000), time.Unix(1<<31, 999_999_999), time.Unix(1<<32, 0))
	}
	V := retryTokenValidityPeriod

	var viol *vs.Violation
	var issues []*rtIssue
	for i := vs.Range(c, 1, 3); i > 0 && viol == nil; i-- {
		is := &rtIssue{key: c.Intn(2), src: cid(), odcid: cid(),
			addr: netip.AddrPortFrom(ips[c.Intn(len(ips))], ports[c.Intn(len(ports))]),
			at:   base.Add(time.Duration(vs.Pick(c, 0, 1, 999_999_999, 1_000_000_000, 3_500_000_000)))}
		var err error
		viol = vs.Guard("C31", "panic_in_makeToken", func() {
			is.token, is.newDst, err = rs[is.key].makeToken(is.at, is.src, is.odcid, is.addr)
		})
		if viol != nil {
			break
		}
		if err != nil {
			vs.Harnessf(rt, "makeToken: %v", err)
		}
		is.token = append([]byte(nil), is.token...)
		is.newDst = append([]byte(nil), is.newDst...)
		tr.Ev("issue key=%d src=%x odcid=%x addr=%v at=+%v token=%s dst=%x", is.key, is.src, is.odcid, is.addr, is.at.Sub(base), vs.Hex(is.token), is.newDst)
		issues = append(issues, is)
	}

	flip := func(b []byte) []byte {
		b = append([]byte(nil), b...)
		if len(b) == 0 {
			return []byte{byte(c.Intn(256))}
		}
		i := c.Intn(len(b))
		b[i] ^= 1 << c.Intn(8)
		return b
	}
	mutBytes := func(b, other []byte) []byte {
		switch c.Intn(6) {
		case 0:
			return flip(b)
		case 1:
			if len(b) == 0 {
				return flip(b)
			}
			return append([]byte(nil), b[:len(b)-1-c.Intn(min(len(b), 3))]...)
		case 2:
			return append(append([]byte(nil), b...), byte(c.Intn(256)))
		case 3:
			return append([]byte(nil), other...)
		case 4:
			return nil
		default:
			if len(b) < 2 {
				return flip(b)
			}
			return append(append([]byte(nil), b[1:]...), b[0])
		}
	}

	attempts := 0
	for n := vs.Range(c, 1, vs.Thorough(12, 30)); n > 0 && viol == nil && len(issues) > 0; n-- {
		is := issues[c.Intn(len(issues))]
		other := issues[c.Intn(len(issues))]
		p := rtPresent{key: is.key, token: is.token, src: is.src, dst: is.newDst, addr: is.addr}
		desc := ""
		for k := vs.Pick(c, 0, 1, 1, 2); k > 0; k-- {
			switch c.Intn(8) {
			case 7:
				// "reframe": move bytes across the boundary between the source
				// connection ID and the address, so that their plain concatenation
				// stays the same (a v6 address splits into 12 more connection ID
				// bytes and a v4 address, or the reverse): must still be rejected
				a := p.addr.Addr()
				switch {
				case a.Is6() && !a.Is4In6() && len(p.src)+12 <= maxConnIDLen:
					b := a.As16()
					p.src = append(append([]byte(nil), p.src...), b[:12]...)
					p.addr = netip.AddrPortFrom(netip.AddrFrom4([4]byte(b[12:])), p.addr.Port())
					desc += " reframe6to4"
					vs.G.Inc("probe.reframed_src_addr_boundary")
				case a.Is4() && len(p.src) >= 12:
					var b [16]byte
					copy(b[:12], p.src[len(p.src)-12:])
					b4 := a.As4()
					copy(b[12:], b4[:])
					p.src = append([]byte(nil), p.src[:len(p.src)-12]...)
					p.addr = netip.AddrPortFrom(netip.AddrFrom16(b), p.addr.Port())
					desc += " reframe4to6"
					vs.G.Inc("probe.reframed_src_addr_boundary")
				}
			case 0:
				p.token = mutBytes(p.token, other.token)
				if vs.Pct(c, 20) && len(other.token) >= 4 && len(p.token) >= 4 {
					// splice: another token's nonce tail on this ciphertext
					p.token = append(append([]byte(nil), other.token[:4]...), is.token[4:]...)
				}
				desc += " token"
				vs.G.Inc("probe.mutated_token")
			case 1:
				ip := ips[c.Intn(len(ips))]
				if vs.Bool(c) {
					if a := p.addr.Addr(); a.Is4() {
						ip = netip.AddrFrom16(a.As16())
					} else if a.Is4In6() {
						ip = a.Unmap()
					}
				}
				p.addr = netip.AddrPortFrom(ip, p.addr.Port())
				desc += " addr"
				vs.G.Inc("probe.mutated_addr")
			case 2:
				port := ports[c.Intn(len(ports))]
				if vs.Bool(c) {
					port = p.addr.Port() + uint16(vs.Pick(c, 1, 0xffff, 0x100, 0xff00))
				}
				p.addr = netip.AddrPortFrom(p.addr.Addr(), port)
				desc += " port"
				vs.G.Inc("probe.mutated_port")
			case 3:
				p.src = mutBytes(p.src, other.src)
				if len(p.src) > maxConnIDLen {
					p.src = p.src[:maxConnIDLen]
				}
				desc += " src"
				vs.G.Inc("probe.mutated_src")
			case 4:
				p.dst = mutBytes(p.dst, other.newDst)
				desc += " dst"
				vs.G.Inc("probe.mutated_dst")
			case 5:
				p.key = 1 - p.key
				desc += " key"
				vs.G.Inc("probe.other_key")
			default:
				// present the other issue's token with this one's context, or vice versa
				p.token = other.token
				if vs.Bool(c) {
					p.dst = other.newDst
				}
				desc += " cross"
				vs.G.Inc("probe.cross_token_combination")
			}
		}
		// the clock at presentation
		sec := time.Second
		offs := []time.Duration{0, 1, sec, V - sec, V - sec - 1, V - sec + 1, V - 1, V, V + 1, V + sec - 1, V + sec, V + sec + 1, V + 2*sec, time.Hour, 365 * 24 * time.Hour}
		off := offs[c.Intn(len(offs))]
		if vs.Pct(c, 35) {
			off = -off
		}
		now := is.at.Add(off)
		if extreme && vs.Pct(c, 30) {
			// clock jumps of centuries in either direction
			now = time.Unix(is.at.Unix()+int64(vs.Pick(c, 1, -1))*int64(vs.Pick(c, 200, 293, 300, 1000, 100000))*365*86400, int64(c.Intn(1_000_000_000)))
			off = 0
			vs.G.Inc("probe.extreme_clock_offset")
		}
		tr.Ev("present mutated=[%s ] key=%d token=%s src=%x dst=%x addr=%v now=issue%+v", desc, p.key, vs.Hex(p.token), p.src, p.dst, p.addr, now.Sub(is.at))
		var odcid []byte
		var ok bool
		viol = vs.Guard("C31", "panic_in_validateToken", func() {
			odcid, ok = rs[p.key].validateToken(now, p.token, p.src, p.dst, p.addr)
		})
		if viol != nil {
			break
		}
		attempts++
		tr.Ev("  -> ok=%v odcid=%x", ok, odcid)
		// Which issued token (if any) is this an untouched presentation of?
		var match *rtIssue
		for _, j := range issues {
			if p.matches(j) {
				match = j
			}
		}
		if ok {
			if match == nil {
				// normal form: the fields in which the presentation differs from the token it was derived from
				diff := ""
				if p.key != is.key {
					diff += " key"
				}
				if !bytes.Equal(p.token, is.token) {
					diff += " token"
				}
				if !bytes.Equal(p.src, is.src) {
					diff += " src"
				}
				if !bytes.Equal(p.dst, is.newDst) {
					diff += " dst"
				}
				if p.addr.Addr() != is.addr.Addr() {
					diff += " addr"
				}
				if p.addr.Port() != is.addr.Port() {
					diff += " port"
				}
				viol = vs.Violf("C31", "accepted_modified", "accepted_modified:"+diff, "validateToken accepted a presentation that differs from the issued token in%s (token=%x src=%x dst=%x addr=%v; issued token=%x src=%x dst=%x addr=%v)", diff, p.token, p.src, p.dst, p.addr, is.token, is.src, is.newDst, is.addr)
				break
			}
			d, sat := absDur(now, match.at)
			if sat || d > V+time.Second {
				oracle := "accepted_outside_validity"
				if sat || d > 200*365*24*time.Hour {
					oracle = "accepted_outside_validity_extreme_clock"
				}
				viol = vs.Violf("C31", oracle, oracle, "token issued at %v accepted at %v (|now-issue| = %v%s, validity %v)", match.at.UTC(), now.UTC(), d, map[bool]string{true: " or more (saturated)", false: ""}[sat], V)
				break
			}
			if !bytes.Equal(odcid, match.odcid) {
				viol = vs.Violf("C31", "wrong_odcid", "wrong_original_dcid", "accepted token returned original destination connection ID %x, issued for %x", odcid, match.odcid)
				break
			}
			vs.G.Inc("probe.accepted_exact")
			if now.Before(match.at) {
				vs.G.Inc("probe.clock_backwards")
			}
		} else {
			if match != nil {
				d, sat := absDur(now, match.at)
				if !sat && d <= V-time.Second {
					viol = vs.Violf("C31", "rejected_valid", "untouched_token_rejected", "untouched token issued at %v rejected at now=issue%+v (validity %v)", match.at.UTC(), now.Sub(match.at), V)
					break
				}
				vs.G.Inc("probe.rejected_outside_validity")
			} else {
				vs.G.Inc("probe.rejected_mutation")
			}
		}
		if match != nil {
			d, sat := absDur(now, match.at)
			if !sat && d <= V-time.Second {
				vs.G.Inc("probe.must_accept_checked")
			}
			if !sat && d > V-time.Second && d <= V+time.Second {
				vs.G.Inc("probe.window_edge")
			}
		}
	}

	// Side assertion (pure function): stateless-reset tokens are equal for equal
	// (key, connection ID) and different otherwise.
	if viol == nil {
		var gens [3]statelessResetTokenGenerator
		var secrets [3][32]byte
		for i := range gens {
			copy(secrets[i][:], qpBytes(uint64(1+c.Intn(2)), 32))
			if i == 2 && vs.Bool(c) {
				secrets[i][c.Intn(32)] ^= 1 << c.Intn(8)
			}
			gens[i].init(secrets[i])
		}
		type obs struct {
			g   int
			cid []byte
			tok statelessResetToken
		}
		var seen []obs
		// Half of the runs hand the generator connection IDs that live in one
		// recycled buffer, as Endpoint.maybeSendStatelessReset does with a slice of
		// the received datagram: the generator must not keep what it was given.
		recycle := vs.Bool(c)
		var rbuf [64]byte
		if recycle {
			vs.G.Inc("probe.reset_token_cid_in_recycled_buffer")
		}
		for n := vs.Range(c, 2, 8); n > 0 && viol == nil; n-- {
			g := c.Intn(3)
			id := cid()
			if vs.Pct(c, 30) {
				id = flip(id)
			}
			if recycle && len(id) <= len(rbuf) {
				id = rbuf[:copy(rbuf[:], id)]
			}
			var tok statelessResetToken
			if viol = vs.Guard("C31", "panic_in_tokenForConnID", func() { tok = gens[g].tokenForConnID(id) }); viol != nil {
				break
			}
			tr.Ev("reset token gen=%d cid=%x -> %x", g, id, tok)
			for _, o := range seen {
				same := secrets[o.g] == secrets[g] && bytes.Equal(o.cid, id)
				if same && o.tok != tok {
					viol = vs.Violf("C31", "reset_token_unstable", "reset_token_differs_for_same_input", "tokenForConnID(%x) gave %x and %x for the same key", id, o.tok, tok)
				} else if !same && o.tok == tok {
					viol = vs.Violf("C31", "reset_token_collision", "reset_token_equal_for_different_input", "tokenForConnID gave %x for (key %d, cid %x) and (key %d, cid %x)", tok, o.g, o.cid, g, id)
				}
			}
			seen = append(seen, obs{g, append([]byte(nil), id...), tok})
		}
		vs.G.Inc("probe.reset_tokens_checked")
	}
	vs.G.EndRun(tr, attempts > 0, 0, func() any {
		return map[string]any{"events": tr.Log[:min(len(tr.Log), 40)]}
	})
	vs.Report(rt, viol, tr)
}

func TestVerif_C31_parts(t *testing.T) { vs.Check(t, c31Run) }
