// Engine quicparts: the sequential, component-level halves of the QUIC
// properties C24 (rangeset), C30 (pipe), C26 (lossState+ccReno+sentPacketList),
// C25 (ackState) and C31 (retry / stateless-reset tokens). Every choice is drawn
// from rapid; the operation histories are shaped by a simulated network
// (out-of-order / duplicated / overlapping arrival, acks and losses in arbitrary
// order, prefix discards) and compared after every operation with reference
// models written from the property text.
//
// This file: shared helpers, C24 and C30.
// verif_quicparts_loss_test.go: C26. verif_quicparts_acks_test.go: C25, C31.

package quic

import (
	"fmt"
	"math"
	"sort"
	"testing"

	vs "golang.org/x/net/internal/verifsim"
	"pgregory.net/rapid"
)

// qpProbes registers the probes a test relies on so that one stuck at zero is printed.
func qpProbes(names ...string) {
	for _, n := range names {
		vs.G.Add("probe."+n, 0)
	}
}

// ---------------------------------------------------------------------------
// C24: rangeset[int64] against a reference integer set.
//
// The reference model is the operation history itself: v is a member iff the
// most recent operation whose range covers v is an add. The canonical range
// list is derived by evaluating membership on the elementary segments between
// all boundaries that ever appeared.

type rsOp struct {
	add        bool
	start, end int64 // [start,end), start <= end
}

type rsModel struct {
	ops    []rsOp
	bounds []int64    // sorted unique boundaries of all ops
	canon  [][2]int64 // cached canonical ranges (recomputed after every effective op)
}

func (m *rsModel) apply(add bool, start, end int64) {
	if start >= end {
		return // the empty range: no integer is added or removed
	}
	m.ops = append(m.ops, rsOp{add, start, end})
	for _, b := range []int64{start, end} {
		i := sort.Search(len(m.bounds), func(i int) bool { return m.bounds[i] >= b })
		if i < len(m.bounds) && m.bounds[i] == b {
			continue
		}
		m.bounds = append(m.bounds, 0)
		copy(m.bounds[i+1:], m.bounds[i:])
		m.bounds[i] = b
	}
	m.canon = m.compute()
}

func (m *rsModel) member(v int64) bool {
	for i := len(m.ops) - 1; i >= 0; i-- {
		o := m.ops[i]
		if o.start <= v && v < o.end {
			return o.add
		}
	}
	return false
}

// ranges returns the canonical (sorted, disjoint, non-adjacent, non-empty) ranges.
func (m *rsModel) ranges() [][2]int64 { return m.canon }

func (m *rsModel) compute() [][2]int64 {
	var out [][2]int64
	for i := 0; i+1 < len(m.bounds); i++ {
		lo, hi := m.bounds[i], m.bounds[i+1]
		if !m.member(lo) {
			continue
		}
		if n := len(out); n > 0 && out[n-1][1] == lo {
			out[n-1][1] = hi
		} else {
			out = append(out, [2]int64{lo, hi})
		}
	}
	return out
}

func rsFmt(rs [][2]int64) string {
	s := "{"
	for i, r := range rs {
		if i > 0 {
			s += " "
		}
		s += fmt.Sprintf("[%d,%d)", r[0], r[1])
	}
	return s + "}"
}

func rsImpl(s rangeset[int64]) [][2]int64 {
	out := make([][2]int64, len(s))
	for i, r := range s {
		out[i] = [2]int64{r.start, r.end}
	}
	return out
}

// rsSet is one real rangeset with its model.
type rsSet struct {
	name string
	s    rangeset[int64]
	m    rsModel
	tr   *vs.Trace
	// allowEmptySub: issue sub(x,x) calls (degenerate configuration only).
	allowEmptySub bool
	nops          int
}

func (x *rsSet) sig(ctx string) string { return ctx }

// countCovered returns how many canonical ranges intersect or touch [start,end].
func rsTouching(rs [][2]int64, start, end int64) (touch int, strictlyInside bool) {
	for _, r := range rs {
		if r[1] >= start && r[0] <= end {
			touch++
		}
		if r[0] < start && end < r[1] {
			strictlyInside = true
		}
	}
	return
}

func rsExtreme(v int64) bool {
	return v >= math.MaxInt64-2 || v <= math.MinInt64+2
}

func (x *rsSet) add(start, end int64) *vs.Violation {
	before := x.m.ranges()
	if t, _ := rsTouching(before, start, end); t >= 2 && start < end {
		vs.G.Inc("probe.add_coalesces_several")
	}
	if rsExtreme(start) || rsExtreme(end) {
		vs.G.Inc("probe.extreme_boundary")
	}
	x.tr.Ev("%s.add(%d,%d)", x.name, start, end)
	x.nops++
	if v := vs.Guard("C24", x.sig("panic_in_add"), func() { x.s.add(start, end) }); v != nil {
		return v
	}
	x.m.apply(true, start, end)
	return x.check(fmt.Sprintf("add(%d,%d)", start, end))
}

func (x *rsSet) sub(start, end int64) *vs.Violation {
	if start == end && !x.allowEmptySub {
		return nil
	}
	before := x.m.ranges()
	t, inside := rsTouching(before, start, end)
	octx := "sub"
	if start == end {
		octx = "empty_sub"
		vs.G.Inc("probe.empty_sub")
		if inside {
			vs.G.Inc("probe.empty_sub_inside_range")
		}
	} else {
		if inside {
			vs.G.Inc("probe.sub_splits_range")
		}
		if t >= 3 {
			vs.G.Inc("probe.sub_spans_several")
		}
	}
	if rsExtreme(start) || rsExtreme(end) {
		vs.G.Inc("probe.extreme_boundary")
	}
	x.tr.Ev("%s.sub(%d,%d)", x.name, start, end)
	x.nops++
	if v := vs.Guard("C24", x.sig("panic_in_sub"), func() { x.s.sub(start, end) }); v != nil {
		return v
	}
	x.m.apply(false, start, end)
	v := x.check(fmt.Sprintf("sub(%d,%d)", start, end))
	if v != nil && octx == "empty_sub" {
		v.Oracle = "empty_sub_" + v.Oracle
		v.Sig = "empty_sub:" + v.Sig
	}
	return v
}

// removeranges drops the ranges with index [i,j) (as ackState does to bound its
// ACK ranges); in the model this is the subtraction of exactly those ranges.
func (x *rsSet) removeranges(i, j int) *vs.Violation {
	before := x.m.ranges()
	if i < 0 || j > len(before) || i > j {
		return nil
	}
	vs.G.Inc("probe.removeranges")
	x.tr.Ev("%s.removeranges(%d,%d)", x.name, i, j)
	x.nops++
	if v := vs.Guard("C24", x.sig("panic_in_removeranges"), func() { x.s.removeranges(i, j) }); v != nil {
		return v
	}
	for k := i; k < j; k++ {
		x.m.apply(false, before[k][0], before[k][1])
	}
	return x.check(fmt.Sprintf("removeranges(%d,%d)", i, j))
}

// check compares the real set with the model after an operation.
func (x *rsSet) check(after string) *vs.Violation {
	want := x.m.ranges()
	got := rsImpl(x.s)
	where := fmt.Sprintf("set %s after %s: impl=%s model=%s", x.name, after, rsFmt(got), rsFmt(want))

	// Well-formedness: sorted, non-empty, disjoint, non-adjacent.
	for i, r := range got {
		if r[0] >= r[1] {
			return vs.Violf("C24", "wellformed", "empty_or_inverted_range", "%s: range %d [%d,%d) is empty or inverted", where, i, r[0], r[1])
		}
		if i > 0 {
			p := got[i-1]
			switch {
			case r[0] < p[1]:
				return vs.Violf("C24", "wellformed", "unsorted_or_overlapping", "%s: ranges %d and %d overlap or are out of order", where, i-1, i)
			case r[0] == p[1]:
				return vs.Violf("C24", "wellformed", "adjacent_ranges", "%s: ranges %d and %d are adjacent (not coalesced)", where, i-1, i)
			}
		}
	}

	// Membership around every boundary of the model and of the implementation.
	probes := make([]int64, 0, 3*(len(x.m.bounds)+2*len(got))+3)
	addProbe := func(b int64) {
		probes = append(probes, b)
		if b > math.MinInt64 {
			probes = append(probes, b-1)
		}
		if b < math.MaxInt64 {
			probes = append(probes, b+1)
		}
	}
	for _, b := range x.m.bounds {
		addProbe(b)
	}
	for _, r := range got {
		addProbe(r[0])
		addProbe(r[1])
	}
	addProbe(0)
	for _, v := range probes {
		var wr [2]int64
		w := false
		if i := sort.Search(len(want), func(i int) bool { return want[i][1] > v }); i < len(want) && want[i][0] <= v {
			w, wr = true, want[i]
		}
		g := x.s.contains(v)
		if g != w {
			return vs.Violf("C24", "membership", "contains_mismatch", "%s: contains(%d)=%v, a set would say %v", where, v, g, w)
		}
		rc := x.s.rangeContaining(v)
		if rc.start != wr[0] || rc.end != wr[1] {
			return vs.Violf("C24", "rangeContaining", "rangeContaining_mismatch", "%s: rangeContaining(%d)=[%d,%d) want [%d,%d)", where, v, rc.start, rc.end, wr[0], wr[1])
		}
	}

	// Exact range list (implied by the above for a well-formed set, but cheap).
	if len(got) != len(want) {
		return vs.Violf("C24", "ranges", "range_list_mismatch", "%s: numRanges=%d want %d", where, len(got), len(want))
	}
	for i := range got {
		if got[i] != want[i] {
			return vs.Violf("C24", "ranges", "range_list_mismatch", "%s: range %d differs", where, i)
		}
	}

	// Accessors.
	var wmin, wmax, wend int64
	var wsize uint64
	if len(want) > 0 {
		wmin, wend = want[0][0], want[len(want)-1][1]
		wmax = wend - 1
	}
	for _, r := range want {
		wsize += uint64(r[1]) - uint64(r[0])
	}
	if g := x.s.min(); g != wmin {
		return vs.Violf("C24", "accessor", "min", "%s: min()=%d want %d", where, g, wmin)
	}
	if g := x.s.max(); g != wmax {
		return vs.Violf("C24", "accessor", "max", "%s: max()=%d want %d", where, g, wmax)
	}
	if g := x.s.end(); g != wend {
		return vs.Violf("C24", "accessor", "end", "%s: end()=%d want %d", where, g, wend)
	}
	if g := x.s.numRanges(); g != len(want) {
		return vs.Violf("C24", "accessor", "numRanges", "%s: numRanges()=%d want %d", where, g, len(want))
	}
	// size is compared modulo 2^64 (the true size of a set spanning more than
	// half the int64 line does not fit; wrap-around arithmetic is exact mod 2^64).
	if g := x.s.size(); uint64(g) != wsize {
		return vs.Violf("C24", "accessor", "size", "%s: size()=%d want %d", where, g, int64(wsize))
	}
	// isrange: the set is exactly [a,b).
	type ab struct{ a, b int64 }
	cands := []ab{{0, 0}, {wmin, wend}}
	if len(want) > 0 {
		cands = append(cands, ab{want[0][0], want[0][1]}, ab{wmin, wend - 1}, ab{wmin + 1, wend})
		if wmin > math.MinInt64 {
			cands = append(cands, ab{wmin - 1, wend})
		}
	}
	for _, c := range cands {
		var w bool
		switch {
		case len(want) == 0:
			// the property defines the empty set as the range [0,0); other empty
			// descriptions [a,a) are left open, so only (0,0) and non-empty
			// candidates are asked.
			if c.a != 0 || c.b != 0 {
				if c.a >= c.b {
					continue
				}
			}
			w = c.a == 0 && c.b == 0
		case c.a >= c.b:
			w = false
		default:
			w = len(want) == 1 && want[0][0] == c.a && want[0][1] == c.b
		}
		if g := x.s.isrange(c.a, c.b); g != w {
			return vs.Violf("C24", "accessor", "isrange", "%s: isrange(%d,%d)=%v want %v", where, c.a, c.b, g, w)
		}
	}
	if len(want) >= 9 {
		vs.G.Inc("probe.many_ranges")
	}
	return nil
}

// rsPoint draws an offset in the given regime.
//
//	0: tiny [0,24)          dense coincidences
//	1: small [0,4096)
//	2: stream offsets near 2^62
//	3: top of the int64 line (ends up to MaxInt64)
//	4: negative / around zero
//	5: bottom of the int64 line
//	6: anywhere (pool of extreme and ordinary values)
func rsPoint(c vs.Chooser, regime int) int64 {
	switch regime {
	case 0:
		return int64(c.Intn(24))
	case 1:
		return int64(vs.SizeBiased(c, 4095, 1200, 2400))
	case 2:
		return int64(1)<<62 - 2048 + int64(c.Intn(2049))
	case 3:
		return math.MaxInt64 - int64(c.Intn(24))
	case 4:
		return int64(c.Intn(48)) - 24
	case 5:
		return math.MinInt64 + int64(c.Intn(24))
	default:
		base := vs.Pick(c, int64(0), 1, -1, math.MaxInt64, math.MaxInt64-1, math.MinInt64, math.MinInt64+1, 1<<62, 1<<32, -(1 << 40))
		d := int64(c.Intn(7)) - 3
		if (d > 0 && base > math.MaxInt64-d) || (d < 0 && base < math.MinInt64-d) {
			d = 0
		}
		return base + d
	}
}

func rsPair(c vs.Chooser, regime int) (int64, int64) {
	a, b := rsPoint(c, regime), rsPoint(c, regime)
	if a > b {
		a, b = b, a
	}
	return a, b
}

func c24Run(rt *rapid.T) {
	c := vs.RapidChooser{T: rt}
	tr := vs.NewTrace()
	qpProbes("add_coalesces_several", "sub_splits_range", "sub_spans_several", "removeranges", "extreme_boundary", "many_ranges")
	degenerate := vs.Config() == "degenerate"
	if degenerate {
		qpProbes("empty_sub", "empty_sub_inside_range")
	}
	scenario := c.Intn(4)
	regime := c.Intn(7)
	tr.Ev("scenario=%d regime=%d degenerate=%v", scenario, regime, degenerate)
	maxOps := vs.Range(c, 1, vs.Thorough(60, 160))
	var viol *vs.Violation
	newSet := func(name string) *rsSet {
		return &rsSet{name: name, tr: tr, allowEmptySub: degenerate}
	}
	total := 0
	switch scenario {
	case 0:
		// Receive side of a stream: segments of [base, base+L) arrive out of order,
		// duplicated, overlapping and re-segmented; the reader discards prefixes.
		in := newSet("inset")
		var base int64
		L := int64(vs.Range(c, 1, 400))
		switch regime {
		case 2:
			base = int64(1)<<62 - L
		case 3:
			base = math.MaxInt64 - L
		case 4:
			base = -L / 2
		case 5:
			base = math.MinInt64
		case 6:
			base = vs.Pick(c, int64(0), math.MaxInt64-L, math.MinInt64, 1<<62-L)
		}
		// the sender's cut points
		cuts := []int64{0, L}
		for i := vs.Range(c, 0, 12); i > 0; i-- {
			cuts = append(cuts, int64(c.Intn(int(L)+1)))
		}
		sort.Slice(cuts, func(i, j int) bool { return cuts[i] < cuts[j] })
		for op := 0; op < maxOps && viol == nil; op++ {
			switch k := c.Intn(10); {
			case k < 6: // an original segment (any order, any number of times)
				i := c.Intn(len(cuts) - 1)
				viol = in.add(base+cuts[i], base+cuts[i+1])
			case k < 8: // a retransmission with different segmentation
				a, b := int64(c.Intn(int(L)+1)), int64(c.Intn(int(L)+1))
				if a > b {
					a, b = b, a
				}
				viol = in.add(base+a, base+b)
			case k < 9: // the reader consumed a prefix
				viol = in.sub(base, base+int64(c.Intn(int(L)+1)))
			default: // data dropped again (e.g. reset / buffer released)
				a, b := int64(c.Intn(int(L)+1)), int64(c.Intn(int(L)+1))
				if a > b {
					a, b = b, a
				}
				viol = in.sub(base+a, base+b)
			}
		}
		total = in.nops
	case 1:
		// Send side of a stream: written data becomes unsent; frames are sent
		// (sub from unsent), acked in arbitrary order (add to acked, sub from
		// unsent) or lost (add to unsent, then sub everything acked).
		unsent, acked := newSet("outunsent"), newSet("outacked")
		var base int64
		switch regime {
		case 2, 6:
			base = int64(1)<<62 - 5000
		case 3:
			base = math.MaxInt64 - 5000
		}
		type frame struct{ a, b int64 }
		var inflight []frame
		end := base
		for op := 0; op < maxOps && viol == nil; op++ {
			switch k := c.Intn(10); {
			case k < 2 && end-base < 4000: // write
				n := int64(vs.Range(c, 1, 300))
				viol = unsent.add(end, end+n)
				end += n
			case k < 5: // send a frame covering part of what is unsent (or a PTO resend of anything)
				if end == base {
					continue
				}
				a := base + int64(c.Intn(int(end-base)))
				b := a + int64(vs.Range(c, 0, int(min(end-a, 200))))
				inflight = append(inflight, frame{a, b})
				viol = unsent.sub(a, b)
			case k < 8: // ack of a frame (possibly a duplicate ack of an old one)
				if len(inflight) == 0 {
					continue
				}
				f := inflight[c.Intn(len(inflight))]
				if viol = acked.add(f.a, f.b); viol == nil {
					viol = unsent.sub(f.a, f.b)
				}
			default: // loss of a frame
				if len(inflight) == 0 {
					continue
				}
				f := inflight[c.Intn(len(inflight))]
				viol = unsent.add(f.a, f.b)
				for _, r := range acked.m.ranges() {
					if viol != nil {
						break
					}
					viol = unsent.sub(r[0], r[1])
				}
			}
		}
		total = unsent.nops + acked.nops
	case 2:
		// Packet numbers as ackState keeps them: single numbers arrive reordered and
		// duplicated, old ranges are pruned (removeranges) and prefixes dropped
		// after an ACK of an ACK.
		seen := newSet("seen")
		var base int64
		switch regime {
		case 2, 6:
			base = int64(1)<<62 - 300
		case 3:
			base = math.MaxInt64 - 300
		}
		next := int64(0)
		limit := vs.Pick(c, 8, 2, 3, 32)
		for op := 0; op < maxOps && viol == nil; op++ {
			switch k := c.Intn(10); {
			case k < 7:
				var n int64
				if vs.Pct(c, 60) || next == 0 {
					next += int64(vs.Pick(c, 1, 1, 2, 3, 5))
					if next > 290 {
						next = 290
					}
					n = next
				} else {
					n = int64(c.Intn(int(next) + 1))
				}
				viol = seen.add(base+n, base+n+1)
				if viol == nil {
					if over := len(seen.m.ranges()) - limit; over > 0 {
						viol = seen.removeranges(0, over)
					}
				}
			case k < 9:
				rs := seen.m.ranges()
				if len(rs) == 0 {
					continue
				}
				r := rs[c.Intn(len(rs))]
				lo := int64(0)
				if base > 0 && vs.Bool(c) {
					lo = base
				}
				viol = seen.sub(lo, r[0])
			default:
				rs := seen.m.ranges()
				i := c.Intn(len(rs) + 1)
				j := i + c.Intn(len(rs)-i+1)
				viol = seen.removeranges(i, j)
			}
		}
		total = seen.nops
	default:
		// Free-form: add/sub over a small pool of boundaries of the regime.
		x := newSet("s")
		for op := 0; op < maxOps && viol == nil; op++ {
			a, b := rsPair(c, regime)
			if vs.Pct(c, 55) {
				viol = x.add(a, b)
			} else {
				viol = x.sub(a, b)
			}
		}
		total = x.nops
	}
	vs.G.EndRun(tr, total >= 2, 0, func() any {
		return map[string]any{"scenario": scenario, "regime": regime, "events": tr.Log[:min(len(tr.Log), 40)]}
	})
	vs.Report(rt, viol, tr)
}

func TestVerif_C24(t *testing.T) { vs.Check(t, c24Run) }

// ---------------------------------------------------------------------------
// C30: pipe against an offset -> byte model.

// ppModel: bytes written at absolute offsets >= origin. written[i] says whether
// offset origin+i has ever been written while inside the window (unwritten gap
// bytes are unconstrained by the property).
type ppModel struct {
	start, end int64
	origin     int64
	data       []byte
	written    []bool
}

func (m *ppModel) write(b []byte, off int64) {
	e := off + int64(len(b))
	if e > m.end {
		m.end = e
	} else if e <= m.start {
		return
	}
	for i, c := range b {
		o := off + int64(i)
		if o < m.start {
			continue
		}
		idx := int(o - m.origin)
		for idx >= len(m.data) {
			m.data = append(m.data, 0)
			m.written = append(m.written, false)
		}
		m.data[idx] = c
		m.written[idx] = true
	}
}

func (m *ppModel) discard(off int64) {
	m.start = off
	if off > m.end {
		m.end = off
	}
	if off-m.origin >= int64(len(m.data)) {
		// nothing stored at or after off: rebase
		m.origin = off
		m.data = m.data[:0]
		m.written = m.written[:0]
	}
}

// get returns the byte the property demands at off, if any.
func (m *ppModel) get(off int64) (byte, bool) {
	idx := off - m.origin
	if idx < 0 || idx >= int64(len(m.data)) || !m.written[idx] {
		return 0, false
	}
	return m.data[idx], true
}

// ppByte is the content of the simulated stream at an offset: the same offset
// always carries the same byte within one generation (retransmissions repeat
// identical bytes), a new generation writes different bytes.
func ppByte(off int64, gen int) byte {
	return byte(uint64(off)*131 + uint64(off>>8)*17 + uint64(gen)*89 + 7)
}

const ppChunk = 4096 // only used to aim the workload at chunk boundaries

func c30Run(rt *rapid.T) {
	c := vs.RapidChooser{T: rt}
	tr := vs.NewTrace()
	qpProbes("write_spans_chunks", "write_trimmed_at_start", "write_leaves_gap", "write_inside_window", "rewrite_other_bytes",
		"discard_mid_chunk", "discard_at_chunk_boundary", "discard_beyond_end", "discard_over_several_chunks",
		"fastpath_commit", "read_spans_chunks", "peek_nonempty", "read_callback_error", "high_offsets")
	var p pipe
	m := &ppModel{}
	var viol *vs.Violation
	maxSpan := int64(vs.Thorough(5, 12) * ppChunk)
	nops := vs.Range(c, 1, vs.Thorough(50, 160))
	writes, reads := 0, 0
	gen := 0

	check := func(after string) *vs.Violation {
		if p.start != m.start || p.end != m.end {
			return vs.Violf("C30", "window", "start_end_mismatch", "after %s: pipe window [%d,%d), model [%d,%d)", after, p.start, p.end, m.start, m.end)
		}
		return nil
	}
	// compare got (bytes the pipe returned for [off, off+len)) with the model.
	cmp := func(what string, off int64, got []byte) *vs.Violation {
		for i, g := range got {
			if w, ok := m.get(off + int64(i)); ok && w != g {
				return vs.Violf("C30", "bytes", what+"_wrong_byte", "%s: offset %d (window [%d,%d)) returned %#02x, last written %#02x", what, off+int64(i), m.start, m.end, g, w)
			}
		}
		return nil
	}
	// full-window audit with copy (every few ops and after every discard).
	audit := func(after string) *vs.Violation {
		n := int(m.end - m.start)
		if n <= 0 {
			return nil
		}
		buf := make([]byte, n)
		if v := vs.Guard("C30", "panic_in_copy", func() { p.copy(m.start, buf) }); v != nil {
			return v
		}
		if v := cmp("audit", m.start, buf); v != nil {
			v.Detail = "full-window copy after " + after + ": " + v.Detail
			return v
		}
		return nil
	}
	// anchor of the chunk grid (white-box read, used only to aim the workload
	// and the probes at chunk boundaries, never by the oracle).
	anchor := func() int64 {
		if p.head != nil {
			return p.head.off
		}
		return m.start
	}
	off0 := func() int64 {
		// an offset relative to the window, aimed at chunk boundaries
		span := int(m.end - m.start)
		switch c.Intn(5) {
		case 0:
			return m.start + int64(c.Intn(span+1))
		case 1:
			return m.end
		case 2:
			// just around a multiple of the chunk size past the window start's chunk grid
			k := int64(c.Intn(4))
			return anchor() + ((m.start-anchor())/ppChunk+k)*ppChunk + int64(c.Intn(5)) - 2
		case 3:
			return m.start - int64(c.Intn(64))
		default:
			return m.end + int64(c.Intn(2*ppChunk))
		}
	}

	for op := 0; op < nops && viol == nil; op++ {
		k := c.Intn(16)
		switch {
		case k < 6: // writeAt
			off := off0()
			if off < 0 {
				off = 0
			}
			n := vs.SizeBiased(c, 3*ppChunk, ppChunk, 2*ppChunk, 1200)
			if off+int64(n) > m.start+maxSpan {
				n = int(max(0, m.start+maxSpan-off))
				if off > m.start+maxSpan {
					continue
				}
			}
			g := gen
			if vs.Pct(c, 10) {
				gen++
				g = gen
				vs.G.Inc("probe.rewrite_other_bytes")
			}
			b := make([]byte, n)
			for i := range b {
				b[i] = ppByte(off+int64(i), g)
			}
			if off < m.start && off+int64(n) > m.start {
				vs.G.Inc("probe.write_trimmed_at_start")
			}
			if off > m.end {
				vs.G.Inc("probe.write_leaves_gap")
			}
			if off >= m.start && off+int64(n) < m.end && n > 0 {
				vs.G.Inc("probe.write_inside_window")
			}
			if a := anchor(); n > 0 && off >= a && (off-a)/ppChunk != (off+int64(n)-1-a)/ppChunk {
				vs.G.Inc("probe.write_spans_chunks")
			}
			tr.Ev("writeAt(len=%d, off=%d, gen=%d)", n, off, g)
			if viol = vs.Guard("C30", "panic_in_writeAt", func() { p.writeAt(b, off) }); viol != nil {
				break
			}
			m.write(b, off)
			writes++
			if viol = check("writeAt"); viol == nil && vs.Pct(c, 40) {
				viol = audit("writeAt")
			}
		case k < 8: // copy of an arbitrary sub-range of the window
			span := int(m.end - m.start)
			if span == 0 {
				continue
			}
			a := c.Intn(span)
			n := vs.Range(c, 0, span-a)
			buf := make([]byte, n)
			off := m.start + int64(a)
			tr.Ev("copy(off=%d, len=%d)", off, n)
			if viol = vs.Guard("C30", "panic_in_copy", func() { p.copy(off, buf) }); viol != nil {
				break
			}
			reads++
			viol = cmp("copy", off, buf)
		case k < 10: // read with a callback; chunks must be sequential and total n
			span := int(m.end - m.start)
			if span == 0 {
				continue
			}
			a := c.Intn(span)
			n := vs.Range(c, 0, span-a)
			off := m.start + int64(a)
			failAt := -1
			if vs.Pct(c, 15) {
				failAt = c.Intn(3)
			}
			var got []byte
			calls := 0
			errStop := fmt.Errorf("stop")
			var rerr error
			tr.Ev("read(off=%d, n=%d, failAt=%d)", off, n, failAt)
			if viol = vs.Guard("C30", "panic_in_read", func() {
				rerr = p.read(off, n, func(b []byte) error {
					got = append(got, b...)
					calls++
					if calls-1 == failAt {
						return errStop
					}
					return nil
				})
			}); viol != nil {
				break
			}
			reads++
			if calls > 1 {
				vs.G.Inc("probe.read_spans_chunks")
			}
			if failAt >= 0 && calls > failAt {
				// The callback stopped the read: whatever was delivered so far must
				// be right; how the error travels back is not part of the property.
				vs.G.Inc("probe.read_callback_error")
				if rerr != errStop {
					vs.G.Inc("read_callback_error_not_returned")
				}
				if len(got) > n {
					viol = vs.Violf("C30", "read_len", "read_too_much", "read(off=%d,n=%d) delivered %d bytes", off, n, len(got))
					break
				}
			} else {
				if rerr != nil {
					vs.G.Inc("read_spurious_error")
				}
				if len(got) != n {
					viol = vs.Violf("C30", "read_len", "read_wrong_length", "read(off=%d,n=%d) delivered %d bytes in %d calls", off, n, len(got), calls)
					break
				}
			}
			viol = cmp("read", off, got)
		case k < 11: // peek at the start of the window
			span := m.end - m.start
			n := int64(vs.Range(c, 0, int(span)))
			var got []byte
			tr.Ev("peek(%d)", n)
			if viol = vs.Guard("C30", "panic_in_peek", func() { got = p.peek(n) }); viol != nil {
				break
			}
			reads++
			if int64(len(got)) > n {
				// more than asked for: the surplus is still compared with the model below
				vs.G.Inc("peek_longer_than_asked")
			}
			if len(got) > 0 {
				vs.G.Inc("probe.peek_nonempty")
			} else if n > 0 {
				vs.G.Inc("peek_empty_with_data")
			}
			viol = cmp("peek", m.start, got)
		case k < 14: // discardBefore
			var off int64
			span := int(m.end - m.start)
			switch c.Intn(6) {
			case 0:
				off = m.end
			case 1:
				// next chunk boundary (the grid is anchored where the first buffer was allocated)
				off = anchor() + ((m.start-anchor())/ppChunk+int64(1+c.Intn(3)))*ppChunk + int64(c.Intn(3)) - 1
			case 2:
				off = m.end + int64(vs.SizeBiased(c, 3*ppChunk, ppChunk))
			case 3:
				if vs.Pct(c, 20) {
					// a jump to high stream offsets (everything before is dead)
					off = vs.Pick(c, int64(1)<<32, 1<<40, 1<<62-2*maxSpan) + int64(c.Intn(ppChunk))
					if off < m.end {
						off = m.end
					}
					vs.G.Inc("probe.high_offsets")
				} else {
					off = m.start
				}
			default:
				off = m.start + int64(c.Intn(span+1))
			}
			if off < m.start {
				off = m.start
			}
			if off > m.end {
				vs.G.Inc("probe.discard_beyond_end")
			} else if (off-anchor())%ppChunk == 0 && off > m.start {
				vs.G.Inc("probe.discard_at_chunk_boundary")
			} else if off > m.start {
				vs.G.Inc("probe.discard_mid_chunk")
			}
			if off-m.start > 2*ppChunk && m.end-m.start > 2*ppChunk {
				vs.G.Inc("probe.discard_over_several_chunks")
			}
			tr.Ev("discardBefore(%d)", off)
			if viol = vs.Guard("C30", "panic_in_discardBefore", func() { p.discardBefore(off) }); viol != nil {
				break
			}
			m.discard(off)
			if viol = check("discardBefore"); viol == nil {
				viol = audit("discardBefore")
			}
		default: // the stream's write fast path: fill availableBuffer, commit later by moving end
			var buf []byte
			if viol = vs.Guard("C30", "panic_in_availableBuffer", func() { buf = p.availableBuffer() }); viol != nil {
				break
			}
			if m.end+int64(len(buf)) > m.start+maxSpan {
				continue
			}
			n := vs.Range(c, 0, len(buf))
			oldEnd := m.end
			data := make([]byte, n)
			for i := range data {
				data[i] = ppByte(oldEnd+int64(i), gen)
			}
			copy(buf, data)
			tr.Ev("fastpath fill %d of %d at %d", n, len(buf), oldEnd)
			// Between filling and committing the connection may read what is
			// already in the window and discard acknowledged data.
			for i := c.Intn(3); i > 0 && viol == nil; i-- {
				span := int(m.end - m.start)
				if span > 0 && vs.Bool(c) {
					a := c.Intn(span)
					b := make([]byte, vs.Range(c, 0, span-a))
					off := m.start + int64(a)
					tr.Ev("  copy(off=%d, len=%d)", off, len(b))
					if viol = vs.Guard("C30", "panic_in_copy", func() { p.copy(off, b) }); viol == nil {
						viol = cmp("copy", off, b)
					}
				} else {
					off := m.start + int64(c.Intn(span+1))
					tr.Ev("  discardBefore(%d)", off)
					if viol = vs.Guard("C30", "panic_in_discardBefore", func() { p.discardBefore(off) }); viol == nil {
						m.discard(off)
						viol = check("discardBefore")
					}
				}
			}
			if viol != nil {
				break
			}
			tr.Ev("fastpath commit %d", n)
			p.end += int64(n)
			m.write(data, oldEnd)
			if n > 0 {
				vs.G.Inc("probe.fastpath_commit")
				writes++
			}
			if viol = check("fastpath"); viol == nil {
				viol = audit("fastpath")
			}
		}
	}
	if viol == nil {
		viol = audit("end")
	}
	vs.G.EndRun(tr, writes > 0 && reads > 0, 0, func() any {
		return map[string]any{"events": tr.Log[:min(len(tr.Log), 40)]}
	})
	vs.Report(rt, viol, tr)
}

func TestVerif_C30(t *testing.T) { vs.Check(t, c30Run) }
