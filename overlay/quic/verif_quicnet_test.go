// Engine quicnet: two real quic.Endpoints (real TLS 1.3 handshake, loss recovery,
// congestion control, acks, streams, flow control) joined by the simulated
// datagram network verifsim.PacketNet with loss, duplication, reordering, jitter,
// partitions, corruption and truncation; applications are scheduler-driven
// stream reader/writer scripts. Properties C19, C20, C21, C25, C32 (+ in-situ
// checks for C24/C26) from this file; C27/C31 configurations in
// verif_quicnet_hs_test.go.

package quic

import (
	"context"
	"crypto/tls"
	"errors"
	"fmt"
	"io"
	"log/slog"
	"math/rand/v2"
	"net/netip"
	"os"
	"runtime"
	"sort"
	"sync"
	"sync/atomic"
	"testing"
	"time"

	vs "golang.org/x/net/internal/verifsim"
	"pgregory.net/rapid"
)

// ---------------------------------------------------------------------------
// plan

type qnOp struct {
	kind string // write, writebyte, flush, closewrite, close, reset, sleep | read, readbyte, closeread, drain
	n    int
	dur  time.Duration
	code uint64
}

type qnDir struct {
	w []qnOp // writer script (ends with closewrite/close or reset)
	r []qnOp // reader script (ends with drain or closeread)
}

type qnStreamPlan struct {
	fromClient bool
	uni        bool
	fwd        qnDir // initiator -> acceptor
	rev        qnDir // acceptor -> initiator (bidi only)
}

type qnCfg struct {
	streamRead, streamWrite, connRead int64
	maxBidi, maxUni                   int64
	keepAlive                         time.Duration
}

type qnPlan struct {
	focus    string
	cli      qnCfg
	srv      qnCfg
	retry    bool
	faults   vs.PacketFaults
	streams  []qnStreamPlan
	randSeed uint64
	// handshake-fault / attacker configurations (C27, C31)
	ghosts     []qnGhost // clients whose address never answers (a spoofed victim)
	attackPct  int       // probability (%) that a client datagram is replayed from a spoofed address
	attackMax  time.Duration
	clientHold [2]time.Duration // client->server blackout window (token expiry)
	defaultTO  bool             // use the package's default handshake/idle timeouts
	chainExtra int              // extra certificates in the server's chain: a first flight of several datagrams
	// C27: ClientHello spanning two Initial datagrams + forged packets
	helloSplit   bool          // client TLS configs use the default curve preferences (a hybrid key share: the ClientHello needs two Initial datagrams)
	srvCurvesDef bool          // the server uses the default curve preferences as well (a larger ServerHello)
	forge        qnForge       // off-path attacker: forged packet sent from a client's own address
	linger       time.Duration // keep the run going at least this long (server PTOs towards silent addresses)
}

// qnForge is an off-path attacker's datagram: a syntactically well-formed packet
// of the given type with the connection IDs of an observed client Initial and an
// arbitrary payload, sent from that client's source address. It carries no
// secret, so it proves nothing about the address.
type qnForge struct {
	kind    string        // "" (none), "handshake", "0rtt", "initial", "short"
	when    string        // relative to the client's two ClientHello datagrams: "between", "before", "after"
	gap     time.Duration // spacing used to place it
	size    int           // payload bytes
	reps    int           // copies
	lowBits byte          // low bits of the first byte (reserved bits, packet number length)
	badDCID bool          // use an unknown destination connection ID
	real    bool          // also aimed at the real client's connection
	seed    uint64
}

// qnGhost is a client endpoint at a victim address: only its first `pass`
// datagrams reach the server (each possibly duplicated `dup` times, possibly
// truncated), and nothing the server sends to it is ever answered.
type qnGhost struct {
	pass  int
	dup   int
	trunc int
	delay time.Duration
}

func qnDrawCfg(c vs.Chooser, focus string) qnCfg {
	cfg := qnCfg{
		streamRead:  int64(vs.Pick(c, 0, 1, 100, 1024, 4096, 65536, 1<<20)),
		streamWrite: int64(vs.Pick(c, 0, 1, 100, 1024, 4096, 65536, 1<<20)),
		connRead:    int64(vs.Pick(c, 0, 1, 1000, 4096, 65536, 1<<20)),
		maxBidi:     int64(vs.Pick(c, 0, 1, 2, 3, 10, 100)),
		maxUni:      int64(vs.Pick(c, 0, 1, 2, 3, 10, 100)),
	}
	if vs.Pct(c, 10) {
		// KeepAlivePeriod is not used: a connection that enters the closing or
		// draining state keeps its keep-alive deadline, and once that deadline has
		// passed Conn.loop spins (timer "expired", nothing to do) until the drain
		// period ends. With a real clock that is a bounded busy-wait; under the
		// simulated clock, which only advances when every goroutine blocks, it
		// never ends and would be reported as a hang. Observation, see DESIGN 10.2.
		_ = time.Duration(vs.Pick(c, 1, 5)) * time.Second
	}
	return cfg
}

func qnDrawWriter(c vs.Chooser, focus string, maxBytes int) []qnOp {
	var ops []qnOp
	n := vs.Range(c, 0, 8)
	total := 0
	for i := 0; i < n; i++ {
		switch k := c.Intn(10); {
		case k <= 4:
			sz := vs.SizeBiased(c, maxBytes, 1200, 4096, 65536)
			if total+sz > maxBytes {
				sz = max(maxBytes-total, 0)
			}
			total += sz
			ops = append(ops, qnOp{kind: "write", n: sz})
		case k == 5:
			ops = append(ops, qnOp{kind: "writebyte"})
			total++
		case k == 6 || k == 7:
			ops = append(ops, qnOp{kind: "flush"})
		case k == 8:
			ops = append(ops, qnOp{kind: "sleep", dur: time.Duration(vs.Pick(c, 1, 10, 100, 1000)) * time.Millisecond})
		case k == 9 && (focus == "C32" || vs.Pct(c, 15)):
			ops = append(ops, qnOp{kind: "reset", code: uint64(vs.Pick(c, 7, 0, 1<<20))})
			return ops
		}
	}
	if focus == "C32" && vs.Pct(c, 40) {
		ops = append(ops, qnOp{kind: "reset", code: uint64(vs.Pick(c, 9, 0, 77))})
		return ops
	}
	ops = append(ops, qnOp{kind: vs.Pick(c, "close", "closewrite")})
	return ops
}

func qnDrawReader(c vs.Chooser, focus string) []qnOp {
	var ops []qnOp
	if vs.Pct(c, 6) {
		// "catch up, fall behind, zero-length read" shape: consume everything that
		// has arrived, let the writer fill the window again, then a zero-length
		// Read on the slow path (it moves the whole window into the fast-path
		// buffer) before draining.
		k := vs.Range(c, 1, 3)
		for i := 0; i < k; i++ {
			ops = append(ops, qnOp{kind: "read", n: 1 << 16},
				qnOp{kind: "sleep", dur: time.Duration(vs.Pick(c, 10, 100, 1000)) * time.Millisecond},
				qnOp{kind: "read0"})
		}
		ops = append(ops, qnOp{kind: "drain"})
		return ops
	}
	n := vs.Range(c, 0, 6)
	for i := 0; i < n; i++ {
		switch k := c.Intn(8); {
		case k <= 3:
			ops = append(ops, qnOp{kind: "read", n: 1 + vs.SizeBiased(c, 70000, 1, 1200, 4096)})
		case k == 4:
			if vs.Pct(c, 35) {
				// a zero-length Read (legal for an io.Reader; internal/http3 issues
				// one for an empty DATA frame)
				ops = append(ops, qnOp{kind: "read0"})
			} else {
				ops = append(ops, qnOp{kind: "readbyte"})
			}
		case k == 5 || k == 6:
			ops = append(ops, qnOp{kind: "sleep", dur: time.Duration(vs.Pick(c, 1, 10, 100, 1000, 3000)) * time.Millisecond})
		case k == 7 && (focus == "C32" || vs.Pct(c, 10)):
			ops = append(ops, qnOp{kind: "closeread"})
			return ops
		}
	}
	ops = append(ops, qnOp{kind: "drain"})
	return ops
}

func qnDrawPlan(rt *rapid.T, focus string) *qnPlan {
	c := vs.RapidChooser{T: rt}
	p := &qnPlan{focus: focus}
	p.cli, p.srv = qnDrawCfg(c, focus), qnDrawCfg(c, focus)
	p.retry = vs.Pct(c, 15)
	if focus == "C27" || vs.Pct(c, 15) {
		// a realistic certificate chain: the server's first flight then needs more
		// datagrams than the anti-amplification budget of one client Initial allows
		p.chainExtra = vs.Pick(c, 0, 2, 5, 12)
	}
	p.randSeed = uint64(c.Intn(1 << 30))
	f := &p.faults
	f.Seed = uint64(c.Intn(1<<30)) + 1
	f.BaseLatency = time.Duration(vs.Pick(c, 10, 1, 50, 200)) * time.Millisecond
	f.Jitter = time.Duration(vs.Pick(c, 0, 1, 5, 30)) * time.Millisecond
	if vs.Config() != "clean" {
		// swarm: each fault kind is enabled independently
		if vs.Bool(c) {
			f.LossPct = vs.Pick(c, 1, 5, 10, 30)
		}
		if vs.Pct(c, 40) {
			f.DupPct = vs.Pick(c, 1, 5, 20)
		}
		if vs.Pct(c, 40) {
			f.ReorderPct = vs.Pick(c, 5, 20, 50)
			f.ReorderMax = time.Duration(vs.Pick(c, 5, 50, 400)) * time.Millisecond
		}
		if vs.Pct(c, 20) {
			f.CorruptPct = vs.Pick(c, 1, 5)
		}
		if vs.Pct(c, 20) {
			f.TruncPct = vs.Pick(c, 1, 5)
		}
		f.HealAt = time.Duration(vs.Pick(c, 500, 1000, 3000, 5000)) * time.Millisecond
		if vs.Pct(c, 30) {
			a := time.Duration(c.Intn(3000)) * time.Millisecond
			f.Partitions = append(f.Partitions, [2]time.Duration{a, a + time.Duration(vs.Pick(c, 100, 500, 2000))*time.Millisecond})
		}
	}
	if focus == "C27" || focus == "C31" {
		p.defaultTO = true
		p.retry = focus == "C31" || vs.Pct(c, 30)
		f.LossPct = vs.Pick(c, 0, 10, 30, 50)
		f.DupPct = vs.Pick(c, 0, 10, 50)
		f.TruncPct = vs.Pick(c, 0, 5, 20)
		f.FirstN = vs.Pick(c, 4, 8, 20)
		f.HealAt = 0
		ng := vs.Range(c, 0, 3)
		if focus == "C31" {
			ng = vs.Range(c, 0, 1)
		}
		for i := 0; i < ng; i++ {
			p.ghosts = append(p.ghosts, qnGhost{pass: vs.Pick(c, 1, 2, 3), dup: vs.Pick(c, 0, 0, 1, 3), trunc: vs.Pick(c, 0, 0, 0, 300, 1100), delay: time.Duration(c.Intn(3000)) * time.Millisecond})
		}
		p.attackPct = vs.Pick(c, 0, 30, 100)
		p.attackMax = time.Duration(vs.Pick(c, 10, 1000, 8000)) * time.Millisecond
		if focus == "C31" && vs.Pct(c, 40) {
			a := time.Duration(vs.Pick(c, 0, 30, 100)) * time.Millisecond
			p.clientHold = [2]time.Duration{a, a + time.Duration(vs.Pick(c, 3, 6, 8, 12))*time.Second}
		}
		if focus == "C27" && vs.Pct(c, 40) {
			// The ClientHello does not fit one Initial datagram: the server connection
			// exists for a while without Handshake keys. An off-path attacker who knows
			// (or guesses) the connection IDs sends packets from the client's address.
			p.helloSplit = true
			p.srvCurvesDef = vs.Pct(c, 30)
			if vs.Pct(c, 80) {
				p.forge = qnForge{
					kind:    vs.Pick(c, "handshake", "handshake", "handshake", "0rtt", "initial", "short"),
					when:    vs.Pick(c, "between", "between", "between", "before", "after"),
					gap:     time.Duration(vs.Pick(c, 1, 20, 300, 1500)) * time.Millisecond,
					size:    vs.Pick(c, 100, 24, 600, 1180),
					reps:    vs.Pick(c, 1, 1, 2, 3),
					lowBits: byte(c.Intn(16)),
					badDCID: vs.Pct(c, 8),
					real:    vs.Pct(c, 30),
					seed:    uint64(c.Intn(1<<30)) + 1,
				}
			}
			if vs.Pct(c, 70) {
				// a silent (spoofed-victim) client whose whole ClientHello arrives, no
				// Retry, and a certificate chain long enough that the server's first
				// flight alone is more than three times what the client sent
				if len(p.ghosts) == 0 {
					p.ghosts = append(p.ghosts, qnGhost{pass: 2, delay: time.Duration(c.Intn(3000)) * time.Millisecond})
				}
				g := &p.ghosts[0]
				g.pass, g.trunc = max(g.pass, 2), 0
				p.retry = false
				p.chainExtra = vs.Pick(c, 12, 8, 16, 5)
			}
			for _, g := range p.ghosts {
				// let the server's probe timeouts towards the silent addresses run
				// until its handshake timeout
				p.linger = max(p.linger, g.delay+12*time.Second)
			}
		}
	}
	maxStreams := vs.Thorough(6, 12)
	if focus == "C27" || focus == "C31" {
		maxStreams = 2
	}
	if focus == "C21" {
		maxStreams = vs.Thorough(12, 30)
	}
	ns := vs.Range(c, 1, maxStreams)
	budget := vs.Thorough(200_000, 1_500_000)
	per := budget / ns
	win := func(rcv, snd qnCfg) int {
		// the smallest window on the path: with a window of w bytes the transfer
		// needs about bytes/w round trips, so keep bytes proportional to w
		w := min(qnDefault(rcv.streamRead, 1<<20), qnDefault(rcv.connRead, 1<<20), qnDefault(snd.streamWrite, 1<<20))
		return int(min(w, 1<<20))
	}
	for i := 0; i < ns; i++ {
		sp := qnStreamPlan{fromClient: vs.Bool(c), uni: vs.Pct(c, 40)}
		mb := per
		if focus == "C21" {
			mb = min(per, 2000)
		}
		wf, wr := win(p.srv, p.cli), win(p.cli, p.srv)
		if !sp.fromClient {
			wf, wr = wr, wf
		}
		mbr := min(mb/2, 48*max(wr, 1))
		mb = min(mb, 48*max(wf, 1))
		sp.fwd = qnDir{w: qnDrawWriter(c, focus, mb), r: qnDrawReader(c, focus)}
		if !sp.uni {
			sp.rev = qnDir{w: qnDrawWriter(c, focus, mbr), r: qnDrawReader(c, focus)}
		}
		p.streams = append(p.streams, sp)
	}
	return p
}

// ---------------------------------------------------------------------------
// deterministic randomness for TLS

type qnRand struct{ s uint64 }

func (r *qnRand) Read(p []byte) (int, error) {
	for i := range p {
		r.s += 0x9e3779b97f4a7c15
		z := r.s
		z = (z ^ (z >> 30)) * 0xbf58476d1ce4e5b9
		z = (z ^ (z >> 27)) * 0x94d049bb133111eb
		p[i] = byte(z >> 56)
	}
	return len(p), nil
}

// ---------------------------------------------------------------------------
// qlog capture: what each conn says it sent / received (frames parsed by the
// package's own parseDebugFrame from the real packet payload).

type qnEvent struct {
	kind   string // "qlog", "send", "deliver", "newconn"
	conn   *qnConn
	sent   bool
	ptype  string
	pnum   int64
	frames []any
	length int
	// network / endpoint events
	from, to netip.AddrPort
	retry    bool // send: the datagram is a Retry packet; newconn: created from a token
	server   bool // newconn: server-side conn
	at       time.Duration
}

type qnLog struct {
	mu     sync.Mutex
	events []qnEvent
	conns  map[string]*qnConn // key: vantage + group id
	order  []*qnConn
}

type qnHandler struct {
	log  *qnLog
	conn *qnConn
}

func (h *qnHandler) Enabled(_ context.Context, l slog.Level) bool { return l >= QLogLevelFrame }
func (h *qnHandler) WithGroup(string) slog.Handler                { return h }
func (h *qnHandler) WithAttrs(attrs []slog.Attr) slog.Handler {
	var gid, vantage string
	for _, a := range attrs {
		switch a.Key {
		case "group_id":
			gid = a.Value.String()
		case "vantage_point":
			for _, g := range a.Value.Group() {
				if g.Key == "type" {
					vantage = g.Value.String()
				}
			}
		}
	}
	if gid == "" {
		return h
	}
	h.log.mu.Lock()
	defer h.log.mu.Unlock()
	// one monitor object per Conn (With is called once per connection); several
	// server conns can share a group id when a duplicated Initial creates a
	// second, short-lived connection.
	key := vantage + ":" + gid
	qc := newQNConn(vantage, gid)
	if h.log.conns[key] == nil {
		h.log.conns[key] = qc
	}
	h.log.order = append(h.log.order, qc)
	return &qnHandler{log: h.log, conn: qc}
}

func (h *qnHandler) Handle(_ context.Context, r slog.Record) error {
	if h.conn == nil {
		return nil
	}
	var sent bool
	switch r.Message {
	case "transport:packet_sent":
		sent = true
	case "transport:packet_received":
	case "connectivity:connection_started":
		var ip string
		var port int64
		r.Attrs(func(a slog.Attr) bool {
			switch a.Key {
			case "dst_ip":
				ip = a.Value.String()
			case "dst_port":
				port = a.Value.Int64()
			}
			return true
		})
		if ap, err := netip.ParseAddrPort(fmt.Sprintf("%s:%d", ip, port)); err == nil {
			h.log.mu.Lock()
			h.conn.peerAddr = ap
			h.log.mu.Unlock()
		}
		return nil
	default:
		return nil
	}
	ev := qnEvent{kind: "qlog", conn: h.conn, sent: sent}
	r.Attrs(func(a slog.Attr) bool {
		switch a.Key {
		case "header":
			for _, g := range a.Value.Group() {
				switch g.Key {
				case "packet_type":
					ev.ptype = g.Value.String()
				case "packet_number":
					ev.pnum = int64(g.Value.Uint64())
				}
			}
		case "raw":
			for _, g := range a.Value.Group() {
				if g.Key == "length" {
					ev.length = int(g.Value.Int64())
				}
			}
		case "frames":
			if vals, ok := a.Value.Any().([]slog.Value); ok {
				for _, v := range vals {
					ev.frames = append(ev.frames, v.Any())
				}
			}
		}
		return true
	})
	h.log.mu.Lock()
	h.log.events = append(h.log.events, ev)
	h.log.mu.Unlock()
	return nil
}

// qnConn is the monitor's view of one connection endpoint.
type qnConn struct {
	vantage  string
	gid      string
	peerAddr netip.AddrPort
	peer     *qnConn
	cfg      qnCfg // own config
	peerCfg  qnCfg

	sentPN [3]map[int64]bool
	recvPN [3]map[int64]bool

	maxSentOff   map[int64]int64 // stream id -> highest offset+len sent
	resetSent    map[int64]debugFrameResetStream
	resetSeq     map[int64]int // event index of the first RESET_STREAM
	finSent      map[int64]int64
	msdRecv      map[int64]int64 // MAX_STREAM_DATA received per stream
	maxDataRecv  int64
	maxStrRecv   [2]int64 // MAX_STREAMS received (0 bidi, 1 uni); -1 = none
	maxDataSent  int64
	msdSent      map[int64]int64
	maxStrSent   [2]int64
	openedMax    [2]int64              // highest own stream number used +1
	recvStream   map[int64]*rangeModel // stream id -> byte ranges received in STREAM frames
	recvFin      map[int64]int64
	closeSent    bool
	closeRecv    bool
	closeCode    string
	nSent, nRecv int
	helloSplit   bool // client: sent Initial CRYPTO data at an offset > 0
}

type rangeModel struct{ r [][2]int64 }

func (m *rangeModel) add(a, b int64) {
	if a >= b {
		return
	}
	m.r = append(m.r, [2]int64{a, b})
	sort.Slice(m.r, func(i, j int) bool { return m.r[i][0] < m.r[j][0] })
	out := m.r[:0]
	for _, x := range m.r {
		if len(out) > 0 && x[0] <= out[len(out)-1][1] {
			if x[1] > out[len(out)-1][1] {
				out[len(out)-1][1] = x[1]
			}
		} else {
			out = append(out, x)
		}
	}
	m.r = out
}

func (m *rangeModel) covers(a, b int64) bool {
	if a >= b {
		return true
	}
	for _, x := range m.r {
		if x[0] <= a && b <= x[1] {
			return true
		}
	}
	return false
}

func newQNConn(vantage, gid string) *qnConn {
	c := &qnConn{vantage: vantage, gid: gid, maxSentOff: map[int64]int64{}, resetSent: map[int64]debugFrameResetStream{}, resetSeq: map[int64]int{},
		finSent: map[int64]int64{}, msdRecv: map[int64]int64{}, msdSent: map[int64]int64{}, recvStream: map[int64]*rangeModel{}, recvFin: map[int64]int64{},
		maxDataRecv: -1, maxDataSent: -1}
	c.maxStrRecv = [2]int64{-1, -1}
	c.maxStrSent = [2]int64{-1, -1}
	for i := range c.sentPN {
		c.sentPN[i] = map[int64]bool{}
		c.recvPN[i] = map[int64]bool{}
	}
	return c
}

func qnSpace(ptype string) int {
	switch ptype {
	case "initial":
		return 0
	case "handshake":
		return 1
	}
	return 2
}

func qnDefault(v, def int64) int64 {
	if v == 0 {
		return def
	}
	if v < 0 {
		return 0
	}
	return v
}

func (c *qnConn) isServer() bool { return c.vantage == "server" }

// ownsStream reports whether stream id was initiated by c.
func (c *qnConn) ownsStream(id int64) bool { return (id&1 == 1) == c.isServer() }

func qnStreamType(id int64) int { return int(id>>1) & 1 } // 0 bidi, 1 uni

// process applies one qlog event to the monitor and returns a violation.
func (m *qnMon) process(i int, ev qnEvent) *vs.Violation {
	if ev.kind != "qlog" {
		return m.processNet(ev)
	}
	c := ev.conn
	sp := qnSpace(ev.ptype)
	if !ev.sent && c.isServer() && ev.ptype == "handshake" && c.peerAddr.IsValid() {
		// a Handshake packet that decrypts under the connection's keys proves that
		// the client received the server's Initial: the address is validated.
		m.validated[c.peerAddr] = true
	}
	if ev.ptype == "retry" || ev.ptype == "version_negotiation" {
		return nil
	}
	if ev.sent {
		c.nSent++
		c.sentPN[sp][ev.pnum] = true
		if !c.isServer() && sp == 0 && !c.helloSplit {
			for _, f := range ev.frames {
				if f, ok := f.(debugFrameCrypto); ok && f.off > 0 {
					// the client's only Initial CRYPTO data is its ClientHello: it
					// continues in a second packet
					c.helloSplit = true
					vs.G.Inc("probe.client_hello_split")
				}
			}
		}
	} else {
		c.nRecv++
		if c.recvPN[sp][ev.pnum] {
			return vs.Violf("C25", "packet_processed_twice", "net:processed_twice", "%s conn processed packet %d of space %s twice", c.vantage, ev.pnum, ev.ptype)
		}
		c.recvPN[sp][ev.pnum] = true
		// (Initial packets can also come from the peer's endpoint itself, e.g. a
		// stateless CONNECTION_CLOSE(INVALID_TOKEN), which no connection logs.)
		if sp != 0 && c.peer != nil && !m.anyPeerSent(c, sp, ev.pnum) {
			return vs.Violf("C25", "received_unsent_packet", "net:received_unsent", "%s conn processed packet %d of space %s which its peer never sent", c.vantage, ev.pnum, ev.ptype)
		}
	}
	streamLimit := func(id int64) int64 {
		lim := qnDefault(c.peerCfg.streamRead, 1<<20)
		if v, ok := c.msdRecv[id]; ok && v > lim {
			lim = v
		}
		return lim
	}
	for _, f := range ev.frames {
		switch f := f.(type) {
		case debugFrameScaledAck:
			if ev.sent {
				for _, r := range f.ranges {
					for pn := int64(r.start); pn < int64(r.end); pn++ {
						if !c.recvPN[sp][pn] {
							return vs.Violf("C25", "ack_of_unreceived", "net:ack_unreceived", "%s conn sent an ACK in space %s covering packet %d (range [%d,%d)) which it never received", c.vantage, ev.ptype, pn, r.start, r.end)
						}
					}
				}
			}
		case debugFrameStream:
			end := f.off + int64(len(f.data))
			id := int64(f.id)
			if ev.sent {
				if rs, ok := c.resetSent[id]; ok {
					return vs.Violf("C32", "stream_data_after_reset", "net:data_after_reset", "%s conn sent STREAM(id=%d off=%d len=%d fin=%v) after RESET_STREAM(final=%d)", c.vantage, id, f.off, len(f.data), f.fin, rs.finalSize)
				}
				if end > c.maxSentOff[id] {
					c.maxSentOff[id] = end
				}
				if f.fin {
					c.finSent[id] = end
				}
				if lim := streamLimit(id); end > lim {
					return vs.Violf("C20", "stream_limit_exceeded", "net:stream_limit", "%s conn sent STREAM(id=%d) up to offset %d beyond the peer's MAX_STREAM_DATA %d", c.vantage, id, end, lim)
				}
				if v := m.connLimit(c); v != nil {
					return v
				}
				if v := m.opens(c, id); v != nil {
					return v
				}
			} else {
				rm := c.recvStream[id]
				if rm == nil {
					rm = &rangeModel{}
					c.recvStream[id] = rm
				}
				rm.add(f.off, end)
				if f.fin {
					c.recvFin[id] = end
				}
			}
		case debugFrameResetStream:
			id := int64(f.id)
			if ev.sent {
				if prev, ok := c.resetSent[id]; ok {
					if prev.finalSize != f.finalSize || prev.code != f.code {
						return vs.Violf("C32", "reset_inconsistent", "net:reset_repeat_differs", "%s conn repeated RESET_STREAM(id=%d) with final size %d code %d after final size %d code %d", c.vantage, id, f.finalSize, f.code, prev.finalSize, prev.code)
					}
				} else {
					c.resetSent[id] = f
					c.resetSeq[id] = i
				}
				if f.finalSize != c.maxSentOff[id] {
					return vs.Violf("C32", "reset_final_size", "net:reset_final_size", "%s conn sent RESET_STREAM(id=%d final=%d) but the highest offset it ever sent on the stream is %d", c.vantage, id, f.finalSize, c.maxSentOff[id])
				}
				if v := m.opens(c, id); v != nil {
					return v
				}
			}
		case debugFrameMaxData:
			if ev.sent {
				if f.max < c.maxDataSent {
					return vs.Violf("C20", "max_data_decreased", "net:max_data_decreased", "%s conn sent MAX_DATA %d after %d", c.vantage, f.max, c.maxDataSent)
				}
				c.maxDataSent = f.max
			} else if f.max > c.maxDataRecv {
				c.maxDataRecv = f.max
			}
		case debugFrameMaxStreamData:
			id := int64(f.id)
			if ev.sent {
				if prev, ok := c.msdSent[id]; ok && f.max < prev {
					return vs.Violf("C20", "max_stream_data_decreased", "net:max_stream_data_decreased", "%s conn sent MAX_STREAM_DATA(id=%d) %d after %d", c.vantage, id, f.max, prev)
				}
				c.msdSent[id] = f.max
			} else if f.max > c.msdRecv[id] {
				c.msdRecv[id] = f.max
			}
		case debugFrameMaxStreams:
			t := 0
			if f.streamType == uniStream {
				t = 1
			}
			if ev.sent {
				if f.max < c.maxStrSent[t] {
					return vs.Violf("C21", "max_streams_decreased", "net:max_streams_decreased", "%s conn sent MAX_STREAMS(type %d) %d after %d", c.vantage, t, f.max, c.maxStrSent[t])
				}
				c.maxStrSent[t] = f.max
				conf := qnDefault(c.cfg.maxBidi, 100)
				if t == 1 {
					conf = qnDefault(c.cfg.maxUni, 100)
				}
				if fin := int64(m.finished[c.vantage][t]); f.max > conf+fin {
					return vs.Violf("C21", "too_many_open_streams", "net:max_streams_too_generous", "%s conn sent MAX_STREAMS(type %d)=%d but its configured maximum is %d and its application has finished only %d peer-initiated streams of that type", c.vantage, t, f.max, conf, fin)
				}
			} else if f.max > c.maxStrRecv[t] {
				c.maxStrRecv[t] = f.max
			}
		case debugFrameConnectionCloseTransport:
			if ev.sent {
				c.closeSent = true
				c.closeCode = fmt.Sprint(f.code)
				if f.code != errNo && f.reason != "handshake timeout" { // a handshake that times out under faults is counted, not judged
					m.connErrors = append(m.connErrors, fmt.Sprintf("%s sent CONNECTION_CLOSE %v (%s)", c.vantage, f.code, f.reason))
				}
			} else {
				c.closeRecv = true
			}
		case debugFrameConnectionCloseApplication:
			if ev.sent {
				c.closeSent = true
			} else {
				c.closeRecv = true
			}
		}
	}
	return nil
}

// anyPeerSent reports whether some connection of the other vantage point with the
// same group id (a duplicated Initial can create a second server connection)
// sent packet pn in space sp.
func (m *qnMon) anyPeerSent(c *qnConn, sp int, pn int64) bool {
	for _, o := range m.log.order {
		if o.gid == c.gid && o.vantage != c.vantage && o.sentPN[sp][pn] {
			return true
		}
	}
	return false
}

// history renders the last n events of the run (network and qlog) for violation details.
func (m *qnMon) history(n int) []string {
	var hist []string
	m.log.mu.Lock()
	for _, e := range m.log.events {
		switch e.kind {
		case "send", "deliver":
			hist = append(hist, fmt.Sprintf("%s %v>%v %dB@%v", e.kind, e.from, e.to, e.length, e.at))
		case "qlog":
			dir := "recv"
			if e.sent {
				dir = "sent"
			}
			fr := ""
			for _, f := range e.frames {
				fr += fmt.Sprintf(" %T", f)
			}
			hist = append(hist, fmt.Sprintf("%s:%s %s#%d%s", e.conn.vantage, dir, e.ptype, e.pnum, fr))
		case "newconn":
			hist = append(hist, fmt.Sprintf("newconn server=%v %v retry=%v", e.server, e.from, e.retry))
		}
	}
	m.log.mu.Unlock()
	if len(hist) > n {
		hist = hist[len(hist)-n:]
	}
	return hist
}

func (m *qnMon) connLimit(c *qnConn) *vs.Violation {
	var sum int64
	for _, v := range c.maxSentOff {
		sum += v
	}
	lim := qnDefault(c.peerCfg.connRead, 1<<20)
	if c.maxDataRecv > lim {
		lim = c.maxDataRecv
	}
	if sum > lim {
		return vs.Violf("C20", "conn_limit_exceeded", "net:conn_limit", "%s conn has sent stream data up to a total of %d bytes beyond the peer's MAX_DATA %d", c.vantage, sum, lim)
	}
	return nil
}

func (m *qnMon) opens(c *qnConn, id int64) *vs.Violation {
	if !c.ownsStream(id) {
		return nil
	}
	t := qnStreamType(id)
	num := id >> 2
	lim := qnDefault(c.peerCfg.maxBidi, 100)
	if t == 1 {
		lim = qnDefault(c.peerCfg.maxUni, 100)
	}
	if c.maxStrRecv[t] > lim {
		lim = c.maxStrRecv[t]
	}
	if num >= lim {
		return vs.Violf("C21", "stream_count_exceeded", "net:stream_count", "%s conn used stream %d (type %d number %d) but the peer's MAX_STREAMS is %d", c.vantage, id, t, num, lim)
	}
	if num+1 > c.openedMax[t] {
		c.openedMax[t] = num + 1
	}
	return nil
}

type qnMon struct {
	log        *qnLog
	next       int
	finished   map[string]*[2]int // vantage -> finished peer-initiated streams per type (as the application sees it)
	connErrors []string

	// amplification ledger (C27) and token binding (C31), per remote address
	srvAddr    netip.AddrPort
	recvFrom   map[netip.AddrPort]int64
	sentTo     map[netip.AddrPort]int64
	validated  map[netip.AddrPort]bool
	retryAt    map[netip.AddrPort][]time.Duration
	realClient map[netip.AddrPort]bool
	requireTok bool
	srvConnsBy map[netip.AddrPort]int
}

func (m *qnMon) processNet(ev qnEvent) *vs.Violation {
	switch ev.kind {
	case "deliver":
		if ev.to == m.srvAddr {
			m.recvFrom[ev.from] += int64(ev.length)
		}
	case "send":
		if ev.from != m.srvAddr {
			return nil
		}
		if ev.retry {
			m.retryAt[ev.to] = append(m.retryAt[ev.to], ev.at)
			vs.G.Inc("probe.retry_sent")
		}
		m.sentTo[ev.to] += int64(ev.length)
		if !m.validated[ev.to] {
			if m.sentTo[ev.to] > 3*m.recvFrom[ev.to] {
				hist := m.history(60)
				if false {
					var hist []string
					m.log.mu.Lock()
					for _, e := range m.log.events {
						switch e.kind {
						case "send", "deliver":
							hist = append(hist, fmt.Sprintf("%s %v>%v %dB@%v", e.kind, e.from, e.to, e.length, e.at))
						case "qlog":
							dir := "recv"
							if e.sent {
								dir = "sent"
							}
							hist = append(hist, fmt.Sprintf("%s:%s %s#%d", e.conn.vantage, dir, e.ptype, e.pnum))
						case "newconn":
							hist = append(hist, fmt.Sprintf("newconn server=%v %v retry=%v", e.server, e.from, e.retry))
						}
					}
					m.log.mu.Unlock()
					if len(hist) > 60 {
						hist = hist[len(hist)-60:]
					}
				}
				return vs.Violf("C27", "amplification", "net:amplification", "server has sent %d bytes to the unvalidated address %v but received only %d from it (limit %d); history: %v", m.sentTo[ev.to], ev.to, m.recvFrom[ev.to], 3*m.recvFrom[ev.to], hist)
			}
			if m.sentTo[ev.to]+1200 > 3*m.recvFrom[ev.to] {
				vs.G.Inc("probe.amplification_limit_reached")
			}
		}
	case "newconn":
		if !ev.server {
			return nil
		}
		m.srvConnsBy[ev.from]++
		if ev.retry {
			m.validated[ev.from] = true
		}
		if m.requireTok {
			if !ev.retry {
				return vs.Violf("C31", "conn_without_token", "net:conn_without_token", "server with RequireAddressValidation created a connection for %v without an address-validation token", ev.from)
			}
			if !m.realClient[ev.from] {
				return vs.Violf("C31", "token_accepted_from_other_address", "net:token_other_address", "server created a connection for %v, an address no token was ever usable from (tokens were replayed from it by the attacker)", ev.from)
			}
			fresh := false
			for _, t := range m.retryAt[ev.from] {
				if ev.at-t <= retryTokenValidityPeriod+time.Second {
					fresh = true
				}
			}
			if !fresh {
				return vs.Violf("C31", "expired_token_accepted", "net:token_expired", "server created a connection for %v at %v but every Retry token it issued to that address is older than the validity period (issued at %v)", ev.from, ev.at, m.retryAt[ev.from])
			}
			vs.G.Inc("probe.conn_from_valid_token")
		}
	}
	return nil
}

// ---------------------------------------------------------------------------
// hooks

type qnEndpointHooks struct {
	run    *qnRun
	server bool
	n      int
}

func (h *qnEndpointHooks) newConn(c *Conn, cids newServerConnIDs) {
	h.n++
	c.testHooks = &qnConnHooks{run: h.run, c: c, server: h.server, idx: h.n}
	h.run.mu.Lock()
	h.run.conns = append(h.run.conns, c)
	if h.server {
		h.run.srvConns = append(h.run.srvConns, qnSrvConn{c: c, retried: cids.retrySrcConnID != nil})
	}
	h.run.mu.Unlock()
	h.run.log.mu.Lock()
	h.run.log.events = append(h.run.log.events, qnEvent{kind: "newconn", server: h.server, from: c.peerAddr, retry: cids.retrySrcConnID != nil, at: h.run.sim.Elapsed()})
	h.run.log.mu.Unlock()
}

type qnConnHooks struct {
	run    *qnRun
	c      *Conn
	server bool
	idx    int
}

func (h *qnConnHooks) init(first bool) {
	// Replace the conn's crypto/rand-seeded PRNG by a plan-seeded one (packet
	// number skipping, etc.) so that a run is a function of the rapid draw.
	var seed [32]byte
	s := h.run.p.randSeed
	if h.server {
		s ^= 0xabcdef
	}
	for i := range seed {
		seed[i] = byte(s >> (uint(i%8) * 8))
		if i%8 == 7 {
			s = s*6364136223846793005 + uint64(h.idx)
		}
	}
	h.c.prng = rand.New(rand.NewChaCha8(seed))
	h.c.skip = skipState{}
	h.c.skip.init(h.c)
}

func (h *qnConnHooks) handleTLSEvent(tls.QUICEvent) {}

func (h *qnConnHooks) newConnID(seq int64) ([]byte, error) {
	b := []byte{0xc1, byte(h.idx), byte(seq >> 8), byte(seq), 0, 0, 0, 0}
	if h.server {
		b[0] = 0x5e
	}
	b[4], b[5], b[6], b[7] = byte(h.run.p.randSeed>>24), byte(h.run.p.randSeed>>16), byte(h.run.p.randSeed>>8), byte(h.run.p.randSeed)
	return b, nil
}

// ---------------------------------------------------------------------------
// run

type qnSrvConn struct {
	c       *Conn
	retried bool
}

type qnDirState struct {
	attempted  int64 // bytes handed to Write so far (a blocked Write may already have sent part of them)
	accepted   int64 // bytes accepted by Write
	wDone      bool
	wClean     bool // closed without reset and without error
	wReset     bool
	wErr       error
	closeNil   bool // Close returned nil
	rStarted   bool
	rDone      bool
	read       int64
	rEOF       bool
	rErr       error
	rClosed    bool // reader called CloseRead
	streamID   int64
	checkedAck bool
}

type qnRun struct {
	idleDeaths []string // stream operations that failed with idle timeout after the heal
	p          *qnPlan
	sim        *vs.Sim
	net        *vs.PacketNet
	tr         *vs.Trace
	mu         sync.Mutex
	viol       *vs.Violation
	mon        *qnMon
	log        *qnLog

	conns    []*Conn
	srvConns []qnSrvConn
	cliConn  *Conn
	srvConn  *Conn
	dirs     [][2]*qnDirState // per stream: fwd, rev
	ctx      context.Context
	dialErr  error
	accErr   error
	attackN  int
}

func (r *qnRun) setViol(v *vs.Violation) {
	if v == nil {
		return
	}
	r.mu.Lock()
	if r.viol == nil {
		r.viol = v
	}
	r.mu.Unlock()
	r.sim.Wake()
}

func qnByte(idx int, dir int, off int64) byte {
	return byte(int64(idx)*37 + off*11 + int64(dir)*101 + 5)
}

func (r *qnRun) config(cfg qnCfg, server bool) *Config {
	side := clientSide
	if server {
		side = serverSide
	}
	tc := newTestTLSConfig(side)
	seed := r.p.randSeed*2 + 1
	if server {
		seed = r.p.randSeed*2 + 2
	}
	tc.Rand = &qnRand{s: seed}
	tc.Time = time.Now
	if r.p.helloSplit && (!server || r.p.srvCurvesDef) {
		// crypto/tls defaults: the client offers a hybrid post-quantum key share
		// besides X25519 (see the package's newTestTLSConfigWithMoreDefaults)
		tc.CurvePreferences = nil
	}
	if server && r.p.chainExtra > 0 {
		cert := testCert
		cert.Certificate = append([][]byte{}, testCert.Certificate...)
		for i := 0; i < r.p.chainExtra; i++ {
			cert.Certificate = append(cert.Certificate, testCert.Certificate[0])
		}
		tc.Certificates = []tls.Certificate{cert}
		vs.G.Inc("probe.server_flight_of_several_datagrams")
	}
	c := &Config{
		TLSConfig:                tc,
		MaxBidiRemoteStreams:     cfg.maxBidi,
		MaxUniRemoteStreams:      cfg.maxUni,
		MaxStreamReadBufferSize:  cfg.streamRead,
		MaxStreamWriteBufferSize: cfg.streamWrite,
		MaxConnReadBufferSize:    cfg.connRead,
		HandshakeTimeout:         qnTO(r.p.defaultTO, 2*time.Minute),
		MaxIdleTimeout:           qnTO(r.p.defaultTO, 2*time.Minute),
		KeepAlivePeriod:          cfg.keepAlive,
		QLogLogger:               slog.New(&qnHandler{log: r.log}),
	}
	if server {
		c.RequireAddressValidation = r.p.retry
	}
	return c
}

func qnTO(useDefault bool, d time.Duration) time.Duration {
	if useDefault {
		return 0
	}
	return d
}

// attacker replays client datagrams from spoofed source addresses (another host
// with the same port, the same host with another port). Decisions are a pure
// function of the plan seed and a per-run counter of client datagrams.
func (r *qnRun) attacker(from, to netip.AddrPort, b []byte) {
	if r.p.attackPct == 0 || to != r.mon.srvAddr || from == r.mon.srvAddr {
		return
	}
	r.attackN++
	h := (r.p.randSeed + 77) * 0x9e3779b97f4a7c15
	h ^= uint64(r.attackN) * 0xbf58476d1ce4e5b9
	h ^= h >> 29
	h *= 0x94d049bb133111eb
	h ^= h >> 32
	if int(h%100) >= r.p.attackPct {
		return
	}
	spoof := netip.AddrPortFrom(netip.MustParseAddr("10.0.0.66"), from.Port())
	if (h>>8)&1 == 1 {
		spoof = netip.AddrPortFrom(from.Addr(), from.Port()+1)
	}
	delay := time.Duration((h >> 16) % uint64(r.p.attackMax+1))
	vs.G.Inc("fault.spoofed_replay")
	go r.net.Inject(spoof, to, b, delay)
}

// ghostPolicy implements the network behaviour around ghost clients and the
// client blackout window.
func (r *qnRun) ghostPolicy(from, to netip.AddrPort, seq uint64, b []byte, f vs.Fate) vs.Fate {
	for i, g := range r.p.ghosts {
		addr := qnGhostAddr(i)
		if to == addr {
			f = vs.Fate{Drop: true, FlipByte: -1}
			return f
		}
		if from == addr {
			f = vs.Fate{FlipByte: -1}
			if int(seq) > g.pass {
				f.Drop = true
				return f
			}
			hold := r.forgeAround(from, to, seq, b, i+1)
			f.Extra = hold
			if g.dup > 0 {
				f.Dup = true
				f.DupExtra = hold + time.Duration(g.dup)*20*time.Millisecond
				for k := 1; k < g.dup; k++ {
					go r.net.Inject(from, to, b, hold+time.Duration(k)*35*time.Millisecond)
				}
				vs.G.Inc("fault.ghost_initial_duplicated")
			}
			if g.trunc > 0 && seq == 1 {
				f.Truncate = g.trunc
			}
			return f
		}
	}
	if r.p.forge.real && from == qnRealClientAddr && to == r.mon.srvAddr && !f.Drop {
		if hold := r.forgeAround(from, to, seq, b, 0); hold > 0 {
			f.Extra += hold
			f.DupExtra += hold
		}
	}
	if r.p.clientHold[1] > 0 && to == r.mon.srvAddr {
		at := r.sim.Elapsed()
		if at >= r.p.clientHold[0] && at < r.p.clientHold[1] {
			f.Drop = true
			vs.G.Inc("fault.client_blackout")
		}
	}
	return f
}

var qnRealClientAddr = netip.MustParseAddrPort("10.0.0.2:5000")

// forgeAround is the off-path attacker of the plan's forge action. It is called
// for the first datagrams a client (ghost idx-1, or the real client: idx 0) sends:
// on the first one it forges a packet carrying the connection IDs of that Initial
// and injects it from the client's own address, timed before / after the client's
// first two datagrams or between them. The result is the extra delay to give the
// datagram seq so that the forged one arrives in the intended place.
func (r *qnRun) forgeAround(from, to netip.AddrPort, seq uint64, b []byte, idx int) (hold time.Duration) {
	fg := r.p.forge
	if fg.kind == "" || seq > 2 {
		return 0
	}
	// every datagram of this client arrives within base+jitter of being sent
	maxLat := r.p.faults.BaseLatency + r.p.faults.Jitter
	if seq == 2 {
		if fg.when == "between" {
			return r.p.faults.Jitter + 2*fg.gap
		}
		return 0
	}
	var delay time.Duration
	switch fg.when {
	case "before":
		delay = 0
	case "between":
		delay = maxLat + fg.gap
	default: // after both
		delay = maxLat + fg.gap + time.Millisecond
	}
	for k := 0; k < fg.reps; k++ {
		d := qnForgeDatagram(fg, b, idx*8+k)
		if d == nil {
			return 0
		}
		vs.G.Inc("fault.forged_long_header")
		vs.G.Inc("fault.forged_" + fg.kind + "_" + fg.when)
		r.net.Inject(from, to, d, delay+time.Duration(k)*fg.gap/4)
	}
	return 0
}

// qnForgeDatagram builds the forged datagram from an observed client Initial.
func qnForgeDatagram(fg qnForge, observed []byte, n int) []byte {
	p, ok := parseGenericLongHeaderPacket(observed)
	if !ok {
		return nil
	}
	rng := &qnRand{s: fg.seed*0x9e3779b97f4a7c15 + uint64(n)}
	dcid := append([]byte(nil), p.dstConnID...)
	scid := append([]byte(nil), p.srcConnID...)
	if fg.badDCID {
		rng.Read(dcid)
	}
	payload := make([]byte, fg.size)
	rng.Read(payload)
	payload[len(payload)-1] |= 1 // never the all-zero tail that is compared with an unknown stateless reset token
	var d []byte
	first := byte(headerFormLong | fixedBit)
	switch fg.kind {
	case "short":
		d = append(d, fixedBit|fg.lowBits)
		d = append(d, dcid...)
		return append(d, payload...)
	case "handshake":
		first |= longPacketTypeHandshake
	case "0rtt":
		first |= longPacketType0RTT
	case "initial":
		first |= longPacketTypeInitial
	}
	d = append(d, first|fg.lowBits&0x0f)
	d = append(d, 0, 0, 0, 1) // QUIC version 1
	d = append(d, byte(len(dcid)))
	d = append(d, dcid...)
	d = append(d, byte(len(scid)))
	d = append(d, scid...)
	if fg.kind == "initial" {
		d = append(d, 0) // token length
	}
	d = append(d, 0x40|byte(len(payload)>>8), byte(len(payload))) // length: the rest of the datagram
	return append(d, payload...)
}

func qnGhostAddr(i int) netip.AddrPort {
	return netip.AddrPortFrom(netip.MustParseAddr(fmt.Sprintf("10.0.1.%d", i+1)), 6000)
}

// writer runs a writer script on stream s for (idx, dir).
func (r *qnRun) writer(tk *vs.Task, s *Stream, idx, dir int, ops []qnOp, withHeader bool) {
	d := r.dirs[idx][dir]
	d.streamID = s.ID()
	fail := func(err error) {
		r.mu.Lock()
		d.wErr = err
		r.noteErr(err, fmt.Sprintf("s%d/%d write", idx, dir))
		r.mu.Unlock()
	}
	var off int64
	write := func(n int) bool {
		b := make([]byte, n)
		for i := range b {
			b[i] = qnByte(idx, dir, off+int64(i))
		}
		r.mu.Lock()
		d.attempted = off + int64(n)
		r.mu.Unlock()
		m, err := s.Write(b)
		off += int64(m)
		r.mu.Lock()
		d.accepted = off
		r.mu.Unlock()
		if err != nil {
			fail(err)
			return false
		}
		return true
	}
	defer func() {
		r.mu.Lock()
		d.wDone = true
		r.mu.Unlock()
		r.sideDone(s, idx, dir == 0)
	}()
	if withHeader {
		tk.Step("hdr")
		b := []byte{0xA5, byte(idx >> 8), byte(idx)}
		// the header is part of the byte sequence (offsets 0..2)
		for i := range b {
			_ = i
		}
		hb := make([]byte, 3)
		copy(hb, b)
		r.mu.Lock()
		d.attempted = 3
		r.mu.Unlock()
		m, err := s.Write(hb)
		off += int64(m)
		r.mu.Lock()
		d.accepted = off
		r.mu.Unlock()
		if err != nil {
			fail(err)
			return
		}
	}
	for _, op := range ops {
		tk.Step(op.kind)
		switch op.kind {
		case "write":
			if !write(op.n) {
				return
			}
		case "writebyte":
			r.mu.Lock()
			d.attempted = off + 1
			r.mu.Unlock()
			if err := s.WriteByte(qnByte(idx, dir, off)); err != nil {
				fail(err)
				return
			}
			off++
			r.mu.Lock()
			d.accepted = off
			r.mu.Unlock()
		case "flush":
			if err := s.Flush(); err != nil {
				fail(err)
				return
			}
		case "sleep":
			time.Sleep(op.dur)
		case "reset":
			s.Reset(op.code)
			r.mu.Lock()
			d.wReset = true
			r.mu.Unlock()
			return
		case "closewrite":
			s.CloseWrite()
			r.mu.Lock()
			d.wClean = true
			r.mu.Unlock()
			return
		case "close":
			if s.IsWriteOnly() {
				// Close flushes and waits for the peer's acknowledgement.
				r.mu.Lock()
				d.wClean = true // data is complete from here on even if Close fails later
				r.mu.Unlock()
				err := s.Close()
				r.mu.Lock()
				if err == nil {
					d.closeNil = true
				} else {
					d.wErr = err
					r.noteErr(err, fmt.Sprintf("s%d/%d close", idx, dir))
				}
				r.mu.Unlock()
			} else {
				s.CloseWrite()
				r.mu.Lock()
				d.wClean = true
				r.mu.Unlock()
			}
			return
		}
	}
}

// sideDone is called when one of the (up to two) tasks using stream object s on
// one side has finished; the last one closes the stream object so that the
// implementation can reclaim it.
func (r *qnRun) sideDone(s *Stream, idx int, initiatorSide bool) {
	sp := r.p.streams[idx]
	r.mu.Lock()
	f, rv := r.dirs[idx][0], r.dirs[idx][1]
	var done bool
	if sp.uni {
		done = true
	} else if initiatorSide {
		done = f.wDone && rv.rDone
	} else {
		done = f.rDone && rv.wDone
	}
	r.mu.Unlock()
	if !done {
		return
	}
	// the application is finished with this stream on this side
	acceptorSide := !initiatorSide
	if acceptorSide {
		vant := "server"
		if !sp.fromClient {
			vant = "client"
		}
		t := 0
		if sp.uni {
			t = 1
		}
		r.mu.Lock()
		r.mon.finished[vant][t]++
		r.mu.Unlock()
	}
	if sp.uni && initiatorSide {
		if r.dirs[idx][0].closeNil || r.dirs[idx][0].wReset {
			// already closed / reset: still call Close so that the stream is reclaimed
		}
	}
	go func() { s.Close() }()
}

func (r *qnRun) reader(tk *vs.Task, s *Stream, idx, dir int, ops []qnOp, skip int64) {
	d := r.dirs[idx][dir]
	r.mu.Lock()
	d.rStarted = true
	d.read = skip
	r.mu.Unlock()
	defer func() {
		r.mu.Lock()
		d.rDone = true
		r.mu.Unlock()
		r.sideDone(s, idx, dir == 1)
	}()
	buf := make([]byte, 1<<16)
	readN := func(n int) bool {
		if n > len(buf) {
			n = len(buf)
		}
		m, err := s.Read(buf[:n])
		r.mu.Lock()
		defer r.mu.Unlock()
		for i := 0; i < m; i++ {
			if buf[i] != qnByte(idx, dir, d.read+int64(i)) {
				want := make([]byte, min(m, 16))
				for k := range want {
					want[k] = qnByte(idx, dir, d.read+int64(k))
				}
				r.viol0(vs.Violf("C19", "wrong_byte", "net:wrong_byte", "stream %d (plan %d dir %d): byte at offset %d differs from what was written (read %d bytes at offset %d: got %x want %x; writer ops %+v)", s.ID(), idx, dir, d.read+int64(i), m, d.read, buf[:min(m, 16)], want, r.p.streams[idx]))
				return false
			}
		}
		d.read += int64(m)
		if d.read > max(d.accepted, d.attempted) {
			r.viol0(vs.Violf("C19", "phantom_bytes", "net:phantom_bytes", "stream %d: reader has %d bytes but the writer only wrote %d", s.ID(), d.read, max(d.accepted, d.attempted)))
			return false
		}
		if err != nil {
			if err == io.EOF {
				d.rEOF = true
				if d.wReset && !d.wClean {
					r.viol0(vs.Violf("C32", "eof_after_reset", "net:eof_after_reset", "stream %d: Read returned io.EOF although the writer reset the stream without ever closing it", s.ID()))
				} else if !d.wClean {
					r.viol0(vs.Violf("C19", "early_eof", "net:early_eof", "stream %d: Read returned io.EOF at %d although the writer has not closed the stream", s.ID(), d.read))
				} else if d.read != d.accepted {
					r.viol0(vs.Violf("C19", "short_eof", "net:short_eof", "stream %d: io.EOF after %d bytes, writer wrote %d", s.ID(), d.read, d.accepted))
				}
			} else {
				d.rErr = err
				r.noteErr(err, fmt.Sprintf("s%d/%d read", idx, dir))
			}
			return false
		}
		return true
	}
	for _, op := range ops {
		tk.Step(op.kind)
		switch op.kind {
		case "read":
			if !readN(op.n) {
				return
			}
		case "readbyte":
			if !readN(1) {
				return
			}
		case "read0":
			vs.G.Inc("probe.zero_length_read")
			if !readN(0) {
				return
			}
		case "sleep":
			time.Sleep(op.dur)
		case "closeread":
			s.CloseRead()
			r.mu.Lock()
			d.rClosed = true
			r.mu.Unlock()
			return
		case "drain":
			for readN(len(buf)) {
			}
			return
		}
	}
}

// noteErr (r.mu held) records a stream operation that failed with the
// connection's idle timeout although the network had been fault-free for the
// whole idle period: both endpoints were alive and the scripts never pause that
// long, so a connection can only go idle there if it stalled.
func (r *qnRun) noteErr(err error, what string) {
	if err == nil || !errors.Is(err, errIdleTimeout) || r.p.defaultTO {
		return
	}
	if at := r.sim.Elapsed(); at >= r.p.faults.HealAt+2*time.Minute {
		r.idleDeaths = append(r.idleDeaths, fmt.Sprintf("%s at %v", what, at))
	}
}

func (r *qnRun) viol0(v *vs.Violation) { // r.mu held
	if r.viol == nil {
		r.viol = v
	}
	r.sim.Wake()
}

// acceptor accepts peer-initiated streams on conn and starts their tasks.
func (r *qnRun) acceptor(conn *Conn, name string) {
	n := 0
	for {
		s, err := conn.AcceptStream(r.ctx)
		if err != nil {
			return
		}
		n++
		sn := fmt.Sprintf("%s-acc%d", name, n)
		r.sim.Go(sn, "C19", func(tk *vs.Task) {
			// first three bytes identify the planned stream
			var hdr [3]byte
			got := 0
			for got < 3 {
				tk.Step("hdr")
				m, err := s.Read(hdr[got:])
				got += m
				if err != nil && got < 3 {
					// reset or closed before the header arrived: the planned stream is
					// unknown, nothing to check; abort both directions explicitly so that
					// the peer's tasks see an error, never a clean EOF.
					if !s.IsReadOnly() {
						s.Reset(0x99)
					}
					// the application is finished with this peer-initiated stream
					r.mu.Lock()
					vant, t := "client", 0
					if conn == r.srvConn {
						vant = "server"
					}
					if s.IsReadOnly() {
						t = 1
					}
					r.mon.finished[vant][t]++
					r.mu.Unlock()
					s.CloseRead()
					go func() { s.Close() }()
					return
				}
			}
			idx := int(hdr[1])<<8 | int(hdr[2])
			if hdr[0] != 0xA5 || idx >= len(r.p.streams) {
				r.setViol(vs.Violf("C19", "wrong_byte", "net:wrong_header", "stream %d: header bytes %x are not what any writer sent", s.ID(), hdr))
				return
			}
			sp := r.p.streams[idx]
			if !sp.uni {
				r.sim.Go(sn+"w", "C19", func(tk2 *vs.Task) { r.writer(tk2, s, idx, 1, sp.rev.w, false) })
			}
			r.reader(tk, s, idx, 0, sp.fwd.r, 3)
		})
	}
}

// initiator opens planned stream idx on conn and runs its tasks.
func (r *qnRun) initiator(tk *vs.Task, conn *Conn, idx int) {
	sp := r.p.streams[idx]
	tk.Step("open")
	var s *Stream
	var err error
	if sp.uni {
		s, err = conn.NewSendOnlyStream(r.ctx)
	} else {
		s, err = conn.NewStream(r.ctx)
	}
	if err != nil {
		r.mu.Lock()
		for _, d := range r.dirs[idx] {
			d.wDone, d.rDone, d.wErr = true, true, err
		}
		r.mu.Unlock()
		return
	}
	if !sp.uni {
		r.sim.Go(fmt.Sprintf("s%dr", idx), "C19", func(tk2 *vs.Task) { r.reader(tk2, s, idx, 1, sp.rev.r, 0) })
	}
	r.writer(tk, s, idx, 0, sp.fwd.w, true)
}

func (r *qnRun) allDone() bool {
	r.mu.Lock()
	defer r.mu.Unlock()
	if r.viol != nil {
		return true
	}
	if r.dialErr != nil || r.accErr != nil {
		return true
	}
	if r.cliConn == nil || r.srvConn == nil {
		return false
	}
	for i, ds := range r.dirs {
		for dir, d := range ds {
			if dir == 1 && r.p.streams[i].uni {
				continue
			}
			if !d.wDone {
				// the reverse writer of a bidi stream only exists once the acceptor has
				// identified the stream; if the forward direction was reset (or failed)
				// before that, the acceptor aborted the stream instead.
				f := ds[0]
				if dir == 1 && (f.wReset || f.wErr != nil) && f.wDone && (d.rDone || !d.rStarted) {
					continue
				}
				return false
			}
			if d.wErr != nil && !d.rStarted {
				continue
			}
			if d.wClean && d.wErr == nil && !d.rDone {
				return false
			}
			if d.rStarted && !d.rDone {
				return false
			}
		}
	}
	return true
}

func qnRunOnce(t *testing.T, rt *rapid.T, focus string) {
	p := qnDrawPlan(rt, focus)
	if focus == "C27" {
		// relied upon: printed by the driver if they stay at zero
		vs.G.Add("probe.client_hello_split", 0)
		vs.G.Add("fault.forged_long_header", 0)
		vs.G.Add("fault.forged_handshake_between", 0)
	}
	tape := vs.DrawTape(rt, 4000)
	tr := vs.NewTrace()
	var viol *vs.Violation
	var simDur time.Duration
	var harness string
	nontrivial := false
	deadlock := vs.Bubble(t, func() {
		sim := vs.NewSim(tape, tr)
		sim.MaxSteps = vs.Thorough(8000, 40000)
		sim.Horizon = 10 * time.Minute
		r := &qnRun{p: p, sim: sim, tr: tr, log: &qnLog{conns: map[string]*qnConn{}}}
		r.mon = &qnMon{log: r.log, finished: map[string]*[2]int{"client": {}, "server": {}},
			srvAddr: netip.MustParseAddrPort("10.0.0.1:443"), recvFrom: map[netip.AddrPort]int64{}, sentTo: map[netip.AddrPort]int64{}, validated: map[netip.AddrPort]bool{},
			retryAt: map[netip.AddrPort][]time.Duration{}, realClient: map[netip.AddrPort]bool{qnRealClientAddr: true}, requireTok: p.retry, srvConnsBy: map[netip.AddrPort]int{}}
		ctx, cancel := context.WithCancel(context.Background())
		r.ctx = ctx
		r.net = vs.NewPacketNet(sim, p.faults)
		r.net.OnSend = func(from, to netip.AddrPort, b []byte) {
			r.log.mu.Lock()
			r.log.events = append(r.log.events, qnEvent{kind: "send", from: from, to: to, length: len(b), retry: len(b) > 0 && isLongHeader(b[0]) && getPacketType(b) == packetTypeRetry, at: sim.Elapsed()})
			r.log.mu.Unlock()
			r.attacker(from, to, b)
		}
		r.net.OnDeliver = func(from, to netip.AddrPort, b []byte) {
			r.log.mu.Lock()
			r.log.events = append(r.log.events, qnEvent{kind: "deliver", from: from, to: to, length: len(b), at: sim.Elapsed()})
			r.log.mu.Unlock()
		}
		srvNode, cliNode := r.net.Node("10.0.0.1:443"), r.net.Node("10.0.0.2:5000")
		for range p.streams {
			r.dirs = append(r.dirs, [2]*qnDirState{{}, {}})
		}
		tr.Ev("plan focus=%s cfg=%s cli=%+v srv=%+v retry=%v faults={lat=%v jit=%v loss=%d dup=%d reo=%d/%v cor=%d trunc=%d heal=%v part=%v} streams=%d",
			focus, vs.Config(), p.cli, p.srv, p.retry, p.faults.BaseLatency, p.faults.Jitter, p.faults.LossPct, p.faults.DupPct, p.faults.ReorderPct, p.faults.ReorderMax, p.faults.CorruptPct, p.faults.TruncPct, p.faults.HealAt, p.faults.Partitions, len(p.streams))
		if p.helloSplit {
			tr.Ev("plan hello-split srvcurves=%v chain=%d ghosts=%+v forge=%+v linger=%v", p.srvCurvesDef, p.chainExtra, p.ghosts, p.forge, p.linger)
		}

		spc, err1 := newNetPacketConn(srvNode)
		cpc, err2 := newNetPacketConn(cliNode)
		if err1 != nil || err2 != nil {
			harness = fmt.Sprint("packet conn: ", err1, err2)
			cancel()
			return
		}
		srvCfg, cliCfg := r.config(p.srv, true), r.config(p.cli, false)
		srvEP, err1 := newEndpoint(spc, srvCfg, &qnEndpointHooks{run: r, server: true})
		cliEP, err2 := newEndpoint(cpc, nil, &qnEndpointHooks{run: r})
		if err1 != nil || err2 != nil {
			harness = fmt.Sprint("endpoint: ", err1, err2)
			cancel()
			return
		}
		r.net.DecideOverride = r.ghostPolicy
		var ghostEPs []*Endpoint
		var ghostNodes []*vs.PacketNode
		var ghostsRunning atomic.Int32
		for i, g := range p.ghosts {
			i, g := i, g
			gn := r.net.Node(qnGhostAddr(i).String())
			gpc, err := newNetPacketConn(gn)
			if err != nil {
				continue
			}
			gep, err := newEndpoint(gpc, nil, &qnEndpointHooks{run: r})
			if err != nil {
				continue
			}
			ghostEPs = append(ghostEPs, gep)
			ghostNodes = append(ghostNodes, gn)
			gcfg := r.config(p.cli, false)
			ghostsRunning.Add(1)
			go func() {
				defer ghostsRunning.Add(-1)
				select {
				case <-time.After(g.delay):
				case <-ctx.Done():
					return
				}
				c, err := gep.Dial(ctx, "udp", "10.0.0.1:443", gcfg)
				if err == nil {
					c.Abort(nil)
				}
			}()
			vs.G.Inc("fault.ghost_client")
		}
		sim.Go("dial", "C19", func(tk *vs.Task) {
			tk.Step("dial")
			c, err := cliEP.Dial(ctx, "udp", "10.0.0.1:443", cliCfg)
			r.mu.Lock()
			r.cliConn, r.dialErr = c, err
			r.mu.Unlock()
			if err != nil {
				return
			}
			go r.acceptor(c, "cli")
			for i, sp := range p.streams {
				if sp.fromClient {
					i := i
					sim.Go(fmt.Sprintf("s%d", i), "C19", func(tk2 *vs.Task) { r.initiator(tk2, c, i) })
				}
			}
		})
		sim.Go("accept", "C19", func(tk *vs.Task) {
			tk.Step("accept")
			c, err := srvEP.Accept(ctx)
			r.mu.Lock()
			r.srvConn, r.accErr = c, err
			r.mu.Unlock()
			if err != nil {
				return
			}
			go r.acceptor(c, "srv")
			for i, sp := range p.streams {
				if !sp.fromClient {
					i := i
					sim.Go(fmt.Sprintf("s%d", i), "C19", func(tk2 *vs.Task) { r.initiator(tk2, c, i) })
				}
			}
		})
		sim.Check = r.check
		sim.Done = r.allDone
		if p.linger > 0 {
			sim.AddSource(&qnLinger{at: sim.Start.Add(p.linger)})
			sim.Done = func() bool {
				if !r.allDone() {
					return false
				}
				r.mu.Lock()
				v := r.viol
				r.mu.Unlock()
				return v != nil || sim.Elapsed() >= p.linger
			}
		}
		sim.Run()
		viol = sim.Viol
		if viol == nil {
			viol = r.check()
		}
		if viol == nil {
			viol = r.final(sim, &harness)
		}
		if viol != nil && os.Getenv("VERIF_DEBUG_STACKS") != "" {
			buf := make([]byte, 1<<18)
			buf = buf[:runtime.Stack(buf, true)]
			fmt.Printf("VERIF-DEBUG stacks at violation:\n%s\n", buf)
		}
		r.mu.Lock()
		nontrivial = r.cliConn != nil && r.srvConn != nil && len(r.log.events) > 10
		r.mu.Unlock()
		simDur = sim.Elapsed()
		// teardown
		cancel()
		ectx, ecancel := context.WithCancel(context.Background())
		ecancel()
		cliEP.Close(ectx)
		srvEP.Close(ectx)
		for _, g := range ghostEPs {
			g.Close(ectx)
		}
		cliNode.Close()
		srvNode.Close()
		for _, g := range ghostNodes {
			g.Close()
		}
		for i := 0; i < 100 && (r.net.InFlight() > 0 || ghostsRunning.Load() > 0); i++ {
			sim.Sleep(time.Second) // let injected datagrams and ghost dialers drain so no goroutine is left behind
		}
		if !sim.Drain() && harness == "" {
			harness = fmt.Sprintf("tasks did not exit at teardown: %v", sim.PendingTasks())
		}
		if sim.StepsOut {
			vs.G.Inc("run.steps_exhausted")
		}
	})
	if deadlock != "" && viol == nil && harness == "" {
		harness = "bubble did not wind down: " + deadlock
	}
	vs.G.EndRun(tr, nontrivial, simDur, func() any {
		return map[string]any{"focus": focus, "config": vs.Config(), "trace_head": tr.Log[:min(len(tr.Log), 50)]}
	})
	if harness != "" && viol == nil {
		vs.LogTrace(rt, tr)
		vs.Harnessf(rt, "%s", harness)
	}
	if viol != nil && viol.Prop != focus {
		vs.G.Inc("foreign_violation." + viol.Prop + "." + viol.Oracle)
		viol = nil
	}
	vs.Report(rt, viol, tr)
}

// qnLinger is an event source without events: it only names an instant up to which
// simulated time is allowed to pass while nothing else is pending.
type qnLinger struct{ at time.Time }

func (l *qnLinger) Events(time.Time) []vs.Event { return nil }
func (l *qnLinger) NextTimed(now time.Time) (time.Time, bool) {
	if now.Before(l.at) {
		return l.at, true
	}
	return time.Time{}, false
}

// check runs at every quiescent point.
func (r *qnRun) check() *vs.Violation {
	r.mu.Lock()
	defer r.mu.Unlock()
	if r.viol != nil {
		return r.viol
	}
	// pair up client and server views of the same connection
	r.log.mu.Lock()
	events := r.log.events[r.mon.next:]
	base := r.mon.next
	r.mon.next = len(r.log.events)
	for _, qc := range r.log.order {
		if qc.peer == nil {
			other := "server:" + qc.gid
			if qc.vantage == "server" {
				other = "client:" + qc.gid
			}
			if oc := r.log.conns[other]; oc != nil {
				qc.peer = oc
				if oc.peer == nil {
					oc.peer = qc
				}
			}
			if qc.vantage == "server" {
				qc.cfg, qc.peerCfg = r.p.srv, r.p.cli
			} else {
				qc.cfg, qc.peerCfg = r.p.cli, r.p.srv
			}
		}
	}
	r.log.mu.Unlock()
	for i, ev := range events {
		if v := r.mon.process(base+i, ev); v != nil {
			return v
		}
	}
	// Stream.Close returned nil => the peer has received every byte and the FIN.
	for i, ds := range r.dirs {
		d := ds[0]
		if d.closeNil && !d.checkedAck {
			d.checkedAck = true
			// the monitor object of the connection that accepted the stream
			var peer *qnConn
			pc := r.srvConn
			if !r.p.streams[i].fromClient {
				pc = r.cliConn
			}
			if pc != nil && pc.log != nil {
				if h, ok := pc.log.Handler().(*qnHandler); ok {
					peer = h.conn
				}
			}
			if peer != nil {
				rm := peer.recvStream[d.streamID]
				fin, hasFin := peer.recvFin[d.streamID]
				if rm == nil || !rm.covers(0, d.accepted) || !hasFin || fin != d.accepted {
					return vs.Violf("C19", "close_before_delivery", "net:close_nil_before_delivery", "Stream.Close on stream %d returned nil but the peer has not received all %d bytes and the FIN (received ranges %v, fin %v/%d)", d.streamID, d.accepted, rm, hasFin, fin)
				}
				vs.G.Inc("probe.close_nil_verified")
			}
		}
	}
	// in-situ structural checks (C24 range sets, C26 bytes in flight)
	for _, c := range r.conns {
		if v := qnInSitu(c); v != nil {
			return v
		}
	}
	return nil
}

func qnRangesetOK(rs rangeset[int64]) bool {
	for i, x := range rs {
		if x.start >= x.end {
			return false
		}
		if i > 0 && rs[i-1].end >= x.start {
			return false
		}
	}
	return true
}

func qnInSitu(c *Conn) *vs.Violation {
	select {
	case <-c.donec:
		return nil
	default:
	}
	// bytes in flight == sum of sizes of in-flight packets without a fate
	sum := 0
	for sp := range c.loss.spaces {
		l := &c.loss.spaces[sp].sentPacketList
		for i := 0; i < l.size; i++ {
			sent := l.nth(i)
			if sent.inFlight && sent.state == sentPacketSent {
				sum += sent.size
			}
		}
	}
	if c.loss.cc.bytesInFlight != sum || sum < 0 {
		return vs.Violf("C26", "bytes_in_flight_identity", "net:bytes_in_flight", "%v: congestion controller has %d bytes in flight, in-flight packets without a fate sum to %d", c, c.loss.cc.bytesInFlight, sum)
	}
	if c.loss.cc.congestionWindow < 2*c.loss.cc.maxDatagramSize {
		return vs.Violf("C26", "cwnd_below_minimum", "net:cwnd_floor", "%v: congestion window %d below the minimum %d", c, c.loss.cc.congestionWindow, 2*c.loss.cc.maxDatagramSize)
	}
	for _, ms := range c.streams.streams {
		s := ms.s
		if s == nil {
			continue
		}
		// (quiescent point: no goroutine is inside the stream)
		if !qnRangesetOK(s.inset) || !qnRangesetOK(s.outunsent) || !qnRangesetOK(s.outacked) {
			return vs.Violf("C24", "rangeset_malformed", "net:stream_rangeset", "stream %d: a range set is not sorted/disjoint/non-adjacent: inset=%v outunsent=%v outacked=%v", s.id, s.inset, s.outunsent, s.outacked)
		}
	}
	for sp := range c.acks {
		if !qnRangesetOK(rangeset[int64](nil)) {
			_ = sp
		}
	}
	return nil
}

func (r *qnRun) final(sim *vs.Sim, harness *string) *vs.Violation {
	r.mu.Lock()
	defer r.mu.Unlock()
	if sim.StepsOut {
		return nil
	}
	if len(r.mon.connErrors) > 0 && !r.p.defaultTO {
		return vs.Violf("C19", "connection_error", "net:conn_error", "two honest endpoints ended the connection with a transport error: %v; history: %v", r.mon.connErrors, r.mon.history(80))
	}
	for _, c := range r.conns {
		if c.lifetime.finalErr == errStatelessReset {
			// Observation, outside the listed properties: while the peer's stateless
			// reset token is unknown it is compared as 16 zero bytes, and a padded
			// Initial datagram ends in zeros; if such a datagram does not decrypt
			// (corruption, truncation - not part of C19's drop/duplicate/reorder/
			// delay network) the connection takes it for a stateless reset.
			vs.G.Inc("observation.false_stateless_reset")
			if r.p.faults.CorruptPct > 0 || r.p.faults.TruncPct > 0 {
				return nil
			}
		}
	}
	if r.dialErr != nil || r.accErr != nil {
		var pte peerTransportError
		tokenExpired := r.p.retry && vs.Config() != "clean" && errors.As(r.dialErr, &pte) && pte.code == errInvalidToken // faults may delay the token beyond its validity
		if errors.Is(r.dialErr, errHandshakeTimeout) || errors.Is(r.dialErr, context.Canceled) || r.p.defaultTO || tokenExpired {
			vs.G.Inc("run.handshake_failed")
			return nil
		}
		return vs.Violf("C19", "handshake_failed", "net:handshake_failed", "handshake between two honest endpoints failed: dial=%v accept=%v", r.dialErr, r.accErr)
	}
	if sim.Stuck && r.p.defaultTO {
		vs.G.Inc("run.stuck_under_handshake_faults")
		return nil
	}
	if len(r.idleDeaths) > 0 {
		return vs.Violf("C19", "liveness", "net:idle_death_after_heal", "the connection idled out (no packet for 2m0s) entirely after the network healed at %v while stream operations were pending: %v", r.p.faults.HealAt, r.idleDeaths)
	}
	if sim.Stuck {
		var pend []string
		for i, ds := range r.dirs {
			for dir, d := range ds {
				if dir == 1 && r.p.streams[i].uni {
					continue
				}
				pend = append(pend, fmt.Sprintf("s%d/%d{w:%v clean:%v reset:%v werr:%v acc:%d r:%v/%v read:%d eof:%v rerr:%v}", i, dir, d.wDone, d.wClean, d.wReset, d.wErr, d.accepted, d.rStarted, d.rDone, d.read, d.rEOF, d.rErr))
			}
		}
		return vs.Violf("C19", "liveness", "net:stuck_after_heal", "streams did not complete within %v of simulated time although the network healed at %v: %v; tasks %v", sim.Horizon, r.p.faults.HealAt, pend, sim.PendingTasks())
	}
	// completeness: cleanly closed directions were read in full to io.EOF
	for i, ds := range r.dirs {
		for dir, d := range ds {
			if dir == 1 && r.p.streams[i].uni {
				continue
			}
			if d.wClean && d.wErr == nil && d.rStarted && !d.rClosed {
				if !d.rEOF || d.read != d.accepted {
					// the reverse direction's abort (Close on the stream object) may cut reads
					if d.rErr != nil {
						continue
					}
					return vs.Violf("C19", "incomplete", "net:incomplete", "stream plan %d dir %d: writer closed cleanly after %d bytes, reader got %d eof=%v err=%v", i, dir, d.accepted, d.read, d.rEOF, d.rErr)
				}
				vs.G.Inc("probe.stream_complete")
			}
			if d.wReset && d.rErr != nil {
				var se StreamErrorCode
				if errors.As(d.rErr, &se) {
					vs.G.Inc("probe.reset_seen_by_reader")
				}
			}
		}
	}
	return nil
}

func TestVerif_C19(t *testing.T)     { vs.Check(t, func(rt *rapid.T) { qnRunOnce(t, rt, "C19") }) }
func TestVerif_C20(t *testing.T)     { vs.Check(t, func(rt *rapid.T) { qnRunOnce(t, rt, "C20") }) }
func TestVerif_C21(t *testing.T)     { vs.Check(t, func(rt *rapid.T) { qnRunOnce(t, rt, "C21") }) }
func TestVerif_C25(t *testing.T)     { vs.Check(t, func(rt *rapid.T) { qnRunOnce(t, rt, "C25") }) }
func TestVerif_C24_net(t *testing.T) { vs.Check(t, func(rt *rapid.T) { qnRunOnce(t, rt, "C24") }) }
func TestVerif_C26_net(t *testing.T) { vs.Check(t, func(rt *rapid.T) { qnRunOnce(t, rt, "C26") }) }
func TestVerif_C27(t *testing.T)     { vs.Check(t, func(rt *rapid.T) { qnRunOnce(t, rt, "C27") }) }
func TestVerif_C31(t *testing.T)     { vs.Check(t, func(rt *rapid.T) { qnRunOnce(t, rt, "C31") }) }
func TestVerif_C32(t *testing.T)     { vs.Check(t, func(rt *rapid.T) { qnRunOnce(t, rt, "C32") }) }
