// Engine gates (C29): quic.gate and quic.queue under a seeded goroutine
// scheduler inside a testing/synctest bubble.
//
// A run: 2-6 actor goroutines with generated scripts over ONE gate
// (lock / lockIfSet / waitAndLock(ctx) followed, when the gate was acquired, by
// unlock(set)) or ONE queue (put / get(ctx) / close), plus an actor that cancels
// contexts. Actors park before every operation; the scheduler loop (vs.Sim on
// the bubble's root goroutine) waits for quiescence, checks the oracles, and
// releases exactly one operation -- or, in a "race" event, two or three
// operations without an intervening quiescence. An operation may block inside
// the code under test; its actor is then "blocked in operation" (not parked)
// and other events are chosen.
//
// Oracles (all evaluated at every quiescent point):
//   - exclusion: a counter touched only while holding the gate never exceeds 1;
//   - step model: the operations that returned during the last step must be
//     explainable, in SOME order, by the sequential gate / queue specification
//     starting from the model state of the previous quiescent point (this
//     accepts every linearizable outcome of a deliberate race);
//   - no lost wakeup: no lock() stays blocked while the model gate is unlocked,
//     no waitAndLock / get stays blocked while the model condition is set
//     (unlocked+set / queue non-empty or closed), none stays blocked on a
//     cancelled context, and operations that never wait (unlock, lockIfSet,
//     put, close) are never blocked;
//   - drain: at the end every item still in the model queue comes out, in
//     order, and an empty open queue yields nothing;
//   - the complete history (invoke/return stamped by a counter advanced on the
//     scheduler goroutine only) is checked with porcupine against the same
//     sequential specification.
//
// Context seams: the context handed to a waitAndLock / get can be a wrapper
// (gtSeamCtx) whose Done() and Err() methods are scheduling points. The code
// under test evaluates ctx.Done() when it enters its blocking select, i.e. in the
// window between its non-blocking fast path and the blocking select; an actor
// parked there (when the plan arms the operation) lets the scheduler run
// unlock(true) / put and the cancellation of that very context "inside the
// window", so that the select is entered with both arms ready. Which ready arm
// a Go select takes is the runtime's choice: the plan draws the outcome it wants
// and the run is re-executed (same plan, same tape) until the observed outcome
// matches, a bounded number of times; both outcomes are legal and the model
// adopts the observed one. Err() parks the same way (a goroutine descheduled
// between a select firing and its call of ctx.Err()). While an actor is parked
// in a seam the blocked-operation oracles are suspended (another operation may
// legitimately wait for the parked one); they are evaluated again at the next
// quiescent point after the resume.
//
// Latitude accepted (see the final report / engines/gates.json): waitAndLock /
// get with an already-cancelled context may either fail with the context error
// or succeed when the condition is set; get on a closed queue that still holds
// items may return the close error (documented behaviour of queue.close) or the
// next item; a second close may or may not replace the error.
package quic // ENGINE PACKAGE

import (
	"context"
	"errors"
	"fmt"
	"sort"
	"strings"
	"sync"
	"sync/atomic"
	"testing"
	"testing/synctest"
	"time"

	"github.com/anishathalye/porcupine"
	vs "golang.org/x/net/internal/verifsim"
	"pgregory.net/rapid"
)

const gtProp = "C29"

// ---------------------------------------------------------------------------
// Adapter to the code under test. (Everything outside BEGIN/END ADAPTER is shared
// verbatim with overlay/internal/gate/verif_gates2_test.go, which is generated
// from this file by tools/gen_gates2.py.)
// BEGIN ADAPTER

type gtGateAPI interface {
	lock() bool
	lockIfSet() bool
	waitAndLock(ctx context.Context) error
	unlock(set bool)
	// poke is used by teardown only (never by an oracle): it frees goroutines
	// that a broken gate left blocked, so that none outlives the bubble.
	poke(fill bool)
}

type gtQuicGate struct{ g gate }

func (w *gtQuicGate) lock() bool                            { return w.g.lock() }
func (w *gtQuicGate) lockIfSet() bool                       { return w.g.lockIfSet() }
func (w *gtQuicGate) waitAndLock(ctx context.Context) error { return w.g.waitAndLock(ctx) }
func (w *gtQuicGate) unlock(set bool)                       { w.g.unlock(set) }
func (w *gtQuicGate) poke(fill bool)                        { gtPokeChans(w.g.set, w.g.unset, fill) }

// gtNewGate returns the gate of a run and the model state it starts in:
// newLockedGate() (actor 0 is then the initial holder) or newGate().
func gtNewGate(locked, set0 bool) (gtGateAPI, gtGateState) {
	if locked {
		return &gtQuicGate{g: newLockedGate()}, gtGateState{locked: true}
	}
	return &gtQuicGate{g: newGate()}, gtGateState{}
}

const gtHaveQueue = true

type gtQueueAPI struct{ q queue[int] }

func gtNewQueue() *gtQueueAPI                              { return &gtQueueAPI{q: newQueue[int]()} }
func (w *gtQueueAPI) put(v int) bool                       { return w.q.put(v) }
func (w *gtQueueAPI) get(ctx context.Context) (int, error) { return w.q.get(ctx) }
func (w *gtQueueAPI) close(err error)                      { w.q.close(err) }
func (w *gtQueueAPI) poke(fill bool)                       { gtPokeChans(w.q.gate.set, w.q.gate.unset, fill) }

// END ADAPTER

func gtPokeChans(set, unset chan struct{}, fill bool) {
	if fill {
		select {
		case set <- struct{}{}:
		default:
		}
		return
	}
	select {
	case <-set:
	default:
	}
	select {
	case <-unset:
	default:
	}
}

// ---------------------------------------------------------------------------
// Plan

type gtKind uint8

const (
	gtLock gtKind = iota
	gtLockIfSet
	gtWaitAndLock
	gtUnlock
	gtCancel
	gtPut
	gtGet
	gtClose
)

var gtKindName = [...]string{"lock", "lockIfSet", "waitAndLock", "unlock", "cancel", "put", "get", "close"}

type gtElem struct {
	Kind gtKind
	Ctx  int  // waitAndLock/get: context index, -1 = context.Background()
	Set  bool // gate mode: argument of the unlock that follows a successful acquire
	Val  int  // put: item; close: error index; cancel: context index
	// waitAndLock/get: context seams armed for this operation.
	Win   uint8 // 0: none; Done() parks once, and when both arms are ready at the resume the plan wants 1: the gate, 2: the context error
	EPark bool  // Err() parks once
}

func (e gtElem) seams() string {
	s := ""
	if e.Win != 0 {
		s += "@win" + map[uint8]string{1: "+", 2: "-"}[e.Win]
	}
	if e.EPark {
		s += "@err"
	}
	return s
}

func (e gtElem) String() string {
	switch e.Kind {
	case gtLock, gtLockIfSet:
		return fmt.Sprintf("%s;unlock(%v)", gtKindName[e.Kind], e.Set)
	case gtWaitAndLock:
		return fmt.Sprintf("waitAndLock(c%d)%s;unlock(%v)", e.Ctx, e.seams(), e.Set)
	case gtGet:
		return fmt.Sprintf("get(c%d)%s", e.Ctx, e.seams())
	case gtPut:
		return fmt.Sprintf("put(%d)", e.Val)
	case gtClose:
		return fmt.Sprintf("close(e%d)", e.Val)
	case gtCancel:
		return fmt.Sprintf("cancel(c%d)", e.Val)
	}
	return "?"
}

type gtPlan struct {
	Queue   bool
	Locked0 bool // gate mode: newLockedGate(); actor 0 is the initial holder
	Set0    bool // ... and unlocks with this value first
	NCtx    int
	Scripts [][]gtElem
	Cancels []int
	RacePct int
}

func (p *gtPlan) String() string {
	var sb strings.Builder
	if p.Queue {
		sb.WriteString("queue")
	} else {
		fmt.Fprintf(&sb, "gate locked0=%v set0=%v", p.Locked0, p.Set0)
	}
	fmt.Fprintf(&sb, " nctx=%d race=%d%% cancels=%v", p.NCtx, p.RacePct, p.Cancels)
	for i, s := range p.Scripts {
		fmt.Fprintf(&sb, " | t%d:", i)
		for _, e := range s {
			sb.WriteString(" " + e.String())
		}
	}
	return sb.String()
}

func gtDrawPlan(rt *rapid.T) *gtPlan {
	c := vs.RapidChooser{T: rt}
	p := &gtPlan{}
	if gtHaveQueue {
		p.Queue = vs.Bool(c)
	}
	nact := vs.Range(c, 2, 6)
	p.NCtx = vs.Range(c, 1, 3)
	p.RacePct = vs.Pick(c, 30, 0, 10, 60)
	maxLen := vs.Thorough(6, 12)
	if !p.Queue {
		p.Locked0 = vs.Pct(c, 25)
		p.Set0 = vs.Bool(c)
	}
	closeW := 0
	if p.Queue {
		closeW = vs.Pick(c, 1, 0, 3)
	}
	drawCtx := func() int { return c.Intn(p.NCtx+1) - 1 }
	drawSeams := func(e *gtElem) {
		e.Win = [...]uint8{0, 1, 2, 0, 0, 0}[c.Intn(6)]
		e.EPark = c.Intn(3) == 1
	}
	val, ncl := 0, 0
	for a := 0; a < nact; a++ {
		n := vs.Range(c, 1, maxLen)
		var s []gtElem
		for i := 0; i < n; i++ {
			var e gtElem
			if p.Queue {
				x := c.Intn(18 + closeW)
				switch {
				case x < 9:
					e.Kind, e.Ctx = gtGet, drawCtx()
					drawSeams(&e)
				case x < 18:
					val++
					e.Kind, e.Val = gtPut, val
				default:
					e.Kind, e.Val = gtClose, min(ncl, 7)
					ncl++
				}
			} else {
				x := c.Intn(20)
				switch {
				case x < 7:
					e.Kind = gtLock
				case x < 15:
					e.Kind, e.Ctx = gtWaitAndLock, drawCtx()
					drawSeams(&e)
				default:
					e.Kind = gtLockIfSet
				}
				e.Set = c.Intn(5) < 3
			}
			s = append(s, e)
		}
		p.Scripts = append(p.Scripts, s)
	}
	nc := c.Intn(p.NCtx + 2)
	for i := 0; i < nc; i++ {
		p.Cancels = append(p.Cancels, c.Intn(p.NCtx))
	}
	return p
}

// ---------------------------------------------------------------------------
// Operations and the sequential specifications

type gtOp struct {
	actor     int
	kind      gtKind
	arg       int // ctx index (-1 background) | unlock: 0/1 | put: item | close: error index | cancel: ctx index
	call, ret int64
	done      bool
	rb        bool   // lock: condition; lockIfSet: acquired; put: accepted
	rv        int    // get: item, or close-error index when re == 2
	re        int    // 0 nil | 1 context.Canceled | 2 a close error | 3 anything else
	retxt     string // text of an unexpected error
	seamed    bool   // has been parked in a context seam
	resumed   int64  // stamp of the step that resumed the operation from a context seam
	winBoth   bool   // resumed from the Done() window with both select arms ready
	winWant   uint8  // ... and the outcome the plan wants then (1 gate, 2 context error)
	lax       bool   // released while another actor was parked in a context seam (see gtGateStep, lockIfSet)
}

func (o *gtOp) in() string {
	switch o.kind {
	case gtLock, gtLockIfSet:
		return gtKindName[o.kind]
	case gtWaitAndLock, gtGet:
		if o.arg < 0 {
			return gtKindName[o.kind] + "(bg)"
		}
		return fmt.Sprintf("%s(c%d)", gtKindName[o.kind], o.arg)
	case gtUnlock:
		return fmt.Sprintf("unlock(%v)", o.arg == 1)
	case gtCancel:
		return fmt.Sprintf("cancel(c%d)", o.arg)
	case gtPut:
		return fmt.Sprintf("put(%d)", o.arg)
	case gtClose:
		return fmt.Sprintf("close(e%d)", o.arg)
	}
	return "?"
}

func (o *gtOp) out() string {
	errs := func() string {
		switch o.re {
		case 0:
			return "nil"
		case 1:
			return "ctx.Canceled"
		case 2:
			return fmt.Sprintf("closeErr(e%d)", o.rv)
		}
		return "ERR:" + o.retxt
	}
	switch o.kind {
	case gtLock, gtLockIfSet, gtPut:
		return fmt.Sprint(o.rb)
	case gtWaitAndLock:
		return errs()
	case gtGet:
		if o.re == 0 {
			return fmt.Sprint(o.rv)
		}
		return errs()
	}
	return "ok"
}

// gate specification (from the doc comments of gate.go and the C29 statement).
type gtGateState struct {
	locked, set bool
	cancelled   uint8
}

func gtGateStep(s gtGateState, o *gtOp) (gtGateState, bool) {
	switch o.kind {
	case gtCancel:
		s.cancelled |= 1 << o.arg
		return s, true
	case gtLock:
		if s.locked || o.rb != s.set {
			return s, false
		}
		s.locked = true
		return s, true
	case gtLockIfSet:
		if o.rb {
			if s.locked || !s.set {
				return s, false
			}
			s.locked = true
			return s, true
		}
		// (lax: an implementation may call the context's methods while it holds
		// the gate; an operation parked there by the harness has then acquired the
		// gate without having returned yet, which the step model cannot see.)
		return s, s.locked || !s.set || o.lax
	case gtWaitAndLock:
		switch o.re {
		case 0:
			if s.locked || !s.set {
				return s, false
			}
			s.locked = true
			return s, true
		case 1:
			return s, o.arg >= 0 && s.cancelled&(1<<o.arg) != 0
		}
		return s, false
	case gtUnlock:
		if !s.locked {
			return s, false
		}
		s.locked, s.set = false, o.arg == 1
		return s, true
	}
	return s, false
}

// queue specification. items is the FIFO content, two bytes per item.
type gtQueueState struct {
	items     string
	closed    uint8 // bit i: close(e_i) has been applied; 0 = open
	cancelled uint8
}

func gtEnc(v int) string { return string([]byte{byte(v >> 8), byte(v)}) }
func (s gtQueueState) head() int {
	return int(s.items[0])<<8 | int(s.items[1])
}
func (s gtQueueState) n() int { return len(s.items) / 2 }

func gtQueueStep(s gtQueueState, o *gtOp) (gtQueueState, bool) {
	switch o.kind {
	case gtCancel:
		s.cancelled |= 1 << o.arg
		return s, true
	case gtPut:
		if s.closed != 0 {
			return s, !o.rb
		}
		if !o.rb {
			return s, false
		}
		s.items += gtEnc(o.arg)
		return s, true
	case gtClose:
		s.closed |= 1 << o.arg
		return s, true
	case gtGet:
		switch o.re {
		case 0:
			// (on a closed queue that still holds items this is tolerated, see header)
			if s.n() == 0 || s.head() != o.rv {
				return s, false
			}
			s.items = s.items[2:]
			return s, true
		case 1:
			return s, o.arg >= 0 && s.cancelled&(1<<o.arg) != 0
		case 2:
			return s, s.closed&(1<<o.rv) != 0
		}
		return s, false
	}
	return s, false
}

// gtAdvance returns every model state reachable from one of the candidate
// states by applying ops in some order the specification accepts. The oracle
// keeps the set of all states consistent with what it has observed (a race of
// two puts leaves two possible queue contents); a violation is an empty set.
func gtAdvance[S comparable](cands []S, ops []*gtOp, step func(S, *gtOp) (S, bool)) []S {
	if len(ops) == 0 {
		return cands
	}
	type key struct {
		used uint32
		s    S
	}
	seen := map[key]bool{}
	final := map[S]bool{}
	var out []S
	full := uint32(1)<<len(ops) - 1
	var rec func(s S, used uint32)
	rec = func(s S, used uint32) {
		k := key{used, s}
		if seen[k] {
			return
		}
		seen[k] = true
		if used == full {
			if !final[s] {
				final[s] = true
				out = append(out, s)
			}
			return
		}
		for i, o := range ops {
			if used&(1<<i) != 0 {
				continue
			}
			if ns, ok := step(s, o); ok {
				rec(ns, used|1<<i)
			}
		}
	}
	for _, c := range cands {
		rec(c, 0)
	}
	return out
}

// gtGateBlocked / gtQueueBlocked say why an operation must not be blocked at a
// quiescent point in the given model state ("" if it may be).
func gtGateBlocked(s gtGateState, o *gtOp) (oracle, sig, why string) {
	switch o.kind {
	case gtLock:
		if !s.locked {
			return "lost_wakeup", "gate:lock", "blocked in lock() although the model gate is unlocked"
		}
	case gtWaitAndLock:
		if !s.locked && s.set {
			return "lost_wakeup", "gate:waitAndLock", "blocked in waitAndLock although the model gate is unlocked with the condition set"
		}
		if o.arg >= 0 && s.cancelled&(1<<o.arg) != 0 {
			return "cancel_ignored", "gate:waitAndLock", "still blocked in waitAndLock after its context was cancelled"
		}
	default:
		return "op_blocked", "gate:" + gtKindName[o.kind], "blocked in an operation that never waits"
	}
	return "", "", ""
}

func gtQueueBlocked(s gtQueueState, o *gtOp) (oracle, sig, why string) {
	switch o.kind {
	case gtGet:
		if s.closed != 0 {
			return "lost_wakeup", "queue:lost_wakeup_close", "blocked in get although the model queue is closed"
		}
		if s.n() > 0 {
			return "lost_wakeup", "queue:lost_wakeup_item", "blocked in get although the model queue holds an item"
		}
		if o.arg >= 0 && s.cancelled&(1<<o.arg) != 0 {
			return "cancel_ignored", "queue:get", "still blocked in get after its context was cancelled"
		}
	default:
		return "op_blocked", "queue:" + gtKindName[o.kind], "blocked in an operation that never waits"
	}
	return "", "", ""
}

// gtFilterBlocked keeps the candidate states in which every blocked operation
// is legitimately blocked.
func gtFilterBlocked[S comparable](cands []S, blocked []*gtOp, why func(S, *gtOp) (string, string, string)) (keep []S, oracle, sig, text string, culprit *gtOp) {
	for _, s := range cands {
		ok := true
		for _, o := range blocked {
			if or, sg, w := why(s, o); or != "" {
				ok = false
				if oracle == "" {
					oracle, sig, text, culprit = or, sg, w, o
				}
				break
			}
		}
		if ok {
			keep = append(keep, s)
		}
	}
	return
}

// ---------------------------------------------------------------------------
// Actors and the harness

type gtAbort struct{}

type gtCloseErr int

func (e gtCloseErr) Error() string { return fmt.Sprintf("verif close error %d", int(e)) }

type gtActor struct {
	id     int
	name   string
	h      *gtH
	vt     *vs.Task
	mu     sync.Mutex
	parked bool
	label  string
	oplab  string // label of the operation (label is "resume ..." while parked in a seam)
	nkind  gtKind
	narg   int
	grant  chan *gtOp
	seam   int // != 0: parked inside the operation in flight, in a context seam
	want   uint8
}

const (
	gtSeamDone = 1 // in ctx.Done(): between waitAndLock's fast path and its blocking select
	gtSeamErr  = 2 // in ctx.Err()
)

var gtSeamName = [...]string{"", "in ctx.Done", "in ctx.Err"}
var gtSeamProbe = [...]string{"", "probe.window_parked", "probe.err_parked"}

// pause parks the actor inside the operation in flight (called by gtSeamCtx on
// the actor's goroutine, from within the code under test) until the scheduler
// resumes it.
func (a *gtActor) pause(seam int, want uint8) {
	if a.h.aborting.Load() {
		return
	}
	a.mu.Lock()
	a.parked, a.seam, a.want = true, seam, want
	a.label = "resume " + a.oplab + " [" + gtSeamName[seam] + "]"
	a.mu.Unlock()
	vs.G.Inc(gtSeamProbe[seam])
	<-a.grant
}

func (a *gtActor) inSeam() int {
	a.mu.Lock()
	defer a.mu.Unlock()
	if !a.parked {
		return 0
	}
	return a.seam
}

// gtSeamCtx is the context of an operation whose plan element arms a seam.
// Done may be called more than once per operation (get -> waitAndLock): every
// seam parks at most once.
type gtSeamCtx struct {
	context.Context
	a     *gtActor
	win   uint8
	epark bool
}

func (c *gtSeamCtx) Done() <-chan struct{} {
	if w := c.win; w != 0 {
		c.win = 0
		c.a.pause(gtSeamDone, w)
	}
	return c.Context.Done()
}

func (c *gtSeamCtx) Err() error {
	if c.epark {
		c.epark = false
		c.a.pause(gtSeamErr, 0)
	}
	return c.Context.Err()
}

func (a *gtActor) isParked() bool {
	a.mu.Lock()
	defer a.mu.Unlock()
	return a.parked
}

// step parks the actor until the scheduler releases its next operation.
func (a *gtActor) step(kind gtKind, arg int) *gtOp {
	if a.h.aborting.Load() {
		panic(gtAbort{})
	}
	o := gtOp{kind: kind, arg: arg}
	a.mu.Lock()
	a.parked, a.label, a.oplab, a.nkind, a.narg = true, o.in(), o.in(), kind, arg
	a.mu.Unlock()
	op := <-a.grant
	if op == nil {
		panic(gtAbort{})
	}
	return op
}

type gtH struct {
	plan     *gtPlan
	sim      *vs.Sim
	tr       *vs.Trace
	actors   []*gtActor
	aborting atomic.Bool
	ctxs     []context.Context
	cancels  []context.CancelFunc
	g        gtGateAPI
	q        *gtQueueAPI
	holders  atomic.Int32

	seq      int64 // advanced on the scheduler goroutine only
	stepCall int64
	cmu      sync.Mutex
	comps    []*gtOp
	inflight []*gtOp
	hist     []*gtOp
	gms      []gtGateState // every model state consistent with the observations so far
	qms      []gtQueueState

	races, blockedOps, completed int
	winMismatch                  int // both-ready windows whose outcome was not the one the plan wants
}

func (h *gtH) ctx(i int) context.Context {
	if i < 0 {
		return context.Background()
	}
	return h.ctxs[i]
}

// opCtx returns the context of a waiting operation of actor a: the plain
// context, or the seam wrapper around it when the plan arms a seam.
func (h *gtH) opCtx(a *gtActor, e gtElem) context.Context {
	if e.Win == 0 && !e.EPark {
		return h.ctx(e.Ctx)
	}
	return &gtSeamCtx{Context: h.ctx(e.Ctx), a: a, win: e.Win, epark: e.EPark}
}

func (h *gtH) complete(op *gtOp) {
	h.cmu.Lock()
	op.done = true
	h.comps = append(h.comps, op)
	h.cmu.Unlock()
}

func gtClassify(err error, op *gtOp) {
	var ce gtCloseErr
	switch {
	case err == nil:
		op.re = 0
	case errors.Is(err, context.Canceled):
		op.re = 1
	case errors.As(err, &ce):
		op.re, op.rv = 2, int(ce)
	default:
		op.re, op.retxt = 3, err.Error()
	}
}

func (h *gtH) enter() {
	if c := h.holders.Add(1); c != 1 {
		h.sim.SetViolation(vs.Violf(gtProp, "exclusion", "gate:holders>1", "%d goroutines hold the gate at the same time", c))
	}
}

// gateActor interprets one gate-mode script.
func (h *gtH) gateActor(a *gtActor, script []gtElem, startHolding bool) {
	holding := startHolding
	defer func() {
		r := recover()
		if holding {
			// teardown: never keep the gate
			h.holders.Add(-1)
			h.g.unlock(true)
		}
		if r != nil {
			if _, ok := r.(gtAbort); !ok {
				panic(r)
			}
		}
	}()
	unlock := func(set bool) {
		arg := 0
		if set {
			arg = 1
		}
		op := a.step(gtUnlock, arg)
		h.holders.Add(-1)
		holding = false
		h.g.unlock(set)
		h.complete(op)
	}
	if startHolding {
		unlock(h.plan.Set0)
	}
	for _, e := range script {
		switch e.Kind {
		case gtLock:
			op := a.step(gtLock, 0)
			op.rb = h.g.lock()
			holding = true
			h.enter()
			h.complete(op)
		case gtLockIfSet:
			op := a.step(gtLockIfSet, 0)
			op.rb = h.g.lockIfSet()
			if op.rb {
				holding = true
				h.enter()
			}
			h.complete(op)
		case gtWaitAndLock:
			op := a.step(gtWaitAndLock, e.Ctx)
			err := h.g.waitAndLock(h.opCtx(a, e))
			gtClassify(err, op)
			if err == nil {
				holding = true
				h.enter()
			}
			h.complete(op)
		}
		if holding {
			unlock(e.Set)
		}
	}
}

func (h *gtH) queueActor(a *gtActor, script []gtElem) {
	defer func() {
		if r := recover(); r != nil {
			if _, ok := r.(gtAbort); !ok {
				panic(r)
			}
		}
	}()
	for _, e := range script {
		switch e.Kind {
		case gtPut:
			op := a.step(gtPut, e.Val)
			op.rb = h.q.put(e.Val)
			h.complete(op)
		case gtGet:
			op := a.step(gtGet, e.Ctx)
			v, err := h.q.get(h.opCtx(a, e))
			gtClassify(err, op)
			if err == nil {
				op.rv = v
			}
			h.complete(op)
		case gtClose:
			op := a.step(gtClose, e.Val)
			h.q.close(gtCloseErr(e.Val))
			h.complete(op)
		}
	}
}

func (h *gtH) cancelActor(a *gtActor) {
	defer func() {
		if r := recover(); r != nil {
			if _, ok := r.(gtAbort); !ok {
				panic(r)
			}
		}
	}()
	for _, k := range h.plan.Cancels {
		op := a.step(gtCancel, k)
		h.cancels[k]()
		h.complete(op)
	}
}

// --- vs.Source: parked actors and race events

func (h *gtH) release(a *gtActor) {
	a.mu.Lock()
	a.parked = false
	kind, arg, seam, want := a.nkind, a.narg, a.seam, a.want
	a.seam = 0
	a.mu.Unlock()
	if seam != 0 {
		// resume the operation in flight from a context seam
		op := h.inflight[a.id]
		op.resumed = h.stepCall
		op.seamed = true
		if seam == gtSeamDone && h.bothReady(op) {
			op.winBoth, op.winWant = true, want
			vs.G.Inc("probe.window_both_ready")
		}
		a.grant <- op
		return
	}
	op := &gtOp{actor: a.id, kind: kind, arg: arg, call: h.stepCall}
	for _, b := range h.actors {
		if b != a && h.inflight[b.id] != nil && (b.inSeam() != 0 || h.inflight[b.id].seamed) {
			op.lax = true
		}
	}
	h.inflight[a.id] = op
	a.grant <- op
}

// bothReady reports whether, according to the model, an operation that enters
// its blocking select now finds both arms ready: the condition is set with the
// gate unlocked, and its context is cancelled.
func (h *gtH) bothReady(op *gtOp) bool {
	if op.arg < 0 {
		return false
	}
	for _, s := range h.gms {
		if !s.locked && s.set && s.cancelled&(1<<op.arg) != 0 {
			return true
		}
	}
	for _, s := range h.qms {
		if (s.closed != 0 || s.n() > 0) && s.cancelled&(1<<op.arg) != 0 {
			return true
		}
	}
	return false
}

func (h *gtH) Events(now time.Time) []vs.Event {
	var parked []*gtActor
	for _, a := range h.actors {
		if a.isParked() {
			parked = append(parked, a)
		}
	}
	var evs []vs.Event
	for _, a := range parked {
		a := a
		w := 10
		if a.inSeam() != 0 {
			w = 4 // leave time for others to act while the actor sits in the window
		}
		evs = append(evs, vs.Event{Label: a.name + ": " + a.label, Weight: w, Run: func() {
			h.seq++
			h.stepCall = h.seq
			h.release(a)
		}})
	}
	// (An actor parked in a context seam is resumed alone: whether its select then
	// finds both arms ready is known from the model, see release.)
	var racers []*gtActor
	for _, a := range parked {
		if a.inSeam() == 0 {
			racers = append(racers, a)
		}
	}
	if len(racers) >= 2 && h.plan.RacePct > 0 {
		w := 10 * len(racers) * h.plan.RacePct / (100 - h.plan.RacePct)
		evs = append(evs, vs.Event{Label: "race", Weight: max(w, 1), Run: func() { h.race(racers) }})
	}
	return evs
}

func (h *gtH) NextTimed(time.Time) (time.Time, bool) { return time.Time{}, false }

// race releases two (sometimes three) parked actors without an intervening
// quiescent point.
func (h *gtH) race(parked []*gtActor) {
	h.seq++
	h.stepCall = h.seq
	k := 2
	if len(parked) >= 3 && vs.Pct(h.sim.C, 15) {
		k = 3
	}
	pool := append([]*gtActor(nil), parked...)
	var chosen []*gtActor
	var labels []string
	kinds := map[gtKind]int{}
	for i := 0; i < k; i++ {
		j := h.sim.C.Intn(len(pool))
		a := pool[j]
		pool = append(pool[:j], pool[j+1:]...)
		chosen = append(chosen, a)
		labels = append(labels, a.name+": "+a.label)
		kinds[a.nkind]++
	}
	h.tr.Ev("  race = %s", strings.Join(labels, " || "))
	h.races++
	vs.G.Inc("probe.race_events")
	blockedWaiter, blockedGetters := false, 0
	for _, o := range h.inflight {
		if o != nil && !o.done {
			if o.kind == gtWaitAndLock {
				blockedWaiter = true
			}
			if o.kind == gtGet {
				blockedGetters++
			}
		}
	}
	if kinds[gtCancel] > 0 && kinds[gtUnlock] > 0 && blockedWaiter {
		vs.G.Inc("probe.race_cancel_vs_unlock_with_waiter")
	}
	if kinds[gtUnlock] > 0 && (kinds[gtLock] > 0 || kinds[gtLockIfSet] > 0 || kinds[gtWaitAndLock] > 0) {
		vs.G.Inc("probe.race_unlock_vs_acquire")
	}
	if kinds[gtGet] >= 2 || (kinds[gtPut] > 0 && blockedGetters+kinds[gtGet] >= 2) {
		vs.G.Inc("probe.race_getters_vs_put")
	}
	if kinds[gtClose] > 0 && (kinds[gtPut] > 0 || kinds[gtGet] > 0) {
		vs.G.Inc("probe.race_close_vs_op")
	}
	if kinds[gtCancel] > 0 && kinds[gtPut] > 0 && blockedGetters > 0 {
		vs.G.Inc("probe.race_cancel_vs_put_with_getter")
	}
	for _, a := range chosen {
		h.release(a)
	}
}

// --- oracles at a quiescent point

func (h *gtH) mode() string {
	if h.plan.Queue {
		return "queue"
	}
	return "gate"
}

func (h *gtH) check() *vs.Violation {
	h.cmu.Lock()
	comps := h.comps
	h.comps = nil
	h.cmu.Unlock()
	sort.Slice(comps, func(i, j int) bool { return comps[i].actor < comps[j].actor })
	h.seq++
	var kinds []string
	wakes, woken, wokenGet, wokenCancel := false, 0, 0, 0
	for _, o := range comps {
		o.ret = h.seq
		h.inflight[o.actor] = nil
		h.hist = append(h.hist, o)
		h.completed++
		h.tr.Ev("  %s %s -> %s", h.actors[o.actor].name, o.in(), o.out())
		kinds = append(kinds, gtKindName[o.kind])
		if o.winBoth {
			got := uint8(1) // the gate was taken (nil, an item, or the close error)
			if o.re == 1 {
				got = 2
				vs.G.Inc("probe.window_both_ready_ctxerr")
			} else {
				vs.G.Inc("probe.window_both_ready_acquired")
			}
			if got != o.winWant {
				h.winMismatch++
			}
		}
		if o.call < h.stepCall && o.resumed < h.stepCall {
			woken++
			if o.kind == gtGet {
				wokenGet++
			}
			if o.re == 1 {
				wokenCancel++
			}
		} else if o.kind == gtUnlock || o.kind == gtPut || o.kind == gtClose || o.kind == gtCancel {
			wakes = true
		}
		switch {
		case o.kind == gtLockIfSet && o.rb:
			vs.G.Inc("probe.lockifset_true")
		case o.kind == gtLockIfSet:
			vs.G.Inc("probe.lockifset_false")
		case o.re == 3:
			return vs.Violf(gtProp, "unexpected_error", h.mode()+":"+gtKindName[o.kind], "%s returned an error that is neither the context's nor a close error: %s", o.in(), o.retxt)
		}
	}
	if woken > 0 && wakes {
		vs.G.Inc("probe.handoff_to_blocked_op")
	}
	if wokenCancel > 0 {
		vs.G.Inc("probe.cancel_wakes_blocked_op")
	}
	if wokenGet >= 2 {
		vs.G.Inc("probe.close_wakes_many_getters")
	}
	// pre-state probes (latitude cases), on the first candidate state
	for _, o := range comps {
		if h.plan.Queue {
			qm := h.qms[0]
			if o.kind == gtGet && o.arg >= 0 && o.re == 0 && qm.cancelled&(1<<o.arg) != 0 {
				vs.G.Inc("probe.acquired_despite_cancelled_ctx")
			}
			if o.kind == gtGet && o.re == 2 && qm.n() > 0 {
				vs.G.Inc("probe.get_error_on_closed_queue_with_items")
			}
			if o.kind == gtGet && o.re == 1 && qm.n() > 0 && qm.closed == 0 {
				vs.G.Inc("probe.get_ctx_error_although_item_available")
			}
		} else if o.kind == gtWaitAndLock && o.arg >= 0 && o.re == 0 && h.gms[0].cancelled&(1<<o.arg) != 0 {
			vs.G.Inc("probe.acquired_despite_cancelled_ctx")
		}
	}
	// step model
	before := h.stateString()
	if h.plan.Queue {
		h.qms = gtAdvance(h.qms, comps, gtQueueStep)
	} else {
		h.gms = gtAdvance(h.gms, comps, gtGateStep)
	}
	if len(h.qms)+len(h.gms) == 0 {
		var d []string
		for _, o := range comps {
			d = append(d, fmt.Sprintf("%s %s -> %s", h.actors[o.actor].name, o.in(), o.out()))
		}
		return vs.Violf(gtProp, "step_model", h.mode()+":"+strings.Join(kinds, "+"),
			"the operations that returned in this step cannot be explained in any order by the sequential %s specification from model state %s: %s",
			h.mode(), before, strings.Join(d, "; "))
	}
	if len(h.qms) > 1 {
		vs.G.Inc("probe.model_ambiguous_after_race")
	}
	// operations parked in a context seam
	seamParked := 0
	for _, a := range h.actors {
		if a.inSeam() != 0 {
			seamParked++
		}
	}
	if seamParked > 0 {
		// An operation blocked now may be waiting for the parked one (an
		// implementation may call ctx methods while it holds the gate): the
		// blocked-operation oracles wait for the resume.
		return nil
	}
	// blocked operations
	var blocked []*gtOp
	for _, o := range h.inflight {
		if o != nil {
			blocked = append(blocked, o)
			if o.call == h.stepCall {
				h.blockedOps++
				vs.G.Inc("probe.op_blocked_in_code_under_test")
			}
		}
	}
	if len(blocked) > 0 {
		before = h.stateString()
		var oracle, sig, why string
		var culprit *gtOp
		if h.plan.Queue {
			h.qms, oracle, sig, why, culprit = gtFilterBlocked(h.qms, blocked, gtQueueBlocked)
		} else {
			h.gms, oracle, sig, why, culprit = gtFilterBlocked(h.gms, blocked, gtGateBlocked)
		}
		if len(h.qms)+len(h.gms) == 0 {
			return vs.Violf(gtProp, oracle, sig, "%s %s: %s (model state %s)", h.actors[culprit.actor].name, culprit.in(), why, before)
		}
	}
	if len(blocked) >= 2 {
		vs.G.Inc("probe.two_or_more_blocked")
	}
	return nil
}

func (h *gtH) stateString() string {
	var out []string
	for _, qm := range h.qms {
		var it []string
		for s := qm; s.n() > 0; s.items = s.items[2:] {
			it = append(it, fmt.Sprint(s.head()))
		}
		out = append(out, fmt.Sprintf("{items=[%s] closed=%#x cancelled=%#x}", strings.Join(it, ","), qm.closed, qm.cancelled))
	}
	for _, gm := range h.gms {
		out = append(out, fmt.Sprintf("{locked=%v set=%v cancelled=%#x}", gm.locked, gm.set, gm.cancelled))
	}
	return strings.Join(out, " or ")
}

// drain: every item the model still holds must come out, in order; an empty
// open queue must yield nothing.
func (h *gtH) drain() (v *vs.Violation, drained int) {
	if !h.plan.Queue || h.qms[0].closed != 0 {
		return nil, 0
	}
	for _, o := range h.inflight {
		if o != nil {
			return nil, 0 // a getter is legitimately blocked on the empty queue
		}
	}
	get := func(ctx context.Context) (op *gtOp, returned bool) {
		op = &gtOp{kind: gtGet, arg: -1}
		var done atomic.Bool
		go func() {
			defer func() {
				if r := recover(); r != nil { // (not a task of the scheduler: a panic here would kill the process)
					op.re, op.retxt = 3, fmt.Sprint("panic: ", r)
					done.Store(true)
				}
			}()
			v, err := h.q.get(ctx)
			gtClassify(err, op)
			if err == nil {
				op.rv = v
			}
			done.Store(true)
		}()
		synctest.Wait()
		return op, done.Load()
	}
	n := h.qms[0].n() // the same in every candidate state
	h.tr.Ev("drain %d", n)
	for i := 0; i < n; i++ {
		before := h.stateString()
		op, returned := get(context.Background())
		if !returned {
			return vs.Violf(gtProp, "drain", "queue:drain_blocked", "get blocks although the model queue still holds %s", before), i
		}
		h.tr.Ev("  drain get -> %s", op.out())
		if op.re == 0 {
			h.qms = gtAdvance(h.qms, []*gtOp{op}, gtQueueStep)
		}
		if op.re != 0 || len(h.qms) == 0 {
			return vs.Violf(gtProp, "drain", "queue:drain_mismatch", "drain: get returned %s, model %s", op.out(), before), i
		}
	}
	ctx, cancel := context.WithCancel(context.Background())
	cancel()
	op, returned := get(ctx)
	if !returned {
		return vs.Violf(gtProp, "cancel_ignored", "queue:drain_get", "get with a cancelled context blocks on the empty queue"), n
	}
	if op.re != 1 {
		return vs.Violf(gtProp, "drain", "queue:phantom_item", "get with a cancelled context on the empty open queue (model %s) returned %s", h.stateString(), op.out()), n
	}
	return nil, n
}

// teardown makes every goroutine of the run exit. It reports whether goroutines
// remained blocked after every context was cancelled, the queue closed and the
// gate released with the condition set.
func (h *gtH) teardown() (stuck bool) {
	h.aborting.Store(true)
	for _, c := range h.cancels {
		c()
	}
	var helper atomic.Bool
	go func() {
		if h.q != nil {
			h.q.close(gtCloseErr(99))
		} else {
			h.g.lock()
			h.g.unlock(true)
		}
		helper.Store(true)
	}()
	allDone := func() bool {
		if !helper.Load() {
			return false
		}
		for _, a := range h.actors {
			if !a.vt.Done() {
				return false
			}
		}
		return true
	}
	for iter := 0; iter < 64; iter++ {
		for _, a := range h.actors {
			if a.isParked() {
				a.mu.Lock()
				a.parked = false
				a.mu.Unlock()
				a.grant <- nil
			}
		}
		synctest.Wait()
		if allDone() {
			return stuck
		}
		stuck = true
		if h.q != nil {
			h.q.poke(iter%2 == 1)
		} else {
			h.g.poke(iter%2 == 1)
		}
		synctest.Wait()
	}
	return stuck
}

// ---------------------------------------------------------------------------
// porcupine

func gtPorcupine(h *gtH, init any) porcupine.CheckResult {
	ops := make([]porcupine.Operation, len(h.hist))
	for i, o := range h.hist {
		ops[i] = porcupine.Operation{ClientId: o.actor, Input: o, Call: o.call, Return: o.ret}
	}
	var model porcupine.Model
	if h.plan.Queue {
		model = porcupine.Model{
			Init: func() any { return init },
			Step: func(st, in, out any) (bool, any) {
				s, ok := gtQueueStep(st.(gtQueueState), in.(*gtOp))
				return ok, s
			},
		}
	} else {
		model = porcupine.Model{
			Init: func() any { return init },
			Step: func(st, in, out any) (bool, any) {
				s, ok := gtGateStep(st.(gtGateState), in.(*gtOp))
				return ok, s
			},
		}
	}
	return porcupine.CheckOperationsTimeout(model, ops, 2*time.Second)
}

// ---------------------------------------------------------------------------

var gtProbes = []string{
	"probe.race_events", "probe.race_unlock_vs_acquire", "probe.race_cancel_vs_unlock_with_waiter",
	"probe.op_blocked_in_code_under_test", "probe.two_or_more_blocked", "probe.handoff_to_blocked_op",
	"probe.cancel_wakes_blocked_op", "probe.acquired_despite_cancelled_ctx",
	"probe.lockifset_true", "probe.lockifset_false", "probe.porcupine_checked", // probe.porcupine_unknown is counted when it happens; zero is the expected value
	"probe.window_parked", "probe.window_both_ready", "probe.window_both_ready_acquired", "probe.window_both_ready_ctxerr",
	"probe.err_parked", // probe.window_rerun / probe.window_choice_unmatched are counted when they happen
}

// gtMaxAttempts bounds the re-executions of a run whose both-ready windows did
// not take the select arm the plan wants (the choice is the Go runtime's).
const gtMaxAttempts = 12

var gtQueueProbes = []string{
	"probe.race_getters_vs_put", "probe.race_close_vs_op", "probe.race_cancel_vs_put_with_getter",
	"probe.close_wakes_many_getters", "probe.get_error_on_closed_queue_with_items",
	"probe.get_ctx_error_although_item_available", "probe.drained_items", "probe.model_ambiguous_after_race",
}

func gtRun(t *testing.T, rt *rapid.T) {
	for _, p := range gtProbes {
		vs.G.Add(p, 0)
	}
	if gtHaveQueue {
		for _, p := range gtQueueProbes {
			vs.G.Add(p, 0)
		}
	}
	plan := gtDrawPlan(rt)
	tapeBytes := rapid.SliceOfN(rapid.Byte(), 0, 256).Draw(rt, "tape") // (the draws of vs.DrawTape; every attempt replays the same tape)
	tapeSeed := rapid.Uint64().Draw(rt, "tapeseed")
	var tr *vs.Trace
	var viol *vs.Violation
	var simDur time.Duration
	var h *gtH
	var init any
	var deadlock string
	for attempt := 1; ; attempt++ {
		tr, viol, h, init, simDur, deadlock = gtAttempt(t, plan, vs.NewTape(tapeBytes, tapeSeed))
		if viol != nil || deadlock != "" || h.winMismatch == 0 {
			break
		}
		if attempt == gtMaxAttempts {
			vs.G.Inc("probe.window_choice_unmatched")
			break
		}
		vs.G.Inc("probe.window_rerun")
	}
	gtFinish(rt, plan, tr, viol, h, init, simDur, deadlock)
}

// gtAttempt executes the plan once. Everything in it is a function of the plan
// and the tape, except which of two simultaneously ready select arms the Go
// runtime takes.
func gtAttempt(t *testing.T, plan *gtPlan, tape *vs.Tape) (tr *vs.Trace, viol *vs.Violation, h *gtH, init any, simDur time.Duration, deadlock string) {
	tr = vs.NewTrace()
	tr.Ev("plan %s", plan.String())
	deadlock = vs.Bubble(t, func() {
		sim := vs.NewSim(tape, tr)
		sim.MaxSteps, sim.Horizon = 600, time.Minute
		h = &gtH{plan: plan, sim: sim, tr: tr}
		for i := 0; i < plan.NCtx; i++ {
			ctx, cancel := context.WithCancel(context.Background())
			h.ctxs = append(h.ctxs, ctx)
			h.cancels = append(h.cancels, cancel)
		}
		if plan.Queue {
			h.q = gtNewQueue()
			h.qms = []gtQueueState{{}}
			init = h.qms[0]
		} else {
			var st gtGateState
			h.g, st = gtNewGate(plan.Locked0, plan.Set0)
			h.gms = []gtGateState{st}
			if plan.Locked0 {
				h.holders.Store(1)
			}
			init = h.gms[0]
		}
		for i, script := range plan.Scripts {
			a := &gtActor{id: i, name: fmt.Sprintf("t%d", i), h: h, grant: make(chan *gtOp)}
			h.actors = append(h.actors, a)
			script := script
			a.vt = sim.Go(a.name, gtProp, func(*vs.Task) {
				if plan.Queue {
					h.queueActor(a, script)
				} else {
					h.gateActor(a, script, plan.Locked0 && a.id == 0)
				}
			})
		}
		cx := &gtActor{id: len(h.actors), name: "cx", h: h, grant: make(chan *gtOp)}
		h.actors = append(h.actors, cx)
		cx.vt = sim.Go(cx.name, gtProp, func(*vs.Task) { h.cancelActor(cx) })
		h.inflight = make([]*gtOp, len(h.actors))
		sim.AddSource(h)
		sim.Check = h.check
		sim.Done = func() bool { return true } // nothing enabled: every actor has finished or is blocked for good
		sim.Run()
		viol = sim.Viol
		if viol == nil && !sim.StepsOut {
			var n int
			viol, n = h.drain()
			vs.G.Add("probe.drained_items", int64(n))
		}
		if sim.StepsOut {
			vs.G.Inc("steps_out")
		}
		pending := sim.PendingTasks()
		if stuck := h.teardown(); stuck && viol == nil {
			viol = vs.Violf(gtProp, "stuck_at_teardown", h.mode()+":stuck",
				"goroutines stayed blocked in the %s after every context was cancelled and the %s; pending: %v",
				h.mode(), map[bool]string{true: "queue closed", false: "gate released with the condition set"}[plan.Queue], pending)
		}
		sim.Abort()
		simDur = sim.Elapsed()
	})
	return
}

func gtFinish(rt *rapid.T, plan *gtPlan, tr *vs.Trace, viol *vs.Violation, h *gtH, init any, simDur time.Duration, deadlock string) {
	if deadlock != "" && viol == nil {
		vs.Harnessf(rt, "bubble ended with blocked goroutines: %s", deadlock)
	}
	if viol == nil && len(h.hist) > 0 {
		vs.G.Inc("probe.porcupine_checked")
		switch gtPorcupine(h, init) {
		case porcupine.Illegal:
			viol = vs.Violf(gtProp, "porcupine", h.mode()+":not_linearizable", "the history of %d operations is not linearizable with respect to the sequential %s specification", len(h.hist), h.mode())
		case porcupine.Unknown:
			vs.G.Inc("probe.porcupine_unknown")
		}
	}
	vs.G.Inc("mode." + h.mode())
	vs.G.EndRun(tr, h.completed >= 2, simDur, func() any {
		return map[string]any{"plan": plan.String(), "events": tr.Log[:min(len(tr.Log), 40)]}
	})
	vs.Report(rt, viol, tr)
}

func TestVerif_C29(t *testing.T) {
	vs.Check(t, func(rt *rapid.T) { gtRun(t, rt) })
}
