// Engine gates, job "long" (C29): long sequential histories on one quic.queue.
// The concurrent jobs keep histories short (a handful of operations, so that the
// linearizability check stays tractable); this job runs hundreds to thousands of
// put / get / get-with-cancelled-context / close operations from ONE goroutine
// against a slice model, with generated backlog shapes (standing backlog of
// 0..5 items that never drains, saw-tooth fill and drain, bursts), because
// "every item put is delivered exactly once, in order" must also hold for the
// thousandth item. No operation may block: get is only issued when the model
// says the queue is non-empty or closed, or with an already cancelled context.

package quic

import (
	"context"
	"errors"
	"testing"

	vs "golang.org/x/net/internal/verifsim"
	"pgregory.net/rapid"
)

func gtLongRun(t *testing.T, rt *rapid.T) {
	c := vs.RapidChooser{T: rt}
	tr := vs.NewTrace()
	q := newQueue[int]()
	var model []int
	closed := false
	var closeErr error
	errA, errB := errors.New("vf: close A"), errors.New("vf: close B")
	cancelled, cancel := context.WithCancel(context.Background())
	cancel()
	next := 1
	var viol *vs.Violation
	nops := vs.Range(c, 1, vs.Thorough(1500, 6000))
	backlog := vs.Pick(c, 0, 1, 1, 2, 5, 40) // the level the history hovers around
	shape := vs.Pick(c, "hover", "hover", "sawtooth", "random")
	tr.Ev("plan nops=%d backlog=%d shape=%s", nops, backlog, shape)
	filling := true
	get := func(ctx context.Context, what string) {
		var v int
		var err error
		if viol = vs.Guard("C29", "panic_in_get", func() { v, err = q.get(ctx) }); viol != nil {
			return
		}
		switch {
		case closed && err == closeErr:
			// (queue.close documents that pending and future gets fail; a closed
			// queue that still holds items may hand out the error or the next item)
			model = nil
		case len(model) > 0:
			if err != nil || v != model[0] {
				viol = vs.Violf("C29", "queue_order", "queue:long:"+what, "after %d operations: get returned (%d, %v), the queue holds %d items starting with %d (closed=%v)", tr.N, v, err, len(model), model[0], closed)
				return
			}
			model = model[1:]
		case closed:
			viol = vs.Violf("C29", "queue_close", "queue:long:closed_get", "get on a closed empty queue returned (%d, %v), want error %v", v, err, closeErr)
		default: // empty, open, cancelled context
			if err == nil {
				viol = vs.Violf("C29", "queue_phantom", "queue:long:phantom_item", "after %d operations: get with a cancelled context on the empty open queue returned item %d", tr.N, v)
			}
		}
	}
	for i := 0; i < nops && viol == nil; i++ {
		var k int
		switch shape {
		case "hover": // keep the backlog near its level without ever draining below it
			switch {
			case len(model) <= backlog:
				k = 0
			case len(model) > backlog+3:
				k = 1
			default:
				k = c.Intn(2)
			}
		case "sawtooth":
			if len(model) >= backlog+20 {
				filling = false
			} else if len(model) <= backlog {
				filling = true
			}
			if filling {
				k = 0
			} else {
				k = 1
			}
		default:
			k = c.Intn(2)
		}
		if vs.Pct(c, 2) {
			k = 2 + c.Intn(2)
		}
		if closed && k == 0 && vs.Pct(c, 90) {
			k = 1
		}
		switch k {
		case 0:
			ok := false
			if viol = vs.Guard("C29", "panic_in_put", func() { ok = q.put(next) }); viol != nil {
				break
			}
			if ok == closed {
				viol = vs.Violf("C29", "queue_put", "queue:long:put_result", "put returned %v on a queue that is closed=%v", ok, closed)
			}
			if ok {
				model = append(model, next)
			}
			next++
		case 1:
			if len(model) == 0 && !closed {
				get(cancelled, "cancelled_empty")
			} else if vs.Pct(c, 10) {
				get(cancelled, "cancelled_ctx")
			} else {
				get(context.Background(), "get")
			}
		case 2:
			get(cancelled, "cancelled_ctx")
		default:
			if i > nops*3/4 && vs.Pct(c, 30) {
				e := vs.Pick(c, errA, errB)
				q.close(e)
				if !closed {
					closed, closeErr = true, e
				}
			}
		}
		tr.N++
	}
	// drain: everything still queued comes out in order
	for viol == nil && len(model) > 0 {
		get(context.Background(), "drain")
	}
	if viol == nil {
		get(cancelled, "after_drain")
	}
	vs.G.Add("probe.long_history_ops", int64(tr.N))
	if next > 130 {
		vs.G.Inc("probe.long_history_over_128_items")
	}
	vs.G.EndRun(tr, nops > 10, 0, func() any { return map[string]any{"shape": shape, "backlog": backlog} })
	vs.Report(rt, viol, tr)
}

func TestVerif_C29_long(t *testing.T) { vs.Check(t, func(rt *rapid.T) { gtLongRun(t, rt) }) }
