// Engine quicpeer, C20 send side (job "send", TestVerif_C20_send): the conn's OWN
// sending under flow-control limits dictated by the scripted peer.
//
// The fake peer's transport parameters (initial_max_data and the three
// initial_max_stream_data_* values) are drawn from the plan and differ from each
// other in most runs. The application side of the real conn opens bidirectional and
// unidirectional streams, accepts streams the fake peer opens, and writes / flushes /
// closes / resets them with generated sizes (far above the limits, too). The fake
// peer acknowledges packets or withholds acknowledgements (loss detection and PTO
// probes retransmit), raises the limits with MAX_STREAM_DATA / MAX_DATA, repeats
// stale lower values, and sends STOP_SENDING.
//
// Reference model (written from RFC 9000 sections 4.1, 4.5, 18.2, not from the
// implementation): the limit of a stream is the initial value for its kind - named
// from the perspective of the endpoint that SENT the parameter, i.e. the fake peer:
//
//	stream opened by the conn, bidirectional  -> initial_max_stream_data_bidi_remote
//	stream opened by the fake peer, bidi      -> initial_max_stream_data_bidi_local
//	stream opened by the conn, unidirectional -> initial_max_stream_data_uni
//
// raised only by MAX_STREAM_DATA frames the fake peer has actually written (maximum
// so far; a lower value changes nothing). The connection limit is the maximum of
// initial_max_data and every MAX_DATA written. Every STREAM frame and every
// RESET_STREAM final size read from the conn's datagrams is judged against them.
//
// Application calls never block: every stream has a cancelled write context, so a
// Write that meets a full send buffer returns the number of bytes accepted (in this
// implementation flow control never blocks Write, only the send buffer does). All
// calls are made on the bubble's root goroutine, followed by quiescence; this keeps
// the engine exactly replayable. For the same reason (Conn.appendStreamFramesPTO
// walks a Go map) acknowledgements are only withheld across clock advances while
// the conn knows at most ONE stream; with several streams time advances in slices
// shorter than any PTO with everything acknowledged in between.
//
// All top-level identifiers of this file start with qs.

package quic

import (
	"fmt"
	"sort"
	"strings"
	"testing"
	"time"

	vs "golang.org/x/net/internal/verifsim"
	"pgregory.net/rapid"
)

// ---------------------------------------------------------------------------
// plan

type qsParams struct{ maxData, bidiLocal, bidiRemote, uni int64 }

func (p qsParams) distinct() bool {
	return p.bidiLocal != p.bidiRemote && p.bidiLocal != p.uni && p.bidiRemote != p.uni
}

func (p qsParams) String() string {
	return fmt.Sprintf("initial_max_data=%d initial_max_stream_data(bidi_local/bidi_remote/uni)=%d/%d/%d", p.maxData, p.bidiLocal, p.bidiRemote, p.uni)
}

const (
	qsWrite = iota
	qsFlush
	qsCloseWrite
	qsReset
	qsAckAll
	qsAckSome
	qsMaxStreamData
	qsMaxData
	qsStopSending
	qsAdvance
	qsSettle
	qsKinds
)

var qsKindName = [...]string{"write", "flush", "close_write", "reset", "ack_all", "ack_some", "max_stream_data", "max_data", "stop_sending", "advance", "settle"}

// limit-update modes
const (
	qsLSmall    = iota // a few bytes more
	qsLToTarget        // exactly what the application has written so far
	qsLBig             // far more
	qsLStale           // any lower value: must change nothing
	qsLJustBelow       // one to four below the current limit
	qsLEqual           // the current limit again
	qsLModes
)

var qsLName = [...]string{"small_raise", "raise_to_written", "big_raise", "stale_lower", "stale_just_below", "equal"}

type qsOp struct {
	kind, s, mode, n, a, b int
	far                    int
	flush                  bool
}

type qsSlot struct {
	kind string // "local-bidi", "local-uni", "peer-bidi"
	id   streamID
}

type qsPlan struct {
	base  qpBase
	tp    qsParams
	slots []qsSlot
	ops   []qsOp
}

var qsLimitValues = []int64{0, 1, 7, 100, 1200, 4096, 65536}

func qsDrawPlan(rt *rapid.T) qsPlan {
	c := vs.RapidChooser{T: rt}
	var p qsPlan
	p.base.side = vs.Pick(c, serverSide, clientSide)
	p.base.seed = uint64(c.Intn(1 << 30))
	p.base.writeBuf = vs.Pick(c, int64(0), 64, 1500, 20000)
	jitter := func(v int64) int64 {
		if vs.Pct(c, 20) {
			v += int64(c.Intn(5))
		}
		return v
	}
	draw := func() int64 { return jitter(qsLimitValues[c.Intn(len(qsLimitValues))]) }
	switch k := c.Intn(8); {
	case k == 0:
		// the classic configuration: one value for all three
		p.tp.bidiLocal = draw()
		p.tp.bidiRemote, p.tp.uni = p.tp.bidiLocal, p.tp.bidiLocal
	case k <= 2:
		p.tp.bidiLocal, p.tp.bidiRemote, p.tp.uni = draw(), draw(), draw()
	default:
		// three different base values
		n := len(qsLimitValues)
		i0 := c.Intn(n)
		i1 := (i0 + 1 + c.Intn(n-1)) % n
		var rest []int
		for i := 0; i < n; i++ {
			if i != i0 && i != i1 {
				rest = append(rest, i)
			}
		}
		i2 := rest[c.Intn(len(rest))]
		p.tp.bidiLocal, p.tp.bidiRemote, p.tp.uni = jitter(qsLimitValues[i0]), jitter(qsLimitValues[i1]), jitter(qsLimitValues[i2])
	}
	switch c.Intn(3) {
	case 0:
		p.tp.maxData = 1 << 20 // the stream limits bind
	case 1:
		p.tp.maxData = draw()
	default:
		// of the order of the stream limits, so that both kinds of limit bind in turn
		p.tp.maxData = (p.tp.bidiLocal+p.tp.bidiRemote+p.tp.uni)*int64(vs.Range(c, 1, 4))/3 + int64(c.Intn(4))
	}
	tp := p.tp
	p.base.peerTP = func(x *transportParameters) {
		x.initialMaxStreamsBidi = 100
		x.initialMaxStreamsUni = 100
		x.initialMaxData = tp.maxData
		x.initialMaxStreamDataBidiLocal = tp.bidiLocal
		x.initialMaxStreamDataBidiRemote = tp.bidiRemote
		x.initialMaxStreamDataUni = tp.uni
	}
	nslots := 1 + qpWeighted(c, []int{8, 5, 4, 3})
	var cnt [3]int64
	for i := 0; i < nslots; i++ {
		switch c.Intn(3) {
		case 0:
			p.slots = append(p.slots, qsSlot{"peer-bidi", newStreamID(p.base.side.peer(), bidiStream, cnt[0])})
			cnt[0]++
		case 1:
			p.slots = append(p.slots, qsSlot{"local-bidi", newStreamID(p.base.side, bidiStream, cnt[1])})
			cnt[1]++
		default:
			p.slots = append(p.slots, qsSlot{"local-uni", newStreamID(p.base.side, uniStream, cnt[2])})
			cnt[2]++
		}
	}
	//             write flush close reset ackall acksome msd md stop advance settle
	kindW := []int{14, 3, 1, 1, 5, 3, 7, 5, 1, 6, 1}
	//              small target big stale justbelow equal
	limitW := []int{5, 4, 3, 3, 2, 1}
	nops := vs.Range(c, 1, vs.Thorough(30, 60))
	for i := 0; i < nops; i++ {
		op := qsOp{kind: qpWeighted(c, kindW), s: c.Intn(len(p.slots)), a: c.Intn(1 << 16), b: c.Intn(1 << 16)}
		switch op.kind {
		case qsWrite:
			op.n = vs.SizeBiased(c, 150000, 1, 7, 100, 1200, 4096, 65536)
			op.flush = !vs.Pct(c, 30)
		case qsMaxStreamData, qsMaxData:
			op.mode = qpWeighted(c, limitW)
			op.far = vs.SizeBiased(c, 70000, 1, 1200)
		case qsAckSome:
			op.mode = c.Intn(3)
		case qsAdvance:
			op.n = vs.Pick(c, 1, 5, 24, 30, 100, 400, 2000, 10000)
		}
		p.ops = append(p.ops, op)
	}
	return p
}

// ---------------------------------------------------------------------------
// reference model of the send side

type qsStream struct {
	id         streamID
	kind       string
	app        *Stream
	opened     bool  // the application holds a handle
	peerOpened bool  // the fake peer has written a frame that opens it (peer-bidi)
	initial    int64 // initial limit for this kind of stream
	limit      int64 // max(initial, every MAX_STREAM_DATA the fake peer wrote)
	lastLimit  int64 // the initial limit or, once one was written, the value of the latest MAX_STREAM_DATA
	high       int64 // highest offset the conn has sent (RESET_STREAM final size included)
	written    int64 // bytes Write has accepted
	flushed    int64 // lower bound of what has been flushed (written at the last Flush / CloseWrite)
	appClosed  bool
	appReset   bool
	peerStop   bool // the fake peer has written STOP_SENDING
	resetSeen  bool
	finSeen    bool
	seenByPeer bool // the conn has sent a frame that opens the stream
	atLimit    bool // probe: counted once
	beyond     bool // probe: counted once
}

func (st *qsStream) limitTag() string {
	if st.limit == st.initial {
		return "initial"
	}
	return "raised"
}

// sendable: the application can still make the conn send new data on the stream.
func (st *qsStream) sendable() bool {
	return st.opened && !st.appReset && !st.peerStop && !st.resetSeen
}

type qsState struct {
	r  *qpRun
	tp qsParams

	streams map[streamID]*qsStream
	order   []*qsStream // slot order

	maxData        int64 // max(initial_max_data, every MAX_DATA the fake peer wrote)
	lastMaxData    int64 // initial_max_data or the value of the latest MAX_DATA written
	sumHigh        int64
	connAtLimit    bool
	acked          qpPnSet
	advanced       time.Duration
	localOpened    [streamTypeCount]int64
	peerOpenedNext int64
	newData        int64 // bytes of new stream data seen (progress)
	dataFrames     int
}

func newQsState(r *qpRun, p qsPlan) *qsState {
	q := &qsState{r: r, tp: p.tp, streams: map[streamID]*qsStream{}, maxData: p.tp.maxData, lastMaxData: p.tp.maxData, acked: qpPnSet{}}
	for n := range r.hsAcked {
		q.acked[n] = true
	}
	for _, sl := range p.slots {
		st := &qsStream{id: sl.id, kind: sl.kind}
		switch sl.kind {
		case "local-bidi":
			st.initial = p.tp.bidiRemote
		case "peer-bidi":
			st.initial = p.tp.bidiLocal
		case "local-uni":
			st.initial = p.tp.uni
		}
		st.limit, st.lastLimit = st.initial, st.initial
		q.streams[sl.id] = st
		q.order = append(q.order, st)
	}
	return q
}

func (q *qsState) connTag() string {
	if q.maxData == q.tp.maxData {
		return "initial"
	}
	return "raised"
}

// onConnFrame judges one frame of a 1-RTT packet of the conn.
func (q *qsState) onConnFrame(pn packetNumber, f debugFrame) {
	r := q.r
	switch f := f.(type) {
	case debugFrameStream:
		st := q.streams[f.id]
		if st == nil || !st.opened {
			r.setViol(vs.Violf("conn", "frame_for_unopened_stream", "send:unopened", "conn sent %v for a stream the application never opened or accepted", f))
			return
		}
		st.seenByPeer = true
		end := f.off + int64(len(f.data))
		q.dataFrames++
		if len(f.data) > 0 {
			r.nontrivial = true
		}
		if st.resetSeen && end > st.high {
			r.setViol(vs.Violf("C32", "stream_data_after_reset", "send:data_after_reset:"+st.kind, "conn sent %v beyond the final size %d of its own RESET_STREAM", f, st.high))
		}
		if end > st.written {
			r.setViol(vs.Violf("C19", "sent_unwritten_bytes", "send:unwritten:"+st.kind, "conn sent %v but the application has only written %d bytes", f, st.written))
		} else {
			for i, b := range f.data {
				if b != qpByte(st.id, f.off+int64(i)) {
					r.setViol(vs.Violf("C19", "sent_wrong_bytes", "send:wrong_bytes:"+st.kind, "conn sent %v: byte at offset %d is %#x, the application wrote %#x", f, f.off+int64(i), b, qpByte(st.id, f.off+int64(i))))
					break
				}
			}
		}
		if f.fin {
			st.finSeen = true
		}
		if len(f.data) > 0 && end <= st.high {
			vs.G.Inc("probe.send_retransmission")
		}
		q.judgeOffset(st, end, fmt.Sprint(f), "")
	case debugFrameResetStream:
		st := q.streams[f.id]
		if st == nil || !st.opened {
			r.setViol(vs.Violf("conn", "frame_for_unopened_stream", "send:unopened", "conn sent %v for a stream the application never opened or accepted", f))
			return
		}
		st.seenByPeer = true
		if !st.resetSeen && f.finalSize != st.high {
			r.setViol(vs.Violf("C32", "reset_final_size_mismatch", "send:reset_final_size:"+st.kind, "conn sent %v, the highest offset it had sent is %d", f, st.high))
		}
		if !st.resetSeen {
			st.resetSeen = true
			if st.peerStop && !st.appReset {
				vs.G.Inc("probe.send_reset_after_stop_sending")
			}
		}
		q.judgeOffset(st, f.finalSize, fmt.Sprint(f), ":reset")
	case debugFrameStreamDataBlocked:
		if st := q.streams[f.id]; st != nil {
			st.seenByPeer = true
			vs.G.Inc("probe.send_stream_data_blocked_seen")
		}
	case debugFrameDataBlocked:
		vs.G.Inc("probe.send_data_blocked_seen")
	}
}

// judgeOffset is the C20 safety oracle: the conn has sent (or, with a
// RESET_STREAM, declared) offset end on stream st.
func (q *qsState) judgeOffset(st *qsStream, end int64, frame, suffix string) {
	r := q.r
	if end > st.limit {
		r.setViol(vs.Violf("C20", "sent_beyond_max_stream_data", "send:stream_limit:"+st.kind+":"+st.limitTag()+suffix,
			"conn sent %s: offset %d exceeds the peer's limit %d for this stream (%s stream; initial limit %d; peer's parameters: %v)",
			frame, end, st.limit, st.kind, st.initial, q.tp))
	}
	if end > st.high {
		if end > st.lastLimit && end <= st.limit {
			vs.G.Inc("probe.send_beyond_stale_lower_max_stream_data")
		}
		q.newData += end - st.high
		q.sumHigh += end - st.high
		st.high = end
	}
	if q.sumHigh > q.maxData {
		r.setViol(vs.Violf("C20", "sent_beyond_max_data", "send:conn_limit:"+q.connTag()+suffix,
			"conn sent %s: the sum of the highest offsets over all streams is now %d, the peer's MAX_DATA is %d (%s)", frame, q.sumHigh, q.maxData, q.highs()))
	}
	if st.high == st.limit && st.written > st.limit && !st.atLimit {
		st.atLimit = true
		vs.G.Inc("probe.send_stream_limit_reached." + st.kind)
		if st.kind == "peer-bidi" && q.tp.bidiRemote > q.tp.bidiLocal && st.limit == st.initial {
			// exactly where a bidi_local / bidi_remote mix-up would send too much
			vs.G.Inc("probe.send_peer_bidi_held_at_bidi_local_below_bidi_remote")
		}
	}
	if q.sumHigh == q.maxData && !q.connAtLimit {
		for _, o := range q.order {
			if o.written > o.high && o.limit > o.high {
				q.connAtLimit = true
				vs.G.Inc("probe.send_conn_limit_reached")
				break
			}
		}
	}
}

func (q *qsState) highs() string {
	var sb strings.Builder
	for _, st := range q.order {
		fmt.Fprintf(&sb, "stream %d: %d ", st.id, st.high)
	}
	return strings.TrimSpace(sb.String())
}

// checkClosed: the scripted peer is well behaved, the conn has no reason to close.
func (q *qsState) checkClosed(what string) {
	r := q.r
	if r.closed == nil {
		return
	}
	if r.closed.transport && r.closed.code == errFlowControl {
		r.setViol(vs.Violf("C20", "spurious_flow_control_error", "send:"+what, "after %s the conn sent %v although the fake peer stayed within every limit the conn advertised", what, r.closed))
		return
	}
	r.setViol(vs.Violf("conn", "unexpected_close", "send:"+what, "after %s the conn sent %v", what, r.closed))
}

// ---------------------------------------------------------------------------
// streams

func (q *qsState) connStreams() int {
	n := 0
	for _, st := range q.order {
		if st.opened || st.peerOpened {
			n++
		}
	}
	return n
}

// ensureOpen makes the application hold a handle for the slot's stream: local
// streams are created in order, peer streams are opened by the fake peer (mode
// says with which frame) and accepted.
func (q *qsState) ensureOpen(st *qsStream, op qsOp) bool {
	r := q.r
	if st.opened {
		return true
	}
	if st.kind == "peer-bidi" {
		q.peerOpen(st, op)
		if r.over() {
			return false
		}
		for {
			s, err := r.tc.conn.AcceptStream(canceledContext())
			if err != nil {
				break
			}
			s.SetReadContext(canceledContext())
			s.SetWriteContext(canceledContext())
			ast := q.streams[streamID(s.ID())]
			if ast == nil {
				r.harness = fmt.Sprintf("AcceptStream returned stream %d, which the fake peer never opened", s.ID())
				return false
			}
			ast.app, ast.opened = s, true
			r.tr.Ev("app: AcceptStream -> %d", s.ID())
		}
		if !st.opened {
			r.setViol(vs.Violf("conn", "peer_stream_not_delivered", "send:accept", "stream %d opened by the fake peer was not returned by AcceptStream", st.id))
			return false
		}
		return true
	}
	t := st.id.streamType()
	for q.localOpened[t] <= st.id.num() {
		var s *Stream
		var err error
		if t == bidiStream {
			s, err = r.tc.conn.NewStream(canceledContext())
		} else {
			s, err = r.tc.conn.NewSendOnlyStream(canceledContext())
		}
		if err != nil {
			r.harness = "NewStream: " + err.Error()
			return false
		}
		s.SetReadContext(canceledContext())
		s.SetWriteContext(canceledContext())
		lst := q.streams[streamID(s.ID())]
		if lst == nil {
			r.harness = fmt.Sprintf("NewStream returned unexpected stream id %d", s.ID())
			return false
		}
		lst.app, lst.opened = s, true
		q.localOpened[t]++
		r.drain()
		r.flushLog(fmt.Sprintf("app: new %s stream %d (limit %d)", lst.kind, s.ID(), lst.limit))
	}
	return st.opened
}

// peerOpen: the fake peer opens its bidirectional streams up to st, in order.
func (q *qsState) peerOpen(st *qsStream, op qsOp) {
	r := q.r
	for q.peerOpenedNext <= st.id.num() && !r.over() {
		id := newStreamID(r.b.side.peer(), bidiStream, q.peerOpenedNext)
		pst := q.streams[id]
		q.peerOpenedNext++
		pst.peerOpened = true
		mode := 0
		if pst == st {
			mode = op.b % 4
		}
		switch mode {
		case 0, 1:
			n := 0
			if mode == 1 {
				n = 1 + op.a%3
			}
			f := debugFrameStream{id: id, off: 0, data: qpData(id, 0, n)}
			r.m.apply(id, 0, int64(n), false)
			r.peerSend(f)
			r.flushLog(fmt.Sprintf("peer: opens stream %d with %v (limit for the conn's data: %d)", id, f, pst.limit))
		default:
			// a MAX_STREAM_DATA frame opens the stream as well; its value only counts
			// if it is above the initial limit
			v := q.resolveLimit(qsOp{mode: []int{qsLStale, qsLSmall}[mode-2], a: op.a, far: op.far}, pst.limit, pst.limit)
			q.sendMaxStreamData(pst, v, "opens the stream")
		}
		q.checkClosed("the fake peer opening stream " + fmt.Sprint(int64(id)))
	}
}

func (q *qsState) resolveLimit(op qsOp, cur, target int64) int64 {
	switch op.mode {
	case qsLSmall:
		return cur + 1 + int64(op.a%16)
	case qsLToTarget:
		if target > cur {
			return target
		}
		return cur + 1 + int64(op.a%4)
	case qsLBig:
		return cur + 1 + int64(op.far)
	case qsLStale:
		if cur == 0 {
			return 0
		}
		return int64(op.a) % cur
	case qsLJustBelow:
		return max(0, cur-1-int64(op.a%4))
	}
	return cur
}

func (q *qsState) sendMaxStreamData(st *qsStream, v int64, how string) {
	r := q.r
	was := st.limit
	switch {
	case v < was:
		vs.G.Inc("fault.send_stale_max_stream_data")
	case v == was:
		vs.G.Inc("probe.send_equal_max_stream_data")
	default:
		vs.G.Inc("probe.send_max_stream_data_raised")
		st.limit = v
		st.atLimit = false
	}
	st.lastLimit = v
	f := debugFrameMaxStreamData{id: st.id, max: v}
	r.peerSend(f)
	r.flushLog(fmt.Sprintf("peer: %v %s (limit was %d, now %d; conn has sent %d, application has written %d)", f, how, was, st.limit, st.high, st.written))
}

// ---------------------------------------------------------------------------
// acknowledgements and time

func (q *qsState) unacked() []packetNumber {
	var out []packetNumber
	for _, n := range q.r.sentPn[appDataSpace].sorted() {
		if !q.acked[n] {
			out = append(out, n)
		}
	}
	return out
}

// ack acknowledges the given (really sent) packet numbers.
func (q *qsState) ack(nums []packetNumber, label string) {
	r := q.r
	if len(nums) == 0 {
		return
	}
	rs := qpRanges(nums)
	for i := 0; i < len(rs) && !r.over(); i += 32 {
		chunk := rs[i:min(len(rs), i+32)]
		r.peerSend(debugFrameAck{ranges: chunk})
		for _, n := range qpFlatten(chunk) {
			q.acked[n] = true
		}
		r.flushLog(fmt.Sprintf("peer: ACK %s [%s]", qpRangesString(chunk), label))
	}
	q.checkClosed("a valid ACK")
}

// ackAll acknowledges every packet observed from the lowest unacknowledged one on.
func (q *qsState) ackAll() {
	un := q.unacked()
	if len(un) == 0 {
		return
	}
	var nums []packetNumber
	for _, n := range q.r.sentPn[appDataSpace].sorted() {
		if n >= un[0] {
			nums = append(nums, n)
		}
	}
	q.ack(nums, "all")
}

const qsSlice = 20 * time.Millisecond // shorter than any PTO (max_ack_delay alone is 25ms)

// advance lets simulated time pass. With one stream acknowledgements stay
// withheld (PTO probes fire); with several streams see the file comment.
func (q *qsState) advance(d time.Duration) {
	r := q.r
	if q.advanced+d > 30*time.Second {
		return
	}
	q.advanced += d
	before := len(r.sentPn[appDataSpace])
	if q.connStreams() <= 1 {
		outstanding := len(q.unacked())
		time.Sleep(d)
		r.drain()
		if outstanding > 0 {
			vs.G.Inc("fault.send_acks_withheld_over_time")
			if len(r.sentPn[appDataSpace]) > before {
				vs.G.Inc("probe.send_timer_driven_packets_unacked")
			}
		}
		r.flushLog(fmt.Sprintf("time: +%v (%d packets unacknowledged before)", d, outstanding))
		q.checkClosed("a clock advance")
		return
	}
	d = min(d, 5*qsSlice)
	q.ackAll()
	for rem := d; rem > 0 && !r.over(); rem -= qsSlice {
		step := min(rem, qsSlice)
		time.Sleep(step)
		r.drain()
		r.flushLog(fmt.Sprintf("time: +%v (several streams: everything acknowledged)", step))
		q.ackAll()
	}
	q.checkClosed("a clock advance")
}

// pending returns the streams on which the conn certainly has flushed data to
// send and room for it under both limits. strict: the limits are the maxima the
// fake peer has written (RFC 9000 4.1: lower values are ignored). !strict: a limit
// only counts as far as the LATEST frame for it confirms it, so that an endpoint
// that honours a stale lower MAX_STREAM_DATA / MAX_DATA - over-conservative, but it
// never sends beyond the peer's limit, which is all C20 states - is not accused.
func (q *qsState) pending(strict bool) []*qsStream {
	connLimit := q.maxData
	if !strict {
		connLimit = min(connLimit, q.lastMaxData)
	}
	if connLimit <= q.sumHigh {
		return nil
	}
	var out []*qsStream
	for _, st := range q.order {
		limit := st.limit
		if !strict {
			limit = min(limit, st.lastLimit)
		}
		if st.sendable() && min(st.flushed, limit) > st.high {
			out = append(out, st)
		}
	}
	return out
}

// settle is the bounded-liveness oracle: the application flushes everything;
// then, as long as some stream has flushed data and both limits leave room, the
// fake peer acknowledges everything and time advances in slices. With nothing in
// flight neither the congestion window nor loss recovery can hold data back, so
// a period without any new stream data that is longer than every delay this run
// has imposed (2s + all clock advances so far) means the conn is stuck.
func (q *qsState) settle() {
	r := q.r
	for _, st := range q.order {
		if st.sendable() && !st.appClosed {
			if err := st.app.Flush(); err == nil {
				st.flushed = st.written
			}
		}
	}
	r.drain()
	r.flushLog("app: Flush on every open stream")
	q.checkClosed("Flush")
	idle, need := 0, int((2*time.Second+q.advanced)/qsSlice)
	checked := false
	for iter := 0; !r.over(); iter++ {
		pend := q.pending(true)
		if len(pend) == 0 {
			break
		}
		if !checked {
			checked = true
			vs.G.Inc("probe.send_liveness_waited")
		}
		if iter >= 4000 {
			vs.G.Inc("gen.send_liveness_inconclusive")
			break
		}
		before := q.newData
		q.ackAll()
		if r.over() {
			return
		}
		time.Sleep(qsSlice)
		r.drain()
		if q.newData > before {
			idle = 0
			r.flushLog("settle: +" + qsSlice.String())
			continue
		}
		r.outLog = nil
		idle++
		if idle >= need && len(q.unacked()) == 0 {
			r.tr.Ev("settle: no new stream data for %v", time.Duration(idle)*qsSlice)
			sound := q.pending(false)
			if len(sound) == 0 {
				// stuck only with respect to limits that a later, lower frame "took back"
				vs.G.Inc("foreign_violation.rfc9000_4_1.stalled_after_stale_lower_limit")
				return
			}
			st := sound[0]
			r.setViol(vs.Violf("C20", "blocked_with_credit", "send:blocked_with_credit:"+st.kind,
				"stream %d (%s): the application has flushed %d bytes, the conn has sent up to %d, the peer's stream limit is %d (initial %d, latest MAX_STREAM_DATA value %d), sum over streams %d of MAX_DATA %d (latest value %d); every packet is acknowledged and nothing new was sent for %v",
				st.id, st.kind, st.flushed, st.high, st.limit, st.initial, st.lastLimit, q.sumHigh, q.maxData, q.lastMaxData, time.Duration(idle)*qsSlice))
			return
		}
	}
	if r.over() {
		return
	}
	for _, st := range q.order {
		if st.sendable() && st.flushed > st.high {
			// flushed data held back: by now exactly because a limit is exhausted
			vs.G.Inc("probe.send_settled_at_a_limit")
			break
		}
	}
	q.checkClosed("settling")
}

// ---------------------------------------------------------------------------
// the run

func (q *qsState) step(op qsOp) {
	r := q.r
	st := q.order[op.s]
	switch op.kind {
	case qsWrite:
		if !q.ensureOpen(st, op) {
			return
		}
		data := qpData(st.id, st.written, op.n)
		var got int
		var err error
		if v := vs.Guard("C20", "send:write_panic", func() { got, err = st.app.Write(data) }); v != nil {
			r.setViol(v)
			return
		}
		st.written += int64(got)
		if got < op.n && err != nil && st.sendable() && !st.appClosed {
			vs.G.Inc("probe.send_write_stopped_by_full_buffer")
		}
		flushed := ""
		if op.flush {
			if ferr := st.app.Flush(); ferr == nil {
				st.flushed = st.written
				flushed = "+Flush"
			}
		}
		if st.written > st.limit && !st.beyond && st.sendable() {
			st.beyond = true
			vs.G.Inc("probe.send_written_beyond_stream_limit." + st.kind)
			if st.kind == "peer-bidi" && st.limit == st.initial {
				vs.G.Inc("probe.send_peer_bidi_written_beyond_bidi_local")
			}
		}
		r.drain()
		r.flushLog(fmt.Sprintf("app: Write(%d)%s on stream %d: %d accepted, err=%v (written %d, stream limit %d, sent %d; conn: sum %d of %d)",
			op.n, flushed, st.id, got, err != nil, st.written, st.limit, st.high, q.sumHigh, q.maxData))
	case qsFlush:
		if !q.ensureOpen(st, op) {
			return
		}
		if err := st.app.Flush(); err == nil {
			st.flushed = st.written
		}
		r.drain()
		r.flushLog(fmt.Sprintf("app: Flush stream %d (written %d)", st.id, st.written))
	case qsCloseWrite:
		if !q.ensureOpen(st, op) {
			return
		}
		if st.sendable() && !st.appClosed {
			st.flushed = st.written
		}
		st.appClosed = true
		st.app.CloseWrite()
		r.drain()
		r.flushLog(fmt.Sprintf("app: CloseWrite stream %d at %d", st.id, st.written))
	case qsReset:
		if !q.ensureOpen(st, op) {
			return
		}
		st.appReset = true
		st.app.Reset(uint64(op.a % 7))
		r.drain()
		r.flushLog(fmt.Sprintf("app: Reset stream %d (sent %d)", st.id, st.high))
		vs.G.Inc("probe.send_app_reset")
	case qsAckAll:
		q.ackAll()
	case qsAckSome:
		un := q.unacked()
		if len(un) == 0 {
			return
		}
		var nums []packetNumber
		label := ""
		switch op.mode {
		case 0:
			i := op.a % len(un)
			j := i + op.b%(len(un)-i)
			nums, label = un[i:j+1], "some"
		case 1:
			k := min(len(un)-1, 1+op.a%3)
			nums, label = un[k:], "all_but_oldest"
		default:
			nums, label = un[len(un)-1:], "newest"
		}
		if len(nums) < len(un) {
			vs.G.Inc("fault.send_partial_ack")
		}
		q.ack(append([]packetNumber(nil), nums...), label)
	case qsMaxStreamData:
		if st.kind == "peer-bidi" {
			if !st.peerOpened {
				// opened by this very frame (op.b decides) or by a STREAM frame first
				if !q.ensureOpen(st, op) {
					return
				}
			}
		} else if !st.seenByPeer {
			vs.G.Inc("gen.send_skipped_frame_for_unseen_stream")
			return
		}
		v := q.resolveLimit(op, st.limit, st.written)
		q.sendMaxStreamData(st, v, "["+qsLName[op.mode]+"]")
		q.checkClosed("MAX_STREAM_DATA")
	case qsMaxData:
		var target int64
		for _, o := range q.order {
			target += max(o.written, o.high)
		}
		v := q.resolveLimit(op, q.maxData, target)
		was := q.maxData
		switch {
		case v < was:
			vs.G.Inc("fault.send_stale_max_data")
		case v == was:
			vs.G.Inc("probe.send_equal_max_data")
		default:
			vs.G.Inc("probe.send_max_data_raised")
			q.maxData = v
			q.connAtLimit = false
		}
		q.lastMaxData = v
		f := debugFrameMaxData{max: v}
		r.peerSend(f)
		r.flushLog(fmt.Sprintf("peer: %v [%s] (limit was %d, now %d; sum of highest offsets %d)", f, qsLName[op.mode], was, q.maxData, q.sumHigh))
		q.checkClosed("MAX_DATA")
	case qsStopSending:
		if st.kind == "peer-bidi" {
			if !q.ensureOpen(st, op) {
				return
			}
		} else if !st.seenByPeer {
			vs.G.Inc("gen.send_skipped_frame_for_unseen_stream")
			return
		}
		st.peerStop = true
		f := debugFrameStopSending{id: st.id, code: uint64(op.a % 5)}
		r.peerSend(f)
		r.flushLog(fmt.Sprintf("peer: %v (conn has sent %d of %d written)", f, st.high, st.written))
		vs.G.Inc("fault.send_stop_sending")
		q.checkClosed("STOP_SENDING")
	case qsAdvance:
		q.advance(time.Duration(op.n) * time.Millisecond)
	case qsSettle:
		q.settle()
	}
}

func (r *qpRun) runSendOps(p qsPlan) {
	q := newQsState(r, p)
	r.send = q
	if p.tp.distinct() {
		vs.G.Inc("probe.send_params_pairwise_distinct")
	}
	if p.tp.bidiRemote > p.tp.bidiLocal {
		vs.G.Inc("probe.send_params_bidi_remote_above_bidi_local")
	}
	r.tr.Ev("fake peer's parameters: %v; MaxStreamWriteBufferSize=%d; slots %v", p.tp, p.base.writeBuf, qsSlotsString(p.slots))
	for _, op := range p.ops {
		if r.over() {
			break
		}
		q.step(op)
		if r.closed != nil {
			q.checkClosed(qsKindName[op.kind])
		}
	}
	if !r.over() {
		q.settle()
	}
	if q.dataFrames > 0 {
		vs.G.Add("probe.send_stream_frames_judged", int64(q.dataFrames))
	}
}

func qsSlotsString(slots []qsSlot) string {
	var s []string
	for _, sl := range slots {
		s = append(s, fmt.Sprintf("%s:%d", sl.kind, int64(sl.id)))
	}
	sort.Strings(s)
	return strings.Join(s, ",")
}

func TestVerif_C20_send(t *testing.T) {
	vs.Check(t, func(rt *rapid.T) {
		p := qsDrawPlan(rt)
		tr := vs.NewTrace()
		res := qpExec(t, tr, "C20", p.base, func(r *qpRun) {
			r.registerProbes("probe.send_params_pairwise_distinct", "probe.send_params_bidi_remote_above_bidi_local",
				"probe.send_peer_bidi_written_beyond_bidi_local", "probe.send_peer_bidi_held_at_bidi_local_below_bidi_remote",
				"probe.send_stream_limit_reached.peer-bidi", "probe.send_stream_limit_reached.local-bidi", "probe.send_stream_limit_reached.local-uni",
				"probe.send_conn_limit_reached", "fault.send_stale_max_stream_data", "fault.send_stale_max_data", "probe.send_beyond_stale_lower_max_stream_data",
				"probe.send_max_stream_data_raised", "probe.send_max_data_raised", "probe.send_retransmission",
				"fault.send_acks_withheld_over_time", "probe.send_timer_driven_packets_unacked", "fault.send_partial_ack",
				"fault.send_stop_sending", "probe.send_reset_after_stop_sending", "probe.send_app_reset",
				"probe.send_write_stopped_by_full_buffer", "probe.send_liveness_waited", "probe.send_settled_at_a_limit",
				"probe.send_stream_frames_judged")
			r.runSendOps(p)
		})
		qpFinish(t, rt, "C20", tr, res, func() any {
			return map[string]any{"config": p.base.String(), "peer_parameters": p.tp.String(), "streams": len(p.slots), "ops": len(p.ops), "trace_head": qpTraceHead(tr)}
		})
	})
}
