// Engine h3net: the real HTTP/3 client (transport.dial / clientConn.RoundTrip /
// bodyWriter / bodyReader) and the real HTTP/3 server (server.serve /
// serverConn / responseWriter) over two real quic.Endpoints (public
// quic.NewEndpoint) joined by the simulated datagram network verifsim.PacketNet.
// Callers, request-body readers and handlers are scheduler-driven scripts.
// Property C34 (configurations "clean" and "fault") from this part of the file;
// property C35 (byzantine QUIC peer writing raw HTTP/3 bytes) further down.
//
// The QUIC connection's PRNG, its connection IDs and the TLS key shares cannot be
// seeded from outside package quic, so packet bytes differ between two executions
// of one seed; nothing derived from them enters the trace or an oracle.

package http3

import (
	"bytes"
	"context"
	"crypto/tls"
	"errors"
	"fmt"
	"io"
	"log/slog"
	"net/http"
	"net/netip"
	"net/url"
	"os"
	"runtime"
	"sort"
	"strconv"
	"strings"
	"sync"
	"testing"
	"time"

	vs "golang.org/x/net/internal/verifsim"
	"golang.org/x/net/quic"
	"pgregory.net/rapid"
)

// ---------------------------------------------------------------------------
// shared helpers

// hnAvoid reports whether $VERIF_H3NET_AVOID lists the named workload
// restriction. Restrictions exist only to keep sensitivity runs meaningful while
// a finding on the unchanged tree is open; the registered jobs do not set it.
func hnAvoid(name string) bool {
	for _, a := range strings.Split(os.Getenv("VERIF_H3NET_AVOID"), ",") {
		if a == name {
			return true
		}
	}
	return false
}

type hnRand struct{ s uint64 }

func (r *hnRand) Read(p []byte) (int, error) {
	for i := range p {
		r.s += 0x9e3779b97f4a7c15
		z := r.s
		z = (z ^ (z >> 30)) * 0xbf58476d1ce4e5b9
		z = (z ^ (z >> 27)) * 0x94d049bb133111eb
		p[i] = byte(z >> 56)
	}
	return len(p), nil
}

func hnTLS(server bool, seed uint64) *tls.Config {
	c := &tls.Config{
		InsecureSkipVerify: true,
		MinVersion:         tls.VersionTLS13,
		NextProtos:         []string{"h3"},
		Rand:               &hnRand{s: seed},
		Time:               time.Now,
		CipherSuites:       []uint16{tls.TLS_AES_128_GCM_SHA256, tls.TLS_AES_256_GCM_SHA384, tls.TLS_CHACHA20_POLY1305_SHA256},
	}
	if server {
		c.Certificates = []tls.Certificate{testCert}
	}
	return c
}

type hnQCfg struct {
	streamRead, streamWrite, connRead int64
	maxBidi, maxUni                   int64
	idle                              time.Duration
	keepAlive                         time.Duration
}

func hnEff(v int64) int64 {
	if v == 0 {
		return 1 << 20
	}
	return v
}

func (q hnQCfg) config(server bool, seed uint64, ql *hnQLog) *quic.Config {
	var lg *slog.Logger
	if ql != nil {
		lg = slog.New(ql)
	}
	return &quic.Config{
		QLogLogger:               lg,
		TLSConfig:                hnTLS(server, seed),
		MaxBidiRemoteStreams:     q.maxBidi,
		MaxUniRemoteStreams:      q.maxUni,
		MaxStreamReadBufferSize:  q.streamRead,
		MaxStreamWriteBufferSize: q.streamWrite,
		MaxConnReadBufferSize:    q.connRead,
		HandshakeTimeout:         q.idle,
		MaxIdleTimeout:           q.idle,
		KeepAlivePeriod:          q.keepAlive,
	}
}

func hnDrawQCfg(c vs.Chooser) hnQCfg {
	q := hnQCfg{
		streamRead:  int64(vs.Pick(c, 0, 65536, 16384, 4096, 1200, 1<<20)),
		streamWrite: int64(vs.Pick(c, 0, 65536, 16384, 4096, 1200, 1<<20)),
		connRead:    int64(vs.Pick(c, 0, 65536, 16384, 1<<20, 4096)),
		maxBidi:     int64(vs.Pick(c, 0, 100, 1, 2, 3)),
		maxUni:      int64(vs.Pick(c, 0, 100, 3)),
		idle:        time.Duration(vs.Pick(c, 120, 30, 15)) * time.Second,
	}
	if vs.Pct(c, 10) {
		// KeepAlivePeriod is not used: a connection that enters the closing or
		// draining state keeps its keep-alive deadline, and once that deadline has
		// passed Conn.loop spins (timer "expired", nothing to do) until the drain
		// period ends. With a real clock that is a bounded busy-wait; under the
		// simulated clock, which only advances when every goroutine blocks, it
		// never ends and would be reported as a hang. Observation, see DESIGN 10.2.
		_ = time.Duration(vs.Pick(c, 1, 5)) * time.Second
	}
	return q
}

func hnDrawFaults(c vs.Chooser, faulty bool) vs.PacketFaults {
	var f vs.PacketFaults
	f.Seed = uint64(c.Intn(1<<30)) + 1
	f.BaseLatency = time.Duration(vs.Pick(c, 10, 1, 50, 200)) * time.Millisecond
	f.Jitter = time.Duration(vs.Pick(c, 0, 1, 5, 30)) * time.Millisecond
	if faulty {
		// swarm: each fault kind is enabled independently
		if vs.Bool(c) {
			f.LossPct = vs.Pick(c, 1, 5, 10, 30)
		}
		if vs.Pct(c, 40) {
			f.DupPct = vs.Pick(c, 1, 5, 20)
		}
		if vs.Pct(c, 40) {
			f.ReorderPct = vs.Pick(c, 5, 20, 50)
			f.ReorderMax = time.Duration(vs.Pick(c, 5, 50, 400)) * time.Millisecond
		}
		f.HealAt = time.Duration(vs.Pick(c, 500, 1000, 3000, 5000)) * time.Millisecond
		if f.LossPct+f.DupPct+f.ReorderPct == 0 {
			f.LossPct = vs.Pick(c, 5, 1, 10, 30)
		}
		if vs.Pct(c, 30) {
			// partition (everything sent inside the window is lost), far below the
			// smallest idle timeout used (15 s)
			a := time.Duration(c.Intn(3000)) * time.Millisecond
			f.Partitions = append(f.Partitions, [2]time.Duration{a, a + time.Duration(vs.Pick(c, 100, 500, 2000))*time.Millisecond})
		}
	}
	return f
}

// hnQLog receives the connections' own qlog events (endpoint level only: one
// start and one close event per connection) and keeps why each connection ended.
type hnQLog struct {
	mu      *sync.Mutex
	closed  *[]string // "<vantage>:<trigger>"
	vantage string
}

func newHnQLog() *hnQLog { return &hnQLog{mu: &sync.Mutex{}, closed: &[]string{}} }

func (h *hnQLog) Enabled(_ context.Context, l slog.Level) bool { return l >= quic.QLogLevelEndpoint }
func (h *hnQLog) WithGroup(string) slog.Handler                { return h }
func (h *hnQLog) WithAttrs(attrs []slog.Attr) slog.Handler {
	for _, a := range attrs {
		if a.Key == "vantage_point" {
			for _, g := range a.Value.Group() {
				if g.Key == "type" {
					return &hnQLog{mu: h.mu, closed: h.closed, vantage: g.Value.String()}
				}
			}
		}
	}
	return h
}
func (h *hnQLog) Handle(_ context.Context, r slog.Record) error {
	if r.Message != "connectivity:connection_closed" {
		return nil
	}
	trigger := ""
	r.Attrs(func(a slog.Attr) bool {
		if a.Key == "trigger" {
			trigger = a.Value.String()
		}
		return true
	})
	h.mu.Lock()
	*h.closed = append(*h.closed, h.vantage+":"+trigger)
	h.mu.Unlock()
	return nil
}

// timeoutDeaths lists the connections that ended by idle or handshake timeout.
func (h *hnQLog) timeoutDeaths() []string {
	h.mu.Lock()
	defer h.mu.Unlock()
	var out []string
	for _, c := range *h.closed {
		if strings.HasSuffix(c, ":idle_timeout") || strings.HasSuffix(c, ":handshake_timeout") {
			out = append(out, c)
		}
	}
	return out
}

type hnField struct{ k, v string }

const hnAlnum = "abcdefghijklmnopqrstuvwxyzABCDEFGHIJKLMNOPQRSTUVWXYZ0123456789"

// hnValue returns a valid field value of exactly n bytes (no leading/trailing
// whitespace; inner spaces, punctuation and UTF-8 allowed), a pure function of
// (seed, n).
func hnValue(seed uint32, n int) string {
	if n <= 0 {
		return ""
	}
	b := make([]byte, 0, n)
	x := seed*2654435761 + 0x9e3779b9
	if x == 0 {
		x = 1
	}
	next := func() uint32 {
		x ^= x << 13
		x ^= x >> 17
		x ^= x << 5
		return x
	}
	for len(b) < n {
		r := next()
		rem := n - len(b)
		inner := len(b) > 0 && rem > 1
		switch (r >> 8) % 16 {
		case 0:
			if inner && b[len(b)-1] != ' ' {
				b = append(b, ' ')
				continue
			}
		case 1:
			if rem >= 2 {
				b = append(b, "é"...)
				continue
			}
		case 2:
			if rem >= 3 {
				b = append(b, "日"...)
				continue
			}
		case 3:
			if inner {
				b = append(b, ",;=/()'*~"[r%9])
				continue
			}
		}
		b = append(b, hnAlnum[r%uint32(len(hnAlnum))])
	}
	return string(b)
}

func hnValuePath(seed uint32, n int) string {
	const set = "abcdefghijklmnopqrstuvwxyz0123456789-._~"
	b := make([]byte, n)
	x := seed*40503 + 77
	for i := range b {
		x = x*1664525 + 1013904223
		b[i] = set[(x>>16)%uint32(len(set))]
	}
	if n > 0 && b[0] == '.' {
		b[0] = 'd'
	}
	return string(b)
}

func hnValueQuery(seed uint32, n int) string {
	var parts []string
	for i := 0; i < n; i++ {
		k := hnValuePath(seed+uint32(i)*7, 1+int(seed+uint32(i))%5)
		v := hnValuePath(seed*3+uint32(i), int(seed>>3+uint32(i))%9)
		if (seed+uint32(i))%4 == 0 {
			v += "%20%C3%A9"
		}
		parts = append(parts, k+"="+v)
	}
	return strings.Join(parts, "&")
}

func hnFieldsSize(fs []hnField) int {
	n := 0
	for _, f := range fs {
		n += len(f.k) + len(f.v) + 32
	}
	return n
}

// hnDrawFields generates header fields named prefix<j> (canonical MIME form).
// Values of one name are adjacent in the result.
func hnDrawFields(c vs.Chooser, prefix string, maxFields, budget int, big bool) []hnField {
	var out []hnField
	nf := vs.SizeBiased(c, maxFields, 1, 3)
	used := 0
	key := 0
	for len(out) < nf {
		name := prefix + strconv.Itoa(key)
		key++
		nv := 1
		if vs.Pct(c, 25) {
			nv = vs.Range(c, 2, 4)
		}
		var vals []string
		for j := 0; j < nv && len(out) < nf; j++ {
			var v string
			if len(vals) > 0 && vs.Pct(c, 30) {
				v = vals[c.Intn(len(vals))] // exact duplicate of an earlier value of this name
			} else {
				sz := vs.SizeBiased(c, 160, 0, 1, 64)
				if big && vs.Pct(c, 50) {
					sz = vs.Pick(c, 1100, 3000, 8000, 16000) + c.Intn(200)
				}
				v = hnValue(uint32(c.Intn(1<<16)), sz)
			}
			f := hnField{name, v}
			sz := len(f.k) + len(f.v) + 32
			if used+sz > budget {
				f.v = hnValue(uint32(len(out)), 3)
				sz = len(f.k) + len(f.v) + 32
				if used+sz > budget {
					return out
				}
			}
			used += sz
			vals = append(vals, f.v)
			out = append(out, f)
		}
	}
	return out
}

func hnDrawSizes(c vs.Chooser, n int, choices ...int) []int {
	out := make([]int, n)
	for i := range out {
		out[i] = vs.Pick(c, choices...)
	}
	return out
}

func hnSplit(c vs.Chooser, total, maxParts int) []int {
	if total <= 0 {
		return nil
	}
	parts := vs.Range(c, 1, maxParts)
	var out []int
	rem := total
	for i := 0; i < parts-1 && rem > 1; i++ {
		k := 1 + vs.SizeBiased(c, rem-1, 1, 511, 512, 513, 4096, 16384)
		if k >= rem {
			k = rem - 1
		}
		if k < 1 {
			k = 1
		}
		out = append(out, k)
		rem -= k
	}
	return append(out, rem)
}

func hnMultiset(fs []hnField) map[string][]string {
	m := map[string][]string{}
	for _, f := range fs {
		m[f.k] = append(m[f.k], f.v)
	}
	for _, vv := range m {
		sort.Strings(vv)
	}
	return m
}

// hnOrdered groups values per name keeping their order.
func hnOrdered(fs []hnField) map[string][]string {
	m := map[string][]string{}
	for _, f := range fs {
		m[f.k] = append(m[f.k], f.v)
	}
	return m
}

func hnObserved(h http.Header, prefix string) map[string][]string {
	m := map[string][]string{}
	for k, vv := range h {
		if !strings.HasPrefix(k, prefix) || len(vv) == 0 {
			continue
		}
		c := append([]string(nil), vv...)
		sort.Strings(c)
		m[k] = c
	}
	return m
}

func hnShort(s string) string {
	if len(s) > 40 {
		return fmt.Sprintf("%q…(%d bytes)", s[:40], len(s))
	}
	return strconv.Quote(s)
}

// hnDiff returns "" if the two field multisets are equal.
func hnDiff(exp, got map[string][]string) string {
	keys := map[string]bool{}
	for k := range exp {
		keys[k] = true
	}
	for k := range got {
		keys[k] = true
	}
	var ks []string
	for k := range keys {
		ks = append(ks, k)
	}
	sort.Strings(ks)
	for _, k := range ks {
		e, g := exp[k], got[k]
		if len(e) != len(g) {
			return fmt.Sprintf("field %s: sent %d value(s), observed %d", k, len(e), len(g))
		}
		for i := range e {
			if e[i] != g[i] {
				return fmt.Sprintf("field %s: value %d sent %s, observed %s", k, i, hnShort(e[i]), hnShort(g[i]))
			}
		}
	}
	return ""
}

func hnStack() string {
	buf := make([]byte, 6144)
	return string(buf[:runtime.Stack(buf, false)])
}

// hnConnState classifies the state of a QUIC connection without blocking:
// "alive", "idle_timeout", "handshake_timeout" or "closed: <error>".
func hnConnState(c *quic.Conn) string {
	if c == nil {
		return "none"
	}
	err := c.Wait(canceledCtx)
	switch {
	case err == nil:
		return "closed: peer closed with NO_ERROR"
	case errors.Is(err, context.Canceled):
		return "alive"
	case err.Error() == "idle timeout":
		return "idle_timeout"
	case strings.Contains(err.Error(), "handshake timeout"):
		return "handshake_timeout"
	}
	return "closed: " + err.Error()
}

// hnStuckSig normalises a list of pending tasks ("c1@blocked-in-operation") to
// the kinds of tasks and where they are.
func hnStuckSig(pending []string) string {
	seen := map[string]bool{}
	var out []string
	for _, p := range pending {
		name, where, _ := strings.Cut(p, "@")
		k := strings.TrimRight(name, "0123456789") + "@" + where
		if !seen[k] {
			seen[k] = true
			out = append(out, k)
		}
	}
	sort.Strings(out)
	return strings.Join(out, "+")
}

func hnTimeoutDeath(state string) bool {
	return state == "idle_timeout" || state == "handshake_timeout"
}

// ---------------------------------------------------------------------------
// C34: plan

type hnHOp struct {
	kind string // read, readall, header, write, flush, trailers, sleep
	n    int
	dur  time.Duration
}

type hnReq struct {
	method   string
	path     string // path?query as it must appear in RequestURI
	hdr      []hnField
	hasBody  bool
	body     int   // bytes the body reader produces
	declLen  int64 // Request.ContentLength (0 with a body = undeclared)
	chunks   []int // sizes returned by the body reader, cycled
	stepped  int   // number of leading body reads that are scheduler steps
	eofData  bool  // final chunk is returned together with io.EOF
	trailers []hnField
	trLate   bool // trailer values are set when the body reaches EOF
	reqMis   int  // -1 body shorter than declared, +1 longer, 0 none

	readSizes   []int // caller: response body read sizes, cycled
	readStepped int   // number of leading response reads that are scheduler steps

	status     int
	explicit   bool // handler calls WriteHeader(status) with the generated fields
	rhdr       []hnField
	rbody      int   // bytes the handler tries to write
	rdeclCL    int64 // -1: handler sets no Content-Length
	respMis    int   // -1 handler writes fewer bytes than declared, +1 more, 0 none
	rtrailers  []hnField
	rptrailers []hnField
	trailerHdr []string // values of the Trailer response header
	ops        []hnHOp
	readAll    bool   // the script reads the request body to the end
	mode       string // first, duplex, after, partial
}

type hnPlan struct {
	cfg      string
	cli, srv hnQCfg
	faults   vs.PacketFaults
	randSeed uint64
	noGzip   bool
	reqs     []*hnReq
}

func hnNoBodyStatus(s int) bool { return s == 204 || s == 304 }

func hnDrawPlan(rt *rapid.T, cfg string) *hnPlan {
	c := vs.RapidChooser{T: rt}
	p := &hnPlan{cfg: cfg}
	p.cli, p.srv = hnDrawQCfg(c), hnDrawQCfg(c)
	// One timeout for both endpoints: a server that gives up a handshake the
	// faults have starved (legitimate, counted) is then noticed by the client
	// within the same period instead of at the end of its own, longer one.
	p.srv.idle = p.cli.idle
	p.randSeed = uint64(c.Intn(1 << 30))
	p.noGzip = vs.Bool(c)
	p.faults = hnDrawFaults(c, cfg == "fault")

	// The smallest window on a path bounds the bytes per round trip; keep bodies
	// proportional to it so that a run stays within its step budget.
	upWin := int(min(hnEff(p.srv.streamRead), hnEff(p.srv.connRead), hnEff(p.cli.streamWrite)))
	downWin := int(min(hnEff(p.cli.streamRead), hnEff(p.cli.connRead), hnEff(p.srv.streamWrite)))
	maxBody := 256 << 10
	total := vs.Thorough(320<<10, 1536<<10)
	maxHdr := vs.Thorough(24000, 80000)

	n := vs.Range(c, 1, 6)
	per := total / n
	reqCap := min(maxBody, per, upWin*64)
	respCap := min(maxBody, per, downWin*64)
	hdrUp := min(maxHdr, upWin*24)
	hdrDown := min(maxHdr, downWin*24)
	for i := 0; i < n; i++ {
		q := &hnReq{rdeclCL: -1}
		q.method = vs.Pick(c, "POST", "GET", "PUT", "POST", "PATCH", "GET", "DELETE", "HEAD")
		switch q.method {
		case "GET", "DELETE":
			q.hasBody = vs.Pct(c, 15)
		case "HEAD":
			q.hasBody = false
		default:
			q.hasBody = vs.Pct(c, 90)
		}
		q.path = "/r" + strconv.Itoa(i) + "/" + hnValuePath(uint32(c.Intn(1<<16)), vs.SizeBiased(c, 40, 0, 1))
		if vs.Pct(c, 60) {
			q.path += "?" + hnValueQuery(uint32(c.Intn(1<<16)), vs.Range(c, 0, 3))
		}
		if q.hasBody && vs.Pct(c, 35) {
			q.trailers = hnDrawFields(c, "X-Vf-Tr"+strconv.Itoa(i)+"-", 6, 1500, false)
			q.trLate = vs.Bool(c)
		}
		if vs.Pct(c, 90) {
			q.hdr = hnDrawFields(c, "X-Vf-R"+strconv.Itoa(i)+"-", 40, hdrUp, vs.Pct(c, 25))
		}
		if q.hasBody {
			q.chunks = hnDrawSizes(c, vs.Range(c, 1, 5), 1<<20, 1, 3, 100, 1000, 4096, 16383, 16384, 32768, 65536)
			minChunk := q.chunks[0]
			for _, k := range q.chunks {
				minChunk = min(minChunk, k)
			}
			bcap := min(reqCap, minChunk*600) // every chunk is a DATA frame and a flush
			q.body = min(vs.SizeBiased(c, bcap, 1, 1199, 4096, 16384, 32768, 65536, 262144), bcap)
			if vs.Pct(c, 12) {
				q.body = bcap - c.Intn(min(bcap, 3)+1)/2
			}
			if vs.Pct(c, 50) && q.body > 0 {
				q.declLen = int64(q.body)
			}
			if vs.Bool(c) {
				q.stepped = vs.Range(c, 0, 8)
			}
			q.eofData = vs.Bool(c)
			if q.body > 1 && vs.Pct(c, 8) {
				if vs.Bool(c) {
					q.reqMis = -1
					q.declLen = int64(q.body + vs.Pick(c, 1, 100, 70000)) // declares more than it sends
				} else {
					q.reqMis = 1
					q.declLen = int64(q.body - 1 - c.Intn(min(q.body-1, 100))) // sends more than declared
					if q.declLen == 0 {
						q.declLen, q.reqMis = int64(q.body), 0
					}
				}
			}
		}
		q.readSizes = hnDrawSizes(c, vs.Range(c, 1, 5), 1<<20, 1, 7, 100, 4096, 16384, 65536)
		q.readStepped = vs.Range(c, 0, 6)

		// response
		q.status = vs.Pick(c, 200, 200, 200, 201, 404, 500, 204, 304, 200)
		q.explicit = vs.Pct(c, 85)
		if !q.explicit {
			q.status = 200
		}
		noBody := hnNoBodyStatus(q.status)
		if !noBody || vs.Pct(c, 25) {
			q.rbody = min(vs.SizeBiased(c, respCap, 1, 511, 512, 513, 4096, 16384, 65535, 262144), respCap)
		}
		trailersOK := !noBody && q.method != "HEAD"
		if q.explicit && trailersOK && vs.Pct(c, 35) {
			q.rtrailers = hnDrawFields(c, "X-Vf-Td", 5, 1200, false)
			seen := map[string]bool{}
			var keys []string
			for _, f := range q.rtrailers {
				if !seen[f.k] {
					seen[f.k] = true
					keys = append(keys, f.k)
				}
			}
			if vs.Bool(c) {
				q.trailerHdr = []string{strings.Join(keys, ", ")}
			} else {
				q.trailerHdr = keys
			}
		}
		if trailersOK && vs.Pct(c, 25) {
			q.rptrailers = hnDrawFields(c, "X-Vf-Tp", 4, 1200, false)
		}
		if q.explicit {
			if vs.Pct(c, 85) {
				q.rhdr = hnDrawFields(c, "X-Vf-S", 40, hdrDown, vs.Pct(c, 25))
			}
			if !noBody && vs.Pct(c, 35) {
				q.rdeclCL = int64(q.rbody)
				if vs.Pct(c, 30) {
					if vs.Bool(c) || q.rbody == 0 {
						q.respMis = -1
						q.rdeclCL = int64(q.rbody + vs.Pick(c, 1, 2, 100, 5000)) // handler writes fewer bytes than declared
					} else {
						q.respMis = 1
						q.rdeclCL = int64(q.rbody - 1 - c.Intn(min(q.rbody, 100))) // handler writes more than declared
						if q.rdeclCL < 0 {
							q.rdeclCL = 0
						}
					}
				}
			}
		}

		// handler script
		var reads, resp []hnHOp
		mode := vs.Pick(c, "first", "first", "duplex", "first", "after", "partial", "first", "duplex")
		q.mode = mode
		q.readAll = mode != "partial"
		for j, k := 0, vs.Range(c, 0, 3); j < k; j++ {
			reads = append(reads, hnHOp{kind: "read", n: vs.Pick(c, 1, 10, 1000, 4096, 16384, 70000)})
		}
		if q.readAll {
			reads = append(reads, hnHOp{kind: "readall", n: vs.Pick(c, 1<<16, 1, 100, 4096, 16384)})
		}
		if q.explicit {
			resp = append(resp, hnHOp{kind: "header"})
			if vs.Pct(c, 30) {
				resp = append(resp, hnHOp{kind: "flush"})
			}
		}
		ws := hnSplit(c, q.rbody, 6)
		for j, w := range ws {
			resp = append(resp, hnHOp{kind: "write", n: w})
			if vs.Pct(c, 35) && !(j == len(ws)-1 && vs.Bool(c)) {
				resp = append(resp, hnHOp{kind: "flush"})
			}
		}
		if len(q.rtrailers)+len(q.rptrailers) > 0 {
			resp = append(resp, hnHOp{kind: "trailers"})
			if vs.Pct(c, 20) {
				resp = append(resp, hnHOp{kind: "flush"})
			}
		}
		switch mode {
		case "first", "partial":
			q.ops = append(reads, resp...)
		case "after":
			q.ops = append(resp, reads...)
		case "duplex":
			for len(reads) > 0 || len(resp) > 0 {
				if len(resp) == 0 || (len(reads) > 0 && vs.Bool(c)) {
					q.ops = append(q.ops, reads[0])
					reads = reads[1:]
				} else {
					q.ops = append(q.ops, resp[0])
					resp = resp[1:]
				}
			}
		}
		if vs.Pct(c, 15) {
			at := c.Intn(len(q.ops) + 1)
			ops := append([]hnHOp{}, q.ops[:at]...)
			ops = append(ops, hnHOp{kind: "sleep", dur: time.Duration(vs.Pick(c, 1, 10, 100, 1000, 3000)) * time.Millisecond})
			q.ops = append(ops, q.ops[at:]...)
		}
		p.reqs = append(p.reqs, q)
	}
	return p
}

func hnReqByte(idx int, off int64) byte {
	return byte(((uint32(off) + uint32(idx+1)<<22) * 2654435761) >> 24)
}

func hnRespByte(idx int, off int64) byte {
	return byte((((uint32(off) ^ 0x5a5a5a5a) + uint32(idx+1)<<21) * 2246822519) >> 24)
}

// ---------------------------------------------------------------------------
// C34: run state

type hnReqState struct {
	// caller side
	cStarted bool
	cDone    bool
	cClosed  bool // the caller has closed (or is closing) the response body
	cFailed  bool // RoundTrip returned an error
	gotResp  bool
	cRead    int64
	log      []string
	// handler side
	hCount    int
	hStarted  bool
	hDone     bool
	hHeader   bool // the "header" op was executed
	hTrailers bool // the "trailers" op was executed
	hRead     int64
	hWrote    int64 // bytes accepted by ResponseWriter.Write
	hErrCL    bool  // a Write returned http.ErrContentLength
}

type hnRun struct {
	p   *hnPlan
	sim *vs.Sim
	tr  *vs.Trace
	ctx context.Context

	mu       sync.Mutex
	reqs     []*hnReqState
	viol     *vs.Violation
	ending   bool
	cc       *clientConn
	dialErr  error
	dialDone bool
	okResp   int
	nfaults  int
	qlog     *hnQLog
	// idleDeaths: operations that failed because the connection idled out
	// although its whole idle period lay after the heal (see excused)
	idleDeaths []string
}

func (r *hnRun) setViol(v *vs.Violation) {
	if v == nil {
		return
	}
	r.mu.Lock()
	if r.viol == nil && !r.ending {
		r.viol = v
	}
	r.mu.Unlock()
	r.sim.Wake()
}

func (r *hnRun) logf(i int, format string, args ...any) {
	r.mu.Lock()
	if len(r.reqs[i].log) < 60 {
		r.reqs[i].log = append(r.reqs[i].log, fmt.Sprintf(format, args...))
	}
	r.mu.Unlock()
}

// connState is the state of the connection: "alive", "none", "idle_timeout" /
// "handshake_timeout" if either endpoint's connection ended that way (from the
// connections' own close events), else "closed: ...".
func (r *hnRun) connState() string {
	if d := r.qlog.timeoutDeaths(); len(d) > 0 {
		return d[0][strings.IndexByte(d[0], ':')+1:]
	}
	r.mu.Lock()
	cc := r.cc
	r.mu.Unlock()
	if cc == nil {
		return "none"
	}
	return hnConnState(cc.qconn)
}

// excused reports whether an error on request i is an outcome the property
// allows: the run is being torn down, the connection died of a timeout (counted,
// not judged), the request's own body disagrees with its declared length (the
// client aborts the exchange), the handler answered without reading the whole
// request body (the server then stops the upload and this client gives up the
// exchange), or the caller has already closed the response body.
func (r *hnRun) excused(i int, side string) (bool, string) {
	q := r.p.reqs[i]
	r.mu.Lock()
	ending, closed := r.ending, r.reqs[i].cClosed
	r.mu.Unlock()
	switch {
	case ending:
		return true, "teardown"
	case q.reqMis != 0:
		return true, "request_length_mismatch"
	case !q.readAll && side != "handler":
		return true, "early_answer"
	case side == "handler" && closed:
		return true, "caller_closed"
	case side == "read" && q.respMis < 0:
		return true, "response_shorter_than_declared"
	case side == "read" && q.respMis > 0:
		// (this server cuts the overlong write at the declared length; a reader
		// that instead sees the excess and reports it is equally fine)
		return true, "response_longer_than_declared"
	}
	if st := r.connState(); hnTimeoutDeath(st) && r.p.cfg != "clean" {
		vs.G.Inc("run.conn_died_" + st)
		// An idle timeout whose whole idle period lies after the heal is judged like
		// one on the fault-free network (see the clean configuration): both
		// endpoints were alive, an operation was pending, and the scripts never
		// pause that long.
		// Only with the 2-minute idle timeout: a PTO that loss before the heal has
		// backed off beyond a 15 s or 30 s idle timeout lets the peer idle out
		// before the next probe, which is what RFC 9002 and 9000 10.1 allow; the
		// faults end after at most 5 s, so the back-off cannot come near 2 minutes.
		if at := r.sim.Elapsed(); st == "idle_timeout" && r.p.cli.idle >= 2*time.Minute && at >= r.p.faults.HealAt+r.p.cli.idle {
			r.mu.Lock()
			r.idleDeaths = append(r.idleDeaths, fmt.Sprintf("request %d (%s) at %v", i, side, at))
			r.mu.Unlock()
		}
		return true, st
	}
	return false, ""
}

// ---------------------------------------------------------------------------
// C34: request body reader (simulator-owned)

var errHnBodyClosed = errors.New("vf: request body closed")

type hnBody struct {
	r   *hnRun
	idx int
	q   *hnReq
	tk  *vs.Task
	req *http.Request

	mu     sync.Mutex
	off    int
	ci     int
	closed bool
	eof    bool
	fin    bool
	inStep bool // a Read is parked in Step: only that Read may finish the task
}

func (b *hnBody) finish() {
	if !b.fin {
		b.fin = true
		b.tk.Finish()
	}
}

func (b *hnBody) Close() error {
	b.mu.Lock()
	b.closed = true
	if !b.inStep {
		b.finish()
	}
	b.mu.Unlock()
	return nil
}

func (b *hnBody) Read(p []byte) (n int, err error) {
	defer func() {
		if rec := recover(); rec != nil {
			if !vs.IsAbort(rec) {
				panic(rec)
			}
			b.mu.Lock()
			b.closed = true
			b.inStep = false
			b.finish()
			b.mu.Unlock()
			n, err = 0, errHnBodyClosed
		}
	}()
	b.mu.Lock()
	if b.closed {
		b.mu.Unlock()
		return 0, errHnBodyClosed
	}
	if b.eof {
		b.mu.Unlock()
		return 0, io.EOF
	}
	stepped := b.ci < b.q.stepped && b.off < b.q.body && len(p) > 0
	b.inStep = stepped
	b.mu.Unlock()
	if len(p) == 0 {
		return 0, nil
	}
	if stepped {
		b.tk.Step("body")
	}
	b.mu.Lock()
	defer b.mu.Unlock()
	b.inStep = false
	if b.closed {
		b.finish()
		return 0, errHnBodyClosed
	}
	q := b.q
	k := len(p)
	if len(q.chunks) > 0 {
		k = min(k, q.chunks[b.ci%len(q.chunks)])
	}
	b.ci++
	k = min(k, q.body-b.off)
	for i := 0; i < k; i++ {
		p[i] = hnReqByte(b.idx, int64(b.off+i))
	}
	b.off += k
	if b.off >= q.body && (q.eofData || k == 0) {
		b.eof = true
		if q.trLate {
			for key, vv := range hnOrdered(q.trailers) {
				b.req.Trailer[key] = vv
			}
		}
		if q.eofData && k > 0 {
			vs.G.Inc("probe.req_eof_with_data")
		}
		b.finish()
		return k, io.EOF
	}
	return k, nil
}

// ---------------------------------------------------------------------------
// C34: caller

func (r *hnRun) caller(i int) func(tk *vs.Task) {
	return func(tk *vs.Task) {
		q := r.p.reqs[i]
		rs := r.reqs[i]
		defer func() {
			r.mu.Lock()
			rs.cDone = true
			r.mu.Unlock()
		}()
		tk.Step("roundtrip")
		ctx, cancel := context.WithCancel(r.ctx)
		defer cancel()
		u, err := url.Parse("https://vf.test" + q.path)
		if err != nil {
			panic("vf harness: bad generated url: " + err.Error())
		}
		req := (&http.Request{Method: q.method, URL: u, Host: "vf.test", Header: http.Header{}, Proto: "HTTP/3.0", ProtoMajor: 3}).WithContext(ctx)
		for k, vv := range hnOrdered(q.hdr) {
			req.Header[k] = vv
		}
		if q.hasBody {
			body := &hnBody{r: r, idx: i, q: q, req: req}
			body.tk = r.sim.Attach(fmt.Sprintf("b%d", i))
			req.Body = body
			req.ContentLength = q.declLen
			if len(q.trailers) > 0 {
				req.Trailer = http.Header{}
				for k, vv := range hnOrdered(q.trailers) {
					if q.trLate {
						req.Trailer[k] = nil
					} else {
						req.Trailer[k] = vv
					}
				}
			}
			defer body.Close() // a RoundTrip that fails before the body goroutine starts leaves the body untouched
		}
		r.mu.Lock()
		rs.cStarted = true
		cc := r.cc
		r.mu.Unlock()
		if q.reqMis != 0 {
			vs.G.Inc("fault.req_declared_length_mismatch")
		}
		res, err := cc.RoundTrip(req)
		if err != nil {
			r.mu.Lock()
			rs.cFailed = true
			r.mu.Unlock()
			ok, why := r.excused(i, "roundtrip")
			r.logf(i, "c%d: roundtrip error (%s): %v", i, why, err)
			if !ok {
				r.setViol(vs.Violf("C34", "roundtrip_error", "resp:roundtrip_error", "request %d (%s %s): RoundTrip failed although the request is well-formed and the connection is %s: %v", i, q.method, q.path, r.connState(), err))
			} else {
				vs.G.Inc("run.roundtrip_error_" + why)
			}
			return
		}
		closeBody := func() {
			r.mu.Lock()
			rs.cClosed = true
			r.mu.Unlock()
			res.Body.Close()
		}
		if os.Getenv("VERIF_H3NET_DUMP_AT") != "" {
			if tb, ok := res.Body.(*transportResponseBody); ok {
				hbDebugStreams = append(hbDebugStreams, (*roundTripState)(tb).st.stream)
			}
		}
		r.mu.Lock()
		rs.gotResp = true
		hHeader, hStarted := rs.hHeader, rs.hStarted
		r.mu.Unlock()
		r.logf(i, "c%d: response %d", i, res.StatusCode)
		if !hStarted {
			r.setViol(vs.Violf("C34", "response_without_handler", "resp:no_handler", "request %d: response %d received but the handler never ran", i, res.StatusCode))
			closeBody()
			return
		}
		// status and header fields: exactly what the handler set (a handler that
		// did not reach its WriteHeader answers an implicit 200 without fields)
		wantStatus, wantHdr := 200, []hnField(nil)
		if hHeader {
			wantStatus, wantHdr = q.status, q.rhdr
		}
		if res.StatusCode != wantStatus {
			r.setViol(vs.Violf("C34", "response_status", "resp:status", "request %d: handler answered %d, client received %d", i, wantStatus, res.StatusCode))
			closeBody()
			return
		}
		if d := hnDiff(hnMultiset(wantHdr), hnObserved(res.Header, "X-Vf-")); d != "" {
			r.setViol(vs.Violf("C34", "response_headers", "resp:headers", "request %d: response header fields differ: %s", i, d))
			closeBody()
			return
		}
		if len(wantHdr) > 0 {
			vs.G.Inc("probe.resp_headers_checked")
		}
		// body
		bufLen := 1
		for _, k := range q.readSizes {
			bufLen = max(bufLen, min(k, 1<<16))
		}
		buf := make([]byte, bufLen)
		var total int64
		nread := 0
		var rerr error
		for {
			if nread < q.readStepped {
				tk.Step("read")
			}
			k := min(len(buf), q.readSizes[nread%len(q.readSizes)])
			nread++
			n, err := res.Body.Read(buf[:k])
			for j := 0; j < n; j++ {
				if buf[j] != hnRespByte(i, total+int64(j)) {
					r.setViol(vs.Violf("C34", "response_body_bytes", "resp:body_byte", "request %d: response body byte at offset %d is %#x, the handler wrote %#x", i, total+int64(j), buf[j], hnRespByte(i, total+int64(j))))
					closeBody()
					return
				}
			}
			total += int64(n)
			r.mu.Lock()
			rs.cRead = total
			hWrote := rs.hWrote
			r.mu.Unlock()
			if hHeader && q.rdeclCL >= 0 && q.method != "HEAD" && total > q.rdeclCL {
				r.setViol(vs.Violf("C34", "response_body_extra", "resp:beyond_declared_cl", "request %d: response declared Content-Length %d but the client has read %d body bytes", i, q.rdeclCL, total))
				closeBody()
				return
			}
			if total > hWrote && n > 0 {
				// (hWrote is advanced before the bytes are handed to Write)
				r.setViol(vs.Violf("C34", "response_body_extra", "resp:more_than_written", "request %d: client has read %d body bytes, the handler has written only %d", i, total, hWrote))
				closeBody()
				return
			}
			if err != nil {
				rerr = err
				break
			}
			if n == 0 && k > 0 {
				vs.G.Inc("probe.resp_zero_read")
			}
		}
		r.logf(i, "c%d: body %d bytes, err=%v", i, total, rerr)
		r.mu.Lock()
		hDone, hWrote, hTrailers, hErrCL := rs.hDone, rs.hWrote, rs.hTrailers, rs.hErrCL
		r.mu.Unlock()
		if rerr != io.EOF {
			ok, why := r.excused(i, "read")
			if !ok {
				r.setViol(vs.Violf("C34", "response_body_error", "resp:read_error", "request %d: reading the response body failed after %d bytes although nothing is wrong with the exchange (connection %s): %v", i, total, r.connState(), rerr))
			} else {
				vs.G.Inc("run.read_error_" + why)
				if why == "response_shorter_than_declared" {
					vs.G.Inc("probe.short_response_reported")
				}
			}
			tk.Step("close")
			closeBody()
			return
		}
		// clean EOF: the body must be complete
		bodyless := q.method == "HEAD" || (hHeader && hnNoBodyStatus(q.status))
		if bodyless {
			if total != 0 {
				r.setViol(vs.Violf("C34", "response_body_length", "resp:bodyless_body", "request %d: %s response with status %d carried %d body bytes", i, q.method, res.StatusCode, total))
			} else {
				vs.G.Inc("probe.bodyless_exchange")
				r.mu.Lock()
				r.okResp++
				r.mu.Unlock()
			}
			tk.Step("close")
			closeBody()
			return
		}
		declared := int64(-1)
		if hHeader {
			declared = q.rdeclCL
		}
		if declared >= 0 && total != declared {
			r.setViol(vs.Violf("C34", "declared_length_clean_eof", "resp:declared_cl_clean_eof", "request %d: response declared Content-Length %d but the body ended with a clean EOF after %d bytes", i, declared, total))
			closeBody()
			return
		}
		if declared != 0 && !hDone {
			// (a response with Content-Length: 0 is complete with its header)
			r.setViol(vs.Violf("C34", "response_eof_before_handler_end", "resp:eof_early", "request %d: response body ended with a clean EOF after %d bytes but the handler has not returned", i, total))
			closeBody()
			return
		}
		if declared != 0 && total != hWrote {
			r.setViol(vs.Violf("C34", "response_body_length", "resp:body_length", "request %d: handler wrote %d body bytes (Write results), client read %d before a clean EOF", i, hWrote, total))
			closeBody()
			return
		}
		if q.respMis > 0 && hDone && !hErrCL && hHeader {
			r.setViol(vs.Violf("C34", "overlong_write_accepted", "resp:overlong_write_accepted", "request %d: handler declared Content-Length %d and wrote %d bytes without any Write reporting an error", i, q.rdeclCL, q.rbody))
			closeBody()
			return
		}
		// trailers
		var wantTr []hnField
		if hTrailers {
			wantTr = append(append(wantTr, q.rtrailers...), q.rptrailers...)
		}
		if declared == 0 {
			// no body reader: trailers are not delivered for an empty declared body
			wantTr = nil
		}
		if d := hnDiff(hnMultiset(wantTr), hnObserved(res.Trailer, "X-Vf-")); d != "" && declared != 0 {
			r.setViol(vs.Violf("C34", "response_trailers", "resp:trailers", "request %d: response trailers differ: %s", i, d))
			closeBody()
			return
		}
		if len(wantTr) > 0 {
			vs.G.Inc("probe.resp_trailers_checked")
		}
		r.mu.Lock()
		r.okResp++
		r.mu.Unlock()
		vs.G.Inc("probe.exchange_complete")
		if total >= 64<<10 {
			vs.G.Inc("probe.resp_body_ge_64k")
		}
		if q.respMis > 0 {
			vs.G.Inc("probe.overlong_response_truncated_at_cl")
		}
		tk.Step("close")
		closeBody()
	}
}

// ---------------------------------------------------------------------------
// C34: handler

func (r *hnRun) handler(w http.ResponseWriter, req *http.Request) {
	idx := -1
	if p := req.URL.Path; strings.HasPrefix(p, "/r") {
		if j := strings.IndexByte(p[2:], '/'); j > 0 {
			if v, err := strconv.Atoi(p[2 : 2+j]); err == nil {
				idx = v
			}
		}
	}
	if idx < 0 || idx >= len(r.reqs) {
		r.setViol(vs.Violf("C34", "unknown_request_in_handler", "req:unknown", "handler invoked for a request the client never sent: %s %s", req.Method, req.RequestURI))
		return
	}
	q := r.p.reqs[idx]
	rs := r.reqs[idx]
	r.mu.Lock()
	rs.hCount++
	dup := rs.hCount > 1
	rs.hStarted = true
	cStarted := rs.cStarted
	r.mu.Unlock()
	if dup {
		r.setViol(vs.Violf("C34", "request_duplicated", "req:duplicate", "request %d reached the handler twice", idx))
		return
	}
	if !cStarted {
		r.setViol(vs.Violf("C34", "unknown_request_in_handler", "req:not_sent", "handler invoked for request %d which the client has not sent", idx))
		return
	}
	if os.Getenv("VERIF_H3NET_DUMP_AT") != "" {
		if br, ok := req.Body.(*bodyReader); ok {
			hbDebugStreams = append(hbDebugStreams, br.st.stream)
		}
	}
	tk := r.sim.Attach(fmt.Sprintf("h%d", idx))
	defer func() {
		rec := recover()
		r.mu.Lock()
		rs.hDone = true
		r.mu.Unlock()
		tk.Finish()
		if rec != nil && !vs.IsAbort(rec) {
			r.setViol(vs.Violf("C34", "panic", "handler_side_panic", "panic in handler %d inside the code under test: %v\n%s", idx, rec, hnStack()))
		}
	}()

	// --- the request as the handler sees it
	if req.Method != q.method {
		r.setViol(vs.Violf("C34", "request_method", "req:method", "request %d: sent method %q, handler sees %q", idx, q.method, req.Method))
		return
	}
	if req.RequestURI != q.path || req.URL.RequestURI() != q.path {
		r.setViol(vs.Violf("C34", "request_path", "req:path", "request %d: sent :path %q, handler sees RequestURI %q URL %q", idx, q.path, req.RequestURI, req.URL.RequestURI()))
		return
	}
	if d := hnDiff(hnMultiset(q.hdr), hnObserved(req.Header, "X-Vf-")); d != "" {
		r.setViol(vs.Violf("C34", "request_headers", "req:headers", "request %d: request header fields differ: %s", idx, d))
		return
	}
	if len(q.hdr) > 0 {
		vs.G.Inc("probe.req_headers_checked")
	}
	wantCL := int64(-1)
	switch {
	case q.hasBody && q.declLen > 0:
		wantCL = q.declLen
	case !q.hasBody && (q.method == "POST" || q.method == "PUT" || q.method == "PATCH"):
		wantCL = 0
	}
	if q.hasBody && req.ContentLength != wantCL {
		r.setViol(vs.Violf("C34", "request_content_length", "req:content_length", "request %d: client declared ContentLength %d, handler sees %d", idx, wantCL, req.ContentLength))
		return
	}
	w.Header().Set("Content-Type", "application/octet-stream")

	bufLen := 1
	for _, op := range q.ops {
		if op.kind == "read" || op.kind == "readall" {
			bufLen = max(bufLen, min(op.n, 1<<16))
		}
	}
	buf := make([]byte, bufLen)
	var respOff int64
	sawEOF := false
	// the body the handler may see: never more than the client sent, never more
	// than it declared
	limit := int64(q.body)
	if q.declLen > 0 {
		limit = min(limit, q.declLen)
	}
	readOnce := func(n int) error {
		n = max(1, min(n, len(buf)))
		m, err := req.Body.Read(buf[:n])
		r.mu.Lock()
		off := rs.hRead
		r.mu.Unlock()
		for j := 0; j < m; j++ {
			if off+int64(j) >= limit {
				r.setViol(vs.Violf("C34", "request_body_extra", "req:body_extra", "request %d: handler read more than %d body bytes (client sent %d, declared %d)", idx, limit, q.body, q.declLen))
				return errors.New("vf: stop")
			}
			if buf[j] != hnReqByte(idx, off+int64(j)) {
				r.setViol(vs.Violf("C34", "request_body_bytes", "req:body_byte", "request %d: handler read %#x at body offset %d, the client sent %#x", idx, buf[j], off+int64(j), hnReqByte(idx, off+int64(j))))
				return errors.New("vf: stop")
			}
		}
		r.mu.Lock()
		rs.hRead += int64(m)
		total := rs.hRead
		r.mu.Unlock()
		if err == io.EOF && !sawEOF {
			sawEOF = true
			if q.declLen > 0 && total != q.declLen {
				r.setViol(vs.Violf("C34", "declared_length_clean_eof", "req:declared_cl_clean_eof", "request %d: client declared Content-Length %d (body reader produced %d bytes) but the handler's body ended with a clean EOF after %d bytes", idx, q.declLen, q.body, total))
				return err
			}
			if total != int64(q.body) {
				r.setViol(vs.Violf("C34", "request_body_length", "req:body_short_eof", "request %d: client sent %d body bytes, handler read %d before a clean EOF", idx, q.body, total))
				return err
			}
			if d := hnDiff(hnMultiset(q.trailers), hnObserved(req.Trailer, "X-Vf-")); d != "" {
				r.setViol(vs.Violf("C34", "request_trailers", "req:trailers", "request %d: request trailers differ: %s", idx, d))
				return err
			}
			if len(q.trailers) > 0 {
				vs.G.Inc("probe.req_trailers_checked")
			}
			if q.hasBody {
				vs.G.Inc("probe.req_body_complete")
				if q.body >= 64<<10 {
					vs.G.Inc("probe.req_body_ge_64k")
				}
			}
		} else if err != nil && err != io.EOF {
			if ok, why := r.excused(idx, "handler"); !ok {
				r.setViol(vs.Violf("C34", "request_body_error", "req:read_error", "request %d: reading the request body failed after %d of %d bytes although nothing is wrong with the exchange (connection %s): %v", idx, total, q.body, r.connState(), err))
			} else {
				vs.G.Inc("run.handler_read_error_" + why)
				if why == "request_length_mismatch" {
					vs.G.Inc("probe.request_mismatch_reported")
				}
			}
		}
		return err
	}
	for _, op := range q.ops {
		tk.Step(op.kind)
		switch op.kind {
		case "read":
			err := readOnce(op.n)
			r.logf(idx, "h%d: read -> %d err=%v", idx, rs.hRead, err)
		case "readall":
			var err error
			for err == nil {
				err = readOnce(op.n)
			}
			r.logf(idx, "h%d: readall -> %d err=%v", idx, rs.hRead, err)
		case "header":
			h := w.Header()
			for _, f := range q.rhdr {
				h.Add(f.k, f.v)
			}
			if len(q.trailerHdr) > 0 {
				h["Trailer"] = append([]string(nil), q.trailerHdr...)
			}
			if q.rdeclCL >= 0 {
				h.Set("Content-Length", strconv.FormatInt(q.rdeclCL, 10))
				if q.respMis != 0 {
					vs.G.Inc("fault.resp_declared_length_mismatch")
				}
			}
			r.mu.Lock()
			rs.hHeader = true
			r.mu.Unlock()
			w.WriteHeader(q.status)
			r.logf(idx, "h%d: header %d", idx, q.status)
		case "write":
			b := make([]byte, op.n)
			for j := range b {
				b[j] = hnRespByte(idx, respOff+int64(j))
			}
			// the bytes may reach the client before Write returns: account for
			// them first, correct afterwards
			r.mu.Lock()
			rs.hWrote = respOff + int64(len(b))
			r.mu.Unlock()
			n, err := w.Write(b)
			respOff += int64(n)
			r.mu.Lock()
			rs.hWrote = respOff
			if errors.Is(err, http.ErrContentLength) {
				rs.hErrCL = true
			}
			r.mu.Unlock()
			if errors.Is(err, http.ErrContentLength) {
				vs.G.Inc("probe.handler_errcontentlength")
			}
			r.logf(idx, "h%d: write %d -> %d err=%v", idx, op.n, n, err)
		case "flush":
			w.(http.Flusher).Flush()
		case "trailers":
			h := w.Header()
			for _, f := range q.rtrailers {
				h.Add(f.k, f.v)
			}
			for _, f := range q.rptrailers {
				h.Add(http.TrailerPrefix+f.k, f.v)
			}
			r.mu.Lock()
			rs.hTrailers = true
			r.mu.Unlock()
		case "sleep":
			time.Sleep(op.dur)
		}
	}
}

// ---------------------------------------------------------------------------
// C34: one run

var hnC34Probes = []string{"probe.exchange_complete", "probe.req_headers_checked", "probe.resp_headers_checked", "probe.req_trailers_checked",
	"probe.resp_trailers_checked", "probe.req_body_complete", "probe.req_body_ge_64k", "probe.resp_body_ge_64k", "probe.req_eof_with_data",
	"probe.short_response_reported", "probe.request_mismatch_reported", "probe.handler_errcontentlength", "probe.overlong_response_truncated_at_cl",
	"probe.bodyless_exchange"}

func hnRunC34(t *testing.T, rt *rapid.T) {
	cfg := vs.Config()
	p := hnDrawPlan(rt, cfg)
	tape := vs.DrawTape(rt, 4000)
	tr := vs.NewTrace()
	var viol *vs.Violation
	var simDur time.Duration
	var harness string
	nontrivial := false
	for _, name := range hnC34Probes {
		vs.G.Add(name, 0)
	}
	deadlock := vs.Bubble(t, func() {
		sim := vs.NewSim(tape, tr)
		sim.MaxSteps = vs.Thorough(14000, 60000)
		// Liveness budget after the heal: 2 minutes plus three times the round
		// trips that the smallest flow-control window on each path forces on the
		// generated volume (a 4 KiB window at 200 ms latency moves ~10 KB/s: slow
		// is not stuck).
		liveBudget := 120 * time.Second
		{
			upWin := min(hnEff(p.srv.streamRead), hnEff(p.srv.connRead), hnEff(p.cli.streamWrite))
			downWin := min(hnEff(p.cli.streamRead), hnEff(p.cli.connRead), hnEff(p.srv.streamWrite))
			rounds := int64(0)
			for _, q := range p.reqs {
				rounds += int64(q.body)/int64(upWin) + int64(q.rbody)/int64(downWin) + 6
			}
			rtt := 2*(p.faults.BaseLatency+p.faults.Jitter) + 60*time.Millisecond
			liveBudget += 3 * time.Duration(rounds) * rtt
		}
		sim.Horizon = p.faults.HealAt + liveBudget
		ctx, cancel := context.WithCancel(context.Background())
		r := &hnRun{p: p, sim: sim, tr: tr, ctx: ctx}
		for range p.reqs {
			r.reqs = append(r.reqs, &hnReqState{})
		}
		pnet := vs.NewPacketNet(sim, p.faults)
		pnet.DecideOverride = func(from, to netip.AddrPort, seq uint64, b []byte, f vs.Fate) vs.Fate {
			if f.Drop || f.Dup || f.Extra > 0 {
				r.mu.Lock()
				r.nfaults++
				r.mu.Unlock()
			}
			return f
		}
		srvNode, cliNode := pnet.Node("10.0.0.1:443"), pnet.Node("10.0.0.2:5000")
		r.qlog = newHnQLog()
		srvCfg, cliCfg := p.srv.config(true, p.randSeed*2+2, r.qlog), p.cli.config(false, p.randSeed*2+1, r.qlog)
		srvEP, err1 := quic.NewEndpoint(srvNode, srvCfg)
		cliEP, err2 := quic.NewEndpoint(cliNode, nil)
		if err1 != nil || err2 != nil {
			harness = fmt.Sprint("endpoint: ", err1, err2)
			cancel()
			return
		}
		f := &p.faults
		tr.Ev("plan C34 cfg=%s cli=%+v srv=%+v gzip=%v faults={lat=%v jit=%v loss=%d dup=%d reo=%d/%v heal=%v part=%v} reqs=%d",
			cfg, p.cli, p.srv, !p.noGzip, f.BaseLatency, f.Jitter, f.LossPct, f.DupPct, f.ReorderPct, f.ReorderMax, f.HealAt, f.Partitions, len(p.reqs))
		for i, q := range p.reqs {
			tr.Ev("  req %d %s %s hdr=%d/%dB body=%d decl=%d mis=%d chunks=%v stepped=%d eofData=%v trailers=%d | status=%d explicit=%v rhdr=%d/%dB rbody=%d rdecl=%d rmis=%d tr=%d+%d mode=%s ops=%d",
				i, q.method, q.path, len(q.hdr), hnFieldsSize(q.hdr), q.body, q.declLen, q.reqMis, q.chunks, q.stepped, q.eofData, len(q.trailers),
				q.status, q.explicit, len(q.rhdr), hnFieldsSize(q.rhdr), q.rbody, q.rdeclCL, q.respMis, len(q.rtrailers), len(q.rptrailers), q.mode, len(q.ops))
		}
		srv := &server{config: srvCfg, handler: http.HandlerFunc(r.handler)}
		served := make(chan struct{})
		go func() {
			defer close(served)
			srv.serve(srvEP)
		}()
		tp := &transport{endpoint: cliEP, config: cliCfg, tr1: &http.Transport{DisableCompression: p.noGzip}, activeConns: make(map[*clientConn]struct{})}
		sim.Go("dial", "C34", func(tk *vs.Task) {
			tk.Step("dial")
			cc, err := tp.dial(ctx, "10.0.0.1:443", nil)
			r.mu.Lock()
			r.cc, r.dialErr, r.dialDone = cc, err, true
			r.mu.Unlock()
			if err != nil {
				return
			}
			for i := range p.reqs {
				sim.Go(fmt.Sprintf("c%d", i), "C34", r.caller(i))
			}
		})
		sim.Check = func() *vs.Violation {
			r.mu.Lock()
			defer r.mu.Unlock()
			return r.viol
		}
		if d := os.Getenv("VERIF_H3NET_DUMP_AT"); d != "" {
			if dd, err := time.ParseDuration(d); err == nil {
				tm := time.AfterFunc(dd, func() {
					buf := make([]byte, 1<<18)
					fmt.Printf("VERIF-DEBUG stacks at %v:\n%s\n", dd, buf[:runtime.Stack(buf, true)])
					if r.cc != nil {
						fmt.Printf("VERIF-DEBUG client conn %+v\n", *r.cc.qconn)
					}
					for _, qs := range hbDebugStreams {
						fmt.Printf("VERIF-DEBUG stream %+v\n", *qs)
					}
					srv.mu.Lock()
					for sc := range srv.activeConns {
						fmt.Printf("VERIF-DEBUG server conn %+v\n", *sc.qconn)
					}
					srv.mu.Unlock()
				})
				defer tm.Stop()
			}
		}
		sim.Run()
		viol = sim.Viol
		r.mu.Lock()
		if viol == nil {
			viol = r.viol
		}
		dialErr, dialDone := r.dialErr, r.dialDone
		r.mu.Unlock()
		state := r.connState()
		if viol == nil && dialDone && dialErr != nil {
			if strings.Contains(dialErr.Error(), "handshake timeout") && cfg != "clean" {
				vs.G.Inc("run.handshake_timeout")
			} else {
				viol = vs.Violf("C34", "dial_failed", "net:dial_failed", "the HTTP/3 client could not connect to the HTTP/3 server over a network that heals at %v: %v", p.faults.HealAt, dialErr)
			}
		}
		if viol == nil && sim.Stuck {
			pending := sim.PendingTasks()
			sort.Strings(pending)
			if hnTimeoutDeath(state) && cfg != "clean" {
				vs.G.Inc("run.stuck_after_conn_death")
			} else {
				var logs []string
				r.mu.Lock()
				for _, rs := range r.reqs {
					logs = append(logs, rs.log...)
				}
				r.mu.Unlock()
				viol = vs.Violf("C34", "liveness", "net:stuck_after_heal:"+hnStuckSig(pending), "%v of simulated time after the network healed (at %v) these tasks have not finished (connection %s, %d datagrams in flight): %v\n%s", liveBudget, p.faults.HealAt, state, pnet.InFlight(), pending, strings.Join(logs, "\n"))
			}
		}
		r.mu.Lock()
		idleDeaths := r.idleDeaths
		r.mu.Unlock()
		if viol == nil && len(idleDeaths) > 0 {
			viol = vs.Violf("C34", "liveness", "net:idle_death_after_heal", "the connection idled out (no packet for %v) entirely after the network healed at %v while exchanges were pending: %v", p.cli.idle, p.faults.HealAt, idleDeaths)
		}
		if viol == nil && hnTimeoutDeath(state) {
			if cfg == "clean" {
				// No datagram is ever lost or late here and simulated time only passes
				// when no task can run and nothing is in flight: an idle period as long
				// as the idle timeout means both endpoints were waiting for each other.
				viol = vs.Violf("C34", "liveness", "net:timeout_on_perfect_network", "the connection died of %s on a network without faults (idle timeouts %v/%v)", state, p.cli.idle, p.srv.idle)
			} else {
				vs.G.Inc("run.conn_died_" + state)
			}
		}
		if viol == nil && !hnTimeoutDeath(state) && state != "alive" && state != "none" {
			viol = vs.Violf("C34", "connection_error", "net:conn_error", "the connection between the HTTP/3 client and server ended although both are honest: %s", state)
		}
		r.mu.Lock()
		r.ending = true
		started := false
		for _, rs := range r.reqs {
			started = started || rs.cStarted
		}
		nontrivial = r.okResp > 0
		if cfg == "fault" {
			nontrivial = started && r.nfaults > 0
		}
		r.mu.Unlock()
		if sim.StepsOut {
			vs.G.Inc("run.steps_exhausted")
		}
		simDur = sim.Elapsed()
		// teardown: nothing may outlive the bubble
		cancel()
		ectx, ecancel := context.WithCancel(context.Background())
		ecancel()
		cliEP.Close(ectx)
		srvEP.Close(ectx)
		cliNode.Close()
		srvNode.Close()
		<-served
		if !sim.Drain() && harness == "" {
			harness = fmt.Sprintf("tasks did not exit at teardown: %v", sim.PendingTasks())
		}
		for i := 0; i < 5; i++ {
			sim.Sleep(time.Second)
		}
	})
	if deadlock != "" && viol == nil && harness == "" {
		harness = "bubble did not wind down: " + deadlock
	}
	vs.G.EndRun(tr, nontrivial, simDur, func() any {
		return map[string]any{"config": cfg, "trace_head": tr.Log[:min(len(tr.Log), 50)]}
	})
	if harness != "" && viol == nil {
		vs.LogTrace(rt, tr)
		vs.Harnessf(rt, "%s", harness)
	}
	vs.Report(rt, viol, tr)
}

func TestVerif_C34(t *testing.T) { vs.Check(t, func(rt *rapid.T) { hnRunC34(t, rt) }) }

// ===========================================================================
// C35: a byzantine QUIC peer writes generated raw HTTP/3 bytes
//
// The peer of the real HTTP/3 server (sub-mode "server") or of the real HTTP/3
// client (sub-mode "client") is a real quic.Conn driven by the simulator. It
// writes byte strings that were built as valid HTTP/3 frame sequences (field
// sections from the package's QPACK encoder) and then damaged by operators. The
// oracle parses what was actually sent with its own frame parser (RFC 9114
// section 7.1: type varint, length varint, payload) and compares.

const (
	hbTData        = 0x00
	hbTHeaders     = 0x01
	hbTCancelPush  = 0x03
	hbTSettings    = 0x04
	hbTPushPromise = 0x05
	hbTGoaway      = 0x07
	hbTMaxPushID   = 0x0d
)

// hbAppendVarint appends a QUIC varint (RFC 9000 section 16) of the given width
// in bytes (0 = minimal).
func hbAppendVarint(b []byte, v uint64, width int) []byte {
	need := 1
	switch {
	case v > 1<<30-1:
		need = 8
	case v > 1<<14-1:
		need = 4
	case v > 63:
		need = 2
	}
	if width < need {
		width = need
	}
	switch width {
	case 1:
		return append(b, byte(v))
	case 2:
		return append(b, 0x40|byte(v>>8), byte(v))
	case 4:
		return append(b, 0x80|byte(v>>24), byte(v>>16), byte(v>>8), byte(v))
	}
	return append(b, 0xc0|byte(v>>56), byte(v>>48), byte(v>>40), byte(v>>32), byte(v>>24), byte(v>>16), byte(v>>8), byte(v))
}

func hbVarint(b []byte) (v uint64, n int, ok bool) {
	if len(b) == 0 {
		return 0, 0, false
	}
	n = 1 << (b[0] >> 6)
	if len(b) < n {
		return 0, 0, false
	}
	v = uint64(b[0] & 0x3f)
	for i := 1; i < n; i++ {
		v = v<<8 | uint64(b[i])
	}
	return v, n, true
}

// hbRefFrame is one frame of the reference parse.
type hbRefFrame struct {
	typ    uint64
	length uint64
	hdr    int    // offset of the frame header
	pay    int    // offset of the payload
	end    int    // end of the payload present in the input
	cut    string // "": complete; "type", "len": input ends inside the header; "payload": inside the payload
}

// hbParse is the reference frame parser.
func hbParse(b []byte) []hbRefFrame {
	var out []hbRefFrame
	i := 0
	for i < len(b) {
		f := hbRefFrame{hdr: i, pay: len(b), end: len(b)}
		t, n, ok := hbVarint(b[i:])
		if !ok {
			f.cut = "type"
			return append(out, f)
		}
		f.typ = t
		l, m, ok := hbVarint(b[i+n:])
		if !ok {
			f.cut = "len"
			return append(out, f)
		}
		f.length = l
		f.pay = i + n + m
		if l > uint64(len(b)-f.pay) {
			f.cut = "payload"
			return append(out, f)
		}
		f.end = f.pay + int(l)
		out = append(out, f)
		i = f.end
	}
	return out
}

func hbClass(t uint64) string {
	switch t {
	case hbTData:
		return "data"
	case hbTHeaders:
		return "headers"
	case hbTCancelPush, hbTSettings, hbTPushPromise, hbTGoaway, hbTMaxPushID:
		return "known_other"
	case 0x02, 0x06, 0x08, 0x09:
		return "h2reserved" // RFC 9114 7.2.8 wants H3_FRAME_UNEXPECTED; the property says nothing: don't care
	}
	return "unknown"
}

// ---------------------------------------------------------------------------
// C35: plan

type hbFrame struct {
	typ     uint64
	payload []byte
	typW    int // varint widths (0 = minimal)
	lenW    int
	lenOver int64 // >= 0: declared length instead of len(payload)
	bounds  []int // HEADERS: offsets in payload at which a field line ends (incl. 2 = after the prefix)
	role    string
}

type hbExpect struct {
	verdict       string // strict, must_error, latitude
	why           string
	body          []byte // concatenation of the DATA payloads a consumer may be handed, in order
	hdrCut        bool   // must_error because the first HEADERS frame is truncated / over-read: the message must not be accepted at all
	unknown       int    // complete unknown-type frames in legal positions (must be skipped)
	unkPre        int    // ... of which before the first HEADERS
	ctrlMustClose bool
}

type hbStream struct {
	kind      string // req, ctrl, uni
	utype     uint64
	wire      []byte
	ops       []string
	writes    []int
	flush     []bool
	end       string // fin, reset, open
	resetCode uint64
	readSizes []int
	stepped   int
	post      int               // client mode: request body bytes (0 = GET)
	valid     map[string]string // payload -> "req", "resp", "info", "trailers", "settings"
	overread  map[string]bool   // HEADERS payloads that are a valid section cut inside a field line
	exp       hbExpect
}

type hbPlan struct {
	mode     string // server: the real server faces the byzantine peer; client: the real client does
	real     hnQCfg
	byz      hnQCfg
	faults   vs.PacketFaults
	randSeed uint64
	streams  []*hbStream // server mode: everything the peer opens; client mode: uni streams the peer opens
	resps    []*hbStream // client mode: response scripts, by request sequence number
}

func hbDataByte(k int, off int) byte {
	return byte((uint32(off)*2654435761+uint32(k+1)*40503)>>13) | 1 // never 0: garbage after a shortened DATA frame is rarely a DATA frame
}

// hbSection encodes a field section with the package's QPACK encoder and returns
// it together with the offsets at which field lines end.
func hbSection(fields []hnField) ([]byte, []int) {
	var enc qpackEncoder
	enc.init()
	var bounds []int
	var full []byte
	for n := 0; n <= len(fields); n++ {
		b := enc.encode(func(f func(itype indexType, name, value string)) {
			for _, fl := range fields[:n] {
				f(mayIndex, fl.k, fl.v)
			}
		})
		bounds = append(bounds, len(b))
		full = b
	}
	return full, bounds
}

func hbGrease(c vs.Chooser) uint64 {
	return 0x21 + 0x1f*uint64(vs.Pick(c, 0, 1, 2, 7, 1000, 1<<30, (1<<62-1-0x21)/0x1f))
}

func hbUnknownType(c vs.Chooser) uint64 {
	if vs.Bool(c) {
		return hbGrease(c)
	}
	return uint64(vs.Pick(c, 0x0a, 0x0b, 0x0c, 0x0e, 0x0f, 0x10, 0x40, 0xff, 0x4000, 1<<30, 1<<62-1))
}

func hbBytes(c vs.Chooser, n int) []byte {
	b := make([]byte, n)
	x := uint32(c.Intn(1<<16))*2654435761 + 12345
	for i := range b {
		x = x*1664525 + 1013904223
		b[i] = byte(x >> 24)
	}
	return b
}

func hbWidth(c vs.Chooser) int {
	if vs.Pct(c, 15) {
		return vs.Pick(c, 2, 4, 8)
	}
	return 0
}

func hbSettingsPayload(c vs.Chooser) []byte {
	var b []byte
	ids := []uint64{0x01, 0x06, 0x07, 0x21, 0x21 + 0x1f*5, 0x33, 1<<62 - 1}
	n := vs.Range(c, 0, 4)
	used := map[uint64]bool{}
	for i := 0; i < n; i++ {
		id := ids[c.Intn(len(ids))]
		if used[id] {
			continue
		}
		used[id] = true
		v := uint64(vs.Pick(c, 0, 1, 100, 65536, 1<<62-1))
		if id == 0x01 || id == 0x07 {
			v = 0 // no dynamic table: keeps the real side's view of QPACK trivial
		}
		b = hbAppendVarint(b, id, hbWidth(c))
		b = hbAppendVarint(b, v, hbWidth(c))
	}
	return b
}

func hbSerialize(frames []hbFrame) []byte {
	var b []byte
	for _, f := range frames {
		b = hbAppendVarint(b, f.typ, f.typW)
		l := uint64(len(f.payload))
		if f.lenOver >= 0 {
			l = uint64(f.lenOver)
		}
		b = hbAppendVarint(b, l, f.lenW)
		b = append(b, f.payload...)
	}
	return b
}

// hbDrawMessage generates one request (server mode) or response (client mode)
// stream: a valid frame sequence, then damage.
func hbDrawMessage(c vs.Chooser, mode string, k int, win int) *hbStream {
	// win: the receiver's stream window; sizes stay proportional to it so that a
	// run needs a bounded number of round trips
	maxData, maxUnk, hdrBudget := min(20000, 40*win), min(5000, 20*win), min(6000, 60*win)
	st := &hbStream{kind: "req", end: "fin", valid: map[string]string{}, overread: map[string]bool{}}
	var frames []hbFrame
	unknown := func() hbFrame {
		return hbFrame{typ: hbUnknownType(c), payload: hbBytes(c, vs.SizeBiased(c, maxUnk, 0, 1, 63, 64)), typW: hbWidth(c), lenW: hbWidth(c), lenOver: -1, role: "unknown"}
	}
	nUnknown := 0
	addUnknown := func(pct int) {
		if vs.Pct(c, pct) {
			frames = append(frames, unknown())
			nUnknown++
		}
	}
	if !hnAvoid("unknown_before_headers") {
		addUnknown(12)
	}
	var fields []hnField
	if mode == "server" {
		fields = []hnField{{":method", vs.Pick(c, "POST", "PUT", "GET")}, {":scheme", "https"}, {":authority", "vf.test"}, {":path", "/b" + strconv.Itoa(k)}}
	} else {
		if vs.Pct(c, 12) {
			sec, bounds := hbSection([]hnField{{":status", "103"}, {"link", "</x>; rel=preload"}})
			st.valid[string(sec)] = "info"
			frames = append(frames, hbFrame{typ: hbTHeaders, payload: sec, typW: hbWidth(c), lenW: hbWidth(c), lenOver: -1, bounds: bounds, role: "info"})
			addUnknown(20)
		}
		fields = []hnField{{":status", "200"}}
	}
	for _, f := range hnDrawFields(c, "x-vf-b", 8, hdrBudget, vs.Pct(c, 20)) {
		fields = append(fields, hnField{strings.ToLower(f.k), f.v})
	}
	sec, bounds := hbSection(fields)
	role := "req"
	if mode == "client" {
		role = "resp"
	}
	st.valid[string(sec)] = role
	frames = append(frames, hbFrame{typ: hbTHeaders, payload: sec, typW: hbWidth(c), lenW: hbWidth(c), lenOver: -1, bounds: bounds, role: "headers"})
	off := 0
	for j, n := 0, vs.Range(c, 0, 5); j < n; j++ {
		addUnknown(20)
		sz := vs.SizeBiased(c, maxData, 0, 1, 63, 64, 1199, 16383, 16384)
		p := make([]byte, sz)
		for i := range p {
			p[i] = hbDataByte(k, off+i)
		}
		off += sz
		frames = append(frames, hbFrame{typ: hbTData, payload: p, typW: hbWidth(c), lenW: hbWidth(c), lenOver: -1, role: "data"})
	}
	addUnknown(20)
	if vs.Pct(c, 25) {
		var tf []hnField
		for _, f := range hnDrawFields(c, "x-vf-t", 4, min(1500, hdrBudget), false) {
			tf = append(tf, hnField{strings.ToLower(f.k), f.v})
		}
		sec, bounds := hbSection(tf)
		st.valid[string(sec)] = "trailers"
		frames = append(frames, hbFrame{typ: hbTHeaders, payload: sec, typW: hbWidth(c), lenW: hbWidth(c), lenOver: -1, bounds: bounds, role: "trailers"})
		addUnknown(15)
	}
	for _, f := range frames {
		if f.typW != 0 || f.lenW != 0 {
			st.ops = append(st.ops, "nonminimal_varint")
			break
		}
	}
	if nUnknown > 0 {
		st.ops = append(st.ops, "unknown_frame")
	}

	// damage
	var trailing []byte
	cutAt := -1
	nops := 0
	if vs.Pct(c, 65) {
		nops = vs.Pick(c, 1, 1, 1, 2)
	}
	for o := 0; o < nops; o++ {
		j := c.Intn(len(frames))
		switch op := vs.Pick(c, "len_edit", "trunc_fin", "hdr_overread", "data_before_headers", "forbidden_frame", "h2reserved_frame", "trailing_garbage", "oversize_len", "hostile_qpack", "reset", "len_edit", "trunc_fin", "huge_string_in_oversize_headers"); op {
		case "len_edit":
			f := &frames[j]
			l := int64(len(f.payload))
			f.lenOver = max(0, l+int64(vs.Pick(c, -1, 1, -2, 2, -7, 9, -l, 100, -l/2)))
			st.ops = append(st.ops, op)
		case "oversize_len":
			frames[j].lenOver = 1<<62 - 1
			frames[j].lenW = 8
			st.ops = append(st.ops, op)
		case "hdr_overread":
			if hnAvoid("hdr_overread") {
				break
			}
			// shorten a HEADERS frame so that its declared end falls inside a field line
			for jj := range frames {
				f := &frames[(j+jj)%len(frames)]
				if f.typ != hbTHeaders || len(f.payload) < 3 || f.lenOver >= 0 || f.bounds == nil {
					continue // (only a field section the encoder produced has known line ends)
				}
				cut := 1 + c.Intn(len(f.payload)-1)
				onBound := false
				for _, b := range f.bounds {
					onBound = onBound || b == cut
				}
				if onBound {
					cut--
				}
				if cut < 1 {
					break
				}
				f.lenOver = int64(cut)
				st.overread[string(f.payload[:cut])] = true
				st.ops = append(st.ops, op)
				break
			}
		case "trunc_fin":
			cutAt = -2 // position drawn below, once the wire is known
			st.ops = append(st.ops, op)
		case "data_before_headers":
			// move the first DATA frame (or a new one) to the front, or drop the HEADERS
			var d hbFrame
			found := false
			for jj, f := range frames {
				if f.typ == hbTData {
					d, found = f, true
					frames = append(frames[:jj:jj], frames[jj+1:]...)
					break
				}
			}
			if !found {
				d = hbFrame{typ: hbTData, payload: []byte{1, 2, 3}, lenOver: -1, role: "data"}
			}
			if vs.Bool(c) {
				frames = append([]hbFrame{d}, frames...)
			} else {
				// replace the first HEADERS by the DATA frame
				for jj, f := range frames {
					if f.typ == hbTHeaders {
						frames[jj] = d
						break
					}
				}
			}
			st.ops = append(st.ops, op)
		case "forbidden_frame":
			t := uint64(vs.Pick(c, hbTCancelPush, hbTMaxPushID, hbTPushPromise, hbTSettings, hbTGoaway))
			var p []byte
			switch t {
			case hbTSettings:
				p = hbSettingsPayload(c)
			case hbTPushPromise:
				p = append(hbAppendVarint(nil, uint64(c.Intn(4)), 0), sec...)
			default:
				p = hbAppendVarint(nil, uint64(vs.Pick(c, 0, 1, 4, 1<<20)), 0)
			}
			f := hbFrame{typ: t, payload: p, lenOver: -1, role: "forbidden"}
			frames = append(frames[:j:j], append([]hbFrame{f}, frames[j:]...)...)
			st.ops = append(st.ops, op)
		case "h2reserved_frame":
			f := hbFrame{typ: uint64(vs.Pick(c, 0x02, 0x06, 0x08, 0x09)), payload: hbBytes(c, vs.Pick(c, 0, 4, 5, 8)), lenOver: -1, role: "h2reserved"}
			frames = append(frames[:j:j], append([]hbFrame{f}, frames[j:]...)...)
			st.ops = append(st.ops, op)
		case "trailing_garbage":
			trailing = hbBytes(c, vs.Pick(c, 1, 2, 3, 9, 100, 3000))
			st.ops = append(st.ops, op)
		case "hostile_qpack":
			for jj := range frames {
				f := &frames[(j+jj)%len(frames)]
				if f.typ != hbTHeaders {
					continue
				}
				f.payload, f.bounds = hbHostileSection(c, f.payload), nil
				st.ops = append(st.ops, op)
				break
			}
		case "reset":
			st.end = "reset"
			st.resetCode = uint64(vs.Pick(c, 0x10c, 0x100, 0, 1<<62-1))
			st.ops = append(st.ops, op)
		case "huge_string_in_oversize_headers":
			if hnAvoid("huge_alloc") {
				break
			}
			// a HEADERS frame that declares 2^62-1 bytes and a field line whose string
			// length is beyond anything that can be allocated
			for jj := range frames {
				f := &frames[(j+jj)%len(frames)]
				if f.typ != hbTHeaders {
					continue
				}
				n := int64(vs.Pick(c, 1<<50, 1<<62, 1<<63-8, 1<<48))
				f.payload = append(append([]byte{0, 0}, appendPrefixedInt(nil, 0x20, 3, n)...), hbBytes(c, 40)...)
				f.lenOver, f.lenW, f.bounds = 1<<62-1, 8, nil
				st.ops = append(st.ops, op)
				break
			}
		}
	}
	st.wire = append(hbSerialize(frames), trailing...)
	if cutAt == -2 && len(st.wire) > 0 {
		// inside a frame header or payload, biased to the first bytes of a frame
		ref := hbParse(st.wire)
		f := ref[c.Intn(len(ref))]
		cut := f.hdr + vs.SizeBiased(c, max(f.end-f.hdr-1, 0), 1, 2, f.pay-f.hdr)
		if cut <= 0 {
			cut = 1
		}
		st.wire = st.wire[:min(cut, len(st.wire))]
	}
	hbDrawDelivery(c, st)
	return st
}

// hbHostileSection returns bytes that are not a field section a decoder may
// accept (or that stress it): random bytes, dynamic-table references, a huge
// string length.
func hbHostileSection(c vs.Chooser, orig []byte) []byte {
	switch vs.Pick(c, "random", "dynamic_ref", "bad_static_index", "huge_string", "bad_prefix", "uppercase", "pseudo_after_regular", "huffman_garbage") {
	case "random":
		return hbBytes(c, vs.SizeBiased(c, 300, 0, 1, 2, 3))
	case "dynamic_ref":
		return []byte{0, 0, 0x80 | byte(c.Intn(64)), 0x10 | byte(c.Intn(8))}
	case "bad_static_index":
		return append([]byte{0, 0}, appendPrefixedInt(nil, 0xc0, 6, int64(vs.Pick(c, 99, 100, 1000, 1<<40)))...)
	case "huge_string":
		// literal field line with literal name whose name length is far beyond the frame
		n := int64(vs.Pick(c, 1<<16, 1<<20, 1<<22))
		b := append([]byte{0, 0}, appendPrefixedInt(nil, 0x20, 3, n)...)
		return append(b, hbBytes(c, 40)...)
	case "bad_prefix":
		return append([]byte{byte(vs.Pick(c, 1, 5, 0xff)), byte(c.Intn(256))}, orig[min(2, len(orig)):]...)
	case "uppercase":
		sec, _ := hbSection([]hnField{{":status", "200"}, {":method", "GET"}, {":scheme", "https"}, {":path", "/"}})
		return appendLiteralFieldLineWithLiteralName(sec, mayIndex, "X-Upper", "v")
	case "pseudo_after_regular":
		sec, _ := hbSection([]hnField{{"x-a", "b"}, {":status", "200"}, {":method", "GET"}, {":scheme", "https"}, {":path", "/"}})
		return sec
	}
	// a Huffman-flagged string of bytes that is not a valid Huffman string
	b := []byte{0, 0, 0x27, 0x00, 'n', 0x80 | 4, 0xff, 0xff, 0xff, 0xff}
	return b
}

// hbDrawDelivery draws the write segmentation, flushes and reader sizes.
func hbDrawDelivery(c vs.Chooser, st *hbStream) {
	rem := len(st.wire)
	style := vs.Pick(c, "whole", "few", "tiny", "few")
	for rem > 0 {
		var k int
		switch style {
		case "whole":
			k = rem
		case "few":
			k = 1 + vs.SizeBiased(c, rem-1, 0, 1, 2, 8, 1199)
		default:
			k = vs.Pick(c, 1, 1, 2, 3)
			if len(st.writes) > 60 {
				k = rem // the first 60 bytes byte by byte, the rest at once
			}
		}
		k = min(k, rem)
		st.writes = append(st.writes, k)
		st.flush = append(st.flush, vs.Pct(c, 60))
		rem -= k
	}
	if style == "tiny" && len(st.writes) > 8 {
		st.ops = append(st.ops, "split_writes")
	}
	st.readSizes = hnDrawSizes(c, vs.Range(c, 1, 4), 1<<16, 1, 2, 7, 100, 4096, 20000)
	st.stepped = vs.Range(c, 0, 5)
}

// hbDrawUni generates a unidirectional stream of the byzantine peer.
func hbDrawUni(c vs.Chooser, mode string, what string) *hbStream {
	st := &hbStream{kind: "uni", end: "open", valid: map[string]string{}, overread: map[string]bool{}}
	var frames []hbFrame
	tw := hbWidth(c)
	switch what {
	case "control", "second_control":
		st.kind = "ctrl"
		st.utype = 0
		sp := hbSettingsPayload(c)
		st.valid[string(sp)] = "settings"
		frames = append(frames, hbFrame{typ: hbTSettings, payload: sp, typW: hbWidth(c), lenW: hbWidth(c), lenOver: -1})
		for j, n := 0, vs.Range(c, 0, 3); j < n; j++ {
			frames = append(frames, hbFrame{typ: hbUnknownType(c), payload: hbBytes(c, vs.SizeBiased(c, 3000, 0, 1, 63, 64)), typW: hbWidth(c), lenW: hbWidth(c), lenOver: -1})
			if len(st.ops) == 0 {
				st.ops = append(st.ops, "unknown_frame")
			}
		}
		if what == "second_control" {
			st.ops = append(st.ops, "second_control")
		}
		if vs.Pct(c, 45) {
			j := c.Intn(len(frames))
			switch op := vs.Pick(c, "missing_settings", "ctrl_forbidden_frame", "len_edit", "trunc_fin", "fin", "oversize_len", "ctrl_known_frame", "reset", "trunc_fin"); op {
			case "missing_settings":
				frames = frames[1:]
				if len(frames) == 0 {
					frames = append(frames, hbFrame{typ: hbTGoaway, payload: []byte{0}, lenOver: -1})
				}
			case "ctrl_forbidden_frame":
				t := uint64(vs.Pick(c, hbTData, hbTHeaders, hbTPushPromise, hbTSettings))
				f := hbFrame{typ: t, payload: hbBytes(c, vs.Pick(c, 0, 1, 10)), lenOver: -1}
				frames = append(frames[:j+1:j+1], append([]hbFrame{f}, frames[j+1:]...)...)
			case "ctrl_known_frame":
				t := uint64(vs.Pick(c, hbTGoaway, hbTMaxPushID, hbTCancelPush))
				f := hbFrame{typ: t, payload: hbAppendVarint(nil, uint64(vs.Pick(c, 0, 4, 1<<20)), 0), lenOver: -1}
				frames = append(frames[:j+1:j+1], append([]hbFrame{f}, frames[j+1:]...)...)
			case "len_edit":
				f := &frames[j]
				l := int64(len(f.payload))
				f.lenOver = max(0, l+int64(vs.Pick(c, -1, 1, -2, 2, 9, -l)))
			case "oversize_len":
				frames[j].lenOver, frames[j].lenW = 1<<62-1, 8
			case "trunc_fin":
				if !hnAvoid("ctrl_trunc") {
					st.end = "trunc"
				}
			case "fin":
				st.end = "fin"
			case "reset":
				st.end = "reset"
				st.resetCode = 0x10c
			}
			st.ops = append(st.ops, "ctrl_damage")
		}
	case "push":
		st.utype = 1
		st.ops = append(st.ops, "push_stream")
		frames = append(frames, hbFrame{typ: hbTHeaders, payload: hbBytes(c, 10), lenOver: -1})
		st.end = vs.Pick(c, "fin", "open")
	case "qpack":
		st.utype = uint64(vs.Pick(c, 2, 3))
		st.ops = append(st.ops, "qpack_stream_garbage")
		frames = nil
		st.end = vs.Pick(c, "open", "fin")
	default:
		st.utype = hbGrease(c)
		if vs.Pct(c, 30) {
			st.utype = uint64(vs.Pick(c, 4, 0x40, 0x54, 1<<62-1))
		}
		st.ops = append(st.ops, "unknown_uni")
		st.end = vs.Pick(c, "fin", "open", "reset")
	}
	st.wire = hbAppendVarint(nil, st.utype, tw)
	if tw != 0 {
		st.ops = append(st.ops, "nonminimal_varint")
	}
	if st.kind == "ctrl" {
		st.wire = append(st.wire, hbSerialize(frames)...)
		if st.end == "trunc" {
			pre := len(hbAppendVarint(nil, st.utype, tw))
			ref := hbParse(st.wire[pre:])
			if len(ref) > 0 {
				f := ref[c.Intn(len(ref))]
				cut := pre + f.hdr + vs.SizeBiased(c, max(f.end-f.hdr-1, 0), 1, 2, f.pay-f.hdr)
				st.wire = st.wire[:max(1, min(cut, len(st.wire)))]
			}
			st.end = "fin"
			st.ops = append(st.ops, "trunc_fin")
		}
	} else if what == "push" {
		st.wire = append(st.wire, hbAppendVarint(nil, uint64(c.Intn(3)), 0)...) // push ID
		st.wire = append(st.wire, hbSerialize(frames)...)
	} else {
		st.wire = append(st.wire, hbBytes(c, vs.SizeBiased(c, 2000, 0, 1, 100))...)
	}
	hbDrawDelivery(c, st)
	return st
}

func hbDrawPlan(rt *rapid.T) *hbPlan {
	c := vs.RapidChooser{T: rt}
	p := &hbPlan{mode: vs.Pick(c, "server", "client", "server")}
	if m := os.Getenv("VERIF_H3NET_MODE"); m != "" {
		p.mode = m
	}
	p.randSeed = uint64(c.Intn(1 << 30))
	small := func() hnQCfg {
		return hnQCfg{
			streamRead:  int64(vs.Pick(c, 0, 4096, 1200, 256, 64, 16, 65536)),
			streamWrite: int64(vs.Pick(c, 0, 4096, 1200, 65536)),
			connRead:    int64(vs.Pick(c, 0, 65536, 16384, 1<<20)),
			idle:        30 * time.Second, // a lost CONNECTION_CLOSE leaves the other side waiting for this long
		}
	}
	p.real, p.byz = small(), small()
	p.byz.streamRead = int64(vs.Pick(c, 0, 65536, 4096))
	p.faults = hnDrawFaults(c, false)
	if vs.Pct(c, 30) {
		// mild reordering / loss only to vary how QUIC segments the stream for the reader
		p.faults.ReorderPct, p.faults.ReorderMax = vs.Pick(c, 5, 20, 50), time.Duration(vs.Pick(c, 5, 50))*time.Millisecond
		p.faults.LossPct = vs.Pick(c, 0, 1, 5)
		p.faults.HealAt = time.Second
	}
	n := vs.Range(c, 1, 4)
	for k := 0; k < n; k++ {
		st := hbDrawMessage(c, p.mode, k, int(hnEff(p.real.streamRead)))
		if p.mode == "client" {
			st.post = vs.Pick(c, 0, 0, 100, 300, 2000)
			p.resps = append(p.resps, st)
		} else {
			p.streams = append(p.streams, st)
		}
	}
	// unidirectional streams of the peer
	if vs.Pct(c, 85) {
		p.streams = append(p.streams, hbDrawUni(c, p.mode, "control"))
	}
	for j, m := 0, vs.Pick(c, 0, 0, 0, 1, 1, 2); j < m; j++ {
		p.streams = append(p.streams, hbDrawUni(c, p.mode, vs.Pick(c, "unknown", "unknown", "qpack", "unknown", "push", "qpack", "second_control")))
	}
	// order in which the peer's stream tasks are created is part of the plan
	for i := len(p.streams) - 1; i > 0; i-- {
		j := c.Intn(i + 1)
		p.streams[i], p.streams[j] = p.streams[j], p.streams[i]
	}
	nctrl := 0
	for _, st := range p.streams {
		if st.kind == "ctrl" {
			nctrl++
		}
	}
	for _, st := range p.streams {
		st.exp = hbAnalyze(st, p.mode)
		if st.kind == "ctrl" && nctrl > 1 {
			// RFC 9114 6.2.1: a second control stream is a connection error
			st.exp = hbExpect{verdict: "latitude", why: "more than one control stream"}
		}
	}
	for _, st := range p.resps {
		st.exp = hbAnalyze(st, p.mode)
	}
	return p
}

// ---------------------------------------------------------------------------
// C35: expectations from the reference parse

// hbAnalyze derives from the bytes actually sent what the property demands of
// the receiver. It errs on the side of "latitude" wherever RFC 9114 (or the
// property text) does not pin the outcome.
func hbAnalyze(st *hbStream, mode string) hbExpect {
	var e hbExpect
	lat := func(why string) {
		if e.verdict != "latitude" {
			e.verdict, e.why = "latitude", why
		}
	}
	if st.kind == "uni" {
		e.verdict, e.why = "latitude", "non-control unidirectional stream"
		return e
	}
	wire := st.wire
	if st.kind == "ctrl" {
		_, n, ok := hbVarint(wire)
		if !ok {
			e.verdict, e.why = "latitude", "stream type cut"
			return e
		}
		wire = wire[n:]
		ref := hbParse(wire)
		for i, f := range ref {
			if f.cut != "" {
				if st.end == "fin" && f.cut == "payload" && e.verdict == "" && i > 0 {
					// everything before is in order and a frame's payload is cut short by
					// the end of the stream: this must be reported
					e.ctrlMustClose = true
					e.verdict, e.why = "must_error", "control stream ends inside the payload of frame type "+strconv.FormatUint(f.typ, 16)
					return e
				}
				lat("control stream cut inside a frame header or its first frame")
				break
			}
			if i == 0 {
				if f.typ != hbTSettings || st.valid[string(wire[f.pay:f.end])] != "settings" {
					lat("first control frame is not an intact SETTINGS")
				}
				continue
			}
			if hbClass(f.typ) != "unknown" {
				lat("known frame type on the control stream after SETTINGS")
				continue
			}
			if e.verdict == "" {
				e.unknown++
			}
		}
		if len(ref) == 0 {
			lat("empty control stream")
		}
		if st.end != "open" {
			lat("control stream closed or reset")
		}
		if e.verdict == "" {
			e.verdict = "strict"
		}
		return e
	}
	// request / response stream
	ref := hbParse(wire)
	state := 0
	truncPayload, truncHeader := false, false
	for _, f := range ref {
		cl := hbClass(f.typ)
		if f.cut != "" {
			if f.cut != "payload" {
				truncHeader = true
				break
			}
			truncPayload = true
			if cl == "data" && state == 1 {
				e.body = append(e.body, wire[f.pay:f.end]...)
			}
			if cl == "headers" && state == 0 && e.verdict == "" {
				e.hdrCut = true
			}
			if cl == "known_other" || cl == "h2reserved" || (cl == "data" && state != 1) {
				lat("cut frame of a type that is not allowed at its position")
			}
			if state == 2 {
				// the message is complete with its trailers; a receiver need not read on
				lat("cut frame after the trailers")
			}
			break
		}
		pay := string(wire[f.pay:f.end])
		switch cl {
		case "unknown":
			if state < 2 && e.verdict == "" {
				e.unknown++
				if state == 0 {
					e.unkPre++
				}
			}
		case "h2reserved":
			lat("HTTP/2-only frame type")
		case "known_other":
			lat("frame type not allowed on a request stream")
		case "data":
			switch state {
			case 0:
				lat("DATA before HEADERS")
			case 1:
				e.body = append(e.body, pay...)
			default:
				lat("DATA after trailers")
			}
		case "headers":
			role := st.valid[pay]
			switch state {
			case 0:
				switch {
				case mode == "client" && role == "info":
					// informational response: the final response is still to come
				case (mode == "server" && role == "req") || (mode == "client" && role == "resp"):
					state = 1
				case st.overread[pay]:
					// a field section whose frame ends inside a field line: over-read
					if e.verdict == "" {
						e.verdict, e.why, e.hdrCut = "must_error", "first HEADERS frame ends inside a field line", true
					}
					state = 1
				default:
					lat("first HEADERS frame does not carry the generated field section")
					state = 1
				}
			case 1:
				switch {
				case role == "trailers":
				case st.overread[pay]:
					if e.verdict == "" {
						e.verdict, e.why = "must_error", "trailer HEADERS frame ends inside a field line"
					}
				default:
					lat("trailer HEADERS frame does not carry the generated trailer section")
				}
				state = 2
			default:
				lat("HEADERS after trailers")
			}
		}
	}
	switch {
	case e.verdict != "":
	case st.end == "reset" && state == 2:
		e.verdict, e.why = "latitude", "stream reset after a message that is complete with its trailers"
	case st.end == "reset":
		e.verdict, e.why = "must_error", "stream reset instead of closed"
	case truncPayload:
		e.verdict, e.why = "must_error", "stream ends inside a frame payload"
	case truncHeader:
		e.verdict, e.why = "latitude", "stream ends inside a frame header"
	case state == 0:
		e.verdict, e.why = "latitude", "no final HEADERS frame"
	default:
		e.verdict = "strict"
	}
	if e.verdict != "must_error" {
		e.hdrCut = false
	}
	return e
}

// ---------------------------------------------------------------------------
// C35: run

type hbOutcome struct {
	invoked  int // handler invocations / RoundTrips returned
	got      []byte
	readErr  error // terminal error of the body reader (io.EOF = clean end)
	readDone bool
	rtErr    error  // client mode: RoundTrip error
	respRaw  []byte // server mode: what the peer read back on the request stream
	respErr  error
	respDone bool
	writeErr error
	opened   bool
	id       int64
}

type hbRun struct {
	p    *hbPlan
	sim  *vs.Sim
	tr   *vs.Trace
	ctx  context.Context
	pnet *vs.PacketNet

	mu       sync.Mutex
	viol     *vs.Violation
	ending   bool
	out      map[*hbStream]*hbOutcome
	byID     map[int64]*hbStream
	bq       *quic.Conn // the byzantine peer's connection
	rq       *quic.Conn // the real side's connection (client mode)
	cc       *clientConn
	nextSeq  int
	settleAt time.Time
	dialErr  error
	strays   int
}

func (r *hbRun) setViol(v *vs.Violation) {
	if v == nil {
		return
	}
	r.mu.Lock()
	if r.viol == nil && !r.ending {
		r.viol = v
	}
	r.mu.Unlock()
	r.sim.Wake()
}

// hbPanicSig derives a stable signature from the stack of a panic: the first
// function of the code under test on it.
func hbPanicSig(stack string) string {
	for _, line := range strings.Split(stack, "\n") {
		if strings.HasPrefix(line, "\t") || !(strings.Contains(line, "x/net/internal/http3.") || strings.Contains(line, "x/net/quic.")) {
			continue
		}
		if strings.Contains(line, ".hn") || strings.Contains(line, ".hb") || strings.Contains(line, "(*hn") || strings.Contains(line, "(*hb") {
			continue
		}
		fn := line
		if i := strings.LastIndex(fn, "("); i > 0 {
			fn = fn[:i]
		}
		if i := strings.LastIndex(fn, "/"); i >= 0 {
			fn = fn[i+1:]
		}
		return fn
	}
	return "unknown"
}

func (r *hbRun) onPanic(where string, rec any) {
	if vs.IsAbort(rec) {
		return
	}
	buf := make([]byte, 16384)
	stack := string(buf[:runtime.Stack(buf, false)])
	side := "srv"
	if r.p.mode == "client" {
		side = "cli"
	}
	r.setViol(&vs.Violation{Prop: "C35", Oracle: "panic", Sig: side + ":panic:" + hbPanicSig(stack), Detail: fmt.Sprintf("panic on a %s goroutine of the code under test: %v\n%s", where, rec, stack)})
}

// hbAcceptStreams mirrors genericConn.acceptStreams (9 lines) with one change:
// each stream goroutine recovers, so that a panic in the code under test becomes
// a recorded violation instead of the death of the test process.
func (r *hbRun) acceptStreams(c *genericConn, qconn *quic.Conn, h streamHandler, where string) {
	for {
		st, err := qconn.AcceptStream(context.Background())
		if err != nil {
			return
		}
		go func() {
			defer func() {
				if rec := recover(); rec != nil {
					r.onPanic(where, rec)
				}
			}()
			if st.IsReadOnly() {
				c.handleUnidirectionalStream(newStream(st), h)
			} else {
				c.handleRequestStream(newStream(st), h)
			}
		}()
	}
}

// serveConn mirrors server.newServerConn with the recovering accept loop.
func (r *hbRun) serveConn(s *server, qconn *quic.Conn) {
	sc := &serverConn{qconn: qconn, handler: s.handler}
	s.registerConn(sc)
	defer s.unregisterConn(sc)
	sc.enc.init()
	var err error
	sc.controlStream, err = newConnStream(r.ctx, sc.qconn, streamTypeControl)
	if err != nil {
		return
	}
	sc.controlStream.writeSettings()
	sc.controlStream.Flush()
	r.acceptStreams(&sc.genericConn, qconn, sc, "server stream")
}

// newClientConn mirrors transport.newClientConn with the recovering accept loop.
func (r *hbRun) newClientConn(tr *transport, qconn *quic.Conn) (*clientConn, error) {
	cc := &clientConn{tr: tr, qconn: qconn}
	tr.registerConn(cc)
	cc.enc.init()
	controlStream, err := newConnStream(r.ctx, cc.qconn, streamTypeControl)
	if err != nil {
		tr.unregisterConn(cc)
		return nil, err
	}
	controlStream.writeSettings()
	controlStream.Flush()
	go func() {
		r.acceptStreams(&cc.genericConn, qconn, cc, "client stream")
		cc.mu.Lock()
		cc.closed = true
		cc.mu.Unlock()
		tr.unregisterConn(cc)
	}()
	return cc, nil
}

func (r *hbRun) outcome(st *hbStream) *hbOutcome {
	r.mu.Lock()
	defer r.mu.Unlock()
	o := r.out[st]
	if o == nil {
		o = &hbOutcome{id: -1}
		r.out[st] = o
	}
	return o
}

// consume reads a body to its end in the stream's generated read sizes and
// checks every byte against the reference DATA payloads.
func (r *hbRun) consume(tk *vs.Task, st *hbStream, name string, body io.Reader) {
	o := r.outcome(st)
	bufLen := 1
	for _, k := range st.readSizes {
		bufLen = max(bufLen, k)
	}
	buf := make([]byte, bufLen)
	for i := 0; ; i++ {
		if i < st.stepped {
			tk.Step("read")
		}
		k := st.readSizes[i%len(st.readSizes)]
		n, err := body.Read(buf[:k])
		r.mu.Lock()
		off := len(o.got)
		o.got = append(o.got, buf[:n]...)
		r.mu.Unlock()
		exp := st.exp.body
		for j := 0; j < n; j++ {
			if off+j >= len(exp) || exp[off+j] != buf[j] {
				what := "beyond the DATA payloads sent"
				if off+j < len(exp) {
					what = fmt.Sprintf("the DATA payloads sent have %#x there", exp[off+j])
				}
				if os.Getenv("VERIF_H3NET_DEBUG") != "" {
					var idx []int
					for q := range exp {
						if exp[q] == buf[j] && len(idx) < 12 {
							idx = append(idx, q)
						}
					}
					fmt.Printf("VERIF-DEBUG positions of %#x in exp: %v; wire positions offset: exp starts at wire index %d\n", buf[j], idx, bytes.Index(st.wire, exp[:8]))
					fmt.Printf("VERIF-DEBUG consume mismatch off=%d j=%d n=%d k=%d got[:16]=%x exp[:16]=%x wire[:64]=%x idx-of-got-in-wire=%d\n", off, j, n, k, o.got[:min(len(o.got), 16)], exp[:min(len(exp), 16)], st.wire[:min(len(st.wire), 64)], bytes.Index(st.wire, o.got[max(0, len(o.got)-4):]))
				}
				r.setViol(vs.Violf("C35", "body_bytes_outside_data", name+":body_not_data", "%s: body byte %d handed to the reader is %#x but %s (%d DATA payload bytes sent; stream %s)", name, off+j, buf[j], what, len(exp), st.describe()))
				r.mu.Lock()
				o.readErr, o.readDone = errors.New("vf: stop"), true
				r.mu.Unlock()
				return
			}
		}
		if err != nil {
			r.mu.Lock()
			o.readErr, o.readDone = err, true
			r.mu.Unlock()
			return
		}
	}
}

func (st *hbStream) describe() string {
	ref := hbParse(st.wire)
	if st.kind != "req" {
		if _, n, ok := hbVarint(st.wire); ok {
			ref = hbParse(st.wire[n:])
		}
	}
	var fs []string
	for i, f := range ref {
		if i == 12 {
			fs = append(fs, "…")
			break
		}
		s := fmt.Sprintf("%x/%d", f.typ, f.length)
		if f.cut != "" {
			s += "!cut-in-" + f.cut + fmt.Sprintf("(%d present)", f.end-f.pay)
		}
		fs = append(fs, s)
	}
	return fmt.Sprintf("{%s ops=%v frames(type/len)=%v end=%s bytes=%d verdict=%s(%s)}", st.kind, st.ops, fs, st.end, len(st.wire), st.exp.verdict, st.exp.why)
}

// byzWrite writes the stream's bytes in the planned segmentation and ends it.
func (r *hbRun) byzWrite(tk *vs.Task, st *hbStream, s *quic.Stream) {
	o := r.outcome(st)
	for _, op := range st.ops {
		vs.G.Inc("fault." + op)
	}
	off := 0
	for i, k := range st.writes {
		tk.Step("write")
		_, err := s.Write(st.wire[off : off+k])
		off += k
		if err == nil && st.flush[i] {
			err = s.Flush()
		}
		if err != nil {
			r.mu.Lock()
			o.writeErr = err
			r.mu.Unlock()
			break
		}
	}
	tk.Step("end")
	switch st.end {
	case "fin":
		s.CloseWrite()
	case "reset":
		s.Reset(st.resetCode)
	default:
		s.Flush()
	}
}

func (r *hbRun) peerConn() *quic.Conn {
	r.mu.Lock()
	defer r.mu.Unlock()
	return r.bq
}

// byzStream is the task of one stream the peer opens (server mode: all streams;
// client mode: unidirectional streams).
func (r *hbRun) byzStream(st *hbStream) func(tk *vs.Task) {
	return func(tk *vs.Task) {
		bq := r.peerConn()
		tk.Step("open")
		var s *quic.Stream
		var err error
		if st.kind == "req" {
			s, err = bq.NewStream(r.ctx)
		} else {
			s, err = bq.NewSendOnlyStream(r.ctx)
		}
		o := r.outcome(st)
		if err != nil {
			r.mu.Lock()
			o.writeErr = err
			r.mu.Unlock()
			return
		}
		r.mu.Lock()
		o.opened, o.id = true, s.ID()
		r.byID[s.ID()] = st
		r.mu.Unlock()
		r.byzWrite(tk, st, s)
		if st.kind != "req" {
			return
		}
		// read the response back
		buf := make([]byte, 4096)
		for i := 0; ; i++ {
			if i < 3 {
				tk.Step("readresp")
			}
			n, err := s.Read(buf)
			r.mu.Lock()
			if len(o.respRaw) < 1<<20 {
				o.respRaw = append(o.respRaw, buf[:n]...)
			}
			if err != nil {
				o.respErr, o.respDone = err, true
			}
			r.mu.Unlock()
			if err != nil {
				return
			}
		}
	}
}

var hbDebugStreams []*quic.Stream

// srvHandler is the http.Handler of the real server in server mode.
func (r *hbRun) srvHandler(w http.ResponseWriter, req *http.Request) {
	br, ok := req.Body.(*bodyReader)
	if !ok {
		vs.G.Inc("run.byz_handler_without_body_reader")
		return
	}
	id := br.st.stream.ID()
	if os.Getenv("VERIF_H3NET_DUMP_AT") != "" {
		hbDebugStreams = append(hbDebugStreams, br.st.stream)
	}
	r.mu.Lock()
	st := r.byID[id]
	r.mu.Unlock()
	if st == nil {
		r.setViol(vs.Violf("C35", "unknown_request_in_handler", "srv:unknown_stream", "handler invoked for QUIC stream %d which the peer never opened", id))
		return
	}
	o := r.outcome(st)
	r.mu.Lock()
	o.invoked++
	inv := o.invoked
	r.mu.Unlock()
	tk := r.sim.Attach(fmt.Sprintf("bh%d", id))
	defer func() {
		rec := recover()
		tk.Finish()
		if rec != nil {
			r.onPanic("handler", rec)
		}
	}()
	if inv > 1 {
		r.setViol(vs.Violf("C35", "request_duplicated", "srv:duplicate", "handler invoked twice for QUIC stream %d", id))
		return
	}
	if st.exp.hdrCut {
		r.setViol(vs.Violf("C35", "truncated_frame_accepted", "srv:cut_headers_accepted", "handler invoked (%s %s) although the request's HEADERS frame is cut short: %s; stream %s", req.Method, req.RequestURI, st.exp.why, st.describe()))
		return
	}
	tk.Step("start")
	r.consume(tk, st, "srv", req.Body)
	tk.Step("respond")
	w.Header().Set("Content-Type", "text/plain")
	w.Header().Set("Content-Length", "2")
	w.WriteHeader(200)
	w.Write([]byte("ok"))
}

// clientCaller is the task of one request of the real client in client mode.
func (r *hbRun) clientCaller(i int) func(tk *vs.Task) {
	return func(tk *vs.Task) {
		tk.Step("roundtrip")
		r.mu.Lock()
		seq := r.nextSeq
		r.nextSeq++
		cc := r.cc
		r.mu.Unlock()
		st := r.p.resps[seq]
		o := r.outcome(st)
		ctx, cancel := context.WithCancel(r.ctx)
		defer cancel()
		u, _ := url.Parse("https://vf.test/c" + strconv.Itoa(seq))
		req := (&http.Request{Method: "GET", URL: u, Host: "vf.test", Header: http.Header{}}).WithContext(ctx)
		if st.post > 0 {
			req.Method = "POST"
			q := &hnReq{hasBody: true, body: st.post, chunks: []int{100}, stepped: 1 << 20}
			body := &hnBody{idx: seq, q: q, req: req}
			body.tk = r.sim.Attach(fmt.Sprintf("cb%d", seq))
			req.Body = body
			defer body.Close()
		}
		defer func() {
			if rec := recover(); rec != nil {
				if vs.IsAbort(rec) {
					panic(rec)
				}
				r.onPanic("RoundTrip / response body", rec)
			}
		}()
		res, err := cc.RoundTrip(req)
		r.mu.Lock()
		o.invoked++
		o.rtErr = err
		r.mu.Unlock()
		if err != nil {
			r.mu.Lock()
			o.readErr, o.readDone = err, true
			r.mu.Unlock()
			return
		}
		if tb, ok := res.Body.(*transportResponseBody); ok {
			if id := (*roundTripState)(tb).st.stream.ID(); id != int64(4*seq) {
				panic(fmt.Sprintf("vf harness: request %d uses QUIC stream %d, expected %d", seq, id, 4*seq))
			}
		}
		if st.exp.hdrCut {
			r.setViol(vs.Violf("C35", "truncated_frame_accepted", "cli:cut_headers_accepted", "RoundTrip returned a response (status %d) although the response's HEADERS frame is cut short: %s; stream %s", res.StatusCode, st.exp.why, st.describe()))
			res.Body.Close()
			return
		}
		r.consume(tk, st, "cli", res.Body)
		tk.Step("close")
		res.Body.Close()
	}
}

// byzResponder is the peer's task for one request stream of the real client.
func (r *hbRun) byzResponder(st *hbStream, s *quic.Stream) func(tk *vs.Task) {
	return func(tk *vs.Task) {
		o := r.outcome(st)
		r.mu.Lock()
		o.opened, o.id = true, s.ID()
		r.mu.Unlock()
		r.byzWrite(tk, st, s)
	}
}

func (r *hbRun) tasksSettled() bool {
	now := time.Now()
	if !r.sim.AllTasksDone() {
		r.settleAt = time.Time{}
		return false
	}
	if r.settleAt.IsZero() {
		r.settleAt = now.Add(5 * time.Second)
	}
	return !now.Before(r.settleAt) && r.pnet.InFlight() == 0
}

func (r *hbRun) Events(now time.Time) []vs.Event { return nil }
func (r *hbRun) NextTimed(now time.Time) (time.Time, bool) {
	if !r.settleAt.IsZero() && now.Before(r.settleAt) {
		return r.settleAt, true
	}
	return time.Time{}, false
}

// hbH3Code extracts the HTTP/3 error code a QUIC error carries (stream reset or
// connection close by the peer); ok=false if it carries none.
func hbH3Code(err error) (uint64, bool) {
	var se quic.StreamErrorCode
	if errors.As(err, &se) {
		return uint64(se), true
	}
	var ae *quic.ApplicationError
	if errors.As(err, &ae) {
		return ae.Code, true
	}
	return 0, false
}

func hbCodeName(code uint64) string {
	return http3Error(code).Error()
}

var hbProbes = []string{"probe.strict_stream_ok", "probe.strict_unknown_frames_skipped", "probe.must_error_reported", "probe.latitude_stream",
	"probe.strict_control_ok", "probe.body_bytes_checked", "probe.server_mode_run", "probe.client_mode_run", "probe.unknown_before_headers_skipped",
	"probe.cut_in_frame_header_clean_eof"}

func hnRunC35(t *testing.T, rt *rapid.T) {
	p := hbDrawPlan(rt)
	tape := vs.DrawTape(rt, 3000)
	tr := vs.NewTrace()
	var viol *vs.Violation
	var simDur time.Duration
	var harness string
	nontrivial := false
	for _, name := range hbProbes {
		vs.G.Add(name, 0)
	}
	deadlock := vs.Bubble(t, func() {
		sim := vs.NewSim(tape, tr)
		sim.MaxSteps = vs.Thorough(8000, 20000)
		sim.Horizon = 5 * time.Minute
		ctx, cancel := context.WithCancel(context.Background())
		r := &hbRun{p: p, sim: sim, tr: tr, ctx: ctx, out: map[*hbStream]*hbOutcome{}, byID: map[int64]*hbStream{}}
		r.pnet = vs.NewPacketNet(sim, p.faults)
		srvNode, cliNode := r.pnet.Node("10.0.0.1:443"), r.pnet.Node("10.0.0.2:5000")
		tr.Ev("plan C35 mode=%s real=%+v byz=%+v faults={lat=%v jit=%v loss=%d reo=%d/%v}", p.mode, p.real, p.byz, p.faults.BaseLatency, p.faults.Jitter, p.faults.LossPct, p.faults.ReorderPct, p.faults.ReorderMax)
		for i, st := range p.streams {
			tr.Ev("  peer stream %d %s writes=%d reads=%v/%d", i, st.describe(), len(st.writes), st.readSizes, st.stepped)
		}
		for i, st := range p.resps {
			tr.Ev("  response %d %s writes=%d reads=%v/%d post=%d", i, st.describe(), len(st.writes), st.readSizes, st.stepped, st.post)
		}
		sim.AddSource(r)
		sim.Done = r.tasksSettled
		if d := os.Getenv("VERIF_H3NET_DUMP_AT"); d != "" {
			if dd, err := time.ParseDuration(d); err == nil {
				tm := time.AfterFunc(dd, func() {
					buf := make([]byte, 1<<18)
					fmt.Printf("VERIF-DEBUG stacks at %v:\n%s\n", dd, buf[:runtime.Stack(buf, true)])
					for _, qs := range hbDebugStreams {
						fmt.Printf("VERIF-DEBUG stream %+v\n", *qs)
					}
				})
				defer tm.Stop()
			}
		}
		sim.Check = func() *vs.Violation {
			r.mu.Lock()
			defer r.mu.Unlock()
			return r.viol
		}
		var srvEP, cliEP *quic.Endpoint
		var err1, err2 error
		var loops sync.WaitGroup
		if p.mode == "server" {
			vs.G.Inc("probe.server_mode_run")
			srvCfg := p.real.config(true, p.randSeed*2+2, nil)
			srvEP, err1 = quic.NewEndpoint(srvNode, srvCfg)
			cliEP, err2 = quic.NewEndpoint(cliNode, nil)
			if err1 != nil || err2 != nil {
				harness = fmt.Sprint("endpoint: ", err1, err2)
				cancel()
				return
			}
			srv := &server{config: srvCfg, handler: http.HandlerFunc(r.srvHandler)}
			srv.init()
			loops.Add(1)
			go func() {
				defer loops.Done()
				for {
					qconn, err := srvEP.Accept(ctx)
					if err != nil {
						return
					}
					r.mu.Lock()
					r.rq = qconn
					r.mu.Unlock()
					go r.serveConn(srv, qconn)
				}
			}()
			sim.Go("dial", "C35", func(tk *vs.Task) {
				tk.Step("dial")
				bq, err := cliEP.Dial(ctx, "udp", "10.0.0.1:443", p.byz.config(false, p.randSeed*2+1, nil))
				r.mu.Lock()
				r.bq, r.dialErr = bq, err
				r.mu.Unlock()
				if err != nil {
					return
				}
				for i, st := range p.streams {
					sim.Go(fmt.Sprintf("bz%d", i), "C35", r.byzStream(st))
				}
			})
		} else {
			vs.G.Inc("probe.client_mode_run")
			srvEP, err1 = quic.NewEndpoint(srvNode, p.byz.config(true, p.randSeed*2+2, nil))
			cliEP, err2 = quic.NewEndpoint(cliNode, nil)
			if err1 != nil || err2 != nil {
				harness = fmt.Sprint("endpoint: ", err1, err2)
				cancel()
				return
			}
			cliCfg := p.real.config(false, p.randSeed*2+1, nil)
			tp := &transport{endpoint: cliEP, config: cliCfg, tr1: &http.Transport{DisableCompression: true}, activeConns: make(map[*clientConn]struct{})}
			sim.Go("accept", "C35", func(tk *vs.Task) {
				tk.Step("accept")
				bq, err := srvEP.Accept(ctx)
				r.mu.Lock()
				r.bq = bq
				r.mu.Unlock()
				if err != nil {
					return
				}
				for i, st := range p.streams {
					sim.Go(fmt.Sprintf("bz%d", i), "C35", r.byzStream(st))
				}
				loops.Add(1)
				go func() {
					defer loops.Done()
					for {
						s, err := bq.AcceptStream(ctx)
						if err != nil {
							return
						}
						k := int(s.ID() / 4)
						if s.IsReadOnly() || k >= len(p.resps) {
							continue // the real client's control stream: left unread
						}
						sim.Go(fmt.Sprintf("br%d", k), "C35", r.byzResponder(p.resps[k], s))
					}
				}()
			})
			sim.Go("dial", "C35", func(tk *vs.Task) {
				tk.Step("dial")
				qconn, err := cliEP.Dial(ctx, "udp", "10.0.0.1:443", cliCfg)
				if err != nil {
					r.mu.Lock()
					r.dialErr = err
					r.mu.Unlock()
					return
				}
				cc, err := r.newClientConn(tp, qconn)
				r.mu.Lock()
				r.rq, r.cc, r.dialErr = qconn, cc, err
				r.mu.Unlock()
				if err != nil {
					return
				}
				for i := range p.resps {
					sim.Go(fmt.Sprintf("cl%d", i), "C35", r.clientCaller(i))
				}
			})
		}
		sim.Run()
		viol = sim.Viol
		r.mu.Lock()
		if viol == nil {
			viol = r.viol
		}
		r.mu.Unlock()
		if viol == nil && !sim.Stuck && !sim.StepsOut {
			viol = r.final(&harness)
		}
		if sim.Stuck {
			vs.G.Inc("run.stuck")
			if harness == "" && viol == nil && os.Getenv("VERIF_H3NET_STUCK") != "" {
				harness = fmt.Sprintf("stuck: %v", sim.PendingTasks())
			}
		}
		if sim.StepsOut {
			vs.G.Inc("run.steps_exhausted")
		}
		r.mu.Lock()
		r.ending = true
		for _, o := range r.out {
			nontrivial = nontrivial || o.opened
		}
		r.mu.Unlock()
		simDur = sim.Elapsed()
		// teardown
		cancel()
		ectx, ecancel := context.WithCancel(context.Background())
		ecancel()
		cliEP.Close(ectx)
		srvEP.Close(ectx)
		cliNode.Close()
		srvNode.Close()
		loops.Wait()
		if !sim.Drain() && harness == "" {
			harness = fmt.Sprintf("tasks did not exit at teardown: %v", sim.PendingTasks())
		}
		for i := 0; i < 5; i++ {
			sim.Sleep(time.Second)
		}
	})
	if deadlock != "" && viol == nil && harness == "" {
		harness = "bubble did not wind down: " + deadlock
	}
	vs.G.EndRun(tr, nontrivial, simDur, func() any {
		return map[string]any{"mode": p.mode, "trace_head": tr.Log[:min(len(tr.Log), 40)]}
	})
	if harness != "" && viol == nil {
		vs.LogTrace(rt, tr)
		vs.Harnessf(rt, "%s", harness)
	}
	vs.Report(rt, viol, tr)
}

// final evaluates the outcome of every stream once the run has settled.
func (r *hbRun) final(harness *string) *vs.Violation {
	r.mu.Lock()
	defer r.mu.Unlock()
	p := r.p
	if r.dialErr != nil || r.bq == nil {
		vs.G.Inc("run.no_connection")
		return nil
	}
	// Is the connection still up? (seen from the peer's side)
	state := hnConnState(r.bq)
	connCode, connHasCode := uint64(0), false
	if state == "alive" && r.rq != nil {
		// the real side may have closed the connection while its CONNECTION_CLOSE
		// was lost on the way to the peer
		if rs := hnConnState(r.rq); rs != "alive" {
			state = "closed by the real side (" + rs + ")"
		}
	}
	if state != "alive" {
		connCode, connHasCode = hbH3Code(r.bq.Wait(canceledCtx))
		if connHasCode {
			vs.G.Inc("run.conn_closed_" + hbCodeName(connCode))
		} else {
			vs.G.Inc("run.conn_closed_other")
		}
	}
	side := "srv"
	if p.mode == "client" {
		side = "cli"
	}
	all := append(append([]*hbStream(nil), p.streams...), p.resps...)
	allStrict := true
	for _, st := range all {
		if st.exp.verdict != "strict" {
			allStrict = false
		}
	}
	if hnTimeoutDeath(state) {
		// A connection that idled out is a QUIC-level matter (flow-control stall,
		// lost CONNECTION_CLOSE), not a statement about HTTP/3 framing: counted only.
		vs.G.Inc("run.conn_died_" + state)
		if os.Getenv("VERIF_H3NET_JUDGE_IDLE") != "" && state == "idle_timeout" && allStrict && p.faults.LossPct == 0 {
			return vs.Violf("C35", "idle_stall", "quic:idle_stall", "the connection died of %s although the peer had bytes to send and the reader was waiting for them", state)
		}
		return nil
	}
	if allStrict && state != "alive" {
		return vs.Violf("C35", "valid_input_rejected", side+":conn_closed_on_valid_input", "every stream the peer sent is a valid HTTP/3 stream (unknown frame types in legal positions only) but the connection ended: %s", state)
	}
	for _, st := range all {
		o := r.out[st]
		if o == nil {
			o = &hbOutcome{id: -1}
		}
		e := st.exp
		switch st.kind {
		case "uni":
			vs.G.Inc("probe.latitude_stream")
			continue
		case "ctrl":
			switch {
			case e.ctrlMustClose && o.opened && o.writeErr == nil:
				if state == "alive" {
					return vs.Violf("C35", "truncated_frame_not_reported", side+":ctrl_cut_payload_ignored", "the peer's control stream ended inside a frame payload (%s) but 5 s later the connection is still open and no error was signalled; stream %s", e.why, st.describe())
				}
				vs.G.Inc("probe.must_error_reported")
			case e.verdict == "strict" && state == "alive":
				vs.G.Inc("probe.strict_control_ok")
				if e.unknown > 0 {
					vs.G.Inc("probe.strict_unknown_frames_skipped")
				}
			default:
				vs.G.Inc("probe.latitude_stream")
			}
			continue
		}
		// request / response stream
		if len(o.got) > 0 {
			vs.G.Add("probe.body_bytes_checked", int64(len(o.got)))
		}
		clean := o.readDone && o.readErr == io.EOF
		switch e.verdict {
		case "strict":
			excused := state != "alive" && !allStrict // another stream legitimately took the connection down
			var problem string
			switch {
			case !o.opened:
				excused = true
			case o.invoked == 0:
				problem = "was never served (handler not invoked / RoundTrip did not return)"
				if p.mode == "server" && o.respDone {
					if code, ok := hbH3Code(o.respErr); ok {
						problem += fmt.Sprintf("; the request stream was reset with %s", hbCodeName(code))
					}
				}
			case o.rtErr != nil:
				problem = fmt.Sprintf("RoundTrip failed: %v", o.rtErr)
			case !o.readDone:
				problem = "body was not read to its end"
			case !clean:
				problem = fmt.Sprintf("body reader failed after %d of %d bytes: %v", len(o.got), len(e.body), o.readErr)
			case len(o.got) != len(e.body):
				problem = fmt.Sprintf("body ended with a clean EOF after %d bytes, the DATA payloads sent have %d", len(o.got), len(e.body))
			}
			if problem == "" && p.mode == "server" {
				ref := hbParse(o.respRaw)
				switch {
				case !o.respDone || o.respErr != io.EOF:
					problem = fmt.Sprintf("the peer did not receive a complete response: %d bytes, err=%v", len(o.respRaw), o.respErr)
				case len(ref) == 0 || ref[0].typ != hbTHeaders || ref[len(ref)-1].cut != "":
					problem = fmt.Sprintf("the response the peer received is not HEADERS ... (complete frames): %s", vs.Hex(o.respRaw))
				}
			}
			if problem != "" {
				if excused {
					vs.G.Inc("run.strict_stream_excused_by_conn_close")
					continue
				}
				sig := side + ":valid_stream_failed"
				if e.unkPre > 0 {
					sig = side + ":unknown_frame_before_headers"
				} else if e.unknown > 0 {
					sig = side + ":valid_stream_with_unknown_frames_failed"
				}
				oracle := "valid_input_rejected"
				if e.unknown > 0 {
					oracle = "unknown_frame_not_skipped"
				}
				return vs.Violf("C35", oracle, sig, "a valid stream (%d unknown-type frames in legal positions, %d of them before HEADERS) %s; connection %s; stream %s", e.unknown, e.unkPre, problem, state, st.describe())
			}
			vs.G.Inc("probe.strict_stream_ok")
			if e.unknown > 0 {
				vs.G.Inc("probe.strict_unknown_frames_skipped")
			}
			if e.unkPre > 0 {
				vs.G.Inc("probe.unknown_before_headers_skipped")
			}
		case "must_error":
			if !o.opened || o.writeErr != nil {
				continue // the stream was not delivered in full
			}
			if clean {
				return vs.Violf("C35", "truncated_frame_clean_eof", side+":cut_frame_clean_eof", "%s, yet the body reader ended with a clean io.EOF after %d bytes; stream %s", e.why, len(o.got), st.describe())
			}
			if o.invoked > 0 || o.respDone || state != "alive" {
				vs.G.Inc("probe.must_error_reported")
				code, ok := hbH3Code(o.respErr)
				if !ok {
					code, ok = hbH3Code(o.rtErr)
				}
				if !ok && connHasCode {
					code, ok = connCode, true
				}
				if ok {
					vs.G.Inc("run.must_error_code_" + hbCodeName(code))
				} else if o.readDone && o.readErr != nil {
					vs.G.Inc("run.must_error_read_error")
				}
			}
		default:
			vs.G.Inc("probe.latitude_stream")
			if clean && strings.Contains(e.why, "frame header") {
				vs.G.Inc("probe.cut_in_frame_header_clean_eof")
			}
		}
	}
	return nil
}

func TestVerif_C35(t *testing.T) { vs.Check(t, func(rt *rapid.T) { hnRunC35(t, rt) }) }
