// Engine h3net: the real HTTP/3 client (transport.dial / clientConn.RoundTrip /
// bodyWriter / bodyReader) and the real HTTP/3 server (server.serve /
// serverConn / responseWriter) over two real quic.Endpoints (public
// quic.NewEndpoint) joined by the simulated datagram network verifsim.PacketNet.
// Callers, request-body readers and handlers are scheduler-driven scripts.
// Property C34 (configurations "clean" and "fault") from this part of the file;
// property C35 (byzantine QUIC peer writing raw HTTP/3 bytes) further down.
//
// The QUIC connection's PRNG, its connection IDs and the TLS key shares cannot be
// seeded from outside package quic, so packet bytes differ between two executions
// of one seed; nothing derived from them enters the trace or an oracle.

package http3

import (
	"context"
	"crypto/tls"
	"errors"
	"fmt"
	"io"
	"net/http"
	"net/netip"
	"net/url"
	"os"
	"runtime"
	"sort"
	"strconv"
	"strings"
	"sync"
	"testing"
	"time"

	vs "golang.org/x/net/internal/verifsim"
	"golang.org/x/net/quic"
	"pgregory.net/rapid"
)

// ---------------------------------------------------------------------------
// shared helpers

// hnAvoid reports whether $VERIF_H3NET_AVOID lists the named workload
// restriction. Restrictions exist only to keep sensitivity runs meaningful while
// a finding on the unchanged tree is open; the registered jobs do not set it.
func hnAvoid(name string) bool {
	for _, a := range strings.Split(os.Getenv("VERIF_H3NET_AVOID"), ",") {
		if a == name {
			return true
		}
	}
	return false
}

type hnRand struct{ s uint64 }

func (r *hnRand) Read(p []byte) (int, error) {
	for i := range p {
		r.s += 0x9e3779b97f4a7c15
		z := r.s
		z = (z ^ (z >> 30)) * 0xbf58476d1ce4e5b9
		z = (z ^ (z >> 27)) * 0x94d049bb133111eb
		p[i] = byte(z >> 56)
	}
	return len(p), nil
}

func hnTLS(server bool, seed uint64) *tls.Config {
	c := &tls.Config{
		InsecureSkipVerify: true,
		MinVersion:         tls.VersionTLS13,
		NextProtos:         []string{"h3"},
		Rand:               &hnRand{s: seed},
		Time:               time.Now,
		CipherSuites:       []uint16{tls.TLS_AES_128_GCM_SHA256, tls.TLS_AES_256_GCM_SHA384, tls.TLS_CHACHA20_POLY1305_SHA256},
	}
	if server {
		c.Certificates = []tls.Certificate{testCert}
	}
	return c
}

type hnQCfg struct {
	streamRead, streamWrite, connRead int64
	maxBidi, maxUni                   int64
	idle                              time.Duration
	keepAlive                         time.Duration
}

func hnEff(v int64) int64 {
	if v == 0 {
		return 1 << 20
	}
	return v
}

func (q hnQCfg) config(server bool, seed uint64) *quic.Config {
	return &quic.Config{
		TLSConfig:                hnTLS(server, seed),
		MaxBidiRemoteStreams:     q.maxBidi,
		MaxUniRemoteStreams:      q.maxUni,
		MaxStreamReadBufferSize:  q.streamRead,
		MaxStreamWriteBufferSize: q.streamWrite,
		MaxConnReadBufferSize:    q.connRead,
		HandshakeTimeout:         q.idle,
		MaxIdleTimeout:           q.idle,
		KeepAlivePeriod:          q.keepAlive,
	}
}

func hnDrawQCfg(c vs.Chooser) hnQCfg {
	q := hnQCfg{
		streamRead:  int64(vs.Pick(c, 0, 65536, 16384, 4096, 1200, 1<<20)),
		streamWrite: int64(vs.Pick(c, 0, 65536, 16384, 4096, 1200, 1<<20)),
		connRead:    int64(vs.Pick(c, 0, 65536, 16384, 1<<20, 4096)),
		maxBidi:     int64(vs.Pick(c, 0, 100, 1, 2, 3)),
		maxUni:      int64(vs.Pick(c, 0, 100, 3)),
		idle:        time.Duration(vs.Pick(c, 120, 30, 15)) * time.Second,
	}
	if vs.Pct(c, 10) {
		q.keepAlive = time.Duration(vs.Pick(c, 1, 5)) * time.Second
	}
	return q
}

func hnDrawFaults(c vs.Chooser, faulty bool) vs.PacketFaults {
	var f vs.PacketFaults
	f.Seed = uint64(c.Intn(1<<30)) + 1
	f.BaseLatency = time.Duration(vs.Pick(c, 10, 1, 50, 200)) * time.Millisecond
	f.Jitter = time.Duration(vs.Pick(c, 0, 1, 5, 30)) * time.Millisecond
	if faulty {
		// swarm: each fault kind is enabled independently
		if vs.Bool(c) {
			f.LossPct = vs.Pick(c, 1, 5, 10, 30)
		}
		if vs.Pct(c, 40) {
			f.DupPct = vs.Pick(c, 1, 5, 20)
		}
		if vs.Pct(c, 40) {
			f.ReorderPct = vs.Pick(c, 5, 20, 50)
			f.ReorderMax = time.Duration(vs.Pick(c, 5, 50, 400)) * time.Millisecond
		}
		f.HealAt = time.Duration(vs.Pick(c, 500, 1000, 3000, 5000)) * time.Millisecond
		if vs.Pct(c, 30) {
			// partition (everything sent inside the window is lost), far below the
			// smallest idle timeout used (15 s)
			a := time.Duration(c.Intn(3000)) * time.Millisecond
			f.Partitions = append(f.Partitions, [2]time.Duration{a, a + time.Duration(vs.Pick(c, 100, 500, 2000))*time.Millisecond})
		}
	}
	return f
}

type hnField struct{ k, v string }

const hnAlnum = "abcdefghijklmnopqrstuvwxyzABCDEFGHIJKLMNOPQRSTUVWXYZ0123456789"

// hnValue returns a valid field value of exactly n bytes (no leading/trailing
// whitespace; inner spaces, punctuation and UTF-8 allowed), a pure function of
// (seed, n).
func hnValue(seed uint32, n int) string {
	if n <= 0 {
		return ""
	}
	b := make([]byte, 0, n)
	x := seed*2654435761 + 0x9e3779b9
	if x == 0 {
		x = 1
	}
	next := func() uint32 {
		x ^= x << 13
		x ^= x >> 17
		x ^= x << 5
		return x
	}
	for len(b) < n {
		r := next()
		rem := n - len(b)
		inner := len(b) > 0 && rem > 1
		switch (r >> 8) % 16 {
		case 0:
			if inner && b[len(b)-1] != ' ' {
				b = append(b, ' ')
				continue
			}
		case 1:
			if rem >= 2 {
				b = append(b, "é"...)
				continue
			}
		case 2:
			if rem >= 3 {
				b = append(b, "日"...)
				continue
			}
		case 3:
			if inner {
				b = append(b, ",;=/()'*~"[r%9])
				continue
			}
		}
		b = append(b, hnAlnum[r%uint32(len(hnAlnum))])
	}
	return string(b)
}

func hnValuePath(seed uint32, n int) string {
	const set = "abcdefghijklmnopqrstuvwxyz0123456789-._~"
	b := make([]byte, n)
	x := seed*40503 + 77
	for i := range b {
		x = x*1664525 + 1013904223
		b[i] = set[(x>>16)%uint32(len(set))]
	}
	if n > 0 && b[0] == '.' {
		b[0] = 'd'
	}
	return string(b)
}

func hnValueQuery(seed uint32, n int) string {
	var parts []string
	for i := 0; i < n; i++ {
		k := hnValuePath(seed+uint32(i)*7, 1+int(seed+uint32(i))%5)
		v := hnValuePath(seed*3+uint32(i), int(seed>>3+uint32(i))%9)
		if (seed+uint32(i))%4 == 0 {
			v += "%20%C3%A9"
		}
		parts = append(parts, k+"="+v)
	}
	return strings.Join(parts, "&")
}

func hnFieldsSize(fs []hnField) int {
	n := 0
	for _, f := range fs {
		n += len(f.k) + len(f.v) + 32
	}
	return n
}

// hnDrawFields generates header fields named prefix<j> (canonical MIME form).
// Values of one name are adjacent in the result.
func hnDrawFields(c vs.Chooser, prefix string, maxFields, budget int, big bool) []hnField {
	var out []hnField
	nf := vs.SizeBiased(c, maxFields, 1, 3)
	used := 0
	key := 0
	for len(out) < nf {
		name := prefix + strconv.Itoa(key)
		key++
		nv := 1
		if vs.Pct(c, 25) {
			nv = vs.Range(c, 2, 4)
		}
		var vals []string
		for j := 0; j < nv && len(out) < nf; j++ {
			var v string
			if len(vals) > 0 && vs.Pct(c, 30) {
				v = vals[c.Intn(len(vals))] // exact duplicate of an earlier value of this name
			} else {
				sz := vs.SizeBiased(c, 160, 0, 1, 64)
				if big && vs.Pct(c, 50) {
					sz = vs.Pick(c, 1100, 3000, 8000, 16000) + c.Intn(200)
				}
				v = hnValue(uint32(c.Intn(1<<16)), sz)
			}
			f := hnField{name, v}
			sz := len(f.k) + len(f.v) + 32
			if used+sz > budget {
				f.v = hnValue(uint32(len(out)), 3)
				sz = len(f.k) + len(f.v) + 32
				if used+sz > budget {
					return out
				}
			}
			used += sz
			vals = append(vals, f.v)
			out = append(out, f)
		}
	}
	return out
}

func hnDrawSizes(c vs.Chooser, n int, choices ...int) []int {
	out := make([]int, n)
	for i := range out {
		out[i] = vs.Pick(c, choices...)
	}
	return out
}

func hnSplit(c vs.Chooser, total, maxParts int) []int {
	if total <= 0 {
		return nil
	}
	parts := vs.Range(c, 1, maxParts)
	var out []int
	rem := total
	for i := 0; i < parts-1 && rem > 1; i++ {
		k := 1 + vs.SizeBiased(c, rem-1, 1, 511, 512, 513, 4096, 16384)
		if k >= rem {
			k = rem - 1
		}
		if k < 1 {
			k = 1
		}
		out = append(out, k)
		rem -= k
	}
	return append(out, rem)
}

func hnMultiset(fs []hnField) map[string][]string {
	m := map[string][]string{}
	for _, f := range fs {
		m[f.k] = append(m[f.k], f.v)
	}
	for _, vv := range m {
		sort.Strings(vv)
	}
	return m
}

// hnOrdered groups values per name keeping their order.
func hnOrdered(fs []hnField) map[string][]string {
	m := map[string][]string{}
	for _, f := range fs {
		m[f.k] = append(m[f.k], f.v)
	}
	return m
}

func hnObserved(h http.Header, prefix string) map[string][]string {
	m := map[string][]string{}
	for k, vv := range h {
		if !strings.HasPrefix(k, prefix) || len(vv) == 0 {
			continue
		}
		c := append([]string(nil), vv...)
		sort.Strings(c)
		m[k] = c
	}
	return m
}

func hnShort(s string) string {
	if len(s) > 40 {
		return fmt.Sprintf("%q…(%d bytes)", s[:40], len(s))
	}
	return strconv.Quote(s)
}

// hnDiff returns "" if the two field multisets are equal.
func hnDiff(exp, got map[string][]string) string {
	keys := map[string]bool{}
	for k := range exp {
		keys[k] = true
	}
	for k := range got {
		keys[k] = true
	}
	var ks []string
	for k := range keys {
		ks = append(ks, k)
	}
	sort.Strings(ks)
	for _, k := range ks {
		e, g := exp[k], got[k]
		if len(e) != len(g) {
			return fmt.Sprintf("field %s: sent %d value(s), observed %d", k, len(e), len(g))
		}
		for i := range e {
			if e[i] != g[i] {
				return fmt.Sprintf("field %s: value %d sent %s, observed %s", k, i, hnShort(e[i]), hnShort(g[i]))
			}
		}
	}
	return ""
}

func hnStack() string {
	buf := make([]byte, 6144)
	return string(buf[:runtime.Stack(buf, false)])
}

// hnConnState classifies the state of a QUIC connection without blocking:
// "alive", "idle_timeout", "handshake_timeout" or "closed: <error>".
func hnConnState(c *quic.Conn) string {
	if c == nil {
		return "none"
	}
	err := c.Wait(canceledCtx)
	switch {
	case err == nil:
		return "closed: peer closed with NO_ERROR"
	case errors.Is(err, context.Canceled):
		return "alive"
	case err.Error() == "idle timeout":
		return "idle_timeout"
	case strings.Contains(err.Error(), "handshake timeout"):
		return "handshake_timeout"
	}
	return "closed: " + err.Error()
}

func hnTimeoutDeath(state string) bool {
	return state == "idle_timeout" || state == "handshake_timeout"
}

// ---------------------------------------------------------------------------
// C34: plan

type hnHOp struct {
	kind string // read, readall, header, write, flush, trailers, sleep
	n    int
	dur  time.Duration
}

type hnReq struct {
	method   string
	path     string // path?query as it must appear in RequestURI
	hdr      []hnField
	hasBody  bool
	body     int   // bytes the body reader produces
	declLen  int64 // Request.ContentLength (0 with a body = undeclared)
	chunks   []int // sizes returned by the body reader, cycled
	stepped  int   // number of leading body reads that are scheduler steps
	eofData  bool  // final chunk is returned together with io.EOF
	trailers []hnField
	trLate   bool // trailer values are set when the body reaches EOF
	reqMis   int  // -1 body shorter than declared, +1 longer, 0 none

	readSizes   []int // caller: response body read sizes, cycled
	readStepped int   // number of leading response reads that are scheduler steps

	status     int
	explicit   bool // handler calls WriteHeader(status) with the generated fields
	rhdr       []hnField
	rbody      int   // bytes the handler tries to write
	rdeclCL    int64 // -1: handler sets no Content-Length
	respMis    int   // -1 handler writes fewer bytes than declared, +1 more, 0 none
	rtrailers  []hnField
	rptrailers []hnField
	trailerHdr []string // values of the Trailer response header
	ops        []hnHOp
	readAll    bool   // the script reads the request body to the end
	mode       string // first, duplex, after, partial
}

type hnPlan struct {
	cfg      string
	cli, srv hnQCfg
	faults   vs.PacketFaults
	randSeed uint64
	noGzip   bool
	reqs     []*hnReq
}

func hnNoBodyStatus(s int) bool { return s == 204 || s == 304 }

func hnDrawPlan(rt *rapid.T, cfg string) *hnPlan {
	c := vs.RapidChooser{T: rt}
	p := &hnPlan{cfg: cfg}
	p.cli, p.srv = hnDrawQCfg(c), hnDrawQCfg(c)
	p.randSeed = uint64(c.Intn(1 << 30))
	p.noGzip = vs.Bool(c)
	p.faults = hnDrawFaults(c, cfg == "fault")

	// The smallest window on a path bounds the bytes per round trip; keep bodies
	// proportional to it so that a run stays within its step budget.
	upWin := int(min(hnEff(p.srv.streamRead), hnEff(p.srv.connRead), hnEff(p.cli.streamWrite)))
	downWin := int(min(hnEff(p.cli.streamRead), hnEff(p.cli.connRead), hnEff(p.srv.streamWrite)))
	maxBody := 256 << 10
	total := vs.Thorough(320<<10, 1536<<10)
	maxHdr := vs.Thorough(24000, 80000)

	n := vs.Range(c, 1, 6)
	per := total / n
	reqCap := min(maxBody, per, upWin*64)
	respCap := min(maxBody, per, downWin*64)
	hdrUp := min(maxHdr, upWin*24)
	hdrDown := min(maxHdr, downWin*24)
	for i := 0; i < n; i++ {
		q := &hnReq{rdeclCL: -1}
		q.method = vs.Pick(c, "POST", "GET", "PUT", "POST", "PATCH", "GET", "DELETE", "HEAD")
		switch q.method {
		case "GET", "DELETE":
			q.hasBody = vs.Pct(c, 15)
		case "HEAD":
			q.hasBody = false
		default:
			q.hasBody = vs.Pct(c, 90)
		}
		q.path = "/r" + strconv.Itoa(i) + "/" + hnValuePath(uint32(c.Intn(1<<16)), vs.SizeBiased(c, 40, 0, 1))
		if vs.Pct(c, 60) {
			q.path += "?" + hnValueQuery(uint32(c.Intn(1<<16)), vs.Range(c, 0, 3))
		}
		if q.hasBody && vs.Pct(c, 35) {
			q.trailers = hnDrawFields(c, "X-Vf-Tr"+strconv.Itoa(i)+"-", 6, 1500, false)
			q.trLate = vs.Bool(c)
		}
		if vs.Pct(c, 90) {
			q.hdr = hnDrawFields(c, "X-Vf-R"+strconv.Itoa(i)+"-", 40, hdrUp, vs.Pct(c, 25))
		}
		if q.hasBody {
			q.chunks = hnDrawSizes(c, vs.Range(c, 1, 5), 1<<20, 1, 3, 100, 1000, 4096, 16383, 16384, 32768, 65536)
			minChunk := q.chunks[0]
			for _, k := range q.chunks {
				minChunk = min(minChunk, k)
			}
			bcap := min(reqCap, minChunk*600) // every chunk is a DATA frame and a flush
			q.body = min(vs.SizeBiased(c, bcap, 1, 1199, 4096, 16384, 32768, 65536, 262144), bcap)
			if vs.Pct(c, 50) && q.body > 0 {
				q.declLen = int64(q.body)
			}
			if vs.Bool(c) {
				q.stepped = vs.Range(c, 0, 8)
			}
			q.eofData = vs.Bool(c)
			if q.body > 1 && vs.Pct(c, 8) {
				if vs.Bool(c) {
					q.reqMis = -1
					q.declLen = int64(q.body + vs.Pick(c, 1, 100, 70000)) // declares more than it sends
				} else {
					q.reqMis = 1
					q.declLen = int64(q.body - 1 - c.Intn(min(q.body-1, 100))) // sends more than declared
					if q.declLen == 0 {
						q.declLen, q.reqMis = int64(q.body), 0
					}
				}
			}
		}
		q.readSizes = hnDrawSizes(c, vs.Range(c, 1, 5), 1<<20, 1, 7, 100, 4096, 16384, 65536)
		q.readStepped = vs.Range(c, 0, 6)

		// response
		q.status = vs.Pick(c, 200, 200, 200, 201, 404, 500, 204, 304, 200)
		q.explicit = vs.Pct(c, 85)
		if !q.explicit {
			q.status = 200
		}
		noBody := hnNoBodyStatus(q.status)
		if !noBody || vs.Pct(c, 25) {
			q.rbody = min(vs.SizeBiased(c, respCap, 1, 511, 512, 513, 4096, 16384, 65535, 262144), respCap)
		}
		trailersOK := !noBody && q.method != "HEAD"
		if q.explicit && trailersOK && vs.Pct(c, 35) {
			q.rtrailers = hnDrawFields(c, "X-Vf-Td", 5, 1200, false)
			seen := map[string]bool{}
			var keys []string
			for _, f := range q.rtrailers {
				if !seen[f.k] {
					seen[f.k] = true
					keys = append(keys, f.k)
				}
			}
			if vs.Bool(c) {
				q.trailerHdr = []string{strings.Join(keys, ", ")}
			} else {
				q.trailerHdr = keys
			}
		}
		if trailersOK && vs.Pct(c, 25) {
			q.rptrailers = hnDrawFields(c, "X-Vf-Tp", 4, 1200, false)
		}
		if q.explicit {
			if vs.Pct(c, 85) {
				q.rhdr = hnDrawFields(c, "X-Vf-S", 40, hdrDown, vs.Pct(c, 25))
			}
			if !noBody && vs.Pct(c, 35) {
				q.rdeclCL = int64(q.rbody)
				if vs.Pct(c, 30) {
					if vs.Bool(c) || q.rbody == 0 {
						q.respMis = -1
						q.rdeclCL = int64(q.rbody + vs.Pick(c, 1, 2, 100, 5000)) // handler writes fewer bytes than declared
					} else {
						q.respMis = 1
						q.rdeclCL = int64(q.rbody - 1 - c.Intn(min(q.rbody, 100))) // handler writes more than declared
						if q.rdeclCL < 0 {
							q.rdeclCL = 0
						}
					}
				}
			}
		}

		// handler script
		var reads, resp []hnHOp
		mode := vs.Pick(c, "first", "first", "duplex", "first", "after", "partial", "first", "duplex")
		q.mode = mode
		q.readAll = mode != "partial"
		for j, k := 0, vs.Range(c, 0, 3); j < k; j++ {
			reads = append(reads, hnHOp{kind: "read", n: vs.Pick(c, 1, 10, 1000, 4096, 16384, 70000)})
		}
		if q.readAll {
			reads = append(reads, hnHOp{kind: "readall", n: vs.Pick(c, 1<<16, 1, 100, 4096, 16384)})
		}
		if q.explicit {
			resp = append(resp, hnHOp{kind: "header"})
			if vs.Pct(c, 30) {
				resp = append(resp, hnHOp{kind: "flush"})
			}
		}
		ws := hnSplit(c, q.rbody, 6)
		for j, w := range ws {
			resp = append(resp, hnHOp{kind: "write", n: w})
			if vs.Pct(c, 35) && !(j == len(ws)-1 && vs.Bool(c)) {
				resp = append(resp, hnHOp{kind: "flush"})
			}
		}
		if len(q.rtrailers)+len(q.rptrailers) > 0 {
			resp = append(resp, hnHOp{kind: "trailers"})
			if vs.Pct(c, 20) {
				resp = append(resp, hnHOp{kind: "flush"})
			}
		}
		switch mode {
		case "first", "partial":
			q.ops = append(reads, resp...)
		case "after":
			q.ops = append(resp, reads...)
		case "duplex":
			for len(reads) > 0 || len(resp) > 0 {
				if len(resp) == 0 || (len(reads) > 0 && vs.Bool(c)) {
					q.ops = append(q.ops, reads[0])
					reads = reads[1:]
				} else {
					q.ops = append(q.ops, resp[0])
					resp = resp[1:]
				}
			}
		}
		if vs.Pct(c, 15) {
			at := c.Intn(len(q.ops) + 1)
			ops := append([]hnHOp{}, q.ops[:at]...)
			ops = append(ops, hnHOp{kind: "sleep", dur: time.Duration(vs.Pick(c, 1, 10, 100, 1000, 3000)) * time.Millisecond})
			q.ops = append(ops, q.ops[at:]...)
		}
		p.reqs = append(p.reqs, q)
	}
	return p
}

func hnReqByte(idx int, off int64) byte {
	return byte(((uint32(off) + uint32(idx+1)<<22) * 2654435761) >> 24)
}

func hnRespByte(idx int, off int64) byte {
	return byte((((uint32(off) ^ 0x5a5a5a5a) + uint32(idx+1)<<21) * 2246822519) >> 24)
}

// ---------------------------------------------------------------------------
// C34: run state

type hnReqState struct {
	// caller side
	cStarted bool
	cDone    bool
	cClosed  bool // the caller has closed (or is closing) the response body
	cFailed  bool // RoundTrip returned an error
	gotResp  bool
	cRead    int64
	log      []string
	// handler side
	hCount    int
	hStarted  bool
	hDone     bool
	hHeader   bool // the "header" op was executed
	hTrailers bool // the "trailers" op was executed
	hRead     int64
	hWrote    int64 // bytes accepted by ResponseWriter.Write
	hErrCL    bool  // a Write returned http.ErrContentLength
}

type hnRun struct {
	p   *hnPlan
	sim *vs.Sim
	tr  *vs.Trace
	ctx context.Context

	mu       sync.Mutex
	reqs     []*hnReqState
	viol     *vs.Violation
	ending   bool
	cc       *clientConn
	dialErr  error
	dialDone bool
	okResp   int
	nfaults  int
}

func (r *hnRun) setViol(v *vs.Violation) {
	if v == nil {
		return
	}
	r.mu.Lock()
	if r.viol == nil && !r.ending {
		r.viol = v
	}
	r.mu.Unlock()
	r.sim.Wake()
}

func (r *hnRun) logf(i int, format string, args ...any) {
	r.mu.Lock()
	if len(r.reqs[i].log) < 60 {
		r.reqs[i].log = append(r.reqs[i].log, fmt.Sprintf(format, args...))
	}
	r.mu.Unlock()
}

func (r *hnRun) connState() string {
	r.mu.Lock()
	cc := r.cc
	r.mu.Unlock()
	if cc == nil {
		return "none"
	}
	return hnConnState(cc.qconn)
}

// excused reports whether an error on request i is an outcome the property
// allows: the run is being torn down, the connection died of a timeout (counted,
// not judged), the request's own body disagrees with its declared length (the
// client aborts the exchange), the handler answered without reading the whole
// request body (the server then stops the upload and this client gives up the
// exchange), or the caller has already closed the response body.
func (r *hnRun) excused(i int, side string) (bool, string) {
	q := r.p.reqs[i]
	r.mu.Lock()
	ending, closed := r.ending, r.reqs[i].cClosed
	r.mu.Unlock()
	switch {
	case ending:
		return true, "teardown"
	case q.reqMis != 0:
		return true, "request_length_mismatch"
	case !q.readAll && side != "handler":
		return true, "early_answer"
	case side == "handler" && closed:
		return true, "caller_closed"
	case side == "read" && q.respMis < 0:
		return true, "response_shorter_than_declared"
	}
	if st := r.connState(); hnTimeoutDeath(st) {
		vs.G.Inc("run.conn_died_" + st)
		return true, st
	}
	return false, ""
}

// ---------------------------------------------------------------------------
// C34: request body reader (simulator-owned)

var errHnBodyClosed = errors.New("vf: request body closed")

type hnBody struct {
	r   *hnRun
	idx int
	q   *hnReq
	tk  *vs.Task
	req *http.Request

	mu     sync.Mutex
	off    int
	ci     int
	closed bool
	eof    bool
	fin    bool
	inStep bool // a Read is parked in Step: only that Read may finish the task
}

func (b *hnBody) finish() {
	if !b.fin {
		b.fin = true
		b.tk.Finish()
	}
}

func (b *hnBody) Close() error {
	b.mu.Lock()
	b.closed = true
	if !b.inStep {
		b.finish()
	}
	b.mu.Unlock()
	return nil
}

func (b *hnBody) Read(p []byte) (n int, err error) {
	defer func() {
		if rec := recover(); rec != nil {
			if !vs.IsAbort(rec) {
				panic(rec)
			}
			b.mu.Lock()
			b.closed = true
			b.inStep = false
			b.finish()
			b.mu.Unlock()
			n, err = 0, errHnBodyClosed
		}
	}()
	b.mu.Lock()
	if b.closed {
		b.mu.Unlock()
		return 0, errHnBodyClosed
	}
	if b.eof {
		b.mu.Unlock()
		return 0, io.EOF
	}
	stepped := b.ci < b.q.stepped && b.off < b.q.body && len(p) > 0
	b.inStep = stepped
	b.mu.Unlock()
	if len(p) == 0 {
		return 0, nil
	}
	if stepped {
		b.tk.Step("body")
	}
	b.mu.Lock()
	defer b.mu.Unlock()
	b.inStep = false
	if b.closed {
		b.finish()
		return 0, errHnBodyClosed
	}
	q := b.q
	k := len(p)
	if len(q.chunks) > 0 {
		k = min(k, q.chunks[b.ci%len(q.chunks)])
	}
	b.ci++
	k = min(k, q.body-b.off)
	for i := 0; i < k; i++ {
		p[i] = hnReqByte(b.idx, int64(b.off+i))
	}
	b.off += k
	if b.off >= q.body && (q.eofData || k == 0) {
		b.eof = true
		if q.trLate {
			for key, vv := range hnOrdered(q.trailers) {
				b.req.Trailer[key] = vv
			}
		}
		if q.eofData && k > 0 {
			vs.G.Inc("probe.req_eof_with_data")
		}
		b.finish()
		return k, io.EOF
	}
	return k, nil
}

// ---------------------------------------------------------------------------
// C34: caller

func (r *hnRun) caller(i int) func(tk *vs.Task) {
	return func(tk *vs.Task) {
		q := r.p.reqs[i]
		rs := r.reqs[i]
		defer func() {
			r.mu.Lock()
			rs.cDone = true
			r.mu.Unlock()
		}()
		tk.Step("roundtrip")
		ctx, cancel := context.WithCancel(r.ctx)
		defer cancel()
		u, err := url.Parse("https://vf.test" + q.path)
		if err != nil {
			panic("vf harness: bad generated url: " + err.Error())
		}
		req := (&http.Request{Method: q.method, URL: u, Host: "vf.test", Header: http.Header{}, Proto: "HTTP/3.0", ProtoMajor: 3}).WithContext(ctx)
		for k, vv := range hnOrdered(q.hdr) {
			req.Header[k] = vv
		}
		if q.hasBody {
			body := &hnBody{r: r, idx: i, q: q, req: req}
			body.tk = r.sim.Attach(fmt.Sprintf("b%d", i))
			req.Body = body
			req.ContentLength = q.declLen
			if len(q.trailers) > 0 {
				req.Trailer = http.Header{}
				for k, vv := range hnOrdered(q.trailers) {
					if q.trLate {
						req.Trailer[k] = nil
					} else {
						req.Trailer[k] = vv
					}
				}
			}
			defer body.Close() // a RoundTrip that fails before the body goroutine starts leaves the body untouched
		}
		r.mu.Lock()
		rs.cStarted = true
		cc := r.cc
		r.mu.Unlock()
		if q.reqMis != 0 {
			vs.G.Inc("fault.req_declared_length_mismatch")
		}
		res, err := cc.RoundTrip(req)
		if err != nil {
			r.mu.Lock()
			rs.cFailed = true
			r.mu.Unlock()
			ok, why := r.excused(i, "roundtrip")
			r.logf(i, "c%d: roundtrip error (%s): %v", i, why, err)
			if !ok {
				r.setViol(vs.Violf("C34", "roundtrip_error", "resp:roundtrip_error", "request %d (%s %s): RoundTrip failed although the request is well-formed and the connection is %s: %v", i, q.method, q.path, r.connState(), err))
			} else {
				vs.G.Inc("run.roundtrip_error_" + why)
			}
			return
		}
		closeBody := func() {
			r.mu.Lock()
			rs.cClosed = true
			r.mu.Unlock()
			res.Body.Close()
		}
		r.mu.Lock()
		rs.gotResp = true
		hHeader, hStarted := rs.hHeader, rs.hStarted
		r.mu.Unlock()
		r.logf(i, "c%d: response %d", i, res.StatusCode)
		if !hStarted {
			r.setViol(vs.Violf("C34", "response_without_handler", "resp:no_handler", "request %d: response %d received but the handler never ran", i, res.StatusCode))
			closeBody()
			return
		}
		// status and header fields: exactly what the handler set (a handler that
		// did not reach its WriteHeader answers an implicit 200 without fields)
		wantStatus, wantHdr := 200, []hnField(nil)
		if hHeader {
			wantStatus, wantHdr = q.status, q.rhdr
		}
		if res.StatusCode != wantStatus {
			r.setViol(vs.Violf("C34", "response_status", "resp:status", "request %d: handler answered %d, client received %d", i, wantStatus, res.StatusCode))
			closeBody()
			return
		}
		if d := hnDiff(hnMultiset(wantHdr), hnObserved(res.Header, "X-Vf-")); d != "" {
			r.setViol(vs.Violf("C34", "response_headers", "resp:headers", "request %d: response header fields differ: %s", i, d))
			closeBody()
			return
		}
		if len(wantHdr) > 0 {
			vs.G.Inc("probe.resp_headers_checked")
		}
		// body
		bufLen := 1
		for _, k := range q.readSizes {
			bufLen = max(bufLen, min(k, 1<<16))
		}
		buf := make([]byte, bufLen)
		var total int64
		nread := 0
		var rerr error
		for {
			if nread < q.readStepped {
				tk.Step("read")
			}
			k := min(len(buf), q.readSizes[nread%len(q.readSizes)])
			nread++
			n, err := res.Body.Read(buf[:k])
			for j := 0; j < n; j++ {
				if buf[j] != hnRespByte(i, total+int64(j)) {
					r.setViol(vs.Violf("C34", "response_body_bytes", "resp:body_byte", "request %d: response body byte at offset %d is %#x, the handler wrote %#x", i, total+int64(j), buf[j], hnRespByte(i, total+int64(j))))
					closeBody()
					return
				}
			}
			total += int64(n)
			r.mu.Lock()
			rs.cRead = total
			hWrote := rs.hWrote
			r.mu.Unlock()
			if hHeader && q.rdeclCL >= 0 && q.method != "HEAD" && total > q.rdeclCL {
				r.setViol(vs.Violf("C34", "response_body_extra", "resp:beyond_declared_cl", "request %d: response declared Content-Length %d but the client has read %d body bytes", i, q.rdeclCL, total))
				closeBody()
				return
			}
			if total > hWrote && n > 0 {
				// (hWrote is advanced before the bytes are handed to Write)
				r.setViol(vs.Violf("C34", "response_body_extra", "resp:more_than_written", "request %d: client has read %d body bytes, the handler has written only %d", i, total, hWrote))
				closeBody()
				return
			}
			if err != nil {
				rerr = err
				break
			}
			if n == 0 && k > 0 {
				vs.G.Inc("probe.resp_zero_read")
			}
		}
		r.logf(i, "c%d: body %d bytes, err=%v", i, total, rerr)
		r.mu.Lock()
		hDone, hWrote, hTrailers, hErrCL := rs.hDone, rs.hWrote, rs.hTrailers, rs.hErrCL
		r.mu.Unlock()
		if rerr != io.EOF {
			ok, why := r.excused(i, "read")
			if !ok {
				r.setViol(vs.Violf("C34", "response_body_error", "resp:read_error", "request %d: reading the response body failed after %d bytes although nothing is wrong with the exchange (connection %s): %v", i, total, r.connState(), rerr))
			} else {
				vs.G.Inc("run.read_error_" + why)
				if why == "response_shorter_than_declared" {
					vs.G.Inc("probe.short_response_reported")
				}
			}
			tk.Step("close")
			closeBody()
			return
		}
		// clean EOF: the body must be complete
		bodyless := q.method == "HEAD" || (hHeader && hnNoBodyStatus(q.status))
		if bodyless {
			if total != 0 {
				r.setViol(vs.Violf("C34", "response_body_length", "resp:bodyless_body", "request %d: %s response with status %d carried %d body bytes", i, q.method, res.StatusCode, total))
			} else {
				vs.G.Inc("probe.bodyless_exchange")
				r.mu.Lock()
				r.okResp++
				r.mu.Unlock()
			}
			tk.Step("close")
			closeBody()
			return
		}
		declared := int64(-1)
		if hHeader {
			declared = q.rdeclCL
		}
		if declared >= 0 && total != declared {
			r.setViol(vs.Violf("C34", "declared_length_clean_eof", "resp:declared_cl_clean_eof", "request %d: response declared Content-Length %d but the body ended with a clean EOF after %d bytes", i, declared, total))
			closeBody()
			return
		}
		if declared != 0 && !hDone {
			// (a response with Content-Length: 0 is complete with its header)
			r.setViol(vs.Violf("C34", "response_eof_before_handler_end", "resp:eof_early", "request %d: response body ended with a clean EOF after %d bytes but the handler has not returned", i, total))
			closeBody()
			return
		}
		if declared != 0 && total != hWrote {
			r.setViol(vs.Violf("C34", "response_body_length", "resp:body_length", "request %d: handler wrote %d body bytes (Write results), client read %d before a clean EOF", i, hWrote, total))
			closeBody()
			return
		}
		if q.respMis > 0 && hDone && !hErrCL && hHeader {
			r.setViol(vs.Violf("C34", "overlong_write_accepted", "resp:overlong_write_accepted", "request %d: handler declared Content-Length %d and wrote %d bytes without any Write reporting an error", i, q.rdeclCL, q.rbody))
			closeBody()
			return
		}
		// trailers
		var wantTr []hnField
		if hTrailers {
			wantTr = append(append(wantTr, q.rtrailers...), q.rptrailers...)
		}
		if declared == 0 {
			// no body reader: trailers are not delivered for an empty declared body
			wantTr = nil
		}
		if d := hnDiff(hnMultiset(wantTr), hnObserved(res.Trailer, "X-Vf-")); d != "" && declared != 0 {
			r.setViol(vs.Violf("C34", "response_trailers", "resp:trailers", "request %d: response trailers differ: %s", i, d))
			closeBody()
			return
		}
		if len(wantTr) > 0 {
			vs.G.Inc("probe.resp_trailers_checked")
		}
		r.mu.Lock()
		r.okResp++
		r.mu.Unlock()
		vs.G.Inc("probe.exchange_complete")
		if total >= 64<<10 {
			vs.G.Inc("probe.resp_body_ge_64k")
		}
		if q.respMis > 0 {
			vs.G.Inc("probe.overlong_response_truncated_at_cl")
		}
		tk.Step("close")
		closeBody()
	}
}

// ---------------------------------------------------------------------------
// C34: handler

func (r *hnRun) handler(w http.ResponseWriter, req *http.Request) {
	idx := -1
	if p := req.URL.Path; strings.HasPrefix(p, "/r") {
		if j := strings.IndexByte(p[2:], '/'); j > 0 {
			if v, err := strconv.Atoi(p[2 : 2+j]); err == nil {
				idx = v
			}
		}
	}
	if idx < 0 || idx >= len(r.reqs) {
		r.setViol(vs.Violf("C34", "unknown_request_in_handler", "req:unknown", "handler invoked for a request the client never sent: %s %s", req.Method, req.RequestURI))
		return
	}
	q := r.p.reqs[idx]
	rs := r.reqs[idx]
	r.mu.Lock()
	rs.hCount++
	dup := rs.hCount > 1
	rs.hStarted = true
	cStarted := rs.cStarted
	r.mu.Unlock()
	if dup {
		r.setViol(vs.Violf("C34", "request_duplicated", "req:duplicate", "request %d reached the handler twice", idx))
		return
	}
	if !cStarted {
		r.setViol(vs.Violf("C34", "unknown_request_in_handler", "req:not_sent", "handler invoked for request %d which the client has not sent", idx))
		return
	}
	tk := r.sim.Attach(fmt.Sprintf("h%d", idx))
	defer func() {
		rec := recover()
		r.mu.Lock()
		rs.hDone = true
		r.mu.Unlock()
		tk.Finish()
		if rec != nil && !vs.IsAbort(rec) {
			r.setViol(vs.Violf("C34", "panic", "handler_side_panic", "panic in handler %d inside the code under test: %v\n%s", idx, rec, hnStack()))
		}
	}()

	// --- the request as the handler sees it
	if req.Method != q.method {
		r.setViol(vs.Violf("C34", "request_method", "req:method", "request %d: sent method %q, handler sees %q", idx, q.method, req.Method))
		return
	}
	if req.RequestURI != q.path || req.URL.RequestURI() != q.path {
		r.setViol(vs.Violf("C34", "request_path", "req:path", "request %d: sent :path %q, handler sees RequestURI %q URL %q", idx, q.path, req.RequestURI, req.URL.RequestURI()))
		return
	}
	if d := hnDiff(hnMultiset(q.hdr), hnObserved(req.Header, "X-Vf-")); d != "" {
		r.setViol(vs.Violf("C34", "request_headers", "req:headers", "request %d: request header fields differ: %s", idx, d))
		return
	}
	if len(q.hdr) > 0 {
		vs.G.Inc("probe.req_headers_checked")
	}
	wantCL := int64(-1)
	switch {
	case q.hasBody && q.declLen > 0:
		wantCL = q.declLen
	case !q.hasBody && (q.method == "POST" || q.method == "PUT" || q.method == "PATCH"):
		wantCL = 0
	}
	if q.hasBody && req.ContentLength != wantCL {
		r.setViol(vs.Violf("C34", "request_content_length", "req:content_length", "request %d: client declared ContentLength %d, handler sees %d", idx, wantCL, req.ContentLength))
		return
	}
	w.Header().Set("Content-Type", "application/octet-stream")

	bufLen := 1
	for _, op := range q.ops {
		if op.kind == "read" || op.kind == "readall" {
			bufLen = max(bufLen, min(op.n, 1<<16))
		}
	}
	buf := make([]byte, bufLen)
	var respOff int64
	sawEOF := false
	// the body the handler may see: never more than the client sent, never more
	// than it declared
	limit := int64(q.body)
	if q.declLen > 0 {
		limit = min(limit, q.declLen)
	}
	readOnce := func(n int) error {
		n = max(1, min(n, len(buf)))
		m, err := req.Body.Read(buf[:n])
		r.mu.Lock()
		off := rs.hRead
		r.mu.Unlock()
		for j := 0; j < m; j++ {
			if off+int64(j) >= limit {
				r.setViol(vs.Violf("C34", "request_body_extra", "req:body_extra", "request %d: handler read more than %d body bytes (client sent %d, declared %d)", idx, limit, q.body, q.declLen))
				return errors.New("vf: stop")
			}
			if buf[j] != hnReqByte(idx, off+int64(j)) {
				r.setViol(vs.Violf("C34", "request_body_bytes", "req:body_byte", "request %d: handler read %#x at body offset %d, the client sent %#x", idx, buf[j], off+int64(j), hnReqByte(idx, off+int64(j))))
				return errors.New("vf: stop")
			}
		}
		r.mu.Lock()
		rs.hRead += int64(m)
		total := rs.hRead
		r.mu.Unlock()
		if err == io.EOF && !sawEOF {
			sawEOF = true
			if q.declLen > 0 && total != q.declLen {
				r.setViol(vs.Violf("C34", "declared_length_clean_eof", "req:declared_cl_clean_eof", "request %d: client declared Content-Length %d (body reader produced %d bytes) but the handler's body ended with a clean EOF after %d bytes", idx, q.declLen, q.body, total))
				return err
			}
			if total != int64(q.body) {
				r.setViol(vs.Violf("C34", "request_body_length", "req:body_short_eof", "request %d: client sent %d body bytes, handler read %d before a clean EOF", idx, q.body, total))
				return err
			}
			if d := hnDiff(hnMultiset(q.trailers), hnObserved(req.Trailer, "X-Vf-")); d != "" {
				r.setViol(vs.Violf("C34", "request_trailers", "req:trailers", "request %d: request trailers differ: %s", idx, d))
				return err
			}
			if len(q.trailers) > 0 {
				vs.G.Inc("probe.req_trailers_checked")
			}
			if q.hasBody {
				vs.G.Inc("probe.req_body_complete")
				if q.body >= 64<<10 {
					vs.G.Inc("probe.req_body_ge_64k")
				}
			}
		} else if err != nil && err != io.EOF {
			if ok, why := r.excused(idx, "handler"); !ok {
				r.setViol(vs.Violf("C34", "request_body_error", "req:read_error", "request %d: reading the request body failed after %d of %d bytes although nothing is wrong with the exchange (connection %s): %v", idx, total, q.body, r.connState(), err))
			} else {
				vs.G.Inc("run.handler_read_error_" + why)
				if why == "request_length_mismatch" {
					vs.G.Inc("probe.request_mismatch_reported")
				}
			}
		}
		return err
	}
	for _, op := range q.ops {
		tk.Step(op.kind)
		switch op.kind {
		case "read":
			err := readOnce(op.n)
			r.logf(idx, "h%d: read -> %d err=%v", idx, rs.hRead, err)
		case "readall":
			var err error
			for err == nil {
				err = readOnce(op.n)
			}
			r.logf(idx, "h%d: readall -> %d err=%v", idx, rs.hRead, err)
		case "header":
			h := w.Header()
			for _, f := range q.rhdr {
				h.Add(f.k, f.v)
			}
			if len(q.trailerHdr) > 0 {
				h["Trailer"] = append([]string(nil), q.trailerHdr...)
			}
			if q.rdeclCL >= 0 {
				h.Set("Content-Length", strconv.FormatInt(q.rdeclCL, 10))
				if q.respMis != 0 {
					vs.G.Inc("fault.resp_declared_length_mismatch")
				}
			}
			r.mu.Lock()
			rs.hHeader = true
			r.mu.Unlock()
			w.WriteHeader(q.status)
			r.logf(idx, "h%d: header %d", idx, q.status)
		case "write":
			b := make([]byte, op.n)
			for j := range b {
				b[j] = hnRespByte(idx, respOff+int64(j))
			}
			// the bytes may reach the client before Write returns: account for
			// them first, correct afterwards
			r.mu.Lock()
			rs.hWrote = respOff + int64(len(b))
			r.mu.Unlock()
			n, err := w.Write(b)
			respOff += int64(n)
			r.mu.Lock()
			rs.hWrote = respOff
			if errors.Is(err, http.ErrContentLength) {
				rs.hErrCL = true
			}
			r.mu.Unlock()
			if errors.Is(err, http.ErrContentLength) {
				vs.G.Inc("probe.handler_errcontentlength")
			}
			r.logf(idx, "h%d: write %d -> %d err=%v", idx, op.n, n, err)
		case "flush":
			w.(http.Flusher).Flush()
		case "trailers":
			h := w.Header()
			for _, f := range q.rtrailers {
				h.Add(f.k, f.v)
			}
			for _, f := range q.rptrailers {
				h.Add(http.TrailerPrefix+f.k, f.v)
			}
			r.mu.Lock()
			rs.hTrailers = true
			r.mu.Unlock()
		case "sleep":
			time.Sleep(op.dur)
		}
	}
}

// ---------------------------------------------------------------------------
// C34: one run

var hnC34Probes = []string{"probe.exchange_complete", "probe.req_headers_checked", "probe.resp_headers_checked", "probe.req_trailers_checked",
	"probe.resp_trailers_checked", "probe.req_body_complete", "probe.req_body_ge_64k", "probe.resp_body_ge_64k", "probe.req_eof_with_data",
	"probe.short_response_reported", "probe.request_mismatch_reported", "probe.handler_errcontentlength", "probe.overlong_response_truncated_at_cl",
	"probe.bodyless_exchange"}

func hnRunC34(t *testing.T, rt *rapid.T) {
	cfg := vs.Config()
	p := hnDrawPlan(rt, cfg)
	tape := vs.DrawTape(rt, 4000)
	tr := vs.NewTrace()
	var viol *vs.Violation
	var simDur time.Duration
	var harness string
	nontrivial := false
	for _, name := range hnC34Probes {
		vs.G.Add(name, 0)
	}
	deadlock := vs.Bubble(t, func() {
		sim := vs.NewSim(tape, tr)
		sim.MaxSteps = vs.Thorough(14000, 60000)
		sim.Horizon = p.faults.HealAt + 120*time.Second
		ctx, cancel := context.WithCancel(context.Background())
		r := &hnRun{p: p, sim: sim, tr: tr, ctx: ctx}
		for range p.reqs {
			r.reqs = append(r.reqs, &hnReqState{})
		}
		pnet := vs.NewPacketNet(sim, p.faults)
		pnet.DecideOverride = func(from, to netip.AddrPort, seq uint64, b []byte, f vs.Fate) vs.Fate {
			if f.Drop || f.Dup || f.Extra > 0 {
				r.mu.Lock()
				r.nfaults++
				r.mu.Unlock()
			}
			return f
		}
		srvNode, cliNode := pnet.Node("10.0.0.1:443"), pnet.Node("10.0.0.2:5000")
		srvCfg, cliCfg := p.srv.config(true, p.randSeed*2+2), p.cli.config(false, p.randSeed*2+1)
		srvEP, err1 := quic.NewEndpoint(srvNode, srvCfg)
		cliEP, err2 := quic.NewEndpoint(cliNode, nil)
		if err1 != nil || err2 != nil {
			harness = fmt.Sprint("endpoint: ", err1, err2)
			cancel()
			return
		}
		f := &p.faults
		tr.Ev("plan C34 cfg=%s cli=%+v srv=%+v gzip=%v faults={lat=%v jit=%v loss=%d dup=%d reo=%d/%v heal=%v part=%v} reqs=%d",
			cfg, p.cli, p.srv, !p.noGzip, f.BaseLatency, f.Jitter, f.LossPct, f.DupPct, f.ReorderPct, f.ReorderMax, f.HealAt, f.Partitions, len(p.reqs))
		for i, q := range p.reqs {
			tr.Ev("  req %d %s %s hdr=%d/%dB body=%d decl=%d mis=%d chunks=%v stepped=%d eofData=%v trailers=%d | status=%d explicit=%v rhdr=%d/%dB rbody=%d rdecl=%d rmis=%d tr=%d+%d mode=%s ops=%d",
				i, q.method, q.path, len(q.hdr), hnFieldsSize(q.hdr), q.body, q.declLen, q.reqMis, q.chunks, q.stepped, q.eofData, len(q.trailers),
				q.status, q.explicit, len(q.rhdr), hnFieldsSize(q.rhdr), q.rbody, q.rdeclCL, q.respMis, len(q.rtrailers), len(q.rptrailers), q.mode, len(q.ops))
		}
		srv := &server{config: srvCfg, handler: http.HandlerFunc(r.handler)}
		served := make(chan struct{})
		go func() {
			defer close(served)
			srv.serve(srvEP)
		}()
		tp := &transport{endpoint: cliEP, config: cliCfg, tr1: &http.Transport{DisableCompression: p.noGzip}, activeConns: make(map[*clientConn]struct{})}
		sim.Go("dial", "C34", func(tk *vs.Task) {
			tk.Step("dial")
			cc, err := tp.dial(ctx, "10.0.0.1:443", nil)
			r.mu.Lock()
			r.cc, r.dialErr, r.dialDone = cc, err, true
			r.mu.Unlock()
			if err != nil {
				return
			}
			for i := range p.reqs {
				sim.Go(fmt.Sprintf("c%d", i), "C34", r.caller(i))
			}
		})
		sim.Check = func() *vs.Violation {
			r.mu.Lock()
			defer r.mu.Unlock()
			return r.viol
		}
		sim.Run()
		viol = sim.Viol
		r.mu.Lock()
		if viol == nil {
			viol = r.viol
		}
		dialErr, dialDone := r.dialErr, r.dialDone
		r.mu.Unlock()
		state := r.connState()
		if viol == nil && dialDone && dialErr != nil {
			if strings.Contains(dialErr.Error(), "handshake timeout") {
				vs.G.Inc("run.handshake_timeout")
			} else {
				viol = vs.Violf("C34", "dial_failed", "net:dial_failed", "the HTTP/3 client could not connect to the HTTP/3 server over a network that heals at %v: %v", p.faults.HealAt, dialErr)
			}
		}
		if viol == nil && sim.Stuck {
			pending := sim.PendingTasks()
			sort.Strings(pending)
			if hnTimeoutDeath(state) {
				vs.G.Inc("run.stuck_after_conn_death")
			} else {
				var logs []string
				r.mu.Lock()
				for _, rs := range r.reqs {
					logs = append(logs, rs.log...)
				}
				r.mu.Unlock()
				viol = vs.Violf("C34", "liveness", "net:stuck_after_heal", "%v of simulated time after the network healed (at %v) these tasks have not finished (connection %s, %d datagrams in flight): %v\n%s", 120*time.Second, p.faults.HealAt, state, pnet.InFlight(), pending, strings.Join(logs, "\n"))
			}
		}
		if viol == nil && !hnTimeoutDeath(state) && state != "alive" && state != "none" {
			viol = vs.Violf("C34", "connection_error", "net:conn_error", "the connection between the HTTP/3 client and server ended although both are honest: %s", state)
		}
		r.mu.Lock()
		r.ending = true
		started := false
		for _, rs := range r.reqs {
			started = started || rs.cStarted
		}
		nontrivial = r.okResp > 0
		if cfg == "fault" {
			nontrivial = started && r.nfaults > 0
		}
		r.mu.Unlock()
		if sim.StepsOut {
			vs.G.Inc("run.steps_exhausted")
		}
		simDur = sim.Elapsed()
		// teardown: nothing may outlive the bubble
		cancel()
		ectx, ecancel := context.WithCancel(context.Background())
		ecancel()
		cliEP.Close(ectx)
		srvEP.Close(ectx)
		cliNode.Close()
		srvNode.Close()
		<-served
		if !sim.Drain() && harness == "" {
			harness = fmt.Sprintf("tasks did not exit at teardown: %v", sim.PendingTasks())
		}
		for i := 0; i < 5; i++ {
			sim.Sleep(time.Second)
		}
	})
	if deadlock != "" && viol == nil && harness == "" {
		harness = "bubble did not wind down: " + deadlock
	}
	vs.G.EndRun(tr, nontrivial, simDur, func() any {
		return map[string]any{"config": cfg, "trace_head": tr.Log[:min(len(tr.Log), 50)]}
	})
	if harness != "" && viol == nil {
		vs.LogTrace(rt, tr)
		vs.Harnessf(rt, "%s", harness)
	}
	vs.Report(rt, viol, tr)
}

func TestVerif_C34(t *testing.T) { vs.Check(t, func(rt *rapid.T) { hnRunC34(t, rt) }) }
