// Engine socks5 (C54): the SOCKS5 dialer (Dialer.DialContext / DialWithConn /
// Dial) against a simulated SOCKS5 server inside a synctest bubble.
//
// The simulator plays the server on end B of a vs.StreamConn: it decodes the
// client's greeting, RFC 1929 sub-negotiation and request with the parser in this
// file (written from RFC 1928 / RFC 1929, it shares nothing with client.go) and
// answers with a generated script: valid replies with IPv4 / IPv6 / FQDN bound
// addresses, or one fault (truncation at every byte position followed by EOF or
// by silence, wrong version at any stage, 0xFF method, failed authentication,
// non-zero REP, non-zero RSV, unknown ATYP, a delay that may exceed the context
// deadline, connection cut, context cancellation at an arbitrary step). Delivery
// of every byte in both directions is split by the scheduler.
//
// Oracle clauses (what the property statement says, nothing more):
//   request_mismatch        a complete request decoded by the server names another
//                           command / host / port / ATYP than the one asked for
//   greeting_malformed,     the bytes before the request cannot be decoded by a
//   auth_request            conforming server (so it would never see the request)
//   request_incomplete      the client waits for a reply to a request it never completed
//   valid_reply_rejected    complete valid exchange, context still live, yet an error
//   bound_addr_mismatch     returned bound address != the one in the reply
//   malformed_reply_accepted / success_without_reply
//                           success although the reply was malformed, truncated,
//                           a failure reply, or not sent yet
//   hang                    a truncated/late reply must produce an error: with a
//                           context deadline (or after cancellation) the dial must
//                           return within the deadline + slack of simulated time
//   panic                   never
// Whether the forward connection is closed on error is recorded
// (probe.err_conn_closed / stat.err_conn_left_open) but not asserted: the
// property statement does not mention it.

package socks

import (
	"bytes"
	"context"
	"errors"
	"fmt"
	"io"
	"net"
	"net/netip"
	"os"
	"strconv"
	"testing"
	"time"

	vs "golang.org/x/net/internal/verifsim"
	"pgregory.net/rapid"
)

const (
	s5APIDialContext = iota
	s5APIDialWithConn
	s5APIDial
)

type s5Dest struct {
	Class string // ipv4 ipv6 ipv6mapped fqdn fqdn_long port0 malformed
	Host  string
	Port  int
	Addr  string // what is passed to the dialer
	// expected encodings (any of them is exact): ATYP + address bytes
	Enc [][]byte
}

type s5Bound struct {
	Atyp byte
	Raw  []byte // 4 / 16 / name bytes
	Port int
}

type s5Plan struct {
	API     int
	Network string
	Dest    s5Dest
	Auth    int // 0 none; 1 offers [0,2]; 2 offers [2]; 3 offers [2,0]
	User    string
	Pass    string
	Method  byte // method the server selects
	Bound   s5Bound
	Garbage []byte
	Eager   bool // server writes its whole script before reading anything

	Fault      string // "", trunc_eof, trunc_stall, wrong_version, no_acceptable, auth_fail, reply_code, rsv, atyp, odd_method
	FaultStage int
	FaultByte  byte
	TruncAt    int

	CtxKind     int // 0 background, 1 cancellable (never cancelled unless Cancel), 2 deadline
	Timeout     time.Duration
	DelayStage  int // -1 none
	Delay       time.Duration
	Cancel      bool
	CancelAfter time.Duration
	Cut         bool
}

func s5Fill(c vs.Chooser, n int, mode int, seed uint32) []byte {
	b := make([]byte, n)
	x := seed*2654435761 + 12345
	const alpha = "abcdefghijklmnopqrstuvwxyz0123456789-."
	for i := range b {
		x = x*1664525 + 1013904223
		switch mode {
		case 0:
			b[i] = 'x'
		case 1:
			b[i] = alpha[(x>>16)%uint32(len(alpha))]
		default:
			b[i] = byte(x >> 13)
		}
	}
	return b
}

func s5DrawDest(c vs.Chooser, faulty bool) s5Dest {
	var d s5Dest
	d.Port = 1 + c.Intn(65535)
	switch c.Intn(6) {
	case 0:
		d.Port = 80
	case 1:
		d.Port = vs.Pick(c, 1, 255, 256, 257, 443, 32768, 65535, 0xff00, 0x00ff)
	}
	kind := c.Intn(20)
	switch {
	case kind < 5: // IPv4
		ip := [4]byte{byte(c.Intn(256)), byte(c.Intn(256)), byte(c.Intn(256)), byte(c.Intn(256))}
		d.Class = "ipv4"
		d.Host = fmt.Sprintf("%d.%d.%d.%d", ip[0], ip[1], ip[2], ip[3])
		d.Enc = [][]byte{append([]byte{1}, ip[:]...)}
	case kind < 9: // IPv6
		var ip [16]byte
		switch c.Intn(5) {
		case 0: // ::
		case 1:
			ip[15] = 1
		case 2: // v4-mapped
			ip[10], ip[11] = 0xff, 0xff
			for i := 12; i < 16; i++ {
				ip[i] = byte(c.Intn(256))
			}
		case 3:
			for i := range ip {
				if vs.Bool(c) {
					ip[i] = byte(c.Intn(256))
				}
			}
		default:
			for i := range ip {
				ip[i] = byte(c.Intn(256))
			}
		}
		a := netip.AddrFrom16(ip)
		d.Class = "ipv6"
		d.Enc = [][]byte{append([]byte{4}, ip[:]...)}
		if a.Is4In6() {
			// ::ffff:a.b.c.d denotes the IPv4 address a.b.c.d: both encodings name it.
			d.Class = "ipv6mapped"
			d.Enc = append(d.Enc, append([]byte{1}, ip[12:]...))
		}
		switch c.Intn(3) {
		case 0:
			d.Host = a.String()
		case 1:
			d.Host = a.StringExpanded()
		default:
			d.Host = fmt.Sprintf("%X:%X:%X:%X:%X:%X:%X:%X", uint16(ip[0])<<8|uint16(ip[1]), uint16(ip[2])<<8|uint16(ip[3]),
				uint16(ip[4])<<8|uint16(ip[5]), uint16(ip[6])<<8|uint16(ip[7]), uint16(ip[8])<<8|uint16(ip[9]),
				uint16(ip[10])<<8|uint16(ip[11]), uint16(ip[12])<<8|uint16(ip[13]), uint16(ip[14])<<8|uint16(ip[15]))
		}
	case kind < 17: // name
		n := 1
		switch c.Intn(4) {
		case 0:
			n = vs.Range(c, 1, 20)
		case 1:
			n = vs.Pick(c, 1, 2, 63, 64, 127, 128, 253, 254, 255)
		case 2:
			n = vs.Range(c, 1, 255)
		default:
			n = vs.Pick(c, 256, 257, 300, 511, 512, 600, 65535+2)
		}
		name := s5Fill(c, n, c.Intn(3), uint32(c.Intn(1<<16)))
		for i, ch := range name {
			// characters net.SplitHostPort gives a meaning to are not part of a bare host
			if ch == ':' || ch == '[' || ch == ']' {
				name[i] = '-'
			}
		}
		name[0] = "ghijklmnopqrstuvwxyz"[int(name[0])%20] // never an IP literal
		d.Host = string(name)
		d.Class = "fqdn"
		if n > 255 {
			d.Class = "fqdn_long"
		} else {
			d.Enc = [][]byte{append([]byte{3, byte(n)}, name...)}
		}
	case kind < 18: // port 0
		d.Class = "port0"
		d.Port = 0
		d.Host = "host.example"
		d.Enc = [][]byte{append([]byte{3, byte(len(d.Host))}, d.Host...)}
	default:
		d.Class = "malformed"
		d.Addr = vs.Pick(c, "host.example", "host.example:", "host.example:http", "host.example:65536", "host.example:-1",
			"[::1", "a:b:c", "host:80:90", "", ":", "[::1]", "[::1]:", "::1:80", "host.example:99999999999999999999", "host.example: 80")
		return d
	}
	d.Addr = net.JoinHostPort(d.Host, strconv.Itoa(d.Port))
	return d
}

func s5DrawPlan(rt *rapid.T, faulty bool) *s5Plan {
	c := vs.RapidChooser{T: rt}
	p := &s5Plan{DelayStage: -1}
	p.API = vs.Pick(c, s5APIDialContext, s5APIDialContext, s5APIDialWithConn, s5APIDial)
	p.Network = vs.Pick(c, "tcp", "tcp4", "tcp6")
	p.Dest = s5DrawDest(c, faulty)
	p.Auth = vs.Pick(c, 0, 0, 1, 1, 2, 3)
	if p.Auth != 0 {
		ul := vs.Pick(c, 8, 1, 255, 17, 0, 256)
		pl := vs.Pick(c, 8, 0, 1, 255, 33, 256)
		p.User = string(s5Fill(c, ul, c.Intn(3), uint32(c.Intn(1<<16))))
		p.Pass = string(s5Fill(c, pl, c.Intn(3), uint32(c.Intn(1<<16))))
	}
	switch p.Auth {
	case 0:
		p.Method = 0
	case 2:
		p.Method = 2
	default:
		p.Method = vs.Pick(c, byte(2), byte(0))
	}
	// bound address in the reply
	switch c.Intn(3) {
	case 0:
		p.Bound.Atyp = 1
		p.Bound.Raw = s5Fill(c, 4, 2, uint32(c.Intn(1<<16)))
		if vs.Pct(c, 30) {
			p.Bound.Raw = []byte{0, 0, 0, 0}
		}
	case 1:
		p.Bound.Atyp = 4
		p.Bound.Raw = s5Fill(c, 16, 2, uint32(c.Intn(1<<16)))
	default:
		p.Bound.Atyp = 3
		n := vs.Pick(c, 11, 0, 1, 2, 3, 4, 5, 6, 16, 63, 128, 254, 255, vs.Range(c, 0, 255))
		p.Bound.Raw = s5Fill(c, n, c.Intn(3), uint32(c.Intn(1<<16)))
	}
	p.Bound.Port = vs.Pick(c, 1080, 0, 1, 255, 256, 0xff00, 65535, c.Intn(65536))
	if vs.Pct(c, 30) {
		p.Garbage = s5Fill(c, vs.Range(c, 1, 40), 2, uint32(c.Intn(1<<16)))
	}
	p.Eager = vs.Pct(c, 15)
	if p.API != s5APIDial {
		p.CtxKind = c.Intn(3)
	}
	if p.CtxKind == 2 {
		p.Timeout = time.Duration(vs.Pick(c, 1000, 1, 10, 30000, 250)) * time.Millisecond
	}
	if !faulty {
		return p
	}
	// fault configuration: one server fault and/or timing faults
	stages := 2
	if p.Method == 2 {
		stages = 3
	}
	switch c.Intn(12) {
	case 0, 1:
		p.Fault = "trunc_eof"
		p.TruncAt = c.Intn(600) // reduced modulo the script length at run time
	case 2:
		if p.CtxKind != 0 {
			p.Fault = "trunc_stall"
			p.TruncAt = c.Intn(600)
			if p.CtxKind == 1 {
				p.Cancel = true
			}
		}
	case 3:
		p.Fault = "wrong_version"
		p.FaultStage = c.Intn(stages)
		p.FaultByte = byte(vs.Pick(c, 4, 0, 1, 6, 255, c.Intn(256)))
	case 4:
		p.Fault = "no_acceptable"
		p.Method = 0xff
	case 5:
		if p.Method == 2 {
			p.Fault = "auth_fail"
			p.FaultByte = byte(1 + c.Intn(255))
		}
	case 6:
		p.Fault = "reply_code"
		p.FaultByte = byte(vs.Pick(c, 1, 2, 3, 4, 5, 6, 7, 8, 9, 255, 1+c.Intn(255)))
	case 7:
		p.Fault = "rsv"
		p.FaultByte = byte(1 + c.Intn(255))
	case 8:
		p.Fault = "atyp"
		p.FaultByte = byte(vs.Pick(c, 0, 2, 5, 255, c.Intn(256)))
		if p.FaultByte == 1 || p.FaultByte == 3 || p.FaultByte == 4 {
			p.FaultByte = 2
		}
	case 9:
		if p.Auth != 0 {
			// a method the configured Authenticate function does not implement
			p.Fault = "odd_method"
			p.Method = byte(vs.Pick(c, 1, 3, 0x80, 0xfe))
		}
	}
	// timing
	stages = 2
	if p.Method == 2 {
		stages = 3
	}
	if p.CtxKind == 2 && vs.Pct(c, 50) {
		p.DelayStage = c.Intn(stages)
		// never on a millisecond boundary: no tie with the deadline timer
		p.Delay = time.Duration(vs.Pick(c, 2, 1, 0, 3))*p.Timeout/2 + 500*time.Microsecond
	}
	if p.CtxKind != 0 && (p.Cancel || vs.Pct(c, 25)) {
		p.Cancel = true
		p.CancelAfter = time.Duration(vs.Pick(c, 0, 0, 1, 7, 400))*time.Millisecond + 250*time.Microsecond
		if vs.Bool(c) {
			p.CancelAfter = 0
		}
	}
	p.Cut = vs.Pct(c, 15)
	return p
}

// ---------------------------------------------------------------------------
// The simulated server (RFC 1928 / RFC 1929, server side).

type s5Req struct {
	Ver, Cmd, Rsv, Atyp byte
	Addr                []byte
	Port                int
}

type s5Server struct {
	p    *s5Plan
	conn net.Conn
	tr   *vs.Trace

	stages   [][]byte
	required int // bytes of a complete exchange (without trailing garbage)
	limit    int // -1: none; else total bytes the server will send (truncation)
	sent     int
	stalled  bool
	closedW  bool
	faultOn  bool // the faulty bytes were actually sent

	phase      string // what the server is waiting for
	inbuf      []byte // bytes received and not yet consumed... (only for diagnostics)
	greetingOK bool
	greeting   []byte
	authSeen   bool
	authUser   string
	authPass   string
	req        *s5Req
	viol       *vs.Violation
	readErr    error
	fullSent   bool
}

func (s *s5Server) build() {
	p := s.p
	st0 := []byte{5, p.Method}
	var st1 []byte
	if p.Method == 2 {
		st1 = []byte{1, 0}
	}
	st2 := []byte{5, 0, 0, p.Bound.Atyp}
	if p.Bound.Atyp == 3 {
		st2 = append(st2, byte(len(p.Bound.Raw)))
	}
	st2 = append(st2, p.Bound.Raw...)
	st2 = append(st2, byte(p.Bound.Port>>8), byte(p.Bound.Port))
	switch p.Fault {
	case "wrong_version":
		switch {
		case p.FaultStage == 0:
			if p.FaultByte == 5 {
				p.FaultByte = 4
			}
			st0[0] = p.FaultByte
		case p.FaultStage == 1 && st1 != nil:
			if p.FaultByte == 1 {
				p.FaultByte = 0
			}
			st1[0] = p.FaultByte
		default:
			if p.FaultByte == 5 {
				p.FaultByte = 4
			}
			st2[0] = p.FaultByte
		}
	case "auth_fail":
		st1[1] = p.FaultByte
	case "reply_code":
		st2[1] = p.FaultByte
	case "rsv":
		st2[2] = p.FaultByte
	case "atyp":
		st2[3] = p.FaultByte
	}
	s.stages = [][]byte{st0, st1, st2}
	s.required = len(st0) + len(st1) + len(st2)
	s.limit = -1
	if p.Fault == "trunc_eof" || p.Fault == "trunc_stall" {
		s.limit = p.TruncAt % s.required
	}
}

// emit sends stage i (subject to delay and truncation).
func (s *s5Server) emit(tk *vs.Task, i int) {
	b := s.stages[i]
	if len(b) == 0 || s.stalled || s.closedW {
		return
	}
	if s.p.DelayStage == i && s.p.Delay > 0 {
		tk.Step(fmt.Sprintf("srv sleep %v before stage %d", s.p.Delay, i))
		time.Sleep(s.p.Delay)
		vs.G.Inc("fault.server_delay")
	}
	if i == 2 && len(s.p.Garbage) > 0 && s.limit < 0 {
		if s.p.TruncAt%2 == 0 {
			// same segment as the reply
			b = append(append([]byte(nil), b...), s.p.Garbage...)
		}
	}
	cut := false
	if s.limit >= 0 && s.sent+len(b) > s.limit {
		b = b[:s.limit-s.sent]
		cut = true
	}
	tk.Step(fmt.Sprintf("srv write stage %d (%d bytes)", i, len(b)))
	if len(b) > 0 {
		s.conn.Write(b)
		s.sent += len(b)
	}
	s.noteFault(i, cut)
	if cut {
		if s.p.Fault == "trunc_eof" {
			tk.Step("srv close")
			s.conn.(*vs.StreamEnd).CloseWrite()
			s.closedW = true
			vs.G.Inc("fault.truncate_eof")
		} else {
			s.stalled = true
			vs.G.Inc("fault.truncate_stall")
		}
		return
	}
	if i == 2 {
		s.fullSent = s.p.Fault == "" || s.p.Fault == "odd_method"
		if len(s.p.Garbage) > 0 && s.limit < 0 && s.p.TruncAt%2 != 0 {
			tk.Step("srv write trailing bytes")
			s.conn.Write(s.p.Garbage)
		}
		if len(s.p.Garbage) > 0 {
			vs.G.Inc("fault.bytes_after_reply")
		}
	}
}

func (s *s5Server) noteFault(stage int, cut bool) {
	if s.faultOn {
		return
	}
	p := s.p
	hit := false
	switch p.Fault {
	case "wrong_version":
		hit = stage == p.FaultStage || (stage == 2 && (p.FaultStage >= 2 || (p.FaultStage == 1 && len(s.stages[1]) == 0)))
	case "no_acceptable", "odd_method":
		hit = stage == 0
	case "auth_fail":
		hit = stage == 1
	case "reply_code", "rsv", "atyp":
		hit = stage == 2
	}
	if hit {
		s.faultOn = true
		vs.G.Inc("fault." + p.Fault)
	}
}

func (s *s5Server) readN(n int) ([]byte, error) {
	b := make([]byte, n)
	got := 0
	for got < n {
		k, err := s.conn.Read(b[got:])
		got += k
		if err != nil {
			s.readErr = err
			return b[:got], err
		}
	}
	return b, nil
}

func (s *s5Server) run(tk *vs.Task) {
	p := s.p
	if p.Eager {
		for i := range s.stages {
			s.emit(tk, i)
		}
		vs.G.Inc("probe.eager_server")
	}
	// --- greeting: VER NMETHODS METHODS
	s.phase = "greeting"
	h, err := s.readN(2)
	if err != nil {
		return
	}
	if h[0] != 5 || h[1] == 0 {
		s.viol = vs.Violf("C54", "greeting_malformed", "greeting", "client greeting starts with % x (want VER=5, NMETHODS>=1)", h)
		return
	}
	ms, err := s.readN(int(h[1]))
	if err != nil {
		return
	}
	s.greeting = append(h, ms...)
	s.greetingOK = true
	s.tr.Ev("srv: greeting methods=% x", ms)
	if !p.Eager {
		s.emit(tk, 0)
	}
	if p.Method == 0xff {
		// RFC 1928: the client MUST close the connection; wait for it.
		s.phase = "eof_after_no_acceptable"
		s.drain()
		return
	}
	// --- RFC 1929 sub-negotiation
	if p.Method == 2 {
		s.phase = "auth"
		h, err := s.readN(2)
		if err != nil {
			return
		}
		if h[0] != 1 {
			s.viol = vs.Violf("C54", "auth_request", "auth_version", "username/password request starts with % x (want VER=1)", h)
			return
		}
		u, err := s.readN(int(h[1]))
		if err != nil {
			return
		}
		pl, err := s.readN(1)
		if err != nil {
			return
		}
		pw, err := s.readN(int(pl[0]))
		if err != nil {
			return
		}
		s.authSeen, s.authUser, s.authPass = true, string(u), string(pw)
		s.tr.Ev("srv: auth ulen=%d plen=%d", len(u), len(pw))
		if s.authUser != p.User || s.authPass != p.Pass || len(u) == 0 {
			s.viol = vs.Violf("C54", "auth_request", "auth_credentials", "server decoded username %q (len %d) password len %d, configured username len %d password len %d",
				vs.Hex(u), len(u), len(pw), len(p.User), len(p.Pass))
			return
		}
		vs.G.Inc("probe.auth_userpass_decoded")
		if !p.Eager {
			s.emit(tk, 1)
		}
	}
	// --- request: VER CMD RSV ATYP DST.ADDR DST.PORT
	s.phase = "request"
	h, err = s.readN(4)
	if err != nil {
		return
	}
	r := &s5Req{Ver: h[0], Cmd: h[1], Rsv: h[2], Atyp: h[3]}
	s.phase = "request_addr"
	switch r.Atyp {
	case 1:
		r.Addr, err = s.readN(4)
	case 4:
		r.Addr, err = s.readN(16)
	case 3:
		var l []byte
		l, err = s.readN(1)
		if err == nil {
			r.Addr, err = s.readN(int(l[0]))
		}
	default:
		s.req = r // undecodable address type: reported by the oracle
		s.tr.Ev("srv: request with unknown ATYP %d", r.Atyp)
		return
	}
	if err != nil {
		return
	}
	s.phase = "request_port"
	pb, err := s.readN(2)
	if err != nil {
		return
	}
	r.Port = int(pb[0])<<8 | int(pb[1])
	s.req = r
	s.tr.Ev("srv: request cmd=%d atyp=%d alen=%d port=%d", r.Cmd, r.Atyp, len(r.Addr), r.Port)
	if !p.Eager {
		s.emit(tk, 2)
	}
	s.phase = "relay"
	s.drain()
}

// drain reads until the client closes (or the connection breaks).
func (s *s5Server) drain() {
	b := make([]byte, 256)
	for {
		_, err := s.conn.Read(b)
		if err != nil {
			return
		}
	}
}

// ---------------------------------------------------------------------------

type s5Result struct {
	returned bool
	err      error
	bound    net.Addr
	isConn   bool
	at       time.Duration // simulated time of return
	ctxErrAt error         // ctx.Err() right after the return
	cutAt    bool          // connection had been cut by the simulator before the return
	fullAt   bool          // server had sent a complete valid reply before the return
	closedAt bool          // forward conn closed by the dialer at return
	cutEver  bool          // the simulator cut the connection at some point of the run
	trailing []byte
	trailErr error
}

func s5Run(rt *rapid.T, t *testing.T) {
	faulty := vs.Config() == "fault"
	for _, n := range []string{"probe.success_bound_ipv4", "probe.success_bound_ipv6", "probe.success_bound_fqdn", "probe.dest_fqdn_255",
		"probe.dest_fqdn_too_long_refused", "probe.dest_ipv6_mapped", "probe.auth_userpass_decoded", "probe.err_conn_closed", "probe.eager_server"} {
		vs.G.Add(n, 0)
	}
	if faulty {
		for _, n := range []string{"probe.returned_at_deadline", "probe.returned_on_cancel", "probe.error_on_faulty_reply"} {
			vs.G.Add(n, 0)
		}
	}
	p := s5DrawPlan(rt, faulty)
	tape := vs.DrawTape(rt, 256)
	tr := vs.NewTrace()
	tr.Ev("plan api=%d net=%s class=%s hostlen=%d port=%d auth=%d method=%d bound=%d/%d/%d fault=%s/%d/%d/%d eager=%v ctx=%d/%v delay=%d/%v cancel=%v/%v cut=%v garbage=%d",
		p.API, p.Network, p.Dest.Class, len(p.Dest.Host), p.Dest.Port, p.Auth, p.Method, p.Bound.Atyp, len(p.Bound.Raw), p.Bound.Port,
		p.Fault, p.FaultStage, p.FaultByte, p.TruncAt, p.Eager, p.CtxKind, p.Timeout, p.DelayStage, p.Delay, p.Cancel, p.CancelAfter, p.Cut, len(p.Garbage))

	var viol *vs.Violation
	var simDur time.Duration
	var res s5Result
	var srv *s5Server
	var harness string
	nontrivial := false
	const slack = time.Second

	deadlock := vs.Bubble(t, func() {
		sim := vs.NewSim(tape, tr)
		sim.MaxSteps, sim.Horizon = 4000, 2*time.Minute
		conn := vs.NewStreamConn(sim, "s5")
		conn.AllowCut = p.Cut
		srv = &s5Server{p: p, conn: conn.B, tr: tr}
		srv.build()

		ctx := context.Background()
		cancel := func() {}
		switch p.CtxKind {
		case 1:
			ctx, cancel = context.WithCancel(ctx)
		case 2:
			ctx, cancel = context.WithTimeout(ctx, p.Timeout)
		}
		var cancelledAt time.Duration = -1

		d := NewDialer("tcp", "proxy.example:1080")
		dials := 0
		d.ProxyDial = func(_ context.Context, network, address string) (net.Conn, error) {
			dials++
			if dials > 1 {
				return nil, errors.New("sim: only one forward connection")
			}
			return conn.A, nil
		}
		if p.Auth != 0 {
			up := &UsernamePassword{Username: p.User, Password: p.Pass}
			d.Authenticate = up.Authenticate
			switch p.Auth {
			case 1:
				d.AuthMethods = []AuthMethod{AuthMethodNotRequired, AuthMethodUsernamePassword}
			case 2:
				d.AuthMethods = []AuthMethod{AuthMethodUsernamePassword}
			default:
				d.AuthMethods = []AuthMethod{AuthMethodUsernamePassword, AuthMethodNotRequired}
			}
		}

		sim.Go("server", "C54", srv.run)
		dialTask := sim.Go("dial", "C54", func(tk *vs.Task) {
			tk.Step("dial")
			var c net.Conn
			var a net.Addr
			var err error
			switch p.API {
			case s5APIDialContext:
				c, err = d.DialContext(ctx, p.Network, p.Dest.Addr)
				if sc, ok := c.(*Conn); ok && err == nil {
					a = sc.BoundAddr()
					res.isConn = true
				}
			case s5APIDialWithConn:
				a, err = d.DialWithConn(ctx, conn.A, p.Network, p.Dest.Addr)
				if err == nil {
					c = conn.A
				}
			default:
				c, err = d.Dial(p.Network, p.Dest.Addr)
			}
			res.returned, res.err, res.bound = true, err, a
			res.at = sim.Elapsed()
			res.ctxErrAt = ctx.Err()
			res.cutAt = conn.IsCut()
			res.fullAt = srv.fullSent
			res.closedAt = conn.A.IsClosed()
			if err == nil && c != nil && len(p.Garbage) > 0 && srv.fullSent {
				// the bytes after the reply belong to the proxied stream
				tk.Step("read proxied bytes")
				c.SetReadDeadline(time.Now().Add(time.Hour))
				b := make([]byte, len(p.Garbage))
				n, rerr := io.ReadFull(c, b)
				res.trailing, res.trailErr = b[:n], rerr
			}
			tk.Step("close")
			conn.A.Close()
		})
		if p.Cancel {
			sim.Go("canceller", "C54", func(tk *vs.Task) {
				if p.CancelAfter > 0 {
					time.Sleep(p.CancelAfter)
				}
				tk.Step("cancel context")
				cancel()
				cancelledAt = sim.Elapsed()
				if !res.returned {
					vs.G.Inc("fault.ctx_cancel")
				}
			})
		}
		sim.Check = func() *vs.Violation {
			if srv.viol != nil {
				return srv.viol
			}
			if !res.returned {
				el := sim.Elapsed()
				if p.CtxKind == 2 && el > p.Timeout+slack {
					return vs.Violf("C54", "hang", "past_deadline", "dial has not returned %v after a context deadline of %v (server phase %q)", el, p.Timeout, srv.phase)
				}
				if cancelledAt >= 0 && el > cancelledAt+slack {
					return vs.Violf("C54", "hang", "past_cancel", "dial has not returned %v after the context was cancelled at %v (server phase %q)", el, cancelledAt, srv.phase)
				}
			}
			return nil
		}
		sim.Run()
		viol = sim.Viol
		if viol == nil && !dialTask.Done() {
			// horizon or step budget reached with the dial still pending
			switch {
			case sim.StepsOut:
				harness = fmt.Sprintf("step budget exhausted: %v", sim.PendingTasks())
			case p.CtxKind == 2 || cancelledAt >= 0:
				viol = vs.Violf("C54", "hang", "past_deadline", "dial never returned (context deadline %v, cancelled at %v, server phase %q)", p.Timeout, cancelledAt, srv.phase)
			case srv.stalled || srv.closedW || conn.IsCut():
				if srv.stalled {
					harness = "planned stall without a context bound"
				} else {
					viol = vs.Violf("C54", "hang", "after_eof", "dial never returned although the server closed or reset the connection (server phase %q)", srv.phase)
				}
			case srv.req == nil && srv.readErr == nil && !res.returned && (srv.phase == "request" || srv.phase == "request_addr" || srv.phase == "request_port" || srv.phase == "auth" || srv.phase == "greeting"):
				viol = vs.Violf("C54", "request_incomplete", "stuck_"+srv.phase, "client waits for a reply but a conforming server is still waiting for the rest of the client's message (phase %q)", srv.phase)
			default:
				harness = fmt.Sprintf("dial pending at the horizon: %v server phase %q", sim.PendingTasks(), srv.phase)
			}
		} else if viol == nil && (sim.Stuck || sim.StepsOut) {
			harness = fmt.Sprintf("run did not finish: stuck=%v stepsout=%v pending=%v", sim.Stuck, sim.StepsOut, sim.PendingTasks())
		}
		// teardown
		res.cutEver = conn.IsCut()
		cancel()
		conn.Cut(errors.New("sim: teardown"))
		conn.A.Close()
		conn.B.Close()
		sim.Abort()
		conn.StopTimers()
		simDur = sim.Elapsed()
	})
	if deadlock != "" && viol == nil && harness == "" {
		harness = "goroutines left in bubble: " + deadlock
	}
	if viol == nil && harness == "" {
		viol = s5Judge(p, srv, &res, tr, slack)
	}
	nontrivial = srv != nil && srv.greetingOK
	if faulty && nontrivial {
		nontrivial = srv.faultOn || srv.stalled || srv.closedW || p.Cancel || p.Cut || p.DelayStage >= 0
	}
	vs.G.EndRun(tr, nontrivial, simDur, func() any {
		return map[string]any{"plan": fmt.Sprintf("%+v", struct {
			API            int
			Class, Addr    string
			Auth           int
			Method         byte
			Fault          string
			Ctx            int
			Timeout, Delay time.Duration
		}{p.API, p.Dest.Class, s5Short(p.Dest.Addr), p.Auth, p.Method, p.Fault, p.CtxKind, p.Timeout, p.Delay}),
			"events": tr.Log[:min(len(tr.Log), 40)]}
	})
	if os.Getenv("VERIF_DEBUG_TRACE") != "" {
		fmt.Printf("TRACE %x\n", tr.Hash())
		for _, l := range tr.Log {
			fmt.Printf("  | %s\n", l)
		}
	}
	if harness != "" {
		vs.Harnessf(rt, "%s", harness)
	}
	vs.Report(rt, viol, tr)
}

func s5Short(s string) string {
	if len(s) > 60 {
		return fmt.Sprintf("%s…(%d bytes)", s[:40], len(s))
	}
	return s
}

// s5Judge evaluates the end-of-run oracle.
func s5Judge(p *s5Plan, srv *s5Server, res *s5Result, tr *vs.Trace, slack time.Duration) *vs.Violation {
	if !res.returned {
		return nil // the dial task was never scheduled to completion (reported above)
	}
	ok := res.err == nil
	// (at the deadline instant itself ctx.Err() may or may not be set yet: the context's
	// timer and the connection's deadline timer fire in unspecified order)
	tr.Ev("result ok=%v ctxdone=%v cut=%v full=%v", ok, res.ctxErrAt != nil || (p.CtxKind == 2 && res.at >= p.Timeout), res.cutAt, res.fullAt)
	vs.G.Inc("dest." + p.Dest.Class)

	// 1. the request a conforming server decoded
	if r := srv.req; r != nil && p.Dest.Class != "malformed" {
		want := fmt.Sprintf("host %q (%d bytes) port %d", s5Short(p.Dest.Host), len(p.Dest.Host), p.Dest.Port)
		got := fmt.Sprintf("VER=%d CMD=%d RSV=%d ATYP=%d ADDR=%s (%d bytes) PORT=%d", r.Ver, r.Cmd, r.Rsv, r.Atyp, vs.Hex(r.Addr), len(r.Addr), r.Port)
		if r.Ver != 5 || r.Cmd != 1 || r.Rsv != 0 {
			return vs.Violf("C54", "request_mismatch", "header:"+p.Dest.Class, "request header is not VER=5 CMD=CONNECT RSV=0: %s", got)
		}
		match := false
		enc := append([]byte{r.Atyp}, r.Addr...)
		if r.Atyp == 3 {
			enc = append([]byte{3, byte(len(r.Addr))}, r.Addr...)
		}
		for _, e := range p.Dest.Enc {
			if bytes.Equal(e, enc) {
				match = true
			}
		}
		if !match {
			return vs.Violf("C54", "request_mismatch", "host:"+p.Dest.Class, "asked for %s, server decoded %s", want, got)
		}
		if r.Port != p.Dest.Port {
			return vs.Violf("C54", "request_mismatch", "port:"+p.Dest.Class, "asked for %s, server decoded %s", want, got)
		}
		switch {
		case p.Dest.Class == "fqdn" && len(p.Dest.Host) == 255:
			vs.G.Inc("probe.dest_fqdn_255")
		case p.Dest.Class == "ipv6mapped":
			vs.G.Inc("probe.dest_ipv6_mapped")
			vs.G.Inc(fmt.Sprintf("stat.ipv6_mapped_sent_as_atyp_%d", r.Atyp))
		}
	}
	if p.Dest.Class == "fqdn_long" && !ok && srv.req == nil {
		vs.G.Inc("probe.dest_fqdn_too_long_refused")
	}

	// 2. the result
	destValid := p.Dest.Class == "ipv4" || p.Dest.Class == "ipv6" || p.Dest.Class == "ipv6mapped" || p.Dest.Class == "fqdn"
	// RFC 1929: ULEN and PLEN are 1..255; an empty password is latitude (either outcome)
	credsValid := p.Method != 2 || (len(p.User) >= 1 && len(p.User) <= 255 && len(p.Pass) >= 1 && len(p.Pass) <= 255)
	scriptValid := p.Fault == ""
	mustFail := false
	switch p.Fault {
	case "trunc_eof", "trunc_stall", "wrong_version", "no_acceptable", "auth_fail", "reply_code", "rsv", "atyp":
		mustFail = true
	}
	if ok {
		if mustFail {
			return vs.Violf("C54", "malformed_reply_accepted", p.Fault, "dial succeeded although the server script had fault %s (stage %d byte %#x, %d of %d bytes sent)",
				p.Fault, p.FaultStage, p.FaultByte, srv.sent, srv.required)
		}
		if !res.fullAt {
			return vs.Violf("C54", "success_without_reply", "early_success", "dial succeeded before the server had sent a complete reply (%d of %d bytes sent)", srv.sent, srv.required)
		}
		if srv.req == nil && p.Dest.Class != "malformed" && !res.cutEver {
			// (a cut destroys bytes still in flight: then the server may never see them)
			return vs.Violf("C54", "request_mismatch", "no_request:"+p.Dest.Class, "dial succeeded but the server never received a complete request (server phase %q)", srv.phase)
		}
		if p.API != s5APIDial {
			if v := s5CheckBound(p, res.bound); v != nil {
				return v
			}
		}
		if len(p.Garbage) > 0 && res.trailing != nil && !bytes.Equal(res.trailing, p.Garbage) {
			// not part of the property; a read error (cut, expired context) explains a short read
			if res.trailErr != nil {
				vs.G.Inc("stat.proxied_read_failed")
			} else {
				vs.G.Inc("stat.proxied_bytes_after_reply_differ")
			}
		}
	} else {
		// the deadline timer of the context and the one of the connection fire at the
		// same instant in unspecified order: the instant itself counts as "expired".
		deadlineHit := p.CtxKind == 2 && res.at >= p.Timeout
		if destValid && credsValid && scriptValid && res.ctxErrAt == nil && !deadlineHit && !res.cutAt {
			return vs.Violf("C54", "valid_reply_rejected", p.Dest.Class, "valid exchange (dest %s, method %d, bound ATYP %d len %d port %d), context live, connection intact, yet: %v",
				s5Short(p.Dest.Addr), p.Method, p.Bound.Atyp, len(p.Bound.Raw), p.Bound.Port, res.err)
		}
		if mustFail && srv.faultOn || srv.stalled || srv.closedW {
			vs.G.Inc("probe.error_on_faulty_reply")
		}
		if p.API == s5APIDialContext {
			if res.closedAt {
				vs.G.Inc("probe.err_conn_closed")
			} else if srv.greetingOK {
				vs.G.Inc("stat.err_conn_left_open")
			}
		}
		if res.ctxErrAt != nil {
			if errors.Is(res.ctxErrAt, context.DeadlineExceeded) {
				vs.G.Inc("probe.returned_at_deadline")
			} else {
				vs.G.Inc("probe.returned_on_cancel")
			}
		}
	}
	// 3. bounded liveness (also checked while running)
	if p.CtxKind == 2 && res.at > p.Timeout+slack {
		return vs.Violf("C54", "hang", "past_deadline", "dial returned at %v, context deadline was %v", res.at, p.Timeout)
	}
	return nil
}

func s5CheckBound(p *s5Plan, a net.Addr) *vs.Violation {
	sa, _ := a.(*Addr)
	if sa == nil {
		return vs.Violf("C54", "bound_addr_mismatch", "nil", "no bound address returned (got %T %v), server sent ATYP %d %s port %d", a, a, p.Bound.Atyp, vs.Hex(p.Bound.Raw), p.Bound.Port)
	}
	bad := false
	switch p.Bound.Atyp {
	case 1, 4:
		if !sa.IP.Equal(net.IP(p.Bound.Raw)) || sa.Name != "" {
			bad = true
		}
	default:
		if len(sa.IP) != 0 || sa.Name != string(p.Bound.Raw) {
			bad = true
		}
	}
	if sa.Port != p.Bound.Port {
		bad = true
	}
	if bad {
		return vs.Violf("C54", "bound_addr_mismatch", fmt.Sprintf("atyp%d", p.Bound.Atyp), "server sent ATYP %d addr %s (%d bytes) port %d; dialer returned IP=%v Name=%q (%d bytes) Port=%d",
			p.Bound.Atyp, vs.Hex(p.Bound.Raw), len(p.Bound.Raw), p.Bound.Port, sa.IP, s5Short(sa.Name), len(sa.Name), sa.Port)
	}
	switch p.Bound.Atyp {
	case 1:
		vs.G.Inc("probe.success_bound_ipv4")
	case 4:
		vs.G.Inc("probe.success_bound_ipv6")
	default:
		vs.G.Inc("probe.success_bound_fqdn")
	}
	return nil
}

func TestVerif_C54(t *testing.T) { vs.Check(t, func(rt *rapid.T) { s5Run(rt, t) }) }
