// Engine tseries: TimeSeries / MinuteHourSeries driven by a simulated Clock and
// generated histories of Add / AddWithTime (in order, out of order, far past, far
// future), clock jumps and reads, against a list-of-(time,value) reference model (C61).
//
// Oracles (DESIGN.md §5 C61, properties.jsonl C61):
//   total     Total() == Σ of every observation ever added (since the last Clear),
//             whatever its timestamp
//   range     Range / ComputeRange / Recent / RecentList over a range whose ends lie
//             on bucket boundaries of a level and whose start lies inside that level's
//             retained window == Σ of the observations with start <= t < finish.
//             Observations whose timestamp is exactly `start` or `finish` of a
//             (sub-)range are don't-cares (the property does not pick a convention).
//   latest    Latest / LatestBuckets / Minute / Hour == Σ of the observations in the
//             num newest buckets (bucket positions read from the series after the
//             call; observations exactly on the two outer boundaries are don't-cares)
//   panic     no panic in Add*/Total/Range/Latest*/Recent*
// Bucket boundaries are implementation-defined, so the harness reads level.end /
// level.size (white-box, read-only) to build aligned queries; the expected sums come
// from the reference list only. Values are small integers (exact in float64).
//
// Two configurations:
//   clean   histories in which no observation is added with a timestamp that is newer
//           than every earlier observation but older than the newest finest bucket
//           (possible only after a read advanced the series past the last observation)
//   gapadd  histories that contain such additions; a Range/Latest mismatch in a run
//           that contained one is reported under its own oracle id
//           (range_after_gap_add) so that it cannot mask, or be masked by, anything else.
// ScaleBy is exercised too, but a panic inside ScaleBy is not a C61 matter: it is
// counted (probe.scaleby_panicked) and ends the run.

package timeseries

import (
	"fmt"
	"testing"
	"time"

	vs "golang.org/x/net/internal/verifsim"
	"pgregory.net/rapid"
)

type tsSimClock struct{ now time.Time }

func (c *tsSimClock) Time() time.Time { return c.now }

type tsObs struct {
	t time.Time
	v float64
}

type tsSim struct {
	ts      *timeSeries
	mh      *MinuteHourSeries
	kind    string
	clk     *tsSimClock
	obs     []tsObs
	tr      *vs.Trace
	exposed bool // a gap add happened in this run (gapadd configuration only)
	gapOK   bool
	reads   int
	adds    int
}

func tsVal(o Observable) float64 { return o.(*Float).Value() }

// sum of observations with lo < t < hi, and exactly at lo / at hi.
func (s *tsSim) sums(lo, hi time.Time) (inner, atLo, atHi float64) {
	for _, o := range s.obs {
		switch {
		case o.t.Equal(lo):
			atLo += o.v
		case o.t.Equal(hi):
			atHi += o.v
		case o.t.After(lo) && o.t.Before(hi):
			inner += o.v
		}
	}
	return
}

func tsAccept(got, inner, atLo, atHi float64) bool {
	return got == inner || got == inner+atLo || got == inner+atHi || got == inner+atLo+atHi
}

func (s *tsSim) rangeOracle() string {
	if s.exposed {
		return "range_after_gap_add"
	}
	return "range"
}

func (s *tsSim) checkTotal(ctx string) *vs.Violation {
	var got float64
	if v := vs.Guard("C61", "panic_in_total", func() { got = tsVal(s.ts.Total()) }); v != nil {
		return v
	}
	want := 0.0
	for _, o := range s.obs {
		want += o.v
	}
	s.tr.Ev("total -> %g", got)
	s.reads++
	if got != want {
		return vs.Violf("C61", "total", s.kind+":total:"+ctx, "Total() = %g, sum of the %d observations added = %g (%s)", got, len(s.obs), want, s.describe())
	}
	return nil
}

func (s *tsSim) describe() string {
	n := len(s.obs)
	str := ""
	for i := max(0, n-8); i < n; i++ {
		str += fmt.Sprintf(" (%s,%g)", s.obs[i].t.UTC().Format("2006-01-02T15:04:05.999999999"), s.obs[i].v)
	}
	return fmt.Sprintf("clock %s, last observations:%s", s.clk.now.UTC().Format("2006-01-02T15:04:05.999999999"), str)
}

// aligned reports whether [start, start+k*step) is aligned to the bucket grids of
// levels 0..lvl and start lies in the retained window of level lvl.
func (s *tsSim) aligned(lvl int, start time.Time, step time.Duration) bool {
	ls := s.ts.levels
	if ls[lvl].end.IsZero() {
		return false
	}
	if start.Before(ls[lvl].end.Add(-ls[lvl].size * time.Duration(s.ts.numBuckets))) {
		return false
	}
	for j := 0; j <= lvl; j++ {
		if ls[j].end.IsZero() || ls[j].end.Sub(start)%ls[j].size != 0 || step%ls[j].size != 0 {
			return false
		}
		if d := ls[j].end.Sub(start); d == time.Duration(1<<63-1) || d == -time.Duration(1<<63-1)-1 {
			return false
		}
	}
	return true
}

// queryRange runs ComputeRange(start, start+num*step, num) (or Range when num==1)
// for an aligned range and checks every slot.
func (s *tsSim) queryRange(api string, lvl int, start time.Time, step time.Duration, num int, call func() []Observable) *vs.Violation {
	ok := s.aligned(lvl, start, step)
	var res []Observable
	if v := vs.Guard("C61", "panic_in_"+api, func() { res = call() }); v != nil {
		return v
	}
	s.reads++
	if len(res) != num {
		s.tr.Ev("%s lvl=%d -> %d results", api, lvl, len(res))
		return nil
	}
	for i := 0; i < num; i++ {
		lo := start.Add(time.Duration(i) * step)
		hi := lo.Add(step)
		got := tsVal(res[i])
		s.tr.Ev("%s lvl=%d start=%d step=%d slot=%d aligned=%v -> %g", api, lvl, start.UnixNano(), int64(step), i, ok, got)
		if !ok {
			continue
		}
		inner, atLo, atHi := s.sums(lo, hi)
		if atLo != 0 || atHi != 0 {
			vs.G.Inc("probe.boundary_observation_dont_care")
		}
		if lvl > 0 {
			vs.G.Inc("probe.range_on_coarse_level")
		}
		vs.G.Inc("checked.range")
		if !tsAccept(got, inner, atLo, atHi) {
			return vs.Violf("C61", s.rangeOracle(), fmt.Sprintf("%s:%s:level%d", s.kind, api, lvl),
				"%s slot %d of %d over [%s, +%v) (aligned to level %d, bucket %v) = %g, observations strictly inside sum to %g (exactly at start: %g, exactly at end: %g); %s",
				api, i, num, lo.UTC().Format("2006-01-02T15:04:05.999999999"), step, lvl, s.ts.levels[lvl].size, got, inner, atLo, atHi, s.describe())
		}
	}
	return nil
}

// checkLatest verifies the result of Latest-like calls: sum over the num newest
// buckets of level lvl, bucket positions taken from the series after the call.
func (s *tsSim) checkLatest(api string, lvl, num int, got []float64, perBucket bool) *vs.Violation {
	l := s.ts.levels[lvl]
	s.reads++
	if l.end.IsZero() {
		return nil
	}
	n := 1
	if perBucket {
		n = num
	}
	for i := 0; i < n; i++ {
		hi := l.end
		lo := l.end.Add(-time.Duration(num) * l.size)
		if perBucket {
			hi = l.end.Add(-time.Duration(i) * l.size)
			lo = hi.Add(-l.size)
		}
		inner, atLo, atHi := s.sums(lo, hi)
		s.tr.Ev("%s lvl=%d num=%d slot=%d -> %g", api, lvl, num, i, got[i])
		vs.G.Inc("checked.latest")
		if !tsAccept(got[i], inner, atLo, atHi) {
			o := "latest"
			if s.exposed {
				o = "range_after_gap_add"
			}
			return vs.Violf("C61", o, fmt.Sprintf("%s:%s:level%d", s.kind, api, lvl),
				"%s(level %d, num %d) slot %d = %g; the buckets cover (%s, +%v] where the observations strictly inside sum to %g (exactly at start: %g, exactly at end: %g); %s",
				api, lvl, num, i, got[i], lo.UTC().Format("2006-01-02T15:04:05.999999999"), hi.Sub(lo), inner, atLo, atHi, s.describe())
		}
	}
	return nil
}

// add performs one AddWithTime / Add. It returns skipped=true if the clean
// configuration refused the operation.
func (s *tsSim) add(v float64, t time.Time, viaClock bool) (viol *vs.Violation, skipped bool) {
	l0 := s.ts.levels[0]
	// white-box classification of the path (read-only), for probes and for the
	// clean/gapadd split
	switch {
	case t.After(s.ts.pendingTime):
		if !l0.end.IsZero() && !t.After(l0.end.Add(-l0.size)) {
			if !s.gapOK {
				vs.G.Inc("probe.gap_add_skipped")
				return nil, true
			}
			s.exposed = true
			vs.G.Inc("probe.gap_add")
		}
		if !l0.end.IsZero() && !t.Before(l0.end.Add(l0.size*time.Duration(s.ts.numBuckets))) {
			vs.G.Inc("probe.level0_cleared_by_jump")
		}
		last := s.ts.levels[len(s.ts.levels)-1]
		if !last.end.IsZero() && !t.Before(last.end.Add(last.size*time.Duration(s.ts.numBuckets))) {
			vs.G.Inc("probe.all_levels_cleared_by_jump")
		}
	case t.After(s.ts.pendingTime.Add(-l0.size)):
		vs.G.Inc("probe.pending_fast_path")
	default:
		vs.G.Inc("probe.out_of_order_merge")
		vs.G.Inc("fault.out_of_order_add")
		last := s.ts.levels[len(s.ts.levels)-1]
		if !last.end.IsZero() && t.Before(last.end.Add(-last.size*time.Duration(s.ts.numBuckets))) {
			vs.G.Inc("probe.older_than_every_level")
		}
	}
	f := Float(v)
	if viaClock {
		s.tr.Ev("Add %g (clock %d)", v, t.UnixNano())
		viol = vs.Guard("C61", "panic_in_add", func() { s.ts.Add(&f) })
	} else {
		s.tr.Ev("AddWithTime %g t=%d", v, tsNano(t))
		viol = vs.Guard("C61", "panic_in_add", func() { s.ts.AddWithTime(&f, t) })
	}
	s.obs = append(s.obs, tsObs{t, v})
	s.adds++
	return viol, false
}

func tsNano(t time.Time) int64 {
	if t.Year() < 1700 || t.Year() > 2250 {
		return int64(t.Year())
	}
	return t.UnixNano()
}

func tsRun(rt *rapid.T) {
	c := vs.RapidChooser{T: rt}
	tr := vs.NewTrace()
	for _, p := range []string{"probe.pending_fast_path", "probe.out_of_order_merge", "probe.older_than_every_level", "probe.level0_cleared_by_jump", "probe.all_levels_cleared_by_jump",
		"probe.range_on_coarse_level", "probe.boundary_observation_dont_care", "probe.scaleby_panicked", "probe.scaleby_ok",
		"fault.clock_jump_forward", "fault.clock_jump_backward", "fault.out_of_order_add", "fault.far_future_add", "fault.far_past_add"} {
		vs.G.Add(p, 0)
	}
	gap := vs.Config() == "gapadd"
	if gap {
		vs.G.Add("probe.gap_add", 0)
	} else {
		vs.G.Add("probe.gap_add_skipped", 0)
	}

	base := vs.Pick(c,
		time.Date(2013, 1, 1, 0, 0, 0, 0, time.UTC),
		time.Date(2000, 1, 1, 0, 0, 0, 0, time.UTC),
		time.Unix(5, 0),
		time.Date(2013, 6, 30, 23, 59, 59, 500_000_000, time.UTC),
		time.Date(1960, 3, 1, 12, 0, 0, 250_000_000, time.UTC),
		time.Date(2150, 1, 1, 0, 0, 0, 1, time.UTC))
	clk := &tsSimClock{now: base}
	s := &tsSim{clk: clk, tr: tr, gapOK: gap}
	if vs.Bool(c) {
		s.kind = "minutehour"
		s.mh = NewMinuteHourSeriesWithClock(NewFloat, clk)
		s.ts = &s.mh.timeSeries
	} else {
		s.kind = "timeseries"
		s.ts = &NewTimeSeriesWithClock(NewFloat, clk).timeSeries
	}
	nl := len(s.ts.levels)
	nb := s.ts.numBuckets
	tr.Ev("kind=%s base=%d", s.kind, base.UnixNano())
	start := base
	var viol *vs.Violation
	scaled := 0
	aborted := false

	randDur := func() time.Duration {
		switch c.Intn(8) {
		case 0:
			return time.Duration(c.Intn(2_000_000_000)) // < 2 s, ns resolution
		case 1:
			return time.Duration(c.Intn(5)) * time.Second // exact seconds: bucket boundaries
		case 2:
			return time.Duration(c.Intn(130)) * time.Second
		case 3:
			return time.Duration(c.Intn(130))*time.Minute + time.Duration(c.Intn(60))*time.Second
		case 4:
			return time.Duration(c.Intn(100)) * time.Hour
		case 5:
			return time.Duration(c.Intn(400))*24*time.Hour + time.Duration(c.Intn(1_000_000_000))
		case 6:
			return time.Duration(c.Intn(30)) * 365 * 24 * time.Hour
		default:
			return vs.Pick(c, time.Second, time.Nanosecond, 999_999_999*time.Nanosecond, 10*time.Second, time.Minute, 64*time.Second, 63*time.Second, 65*time.Second, time.Hour, 59*time.Minute+59*time.Second)
		}
	}
	value := func() float64 {
		return float64(vs.Pick(c, 1, 2, 3, 10, 100, 1000, 0, -1, -7, 1<<20))
	}

	nops := vs.Range(c, 1, vs.Thorough(60, 200))
	for op := 0; op < nops && viol == nil; op++ {
		switch k := c.Intn(16); k {
		case 0: // clock moves
			d := randDur()
			if vs.Pct(c, 8) && clk.now.Add(-d).Year() > 1950 {
				clk.now = clk.now.Add(-d)
				vs.G.Inc("fault.clock_jump_backward")
				tr.Ev("clock -%d", int64(d))
			} else if clk.now.Add(d).Year() < 2200 {
				clk.now = clk.now.Add(d)
				if d > time.Hour {
					vs.G.Inc("fault.clock_jump_forward")
				}
				tr.Ev("clock +%d", int64(d))
			}
		case 1, 2: // Add at the clock's time, clock ticking a little
			if vs.Bool(c) {
				clk.now = clk.now.Add(time.Duration(c.Intn(1_500_000_000)))
			}
			viol, _ = s.add(value(), clk.now, true)
		case 3, 4, 5, 6: // AddWithTime
			var t time.Time
			switch c.Intn(9) {
			case 0:
				t = clk.now
			case 1: // a little in the past
				t = clk.now.Add(-time.Duration(c.Intn(3_000_000_000)))
			case 2: // in the past, any distance
				t = clk.now.Add(-randDur())
			case 3: // exactly on a whole second near the clock
				t = clk.now.Truncate(time.Second).Add(-time.Duration(c.Intn(70)) * time.Second)
			case 4: // relative to the newest observation
				if n := len(s.obs); n > 0 {
					t = s.obs[n-1].t.Add(time.Duration(c.Intn(4_000_000_000)) - 2*time.Second)
				} else {
					t = clk.now
				}
			case 5: // future
				t = clk.now.Add(randDur())
				if t.Sub(clk.now) > 24*time.Hour {
					vs.G.Inc("fault.far_future_add")
				}
			case 6: // far past
				t = vs.Pick(c, clk.now.Add(-40*365*24*time.Hour), time.Date(1900, 1, 1, 0, 0, 0, 0, time.UTC), time.Date(1969, 12, 31, 23, 59, 59, 999_999_999, time.UTC), time.Unix(0, 0), time.Time{})
				vs.G.Inc("fault.far_past_add")
			case 7: // on a bucket boundary of some level (white-box read of the grid)
				l := s.ts.levels[c.Intn(nl)]
				if l.end.IsZero() {
					t = clk.now
				} else {
					t = l.end.Add(-time.Duration(c.Intn(nb+2)) * l.size)
				}
			default: // between the last observation and the clock (after reads: the gap)
				if n := len(s.obs); n > 0 && clk.now.After(s.obs[n-1].t) {
					d := clk.now.Sub(s.obs[n-1].t)
					if d > 0 && d < 1<<40 {
						t = s.obs[n-1].t.Add(time.Duration(c.Intn(int(d))))
					} else {
						t = clk.now.Add(-time.Duration(c.Intn(100)) * time.Second)
					}
				} else {
					t = clk.now
				}
			}
			if t.Year() > 2200 {
				t = clk.now
			}
			viol, _ = s.add(value(), t, false)
		case 7: // Total
			viol = s.checkTotal("op")
		case 8, 9: // aligned Range at a level
			lvl := c.Intn(nl)
			l := s.ts.levels[lvl]
			if l.end.IsZero() {
				continue
			}
			j1 := vs.Range(c, 1, nb)
			j2 := vs.Range(c, -2, j1-1)
			st := l.end.Add(-time.Duration(j1) * l.size)
			fin := l.end.Add(-time.Duration(j2) * l.size)
			viol = s.queryRange("Range", lvl, st, fin.Sub(st), 1, func() []Observable { return []Observable{s.ts.Range(st, fin)} })
		case 10: // aligned ComputeRange with several slots
			lvl := c.Intn(nl)
			l := s.ts.levels[lvl]
			if l.end.IsZero() {
				continue
			}
			num := vs.Range(c, 1, 8)
			per := vs.Range(c, 1, 4)
			j1 := vs.Range(c, 1, nb)
			st := l.end.Add(-time.Duration(j1) * l.size)
			step := time.Duration(per) * l.size
			fin := st.Add(time.Duration(num) * step)
			viol = s.queryRange("ComputeRange", lvl, st, step, num, func() []Observable { return s.ts.ComputeRange(st, fin, num) })
		case 11: // Latest / LatestBuckets / Minute / Hour (these read the clock and advance the series)
			lvl := c.Intn(nl)
			num := vs.Range(c, 1, nb)
			if vs.Pct(c, 40) {
				clk.now = clk.now.Add(randDur() % (3 * time.Hour))
				tr.Ev("clock -> %d", clk.now.UnixNano())
			}
			switch {
			case s.kind == "minutehour" && vs.Bool(c):
				var got float64
				if vs.Bool(c) {
					viol = vs.Guard("C61", "panic_in_latest", func() { got = tsVal(s.mh.Minute()) })
					if viol == nil {
						viol = s.checkLatest("Minute", 0, 60, []float64{got}, false)
					}
				} else {
					viol = vs.Guard("C61", "panic_in_latest", func() { got = tsVal(s.mh.Hour()) })
					if viol == nil {
						viol = s.checkLatest("Hour", 1, 60, []float64{got}, false)
					}
				}
			case vs.Pct(c, 30) && num < nb:
				var res []Observable
				viol = vs.Guard("C61", "panic_in_latest", func() { res = s.ts.LatestBuckets(lvl, num) })
				if viol == nil && len(res) == num {
					got := make([]float64, num)
					for i := range res {
						got[i] = tsVal(res[i])
					}
					viol = s.checkLatest("LatestBuckets", lvl, num, got, true)
				}
			default:
				var got float64
				viol = vs.Guard("C61", "panic_in_latest", func() { got = tsVal(s.ts.Latest(lvl, num)) })
				if viol == nil {
					viol = s.checkLatest("Latest", lvl, num, []float64{got}, false)
				}
			}
		case 12: // Recent / RecentList, clock aligned to a level's grid half of the time
			lvl := c.Intn(nl)
			l := s.ts.levels[lvl]
			if l.end.IsZero() {
				continue
			}
			if vs.Bool(c) {
				// move the clock forward to the next boundary of the level's grid
				r := l.end.Sub(clk.now) % l.size
				if r < 0 {
					r += l.size
				}
				if l.end.Sub(clk.now) != time.Duration(1<<63-1) && clk.now.Add(r).Year() < 2200 {
					clk.now = clk.now.Add(r)
					tr.Ev("clock -> %d (aligned)", clk.now.UnixNano())
				}
			}
			m := vs.Range(c, 1, nb)
			now := clk.now
			if vs.Bool(c) {
				delta := time.Duration(m) * l.size
				viol = s.queryRange("Recent", lvl, now.Add(-delta), delta, 1, func() []Observable { return []Observable{s.ts.Recent(delta)} })
			} else {
				num := vs.Range(c, 1, 6)
				step := time.Duration(vs.Range(c, 1, 3)) * l.size
				delta := time.Duration(num) * step
				viol = s.queryRange("RecentList", lvl, now.Add(-delta), step, num, func() []Observable { return s.ts.RecentList(delta, num) })
			}
		case 13: // unaligned reads: approximate by contract, only "no panic"
			st := clk.now.Add(-randDur())
			fin := st.Add(randDur() + 1)
			var got float64
			viol = vs.Guard("C61", "panic_in_range", func() { got = tsVal(s.ts.Range(st, fin)) })
			tr.Ev("Range unaligned -> %g", got)
			s.reads++
		case 14:
			switch {
			case vs.Pct(c, 10) && scaled < 3: // ScaleBy
				f := vs.Pick(c, 2.0, 0, 1, 3, -1, 0.5)
				panicked := vs.Guard("C61", "scaleby", func() { s.ts.ScaleBy(f) }) != nil
				tr.Ev("ScaleBy %g panicked=%v", f, panicked)
				if panicked {
					// not a C61 matter; the series is half-scaled now: stop here
					vs.G.Inc("probe.scaleby_panicked")
					aborted = true
					op = nops
					continue
				}
				vs.G.Inc("probe.scaleby_ok")
				scaled++
				for i := range s.obs {
					s.obs[i].v *= f
				}
				viol = s.checkTotal("after_scaleby")
			case vs.Pct(c, 15): // Clear
				tr.Ev("Clear")
				viol = vs.Guard("C61", "panic_in_clear", func() { s.ts.Clear() })
				s.obs = nil
				s.exposed = false
			case vs.Pct(c, 10) && s.kind == "minutehour" && !s.ts.levels[1].end.IsZero(): // one observation into every bucket of every level
				for li := 0; li < nl && viol == nil; li++ {
					l := s.ts.levels[li]
					for j := 0; j < nb && viol == nil; j++ {
						viol, _ = s.add(1, l.end.Add(-time.Duration(j)*l.size), false)
					}
				}
			default:
				viol = s.checkTotal("op")
			}
		case 15:
			if gap && vs.Bool(c) {
				// gapadd configuration: a read advances the series past the newest
				// observation, then an observation is added into the gap behind it.
				clk.now = clk.now.Add(2*time.Second + randDur()%(2*time.Hour))
				if clk.now.Year() >= 2200 {
					continue
				}
				tr.Ev("clock -> %d", clk.now.UnixNano())
				var got float64
				lvl := c.Intn(nl)
				viol = vs.Guard("C61", "panic_in_latest", func() { got = tsVal(s.ts.Latest(lvl, 1)) })
				if viol == nil {
					viol = s.checkLatest("Latest", lvl, 1, []float64{got}, false)
				}
				l0 := s.ts.levels[0]
				lo, hi := s.ts.pendingTime, l0.end.Add(-l0.size)
				if viol == nil && hi.After(lo) {
					w := hi.Sub(lo)
					if lo.IsZero() || w > time.Hour {
						w = time.Hour
					}
					viol, _ = s.add(value(), hi.Add(-time.Duration(c.Intn(int(w)))), false)
				}
				continue
			}
			fallthrough
		default: // a burst of in-order observations, one per tick
			n := vs.Range(c, 1, 20)
			tick := vs.Pick(c, 100*time.Millisecond, time.Second, 7*time.Second, time.Minute, 250*time.Millisecond, 61*time.Minute)
			for i := 0; i < n && viol == nil; i++ {
				clk.now = clk.now.Add(tick)
				if clk.now.Year() >= 2200 {
					break
				}
				viol, _ = s.add(value(), clk.now, vs.Bool(c))
			}
		}
		if viol == nil && !aborted && vs.Pct(c, 25) {
			viol = s.checkTotal("step")
		}
	}
	if viol == nil && !aborted {
		viol = s.checkTotal("end")
	}
	if gap && s.exposed {
		vs.G.Inc("runs_with_gap_add")
	}
	vs.G.Inc("series." + s.kind)
	sim := clk.now.Sub(start)
	if sim < 0 {
		sim = 0
	}
	if sim > time.Hour {
		sim = time.Hour // the core's nanosecond accumulator would overflow on decades per run
	}
	nontrivial := s.adds > 0 && s.reads > 0
	if gap {
		nontrivial = nontrivial && s.exposed
	}
	vs.G.EndRun(tr, nontrivial, sim, func() any {
		return map[string]any{"series": s.kind, "events": tr.Log[:min(len(tr.Log), 40)]}
	})
	vs.Report(rt, viol, tr)
}

func TestVerif_C61(t *testing.T) { vs.Check(t, tsRun) }
