// Engine limitlsn (C58): netutil.LimitListener under a seeded goroutine
// scheduler inside a testing/synctest bubble.
//
// A run: LimitListener(inner, n), n in 1..4, over a simulated inner
// net.Listener whose Accept blocks until the scheduler hands out a connection
// ("dial" event), injects a transient Accept error ("fail" event, fault
// configuration only) or the listener is closed; a generated fraction of the
// connections has a SLOW Close (the first inner Close call parks until the
// scheduler event "inner close of conn k completes"); 1-6 acceptor goroutines, 1-3
// closer goroutines that close accepted connections (a first time, again, or two
// closers the same connection in one event) and optionally a goroutine that
// closes the listener (once or twice) at an arbitrary point. Actors park before
// every operation; the scheduler loop (vs.Sim on the bubble's root goroutine)
// waits for quiescence, checks the oracles, and releases exactly one operation
// -- or, in a "race" event, two or three (a dial / fail may be one of them)
// without an intervening quiescence.
//
// Oracles (at every quiescent point):
//   - limit: a connection is open from the moment Accept returned it until a
//     Close call on the INNER connection has returned (the resource the limit
//     protects); open connections <= n;
//   - step model: the operations that returned during the step must be
//     explainable in some order by a counting-semaphore specification (Accept
//     returns a connection only while open < n, a connection is available and
//     the listener is not closed; a connection stops being open, exactly once,
//     when an inner Close call on it returns; Accept fails only with an injected
//     inner error or, once the listener
//     is closed, with the inner listener's error);
//   - no lost release / no blocking after Close: no Accept stays blocked while
//     the model has a free slot and the inner listener has something to hand
//     out, or after the listener's Close has returned; Listener.Close never
//     blocks and Conn.Close blocks only inside a parked inner Close;
//   - after teardown (listener and every connection closed) no goroutine stays
//     blocked;
//   - the complete history is checked with porcupine against the same
//     specification.
//
// Latitude: an Accept that overlaps the listener's Close may return the
// connection handed out concurrently or the error (both orders linearize); what
// Close calls return is not constrained.
package netutil

import (
	"errors"
	"fmt"
	"net"
	"sort"
	"strings"
	"sync"
	"sync/atomic"
	"testing"
	"testing/synctest"
	"time"

	"github.com/anishathalye/porcupine"
	vs "golang.org/x/net/internal/verifsim"
	"pgregory.net/rapid"
)

const llProp = "C58"

// ---------------------------------------------------------------------------
// Simulated inner listener and connections

var (
	llErrClosed    = errors.New("verif inner listener closed")
	llErrTransient = errors.New("verif transient accept error")
)

type llAddr int

func (a llAddr) Network() string { return "verif" }
func (a llAddr) String() string  { return fmt.Sprintf("conn%d", int(a)) }

type llInnerConn struct {
	id     int
	h      *llH
	slow   bool        // the first Close call parks until the scheduler releases it
	handed atomic.Bool // returned by the inner listener's Accept
	closes atomic.Int32
	parked atomic.Bool   // a Close call is parked in here
	rel    chan struct{} // the scheduler's "inner close completes"
	once   sync.Once     // the first return of a Close call is reported to the harness
}

func (c *llInnerConn) Read(p []byte) (int, error)  { return 0, net.ErrClosed }
func (c *llInnerConn) Write(p []byte) (int, error) { return 0, net.ErrClosed }

// Close: the first call does the work (slowly, for a slow connection: it parks
// until the scheduler lets it complete); calls made meanwhile or later return
// net.ErrClosed at once, like a real connection. The first return of any call
// is the instant the connection stops being open; it is reported to the
// harness as a scheduler-side pseudo operation.
func (c *llInnerConn) Close() error {
	first := c.closes.Add(1) == 1
	if !c.handed.Load() {
		return nil // closed by the inner listener's own Close, nobody accepted it
	}
	if first && c.slow && !c.h.aborting.Load() {
		c.parked.Store(true)
		<-c.rel
		c.parked.Store(false)
	}
	c.once.Do(func() {
		c.h.complete(&llOp{actor: -1, kind: llInnerClosed, target: c.id, call: c.h.curCall.Load(), cid: -1})
	})
	if !first {
		return net.ErrClosed
	}
	return nil
}
func (c *llInnerConn) LocalAddr() net.Addr              { return llAddr(c.id) }
func (c *llInnerConn) RemoteAddr() net.Addr             { return llAddr(c.id) }
func (c *llInnerConn) SetDeadline(time.Time) error      { return nil }
func (c *llInnerConn) SetReadDeadline(time.Time) error  { return nil }
func (c *llInnerConn) SetWriteDeadline(time.Time) error { return nil }

type llItem struct {
	conn *llInnerConn
	err  error
}

// llInner is a well-behaved listener: Accept blocks until something is in the
// backlog or the listener is closed; after Close it always fails, and Close
// closes the connections nobody accepted.
type llInner struct {
	h       *llH
	mu      sync.Mutex
	cond    *sync.Cond
	backlog []llItem
	closed  bool
	nextID  int
	all     []*llInnerConn
}

func llNewInner(h *llH) *llInner {
	in := &llInner{h: h}
	in.cond = sync.NewCond(&in.mu)
	return in
}

func (in *llInner) Accept() (net.Conn, error) {
	in.mu.Lock()
	defer in.mu.Unlock()
	for !in.closed && len(in.backlog) == 0 {
		in.cond.Wait()
	}
	if in.closed {
		return nil, llErrClosed
	}
	it := in.backlog[0]
	in.backlog = in.backlog[1:]
	if it.err != nil {
		return nil, it.err
	}
	it.conn.handed.Store(true)
	return it.conn, nil
}

func (in *llInner) Close() error {
	in.mu.Lock()
	defer in.mu.Unlock()
	if in.closed {
		return llErrClosed
	}
	in.closed = true
	for _, it := range in.backlog {
		if it.conn != nil {
			it.conn.Close()
		}
	}
	in.backlog = nil
	in.cond.Broadcast()
	return nil
}

func (in *llInner) Addr() net.Addr { return llAddr(-1) }

func (in *llInner) push(fail bool) int {
	in.mu.Lock()
	defer in.mu.Unlock()
	id := -1
	if fail {
		in.backlog = append(in.backlog, llItem{err: llErrTransient})
	} else {
		id = in.nextID
		in.nextID++
		c := &llInnerConn{id: id, h: in.h, rel: make(chan struct{})}
		if id < len(in.h.plan.Slow) {
			c.slow = in.h.plan.Slow[id]
		}
		in.all = append(in.all, c)
		in.backlog = append(in.backlog, llItem{conn: c})
	}
	in.cond.Signal()
	return id
}

// ---------------------------------------------------------------------------
// Plan

type llKind uint8

const (
	llAccept llKind = iota
	llCloseOpen
	llCloseAgain
	llLClose
	llIdle
	llDial // scheduler-side pseudo operations
	llFail
	llInnerClosed // an inner Close call on an accepted connection returned (first time)
	llInnerRel    // scheduler event only: let a parked inner Close complete
)

var llKindName = [...]string{"Accept", "Close", "CloseAgain", "Listener.Close", "idle", "dial", "fail", "innerClosed", "innerRelease"}

type llPlan struct {
	N         int
	Acceptors []int      // number of Accept calls per acceptor
	Closers   [][]llKind // per closer: llCloseOpen / llCloseAgain
	LClose    int        // -1: nobody closes the listener; else idle steps before Close
	LTwice    bool
	Dials     int
	Slow      []bool // per dialled connection: slow inner Close
	Fails     int
	RacePct   int
}

func (p *llPlan) String() string {
	var sb strings.Builder
	slow := make([]byte, len(p.Slow))
	for i, b := range p.Slow {
		slow[i] = map[bool]byte{false: '.', true: 'S'}[b]
	}
	fmt.Fprintf(&sb, "n=%d acceptors=%v dials=%d slow=%q fails=%d race=%d%% lclose=%d twice=%v closers=", p.N, p.Acceptors, p.Dials, slow, p.Fails, p.RacePct, p.LClose, p.LTwice)
	for i, c := range p.Closers {
		if i > 0 {
			sb.WriteString("|")
		}
		for _, k := range c {
			if k == llCloseOpen {
				sb.WriteString("c")
			} else {
				sb.WriteString("A")
			}
		}
	}
	return sb.String()
}

func llDrawPlan(rt *rapid.T) *llPlan {
	c := vs.RapidChooser{T: rt}
	p := &llPlan{}
	p.N = vs.Range(c, 1, 4)
	na := vs.Range(c, 1, 6)
	maxAcc := vs.Thorough(4, 8)
	total := 0
	for i := 0; i < na; i++ {
		k := vs.Range(c, 1, maxAcc)
		total += k
		p.Acceptors = append(p.Acceptors, k)
	}
	nc := vs.Range(c, 1, 3)
	for i := 0; i < nc; i++ {
		n := vs.Range(c, 1, vs.Thorough(6, 12))
		var s []llKind
		for j := 0; j < n; j++ {
			if c.Intn(4) < 3 {
				s = append(s, llCloseOpen)
			} else {
				s = append(s, llCloseAgain)
			}
		}
		p.Closers = append(p.Closers, s)
	}
	p.LClose = -1
	if vs.Pct(c, 60) {
		p.LClose = c.Intn(16)
		p.LTwice = vs.Pct(c, 25)
	}
	p.Dials = c.Intn(min(total+3, 24))
	slowPct := vs.Pick(c, 30, 0, 60, 100)
	for i := 0; i < p.Dials; i++ {
		p.Slow = append(p.Slow, slowPct > 0 && c.Intn(100) >= 100-slowPct)
	}
	if vs.Config() == "fault" {
		p.Fails = vs.Range(c, 1, 4)
	}
	p.RacePct = vs.Pick(c, 30, 0, 10, 60)
	return p
}

// ---------------------------------------------------------------------------
// Operations and the sequential specification

type llOp struct {
	actor     int // -1: scheduler (dial / fail)
	kind      llKind
	target    int // Close: connection id
	call, ret int64
	done      bool
	conn      net.Conn // Accept: the connection returned
	cid       int      // Accept: its id (-1 none)
	re        int      // Accept: 0 nil | 1 transient inner error | 2 closed | 3 anything else
	retxt     string
}

func (o *llOp) in() string {
	switch o.kind {
	case llCloseOpen, llCloseAgain:
		return fmt.Sprintf("conn%d.Close", o.target)
	case llInnerClosed:
		return fmt.Sprintf("inner close of conn%d returned", o.target)
	}
	return llKindName[o.kind]
}

func (o *llOp) out() string {
	if o.kind == llAccept {
		switch o.re {
		case 0:
			return fmt.Sprintf("conn%d", o.cid)
		case 1:
			return "transient error"
		case 2:
			return "closed error"
		}
		return "ERR:" + o.retxt
	}
	return "ok"
}

// counting-semaphore specification of LimitListener(inner, n)
type llState struct {
	n        int8
	open     int8   // accepted connections on which no inner Close call has returned yet
	avail    int8   // connections the inner listener can hand out
	errs     int8   // transient errors the inner listener will hand out
	closed   bool   // listener closed
	accepted uint32 // bit per connection id
	cclosed  uint32 // bit per connection id: an inner Close call has returned
}

func llStep(s llState, o *llOp) (llState, bool) {
	switch o.kind {
	case llDial:
		// the harness never dials once a Listener.Close has been released in an
		// earlier step; in the same step the dial comes first
		if s.closed {
			return s, false
		}
		s.avail++
		return s, true
	case llFail:
		if s.closed {
			return s, false
		}
		s.errs++
		return s, true
	case llAccept:
		switch o.re {
		case 0:
			bit := uint32(1) << o.cid
			if s.closed || s.open >= s.n || s.avail == 0 || s.accepted&bit != 0 {
				return s, false
			}
			s.open++
			s.avail--
			s.accepted |= bit
			return s, true
		case 1:
			if s.closed || s.errs == 0 {
				return s, false
			}
			s.errs--
			return s, true
		case 2:
			return s, s.closed
		}
		return s, false
	case llCloseOpen, llCloseAgain:
		// the return of the wrapper's Close changes nothing by itself: the
		// connection stopped being open when the inner Close returned
		return s, s.accepted&(uint32(1)<<o.target) != 0
	case llInnerClosed:
		bit := uint32(1) << o.target
		if s.accepted&bit == 0 || s.cclosed&bit != 0 {
			return s, false
		}
		s.cclosed |= bit
		s.open--
		return s, true
	case llLClose:
		s.closed = true
		s.avail, s.errs = 0, 0
		return s, true
	}
	return s, false
}

// llBlocked says why o must not be blocked at a quiescent point in state s.
func llBlocked(s llState, o *llOp) (oracle, sig, why string) {
	switch o.kind {
	case llAccept:
		if s.closed {
			return "accept_blocked_after_close", "accept_after_close", "Accept is still blocked after the listener's Close returned"
		}
		if s.open < s.n && (s.avail > 0 || s.errs > 0) {
			return "lost_release", "accept_blocked_with_free_slot", "Accept is blocked although the model has a free slot and the inner listener has something to hand out"
		}
	default:
		return "op_blocked", llKindName[o.kind], "blocked in an operation that must not wait"
	}
	return "", "", ""
}

// llAdvance: every state reachable from a candidate by applying ops in some
// order the specification accepts.
func llAdvance(cands []llState, ops []*llOp) []llState {
	if len(ops) == 0 {
		return cands
	}
	type key struct {
		used uint32
		s    llState
	}
	seen := map[key]bool{}
	final := map[llState]bool{}
	var out []llState
	full := uint32(1)<<len(ops) - 1
	var rec func(s llState, used uint32)
	rec = func(s llState, used uint32) {
		k := key{used, s}
		if seen[k] {
			return
		}
		seen[k] = true
		if used == full {
			if !final[s] {
				final[s] = true
				out = append(out, s)
			}
			return
		}
		for i, o := range ops {
			if used&(1<<i) != 0 {
				continue
			}
			if ns, ok := llStep(s, o); ok {
				rec(ns, used|1<<i)
			}
		}
	}
	for _, c := range cands {
		rec(c, 0)
	}
	return out
}

// ---------------------------------------------------------------------------
// Actors and harness

type llAbort struct{}

type llConn struct {
	id          int
	c           net.Conn
	inner       *llInnerConn
	closeCalled int  // Close operations released on it
	closedOnce  bool // a Close of the wrapper has returned
	innerClosed bool // an inner Close call has returned: no longer open
}

type llActor struct {
	id     int
	name   string
	role   int // 0 acceptor, 1 closer, 2 listener closer
	h      *llH
	vt     *vs.Task
	mu     sync.Mutex
	parked bool
	nkind  llKind
	grant  chan *llOp
}

func (a *llActor) parkedKind() (bool, llKind) {
	a.mu.Lock()
	defer a.mu.Unlock()
	return a.parked, a.nkind
}

func (a *llActor) step(kind llKind) *llOp {
	if a.h.aborting.Load() {
		panic(llAbort{})
	}
	a.mu.Lock()
	a.parked, a.nkind = true, kind
	a.mu.Unlock()
	op := <-a.grant
	if op == nil {
		panic(llAbort{})
	}
	return op
}

type llH struct {
	plan     *llPlan
	sim      *vs.Sim
	tr       *vs.Trace
	inner    *llInner
	l        net.Listener
	actors   []*llActor
	aborting atomic.Bool

	seq      int64 // advanced on the scheduler goroutine only
	stepCall int64
	curCall  atomic.Int64 // copy of stepCall readable from the stub connections
	cmu      sync.Mutex
	comps    []*llOp
	inflight []*llOp
	hist     []*llOp
	states   []llState
	conns    []*llConn // accepted connections, in the order their Accept was observed
	byID     map[int]*llConn

	dialsLeft, failsLeft int
	lcloseReleased       bool // a Listener.Close has been released
	lcloseReturned       bool
	accepted, closedN    int // closedN: accepted connections whose inner Close has returned
	completed, races     int
	maxOpen              int
}

func (h *llH) complete(op *llOp) {
	h.cmu.Lock()
	op.done = true
	h.comps = append(h.comps, op)
	h.cmu.Unlock()
}

func llRecoverAbort() {
	if r := recover(); r != nil {
		if _, ok := r.(llAbort); !ok {
			panic(r)
		}
	}
}

func (h *llH) acceptor(a *llActor, n int) {
	defer llRecoverAbort()
	for i := 0; i < n; i++ {
		op := a.step(llAccept)
		c, err := h.l.Accept()
		op.cid = -1
		switch {
		case err == nil && c != nil:
			op.conn = c
			if ad, ok := c.LocalAddr().(llAddr); ok {
				op.cid = int(ad)
			} else {
				op.re, op.retxt = 3, "Accept returned a connection the inner listener never handed out"
			}
		case err == nil:
			op.re, op.retxt = 3, "Accept returned (nil, nil)"
		case errors.Is(err, llErrTransient):
			op.re = 1
		case errors.Is(err, llErrClosed):
			op.re = 2
		default:
			op.re, op.retxt = 3, err.Error()
		}
		h.complete(op)
	}
}

func (h *llH) closer(a *llActor, script []llKind) {
	defer llRecoverAbort()
	for _, k := range script {
		op := a.step(k)
		h.byID[op.target].c.Close()
		h.complete(op)
	}
}

func (h *llH) lcloser(a *llActor) {
	defer llRecoverAbort()
	for i := 0; i < h.plan.LClose; i++ {
		a.step(llIdle) // not an operation of the history
	}
	n := 1
	if h.plan.LTwice {
		n = 2
	}
	for i := 0; i < n; i++ {
		op := a.step(llLClose)
		h.l.Close()
		h.complete(op)
	}
}

// --- vs.Source

type llCand struct {
	a     *llActor // nil: scheduler-side pseudo operation
	kind  llKind
	conn  *llConn // llInnerRel: the connection whose parked inner Close completes
	label string
}

func (h *llH) newStep() {
	h.seq++
	h.stepCall = h.seq
	h.curCall.Store(h.seq)
}

func (h *llH) closeTargets(again bool) []*llConn {
	var out []*llConn
	for _, c := range h.conns {
		if (c.closeCalled > 0) == again {
			out = append(out, c)
		}
	}
	return out
}

func (h *llH) candidates() []llCand {
	var out []llCand
	for _, a := range h.actors {
		p, k := a.parkedKind()
		if !p {
			continue
		}
		switch k {
		case llCloseOpen:
			if len(h.closeTargets(false)) == 0 {
				continue
			}
		case llCloseAgain:
			if len(h.closeTargets(true)) == 0 {
				continue
			}
		}
		out = append(out, llCand{a: a, kind: k, label: a.name + ": " + llKindName[k]})
	}
	for _, c := range h.conns {
		if c.inner.parked.Load() {
			out = append(out, llCand{kind: llInnerRel, conn: c, label: fmt.Sprintf("inner: close of conn%d completes", c.id)})
		}
	}
	if !h.lcloseStarted() {
		if h.dialsLeft > 0 {
			out = append(out, llCand{kind: llDial, label: "inner: dial"})
		}
		if h.failsLeft > 0 {
			out = append(out, llCand{kind: llFail, label: "inner: fail"})
		}
	}
	return out
}

// lcloseStarted: a Listener.Close has been released (the harness stops dialling
// then: connections refused by a closed listener are not part of the property).
func (h *llH) lcloseStarted() bool { return h.lcloseReleased }

func (h *llH) Events(now time.Time) []vs.Event {
	cands := h.candidates()
	var evs []vs.Event
	for _, c := range cands {
		c := c
		w := 10
		if c.kind == llIdle {
			w = 4
		}
		evs = append(evs, vs.Event{Label: c.label, Weight: w, Run: func() {
			h.newStep()
			h.release(c, nil)
		}})
	}
	if len(cands) >= 2 && h.plan.RacePct > 0 {
		w := 10 * len(cands) * h.plan.RacePct / (100 - h.plan.RacePct)
		evs = append(evs, vs.Event{Label: "race", Weight: max(w, 1), Run: func() { h.race(cands) }})
	}
	return evs
}

func (h *llH) NextTimed(time.Time) (time.Time, bool) { return time.Time{}, false }

// release lets one candidate go. same, if not nil, is a connection that an
// earlier participant of the same race event is closing: with it a closer
// closes that very connection.
func (h *llH) release(c llCand, same *llConn) *llConn {
	if c.kind == llInnerRel {
		// not an operation itself: the parked inner Close call returns and
		// reports llInnerClosed
		vs.G.Inc("probe.inner_close_released")
		c.conn.inner.rel <- struct{}{}
		return nil
	}
	if c.a == nil {
		op := &llOp{actor: -1, kind: c.kind, call: h.stepCall, cid: -1}
		if c.kind == llDial {
			h.dialsLeft--
			op.cid = h.inner.push(false)
			if op.cid < len(h.plan.Slow) && h.plan.Slow[op.cid] {
				h.tr.Ev("  dial conn%d (slow close)", op.cid)
				vs.G.Inc("probe.slow_conn_dialled")
			} else {
				h.tr.Ev("  dial conn%d", op.cid)
			}
		} else {
			h.failsLeft--
			h.inner.push(true)
			h.tr.Ev("  inner accept error queued")
			vs.G.Inc("fault.inner_accept_error")
		}
		h.complete(op)
		return nil
	}
	a := c.a
	var tgt *llConn
	if c.kind == llCloseOpen || c.kind == llCloseAgain {
		ts := h.closeTargets(c.kind == llCloseAgain)
		switch {
		case same != nil:
			tgt = same
			vs.G.Inc("probe.race_two_closers_same_conn")
		case len(ts) > 0:
			tgt = ts[h.sim.C.Intn(len(ts))]
		default:
			// an earlier participant of this race event took the only target:
			// the closer stays parked
			h.tr.Ev("  %s stays parked (no target left)", a.name)
			return nil
		}
	}
	a.mu.Lock()
	a.parked = false
	a.mu.Unlock()
	if c.kind == llIdle {
		a.grant <- &llOp{actor: a.id, kind: llIdle}
		return nil
	}
	op := &llOp{actor: a.id, kind: c.kind, call: h.stepCall, cid: -1}
	switch c.kind {
	case llCloseOpen, llCloseAgain:
		if tgt.closeCalled > 0 {
			vs.G.Inc("probe.close_again")
			if tgt.inner.parked.Load() {
				vs.G.Inc("probe.close_again_while_inner_close_parked")
			}
		}
		tgt.closeCalled++
		op.target = tgt.id
		h.tr.Ev("  %s closes conn%d (call %d)", a.name, tgt.id, tgt.closeCalled)
	case llLClose:
		h.lcloseReleased = true
	}
	h.inflight[a.id] = op
	a.grant <- op
	return tgt
}

func (h *llH) race(cands []llCand) {
	h.newStep()
	k := 2
	if len(cands) >= 3 && vs.Pct(h.sim.C, 15) {
		k = 3
	}
	pool := append([]llCand(nil), cands...)
	var chosen []llCand
	var labels []string
	kinds := map[llKind]int{}
	for i := 0; i < k; i++ {
		j := h.sim.C.Intn(len(pool))
		c := pool[j]
		pool = append(pool[:j], pool[j+1:]...)
		chosen = append(chosen, c)
		labels = append(labels, c.label)
		kinds[c.kind]++
	}
	h.tr.Ev("  race = %s", strings.Join(labels, " || "))
	h.races++
	vs.G.Inc("probe.race_events")
	if kinds[llInnerRel] > 0 && len(chosen) > kinds[llInnerRel] {
		vs.G.Inc("probe.race_inner_release_vs_op")
	}
	if kinds[llLClose] > 0 && kinds[llAccept] > 0 {
		vs.G.Inc("probe.race_listener_close_vs_accept")
	}
	if kinds[llLClose] > 0 && kinds[llDial] > 0 {
		vs.G.Inc("probe.race_listener_close_vs_dial")
	}
	if kinds[llAccept] > 0 && (kinds[llCloseOpen] > 0 || kinds[llCloseAgain] > 0) {
		vs.G.Inc("probe.race_conn_close_vs_accept")
	}
	var same *llConn
	for _, c := range chosen {
		var s *llConn
		if c.kind == llCloseOpen && same != nil && vs.Pct(h.sim.C, 60) {
			s = same
		}
		if t := h.release(c, s); t != nil && c.kind == llCloseOpen && same == nil {
			same = t
		}
	}
}

// --- oracles at a quiescent point

func (h *llH) stateString() string {
	var out []string
	for _, s := range h.states {
		out = append(out, fmt.Sprintf("{open=%d/%d avail=%d errs=%d closed=%v accepted=%#x connsClosed=%#x}", s.open, s.n, s.avail, s.errs, s.closed, s.accepted, s.cclosed))
	}
	return strings.Join(out, " or ")
}

func (h *llH) check() *vs.Violation {
	h.cmu.Lock()
	comps := h.comps
	h.comps = nil
	h.cmu.Unlock()
	sort.SliceStable(comps, func(i, j int) bool { return comps[i].actor < comps[j].actor })
	h.seq++
	var kinds []string
	woken := 0
	for _, o := range comps {
		o.ret = h.seq
		if o.actor >= 0 {
			h.inflight[o.actor] = nil
			h.tr.Ev("  %s %s -> %s", h.actors[o.actor].name, o.in(), o.out())
			h.completed++
		}
		h.hist = append(h.hist, o)
		kinds = append(kinds, llKindName[o.kind])
		switch o.kind {
		case llAccept:
			if o.call < h.stepCall {
				woken++
			}
			switch o.re {
			case 0:
				if h.byID[o.cid] != nil {
					return vs.Violf(llProp, "duplicate_conn", "accept_duplicate", "Accept returned conn%d a second time", o.cid)
				}
				c := &llConn{id: o.cid, c: o.conn}
				if o.cid >= 0 && o.cid < len(h.inner.all) {
					c.inner = h.inner.all[o.cid]
				}
				if c.inner == nil {
					return vs.Violf(llProp, "unexpected_result", "accept_unknown_conn", "Accept returned conn%d, which the inner listener never created", o.cid)
				}
				h.conns = append(h.conns, c)
				h.byID[o.cid] = c
				h.accepted++
			case 1:
				vs.G.Inc("probe.accept_transient_error")
			case 2:
				vs.G.Inc("probe.accept_closed_error")
			case 3:
				return vs.Violf(llProp, "unexpected_result", "accept_unexpected", "Accept: %s", o.retxt)
			}
		case llCloseOpen, llCloseAgain:
			c := h.byID[o.target]
			if !c.closedOnce {
				c.closedOnce = true
			} else {
				vs.G.Inc("probe.repeated_close_returned")
			}
		case llInnerClosed:
			h.tr.Ev("  %s", o.in())
			if c := h.byID[o.target]; c != nil && !c.innerClosed {
				c.innerClosed = true
				h.closedN++
			}
		case llLClose:
			h.lcloseReturned = true
		}
	}
	if woken > 0 {
		vs.G.Inc("probe.blocked_accept_released")
	}
	// limit
	open := h.accepted - h.closedN
	h.maxOpen = max(h.maxOpen, open)
	if open > h.plan.N {
		var which []string
		for _, c := range h.conns {
			if !c.innerClosed {
				st := "open"
				if c.inner.parked.Load() {
					st = "inner Close in progress"
				}
				which = append(which, fmt.Sprintf("conn%d(%s)", c.id, st))
			}
		}
		return vs.Violf(llProp, "limit_exceeded", "open>n", "%d accepted connections are open (no Close of the underlying connection has returned yet), limit n=%d: %s", open, h.plan.N, strings.Join(which, " "))
	}
	if open == h.plan.N {
		vs.G.Inc("probe.at_limit")
	}
	// step model
	before := h.stateString()
	h.states = llAdvance(h.states, comps)
	if len(h.states) == 0 {
		var d []string
		for _, o := range comps {
			who := "inner"
			if o.actor >= 0 {
				who = h.actors[o.actor].name
			}
			d = append(d, fmt.Sprintf("%s %s -> %s", who, o.in(), o.out()))
		}
		return vs.Violf(llProp, "step_model", strings.Join(kinds, "+"),
			"the operations that returned in this step cannot be explained in any order by the counting-semaphore specification from model state %s: %s", before, strings.Join(d, "; "))
	}
	// blocked operations
	var blocked []*llOp
	innerParked, acceptBlocked := 0, 0
	for _, o := range h.inflight {
		if o == nil {
			continue
		}
		if (o.kind == llCloseOpen || o.kind == llCloseAgain) && h.byID[o.target].inner.parked.Load() {
			// in flight inside the slow Close of the underlying connection: it
			// returns when the scheduler lets that Close complete
			innerParked++
			if o.call == h.stepCall {
				vs.G.Inc("probe.inner_close_parked")
			}
			continue
		}
		blocked = append(blocked, o)
		if o.kind == llAccept {
			acceptBlocked++
			if o.call == h.stepCall {
				vs.G.Inc("probe.accept_blocked")
			}
		}
	}
	if innerParked > 0 && acceptBlocked > 0 {
		vs.G.Inc("probe.accept_blocked_while_inner_close_parked")
	}
	if len(blocked) > 0 {
		before = h.stateString()
		var keep []llState
		var oracle, sig, why string
		var culprit *llOp
		for _, s := range h.states {
			ok := true
			for _, o := range blocked {
				if or, sg, w := llBlocked(s, o); or != "" {
					ok = false
					if oracle == "" {
						oracle, sig, why, culprit = or, sg, w, o
					}
					break
				}
			}
			if ok {
				keep = append(keep, s)
			}
		}
		h.states = keep
		if len(keep) == 0 {
			return vs.Violf(llProp, oracle, sig, "%s %s: %s (model state %s)", h.actors[culprit.actor].name, culprit.in(), why, before)
		}
		if len(blocked) >= 2 {
			vs.G.Inc("probe.two_or_more_accepts_blocked")
		}
		if h.states[0].open == h.states[0].n {
			vs.G.Inc("probe.accept_blocked_at_limit")
		}
	}
	return nil
}

// teardown closes the listener and every connection and makes every goroutine
// exit. It reports whether goroutines stayed blocked after that.
func (h *llH) teardown() (stuck bool) {
	h.aborting.Store(true) // from here on no inner Close parks
	for _, c := range h.inner.all {
		if c.parked.Load() {
			c.rel <- struct{}{}
		}
	}
	var helper atomic.Bool
	go func() {
		h.l.Close()
		for _, c := range h.conns {
			c.c.Close()
		}
		helper.Store(true)
	}()
	allDone := func() bool {
		if !helper.Load() {
			return false
		}
		for _, a := range h.actors {
			if !a.vt.Done() {
				return false
			}
		}
		return true
	}
	ll, _ := h.l.(*limitListener)
	for iter := 0; iter < 64; iter++ {
		for _, a := range h.actors {
			if p, _ := a.parkedKind(); p {
				a.mu.Lock()
				a.parked = false
				a.mu.Unlock()
				a.grant <- nil
			}
		}
		synctest.Wait()
		if allDone() {
			return stuck
		}
		stuck = true
		// white-box rescue (teardown only, never an oracle): free goroutines a
		// broken semaphore left blocked, so that none outlives the bubble.
		if ll != nil {
			if iter%2 == 0 {
				select {
				case <-ll.sem:
				default:
				}
			} else {
				select {
				case ll.sem <- struct{}{}:
				default:
				}
			}
		}
		h.inner.Close()
		synctest.Wait()
	}
	return stuck
}

// ---------------------------------------------------------------------------

func llPorcupine(h *llH, init llState) porcupine.CheckResult {
	ops := make([]porcupine.Operation, len(h.hist))
	for i, o := range h.hist {
		ops[i] = porcupine.Operation{ClientId: o.actor + 1, Input: o, Call: o.call, Return: o.ret}
	}
	model := porcupine.Model{
		Init: func() any { return init },
		Step: func(st, in, out any) (bool, any) {
			s, ok := llStep(st.(llState), in.(*llOp))
			return ok, s
		},
	}
	return porcupine.CheckOperationsTimeout(model, ops, 2*time.Second)
}

var llProbes = []string{
	"probe.race_events", "probe.race_two_closers_same_conn", "probe.race_listener_close_vs_accept",
	"probe.race_listener_close_vs_dial", "probe.race_conn_close_vs_accept", "probe.close_again",
	"probe.repeated_close_returned", "probe.accept_blocked", "probe.accept_blocked_at_limit",
	"probe.two_or_more_accepts_blocked", "probe.blocked_accept_released", "probe.at_limit",
	"probe.accept_closed_error",
	"probe.slow_conn_dialled", "probe.inner_close_parked", "probe.inner_close_released",
	"probe.close_again_while_inner_close_parked", "probe.accept_blocked_while_inner_close_parked",
	"probe.race_inner_release_vs_op",
	"probe.porcupine_checked", // probe.porcupine_unknown is counted when it happens; zero is the expected value
}

func llRun(t *testing.T, rt *rapid.T) {
	for _, p := range llProbes {
		vs.G.Add(p, 0)
	}
	fault := vs.Config() == "fault"
	if fault {
		vs.G.Add("probe.accept_transient_error", 0)
		vs.G.Add("fault.inner_accept_error", 0)
	}
	plan := llDrawPlan(rt)
	tape := vs.DrawTape(rt, 256)
	tr := vs.NewTrace()
	tr.Ev("plan %s", plan.String())
	var viol *vs.Violation
	var simDur time.Duration
	var h *llH
	init := llState{n: int8(plan.N)}
	deadlock := vs.Bubble(t, func() {
		sim := vs.NewSim(tape, tr)
		sim.MaxSteps, sim.Horizon = 600, time.Minute
		h = &llH{plan: plan, sim: sim, tr: tr, byID: map[int]*llConn{}, dialsLeft: plan.Dials, failsLeft: plan.Fails}
		h.inner = llNewInner(h)
		h.l = LimitListener(h.inner, plan.N)
		h.states = []llState{init}
		add := func(name string, role int, f func(a *llActor)) {
			a := &llActor{id: len(h.actors), name: name, role: role, h: h, grant: make(chan *llOp)}
			h.actors = append(h.actors, a)
			a.vt = sim.Go(name, llProp, func(*vs.Task) { f(a) })
		}
		for i, n := range plan.Acceptors {
			n := n
			add(fmt.Sprintf("a%d", i), 0, func(a *llActor) { h.acceptor(a, n) })
		}
		for i, s := range plan.Closers {
			s := s
			add(fmt.Sprintf("c%d", i), 1, func(a *llActor) { h.closer(a, s) })
		}
		if plan.LClose >= 0 {
			add("lc", 2, func(a *llActor) { h.lcloser(a) })
		}
		h.inflight = make([]*llOp, len(h.actors))
		sim.AddSource(h)
		sim.Check = h.check
		sim.Done = func() bool { return true } // nothing enabled: every actor has finished or is blocked for good
		sim.Run()
		viol = sim.Viol
		if sim.StepsOut {
			vs.G.Inc("steps_out")
		}
		pending := sim.PendingTasks()
		if stuck := h.teardown(); stuck && viol == nil {
			viol = vs.Violf(llProp, "stuck_at_teardown", "stuck", "goroutines stayed blocked after the listener and every accepted connection were closed; pending before teardown: %v", pending)
		}
		sim.Abort()
		simDur = sim.Elapsed()
	})
	if deadlock != "" && viol == nil {
		vs.Harnessf(rt, "bubble ended with blocked goroutines: %s", deadlock)
	}
	if viol == nil && len(h.hist) > 0 {
		vs.G.Inc("probe.porcupine_checked")
		switch llPorcupine(h, init) {
		case porcupine.Illegal:
			viol = vs.Violf(llProp, "porcupine", "not_linearizable", "the history of %d operations is not linearizable with respect to the counting-semaphore specification (n=%d)", len(h.hist), plan.N)
		case porcupine.Unknown:
			vs.G.Inc("probe.porcupine_unknown")
		}
	}
	vs.G.Add("stat.max_open_sum", int64(h.maxOpen))
	nontrivial := h.accepted >= 1 && h.completed >= 2
	if fault {
		nontrivial = nontrivial && plan.Fails-h.failsLeft > 0
	}
	vs.G.EndRun(tr, nontrivial, simDur, func() any {
		return map[string]any{"plan": plan.String(), "events": tr.Log[:min(len(tr.Log), 40)]}
	})
	vs.Report(rt, viol, tr)
}

func TestVerif_C58(t *testing.T) {
	vs.Check(t, func(rt *rapid.T) { llRun(t, rt) })
}
