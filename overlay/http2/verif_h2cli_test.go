// Engine h2cli: the real http2.Transport / ClientConn / clientConnPool on
// simulated connections (verifsim.StreamConn handed out by a simulated dialer),
// talking to scripted servers played by the simulator (frames written with
// http2.Framer on the B end, the client's output parsed by the shared wire
// monitor). Callers are scheduler-driven tasks; request bodies are
// simulator-owned readers whose every Read is released by a scheduler event.
// Properties C09, C10 (client half), C11 (client half), C17, C18.

//go:build !(go1.27 && !http2legacy)

package http2

import (
	"bytes"
	"context"
	"crypto/tls"
	"errors"
	"fmt"
	"io"
	"log"
	"net"
	"net/http"
	"net/http/httptrace"
	"os"
	"runtime/debug"
	"sort"
	"strconv"
	"strings"
	"sync"
	"testing"
	"time"

	"golang.org/x/net/http2/hpack"
	vs "golang.org/x/net/internal/verifsim"
	"pgregory.net/rapid"
)

// ---------------------------------------------------------------------------
// plan

type hcCOp struct {
	kind string // read, readall
	n    int
}

type hcReqPlan struct {
	post     bool
	bodyLen  int
	chunks   []int
	declCL   bool
	getBody  bool
	eofData  bool // the last chunk is returned together with io.EOF
	stubborn bool // Close does not interrupt a Read in progress
	cops     []hcCOp
}

type hcOp struct {
	kind    string // hdr, data, finish, rst, wu, settings, goaway, close, cancel, overdata
	sel     int
	n       int
	pad     int
	end     bool
	code    ErrCode
	status  int
	decl    int // hdr: declared content-length (-1 none)
	iw      int // settings: -1 absent
	mf      int
	mcs     int
	over    int
	connLvl bool
	lmode   string // goaway: abs, seen, below, max
	labs    int
}

type hcPlan struct {
	focus    string
	strict   bool
	connWin  int    // 0 = package default
	strWin   int    // 0 = package default
	maxRead  uint32 // Transport.MaxReadFrameSize
	initIW   int    // scripted servers' first SETTINGS (-1 absent)
	initMF   int
	initMCS  int
	initWU   int // connection WINDOW_UPDATE sent with the first SETTINGS
	autoFrom int // connections with index >= autoFrom are served "normally"
	wbound   int // >0: the client's writes meet back-pressure (bounded buffer towards the server, stall events)
	reqs     []hcReqPlan
	ops      []hcOp
}

func hcPickW(c vs.Chooser, kinds []string, weights []int) string {
	t := 0
	for _, w := range weights {
		t += w
	}
	x := c.Intn(t)
	for i, w := range weights {
		if x < w {
			return kinds[i]
		}
		x -= w
	}
	return kinds[0]
}

func hcDrawPlan(rt *rapid.T, focus string) *hcPlan {
	c := vs.RapidChooser{T: rt}
	p := &hcPlan{focus: focus, initIW: 1 << 20, initMF: -1, initMCS: -1, initWU: 1 << 28, autoFrom: 1}
	nreq := 1
	postPct, maxBody := 30, 4000
	switch focus {
	case "C09":
		p.initIW = vs.Pick(c, -1, 0, 1, 100, 5000, 65535, 1<<20, 0, 100)
		p.initMF = vs.Pick(c, -1, 16384, 16385, 100000, 1<<24-1)
		p.initWU = vs.Pick(c, 0, 0, 1, 70000, 1<<20, 1<<20)
		nreq = vs.Range(c, 1, 8)
		postPct, maxBody = 95, 262144
		if vs.Pct(c, 25) {
			// requests with bodies queue for a stream slot while SETTINGS change the
			// initial window: the window in force when the stream finally opens counts
			p.strict = true
			p.initMCS = vs.Pick(c, 1, 1, 2)
		}
	case "C10":
		p.connWin = vs.Pick(c, 0, 65535, 100000, 1<<20)
		p.strWin = vs.Pick(c, 0, 1, 1000, 65535, 1<<20)
		p.maxRead = uint32(vs.Pick(c, 0, 16384, 1<<20))
		nreq = vs.Range(c, 1, vs.Thorough(24, 60))
		postPct, maxBody = 35, 3000
		if vs.Pct(c, 30) {
			p.wbound = vs.Pick(c, 9, 64, 300)
		}
	case "C11":
		p.connWin = vs.Pick(c, 65535, 100000, 0)
		p.strWin = vs.Pick(c, 1000, 1, 100, 16384, 65535, 200000, 0)
		p.maxRead = uint32(vs.Pick(c, 1<<20, 16384, 1<<18))
		nreq = vs.Range(c, 1, 6)
		postPct, maxBody = 10, 2000
	case "C17":
		p.strict = vs.Bool(c)
		p.initMCS = vs.Pick(c, 1, -1, 0, 2, 3, 5)
		nreq = vs.Range(c, 2, 20)
		p.autoFrom = 1 << 30
		postPct, maxBody = 30, 3000
		if vs.Pct(c, 30) {
			p.wbound = vs.Pick(c, 9, 64, 300)
		}
	case "C18":
		p.strict = vs.Pct(c, 30)
		p.initMCS = vs.Pick(c, -1, -1, 1, 2, 5)
		nreq = vs.Range(c, 1, 8)
		p.autoFrom = vs.Pick(c, 1, 1, 2) // sometimes the second connection is scripted (and may send GOAWAY) too
		postPct, maxBody = 60, 20000
	}
	for i := 0; i < nreq; i++ {
		q := hcReqPlan{}
		q.post = vs.Pct(c, postPct)
		if q.post {
			q.bodyLen = vs.SizeBiased(c, maxBody, 16384, 65535)
			nch := vs.Range(c, 1, 3)
			for j := 0; j < nch; j++ {
				if focus == "C10" { // many small reads: the body is usually still being read when the response ends
					q.chunks = append(q.chunks, 1+q.bodyLen/48+vs.SizeBiased(c, 64, 1))
					continue
				}
				q.chunks = append(q.chunks, 1+q.bodyLen/48+vs.SizeBiased(c, 70000, 1, 4096, 16384))
			}
			q.declCL = vs.Bool(c)
			q.getBody = vs.Bool(c)
			q.eofData = vs.Pct(c, 30)
			q.stubborn = vs.Pct(c, 30)
		}
		nc := vs.Range(c, 0, 4)
		for j := 0; j < nc; j++ {
			if vs.Pct(c, 30) {
				q.cops = append(q.cops, hcCOp{kind: "readall"})
			} else {
				q.cops = append(q.cops, hcCOp{kind: "read", n: 1 + vs.SizeBiased(c, 70000, 1, 4096, 65535)})
			}
		}
		p.reqs = append(p.reqs, q)
	}
	var kinds []string
	var weights []int
	switch focus {
	case "C09":
		kinds, weights = []string{"wu", "settings", "hdr", "finish", "rst", "cancel"}, []int{7, 3, 2, 3, 1, 1}
	case "C10":
		kinds, weights = []string{"data", "hdr", "rst", "cancel", "goaway", "wu"}, []int{12, 5, 1, 1, 1, 1}
	case "C11":
		kinds, weights = []string{"data", "hdr", "overdata", "rst", "cancel"}, []int{6, 5, 5, 1, 1}
	case "C17":
		kinds, weights = []string{"hdr", "settings", "rst", "cancel", "data"}, []int{7, 4, 2, 2, 1}
	case "C18":
		kinds, weights = []string{"hdr", "data", "cancel", "rst", "settings"}, []int{6, 2, 1, 1, 1}
	}
	nops := vs.Range(c, 1, vs.Thorough(40, 120))
	if focus == "C10" {
		nops = vs.Range(c, nreq, nreq*6)
	}
	for i := 0; i < nops; i++ {
		op := hcOp{kind: hcPickW(c, kinds, weights), sel: c.Intn(64), decl: -1, iw: -1, mf: -1, mcs: -1, status: 200}
		switch op.kind {
		case "hdr":
			op.status = vs.Pick(c, 200, 200, 200, 204, 404, 500)
			switch focus {
			case "C10":
				if vs.Pct(c, 40) {
					op.decl = vs.SizeBiased(c, 3000, 0, 100)
				}
				op.end = vs.Pct(c, 5)
			case "C17":
				op.end = vs.Pct(c, 70)
			case "C18":
				op.end = vs.Pct(c, 60)
			case "C09":
				op.status = vs.Pick(c, 200, 200, 200, 404)
			case "C11":
				op.status = 200
			}
		case "data":
			op.n = vs.SizeBiased(c, vs.Thorough(20000, 70000), 100, 16384)
			if focus == "C10" || focus == "C11" {
				if vs.Pct(c, 30) {
					op.pad = vs.Pick(c, 0, 1, 17, 255)
				}
			}
			op.end = vs.Pct(c, 25)
		case "rst":
			op.code = ErrCode(vs.Pick(c, 8, 0, 2, 7, 1))
		case "wu":
			op.n = vs.Pick(c, 1, 2, 100, 4096, 16384, 65535, 100000, 1<<20)
			op.connLvl = vs.Pct(c, 25)
		case "settings":
			if focus == "C17" || focus == "C18" {
				op.mcs = vs.Pick(c, 0, 1, 2, 3, 5)
				if focus == "C17" && vs.Pct(c, 35) {
					// a later SETTINGS frame that does not repeat the limit (empty, or
					// another parameter only): the limit in force must not change
					op.mcs = -1
					op.iw = vs.Pick(c, -1, 65535, 1<<20)
				}
			} else {
				if vs.Bool(c) {
					op.iw = vs.Pick(c, 0, 1, 100, 5000, 65535, 1<<20)
				}
				if vs.Pct(c, 30) {
					op.mf = vs.Pick(c, 16384, 16385, 100000, 1<<24-1)
				}
			}
		case "goaway":
			op.lmode, op.code = "seen", ErrCodeNo
		case "overdata":
			op.over = vs.Pick(c, 0, 1, 2, 1000)
			op.connLvl = vs.Pct(c, 35)
			op.pad = vs.Pick(c, 0, 0, 1, 255)
		}
		p.ops = append(p.ops, op)
	}
	if focus == "C18" {
		// one or two GOAWAYs at arbitrary script positions, optionally followed by
		// a connection close at an arbitrary later position
		ng := vs.Pick(c, 1, 1, 2)
		for g := 0; g < ng; g++ {
			op := hcOp{kind: "goaway", sel: vs.Pick(c, 0, 0, 1), decl: -1, iw: -1, mf: -1, mcs: -1}
			op.lmode = vs.Pick(c, "abs", "seen", "below", "max")
			op.labs = vs.Range(c, 0, 2*nreq+4)
			op.code = ErrCode(vs.Pick(c, 0, 0, 2, 11, 1))
			at := c.Intn(len(p.ops) + 1)
			p.ops = append(p.ops[:at], append([]hcOp{op}, p.ops[at:]...)...)
			if vs.Pct(c, 60) {
				cl := hcOp{kind: "close", sel: 0}
				at2 := at + 1 + c.Intn(len(p.ops)-at)
				p.ops = append(p.ops[:at2], append([]hcOp{cl}, p.ops[at2:]...)...)
			}
		}
	}
	return p
}

func hcReqByte(idx int, off int64) byte  { return byte(int64(idx)*17 + off*5 + 1) }
func hcRespByte(idx int, off int64) byte { return byte(int64(idx)*131 + off*7 + 3) }

// ---------------------------------------------------------------------------
// request bodies: every Read is released by a scheduler event

var errHcBodyClosed = errors.New("vf: request body closed")

type hcBody struct {
	r        *hcRun
	idx      int
	inst     int // 0 = Request.Body, n = n-th GetBody result
	total    int
	chunks   []int
	eofData  bool
	stubborn bool

	mu       sync.Mutex
	cond     *sync.Cond
	off      int
	ci       int
	waiting  bool
	granted  bool
	closeGen int
	dead     bool
	consumed int
}

func (b *hcBody) Read(p []byte) (int, error) {
	b.mu.Lock()
	defer b.mu.Unlock()
	if b.dead {
		return 0, errHcBodyClosed
	}
	gen := b.closeGen
	b.waiting, b.granted = true, false
	b.r.sim.Wake()
	for !b.granted && (b.closeGen == gen || b.stubborn) && !b.dead {
		b.cond.Wait()
	}
	b.waiting = false
	if !b.granted {
		return 0, errHcBodyClosed
	}
	b.granted = false
	if b.off >= b.total {
		return 0, io.EOF
	}
	n := min(b.chunks[b.ci%len(b.chunks)], len(p), b.total-b.off)
	b.ci++
	for i := 0; i < n; i++ {
		p[i] = hcReqByte(b.idx, int64(b.off+i))
	}
	b.off += n
	b.consumed += n
	if b.off >= b.total && b.eofData {
		return n, io.EOF
	}
	return n, nil
}

// Close interrupts a Read in progress (like closing a pipe); the body stays
// usable afterwards, like an io.NopCloser over an in-memory reader.
func (b *hcBody) Close() error {
	b.mu.Lock()
	b.closeGen++
	b.cond.Broadcast()
	b.mu.Unlock()
	b.r.sim.Wake()
	return nil
}

func (b *hcBody) kill() {
	b.mu.Lock()
	b.dead = true
	b.cond.Broadcast()
	b.mu.Unlock()
}

func (b *hcBody) wantsGrant() bool {
	b.mu.Lock()
	defer b.mu.Unlock()
	return b.waiting && !b.granted
}

func (b *hcBody) grant() {
	b.mu.Lock()
	if b.waiting {
		b.granted = true
		b.cond.Broadcast()
	}
	b.mu.Unlock()
}

// state returns the bytes handed to the Transport so far and whether the
// Transport is inside Read right now.
func (b *hcBody) state() (consumed int, inRead bool) {
	b.mu.Lock()
	defer b.mu.Unlock()
	return b.consumed, b.waiting
}

func (b *hcBody) consumedBytes() int {
	b.mu.Lock()
	defer b.mu.Unlock()
	return b.consumed
}

// ---------------------------------------------------------------------------
// run state

type hcWU struct {
	inc    int64
	endOff int64
}

type hcSettings struct {
	endOff int64
	iw     int64
	mf     int64
	mcs    int64 // 1<<31 = unlimited
}

type hcGoAway struct {
	last     uint32
	code     ErrCode
	endOff   int64
	seenStep int // scheduler step of the first quiescent point at which it had been delivered
}

type hcStream struct {
	head    bool // request method HEAD: the response carries no DATA payload
	cn      *hcConn
	id      uint32
	req     int // request index, -1 if unknown
	attempt int // n-th appearance of the request on any wire
	hdrStep int
	known   bool // request HEADERS delivered to the server

	// client output
	cliEnd      bool
	cliEndKnown bool
	cliRst      bool
	cliRstCode  ErrCode
	cliRstKnown bool
	cliFlow     int64
	cliData     int64
	cliWUs      []hcWU // WINDOW_UPDATE(sid) written by the client (A>B offsets)
	cliWUSum    int64

	// server output
	srvHdr       bool
	status       int
	decl         int
	srvEnd       bool
	srvEndOff    int64
	srvEndLive   bool // the response was completed on a stream the server had not refused/reset
	respSeenStep int
	srvRst       bool
	srvRstCode   ErrCode
	srvRstOff    int64
	srvFlow      int64
	srvData      int64
	srvWUs       []hcWU
	srvWUSum     int64
	refused      bool // id above the last-stream-id of a GOAWAY the server wrote
	hadRespAtGA  bool // the server had already answered when it refused the stream (dishonest L)

	overSent    bool
	overEndOff  int64
	acceptedMax int64

	srvWUSeen int // server WINDOW_UPDATEs for this stream already seen delivered (probe bookkeeping)
}

type hcPing struct {
	data   [8]byte
	endOff int64
}

type hcConn struct {
	wstalled bool // the client->server path is currently stopped (back-pressure runs)
	idx      int
	sc       *vs.StreamConn
	cc       *ClientConn
	fr       *Framer
	hbuf     bytes.Buffer
	henc     *hpack.Encoder
	mon      *vmParser
	auto     bool

	base    []byte
	sbase   []int
	pmu     sync.Mutex
	pending []*vmFrame
	frames  []*vmFrame
	nKnown  int
	streams map[uint32]*hcStream
	order   []*hcStream
	lastSID uint32
	hdrStep int

	cliIW         int64
	cliMaxFrame   int64
	gotCliSet     bool
	cliAcks       int
	acksAtPrevHdr int // cliAcks when the previous request HEADERS block was written
	acksAtPrevChk int // cliAcks at the previous quiescent point
	cliConnWUs    []hcWU
	cliConnWU     int64
	cliConnFlow   int64
	cliGoAway     bool
	cliGoAwayCd   ErrCode
	cliClosed     bool
	flowErr       bool // the client reported FLOW_CONTROL_ERROR in some form

	sSettings   []hcSettings
	connWUs     []hcWU
	connCredit  int64
	srvConnFlow int64
	goaways     []*hcGoAway
	srvClosed   bool
	eofSeen     bool
	anyOver     bool
	healedA     bool

	prevBlocked []*hcStream // streams whose body was blocked on flow control at the previous quiescent point
}

type hcReq struct {
	idx       int
	p         hcReqPlan
	started   bool
	startStep int
	cancel    context.CancelFunc
	cancelled bool
	returned  bool
	err       error
	status    int
	respStr   *hcStream
	read      int64
	readErr   error
	sawEOF    bool
	closing   bool
	closed    bool
	done      bool
	attempts  []*hcStream
	bodies    []*hcBody
	// pool choice (C17): what httptrace.GotConn reported for this request
	gotConns int     // number of GotConn callbacks (attempts placed by the pool)
	asgConn  *hcConn // connection of the latest one
	asgSeq   int     // global order of the latest one
	asgUB    int64   // the limit in force for asgConn when the pool chose it (0 = not computed yet, -1 = not settled then)
	asgSet   int     // index of the SETTINGS frame that limit comes from
}

type hcRun struct {
	p     *hcPlan
	sim   *vs.Sim
	tr    *vs.Trace
	t     *Transport
	step  int
	mu    sync.Mutex
	conns []*hcConn
	reqs  []*hcReq
	viol  *vs.Violation

	nextOp   int
	opsRun   int
	asgSeq   int
	healed   bool
	tearing  bool
	harness  string
	lostWake *vs.Violation // pending (reported at the end of the run if nothing else fired)
	nudgeAt  time.Time
	nudged   bool

	overRetry int
}

func (r *hcRun) setViol(v *vs.Violation) {
	if v == nil {
		return
	}
	r.mu.Lock()
	if r.viol == nil {
		r.viol = v
	}
	r.mu.Unlock()
	r.sim.Wake()
}

func (r *hcRun) configuredConnWindow() int64 {
	if r.p.connWin >= 65535 {
		return int64(r.p.connWin) + 65535
	}
	return transportDefaultConnFlow + 65535
}

// ---------------------------------------------------------------------------
// scripted server: write helpers (scheduler goroutine or dial goroutine, r.mu held)

func (cn *hcConn) writable() bool { return !cn.srvClosed && !cn.sc.IsCut() }

func (cn *hcConn) cur() hcSettings { return cn.sSettings[len(cn.sSettings)-1] }

func (cn *hcConn) writeSettings(iw, mf, mcs int) {
	var ss []Setting
	ns := cn.cur()
	if iw >= 0 {
		ss = append(ss, Setting{SettingInitialWindowSize, uint32(iw)})
		ns.iw = int64(iw)
	}
	if mf >= 0 {
		ss = append(ss, Setting{SettingMaxFrameSize, uint32(mf)})
		ns.mf = int64(mf)
	}
	if mcs >= 0 {
		ss = append(ss, Setting{SettingMaxConcurrentStreams, uint32(mcs)})
		ns.mcs = int64(mcs)
	}
	cn.fr.WriteSettings(ss...)
	ns.endOff = cn.sc.WrittenBA()
	cn.sSettings = append(cn.sSettings, ns)
}

func (cn *hcConn) writeWU(st *hcStream, n int64) {
	if st == nil {
		cn.fr.WriteWindowUpdate(0, uint32(n))
		cn.connWUs = append(cn.connWUs, hcWU{n, cn.sc.WrittenBA()})
		cn.connCredit += n
		return
	}
	cn.fr.WriteWindowUpdate(st.id, uint32(n))
	st.srvWUs = append(st.srvWUs, hcWU{n, cn.sc.WrittenBA()})
	st.srvWUSum += n
}

func (cn *hcConn) writeHeaders(st *hcStream, status, decl int, end bool) {
	cn.hbuf.Reset()
	cn.henc.WriteField(hpack.HeaderField{Name: ":status", Value: strconv.Itoa(status)})
	cn.henc.WriteField(hpack.HeaderField{Name: "x-vf-str", Value: fmt.Sprintf("%d:%d", cn.idx, st.id)})
	if decl >= 0 {
		cn.henc.WriteField(hpack.HeaderField{Name: "content-length", Value: strconv.Itoa(decl)})
	}
	cn.fr.WriteHeaders(HeadersFrameParam{StreamID: st.id, BlockFragment: cn.hbuf.Bytes(), EndStream: end, EndHeaders: true})
	st.srvHdr, st.status, st.decl = true, status, decl
	if end {
		cn.markEnd(st)
	}
}

func (cn *hcConn) markEnd(st *hcStream) {
	st.srvEnd = true
	st.srvEndOff = cn.sc.WrittenBA()
	st.srvEndLive = !st.refused && !st.srvRst
}

func (cn *hcConn) writeData(st *hcStream, n, pad int, end bool) {
	data := make([]byte, n)
	for i := range data {
		data[i] = hcRespByte(st.req, st.srvData+int64(i))
	}
	if pad > 0 {
		cn.fr.WriteDataPadded(st.id, end, data, make([]byte, pad))
	} else {
		cn.fr.WriteData(st.id, end, data)
	}
	flow := int64(n)
	if pad > 0 {
		flow += int64(pad) + 1
	}
	st.srvData += int64(n)
	st.srvFlow += flow
	cn.srvConnFlow += flow
	if end {
		cn.markEnd(st)
	}
}

func (cn *hcConn) writeRST(st *hcStream, code ErrCode) {
	cn.fr.WriteRSTStream(st.id, code)
	st.srvRst, st.srvRstCode = true, code
	st.srvRstOff = cn.sc.WrittenBA()
}

func (cn *hcConn) writeGoAway(last uint32, code ErrCode) {
	// (other servers put an explanation into the debug data; a function of the
	// frame's arguments, so that replay needs no extra draw)
	var debug []byte
	switch (int(last) + int(code) + len(cn.goaways)) % 3 {
	case 1:
		debug = []byte("graceful_shutdown")
	case 2:
		debug = bytes.Repeat([]byte{'x'}, 300)
	}
	if debug != nil {
		vs.G.Inc("probe.goaway_with_debug_data")
	}
	cn.fr.WriteGoAway(last, code, debug)
	cn.goaways = append(cn.goaways, &hcGoAway{last: last, code: code, endOff: cn.sc.WrittenBA()})
	for _, st := range cn.order {
		if st.id > last && !st.refused {
			st.refused = true
			st.hadRespAtGA = st.srvHdr
		}
	}
}

// tap feeds the wire monitor with what the client writes. Frames are split off
// at once and the parser's buffers are recycled, so that they never grow beyond
// one write (the parser keeps one int per buffered byte).
func (cn *hcConn) tap(b []byte) {
	m := cn.mon
	if len(m.buf) == 0 {
		m.buf, m.stepsBuf = cn.base[:0], cn.sbase[:0]
	}
	m.write(b)
	if cap(m.buf) > cap(cn.base) && len(m.buf) == len(b) {
		cn.base, cn.sbase = m.buf[:0], m.stepsBuf[:0]
	}
	cn.pmu.Lock()
	for f := m.next(); f != nil; f = m.next() {
		cn.pending = append(cn.pending, f)
	}
	cn.pmu.Unlock()
}

func (cn *hcConn) takePending() []*vmFrame {
	cn.pmu.Lock()
	defer cn.pmu.Unlock()
	fs := cn.pending
	cn.pending = nil
	return fs
}

var (
	hcBufMu   sync.Mutex
	hcBufFree [][2]any
)

func hcGetBufs() ([]byte, []int) {
	hcBufMu.Lock()
	defer hcBufMu.Unlock()
	if n := len(hcBufFree); n > 0 {
		e := hcBufFree[n-1]
		hcBufFree = hcBufFree[:n-1]
		return e[0].([]byte), e[1].([]int)
	}
	return make([]byte, 0, 1<<15), make([]int, 0, 1<<15)
}

func hcPutBufs(b []byte, s []int) {
	hcBufMu.Lock()
	if len(hcBufFree) < 64 && cap(b) <= 1<<20 {
		hcBufFree = append(hcBufFree, [2]any{b[:0], s[:0]})
	}
	hcBufMu.Unlock()
}

// windows the client has granted, as far as the server can know (delivered frames only)
func (cn *hcConn) srvConnWindow() int64 {
	d := cn.sc.DeliveredAB()
	w := int64(65535) - cn.srvConnFlow
	for _, u := range cn.cliConnWUs {
		if u.endOff <= d {
			w += u.inc
		}
	}
	return w
}

func (cn *hcConn) srvStreamWindow(st *hcStream) int64 {
	d := cn.sc.DeliveredAB()
	w := cn.cliIW - st.srvFlow
	for _, u := range st.cliWUs {
		if u.endOff <= d {
			w += u.inc
		}
	}
	return w
}

// bounds returns the largest MAX_CONCURRENT_STREAMS / INITIAL_WINDOW_SIZE /
// MAX_FRAME_SIZE the client may be using for a frame it writes now: before the
// client's SETTINGS ACK for a delivered SETTINGS frame appears in its output
// either the old or the new value may be in force, afterwards exactly the new.
func (cn *hcConn) bounds(delivered int64) (mcs, iw, mf int64) {
	d := 0
	for i := 1; i < len(cn.sSettings); i++ {
		if cn.sSettings[i].endOff <= delivered {
			d = i
		}
	}
	a := min(cn.cliAcks, d)
	mcs, iw, mf = -1, -1, -1
	for j := a; j <= d; j++ {
		mcs = max(mcs, cn.sSettings[j].mcs)
		iw = max(iw, cn.sSettings[j].iw)
		mf = max(mf, cn.sSettings[j].mf)
	}
	return
}

// mcsBoundSince is the MAX_CONCURRENT_STREAMS part of bounds for a stream
// opening: the Transport takes the stream's slot (compares its count with the
// limit) under reqHeaderMu and writes the HEADERS afterwards, possibly much later
// when the connection's writes are blocked; SETTINGS applied and acknowledged in
// between do not undo the decision. reqHeaderMu serialises this per connection,
// so the decision was taken after the previous HEADERS block had been written:
// any limit in force since then (acks as of that moment) may have been used.
func (cn *hcConn) mcsBoundSince(acks int, delivered int64) int64 {
	d := 0
	for i := 1; i < len(cn.sSettings); i++ {
		if cn.sSettings[i].endOff <= delivered {
			d = i
		}
	}
	mcs := int64(-1)
	for j := min(acks, d); j <= d; j++ {
		mcs = max(mcs, cn.sSettings[j].mcs)
	}
	return mcs
}

func (r *hcRun) newBody(rq *hcReq) *hcBody {
	b := &hcBody{r: r, idx: rq.idx, total: rq.p.bodyLen, chunks: rq.p.chunks, eofData: rq.p.eofData, stubborn: rq.p.stubborn}
	b.cond = sync.NewCond(&b.mu)
	r.mu.Lock()
	b.inst = len(rq.bodies)
	rq.bodies = append(rq.bodies, b)
	r.mu.Unlock()
	return b
}

// dial is Transport.DialTLSContext: a fresh simulated connection whose B end is
// played by a scripted server.
func (r *hcRun) dial(ctx context.Context, network, addr string, cfg *tls.Config) (net.Conn, error) {
	r.mu.Lock()
	defer r.mu.Unlock()
	if r.tearing || len(r.conns) >= 64 {
		return nil, errors.New("vf: dial refused")
	}
	idx := len(r.conns)
	sc := vs.NewStreamConn(r.sim, fmt.Sprintf("h2c%d", idx))
	sc.DeliverWeight = 4
	sc.DiscardAB() // the scripted server "reads" through the tap
	if r.p.wbound > 0 && idx < r.p.autoFrom {
		sc.BoundAB(r.p.wbound)
	}
	sc.SplitHintBA = hcSplitHint
	cn := &hcConn{idx: idx, sc: sc, streams: map[uint32]*hcStream{}, auto: idx >= r.p.autoFrom,
		cliIW: 65535, cliMaxFrame: 16384}
	cn.mon = newVMParser(true, &r.step)
	cn.mon.allowTableSize(1 << 16)
	cn.base, cn.sbase = hcGetBufs()
	sc.TapAB(cn.tap)
	// No split hints for the client->server direction: where a delivery to the
	// scripted server stops inside a frame does not matter to it, and hints taken
	// from the client's frames would make the schedule depend on the order in
	// which the transport's goroutines wrote them (map-iteration order after a GOAWAY).
	cn.fr = NewFramer(sc.B, nil)
	cn.henc = hpack.NewEncoder(&cn.hbuf)
	cn.sSettings = []hcSettings{{iw: 65535, mf: 16384, mcs: 1 << 31}}
	r.conns = append(r.conns, cn)
	if cn.auto || r.healed {
		cn.writeSettings(1<<20, -1, -1)
		cn.writeWU(nil, 1<<28)
	} else {
		cn.writeSettings(r.p.initIW, r.p.initMF, r.p.initMCS)
		if r.p.initWU > 0 {
			cn.writeWU(nil, int64(r.p.initWU))
		}
	}
	return sc.A, nil
}

func (r *hcRun) onNewClientConn(cc *ClientConn) {
	r.mu.Lock()
	defer r.mu.Unlock()
	for _, cn := range r.conns {
		if net.Conn(cn.sc.A) == cc.tconn {
			cn.cc = cc
		}
	}
}

// hcSplitHint proposes chunk sizes that end inside frame headers.
func hcSplitHint(b []byte) []int {
	var out []int
	off := 0
	for off+9 <= len(b) && len(out) < 24 {
		l := int(b[off])<<16 | int(b[off+1])<<8 | int(b[off+2])
		for _, h := range []int{off + 1, off + 9, off + 9 + l} {
			if h >= 1 && h <= len(b) {
				out = append(out, h)
			}
		}
		off += 9 + l
	}
	return out
}

// ---------------------------------------------------------------------------
// wire monitor over the client's output (evaluated at every quiescent point)

func hcU32(p []byte) uint32 {
	return uint32(p[0])<<24 | uint32(p[1])<<16 | uint32(p[2])<<8 | uint32(p[3])
}

// possiblyClosed: the client may regard the stream as closed (so it no longer
// counts against MAX_CONCURRENT_STREAMS): it reset it, or the server's reset was
// delivered, or both directions ended and the server's END_STREAM was delivered.
func (st *hcStream) possiblyClosed(delivered int64) bool {
	return st.cliRst || (st.srvRst && st.srvRstOff <= delivered) || (st.cliEnd && st.srvEnd && st.srvEndOff <= delivered)
}

func (r *hcRun) onClientFrame(cn *hcConn, f *vmFrame) *vs.Violation {
	delivered := cn.sc.DeliveredBA()
	mcsMax, iwMax, mfMax := cn.bounds(delivered)
	if f.Type == FrameHeaders {
		cn.hdrStep = f.Step
	}
	switch f.Type {
	case FrameSettings:
		if f.Flags&FlagSettingsAck != 0 {
			cn.cliAcks++
			break
		}
		cn.gotCliSet = true
		for _, s := range vmSettings(f.Payload) {
			switch s.ID {
			case SettingInitialWindowSize:
				cn.cliIW = int64(s.Val)
			case SettingMaxFrameSize:
				cn.cliMaxFrame = int64(s.Val)
			}
		}
	case FrameWindowUpdate:
		if len(f.Payload) != 4 {
			break
		}
		inc := int64(hcU32(f.Payload) & 0x7fffffff)
		if f.SID == 0 {
			cn.cliConnWUs = append(cn.cliConnWUs, hcWU{inc, f.End})
			cn.cliConnWU += inc
			if 65535+cn.cliConnWU-cn.srvConnFlow > 1<<31-1 {
				return vs.Violf("C10", "window_overflow", "cli:conn_window_overflow", "conn %d: connection receive window as advertised to the server exceeds 2^31-1 (65535 + %d updates - %d sent)", cn.idx, cn.cliConnWU, cn.srvConnFlow)
			}
		} else if st := cn.streams[f.SID]; st != nil {
			st.cliWUs = append(st.cliWUs, hcWU{inc, f.End})
			st.cliWUSum += inc
			if cn.cliIW+st.cliWUSum-st.srvFlow > 1<<31-1 {
				return vs.Violf("C10", "window_overflow", "cli:stream_window_overflow", "conn %d stream %d: receive window as advertised exceeds 2^31-1", cn.idx, f.SID)
			}
		}
	case FramePing:
		// answered in serverReact once delivered
	case FrameGoAway:
		cn.cliGoAway = true
		if len(f.Payload) >= 8 {
			cn.cliGoAwayCd = ErrCode(hcU32(f.Payload[4:8]))
			if cn.cliGoAwayCd == ErrCodeFlowControl {
				cn.flowErr = true
			}
		}
	case FrameRSTStream:
		if st := cn.streams[f.SID]; st != nil && len(f.Payload) == 4 {
			st.cliRst = true
			st.cliRstCode = ErrCode(hcU32(f.Payload))
			if st.cliRstCode == ErrCodeFlowControl {
				cn.flowErr = true
			}
		}
	case FrameHeaders, FrameContinuation:
		if !f.HdrDone {
			break
		}
		if f.HdrErr != nil {
			return vs.Violf("C14", "request_hpack", "cli:hpack", "conn %d: request header block does not decode: %v", cn.idx, f.HdrErr)
		}
		sid := f.HdrSID
		if st := cn.streams[sid]; st != nil {
			// no caller sends trailers: a second header block on a stream is a
			// new request placed on a stream ID that was already used
			return vs.Violf("C17", "stream_id_order", "cli:stream_id_reused", "conn %d: client sent a second HEADERS block on stream %d (first used by request %d; last opened stream %d)", cn.idx, sid, st.req, cn.lastSID)
		}
		// a new stream
		if sid%2 != 1 {
			return vs.Violf("C17", "stream_id_parity", "cli:even_stream_id", "conn %d: client opened stream %d (even)", cn.idx, sid)
		}
		if sid <= cn.lastSID {
			return vs.Violf("C17", "stream_id_order", "cli:stream_id_not_increasing", "conn %d: client opened stream %d after stream %d", cn.idx, sid, cn.lastSID)
		}
		open := 0
		for _, o := range cn.order {
			if !o.possiblyClosed(delivered) {
				open++
			}
		}
		mcsMax = cn.mcsBoundSince(min(cn.acksAtPrevHdr, cn.cliAcks), delivered)
		cn.acksAtPrevHdr = cn.cliAcks
		if int64(open)+1 > mcsMax {
			sig := "cli:nonstrict_headers_on_full_conn"
			if r.p.strict {
				sig = "cli:strict_limit_exceeded"
			}
			return vs.Violf("C17", "max_concurrent_streams", sig, "conn %d: client opened stream %d while %d streams were still open on the wire; the largest SETTINGS_MAX_CONCURRENT_STREAMS it may be using is %d (acks written %d, settings %+v, server bytes delivered %d)", cn.idx, sid, open, mcsMax, cn.cliAcks, cn.sSettings, delivered)
		}
		if int64(open)+1 == mcsMax {
			vs.G.Inc("probe.opened_at_limit")
		}
		for _, g := range cn.goaways {
			if g.seenStep > 0 && cn.hdrStep >= g.seenStep {
				return vs.Violf("C18", "new_stream_after_goaway", "cli:new_stream_after_goaway", "conn %d: client opened stream %d (step %d) although GOAWAY(last=%d, code=%v) had been delivered and processed at step %d", cn.idx, sid, cn.hdrStep, g.last, g.code, g.seenStep)
			}
		}
		st := &hcStream{cn: cn, id: sid, req: -1, hdrStep: cn.hdrStep, decl: -1}
		cn.lastSID = sid
		cn.streams[sid] = st
		cn.order = append(cn.order, st)
		st.cliEnd = f.HdrEndStr
		for _, g := range cn.goaways {
			if sid > g.last {
				st.refused = true
			}
		}
		if v, ok := vmField(f.Fields, ":method"); ok && v == "HEAD" {
			st.head = true
			vs.G.Inc("probe.head_request")
		}
		if v, ok := vmField(f.Fields, "x-vf-idx"); ok {
			if i, err := strconv.Atoi(v); err == nil && i >= 0 && i < len(r.reqs) {
				st.req = i
			}
		}
		if st.req < 0 {
			return vs.Violf("C14", "unknown_request", "cli:unknown_request", "conn %d: HEADERS for a request no caller issued: %v", cn.idx, f.Fields)
		}
		rq := r.reqs[st.req]
		st.attempt = len(rq.attempts)
		for _, a := range rq.attempts {
			if a.cn == cn && !(a.srvRst && a.srvRstCode == ErrCodeRefusedStream) {
				// (a stream the server refused with RST_STREAM(REFUSED_STREAM) may be retried anywhere)
				return vs.Violf("C18", "duplicate_on_connection", "cli:request_twice_on_conn", "request %d was opened twice on connection %d (streams %d and %d)", rq.idx, cn.idx, a.id, sid)
			}
			if a.srvEndLive && a.respSeenStep > 0 && st.hdrStep >= a.respSeenStep && !rq.cancelled {
				return vs.Violf("C18", "resent_after_response", "cli:resent_after_full_response", "request %d was re-sent (conn %d stream %d, step %d) although its complete response on conn %d stream %d had been delivered at step %d", rq.idx, cn.idx, sid, st.hdrStep, a.cn.idx, a.id, a.respSeenStep)
			}
		}
		if len(rq.attempts) > 0 {
			// The transport re-sends a request only if the previous attempt was
			// refused: its stream was above the last-stream-id of a GOAWAY, or the
			// server reset it with REFUSED_STREAM. A request on a stream the GOAWAY
			// covers (or on a healthy connection) runs to completion or fails.
			if prev := rq.attempts[len(rq.attempts)-1]; !prev.refused && !(prev.srvRst && prev.srvRstCode == ErrCodeRefusedStream) {
				return vs.Violf("C18", "resent_without_refusal", "cli:unrefused_request_resent", "request %d was sent again (conn %d stream %d) although its previous attempt on conn %d stream %d was neither above a GOAWAY's last-stream-id (goaways on that conn: %d) nor reset with REFUSED_STREAM", rq.idx, cn.idx, sid, prev.cn.idx, prev.id, len(prev.cn.goaways))
			}
			vs.G.Inc("probe.request_resent")
			if len(rq.attempts) >= 2 {
				vs.G.Inc("probe.request_resent_after_backoff")
			}
			if rq.p.post && !rq.p.getBody && len(rq.bodies) > 0 && rq.bodies[0].consumedBytes() > 0 {
				return vs.Violf("C18", "nonreplayable_resent", "cli:nonreplayable_body_resent", "request %d has a body that cannot be replayed (no GetBody, %d bytes already consumed) but was sent again on conn %d stream %d", rq.idx, rq.bodies[0].consumedBytes(), cn.idx, sid)
			}
		}
		rq.attempts = append(rq.attempts, st)
	case FrameData:
		st := cn.streams[f.SID]
		if st == nil {
			return vs.Violf("C14", "data_on_unknown_stream", "cli:data_unknown_stream", "conn %d: DATA on stream %d that was never opened", cn.idx, f.SID)
		}
		flow, data, ok := f.data()
		if !ok {
			return vs.Violf("C14", "data_padding", "cli:data_padding", "malformed DATA padding from client")
		}
		if int64(len(f.Payload)) > mfMax {
			return vs.Violf("C09", "frame_exceeds_max_frame_size", "cli:max_frame", "conn %d stream %d: DATA payload %d > server's SETTINGS_MAX_FRAME_SIZE bound %d (acks %d, settings %+v)", cn.idx, f.SID, len(f.Payload), mfMax, cn.cliAcks, cn.sSettings)
		}
		credit := iwMax
		for _, w := range st.srvWUs {
			if w.endOff <= delivered {
				credit += w.inc
			}
		}
		connCredit := int64(65535)
		for _, w := range cn.connWUs {
			if w.endOff <= delivered {
				connCredit += w.inc
			}
		}
		st.cliFlow += int64(flow)
		cn.cliConnFlow += int64(flow)
		// a SETTINGS change may leave a window negative; only a frame that
		// consumes window must fit into the credit
		if flow > 0 && st.cliFlow > credit {
			return vs.Violf("C09", "stream_window_exceeded", "cli:stream_window", "conn %d stream %d: client has sent %d flow-controlled bytes (this frame: %d, written at step %d) but the window it may use is at most %d (initial window bound %d + delivered WINDOW_UPDATEs; server bytes delivered %d; acks %d; settings %+v)", cn.idx, f.SID, st.cliFlow, flow, f.Step, credit, iwMax, delivered, cn.cliAcks, cn.sSettings)
		}
		if flow > 0 && cn.cliConnFlow > connCredit {
			return vs.Violf("C09", "conn_window_exceeded", "cli:conn_window", "conn %d: client has sent %d flow-controlled bytes (this frame: %d on stream %d) but delivered connection credit is %d", cn.idx, cn.cliConnFlow, flow, f.SID, connCredit)
		}
		if flow > 0 && st.cliFlow == credit {
			vs.G.Inc("probe.stream_window_exhausted")
		}
		if flow > 0 && cn.cliConnFlow == connCredit {
			vs.G.Inc("probe.conn_window_exhausted")
		}
		if st.cliFlow > credit {
			vs.G.Inc("probe.window_negative_zero_len_data")
		}
		for i, b := range data {
			if b != hcReqByte(st.req, st.cliData+int64(i)) {
				if st.attempt > 0 {
					return vs.Violf("C18", "resent_body_mismatch", "cli:resent_body_bytes", "request %d re-sent on conn %d stream %d: body byte at offset %d is not the byte of the original body", st.req, cn.idx, f.SID, st.cliData+int64(i))
				}
				return vs.Violf("C14", "request_body_bytes", "cli:req_body", "conn %d stream %d: request DATA byte at offset %d differs from the body", cn.idx, f.SID, st.cliData+int64(i))
			}
		}
		st.cliData += int64(len(data))
		rq := r.reqs[st.req]
		if st.cliData > int64(rq.p.bodyLen) {
			return vs.Violf("C14", "request_body_phantom", "cli:req_phantom", "conn %d stream %d: %d body bytes on the wire, the body has %d", cn.idx, f.SID, st.cliData, rq.p.bodyLen)
		}
		if f.Flags&FlagDataEndStream != 0 {
			st.cliEnd = true
			if st.cliData != int64(rq.p.bodyLen) {
				oracle, prop := "request_body_short", "C14"
				if st.attempt > 0 {
					oracle, prop = "resent_body_short", "C18"
				}
				return vs.Violf(prop, oracle, "cli:req_short", "request %d on conn %d stream %d ended after %d of %d body bytes", st.req, cn.idx, f.SID, st.cliData, rq.p.bodyLen)
			}
		}
	}
	return nil
}

// serverReact lets the scripted server take note of the client frames that
// have been delivered to it: acknowledge SETTINGS and PINGs, learn about
// streams, and (on "normal" connections) answer complete requests.
func (r *hcRun) serverReact(cn *hcConn) {
	dAB := cn.sc.DeliveredAB()
	for cn.nKnown < len(cn.frames) && cn.frames[cn.nKnown].End <= dAB {
		f := cn.frames[cn.nKnown]
		cn.nKnown++
		switch f.Type {
		case FrameSettings:
			if f.Flags&FlagSettingsAck == 0 && cn.writable() {
				cn.fr.WriteSettingsAck()
			}
		case FramePing:
			if f.Flags&FlagPingAck == 0 && len(f.Payload) == 8 && cn.writable() {
				var d [8]byte
				copy(d[:], f.Payload)
				cn.fr.WritePing(true, d)
				vs.G.Inc("probe.client_ping_acked")
			}
		case FrameHeaders, FrameContinuation:
			if f.HdrDone {
				if st := cn.streams[f.HdrSID]; st != nil {
					st.known = true
					if f.HdrEndStr {
						st.cliEndKnown = true
					}
				}
			}
		case FrameData:
			if st := cn.streams[f.SID]; st != nil && f.Flags&FlagDataEndStream != 0 {
				st.cliEndKnown = true
			}
		case FrameRSTStream:
			if st := cn.streams[f.SID]; st != nil {
				st.cliRstKnown = true
			}
		}
	}
	if cn.auto && cn.writable() {
		// (answered in request order, not stream order: which of several requests
		// the transport re-sends first after a GOAWAY depends on map iteration)
		order := append([]*hcStream(nil), cn.order...)
		sort.SliceStable(order, func(i, j int) bool { return order[i].req < order[j].req })
		for _, st := range order {
			if st.known && st.cliEndKnown && !st.srvEnd && !st.srvRst && !st.cliRstKnown {
				cn.writeHeaders(st, 200, -1, false)
				n := max(0, min(10, cn.srvConnWindow(), cn.cliIW)) // within the client's advertised windows
				cn.writeData(st, int(n), 0, true)
			}
		}
	}
}

func (r *hcRun) check() *vs.Violation {
	r.mu.Lock()
	defer r.mu.Unlock()
	r.step++
	if r.viol != nil {
		return r.viol
	}
	for _, cn := range r.conns {
		for _, f := range cn.takePending() {
			cn.frames = append(cn.frames, f)
			if v := r.onClientFrame(cn, f); v != nil {
				return v
			}
		}
	}
	for _, cn := range r.conns {
		r.serverReact(cn)
		dBA := cn.sc.DeliveredBA()
		if !cn.cliClosed && cn.sc.A.IsClosed() {
			cn.cliClosed = true
		}
		if cn.cc != nil && !cn.flowErr {
			select {
			case <-cn.cc.readerDone:
				if ce, ok := cn.cc.readerErr.(ConnectionError); ok && ErrCode(ce) == ErrCodeFlowControl {
					cn.flowErr = true
				}
			default:
			}
		}
		for _, g := range cn.goaways {
			if g.seenStep == 0 && g.endOff <= dBA {
				g.seenStep = r.step
				vs.G.Inc("probe.goaway_delivered")
				for _, st := range cn.order {
					if st.id > g.last && !st.srvEnd && !st.srvRst {
						vs.G.Inc("probe.goaway_with_inflight_above_last")
					}
				}
			}
		}
		for _, st := range cn.order {
			if st.srvEnd && st.srvEndLive && st.respSeenStep == 0 && st.srvEndOff <= dBA {
				st.respSeenStep = r.step
			}
			// C11: over-window DATA that has been delivered must have produced a
			// FLOW_CONTROL_ERROR by the next quiescent point
			if st.overSent && st.overEndOff > 0 && st.overEndOff <= dBA {
				if !cn.flowErr {
					return vs.Violf("C11", "over_window_not_rejected", "cli:over_window_accepted", "conn %d stream %d: DATA exceeding the advertised window was delivered but the client reported no FLOW_CONTROL_ERROR (rst=%v/%v goaway=%v/%v closed=%v)", cn.idx, st.id, st.cliRst, st.cliRstCode, cn.cliGoAway, cn.cliGoAwayCd, cn.cliClosed)
				}
				st.overEndOff = -1
			}
		}
		if cn.flowErr && !cn.anyOver && (r.p.focus == "C11" || r.p.focus == "C10") {
			return vs.Violf("C11", "within_window_rejected", "cli:within_window_rejected", "conn %d: the client reported FLOW_CONTROL_ERROR although the server stayed within the advertised windows", cn.idx)
		}
		if v := r.checkBlockedBodies(cn, dBA); v != nil {
			return v
		}
		// C17 white-box: requests parked waiting for a stream slot
		if cn.cc != nil && r.p.focus == "C17" {
			cc := cn.cc
			cc.mu.Lock()
			pend, cnt, mx, usable := cc.pendingRequests, cc.currentRequestCountLocked(), int(cc.maxConcurrentStreams), cc.canTakeNewRequestLocked()
			cc.mu.Unlock()
			if pend > 0 {
				vs.G.Inc("probe.requests_waiting_for_slot")
				if !r.p.strict {
					return vs.Violf("C17", "nonstrict_request_queued", "cli:nonstrict_queued_on_full_conn", "conn %d: without StrictMaxConcurrentStreams %d request(s) are queued on a connection that is at its limit (%d in use, limit %d) instead of being placed on another connection", cn.idx, pend, cnt, mx)
				}
				if cnt < mx && usable && r.lostWake == nil {
					vs.G.Inc("probe.pending_with_free_slot")
					r.lostWake = vs.Violf("C17", "waiter_not_woken", "cli:pending_with_free_slot", "conn %d: at a quiescent point %d request(s) are still parked waiting for a stream slot although only %d of %d slots are in use and the connection is usable (nothing woke them when the limit was raised)", cn.idx, pend, cnt, mx)
				}
			}
		}
	}
	if r.p.focus == "C17" && !r.p.strict && !r.tearing {
		if v := r.checkPoolChoice(); v != nil {
			return v
		}
	}
	for _, cn := range r.conns {
		cn.acksAtPrevChk = cn.cliAcks
	}
	return nil
}

func (r *hcRun) noteGotConn(rq *hcReq, c net.Conn) {
	r.mu.Lock()
	defer r.mu.Unlock()
	rq.gotConns++
	rq.asgConn = nil
	for _, cn := range r.conns {
		if net.Conn(cn.sc.A) == c {
			rq.asgConn = cn
		}
	}
	r.asgSeq++
	rq.asgSeq, rq.asgUB = r.asgSeq, 0
}

// checkPoolChoice is the C17 oracle for "without StrictMaxConcurrentStreams a
// connection that is at its limit is not chosen for new requests by the pool".
// Evaluated at quiescent points from what httptrace.GotConn reported. Counted
// for connection X are requests that certainly hold a place on X (a reservation
// or a stream) from the moment the pool placed them until now:
//   - placed exactly once, on X, RoundTrip not returned, not cancelled;
//   - placed while the limit was settled: the client had acknowledged X's latest
//     SETTINGS frame before the step in which it was placed, and the server has
//     written no SETTINGS since (a request placed under an older, higher limit
//     may have been turned away when its turn came - it then holds nothing, and
//     under write back-pressure it can sit in its clean-up, waiting for the
//     connection's write lock, before it retries);
//   - no frame on the wire has ended its stream (a finished request can wait for
//     the write lock, too, before RoundTrip returns).
// X itself must be healthy (no GOAWAY, not closed or closing, reusable) and
// must have seen no client reset (a reset stream is counted twice for a moment,
// which can turn a correctly placed request away). With the limit settled at m
// nothing turns a counted request away, so each of them was placed while the
// others counted before it held their places: there are at most m of them.
func (r *hcRun) checkPoolChoice() *vs.Violation {
	delivered := func(cn *hcConn) int {
		d, dBA := 0, cn.sc.DeliveredBA()
		for i := 1; i < len(cn.sSettings); i++ {
			if cn.sSettings[i].endOff <= dBA {
				d = i
			}
		}
		return d
	}
	by := map[*hcConn][]*hcReq{}
	for _, rq := range r.reqs {
		cn := rq.asgConn
		if cn == nil || !rq.started || rq.returned {
			continue
		}
		if rq.asgUB == 0 {
			// first quiescent point after the placement
			rq.asgUB = -1
			if d := delivered(cn); d >= 1 && d == len(cn.sSettings)-1 && cn.acksAtPrevChk >= d {
				rq.asgUB, rq.asgSet = max(cn.sSettings[d].mcs, 1), d
			}
		}
		if rq.gotConns != 1 || rq.cancelled || rq.asgUB < 0 || rq.asgSet != len(cn.sSettings)-1 {
			continue
		}
		if n := len(rq.attempts); n > 0 {
			st := rq.attempts[n-1]
			if st.cliRst || st.srvRst || st.srvEnd {
				continue
			}
		}
		by[cn] = append(by[cn], rq)
	}
	for _, cn := range r.conns {
		s := by[cn]
		if len(s) == 0 || cn.cc == nil || cn.auto || !cn.writable() || cn.cliClosed || len(cn.goaways) > 0 || cn.flowErr {
			continue
		}
		anyRst := false
		for _, st := range cn.order {
			anyRst = anyRst || st.cliRst
		}
		for _, rq := range r.reqs {
			anyRst = anyRst || (rq.cancelled && rq.asgConn == cn)
		}
		cc := cn.cc
		cc.mu.Lock()
		healthy := !cc.closed && !cc.closing && cc.goAway == nil && !cc.doNotReuse && cc.pendingResets == 0
		wb := fmt.Sprintf("streams=%d reserved=%d pendingRequests=%d maxConcurrentStreams=%d", len(cc.streams), cc.streamsReserved, cc.pendingRequests, cc.maxConcurrentStreams)
		cc.mu.Unlock()
		if anyRst || !healthy {
			continue
		}
		m := s[0].asgUB
		if int64(len(s)) == m {
			vs.G.Inc("probe.pool_conn_full_of_counted_requests")
		}
		if int64(len(s)) > m {
			sort.Slice(s, func(i, j int) bool { return s[i].asgSeq < s[j].asgSeq })
			var ids []int
			for _, q := range s {
				ids = append(ids, q.idx)
			}
			return vs.Violf("C17", "pool_chose_full_conn", "cli:pool_chose_conn_at_limit", "conn %d: without StrictMaxConcurrentStreams %d requests that the pool placed on this connection while its limit was settled at SETTINGS_MAX_CONCURRENT_STREAMS=%d hold a place on it at once (placed once, RoundTrip not returned, not cancelled, stream not ended by any frame; in placement order: %v): the pool chose the connection for request %d while it was at its limit (acks written %d, settings %+v; white-box: %s)", cn.idx, len(s), m, ids, ids[m], cn.cliAcks, cn.sSettings, wb)
		}
	}
	return nil
}

// checkBlockedBodies is the per-step C09 liveness oracle ("a blocked request
// body resumes when the server extends the window"). At a quiescent point a
// correct Transport that holds body bytes it has not written yet (the body
// reader has handed over more than the DATA payload seen on the wire, and the
// Transport is not inside Read) is parked in awaitFlowControl, which it only
// does while the usable send window (min of stream and connection window) is
// <= 0; every change of a window wakes all waiters. So: unsent bytes + not in
// Read + stream and connection live + cs.flow.available() > 0 (white-box, under
// cc.mu) = a waiter that was not woken. A window that is negative or zero
// (SETTINGS shrink, exhausted connection window) gives available() <= 0 and is
// a legitimately blocked body; those are only counted (for the probe).
func (r *hcRun) checkBlockedBodies(cn *hcConn, dBA int64) *vs.Violation {
	prev := cn.prevBlocked
	cn.prevBlocked = nil
	// probe: several bodies blocked at the previous quiescent point and now a
	// WINDOW_UPDATE for one of them has been delivered
	for _, st := range cn.order {
		for st.srvWUSeen < len(st.srvWUs) && st.srvWUs[st.srvWUSeen].endOff <= dBA {
			st.srvWUSeen++
			if len(prev) >= 2 {
				for i, b := range prev {
					if b == st {
						vs.G.Inc("probe.stream_wu_delivered_while_several_bodies_blocked")
						if i > 0 {
							vs.G.Inc("probe.stream_wu_for_non_first_blocked_body")
						}
					}
				}
			}
		}
	}
	if cn.cc == nil || !cn.writable() || cn.cliClosed || len(cn.goaways) > 0 || cn.flowErr {
		return nil
	}
	cc := cn.cc
	cc.mu.Lock()
	defer cc.mu.Unlock()
	if cc.closed || cc.closing || cc.goAway != nil {
		return nil
	}
	for _, st := range cn.order {
		if st.req < 0 || st.cliEnd || st.cliRst || st.srvRst || st.srvEnd || st.refused || st.overSent {
			continue
		}
		rq := r.reqs[st.req]
		if rq.cancelled || (rq.returned && rq.err != nil) {
			continue
		}
		cs := cc.streams[st.id]
		if cs == nil || cs.reqBodyClosed != nil || cs.readAborted || cs.sentEndStream {
			continue
		}
		select {
		case <-cs.abort:
			continue
		default:
		}
		b, ok := cs.reqBody.(*hcBody)
		if !ok {
			continue
		}
		consumed, inRead := b.state()
		if inRead || int64(consumed) <= st.cliData {
			continue
		}
		avail := cs.flow.available()
		if avail <= 0 {
			cn.prevBlocked = append(cn.prevBlocked, st)
			continue
		}
		return vs.Violf("C09", "blocked_with_window", "cli:body_blocked_with_window", "conn %d stream %d (request %d): at a quiescent point the transport holds %d request-body bytes it has not written (reader handed over %d, %d on the wire), it is not reading the body, the stream and the connection are live, and the usable send window is %d (stream %d, connection %d): a body write blocked on flow control was not woken when the window was extended", cn.idx, st.id, st.req, int64(consumed)-st.cliData, consumed, st.cliData, avail, cs.flow.n, cc.flow.n)
	}
	if len(cn.prevBlocked) >= 2 {
		vs.G.Inc("probe.several_bodies_blocked_on_flow_control")
	}
	return nil
}

// ---------------------------------------------------------------------------
// script execution (scheduler goroutine)

func (r *hcRun) cands(pred func(*hcStream) bool) []*hcStream {
	var out []*hcStream
	for _, cn := range r.conns {
		if cn.auto || !cn.writable() || cn.cliClosed {
			continue
		}
		for _, st := range cn.order {
			if st.known && pred(st) {
				out = append(out, st)
			}
		}
	}
	sort.SliceStable(out, func(i, j int) bool {
		if out[i].req != out[j].req {
			return out[i].req < out[j].req
		}
		return out[i].attempt < out[j].attempt
	})
	return out
}

func (r *hcRun) scriptedConns(pred func(*hcConn) bool) []*hcConn {
	var out []*hcConn
	for _, cn := range r.conns {
		if !cn.auto && cn.writable() && !cn.cliClosed && pred(cn) {
			out = append(out, cn)
		}
	}
	return out
}

func hcAlive(st *hcStream) bool { return !st.srvEnd && !st.srvRst && !st.refused }

// opTargets resolves the op against the current state; ok=false means the op
// cannot be executed now.
func (r *hcRun) opStreams(op hcOp) []*hcStream {
	f := r.p.focus
	switch op.kind {
	case "hdr":
		return r.cands(func(st *hcStream) bool {
			if st.srvHdr || !hcAlive(st) || st.cliRstKnown {
				return false
			}
			return !(op.end && f == "C09" && !st.cliEndKnown)
		})
	case "finish":
		return r.cands(func(st *hcStream) bool { return hcAlive(st) && st.cliEndKnown && !st.cliRstKnown })
	case "data", "overdata":
		return r.cands(func(st *hcStream) bool {
			if (!st.srvHdr && op.kind == "data") || !hcAlive(st) || st.status == 204 || st.overSent || st.head {
				return false
			}
			if op.kind == "overdata" && op.connLvl && f == "C11" && st.cliRstKnown {
				// a stream the client has reset and forgotten: its stream window is
				// gone, but DATA on it still counts against - and must be checked
				// against - the connection window
				return true
			}
			if op.kind == "overdata" {
				// only streams that are certainly still live on the client: once the
				// caller has cancelled, failed or begun to close the body the client
				// has reset the stream internally (even if its RST_STREAM is not out
				// yet) and its stream-level window no longer exists
				if rq := r.reqs[st.req]; rq.cancelled || rq.closing || rq.readErr != nil || (rq.returned && rq.respStr != st) {
					return false
				}
			}
			return f == "C10" || !st.cliRstKnown
		})
	case "rst":
		return r.cands(func(st *hcStream) bool { return hcAlive(st) && !st.cliRstKnown })
	case "wu":
		return r.cands(func(st *hcStream) bool {
			return hcAlive(st) && !st.cliEndKnown && !st.cliRstKnown && st.srvWUSum+int64(op.n) <= 1<<29
		})
	}
	return nil
}

func (r *hcRun) opApplicable(op hcOp) bool {
	switch op.kind {
	case "hdr", "finish", "data", "overdata", "rst":
		return len(r.opStreams(op)) > 0
	case "wu":
		if op.connLvl {
			return len(r.scriptedConns(func(cn *hcConn) bool { return cn.connCredit+int64(op.n) <= 1<<30 })) > 0
		}
		return len(r.opStreams(op)) > 0
	case "settings":
		return len(r.scriptedConns(func(cn *hcConn) bool { return true })) > 0
	case "goaway":
		return len(r.scriptedConns(func(cn *hcConn) bool { return len(cn.goaways) < 2 })) > 0
	case "close":
		return len(r.scriptedConns(func(cn *hcConn) bool { return len(cn.goaways) > 0 })) > 0
	case "cancel":
		for _, rq := range r.reqs {
			if rq.started && !rq.cancelled && !rq.done {
				return true
			}
		}
	}
	return false
}

func (r *hcRun) doOp(op hcOp) {
	r.mu.Lock()
	defer r.mu.Unlock()
	if !r.opApplicable(op) {
		vs.G.Inc("skip.op_" + op.kind)
		return
	}
	r.opsRun++
	switch op.kind {
	case "hdr":
		c := r.opStreams(op)
		st := c[op.sel%len(c)]
		end := op.end || op.status == 204
		st.cn.writeHeaders(st, op.status, op.decl, end)
		r.tr.Ev("  srv HEADERS c%d req=%d.%d status=%d decl=%d end=%v", st.cn.idx, st.req, st.attempt, op.status, op.decl, end)
	case "finish":
		c := r.opStreams(op)
		st := c[op.sel%len(c)]
		r.finish(st)
	case "data":
		c := r.opStreams(op)
		st := c[op.sel%len(c)]
		cn := st.cn
		allowed := min(cn.srvConnWindow(), cn.srvStreamWindow(st), cn.cliMaxFrame)
		n, pad := op.n, op.pad
		if pad > 0 {
			if int64(pad)+1 > allowed {
				pad = 0
			} else {
				allowed -= int64(pad) + 1
			}
		}
		if int64(n) > allowed {
			n = int(max(allowed, 0))
		}
		if n == 0 && pad == 0 && !op.end {
			vs.G.Inc("skip.data_no_window")
			return
		}
		if st.cliRstKnown {
			vs.G.Inc("probe.data_on_stream_reset_by_client")
		}
		if rq := r.reqs[st.req]; rq.closing && rq.respStr == st && !st.cliRst && !st.cliEnd {
			vs.G.Inc("probe.data_after_body_closed_stream_still_open")
		}
		if len(cn.goaways) > 0 {
			vs.G.Inc("probe.data_after_goaway")
		}
		if st.decl >= 0 && st.srvData+int64(n) > int64(st.decl) {
			vs.G.Inc("probe.data_beyond_content_length")
		}
		if pad > 0 {
			vs.G.Inc("probe.padded_data")
		}
		cn.writeData(st, n, pad, op.end)
		st.acceptedMax = st.srvData
		r.tr.Ev("  srv DATA c%d req=%d.%d n=%d pad=%d end=%v", cn.idx, st.req, st.attempt, n, pad, op.end)
	case "overdata":
		c := r.opStreams(op)
		st := c[op.sel%len(c)]
		cn := st.cn
		inflight := !cn.gotCliSet || cn.nKnown != len(cn.frames)
		for _, o := range r.conns {
			inflight = inflight || o.sc.InflightAB() != 0 || o.sc.InflightBA() != 0
		}
		if inflight || (!st.srvHdr && !st.cliRstKnown) {
			// bring the connection to a state with nothing in flight and try again
			if !st.srvHdr && cn.gotCliSet && !st.cliRstKnown {
				cn.writeHeaders(st, 200, -1, false)
			}
			r.opsRun--
			if r.overRetry < 4 {
				r.overRetry++
				r.nextOp--
			} else {
				r.overRetry = 0
				vs.G.Inc("skip.overdata_inflight")
			}
			conns := append([]*hcConn(nil), r.conns...)
			r.mu.Unlock()
			for _, o := range conns {
				o.sc.DeliverAll()
			}
			r.mu.Lock()
			return
		}
		r.overRetry = 0
		// nothing in flight: the client's windows are known exactly
		ws := cn.cliIW + st.cliWUSum - st.srvFlow
		if st.cliRstKnown {
			ws = 1 << 40 // forgotten by the client: no stream window any more
			vs.G.Inc("probe.over_window_probe_on_forgotten_stream")
		}
		wc := 65535 + cn.cliConnWU - cn.srvConnFlow
		w := ws
		if op.connLvl {
			w = wc
		}
		if w < 0 {
			return
		}
		flow := w + int64(op.over)
		if flow > cn.cliMaxFrame || flow == 0 {
			vs.G.Inc("skip.overdata_frame_too_big")
			return
		}
		pad := op.pad
		if int64(pad)+1 > flow {
			pad = 0
		}
		n := int(flow)
		if pad > 0 {
			n = int(flow) - pad - 1
		}
		exceeds := flow > ws || flow > wc
		before := st.srvData
		cn.writeData(st, n, pad, false)
		if exceeds {
			st.overSent, st.overEndOff, st.acceptedMax = true, cn.sc.WrittenBA(), before
			cn.anyOver = true
			vs.G.Inc("probe.over_window_data_sent")
			if flow > wc {
				vs.G.Inc("probe.over_conn_window_data_sent")
			}
		} else {
			st.acceptedMax = st.srvData
			vs.G.Inc("probe.exact_boundary_data_sent")
		}
		r.tr.Ev("  srv DATA(over=%d conn=%v) c%d req=%d.%d flow=%d ws=%d wc=%d exceeds=%v", op.over, op.connLvl, cn.idx, st.req, st.attempt, flow, ws, wc, exceeds)
		// atomic: deliver at once so that no WINDOW_UPDATE can race
		r.mu.Unlock()
		cn.sc.DeliverAll()
		r.mu.Lock()
	case "rst":
		c := r.opStreams(op)
		st := c[op.sel%len(c)]
		st.cn.writeRST(st, op.code)
		r.tr.Ev("  srv RST_STREAM c%d req=%d.%d code=%d", st.cn.idx, st.req, st.attempt, op.code)
	case "wu":
		if op.connLvl {
			c := r.scriptedConns(func(cn *hcConn) bool { return cn.connCredit+int64(op.n) <= 1<<30 })
			cn := c[op.sel%len(c)]
			cn.writeWU(nil, int64(op.n))
			r.tr.Ev("  srv WINDOW_UPDATE c%d conn inc=%d", cn.idx, op.n)
			break
		}
		c := r.opStreams(op)
		st := c[op.sel%len(c)]
		if r.p.focus == "C09" {
			// When the client has used up everything granted on two or more
			// streams (as far as the wire shows), usually extend the window of a
			// single one of them that is not the first: only that body may resume.
			var ex []*hcStream
			for _, o := range c {
				if !o.cliEnd && !o.cliRst && o.cliFlow >= o.cn.cur().iw+o.srvWUSum {
					ex = append(ex, o)
				}
			}
			if len(ex) >= 2 && op.sel%4 != 0 {
				st = ex[1+(op.sel/4)%(len(ex)-1)]
				vs.G.Inc("probe.wu_aimed_at_non_first_exhausted_stream")
			}
		}
		st.cn.writeWU(st, int64(op.n))
		r.tr.Ev("  srv WINDOW_UPDATE c%d req=%d.%d inc=%d", st.cn.idx, st.req, st.attempt, op.n)
	case "settings":
		c := r.scriptedConns(func(cn *hcConn) bool { return true })
		cn := c[op.sel%len(c)]
		old := cn.cur()
		cn.writeSettings(op.iw, op.mf, op.mcs)
		if op.mcs >= 0 && int64(op.mcs) < old.mcs {
			open := 0
			for _, st := range cn.order {
				if !st.possiblyClosed(1 << 62) {
					open++
				}
			}
			if open > op.mcs {
				vs.G.Inc("probe.limit_lowered_below_open_count")
			}
		}
		if op.iw >= 0 && int64(op.iw) < old.iw {
			vs.G.Inc("probe.initial_window_shrunk")
		}
		if op.mcs < 0 && old.mcs < 1000 && len(cn.sSettings) > 2 {
			vs.G.Inc("probe.later_settings_without_limit_while_limited")
		}
		r.tr.Ev("  srv SETTINGS c%d iw=%d mf=%d mcs=%d", cn.idx, op.iw, op.mf, op.mcs)
	case "goaway":
		c := r.scriptedConns(func(cn *hcConn) bool { return len(cn.goaways) < 2 })
		cn := c[op.sel%len(c)]
		var seen uint32
		for _, st := range cn.order {
			if st.known && st.id > seen {
				seen = st.id
			}
		}
		last := seen
		switch op.lmode {
		case "abs":
			last = uint32(op.labs)
		case "below":
			if seen >= 2 {
				last = seen - 2
			} else {
				last = 0
			}
		case "max":
			last = 1<<31 - 1
		}
		if len(cn.goaways) > 0 && last > cn.goaways[len(cn.goaways)-1].last {
			last = cn.goaways[len(cn.goaways)-1].last // must not increase
		}
		cn.writeGoAway(last, op.code)
		vs.G.Inc("fault.goaway_sent")
		r.tr.Ev("  srv GOAWAY c%d last=%d code=%d (highest seen %d, highest opened %d)", cn.idx, last, op.code, seen, cn.lastSID)
	case "close":
		c := r.scriptedConns(func(cn *hcConn) bool { return len(cn.goaways) > 0 })
		cn := c[op.sel%len(c)]
		cn.sc.B.Close()
		cn.srvClosed = true
		vs.G.Inc("fault.server_closed_after_goaway")
		r.tr.Ev("  srv CLOSE c%d", cn.idx)
	case "cancel":
		var c []*hcReq
		for _, rq := range r.reqs {
			if rq.started && !rq.cancelled && !rq.done {
				c = append(c, rq)
			}
		}
		rq := c[op.sel%len(c)]
		rq.cancelled = true
		if !rq.returned {
			vs.G.Inc("probe.cancel_before_response")
		}
		r.tr.Ev("  cancel req=%d", rq.idx)
		cancel := rq.cancel
		r.mu.Unlock()
		cancel()
		r.mu.Lock()
	}
}

func (r *hcRun) finish(st *hcStream) {
	cn := st.cn
	if !st.srvHdr {
		cn.writeHeaders(st, 200, -1, true)
	} else {
		cn.writeData(st, 0, 0, true)
	}
	r.tr.Ev("  srv finish c%d req=%d.%d", cn.idx, st.req, st.attempt)
}

// heal: the adversity phase is over. The scripted servers raise every limit and
// window and then complete every request.
func (r *hcRun) heal() {
	r.mu.Lock()
	defer r.mu.Unlock()
	r.healed = true
	for _, cn := range r.conns {
		if cn.wstalled {
			cn.wstalled = false
			cn.sc.StallAB(false)
		}
	}
	for _, cn := range r.scriptedConns(func(cn *hcConn) bool { return true }) {
		cur := cn.cur()
		iw, mf, mcs := -1, -1, -1
		if r.p.focus == "C17" {
			// only the limit is raised (nothing else that would wake a waiter)
			if cur.mcs < 1000 {
				cn.writeSettings(-1, -1, 1000)
			}
			continue
		}
		if cur.iw < 1<<20 {
			iw = 1 << 20
		}
		if cur.mf != 16384 {
			mf = 16384
		}
		if cur.mcs < 1000 {
			mcs = 1000
		}
		if iw >= 0 || mf >= 0 || mcs >= 0 {
			cn.writeSettings(iw, mf, mcs)
		}
		if cn.connCredit < 1<<29 {
			cn.writeWU(nil, 1<<29)
		}
		for _, st := range cn.order {
			if st.known && hcAlive(st) && !st.cliEndKnown && !st.cliRstKnown && st.srvWUSum < 1<<29 {
				cn.writeWU(st, 1<<29-st.srvWUSum)
			}
		}
	}
	r.nudgeAt = time.Now().Add(2 * time.Minute)
	r.tr.Ev("  heal: limits and windows raised")
}

// nudge (C17 only, two simulated minutes after the heal): a connection-level
// WINDOW_UPDATE, which makes the client re-examine its waiters.
func (r *hcRun) nudge() {
	r.mu.Lock()
	defer r.mu.Unlock()
	r.nudged = true
	for _, cn := range r.scriptedConns(func(cn *hcConn) bool { return true }) {
		cn.writeWU(nil, 1)
	}
	r.tr.Ev("  nudge: WINDOW_UPDATE(0,1)")
}

func (r *hcRun) finishable() []*hcStream {
	return r.cands(func(st *hcStream) bool {
		if !hcAlive(st) || st.cliRstKnown || st.overSent {
			return false
		}
		return st.cliEndKnown || (st.srvHdr && st.status > 299)
	})
}

func (r *hcRun) Events(now time.Time) []vs.Event {
	r.mu.Lock()
	defer r.mu.Unlock()
	var evs []vs.Event
	for _, rq := range r.reqs {
		for _, b := range rq.bodies {
			if b.wantsGrant() {
				b := b
				w := 2
				if b.stubborn {
					w = 1
				}
				evs = append(evs, vs.Event{Label: fmt.Sprintf("body r%d.%d read", b.idx, b.inst), Weight: w, Run: b.grant})
			}
		}
	}
	if r.p.wbound > 0 && !r.healed {
		// the path towards a scripted server stops/resumes draining: the client's
		// frame writes (HEADERS flushes included) block while it is stopped. (Needs
		// the verif build tag of /repo: ClientConn.wmu waiters must block durably.)
		for _, cn := range r.conns {
			if cn.auto || cn.srvClosed || cn.sc.IsCut() {
				continue
			}
			cn := cn
			evs = append(evs, vs.Event{Label: fmt.Sprintf("net stall toggle c%d A>B", cn.idx), Weight: 1, Run: func() {
				r.mu.Lock()
				cn.wstalled = !cn.wstalled
				on := cn.wstalled
				r.mu.Unlock()
				cn.sc.StallAB(on)
				if on {
					vs.G.Inc("fault.client_write_stall")
				}
			}})
		}
	}
	if r.nextOp < len(r.p.ops) {
		op := r.p.ops[r.nextOp]
		w, label := 3, "script "+op.kind
		if !r.opApplicable(op) {
			w, label = 1, "script skip "+op.kind
		}
		evs = append(evs, vs.Event{Label: label, Weight: w, Run: func() {
			r.mu.Lock()
			r.nextOp++
			r.mu.Unlock()
			r.doOp(op)
		}})
		return evs
	}
	if !r.healed {
		return append(evs, vs.Event{Label: "srv heal", Weight: 1, Run: r.heal})
	}
	if c := r.finishable(); len(c) > 0 {
		st := c[0]
		evs = append(evs, vs.Event{Label: "srv finish", Weight: 2, Run: func() {
			r.mu.Lock()
			if hcAlive(st) && st.cn.writable() {
				r.finish(st)
			}
			r.mu.Unlock()
		}})
	}
	// a connection on which GOAWAY was sent is closed once nothing can be finished on it
	for _, cn := range r.scriptedConns(func(cn *hcConn) bool { return len(cn.goaways) > 0 }) {
		busy := false
		for _, st := range r.finishable() {
			busy = busy || st.cn == cn
		}
		if !busy {
			cn := cn
			evs = append(evs, vs.Event{Label: fmt.Sprintf("srv close c%d", cn.idx), Weight: 1, Run: func() {
				r.mu.Lock()
				cn.sc.B.Close()
				cn.srvClosed = true
				r.mu.Unlock()
			}})
		}
	}
	if r.p.focus == "C17" && !r.nudged && !now.Before(r.nudgeAt) {
		evs = append(evs, vs.Event{Label: "srv nudge", Weight: 1, Run: r.nudge})
	}
	return evs
}

func (r *hcRun) NextTimed(now time.Time) (time.Time, bool) {
	r.mu.Lock()
	defer r.mu.Unlock()
	if r.p.focus == "C17" && r.healed && !r.nudged {
		return r.nudgeAt, true
	}
	return time.Time{}, false
}

// ---------------------------------------------------------------------------
// callers

var (
	hcDebugHash  = os.Getenv("HC_DEBUG_HASH") != ""
	hcDebugTrace = os.Getenv("HC_DEBUG_HASH") == "trace"
)

var hcReadBufs = sync.Pool{New: func() any { b := make([]byte, 1<<16); return &b }}

func (r *hcRun) caller(rq *hcReq) func(tk *vs.Task) {
	return func(tk *vs.Task) {
		defer func() {
			r.mu.Lock()
			rq.done = true
			r.mu.Unlock()
		}()
		tk.Step("roundtrip")
		ctx, cancel := context.WithCancel(context.Background())
		defer cancel()
		method := "GET"
		if rq.p.post {
			method = "POST"
		} else if r.p.focus == "C17" && rq.idx%3 == 1 {
			// the scripted server may answer HEAD with HEADERS first and END_STREAM
			// later (an empty DATA frame): the stream stays open until then
			method = "HEAD"
		}
		rctx := ctx
		if r.p.focus == "C17" {
			// the pool's choice, as the public API reports it
			rctx = httptrace.WithClientTrace(ctx, &httptrace.ClientTrace{GotConn: func(info httptrace.GotConnInfo) { r.noteGotConn(rq, info.Conn) }})
		}
		req, err := http.NewRequestWithContext(rctx, method, "https://vf.test/r"+strconv.Itoa(rq.idx), nil)
		if err != nil {
			panic(err)
		}
		req.Header.Set("X-Vf-Idx", strconv.Itoa(rq.idx))
		if rq.p.post {
			req.Body = r.newBody(rq)
			if rq.p.declCL && rq.p.bodyLen > 0 {
				req.ContentLength = int64(rq.p.bodyLen)
			}
			if rq.p.getBody {
				req.GetBody = func() (io.ReadCloser, error) { return r.newBody(rq), nil }
			}
		}
		r.mu.Lock()
		rq.started, rq.cancel, rq.startStep = true, cancel, r.step
		r.mu.Unlock()
		resp, err := r.t.RoundTrip(req)
		r.mu.Lock()
		rq.returned, rq.err = true, err
		var st *hcStream
		if err == nil {
			rq.status = resp.StatusCode
			if parts := strings.Split(resp.Header.Get("X-Vf-Str"), ":"); len(parts) == 2 {
				ci, _ := strconv.Atoi(parts[0])
				sid, _ := strconv.Atoi(parts[1])
				if ci >= 0 && ci < len(r.conns) {
					st = r.conns[ci].streams[uint32(sid)]
				}
			}
			rq.respStr = st
		}
		r.mu.Unlock()
		if err != nil {
			return
		}
		if st == nil || st.req != rq.idx {
			r.setViol(vs.Violf("C14", "response_mismatch", "cli:response_for_other_request", "request %d got a response the server sent for another stream (%q)", rq.idx, resp.Header.Get("X-Vf-Str")))
			resp.Body.Close()
			return
		}
		bp := hcReadBufs.Get().(*[]byte)
		defer hcReadBufs.Put(bp)
		buf := *bp
		readOnce := func(n int) error {
			m, err := resp.Body.Read(buf[:min(n, len(buf))])
			var v *vs.Violation
			r.mu.Lock()
			for i := 0; i < m; i++ {
				if buf[i] != hcRespByte(rq.idx, rq.read+int64(i)) {
					prop := "C14"
					if r.p.focus == "C11" {
						prop = "C11"
					}
					v = vs.Violf(prop, "response_body_bytes", "cli:resp_body", "request %d: response body byte at offset %d differs from what the server sent", rq.idx, rq.read+int64(i))
					break
				}
			}
			rq.read += int64(m)
			if st.overSent && rq.read > st.acceptedMax {
				v = vs.Violf("C11", "excess_delivered", "cli:excess_to_body", "request %d: the response body returned %d bytes but only %d were within the advertised window", rq.idx, rq.read, st.acceptedMax)
			}
			if rq.read > st.srvData {
				v = vs.Violf("C14", "response_body_phantom", "cli:resp_phantom", "request %d: the response body returned %d bytes, the server sent %d", rq.idx, rq.read, st.srvData)
			}
			if err != nil {
				rq.readErr = err
				rq.sawEOF = err == io.EOF
			}
			r.mu.Unlock()
			r.setViol(v)
			return err
		}
		for _, op := range rq.p.cops {
			tk.Step(op.kind)
			switch op.kind {
			case "read":
				readOnce(op.n)
			case "readall":
				for readOnce(len(buf)) == nil {
				}
			}
		}
		tk.Step("close")
		r.mu.Lock()
		rq.closing = true
		r.mu.Unlock()
		resp.Body.Close()
		r.mu.Lock()
		rq.closed = true
		r.mu.Unlock()
	}
}

// ---------------------------------------------------------------------------
// the run

func hcRunOnce(t *testing.T, rt *rapid.T, focus string) {
	p := hcDrawPlan(rt, focus)
	tape := vs.DrawTape(rt, 3000)
	tr := vs.NewTrace()
	var viol *vs.Violation
	var simDur time.Duration
	var harness string
	nontrivial := false
	// The transport takes its request-body scratch buffers from sync.Pools and
	// uses whatever length it gets, so the size of the body reads (and with it the
	// DATA framing) depends on the pool contents, which a GC cycle clears: start
	// every run with empty pools and keep the collector from starting a cycle
	// inside the run (it runs between runs).
	bufPools = [len(bufPools)]sync.Pool{}
	oldGC := debug.SetGCPercent(-1)
	defer debug.SetGCPercent(oldGC)
	deadlock := vs.Bubble(t, func() {
		sim := vs.NewSim(tape, tr)
		sim.MaxSteps = vs.Thorough(6000, 16000)
		sim.Horizon = 8 * time.Minute
		r := &hcRun{p: p, sim: sim, tr: tr}
		r.t = &Transport{DialTLSContext: r.dial, StrictMaxConcurrentStreams: p.strict, DisableCompression: true, MaxReadFrameSize: p.maxRead}
		if p.connWin != 0 || p.strWin != 0 {
			r.t.t1 = &http.Transport{HTTP2: &http.HTTP2Config{MaxReceiveBufferPerConnection: p.connWin, MaxReceiveBufferPerStream: p.strWin}}
		}
		r.t.transportTestHooks = &transportTestHooks{newclientconn: r.onNewClientConn}
		for i, q := range p.reqs {
			r.reqs = append(r.reqs, &hcReq{idx: i, p: q})
		}
		tr.Ev("plan focus=%s strict=%v connWin=%d strWin=%d maxRead=%d iw=%d mf=%d mcs=%d wu=%d reqs=%d ops=%d", focus, p.strict, p.connWin, p.strWin, p.maxRead, p.initIW, p.initMF, p.initMCS, p.initWU, len(p.reqs), len(p.ops))
		for i, q := range p.reqs {
			tr.Ev("  req %d post=%v len=%d chunks=%v cl=%v getbody=%v eofdata=%v stubborn=%v cops=%v", i, q.post, q.bodyLen, q.chunks, q.declCL, q.getBody, q.eofData, q.stubborn, q.cops)
		}
		for _, rq := range r.reqs {
			sim.Go(fmt.Sprintf("c%d", rq.idx), focus, r.caller(rq))
		}
		sim.AddSource(r)
		sim.Check = r.check
		sim.Done = func() bool {
			r.mu.Lock()
			defer r.mu.Unlock()
			return r.healed && (r.p.focus != "C17" || r.nudged || r.lostWake == nil) && sim.AllTasksDone()
		}
		sim.Run()
		viol = sim.Viol
		if viol == nil {
			viol = r.final(sim)
		}
		r.mu.Lock()
		if viol == nil {
			viol = r.viol
		}
		harness = r.harness
		started := 0
		for _, rq := range r.reqs {
			if rq.started {
				started++
			}
		}
		nframes := 0
		for _, cn := range r.conns {
			nframes += len(cn.frames)
		}
		nontrivial = started > 0 && r.opsRun > 0 && nframes > 3
		// teardown
		r.tearing = true
		for _, rq := range r.reqs {
			if rq.cancel != nil {
				rq.cancel()
			}
			for _, b := range rq.bodies {
				b.kill()
			}
		}
		conns := append([]*hcConn(nil), r.conns...)
		r.mu.Unlock()
		for _, cn := range conns {
			cn.sc.B.Close()
			cn.sc.Cut(io.ErrClosedPipe)
		}
		simDur = sim.Elapsed()
		if !sim.Drain() && harness == "" {
			harness = fmt.Sprintf("tasks did not exit at teardown: %v", sim.PendingTasks())
		}
		// bodies created by a late GetBody
		r.mu.Lock()
		for _, rq := range r.reqs {
			for _, b := range rq.bodies {
				b.kill()
			}
		}
		r.mu.Unlock()
		r.t.CloseIdleConnections()
		time.Sleep(10 * time.Second) // let close/mark-dead timers of the transport run out
		for _, cn := range conns {
			cn.sc.StopTimers()
			hcPutBufs(cn.base, cn.sbase)
		}
		if sim.StepsOut {
			vs.G.Inc("run.steps_exhausted")
		}
		if sim.Stuck {
			vs.G.Inc("run.stuck_at_horizon")
		}
	})
	if deadlock != "" && viol == nil && harness == "" {
		harness = "bubble did not wind down: " + deadlock
	}
	if hcDebugHash {
		fmt.Printf("HCHASH %x n=%d\n", tr.Hash(), tr.N)
		if hcDebugTrace {
			for i, l := range tr.Log {
				fmt.Printf("HCTRACE %x %d %s\n", tr.Hash(), i, l)
			}
		}
	}
	vs.G.EndRun(tr, nontrivial, simDur, func() any {
		return map[string]any{"focus": focus, "trace_head": tr.Log[:min(len(tr.Log), 60)]}
	})
	if harness != "" && viol == nil {
		vs.LogTrace(rt, tr)
		vs.Harnessf(rt, "%s", harness)
	}
	if viol != nil && viol.Prop != focus {
		vs.G.Inc("foreign_violation." + viol.Prop + "." + viol.Oracle)
		if os.Getenv("VERIF_SHOW_FOREIGN") == viol.Oracle {
			viol.Prop = focus // by hand: look at what an oracle of another focus sees here
		} else {
			viol = nil
		}
	}
	vs.Report(rt, viol, tr)
}

// final runs the end-of-run oracles (the run reached Done, or got stuck).
func (r *hcRun) final(sim *vs.Sim) *vs.Violation {
	r.mu.Lock()
	defer r.mu.Unlock()
	if r.viol != nil {
		return r.viol
	}
	if sim.StepsOut {
		return nil // inconclusive: step budget exhausted before the end state
	}
	f := r.p.focus
	if sim.Stuck {
		// bounded liveness: after the heal everything must complete
		var hung, bodyBlocked []string
		for _, rq := range r.reqs {
			if !rq.started || rq.done {
				continue
			}
			where := "RoundTrip"
			if rq.returned {
				where = "response body"
			}
			hung = append(hung, fmt.Sprintf("req %d in %s (cancelled=%v attempts=%d)", rq.idx, where, rq.cancelled, len(rq.attempts)))
			if len(rq.attempts) > 0 {
				st := rq.attempts[len(rq.attempts)-1]
				if !st.cliEnd && !st.cliRst && hcAlive(st) && st.cn.writable() && !st.cn.cliClosed && len(st.cn.goaways) == 0 && !(st.srvHdr && st.status > 299) {
					bodyBlocked = append(bodyBlocked, fmt.Sprintf("req %d conn %d stream %d: %d of %d body bytes sent", rq.idx, st.cn.idx, st.id, st.cliData, rq.p.bodyLen))
				}
			}
		}
		if len(hung) == 0 {
			r.harness = fmt.Sprintf("run stuck at the horizon with no caller pending: %v", sim.PendingTasks())
			return nil
		}
		switch {
		case len(bodyBlocked) > 0:
			return vs.Violf("C09", "liveness_body_blocked", "cli:body_blocked_after_heal", "after the server granted ample windows, request bodies are still not sent after %v of simulated time: %v", sim.Horizon, bodyBlocked)
		case f == "C17":
			// The C17 statement has no liveness clause: counted, not judged.
			vs.G.Inc("observation.request_blocked_after_heal")
			return nil
		case f == "C18":
			return vs.Violf("C18", "roundtrip_hang", "cli:roundtrip_hang", "callers still blocked at the end of the liveness budget (%v simulated): %v", sim.Horizon, hung)
		}
		return vs.Violf("C14", "liveness_caller_blocked", "cli:caller_blocked_after_heal", "callers still blocked after the heal: %v", hung)
	}
	switch f {
	case "C10":
		return r.finalC10()
	case "C11":
		return r.finalC11()
	case "C17":
		// Observation only, not a violation: the C17 statement says that extra
		// requests wait instead of opening streams; it does not say when they
		// proceed. (Requests parked in awaitOpenSlotForStreamLocked are not woken
		// by a SETTINGS frame that raises MAX_CONCURRENT_STREAMS; the next
		// unrelated event wakes them - the harness "nudges" the connection.)
		if r.lostWake != nil {
			vs.G.Inc("observation.waiter_not_woken_by_limit_raise")
		}
	case "C18":
		return r.finalC18()
	}
	return nil
}

// C10: conservation of connection-level receive credit.
func (r *hcRun) finalC10() *vs.Violation {
	for _, cn := range r.conns {
		if cn.cc == nil || cn.anyOver || cn.flowErr || cn.sc.InflightAB() != 0 || cn.sc.InflightBA() != 0 {
			continue
		}
		cc := cn.cc
		cc.mu.Lock()
		unsent, avail, closed, nstreams := int64(cc.inflow.unsent), int64(cc.inflow.avail), cc.closed, len(cc.streams)
		cc.mu.Unlock()
		if nstreams != 0 {
			continue // a stream the client still considers open (its caller was cancelled mid-way): not the end state
		}
		configured := r.configuredConnWindow()
		if closed || cn.cliClosed || cn.srvClosed {
			// the connection is gone (GOAWAY): WINDOW_UPDATEs can no longer be
			// written, so only the client's own ledger can be examined
			if avail+unsent != configured {
				if avail+unsent < configured && r.overCLRead() {
					return vs.Violf("C10", "conn_credit_conservation", "cli:leak_after_over_content_length_read", "conn %d (closed): after all bodies were read or closed the client's connection receive ledger is %d + %d unsent = %d, configured %d", cn.idx, avail, unsent, avail+unsent, configured)
				}
				if avail+unsent < configured && r.failedWithLingeringBody() {
					return vs.Violf("C10", "conn_credit_conservation", "cli:leak_response_data_of_failed_request_with_blocked_body_read", "conn %d (closed): after all bodies were read or closed the client's connection receive ledger is %d + %d unsent = %d, configured %d", cn.idx, avail, unsent, avail+unsent, configured)
				}
				return vs.Violf("C10", "conn_credit_ledger", "cli:ledger_leak_closed_conn", "conn %d (closed): after all bodies were read or closed the client's connection receive ledger is %d + %d unsent = %d, configured %d", cn.idx, avail, unsent, avail+unsent, configured)
			}
			continue
		}
		vs.G.Inc("probe.conservation_evaluated")
		peerView := 65535 + cn.cliConnWU - cn.srvConnFlow
		if peerView+unsent != configured {
			kind := "leak"
			if peerView+unsent > configured {
				kind = "over_refund"
			} else if r.overCLRead() {
				kind = "leak_after_over_content_length_read"
			} else if r.failedWithLingeringBody() {
				kind = "leak_response_data_of_failed_request_with_blocked_body_read"
			}
			return vs.Violf("C10", "conn_credit_conservation", "cli:"+kind, "conn %d: after all bodies were read or closed: configured connection window %d, server's view %d + batched unsent %d = %d (server sent %d flow-controlled bytes; client's own ledger avail=%d)", cn.idx, configured, peerView, unsent, peerView+unsent, cn.srvConnFlow, avail)
		}
	}
	return nil
}

// overCLRead: some caller's Read hit the "more than declared Content-Length" truncation.
func (r *hcRun) overCLRead() bool {
	for _, rq := range r.reqs {
		if rq.readErr != nil && strings.Contains(rq.readErr.Error(), "more than declared Content-Length") {
			return true
		}
	}
	return false
}

// failedWithLingeringBody: a request whose RoundTrip failed (so no Response was
// ever handed out) while its Request.Body does not let Close interrupt a Read,
// and for which the server sent response DATA.
func (r *hcRun) failedWithLingeringBody() bool {
	for _, rq := range r.reqs {
		if rq.p.stubborn && rq.err != nil {
			for _, a := range rq.attempts {
				if a.srvFlow > 0 {
					return true
				}
			}
		}
	}
	return false
}

// C11: DATA within the advertised windows is delivered in full without error.
func (r *hcRun) finalC11() *vs.Violation {
	for _, rq := range r.reqs {
		st := rq.respStr
		if st == nil || rq.cancelled || !rq.closed || st.cn.anyOver || st.cn.flowErr || len(st.cn.goaways) > 0 {
			continue
		}
		if !st.srvEnd || st.srvRst || st.cliRst && st.cliRstCode != ErrCodeNo {
			continue
		}
		all := false
		for _, op := range rq.p.cops {
			all = all || op.kind == "readall"
		}
		if !all {
			continue
		}
		vs.G.Inc("probe.within_window_response_checked")
		if rq.read != st.srvData || !rq.sawEOF {
			return vs.Violf("C11", "within_window_not_delivered", "cli:within_window_lost", "request %d (conn %d stream %d): the server stayed within the advertised windows and sent %d body bytes + END_STREAM, the caller read %d bytes and ended with %v", rq.idx, st.cn.idx, st.id, st.srvData, rq.read, rq.readErr)
		}
	}
	return nil
}

// C18: classification of every request over the history.
func (r *hcRun) finalC18() *vs.Violation {
	for _, rq := range r.reqs {
		if !rq.started || rq.cancelled {
			continue
		}
		if !rq.returned {
			return vs.Violf("C18", "roundtrip_hang", "cli:roundtrip_never_returned", "request %d: RoundTrip never returned (attempts %d)", rq.idx, len(rq.attempts))
		}
		if len(rq.attempts) == 0 {
			continue
		}
		last := rq.attempts[len(rq.attempts)-1]
		cn := last.cn
		replayable := !rq.p.post || rq.p.getBody
		if rq.err != nil && len(cn.goaways) > 0 {
			g := cn.goaways[len(cn.goaways)-1]
			first := cn.goaways[0]
			quiet := !last.srvHdr && !last.srvRst && !last.hadRespAtGA
			exception := last.id == 1 && (first.code != ErrCodeNo || g.code != ErrCodeNo)
			if last.id > g.last && g.seenStep > 0 && quiet && !last.cliRstBeforeGoAway(g) && replayable && !exception && len(rq.attempts) < 6 {
				return vs.Violf("C18", "refused_not_retried", "cli:refused_replayable_not_retried", "request %d (replayable) was on conn %d stream %d > last-stream-id %d of the GOAWAY(code=%v); it must be retried on another connection but RoundTrip returned: %v", rq.idx, cn.idx, last.id, g.last, g.code, rq.err)
			}
			if last.id <= g.last && quiet && !last.cliRst && cn.srvClosed && cn.eofDelivered() {
				if _, ok := rq.err.(GoAwayError); !ok {
					return vs.Violf("C18", "covered_request_error", "cli:covered_request_wrong_error", "request %d on conn %d stream %d <= last-stream-id %d got no response before the server closed; RoundTrip must fail with the connection's GOAWAY error but returned: %v", rq.idx, cn.idx, last.id, g.last, rq.err)
				}
				vs.G.Inc("probe.covered_request_failed_with_goaway_error")
			}
		}
		if rq.err == nil && len(rq.attempts) > 1 {
			vs.G.Inc("probe.request_retried_and_answered")
		}
	}
	return nil
}

// cliRstBeforeGoAway: the client had reset the stream on its own before the
// GOAWAY could have reached it (e.g. a body read error).
func (st *hcStream) cliRstBeforeGoAway(g *hcGoAway) bool {
	return false
}

func (cn *hcConn) eofDelivered() bool {
	return cn.sc.InflightBA() == 0
}

func hcTest(t *testing.T, focus string) {
	log.SetOutput(io.Discard)
	vs.Check(t, func(rt *rapid.T) {
		for _, p := range []string{"probe.stream_window_exhausted", "probe.conn_window_exhausted", "probe.initial_window_shrunk", "probe.several_bodies_blocked_on_flow_control", "probe.stream_wu_delivered_while_several_bodies_blocked", "probe.stream_wu_for_non_first_blocked_body"} {
			if focus == "C09" {
				vs.G.Add(p, 0)
			}
		}
		switch focus {
		case "C10":
			for _, p := range []string{"probe.conservation_evaluated", "probe.padded_data", "probe.data_beyond_content_length", "probe.data_on_stream_reset_by_client", "probe.data_after_goaway", "probe.data_after_body_closed_stream_still_open"} {
				vs.G.Add(p, 0)
			}
		case "C11":
			for _, p := range []string{"probe.over_window_data_sent", "probe.over_conn_window_data_sent", "probe.exact_boundary_data_sent", "probe.within_window_response_checked"} {
				vs.G.Add(p, 0)
			}
		case "C17":
			for _, p := range []string{"probe.opened_at_limit", "probe.requests_waiting_for_slot", "probe.limit_lowered_below_open_count"} {
				vs.G.Add(p, 0)
			}
		case "C18":
			for _, p := range []string{"probe.goaway_delivered", "probe.goaway_with_inflight_above_last", "probe.request_resent", "probe.request_retried_and_answered", "probe.covered_request_failed_with_goaway_error", "probe.request_resent_after_backoff"} {
				vs.G.Add(p, 0)
			}
		}
		hcRunOnce(t, rt, focus)
	})
}

func TestVerif_C09(t *testing.T)     { hcTest(t, "C09") }
func TestVerif_C10_cli(t *testing.T) { hcTest(t, "C10") }
func TestVerif_C11_cli(t *testing.T) { hcTest(t, "C11") }
func TestVerif_C17(t *testing.T)     { hcTest(t, "C17") }
func TestVerif_C18(t *testing.T)     { hcTest(t, "C18") }
