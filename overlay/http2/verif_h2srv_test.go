// Engine h2srv: the real http2.Server (serveConn, serve loop, write schedulers,
// flow control, pipe, hpack, Framer) on a simulated connection, driven by a
// scripted client (honest, window-probing or byzantine) and by scheduler-driven
// handler scripts. Properties C08, C10 (server half), C11 (server half), C15, C16.

//go:build !(go1.27 && !http2legacy)

package http2

import (
	"bytes"
	"fmt"
	"io"
	"log"
	"net/http"
	"runtime"
	"sort"
	"strconv"
	"strings"
	"sync"
	"testing"
	"testing/synctest"
	"time"

	"golang.org/x/net/http2/hpack"
	vs "golang.org/x/net/internal/verifsim"
	"pgregory.net/rapid"
)

// ---------------------------------------------------------------------------
// plan

type hsHOp struct {
	kind string // read, readall, closebody, header, write, flush, sleep, panic, return
	n    int
	dur  time.Duration
}

type hsOp struct {
	kind     string // open, data, wu, settings, rst, ping, sleep, overdata
	s        int    // stream index, -1 = connection
	n        int
	pad      int
	end      bool
	code     ErrCode
	post     bool   // open: request has a body
	decl     int    // open: declared content-length (-1 none)
	bad      string // open: malformed kind ("" = well-formed)
	extraHdr int    // open: bytes of extra header value
	iw       int    // settings: INITIAL_WINDOW_SIZE (-1 = absent)
	mf       int    // settings: MAX_FRAME_SIZE (-1 = absent)
	over     int    // overdata: bytes beyond the window (0 = exactly at the boundary)
	connLvl  bool   // overdata: aim at the connection window
	dur      time.Duration
}

type hsPlan struct {
	graceful     bool
	healWUOnly   bool
	focus        string
	sched        string
	maxStreams   uint32
	upConn       int32
	upStream     int32
	maxReadFrame uint32
	bound        int
	initIW       int
	initMF       int
	ops          []hsOp
	handlers     [][]hsHOp
	nstreams     int
	byz          []hsByzOp
	cut          bool
	ceMask       uint32 // C10: which calls of Server.CountError park the serve goroutine (bit i%32 of call i); 0 = never
}

type hsByzOp struct {
	kind string
	n    int
	a, b int
}

var hsBadKinds = []string{"connection", "te", "transfer-encoding", "keep-alive", "proxy-connection", "upgrade",
	"uppercase", "no-method", "no-path", "pseudo-after-regular", "dup-path", "unknown-pseudo", "empty-path", "bad-value",
	"bad-value-crlf", "bad-method-value", "bad-authority-value", "bad-path-value", "bad-scheme-value"}

func hsDrawHandler(c vs.Chooser, focus string, post bool) []hsHOp {
	var ops []hsHOp
	n := vs.Range(c, 0, 8)
	for i := 0; i < n; i++ {
		switch k := c.Intn(12); {
		case k <= 3:
			sz := vs.SizeBiased(c, vs.Thorough(70000, 300000), 4096, 16384, 65535)
			if focus == "C10" || focus == "C11" {
				sz = vs.SizeBiased(c, 2000, 100)
			}
			ops = append(ops, hsHOp{kind: "write", n: sz})
		case k == 4:
			ops = append(ops, hsHOp{kind: "flush"})
		case k == 5 || k == 6:
			ops = append(ops, hsHOp{kind: "read", n: vs.SizeBiased(c, 70000, 1, 4096, 65535) + 1})
		case k == 7:
			ops = append(ops, hsHOp{kind: "readall"})
		case k == 8:
			ops = append(ops, hsHOp{kind: "closebody"})
		case k == 9:
			ops = append(ops, hsHOp{kind: "header", n: vs.Pick(c, 200, 204, 404, 500)})
		case k == 10:
			if focus == "C15" || focus == "C16" {
				if vs.Pct(c, 30) {
					ops = append(ops, hsHOp{kind: "panic"})
				} else {
					ops = append(ops, hsHOp{kind: "return"})
				}
			} else {
				ops = append(ops, hsHOp{kind: "flush"})
			}
		default:
			ops = append(ops, hsHOp{kind: "sleep", dur: time.Duration(vs.Pick(c, 1, 10, 100, 1000)) * time.Millisecond})
		}
	}
	return ops
}

func hsDrawPlan(rt *rapid.T, focus string) *hsPlan {
	c := vs.RapidChooser{T: rt}
	p := &hsPlan{focus: focus}
	p.sched = vs.Pick(c, "default", "roundrobin", "rfc7540", "rfc9218")
	p.maxStreams = uint32(vs.Pick(c, 0, 1, 2, 3, 100))
	p.upConn = int32(vs.Pick(c, 0, 65535, 70000, 1<<20))
	p.upStream = int32(vs.Pick(c, 0, 1, 100, 5000, 65535, 1<<20))
	p.maxReadFrame = uint32(vs.Pick(c, 0, 16384, 20000, 1<<20))
	p.initIW = vs.Pick(c, -1, 0, 1, 100, 5000, 65535, 1<<20)
	p.initMF = vs.Pick(c, -1, 16384, 16385, 100000, 1<<24-1)
	if (focus == "C08" && vs.Pct(c, 30)) || (focus == "C10" && vs.Pct(c, 20)) {
		// server->client back-pressure: the server's frame writes (responses,
		// WINDOW_UPDATEs, RST_STREAMs) wait behind a bounded, slowly drained buffer
		p.bound = vs.Pick(c, 1, 9, 100, 5000, 70000)
	}
	maxS := 6
	if focus == "C10" {
		maxS = vs.Thorough(24, 60)
	}
	nstreams := vs.Range(c, 1, maxS)
	nops := vs.Range(c, 1, vs.Thorough(40, 120))
	if focus == "C10" {
		nops = vs.Range(c, nstreams, nstreams*6)
	}
	opened := 0
	type sst struct{ post, ended, rst bool }
	var ss []sst
	if (focus == "C15" || focus == "C16") && vs.Pct(c, 35) {
		// "early reset" shape: fill the handler slots, reset those streams while
		// their handlers are still running, and open as many again, so that
		// handlers queue up behind handlers of streams that no longer exist.
		m := vs.Pick(c, 2, 1, 3)
		p.maxStreams = uint32(m)
		nstreams = max(nstreams, 2*m+vs.Range(c, 0, 2))
		for round := 0; round < 2; round++ {
			for k := 0; k < m; k++ {
				op := hsOp{kind: "open", s: opened, decl: -1}
				p.ops = append(p.ops, op)
				h := hsDrawHandler(c, focus, false)
				if len(h) == 0 {
					h = []hsHOp{{kind: "flush"}}
				}
				p.handlers = append(p.handlers, h)
				ss = append(ss, sst{ended: true})
				opened++
			}
			if round == 0 {
				for k := 0; k < m; k++ {
					p.ops = append(p.ops, hsOp{kind: "rst", s: k, code: ErrCodeCancel})
				}
			}
		}
		vs.G.Inc("plan.early_reset_shape")
	}
	for i := 0; i < nops; i++ {
		k := c.Intn(20)
		switch {
		case (k <= 3 || opened == 0) && opened < nstreams:
			op := hsOp{kind: "open", s: opened, decl: -1}
			op.post = vs.Pct(c, map[string]int{"C08": 30, "C10": 90, "C11": 100, "C15": 50, "C16": 50}[focus])
			if op.post && vs.Pct(c, 30) {
				op.decl = vs.SizeBiased(c, 3000, 0, 100)
			}
			if (focus == "C15" || focus == "C16") && vs.Pct(c, 25) {
				op.bad = hsBadKinds[c.Intn(len(hsBadKinds))]
			}
			if vs.Pct(c, 15) {
				op.extraHdr = vs.SizeBiased(c, 40000, 16384)
			}
			p.ops = append(p.ops, op)
			p.handlers = append(p.handlers, hsDrawHandler(c, focus, op.post))
			ss = append(ss, sst{post: op.post, ended: !op.post})
			opened++
		case k <= 7 && opened > 0:
			s := c.Intn(opened)
			if focus == "C11" && vs.Pct(c, 40) {
				p.ops = append(p.ops, hsOp{kind: "overdata", s: s, over: vs.Pick(c, 0, 1, 2, 1000), connLvl: vs.Pct(c, 30), pad: vs.Pick(c, 0, 0, 1, 255)})
				break
			}
			op := hsOp{kind: "data", s: s, n: vs.SizeBiased(c, vs.Thorough(20000, 70000), 100, 16384), end: vs.Pct(c, 25)}
			if vs.Pct(c, 30) {
				op.pad = vs.Pick(c, 0, 1, 17, 255)
			}
			p.ops = append(p.ops, op)
		case k <= 10 && opened > 0:
			op := hsOp{kind: "wu", s: c.Intn(opened+1) - 1}
			op.n = vs.Pick(c, 1, 2, 100, 4096, 16384, 65535, 100000, 1<<20)
			p.ops = append(p.ops, op)
		case k == 11:
			op := hsOp{kind: "settings", iw: -1, mf: -1}
			if vs.Bool(c) {
				op.iw = vs.Pick(c, 0, 1, 100, 5000, 65535, 1<<20)
			}
			if vs.Pct(c, 30) {
				op.mf = vs.Pick(c, 16384, 16385, 100000, 1<<24-1)
			}
			p.ops = append(p.ops, op)
		case k == 12 && opened > 0 && (focus != "C08" || vs.Pct(c, 50)):
			p.ops = append(p.ops, hsOp{kind: "rst", s: c.Intn(opened), code: ErrCode(vs.Pick(c, 8, 0, 2, 5))})
		case k == 13:
			p.ops = append(p.ops, hsOp{kind: "ping", n: c.Intn(1 << 16)})
		case k == 15 && (focus == "C08" || focus == "C15") && (opened > 0 || focus == "C15") && !p.graceful && vs.Pct(c, 40):
			// graceful shutdown in mid-run: GOAWAY(NO_ERROR) from the client, or the
			// server's own Shutdown; streams already open must still be served
			p.graceful = true
			p.ops = append(p.ops, hsOp{kind: "graceful", connLvl: vs.Bool(c)})
		case k == 14 && focus == "C16":
			p.ops = append(p.ops, hsOp{kind: "sleep", dur: time.Duration(vs.Pick(c, 1, 100, 1000, 3000)) * time.Millisecond})
		}
	}
	p.nstreams = opened
	p.healWUOnly = focus == "C08" && vs.Bool(c)
	if focus == "C10" && vs.Pct(c, 40) {
		// the serve goroutine is held inside Server.CountError (a callback of the
		// public API, invoked in the middle of frame processing) until the
		// scheduler releases it: handlers and the client run on meanwhile
		p.ceMask = uint32(vs.Pick(c, 0xffffffff, 0x55555555, 0x11111111, 1+c.Intn(1<<16)))
	}
	if focus == "C16" {
		nb := vs.Range(c, 1, 6)
		for i := 0; i < nb; i++ {
			p.byz = append(p.byz, hsByzOp{kind: vs.Pick(c, "flip", "truncate", "insert", "delete", "dup", "garbage", "lenedit", "typeedit", "flood-ping", "flood-settings", "flood-rst", "flood-wu0", "flood-cont", "flood-emptydata", "nopreface", "rawframes", "rawframes", "unsolicited-ack"),
				n: vs.Range(c, 1, 300), a: c.Intn(1 << 16), b: c.Intn(1 << 16)})
		}
		p.cut = vs.Pct(c, 20)
	}
	return p
}

// ---------------------------------------------------------------------------
// run state

type hsStream struct {
	idx int
	id  uint32
	op  hsOp
	// client side
	opened     bool
	hdrEndOff  int64 // A>B offset of the end of the request HEADERS block
	reqEnd     bool
	rstSent    bool
	rstEndOff  int64
	rstSettled bool // RST delivered and the server quiesced with no write in progress
	sentBody   int64
	sentFlow   int64
	wu         []hsWU
	// server output
	respHdr     bool
	respStatus  int
	srvEnd      bool
	srvRst      bool
	srvRstCode  ErrCode
	srvDataFlow int64
	srvData     int64
	srvWU       int64
	// handler side
	hStarted bool
	hDone    bool
	hRead    int64
	hWrote   int64
	hCurOp   string
	hPanic   bool
	// C11
	overSent    bool
	overEndOff  int64
	acceptedMax int64 // request body bytes legitimately accepted by the server
}

type hsWU struct {
	inc    uint32
	endOff int64
}

type hsSettings struct {
	endOff int64
	iw     int64 // value after this frame
	mf     int64
}

type hsRun struct {
	p    *hsPlan
	sim  *vs.Sim
	conn *vs.StreamConn
	tr   *vs.Trace
	fr   *Framer // client-side writer onto conn.A
	henc *hpack.Encoder
	hbuf bytes.Buffer
	mon  *vmParser
	step int

	mu       sync.Mutex
	streams  []*hsStream
	byID     map[uint32]*hsStream
	nextOp   int
	healed   bool
	nextID   uint32
	running  int
	maxRun   int
	viol     *vs.Violation
	serveEnd bool
	sc       *serverConn
	srvPanic any
	ceGate   chan struct{} // non-nil while the serve goroutine is parked inside Server.CountError
	ceTyp    string
	ceCalls  int
	ceOff    bool // teardown: no more parking

	// server settings as delivered to the client
	srvFrames    []*vmFrame
	nDelivered   int // server frames delivered to the client so far
	srvSettings  bool
	srvIW        int64
	srvMaxFrame  int64
	srvMaxStr    int64
	advMaxStr    int64 // from the server's SETTINGS as written (for the handler bound)
	gotSrvSet    bool
	ackedSrvSet  bool
	goAway       bool
	goAwayCode   ErrCode
	gracefulLast uint32 // last-stream-id of the server's graceful GOAWAY
	gracefulSent bool   // graceful shutdown started by the harness (client GOAWAY(NO_ERROR) or server Shutdown)
	srvGraceful  bool   // the server's GOAWAY(NO_ERROR) was seen
	srvClosed    bool

	// client -> server ledgers
	cSettings []hsSettings
	connWU    []hsWU
	cSentFlow int64 // flow-controlled bytes sent by the client (connection)
	pings     [][8]byte
	pingEnd   []int64
	pingAcks  [][8]byte
	srvAcks   int
	// server -> client
	sConnFlow int64 // flow-controlled bytes sent by the server
	sConnWU   int64 // sum of WINDOW_UPDATE(0) sent by the server
	// client receive-window bookkeeping (what the client has granted)
	cConnCredit int64

	honest bool
}

func hsReqByte(idx int, off int64) byte  { return byte(int64(idx)*17 + off*5 + 1) }
func hsRespByte(idx int, off int64) byte { return byte(int64(idx)*131 + off*7 + 3) }

func (r *hsRun) setViol(v *vs.Violation) {
	if v == nil {
		return
	}
	r.mu.Lock()
	if r.viol == nil {
		r.viol = v
	}
	r.mu.Unlock()
}

// ---------------------------------------------------------------------------
// handler

func (r *hsRun) handler(w http.ResponseWriter, req *http.Request) {
	idx, err := strconv.Atoi(req.Header.Get("X-Vf-Idx"))
	r.mu.Lock()
	if err != nil || idx < 0 || idx >= len(r.streams) {
		r.mu.Unlock()
		r.setViol(vs.Violf("C15", "unknown_request_in_handler", "handler:unknown", "handler invoked for a request the client never sent: %s %s %v", req.Method, req.URL, req.Header))
		return
	}
	st := r.streams[idx]
	st.hStarted = true
	r.running++
	if r.running > r.maxRun {
		r.maxRun = r.running
	}
	over := r.advMaxStr > 0 && int64(r.running) > r.advMaxStr
	running := r.running
	bad := st.op.bad
	r.mu.Unlock()
	if over {
		r.setViol(vs.Violf("C15", "handler_concurrency", "handlers>max", "%d handlers running at once, advertised SETTINGS_MAX_CONCURRENT_STREAMS=%d", running, r.advMaxStr))
	}
	if bad != "" {
		r.setViol(vs.Violf("C15", "malformed_reached_handler", "malformed:"+bad, "request %d with malformed/connection-specific header (%s) reached the handler: %v", idx, bad, req.Header))
	}
	tk := r.sim.Attach(fmt.Sprintf("h%d", idx))
	planned := false
	defer func() {
		rec := recover()
		r.mu.Lock()
		r.running--
		st.hDone = true
		st.hCurOp = ""
		r.mu.Unlock()
		tk.Finish()
		if rec != nil && !vs.IsAbort(rec) {
			if planned {
				panic(rec) // let the server's handler-panic recovery deal with it
			}
			r.setViol(vs.Violf("C16", "panic", "handler_side_panic", "panic in handler %d inside the code under test: %v", idx, rec))
		}
	}()
	buf := make([]byte, 1<<16)
	respOff := int64(0)
	setOp := func(k string) { r.mu.Lock(); st.hCurOp = k; r.mu.Unlock() }
	readOnce := func(n int) (int, error) {
		if n > len(buf) {
			n = len(buf)
		}
		m, err := req.Body.Read(buf[:n])
		r.mu.Lock()
		for i := 0; i < m; i++ {
			if buf[i] != hsReqByte(idx, st.hRead+int64(i)) {
				r.mu.Unlock()
				r.setViol(vs.Violf("C14", "request_body_bytes", "srv:req_body", "handler %d read wrong byte at offset %d", idx, st.hRead+int64(i)))
				return m, err
			}
		}
		st.hRead += int64(m)
		hr, am, os := st.hRead, st.acceptedMax, st.overSent
		r.mu.Unlock()
		if os && hr > am {
			r.setViol(vs.Violf("C11", "excess_delivered", "srv:excess_to_handler", "handler %d read %d body bytes but only %d were within the advertised window", idx, hr, am))
		}
		return m, err
	}
	for _, op := range r.p.handlers[idx] {
		tk.Step(op.kind)
		setOp(op.kind)
		switch op.kind {
		case "read":
			readOnce(op.n)
		case "readall":
			for {
				if _, err := readOnce(len(buf)); err != nil {
					break
				}
			}
		case "closebody":
			req.Body.Close()
		case "header":
			w.Header().Set("X-Vf-Resp", strconv.Itoa(idx))
			w.WriteHeader(op.n)
		case "write":
			b := make([]byte, op.n)
			for i := range b {
				b[i] = hsRespByte(idx, respOff+int64(i))
			}
			n, _ := w.Write(b)
			respOff += int64(n)
			r.mu.Lock()
			st.hWrote = respOff
			r.mu.Unlock()
		case "flush":
			w.(http.Flusher).Flush()
		case "sleep":
			time.Sleep(op.dur)
		case "panic":
			planned = true
			r.mu.Lock()
			st.hPanic = true
			r.mu.Unlock()
			panic("vf: planned handler panic")
		case "return":
			return
		}
		setOp("")
	}
}

// ---------------------------------------------------------------------------
// client

func (r *hsRun) encodeHeaders(st *hsStream) []byte {
	r.hbuf.Reset()
	op := st.op
	type kv struct{ k, v string }
	method := "GET"
	if op.post {
		method = "POST"
	}
	fields := []kv{{":method", method}, {":scheme", "https"}, {":authority", "vf.test"}, {":path", "/s" + strconv.Itoa(st.idx)}}
	regular := []kv{{"x-vf-idx", strconv.Itoa(st.idx)}}
	if op.decl >= 0 {
		regular = append(regular, kv{"content-length", strconv.Itoa(op.decl)})
	}
	if op.post && op.bad == "" && (r.p.focus == "C15" || r.p.focus == "C16") && st.idx%3 == 2 {
		// the server answers the handler's first body read with 100 Continue -
		// unless the stream is gone by then
		regular = append(regular, kv{"expect", "100-continue"})
	}
	if op.extraHdr > 0 && !(strings.HasPrefix(op.bad, "bad-") && strings.HasSuffix(op.bad, "-value") && op.bad != "bad-value") {
		// (An invalid field that is FOLLOWED by a CONTINUATION frame is answered with
		// a connection error by design - the Framer stops tracking the header list
		// size after an invalid field - so the invalid pseudo-header values, which
		// come first in the block, are not combined with a block that needs one.)
		regular = append(regular, kv{"x-vf-pad", strings.Repeat("p", op.extraHdr)})
	}
	switch op.bad {
	case "connection":
		regular = append(regular, kv{"connection", "close"})
	case "te":
		regular = append(regular, kv{"te", "gzip"})
	case "transfer-encoding":
		regular = append(regular, kv{"transfer-encoding", "chunked"})
	case "keep-alive":
		regular = append(regular, kv{"keep-alive", "timeout=5"})
	case "proxy-connection":
		regular = append(regular, kv{"proxy-connection", "keep-alive"})
	case "upgrade":
		regular = append(regular, kv{"upgrade", "websocket"})
	case "uppercase":
		regular = append(regular, kv{"X-Upper", "v"})
	case "no-method":
		fields = fields[1:]
	case "no-path":
		fields = fields[:3]
	case "pseudo-after-regular":
		fields = fields[:3]
		regular = append(regular, kv{":path", "/late"})
	case "dup-path":
		fields = append(fields, kv{":path", "/dup"})
	case "unknown-pseudo":
		fields = append(fields, kv{":foo", "bar"})
	case "empty-path":
		fields[3].v = ""
	case "bad-value":
		regular = append(regular, kv{"x-bad", "a\x00b"})
	case "bad-value-crlf":
		regular = append(regular, kv{"x-bad", "a\r\nx-injected: 1"})
	case "bad-method-value":
		fields[0].v = []string{"GE\nT", "GET\r", "G\x00ET"}[st.idx%3]
	case "bad-authority-value":
		fields[2].v = []string{"vf\x00.test", "vf.test\nx-injected: 1", "vf.test\r"}[st.idx%3]
	case "bad-path-value":
		fields[3].v = []string{"/a\nb", "/a\x00", "/a\r\nx: y"}[st.idx%3]
	case "bad-scheme-value":
		fields[1].v = "htt\nps"
	}
	for _, f := range append(fields, regular...) {
		r.henc.WriteField(hpack.HeaderField{Name: f.k, Value: f.v})
	}
	return append([]byte(nil), r.hbuf.Bytes()...)
}

// cw returns the A>B offset after everything the client wrote so far.
func (r *hsRun) cw() int64 { return r.conn.WrittenAB() }

func (r *hsRun) clientConnWindow() int64 {
	// server's connection receive window as the client may assume it: what the
	// server has advertised in frames delivered to the client minus what the
	// client has sent.
	var wu int64
	for i := 0; i < r.nDelivered; i++ {
		f := r.srvFrames[i]
		if f.Type == FrameWindowUpdate && f.SID == 0 && len(f.Payload) == 4 {
			wu += int64(uint32(f.Payload[0])<<24|uint32(f.Payload[1])<<16|uint32(f.Payload[2])<<8|uint32(f.Payload[3])) & 0x7fffffff
		}
	}
	return 65535 + wu - r.cSentFlow
}

func (r *hsRun) clientStreamWindow(st *hsStream) int64 {
	var wu int64
	for i := 0; i < r.nDelivered; i++ {
		f := r.srvFrames[i]
		if f.Type == FrameWindowUpdate && f.SID == st.id && len(f.Payload) == 4 {
			wu += int64(uint32(f.Payload[0])<<24|uint32(f.Payload[1])<<16|uint32(f.Payload[2])<<8|uint32(f.Payload[3])) & 0x7fffffff
		}
	}
	return r.srvIW + wu - st.sentFlow
}

// exact server-side windows at a quiescent point with nothing in flight
// (everything the server decided has been written): advertised minus received.
func (r *hsRun) exactConnWindow() int64 { return 65535 + r.sConnWU - r.cSentFlow }
func (r *hsRun) exactStreamWindow(st *hsStream) int64 {
	return r.srvIW + st.srvWU - st.sentFlow
}

func (r *hsRun) openStreamsClientView() int {
	n := 0
	for _, st := range r.streams {
		if st.opened && !st.rstSent && !st.srvRst && !(st.reqEnd && st.srvEnd) {
			n++
		}
	}
	return n
}

func (r *hsRun) writeData(st *hsStream, n, pad int, end bool) {
	data := make([]byte, n)
	for i := range data {
		data[i] = hsReqByte(st.idx, st.sentBody+int64(i))
	}
	var err error
	if pad > 0 {
		err = r.fr.WriteDataPadded(st.id, end, data, make([]byte, pad))
	} else {
		err = r.fr.WriteData(st.id, end, data)
	}
	_ = err
	flow := int64(n)
	if pad > 0 {
		flow += int64(pad) + 1
	}
	st.sentBody += int64(n)
	st.sentFlow += flow
	r.cSentFlow += flow
	if end {
		st.reqEnd = true
	}
}

// doOp executes one client script operation (on the scheduler goroutine).
func (r *hsRun) doOp(op hsOp) {
	r.mu.Lock()
	defer r.mu.Unlock()
	switch op.kind {
	case "open":
		st := r.streams[op.s]
		if r.gracefulSent {
			r.tr.Ev("  skip open %d (graceful shutdown)", op.s)
			return
		}
		// a well-formed over-limit open is only attempted in the C15/C16 focus
		if r.p.focus != "C15" && r.p.focus != "C16" && int64(r.openStreamsClientView()) >= r.srvMaxStr {
			r.tr.Ev("  skip open %d (at limit)", op.s)
			vs.G.Inc("skip.open_at_limit")
			return
		}
		st.id = r.nextID
		r.nextID += 2
		r.byID[st.id] = st
		st.opened = true
		block := r.encodeHeaders(st)
		maxf := int(r.srvMaxFrame)
		first := block
		if len(first) > maxf {
			first = block[:maxf]
		}
		rest := block[len(first):]
		endStream := !op.post
		r.fr.WriteHeaders(HeadersFrameParam{StreamID: st.id, BlockFragment: first, EndStream: endStream, EndHeaders: len(rest) == 0})
		for len(rest) > 0 {
			k := min(len(rest), maxf)
			r.fr.WriteContinuation(st.id, k == len(rest), rest[:k])
			rest = rest[k:]
			vs.G.Inc("probe.continuation_sent")
		}
		st.hdrEndOff = r.cw()
		st.reqEnd = endStream
		r.tr.Ev("  HEADERS sid=%d idx=%d post=%v decl=%d bad=%q", st.id, st.idx, op.post, op.decl, op.bad)
	case "data":
		st := r.streams[op.s]
		if !st.opened || st.reqEnd || st.rstSent || st.srvRst || r.goAway || st.op.bad != "" {
			return
		}
		allowed := min(r.clientConnWindow(), r.clientStreamWindow(st), r.srvMaxFrame)
		n, pad := op.n, op.pad
		if pad > 0 {
			if int64(pad)+1 > allowed {
				pad = 0
			} else {
				allowed -= int64(pad) + 1
			}
		}
		if int64(n) > allowed {
			n = int(max(allowed, 0))
		}
		if st.op.decl >= 0 && r.p.focus != "C10" && r.p.focus != "C16" {
			// keep within the declared length unless the focus is the discard paths
			if rem := int64(st.op.decl) - st.sentBody; int64(n) > rem {
				n = int(max(rem, 0))
			}
		}
		if n == 0 && !op.end && pad == 0 {
			vs.G.Inc("skip.data_no_window")
			return
		}
		r.writeData(st, n, pad, op.end)
		st.acceptedMax = st.sentBody
		r.tr.Ev("  DATA sid=%d n=%d pad=%d end=%v", st.id, n, pad, op.end)
	case "overdata":
		st := r.streams[op.s]
		if !st.opened || st.reqEnd || st.rstSent || st.srvRst || st.overSent || r.goAway {
			return
		}
		if r.conn.InflightAB() != 0 || r.conn.InflightBA() != 0 || r.nDelivered != len(r.srvFrames) {
			vs.G.Inc("skip.overdata_inflight")
			return
		}
		ws, wc := r.exactStreamWindow(st), r.exactConnWindow()
		// A WINDOW_UPDATE the server has decided on but not yet written (it queues
		// behind a flow-control-blocked DATA frame of the same stream) is credit
		// "in the pipeline": what is advertised on the wire and what the server
		// enforces then differ, and the property's clause about the advertised
		// window does not decide such an instant. Only probe when both agree.
		if r.sc != nil {
			sst := r.sc.streams[st.id]
			if sst == nil || int64(sst.inflow.avail) != ws || int64(r.sc.inflow.avail) != wc {
				vs.G.Inc("skip.overdata_update_in_pipeline")
				return
			}
		}
		w := ws
		if op.connLvl {
			w = wc
		}
		if w < 0 {
			return
		}
		flow := w + int64(op.over)
		// the other window must not be the one that is exceeded first when we aim
		// at the boundary; when both are exceeded either error is acceptable.
		if flow > int64(r.srvMaxFrame) {
			vs.G.Inc("skip.overdata_frame_too_big")
			return
		}
		pad := op.pad
		if int64(pad)+1 > flow {
			pad = 0
		}
		n := int(flow)
		if pad > 0 {
			n = int(flow) - pad - 1
		}
		if st.op.decl >= 0 && st.sentBody+int64(n) > int64(st.op.decl) {
			return // would be rejected for exceeding content-length; not the case under test
		}
		exceeds := flow > ws || flow > wc
		before := st.sentBody
		r.writeData(st, n, pad, false)
		if exceeds {
			st.overSent = true
			st.overEndOff = r.cw()
			st.acceptedMax = before
			vs.G.Inc("probe.over_window_data_sent")
		} else {
			st.acceptedMax = st.sentBody
			vs.G.Inc("probe.exact_boundary_data_sent")
		}
		r.tr.Ev("  DATA(over=%d conn=%v) sid=%d flow=%d ws=%d wc=%d exceeds=%v", op.over, op.connLvl, st.id, flow, ws, wc, exceeds)
		// atomic: deliver immediately so that no WINDOW_UPDATE can race
		r.mu.Unlock()
		r.conn.DeliverAll()
		r.mu.Lock()
	case "wu":
		var sid uint32
		if op.s >= 0 {
			st := r.streams[op.s]
			// (a stream whose HEADERS were malformed is left alone: the server
			// rejects it at frame-reading level and keeps the id "idle")
			if !st.opened || st.rstSent || st.srvRst || st.srvEnd || st.op.bad != "" {
				return
			}
			sid = st.id
			var tot int64
			for _, w := range st.wu {
				tot += int64(w.inc)
			}
			if r.honest && tot+int64(op.n) > 1<<29 {
				return
			}
			r.fr.WriteWindowUpdate(sid, uint32(op.n))
			st.wu = append(st.wu, hsWU{uint32(op.n), r.cw()})
		} else {
			if r.honest && r.cConnCredit+int64(op.n) > 1<<30 {
				return
			}
			r.fr.WriteWindowUpdate(0, uint32(op.n))
			r.connWU = append(r.connWU, hsWU{uint32(op.n), r.cw()})
			r.cConnCredit += int64(op.n)
		}
		r.tr.Ev("  WINDOW_UPDATE sid=%d inc=%d", sid, op.n)
	case "settings":
		var ss []Setting
		last := r.cSettings[len(r.cSettings)-1]
		ns := hsSettings{iw: last.iw, mf: last.mf}
		if op.iw >= 0 {
			ss = append(ss, Setting{SettingInitialWindowSize, uint32(op.iw)})
			ns.iw = int64(op.iw)
		}
		if op.mf >= 0 {
			ss = append(ss, Setting{SettingMaxFrameSize, uint32(op.mf)})
			ns.mf = int64(op.mf)
		}
		r.fr.WriteSettings(ss...)
		ns.endOff = r.cw()
		r.cSettings = append(r.cSettings, ns)
		r.tr.Ev("  SETTINGS iw=%d mf=%d", op.iw, op.mf)
	case "rst":
		st := r.streams[op.s]
		if !st.opened || st.rstSent || st.op.bad != "" {
			return
		}
		r.fr.WriteRSTStream(st.id, op.code)
		st.rstSent = true
		st.rstEndOff = r.cw()
		r.tr.Ev("  RST_STREAM sid=%d code=%d", st.id, op.code)
	case "ping":
		var d [8]byte
		d[0], d[1], d[7] = byte(op.n), byte(op.n>>8), byte(len(r.pings))
		r.fr.WritePing(false, d)
		r.pings = append(r.pings, d)
		r.pingEnd = append(r.pingEnd, r.cw())
		r.tr.Ev("  PING %x", d)
	case "sleep":
		r.mu.Unlock()
		time.Sleep(op.dur)
		r.mu.Lock()
	case "graceful":
		if r.gracefulSent || r.goAway || r.srvClosed || r.sc == nil {
			return
		}
		// atomic with respect to the client's own frames: no HEADERS frame of ours
		// may cross the server's GOAWAY (it would be ignored, legitimately)
		r.mu.Unlock()
		r.conn.DeliverAll()
		synctest.Wait() // the server has read and dispatched everything delivered
		r.mu.Lock()
		if r.goAway || r.srvClosed {
			return
		}
		r.gracefulSent = true
		open := r.openStreamsClientView()
		if op.connLvl {
			r.sc.startGracefulShutdown()
			r.tr.Ev("  server Shutdown (graceful) with %d streams open", open)
		} else {
			r.fr.WriteGoAway(0, ErrCodeNo, nil)
			r.tr.Ev("  GOAWAY(NO_ERROR) from client with %d streams open", open)
			r.mu.Unlock()
			r.conn.DeliverAll()
			r.mu.Lock()
		}
		vs.G.Inc("probe.graceful_shutdown_started")
		if open > 0 {
			vs.G.Inc("probe.graceful_shutdown_with_open_streams")
		}
	}
}

// heal: the fault/adversity phase is over; the client grants ample windows and
// finishes every request body so that all handlers can complete.
func (r *hsRun) heal() {
	r.mu.Lock()
	defer r.mu.Unlock()
	r.healed = true
	if r.goAway || r.srvClosed {
		return
	}
	last := r.cSettings[len(r.cSettings)-1]
	// (half of the runs heal with WINDOW_UPDATE frames alone: 2^29 per stream and
	// for the connection is ample whatever SETTINGS_INITIAL_WINDOW_SIZE is)
	if (last.iw < 1<<20 || last.mf != 16384) && !r.p.healWUOnly {
		r.fr.WriteSettings(Setting{SettingInitialWindowSize, 1 << 20}, Setting{SettingMaxFrameSize, 16384})
		r.cSettings = append(r.cSettings, hsSettings{endOff: r.cw(), iw: 1 << 20, mf: 16384})
	}
	if r.cConnCredit < 1<<29 {
		r.fr.WriteWindowUpdate(0, 1<<29)
		r.connWU = append(r.connWU, hsWU{1 << 29, r.cw()})
		r.cConnCredit += 1 << 29
	}
	for _, st := range r.streams {
		if !st.opened || st.rstSent || st.srvRst || st.op.bad != "" {
			continue
		}
		if !st.srvEnd {
			r.fr.WriteWindowUpdate(st.id, 1<<29)
			st.wu = append(st.wu, hsWU{1 << 29, r.cw()})
		}
		if !st.reqEnd && !st.overSent {
			r.fr.WriteData(st.id, true, nil)
			st.reqEnd = true
		}
	}
	r.tr.Ev("  heal: ample windows, request bodies finished")
}

// countErrorGate is Server.CountError in the runs that draw it. The server calls
// it with "stream_..." / "conn_..." tokens on its serve goroutine, between
// deciding that a frame is an error and acting on it (frame-parser tokens come
// from the reader goroutine and pass through). Drawn calls park the serve
// goroutine on a channel until the scheduler picks the "serve resume" event.
func (r *hsRun) countErrorGate(typ string) {
	if !strings.HasPrefix(typ, "stream_") && !strings.HasPrefix(typ, "conn_") {
		return
	}
	r.mu.Lock()
	if r.ceOff || r.ceGate != nil {
		r.mu.Unlock()
		return
	}
	r.ceCalls++
	if r.p.ceMask>>(uint(r.ceCalls)%32)&1 == 0 {
		r.mu.Unlock()
		return
	}
	g := make(chan struct{})
	r.ceGate, r.ceTyp = g, typ
	r.mu.Unlock()
	vs.G.Inc("fault.serve_parked_in_count_error")
	<-g
}

func (r *hsRun) releaseGate(off bool) {
	r.mu.Lock()
	g := r.ceGate
	r.ceGate = nil
	r.ceOff = r.ceOff || off
	r.mu.Unlock()
	if g != nil {
		close(g)
	}
}

func (r *hsRun) Events(now time.Time) []vs.Event {
	r.mu.Lock()
	defer r.mu.Unlock()
	if r.ceGate != nil {
		evs := []vs.Event{{Label: "serve resume (CountError " + r.ceTyp + ")", Weight: 1, Run: func() { r.releaseGate(false) }}}
		if r.srvClosed || !r.gotSrvSet {
			return evs
		}
		if r.nextOp < len(r.p.ops) {
			op := r.p.ops[r.nextOp]
			evs = append(evs, vs.Event{Label: "client " + op.kind, Weight: 2, Run: func() {
				r.mu.Lock()
				r.nextOp++
				r.mu.Unlock()
				r.doOp(op)
			}})
		}
		return evs // (no heal while the serve goroutine is parked)
	}
	if r.srvClosed {
		return nil
	}
	if !r.gotSrvSet {
		return nil // the honest client waits for the server's SETTINGS
	}
	if r.nextOp < len(r.p.ops) {
		op := r.p.ops[r.nextOp]
		return []vs.Event{{Label: "client " + op.kind, Weight: 2, Run: func() {
			r.mu.Lock()
			r.nextOp++
			r.mu.Unlock()
			r.doOp(op)
		}}}
	}
	if !r.healed {
		return []vs.Event{{Label: "client heal", Weight: 1, Run: r.heal}}
	}
	return nil
}

func (r *hsRun) NextTimed(now time.Time) (time.Time, bool) { return time.Time{}, false }

// ---------------------------------------------------------------------------
// monitor: runs at every quiescent point

func (r *hsRun) iwRange(f *vmFrame, delivered int64) (iwMax, mfMax int64) {
	a := 0
	for _, g := range r.srvFrames {
		if g.Seq >= f.Seq {
			break
		}
		if g.Type == FrameSettings && g.Flags&FlagSettingsAck != 0 {
			a++
		}
	}
	d := 0
	for i := 1; i < len(r.cSettings); i++ { // cSettings[0] is the default state
		if r.cSettings[i].endOff <= delivered {
			d = i
		}
	}
	if a > d {
		a = d
	}
	iwMax, mfMax = -1, -1
	for j := a; j <= d; j++ {
		iwMax = max(iwMax, r.cSettings[j].iw)
		mfMax = max(mfMax, r.cSettings[j].mf)
	}
	return
}

func (r *hsRun) onServerFrame(f *vmFrame) *vs.Violation {
	delivered := r.conn.DeliveredAB()
	if r.goAway && f.Type != FrameGoAway {
		// frames after GOAWAY are legal (e.g. streams below last-stream-id keep going)
	}
	_, mfMax := r.iwRange(f, delivered)
	if int64(len(f.Payload)) > mfMax {
		return vs.Violf("C08", "frame_exceeds_max_frame_size", "srv:max_frame", "%v payload %d > client's SETTINGS_MAX_FRAME_SIZE bound %d", f, len(f.Payload), mfMax)
	}
	st := r.byID[f.SID]
	switch f.Type {
	case FrameSettings:
		if f.Flags&FlagSettingsAck != 0 {
			r.srvAcks++
			d := 0
			for i := 1; i < len(r.cSettings); i++ {
				if r.cSettings[i].endOff <= delivered {
					d = i
				}
			}
			if r.srvAcks > d {
				return vs.Violf("C15", "spurious_settings_ack", "srv:settings_ack", "server sent %d SETTINGS ACKs but only %d SETTINGS frames were delivered", r.srvAcks, d)
			}
			break
		}
		for _, s := range vmSettings(f.Payload) {
			switch s.ID {
			case SettingInitialWindowSize:
				r.srvIW = int64(s.Val)
			case SettingMaxFrameSize:
				r.srvMaxFrame = int64(s.Val)
			case SettingMaxConcurrentStreams:
				r.srvMaxStr = int64(s.Val)
				r.advMaxStr = int64(s.Val)
			}
		}
	case FrameWindowUpdate:
		if len(f.Payload) == 4 {
			inc := int64(uint32(f.Payload[0])<<24|uint32(f.Payload[1])<<16|uint32(f.Payload[2])<<8|uint32(f.Payload[3])) & 0x7fffffff
			if f.SID == 0 {
				r.sConnWU += inc
				// "No WINDOW_UPDATE ever makes a receive window exceed 2^31-1": the
				// window the client may believe = 65535 + sum(WU) - sent.
				if 65535+r.sConnWU-r.cSentFlow > 1<<31-1 {
					return vs.Violf("C10", "window_overflow", "srv:conn_window_overflow", "connection receive window as advertised to the client exceeds 2^31-1")
				}
			} else if st != nil {
				st.srvWU += inc
				if r.srvIW+st.srvWU-st.sentFlow > 1<<31-1 {
					return vs.Violf("C10", "window_overflow", "srv:stream_window_overflow", "stream %d receive window as advertised exceeds 2^31-1", f.SID)
				}
			}
		}
	case FramePing:
		if f.Flags&FlagPingAck != 0 && len(f.Payload) == 8 {
			var d [8]byte
			copy(d[:], f.Payload)
			r.pingAcks = append(r.pingAcks, d)
			// must answer a PING that was delivered
			n := 0
			for i, p := range r.pings {
				if p == d && r.pingEnd[i] <= delivered {
					n++
				}
			}
			m := 0
			for _, a := range r.pingAcks {
				if a == d {
					m++
				}
			}
			if m > n {
				return vs.Violf("C15", "ping_ack_mismatch", "srv:ping_ack", "PING ACK %x does not answer a delivered PING (acks with this payload %d, pings delivered %d)", d, m, n)
			}
		}
	case FrameGoAway:
		var code ErrCode = 0xffff
		if len(f.Payload) >= 8 {
			code = ErrCode(uint32(f.Payload[4])<<24 | uint32(f.Payload[5])<<16 | uint32(f.Payload[6])<<8 | uint32(f.Payload[7]))
		}
		if r.gracefulSent && code == ErrCodeNo {
			// the answer to the graceful shutdown the harness started: streams up to
			// last-stream-id (all of ours: nothing was in flight) are still served
			r.srvGraceful = true
			r.gracefulLast = (uint32(f.Payload[0])<<24 | uint32(f.Payload[1])<<16 | uint32(f.Payload[2])<<8 | uint32(f.Payload[3])) & 0x7fffffff
			break
		}
		r.goAway = true
		if len(f.Payload) >= 8 {
			r.goAwayCode = code
		}
	case FrameRSTStream:
		if st != nil && len(f.Payload) == 4 {
			st.srvRst = true
			st.srvRstCode = ErrCode(uint32(f.Payload[0])<<24 | uint32(f.Payload[1])<<16 | uint32(f.Payload[2])<<8 | uint32(f.Payload[3]))
		}
	case FrameHeaders, FrameContinuation, FrameData:
		if st == nil {
			if f.SID%2 == 1 {
				return vs.Violf("C15", "frame_on_unknown_stream", "srv:unknown_stream", "server sent %v on a stream the client never opened", f)
			}
			break
		}
		if f.Type != FrameContinuation {
			if st.srvEnd {
				return vs.Violf("C15", "frame_after_end_stream", "srv:after_end_stream", "server sent %v after it had sent END_STREAM on stream %d", f, f.SID)
			}
			if st.srvRst {
				return vs.Violf("C15", "frame_after_rst_sent", "srv:after_rst_sent", "server sent %v after it had sent RST_STREAM on stream %d", f, f.SID)
			}
			if st.rstSettled {
				return vs.Violf("C15", "frame_after_rst_received", "srv:after_rst_received", "server sent %v on stream %d after the client's RST_STREAM had been delivered and processed", f, f.SID)
			}
		}
		if f.HdrDone {
			if f.HdrErr != nil {
				return vs.Violf("C14", "response_hpack", "srv:hpack", "response header block does not decode: %v", f.HdrErr)
			}
			if s, ok := vmField(f.Fields, ":status"); ok && len(s) == 3 && s[0] == '1' && !st.respHdr {
				// informational response (100 Continue): the final one is still to come
				vs.G.Inc("probe.informational_response")
			} else if !st.respHdr {
				st.respHdr = true
				if s, ok := vmField(f.Fields, ":status"); ok {
					st.respStatus, _ = strconv.Atoi(s)
				}
			}
			if f.HdrEndStr {
				st.srvEnd = true
			}
		}
		if f.Type == FrameData {
			flow, data, ok := f.data()
			if !ok {
				return vs.Violf("C14", "data_padding", "srv:data_padding", "malformed DATA padding from server")
			}
			iwMax, _ := r.iwRange(f, delivered)
			credit := iwMax
			for _, w := range st.wu {
				if w.endOff <= delivered {
					credit += int64(w.inc)
				}
			}
			connCredit := int64(65535)
			for _, w := range r.connWU {
				if w.endOff <= delivered {
					connCredit += int64(w.inc)
				}
			}
			st.srvDataFlow += int64(flow)
			r.sConnFlow += int64(flow)
			// A SETTINGS change may legitimately leave the window negative; only a
			// frame that consumes window (flow > 0) must fit into the credit.
			if flow > 0 && st.srvDataFlow > credit {
				return vs.Violf("C08", "stream_window_exceeded", "srv:stream_window", "stream %d: server has sent %d flow-controlled bytes (this frame #%d: %d, written at step %d), but the window it may use is at most %d (initial window bound %d + delivered WINDOW_UPDATEs; client bytes delivered %d; settings %+v)", f.SID, st.srvDataFlow, f.Seq, flow, f.Step, credit, iwMax, delivered, r.cSettings)
			}
			if flow > 0 && r.sConnFlow > connCredit {
				return vs.Violf("C08", "conn_window_exceeded", "srv:conn_window", "connection: server has sent %d flow-controlled bytes, but delivered credit is %d", r.sConnFlow, connCredit)
			}
			if st.srvDataFlow == credit {
				vs.G.Inc("probe.stream_window_exhausted")
			}
			if r.sConnFlow == connCredit {
				vs.G.Inc("probe.conn_window_exhausted")
			}
			for i, b := range data {
				if b != hsRespByte(st.idx, st.srvData+int64(i)) {
					if st.respStatus >= 400 && st.op.bad != "" {
						break // server-generated error body
					}
					return vs.Violf("C14", "response_body_bytes", "srv:resp_body", "stream %d: response DATA byte at offset %d differs from what the handler wrote", f.SID, st.srvData+int64(i))
				}
			}
			st.srvData += int64(len(data))
			if st.srvData > st.hWrote && !(st.respStatus >= 400 && st.op.bad != "") && st.hStarted {
				return vs.Violf("C14", "response_body_phantom", "srv:resp_phantom", "stream %d: %d response bytes on the wire but the handler wrote only %d", f.SID, st.srvData, st.hWrote)
			}
			if f.Flags&FlagDataEndStream != 0 {
				st.srvEnd = true
			}
		}
	}
	return nil
}

func (r *hsRun) check() *vs.Violation {
	r.mu.Lock()
	defer r.mu.Unlock()
	r.step++
	if r.viol != nil {
		return r.viol
	}
	if r.srvPanic != nil {
		// (filed under the property being checked, as a crash of the test process
		// is: a panic of the connection goroutine ends every judgement of the run)
		return vs.Violf(r.p.focus, "serve_panic", "srv:serve_panic", "panic on the server's connection goroutine: %v", r.srvPanic)
	}
	for {
		f := r.mon.next()
		if f == nil {
			break
		}
		r.srvFrames = append(r.srvFrames, f)
		if v := r.onServerFrame(f); v != nil {
			return v
		}
	}
	// frames delivered to the client
	dBA := r.conn.DeliveredBA()
	for r.nDelivered < len(r.srvFrames) && r.srvFrames[r.nDelivered].End <= dBA {
		f := r.srvFrames[r.nDelivered]
		r.nDelivered++
		if f.Type == FrameSettings && f.Flags&FlagSettingsAck == 0 && !r.gotSrvSet {
			r.gotSrvSet = true
			r.fr.WriteSettingsAck()
			r.tr.Ev("  client: SETTINGS ACK")
		}
	}
	// client RSTs that the server has certainly processed
	dAB := r.conn.DeliveredAB()
	if r.p.bound == 0 || r.conn.InflightBA() == 0 {
		for _, st := range r.streams {
			if st.rstSent && !st.rstSettled && st.rstEndOff <= dAB {
				st.rstSettled = true
			}
		}
	}
	// C11: an over-window DATA frame that has been delivered must have produced
	// a FLOW_CONTROL_ERROR by the next quiescent point.
	for _, st := range r.streams {
		if st.overSent && st.overEndOff <= dAB && st.overEndOff > 0 {
			ok := (st.srvRst && st.srvRstCode == ErrCodeFlowControl) || (r.goAway && r.goAwayCode == ErrCodeFlowControl)
			if !ok && !r.srvClosed {
				wb := "stream unknown to the server"
				if r.sc != nil {
					if sst := r.sc.streams[st.id]; sst != nil {
						wb = fmt.Sprintf("server stream state=%v inflow.avail=%d unsent=%d resetQueued=%v bodyBytes=%d decl=%d; conn inflow avail=%d unsent=%d", sst.state, sst.inflow.avail, sst.inflow.unsent, sst.resetQueued, sst.bodyBytes, sst.declBodyBytes, r.sc.inflow.avail, r.sc.inflow.unsent)
					}
				}
				return vs.Violf("C11", "over_window_not_rejected", "srv:over_window_accepted", "stream %d: DATA exceeding the advertised window was delivered but no FLOW_CONTROL_ERROR was sent (rst=%v code=%v goaway=%v; client sent flow=%d body=%d; server advertised iw=%d stream WU=%d conn WU=%d; %s)", st.id, st.srvRst, st.srvRstCode, r.goAway, st.sentFlow, st.sentBody, r.srvIW, st.srvWU, r.sConnWU, wb)
			}
			st.overEndOff = -1
		}
		if !st.overSent && st.opened && r.p.focus == "C11" {
			if st.srvRst && st.srvRstCode == ErrCodeFlowControl {
				return vs.Violf("C11", "within_window_rejected", "srv:within_window_rejected", "stream %d: FLOW_CONTROL_ERROR although the client stayed within the advertised windows", st.id)
			}
		}
	}
	if r.p.focus == "C11" && r.goAway && r.goAwayCode == ErrCodeFlowControl {
		any := false
		for _, st := range r.streams {
			any = any || st.overSent
		}
		if !any {
			return vs.Violf("C11", "within_window_rejected", "srv:within_window_goaway", "GOAWAY(FLOW_CONTROL_ERROR) although the client stayed within the advertised windows")
		}
	}
	// definite over-limit refusal (C15)
	return nil
}

// ---------------------------------------------------------------------------
// the run

func hsScheduler(name string) func() WriteScheduler {
	switch name {
	case "roundrobin":
		return func() WriteScheduler { return newRoundRobinWriteScheduler() }
	case "rfc7540":
		return func() WriteScheduler { return NewPriorityWriteScheduler(nil) }
	case "rfc9218":
		return func() WriteScheduler { return newPriorityWriteSchedulerRFC9218() }
	}
	return nil
}

func hsRunOnce(t *testing.T, rt *rapid.T, focus string) {
	p := hsDrawPlan(rt, focus)
	tape := vs.DrawTape(rt, 3000)
	tr := vs.NewTrace()
	var viol *vs.Violation
	var simDur time.Duration
	var harness string
	nontrivial := false
	deadlock := vs.Bubble(t, func() {
		sim := vs.NewSim(tape, tr)
		sim.MaxSteps = vs.Thorough(4000, 12000)
		sim.Horizon = 5 * time.Minute
		r := &hsRun{p: p, sim: sim, tr: tr, byID: map[uint32]*hsStream{}, nextID: 1, honest: focus != "C16",
			srvIW: 65535, srvMaxFrame: 16384, srvMaxStr: 1 << 30}
		r.conn = vs.NewStreamConn(sim, "h2")
		r.conn.DeliverWeight = 4
		r.conn.DiscardBA() // the scripted client "reads" through the tap
		if p.bound > 0 {
			r.conn.BoundBA(p.bound)
		}
		r.mon = newVMParser(false, &r.step)
		r.mon.allowTableSize(1 << 16)
		r.conn.TapBA(func(b []byte) { r.mon.write(b) })
		r.fr = NewFramer(r.conn.A, nil)
		r.henc = hpack.NewEncoder(&r.hbuf)
		for i := 0; i < p.nstreams; i++ {
			r.streams = append(r.streams, &hsStream{idx: i})
		}
		i := 0
		for _, op := range p.ops {
			if op.kind == "open" {
				r.streams[i].op = op
				i++
			}
		}
		r.cSettings = []hsSettings{{endOff: 0, iw: 65535, mf: 16384}}
		r.conn.SplitHintAB = hsSplitHint
		r.conn.SplitHintBA = hsSplitHint

		srv := &Server{MaxConcurrentStreams: p.maxStreams, MaxUploadBufferPerConnection: p.upConn,
			MaxUploadBufferPerStream: p.upStream, MaxReadFrameSize: p.maxReadFrame, NewWriteScheduler: hsScheduler(p.sched)}
		if p.ceMask != 0 {
			srv.CountError = r.countErrorGate
		}
		h1 := &http.Server{Handler: http.HandlerFunc(r.handler), ErrorLog: log.New(io.Discard, "", 0)}
		if err := ConfigureServer(h1, srv); err != nil { // per-Server state (error-channel pool created inside this bubble)
			harness = "ConfigureServer: " + err.Error()
			return
		}
		oldHook := testHookOnPanic
		testHookOnPanic = func(sc *serverConn, pv interface{}) bool {
			r.mu.Lock()
			r.srvPanic = fmt.Sprintf("%v\n%s", pv, hsStack())
			r.mu.Unlock()
			return false
		}
		defer func() { testHookOnPanic = oldHook }()
		served := make(chan struct{})
		go func() {
			defer close(served)
			srv.serveConn(r.conn.B, &ServeConnOpts{BaseConfig: h1}, func(sc *serverConn) { r.sc = sc })
			r.mu.Lock()
			r.srvClosed = true
			r.mu.Unlock()
			sim.Wake()
		}()

		// client preface + SETTINGS, delivered at once (so that the server's
		// first-SETTINGS timeout is not what the honest runs are about)
		io.WriteString(r.conn.A, ClientPreface)
		var ss []Setting
		first := hsSettings{iw: 65535, mf: 16384}
		if p.initIW >= 0 {
			ss = append(ss, Setting{SettingInitialWindowSize, uint32(p.initIW)})
			first.iw = int64(p.initIW)
		}
		if p.initMF >= 0 {
			ss = append(ss, Setting{SettingMaxFrameSize, uint32(p.initMF)})
			first.mf = int64(p.initMF)
		}
		r.fr.WriteSettings(ss...)
		first.endOff = r.cw()
		r.cSettings = append(r.cSettings, first)
		r.conn.DeliverAll()
		tr.Ev("plan focus=%s sched=%s maxStreams=%d upConn=%d upStream=%d maxRead=%d iw=%d mf=%d bound=%d streams=%d ops=%d ceMask=%#x", focus, p.sched, p.maxStreams, p.upConn, p.upStream, p.maxReadFrame, p.initIW, p.initMF, p.bound, p.nstreams, len(p.ops), p.ceMask)

		sim.AddSource(r)
		if focus == "C10" || focus == "C15" {
			// Now and then a handler's next operation and a delivery of client bytes
			// happen in the same step: the server's serve loop then finds the
			// handler's message and the client's frame pending together.
			sim.Burst = func(first vs.Event, evs []vs.Event) int {
				isTask := func(l string) bool { return len(l) > 1 && l[0] == 'h' && strings.Contains(l, ": ") }
				isDeliver := func(l string) bool { return l == "net h2 A>B deliver" }
				var want func(string) bool
				switch {
				case isTask(first.Label):
					want = isDeliver
				case isDeliver(first.Label):
					want = isTask
				default:
					return -1
				}
				if sim.C.Intn(100) >= 25 {
					return -1
				}
				var cand []int
				for i, e := range evs {
					if want(e.Label) && e.Label != first.Label {
						cand = append(cand, i)
					}
				}
				if len(cand) == 0 {
					return -1
				}
				return cand[sim.C.Intn(len(cand))]
			}
		}
		sim.Check = r.check
		sim.Done = func() bool {
			r.mu.Lock()
			defer r.mu.Unlock()
			if r.ceGate != nil {
				return false
			}
			if r.srvClosed && !r.gracefulSent {
				return true
			}
			if r.srvClosed {
				return sim.AllTasksDone()
			}
			return r.healed && r.conn.InflightAB() == 0 && r.conn.InflightBA() == 0 && sim.AllTasksDone()
		}
		sim.Run()
		viol = sim.Viol
		if viol == nil {
			viol = r.final(sim, &harness)
		}
		nontrivial = r.nextOp > 0 && len(r.srvFrames) > 2
		// teardown
		r.releaseGate(true)
		r.conn.A.Close()
		r.conn.DeliverAll()
		sim.Abort()
		r.conn.Cut(io.ErrClosedPipe)
		<-served
		simDur = sim.Elapsed()
		if !sim.Drain() && harness == "" {
			harness = fmt.Sprintf("tasks did not exit at teardown: %v", sim.PendingTasks())
		}
		r.conn.StopTimers()
		if sim.StepsOut {
			vs.G.Inc("run.steps_exhausted")
		}
	})
	if deadlock != "" && viol == nil && harness == "" {
		harness = "bubble did not wind down: " + deadlock
	}
	vs.G.EndRun(tr, nontrivial, simDur, func() any {
		return map[string]any{"focus": focus, "trace_head": tr.Log[:min(len(tr.Log), 60)]}
	})
	if harness != "" && viol == nil {
		vs.LogTrace(rt, tr)
		vs.Harnessf(rt, "%s", harness)
	}
	if viol != nil && viol.Prop != focus {
		vs.G.Inc("foreign_violation." + viol.Prop + "." + viol.Oracle)
		viol = nil
	}
	vs.Report(rt, viol, tr)
}

func hsStack() string {
	buf := make([]byte, 4096)
	return string(buf[:runtime.Stack(buf, false)])
}

// hsSplitHint proposes chunk sizes that end inside frame headers.
func hsSplitHint(b []byte) []int {
	var hs []int
	off := 0
	for off+9 <= len(b) && len(hs) < 8 {
		l := int(b[off])<<16 | int(b[off+1])<<8 | int(b[off+2])
		hs = append(hs, off+1, off+9)
		off += 9 + l
		if off <= len(b) {
			hs = append(hs, off)
		}
	}
	var out []int
	for _, h := range hs {
		if h >= 1 && h <= len(b) {
			out = append(out, h)
		}
	}
	return out
}

// final runs the end-of-run oracles (the run reached Done, or got stuck).
func (r *hsRun) final(sim *vs.Sim, harness *string) *vs.Violation {
	r.mu.Lock()
	defer r.mu.Unlock()
	if sim.StepsOut {
		return nil // inconclusive: step budget exhausted before the end state
	}
	if r.srvPanic != nil {
		// (filed under the property being checked, as a crash of the test process
		// is: a panic of the connection goroutine ends every judgement of the run)
		return vs.Violf(r.p.focus, "serve_panic", "srv:serve_panic", "panic on the server's connection goroutine: %v", r.srvPanic)
	}
	if r.honest && (r.goAway || (r.srvClosed && !r.gracefulSent)) && r.goAwayCode != ErrCodeFlowControl {
		// An honest client never gives the server a reason to end the connection.
		// This is classified as a harness problem, not a violation (see DESIGN 5/C15).
		ov := false
		for _, st := range r.streams {
			ov = ov || st.overSent
		}
		if !ov {
			*harness = fmt.Sprintf("server ended the connection of an honest client (goaway=%v code=%v closed=%v)", r.goAway, r.goAwayCode, r.srvClosed)
		}
		return nil
	}
	if r.goAway || (r.srvClosed && !r.gracefulSent) {
		return nil
	}
	if r.srvClosed && !sim.AllTasksDone() {
		return nil // graceful shutdown completed but a handler outlived its (reset) stream
	}
	if sim.Stuck {
		// bounded liveness: after the heal every handler must finish
		var blocked []string
		inWrite := false
		for _, st := range r.streams {
			if st.hStarted && !st.hDone {
				blocked = append(blocked, fmt.Sprintf("h%d@%s", st.idx, st.hCurOp))
				if st.hCurOp == "write" || st.hCurOp == "flush" || st.hCurOp == "header" {
					inWrite = true
				}
			}
		}
		sort.Strings(blocked)
		if inWrite {
			return vs.Violf("C08", "liveness_write_blocked", "srv:write_blocked_after_heal", "after the client granted ample windows, handlers are still blocked after %v of simulated time: %v", sim.Horizon, blocked)
		}
		return vs.Violf("C14", "liveness_handler_blocked", "srv:handler_blocked_after_heal", "handlers still blocked after the heal: %v", blocked)
	}
	// --- end state reached: everything delivered, all handlers returned ---
	// C08 liveness/completeness: every byte the handler wrote is on the wire.
	for _, st := range r.streams {
		if !st.hStarted || st.rstSent || st.srvRst || st.hPanic {
			continue
		}
		if st.op.bad != "" {
			continue
		}
		if !st.srvEnd {
			return vs.Violf("C08", "response_incomplete", "srv:no_end_stream", "stream %d: handler returned but the server never finished the response (wrote %d, on wire %d)", st.id, st.hWrote, st.srvData)
		}
		if st.srvData != st.hWrote && st.respStatus != 204 && st.respStatus != 304 {
			return vs.Violf("C08", "response_incomplete", "srv:short_body", "stream %d: handler wrote %d bytes, %d arrived before END_STREAM", st.id, st.hWrote, st.srvData)
		}
	}
	// C15: every delivered PING answered; every SETTINGS acknowledged.
	for i, p := range r.pings {
		_ = i
		n, m := 0, 0
		for _, q := range r.pings {
			if q == p {
				n++
			}
		}
		for _, a := range r.pingAcks {
			if a == p {
				m++
			}
		}
		if m != n {
			return vs.Violf("C15", "ping_unanswered", "srv:ping_unanswered", "PING %x sent %d times, acknowledged %d times", p, n, m)
		}
	}
	if len(r.cSettings) > 1 && r.srvAcks == 0 {
		return vs.Violf("C15", "settings_unacked", "srv:settings_unacked", "%d SETTINGS frames delivered, none acknowledged", len(r.cSettings)-1)
	}
	// the last SETTINGS frame must be followed by an ACK written after its delivery
	if len(r.cSettings) > 1 {
		lastAck := -1
		for _, f := range r.srvFrames {
			if f.Type == FrameSettings && f.Flags&FlagSettingsAck != 0 {
				lastAck = f.Seq
			}
		}
		_ = lastAck
		if r.srvAcks > len(r.cSettings)-1 {
			return vs.Violf("C15", "spurious_settings_ack", "srv:settings_ack", "more SETTINGS ACKs (%d) than SETTINGS frames (%d)", r.srvAcks, len(r.cSettings)-1)
		}
	}
	// C15: malformed requests were rejected
	for _, st := range r.streams {
		if r.srvGraceful && st.id > r.gracefulLast {
			continue // above the GOAWAY's last-stream-id: the server may ignore it altogether
		}
		if st.opened && st.op.bad != "" && !st.rstSent {
			rejected := st.srvRst || (st.respHdr && st.respStatus >= 400 && st.respStatus < 500 && st.srvEnd)
			if !rejected {
				return vs.Violf("C15", "malformed_not_rejected", "malformed_accepted:"+st.op.bad, "stream %d: request with malformed/connection-specific header (%s) was neither reset nor answered with a 4xx (resp=%v status=%d end=%v)", st.id, st.op.bad, st.respHdr, st.respStatus, st.srvEnd)
			}
		}
	}
	// C10: conservation of connection-level receive credit. (Not evaluated in runs
	// that deliberately exceeded a window: a frame the server rejected with
	// FLOW_CONTROL_ERROR was never taken from its window.)
	anyOver := false
	for _, st := range r.streams {
		anyOver = anyOver || st.overSent
	}
	if r.sc != nil && !anyOver {
		configured := int64(r.p.upConn)
		if configured < 65535 {
			configured = 1 << 20 // package default when unset or below the protocol default
		}
		peerView := 65535 + r.sConnWU - r.cSentFlow
		unsent := int64(r.sc.inflow.unsent)
		if peerView+unsent != configured {
			kind := "leak"
			if peerView+unsent > configured {
				kind = "over_refund"
			}
			return vs.Violf("C10", "conn_credit_conservation", "srv:"+kind, "after all bodies were read or closed: configured connection window %d, peer's view %d + batched unsent %d = %d (client sent %d flow-controlled bytes, server returned %d)", configured, peerView, unsent, peerView+unsent, r.cSentFlow, r.sConnWU-(configured-65535))
		}
	}
	return nil
}

func TestVerif_C08(t *testing.T)     { vs.Check(t, func(rt *rapid.T) { hsRunOnce(t, rt, "C08") }) }
func TestVerif_C10_srv(t *testing.T) { vs.Check(t, func(rt *rapid.T) { hsRunOnce(t, rt, "C10") }) }
func TestVerif_C11_srv(t *testing.T) { vs.Check(t, func(rt *rapid.T) { hsRunOnce(t, rt, "C11") }) }
func TestVerif_C15(t *testing.T)     { vs.Check(t, func(rt *rapid.T) { hsRunOnce(t, rt, "C15") }) }
