// Engine hpacklink (C01, C02, C03, C05): a real hpack.Encoder and real
// hpack.Decoders joined by a simulated byte stream.
//
// A run generates a session: header blocks written by one Encoder, with
// dynamic-table size events (the "settings channel") at block boundaries. The
// blocks then cross the stream to the decoder(s) under arbitrary fragmentation
// into Write calls. In the fault configuration the session is damaged in flight
// (bit flips, byte insert/delete/overwrite, truncation then Close, block
// duplication / reordering / loss / concatenation, splices with a second
// session, random blocks) and the decoder runs with arbitrary string-length and
// table-size limits and with emission switched off part-way through a block.
//
// Oracles: C01 emitted == written, decoder table == encoder table (white-box),
// size <= limit, no error; C05 representation-level checks of the encoder output
// with the reference decoder of verif_hpackref_test.go plus white-box table
// checks; C02 no panic, limits, and agreement with the reference decoder's
// classification of the (damaged) block; C03 one-Write decoder vs. chunked
// decoder: same fields, same success/failure, same table.
//
// Sequential engine: every choice is drawn from rapid on the calling goroutine;
// long strings are expanded from a drawn seed.

package hpack

import (
	"bytes"
	"errors"
	"fmt"
	"strings"
	"testing"

	vs "golang.org/x/net/internal/verifsim"
	"pgregory.net/rapid"
)

// ---------------------------------------------------------------------------
// workload generation

var hpNameAlphabet = []string{
	"k0", ":method", ":path", ":status", "accept-encoding", "cookie", "content-type",
	"authorization", "set-cookie", "x-a", "x-b", "k1", "k2", "", ":authority", "www-authenticate",
}

var hpValueAlphabet = []string{
	"v0", "GET", "POST", "/", "200", "gzip, deflate", "https", "", "v1", "v2", "v3", "/index.html", "404", "v4",
}

const hpLetters = "etaoinsrhl0123-/. d=%cu"

// hpFill expands (seed, kind) into n bytes. kind 0: Huffman-favourable text,
// 1: incompressible high bytes, 2: arbitrary bytes.
func hpFill(n int, seed uint32, kind int) string {
	b := make([]byte, n)
	x := uint64(seed)*0x9e3779b97f4a7c15 + 0x1234567
	for i := range b {
		x ^= x << 13
		x ^= x >> 7
		x ^= x << 17
		switch kind {
		case 0:
			b[i] = hpLetters[(x>>20)%uint64(len(hpLetters))]
		case 1:
			b[i] = 0x80 | byte(x>>24)
		default:
			b[i] = byte(x >> 24)
		}
	}
	return string(b)
}

type hpBlock struct {
	fields  []HeaderField
	spans   []int    // end offset in data of the bytes written for each field
	data    []byte   // encoder output for the block
	allowed []uint32 // decoder-side limit changes applied before this block (in order)
	limit   uint32   // decoder-side limit in force for this block
	evsig   string   // normal form of the size events at the boundary before this block
	encTab  []HeaderField
	encMax  uint32
}

type hpGen struct {
	c        vs.Chooser
	tr       *vs.Trace
	tag      string // trace prefix ("" main session, "alt " second session)
	enc      *Encoder
	buf      bytes.Buffer
	limit    uint32 // decoder-side limit L
	encLimit uint32 // last value passed to SetMaxDynamicTableSizeLimit
	recent   []HeaderField
	lastSize uint32
	sensPct  int
	twinPct  int
	strMax   int
	nsecret  int
	nevents  int
	maxEv    int

	// bookkeeping for oracles and probes
	nonSens  map[pairNameValue]bool // pairs written as non-sensitive fields so far
	sens     map[pairNameValue]bool // pairs written as sensitive fields so far
	inserted map[pairNameValue]bool // pairs that were in the encoder table at some point
}

func hpNewGen(c vs.Chooser, tr *vs.Trace, tag string, sensPct, twinPct int) *hpGen {
	g := &hpGen{c: c, tr: tr, tag: tag, limit: initialHeaderTableSize, encLimit: initialHeaderTableSize,
		sensPct: sensPct, twinPct: twinPct, strMax: vs.Thorough(300, 1200), maxEv: vs.Thorough(8, 16),
		nonSens: map[pairNameValue]bool{}, sens: map[pairNameValue]bool{}, inserted: map[pairNameValue]bool{}}
	g.enc = NewEncoder(&g.buf)
	return g
}

func (g *hpGen) str() string {
	c := g.c
	max := g.strMax
	if vs.Pct(c, 4) {
		max = vs.Thorough(2000, 70000)
	}
	n := vs.SizeBiased(c, max, 1, 30, 126, 127, 128, 255, 256)
	return hpFill(n, uint32(c.Intn(1<<16)), c.Intn(3))
}

func (g *hpGen) field() HeaderField {
	c := g.c
	var f HeaderField
	if len(g.recent) > 0 && vs.Pct(c, g.twinPct) {
		f = g.recent[c.Intn(len(g.recent))]
		if vs.Bool(c) {
			// same name, other value
			f.Value = hpValueAlphabet[c.Intn(len(hpValueAlphabet))]
		}
	} else {
		if vs.Pct(c, 12) {
			f.Name = g.str()
		} else {
			f.Name = hpNameAlphabet[c.Intn(len(hpNameAlphabet))]
		}
		if vs.Pct(c, 25) {
			f.Value = g.str()
		} else {
			f.Value = hpValueAlphabet[c.Intn(len(hpValueAlphabet))]
		}
	}
	f.Sensitive = vs.Pct(c, g.sensPct)
	if f.Sensitive && vs.Pct(c, 30) {
		g.nsecret++
		f.Value = fmt.Sprintf("S3cr3t#%d", g.nsecret)
	}
	if len(g.recent) < 24 {
		g.recent = append(g.recent, f)
	} else {
		g.recent[c.Intn(len(g.recent))] = f
	}
	return f
}

func (g *hpGen) pickSize() uint32 {
	c := g.c
	switch c.Intn(18) {
	case 0, 14, 15:
		return 4096
	case 16:
		return 512
	case 17:
		return uint32(vs.Range(c, 200, 1500))
	case 1:
		return 0
	case 2:
		return 1
	case 3:
		return 32
	case 4:
		return g.lastSize // exactly one entry (the last one written)
	case 5:
		return g.lastSize + uint32(c.Intn(3)) - 1 // wraps to 2^32-1 when lastSize is 0: a legal value
	case 6:
		return g.enc.dynTab.size // exactly the current content
	case 7:
		if g.enc.dynTab.size > 0 {
			return g.enc.dynTab.size - 1
		}
		return 64
	case 8:
		return 65536
	case 9:
		return uint32(vs.Range(c, 33, 200))
	case 10:
		return uint32(vs.Range(c, 0, 8192))
	case 11:
		return 100
	case 12:
		return 1 << 20
	default:
		return 256
	}
}

// sizeEvents applies 1..3 table-size events at a block boundary. Decoder-side
// changes are recorded in b.allowed (they are replayed on the decoders when the
// block is delivered); encoder-side calls happen now. Contract kept by the
// harness: the encoder's table size never exceeds the decoder-side limit L
// (given a correct Encoder) and a lowered L is always followed by an encoder
// call that obliges it to signal a size <= L.
func (g *hpGen) sizeEvents(b *hpBlock) *vs.Violation {
	c := g.c
	n := vs.Pick(c, 1, 1, 2, 3)
	var sig []string
	for i := 0; i < n && g.nevents < g.maxEv; i++ {
		g.nevents++
		before := g.enc.dynTab.maxSize
		var kind string
		var v uint32
		var viol *vs.Violation
		switch c.Intn(4) {
		case 0: // peer SETTINGS, the way package http2 applies it
			kind, v = "b", g.pickSize()
			b.allowed = append(b.allowed, v)
			g.limit = v
			viol = vs.Guard("C01", "panic_in_SetMaxDynamicTableSize", func() { g.enc.SetMaxDynamicTableSize(v) })
		case 1: // peer SETTINGS applied as the encoder's limit
			kind, v = "a", g.pickSize()
			b.allowed = append(b.allowed, v)
			g.limit = v
			g.encLimit = v
			viol = vs.Guard("C01", "panic_in_SetMaxDynamicTableSizeLimit", func() { g.enc.SetMaxDynamicTableSizeLimit(v) })
		case 2: // the encoder resizes on its own, within L
			kind, v = "r", g.pickSize()
			if g.encLimit > g.limit && v > g.limit {
				v = g.limit
			}
			viol = vs.Guard("C01", "panic_in_SetMaxDynamicTableSize", func() { g.enc.SetMaxDynamicTableSize(v) })
		default: // the encoder's own limit policy changes
			kind, v = "m", g.pickSize()
			g.encLimit = v
			viol = vs.Guard("C01", "panic_in_SetMaxDynamicTableSizeLimit", func() { g.enc.SetMaxDynamicTableSizeLimit(v) })
		}
		after := g.enc.dynTab.maxSize
		dir := "="
		if after < before {
			dir = "-"
		} else if after > before {
			dir = "+"
		}
		sig = append(sig, kind+dir)
		g.tr.Ev("%ssize %s %d L=%d enclimit=%d encmax %d->%d", g.tag, kind, v, g.limit, g.encLimit, before, after)
		if viol != nil {
			return viol
		}
	}
	b.evsig = strings.Join(sig, ",")
	return nil
}

func hpInTable(ents []HeaderField, name, value string) bool {
	for _, e := range ents {
		if e.Name == name && e.Value == value {
			return true
		}
	}
	return false
}

func hpInStatic(name, value string) bool {
	for _, s := range hpRefStatic {
		if s[0] == name && s[1] == value {
			return true
		}
	}
	return false
}

// block generates and encodes one header block. Returns a violation for
// encoder-side failures (panic, WriteField error: C01; sensitive field inserted
// into the encoder's table: C05).
func (g *hpGen) block(withEvents bool) (*hpBlock, *vs.Violation) {
	c := g.c
	b := &hpBlock{}
	if withEvents {
		if v := g.sizeEvents(b); v != nil {
			return b, v
		}
	}
	b.limit = g.limit
	nf := 1 + vs.SizeBiased(c, 19, 3)
	g.buf.Reset()
	var first *vs.Violation
	for i := 0; i < nf; i++ {
		f := g.field()
		p := pairNameValue{f.Name, f.Value}
		enc := g.enc
		inTab := hpInTable(enc.dynTab.table.ents, f.Name, f.Value)
		if f.Sensitive {
			if hpInStatic(f.Name, f.Value) {
				vs.G.Inc("probe.sensitive_static_twin")
			}
			if inTab {
				vs.G.Inc("probe.sensitive_dynamic_twin")
			}
		} else {
			if g.sens[p] {
				vs.G.Inc("probe.nonsensitive_twin_of_sensitive")
			}
			if !inTab && g.inserted[p] {
				vs.G.Inc("probe.evicted_then_rewritten")
			}
			if inTab && enc.dynTab.table.evictCount > 0 {
				vs.G.Inc("probe.dynamic_hit_after_evictions")
			}
			if f.Size() > enc.dynTab.maxSize {
				vs.G.Inc("probe.entry_larger_than_table")
			}
		}
		insBefore := enc.dynTab.table.evictCount + uint64(enc.dynTab.table.len())
		evBefore := enc.dynTab.table.evictCount
		var err error
		if v := vs.Guard("C01", "panic_in_WriteField", func() { err = enc.WriteField(f) }); v != nil {
			g.tr.Ev("%swrite %q=%q sens=%v -> PANIC", g.tag, hpShort(f.Name), hpShort(f.Value), f.Sensitive)
			return b, v
		}
		if err != nil {
			return b, vs.Violf("C01", "encoder_error", "WriteField", "WriteField(%v) = %v", f, err)
		}
		insAfter := enc.dynTab.table.evictCount + uint64(enc.dynTab.table.len())
		if enc.dynTab.table.evictCount > evBefore {
			vs.G.Inc("probe.eviction")
		}
		if insAfter > insBefore {
			g.inserted[p] = true
		}
		if f.Sensitive && insAfter != insBefore && first == nil {
			first = vs.Violf("C05", "sensitive_in_encoder_table", "inserted_on_write",
				"WriteField of sensitive %v inserted %d entr(ies) into the encoder's dynamic table", f, insAfter-insBefore)
		}
		if f.Sensitive {
			g.sens[p] = true
		} else {
			g.nonSens[p] = true
		}
		b.fields = append(b.fields, f)
		b.spans = append(b.spans, g.buf.Len())
		g.lastSize = f.Size()
	}
	b.data = append([]byte(nil), g.buf.Bytes()...)
	b.encTab = append([]HeaderField(nil), g.enc.dynTab.table.ents...)
	b.encMax = g.enc.dynTab.maxSize
	g.tr.Ev("%sblock fields=%d bytes=%d %s", g.tag, len(b.fields), len(b.data), vs.Hex(b.data))
	return b, first
}

func hpShort(s string) string {
	if len(s) <= 24 {
		return s
	}
	return fmt.Sprintf("%s…(%d)", s[:16], len(s))
}

// ---------------------------------------------------------------------------
// decoder sides

type hpSide struct {
	name       string
	d          *Decoder
	emitted    []HeaderField
	insAt      []uint64 // decoder insert counter at each emit
	insStart   uint64   // decoder insert counter at the start of the block
	emitLimit  int      // emission is switched off after this many fields (-1: never)
	err        error    // first error of the current block (Write or Close)
	maxStr     int
	allowed    uint32
	bound      uint32 // C02: what the table may legitimately hold (see limitCheck)
	checkedLen int
	resumes    int
}

func hpNewSide(name string, tableSize uint32, maxStr int) *hpSide {
	s := &hpSide{name: name, emitLimit: -1, maxStr: maxStr, allowed: tableSize, bound: tableSize}
	s.d = NewDecoder(tableSize, func(f HeaderField) {
		s.emitted = append(s.emitted, f)
		s.insAt = append(s.insAt, s.d.dynTab.table.evictCount+uint64(s.d.dynTab.table.len()))
		if s.emitLimit >= 0 && len(s.emitted) >= s.emitLimit {
			s.d.SetEmitEnabled(false)
		}
	})
	if maxStr != 0 {
		s.d.SetMaxStringLength(maxStr)
	}
	return s
}

func (s *hpSide) setAllowed(v uint32) {
	s.d.SetAllowedMaxDynamicTableSize(v)
	s.allowed = v
	if v > s.bound {
		s.bound = v
	}
}

func (s *hpSide) walk() uint64 {
	var n uint64
	for _, e := range s.d.dynTab.table.ents {
		n += uint64(len(e.Name)) + uint64(len(e.Value)) + 32
	}
	return n
}

// limitCheck is C02's "honours its limits" oracle, evaluated after every Write
// and Close. The table content (walked, not the decoder's own counter) must not
// exceed the allowed maximum. Latitude: when the application lowers the allowed
// maximum below the size the peer last set, the old content legitimately stays
// until the peer's next size update; the bound only tightens once the decoder's
// current maximum is within the allowed value.
func (s *hpSide) limitCheck(maxBefore uint32) *vs.Violation {
	dt := &s.d.dynTab
	if dt.maxSize != maxBefore && dt.maxSize > s.allowed {
		return vs.Violf("C02", "table_max_above_allowed", "size_update_accepted",
			"decoder %s: maximum table size went %d -> %d with allowed maximum %d", s.name, maxBefore, dt.maxSize, s.allowed)
	}
	if dt.maxSize <= s.allowed {
		s.bound = s.allowed
	}
	if w := s.walk(); w > uint64(s.bound) {
		return vs.Violf("C02", "table_exceeds_allowed", "walk",
			"decoder %s: dynamic table holds %d bytes in %d entries (counter %d, max %d) with allowed maximum %d", s.name, w, dt.table.len(), dt.size, dt.maxSize, s.bound)
	}
	if s.maxStr != 0 {
		for ; s.checkedLen < len(s.emitted); s.checkedLen++ {
			f := s.emitted[s.checkedLen]
			if len(f.Name) > s.maxStr || len(f.Value) > s.maxStr {
				return vs.Violf("C02", "string_exceeds_max", "emit",
					"decoder %s emitted a field with name %d bytes, value %d bytes; max string length %d", s.name, len(f.Name), len(f.Value), s.maxStr)
			}
		}
	}
	return nil
}

// feed delivers one block as the given Write calls, then Close. The decoder is
// not fed further once it has reported an error (as every user of the package
// does); Close is still called to end the block.
func (s *hpSide) feed(prop string, emitLimit int, chunks [][]byte, limits bool) *vs.Violation {
	s.emitted, s.insAt, s.checkedLen, s.err = s.emitted[:0], s.insAt[:0], 0, nil
	s.emitLimit = emitLimit
	s.insStart = s.d.dynTab.table.evictCount + uint64(s.d.dynTab.table.len())
	s.d.SetEmitEnabled(emitLimit != 0)
	for _, ch := range chunks {
		var err error
		maxBefore := s.d.dynTab.maxSize
		if v := vs.Guard(prop, "panic_in_Write", func() { _, err = s.d.Write(ch) }); v != nil {
			return v
		}
		if s.d.saveBuf.Len() > 0 {
			s.resumes++
		}
		if limits {
			if v := s.limitCheck(maxBefore); v != nil {
				return v
			}
		}
		if err != nil {
			s.err = err
			break
		}
	}
	var cerr error
	maxBefore := s.d.dynTab.maxSize
	if v := vs.Guard(prop, "panic_in_Close", func() { cerr = s.d.Close() }); v != nil {
		return v
	}
	if s.err == nil {
		s.err = cerr
	}
	if limits {
		return s.limitCheck(maxBefore)
	}
	return nil
}

func hpErrClass(err error) string {
	switch {
	case err == nil:
		return "ok"
	case err == ErrStringLength:
		return "strlen"
	case err == ErrInvalidHuffman:
		return "huffman"
	}
	var de DecodingError
	if errors.As(err, &de) {
		if _, ok := de.Err.(InvalidIndexError); ok {
			return "index"
		}
		return "decoding:" + de.Err.Error()
	}
	return "other:" + err.Error()
}

func hpSameFields(a, b []HeaderField) (int, bool) {
	n := min(len(a), len(b))
	for i := 0; i < n; i++ {
		if a[i] != b[i] {
			return i, false
		}
	}
	return n, len(a) == len(b)
}

func hpFieldsStr(fs []HeaderField) string {
	var sb strings.Builder
	for i, f := range fs {
		if i == 12 {
			fmt.Fprintf(&sb, " …(+%d)", len(fs)-i)
			break
		}
		s := ""
		if f.Sensitive {
			s = "!"
		}
		fmt.Fprintf(&sb, " %q=%q%s", hpShort(f.Name), hpShort(f.Value), s)
	}
	return "[" + strings.TrimSpace(sb.String()) + "]"
}

func (r *hpRef) adopt(d *Decoder) {
	r.ents = r.ents[:0:0]
	r.size = 0
	for _, e := range d.dynTab.table.ents {
		r.ents = append(r.ents, hpRefEntry{name: e.Name, value: e.Value})
		r.size += hpEntrySize(e.Name, e.Value)
	}
	r.maxSize = uint64(d.dynTab.maxSize)
}

func (r *hpRef) sameTable(ents []HeaderField) bool {
	if len(r.ents) != len(ents) {
		return false
	}
	for i, e := range ents {
		if r.ents[i].name != e.Name || r.ents[i].value != e.Value {
			return false
		}
	}
	return true
}

func hpSameTable(a, b []HeaderField) bool {
	if len(a) != len(b) {
		return false
	}
	for i := range a {
		if a[i].Name != b[i].Name || a[i].Value != b[i].Value {
			return false
		}
	}
	return true
}

func hpTableStr(ents []HeaderField) string {
	var sb strings.Builder
	for i := len(ents) - 1; i >= 0; i-- {
		if len(ents)-i > 8 {
			fmt.Fprintf(&sb, " …(+%d)", i+1)
			break
		}
		fmt.Fprintf(&sb, " %q=%q", hpShort(ents[i].Name), hpShort(ents[i].Value))
	}
	return fmt.Sprintf("{%d entries, newest first:%s}", len(ents), sb.String())
}

// ---------------------------------------------------------------------------
// the byte stream: fragmentation and in-flight damage

type hpDeliv struct {
	data    []byte
	orig    *hpBlock // undamaged original (nil once damaged or foreign)
	allowed []uint32
	faults  []string
}

func hpSortedCuts(cuts []int, n int) []int {
	var out []int
	for _, c := range cuts {
		if c <= 0 || c >= n {
			continue
		}
		i := len(out)
		for i > 0 && out[i-1] > c {
			i--
		}
		if i > 0 && out[i-1] == c {
			continue
		}
		out = append(out, 0)
		copy(out[i+1:], out[i:])
		out[i] = c
	}
	return out
}

// hpChunks partitions data into consecutive Write calls.
func hpChunks(c vs.Chooser, data []byte, cuts []int, noWhole bool) ([][]byte, string) {
	n := len(data)
	if n == 0 {
		if vs.Bool(c) {
			return [][]byte{{}}, "empty-write"
		}
		return nil, "no-write"
	}
	var at []int
	mode := c.Intn(7)
	if noWhole && mode == 0 {
		mode = 5
	}
	if (mode == 1 || mode == 2) && n > 600 {
		mode = 3
	}
	desc := ""
	switch mode {
	case 0:
		desc = "whole"
	case 1, 2:
		desc = fmt.Sprintf("every%d", mode)
		for p := mode; p < n; p += mode {
			at = append(at, p)
		}
	case 3:
		desc = "random"
		for p := 0; ; {
			p += 1 + vs.SizeBiased(c, n, 2, 8)
			if p >= n {
				break
			}
			at = append(at, p)
		}
	case 4, 6:
		desc = "inside"
		sc := hpSortedCuts(cuts, n)
		if len(sc) == 0 {
			at = append(at, 1+c.Intn(max(n-1, 1)))
		} else {
			k := vs.Range(c, 1, 6)
			var pick []int
			for i := 0; i < k; i++ {
				pick = append(pick, sc[c.Intn(len(sc))])
			}
			at = hpSortedCuts(pick, n)
		}
	default:
		desc = "two"
		if n > 1 {
			at = append(at, 1+c.Intn(n-1))
		}
	}
	at = hpSortedCuts(at, n)
	var out [][]byte
	prev := 0
	for _, p := range at {
		out = append(out, data[prev:p])
		prev = p
	}
	out = append(out, data[prev:])
	if vs.Pct(c, 8) {
		i := c.Intn(len(out) + 1)
		out = append(out, nil)
		copy(out[i+1:], out[i:])
		out[i] = []byte{}
		desc += "+empty"
	}
	return out, fmt.Sprintf("%s/%d", desc, len(out))
}

var hpFaultKinds = []string{"bitflip", "truncate", "byte_delete", "byte_insert", "byte_set", "dup_block", "swap_blocks",
	"drop_block", "concat_blocks", "splice", "random_block", "foreign_block", "int_pad", "near_limit_literal", "huge_size_update"}

// hpDamage applies one in-flight fault to the delivery list and returns the new
// list and the kind that actually fired.
func hpDamage(c vs.Chooser, ds []hpDeliv, alt func() [][]byte, maxStr int) ([]hpDeliv, string, int) {
	kind := hpFaultKinds[c.Intn(len(hpFaultKinds))]
	i := c.Intn(len(ds))
	d := &ds[i]
	mut := func() []byte { d.orig = nil; return append([]byte(nil), d.data...) }
	switch kind {
	case "bitflip":
		if len(d.data) == 0 {
			break
		}
		b := mut()
		p := c.Intn(len(b))
		if vs.Bool(c) {
			p = min(vs.SizeBiased(c, len(b)-1), len(b)-1)
		}
		b[p] ^= 1 << uint(c.Intn(8))
		d.data = b
		return ds, kind, i
	case "truncate":
		if len(d.data) < 2 {
			break
		}
		b := mut()
		d.data = b[:1+c.Intn(len(b)-1)]
		return ds, kind, i
	case "byte_delete":
		if len(d.data) < 2 {
			break
		}
		b := mut()
		p := c.Intn(len(b))
		d.data = append(b[:p], b[p+1:]...)
		return ds, kind, i
	case "byte_insert":
		b := mut()
		p := c.Intn(len(b) + 1)
		v := byte(c.Intn(256))
		b = append(b, 0)
		copy(b[p+1:], b[p:])
		b[p] = v
		d.data = b
		return ds, kind, i
	case "byte_set":
		if len(d.data) == 0 {
			break
		}
		b := mut()
		b[c.Intn(len(b))] = byte(vs.Pick(c, 0xff, 0x00, 0x80, 0x7f, 0x20, 0x3f, 0x40, 0x10, 0x0f, 0xbe, c.Intn(256)))
		d.data = b
		return ds, kind, i
	case "dup_block":
		cp := hpDeliv{data: d.data}
		out := append([]hpDeliv(nil), ds[:i+1]...)
		out = append(out, cp)
		out = append(out, ds[i+1:]...)
		return out, kind, i + 1
	case "swap_blocks":
		if i+1 >= len(ds) {
			break
		}
		ds[i].data, ds[i+1].data = ds[i+1].data, ds[i].data
		ds[i].orig, ds[i+1].orig = nil, nil
		return ds, kind, i
	case "drop_block":
		if i+1 >= len(ds) {
			break
		}
		ds[i+1].allowed = append(append([]uint32(nil), d.allowed...), ds[i+1].allowed...)
		out := append([]hpDeliv(nil), ds[:i]...)
		out = append(out, ds[i+1:]...)
		return out, kind, i
	case "concat_blocks":
		if i+1 >= len(ds) {
			break
		}
		b := mut()
		d.data = append(b, ds[i+1].data...)
		out := append([]hpDeliv(nil), ds[:i+1]...)
		out = append(out, ds[i+2:]...)
		return out, kind, i
	case "splice":
		var other []byte
		if vs.Bool(c) {
			other = ds[c.Intn(len(ds))].data
		} else if a := alt(); len(a) > 0 {
			other = a[c.Intn(len(a))]
		}
		if len(other) == 0 || len(d.data) == 0 {
			break
		}
		b := mut()
		p, q := c.Intn(len(b)+1), c.Intn(len(other)+1)
		d.data = append(b[:p], other[q:]...)
		return ds, kind, i
	case "random_block":
		n := 1 + vs.SizeBiased(c, 40, 2, 6)
		b := make([]byte, n)
		for k := range b {
			b[k] = byte(c.Intn(256))
		}
		b[0] = byte(vs.Pick(c, 0x80, 0xbe, 0xff, 0x40, 0x7f, 0x00, 0x0f, 0x10, 0x1f, 0x20, 0x3f, c.Intn(256))) | byte(c.Intn(2))
		nd := hpDeliv{data: b}
		out := append([]hpDeliv(nil), ds[:i]...)
		out = append(out, nd)
		out = append(out, ds[i:]...)
		return out, kind, i
	case "foreign_block":
		a := alt()
		if len(a) == 0 {
			break
		}
		nd := hpDeliv{data: a[c.Intn(len(a))]}
		out := append([]hpDeliv(nil), ds[:i]...)
		out = append(out, nd)
		out = append(out, ds[i:]...)
		return out, kind, i
	case "near_limit_literal":
		// a literal whose name and value are as long as the decoder's string
		// limit allows (or just below), with length integers carrying up to 8
		// redundant continuation octets: valid per 5.1/5.2, never produced by
		// the package's own encoder, and as large as an acceptable
		// representation can get.
		m := maxStr
		if m == 0 || m > 1000 {
			m = 127
		}
		hpInt7 := func(dst []byte, n, extra int) []byte {
			if n < 127 {
				return append(dst, byte(n)) // cannot be lengthened
			}
			dst = append(dst, 0x7f)
			v := n - 127
			for v >= 128 {
				dst = append(dst, byte(v&0x7f)|0x80)
				v >>= 7
			}
			if extra == 0 {
				return append(dst, byte(v))
			}
			dst = append(dst, byte(v)|0x80)
			for j := 1; j < extra; j++ {
				dst = append(dst, 0x80)
			}
			return append(dst, 0)
		}
		nl := max(m-vs.Pick(c, 0, 0, 1, 2, m/2), 0)
		vl := max(m-vs.Pick(c, 0, 0, 1, 2, m/2), 0)
		b := []byte{byte(vs.Pick(c, 0x00, 0x10, 0x40))}
		b = hpInt7(b, nl, vs.Pick(c, 0, 8, 7, 6, 4, 2))
		for j := 0; j < nl; j++ {
			b = append(b, 'n')
		}
		b = hpInt7(b, vl, vs.Pick(c, 0, 8, 7, 6, 4, 2))
		for j := 0; j < vl; j++ {
			b = append(b, 'v')
		}
		nd := hpDeliv{data: b}
		out := append([]hpDeliv(nil), ds[:i]...)
		out = append(out, nd)
		out = append(out, ds[i:]...)
		return out, kind, i
	case "huge_size_update":
		// a block that starts with a dynamic table size update whose value is far
		// above any allowed maximum but whose low 32 bits are small (k*2^32 + s):
		// it must be refused like any other update above the allowed maximum.
		v := uint64(vs.Pick(c, 1, 2, 3, 1<<10))<<32 + uint64(vs.Pick(c, 0, 1, 31, 32, 100, 4096))
		b := []byte{0x3f}
		v -= 31
		for v >= 128 {
			b = append(b, byte(v&0x7f)|0x80)
			v >>= 7
		}
		b = append(b, byte(v))
		b = append(b, d.data...)
		d.orig = nil
		d.data = b
		return ds, kind, i
	case "int_pad":
		// lengthen one multi-octet integer of the block without changing its
		// value (5.1 allows it): the last octet gets the continuation bit and
		// k-1 octets 0x80 plus a final 0x00 follow.
		r := hpNewRef(1 << 32)
		res := r.decodeBlock(d.data, -1, nil)
		if len(res.intEnds) == 0 {
			break
		}
		b := mut()
		p := res.intEnds[c.Intn(len(res.intEnds))]
		k := vs.Range(c, 1, 4)
		nb := append([]byte(nil), b[:p+1]...)
		nb[p] |= 0x80
		for j := 1; j < k; j++ {
			nb = append(nb, 0x80)
		}
		nb = append(nb, 0x00)
		nb = append(nb, b[p+1:]...)
		d.data = nb
		return ds, kind, i
	}
	// not applicable here: fall back to a random block, which always is
	b := []byte{byte(c.Intn(256)), byte(c.Intn(256))}
	d.orig = nil
	d.data = b
	return ds, "random_block", i
}

// ---------------------------------------------------------------------------
// one run

func hpRun(rt *rapid.T, prop string) {
	c := vs.RapidChooser{T: rt}
	tr := vs.NewTrace()
	cfg := vs.Config()
	fault := cfg == "fault"
	for _, p := range []string{"probe.savebuf_resume", "probe.eviction", "probe.evicted_then_rewritten", "probe.dynamic_index_ref",
		"probe.static_index_ref", "probe.size_update_emitted", "probe.two_size_updates", "probe.entry_larger_than_table",
		"probe.dynamic_hit_after_evictions"} {
		vs.G.Add(p, 0)
	}
	switch {
	case prop == "C05":
		for _, p := range []string{"probe.sensitive_static_twin", "probe.sensitive_dynamic_twin", "probe.nonsensitive_twin_of_sensitive", "probe.sensitive_name_indexed"} {
			vs.G.Add(p, 0)
		}
	case prop == "C02":
		for _, p := range []string{"probe.ref_malformed", "probe.ref_truncated", "probe.ref_dontcare", "probe.ref_ok_after_damage",
			"probe.real_error_ref_ok", "probe.emit_switched_off", "probe.allowed_lowered_pending", "probe.blocks_after_first_error"} {
			vs.G.Add(p, 0)
		}
	case prop == "C03":
		for _, p := range []string{"probe.failing_block_compared", "probe.emit_switched_off"} {
			vs.G.Add(p, 0)
		}
	}

	sensPct, twinPct := 12, 30
	if prop == "C05" {
		sensPct, twinPct = 45, 55
	}
	g := hpNewGen(c, tr, "", sensPct, twinPct)
	nblocks := 1 + vs.SizeBiased(c, vs.Thorough(13, 59), 2, 5)
	var viol *vs.Violation
	var sess []*hpBlock

	// --- generate the session (encoder side)
	for i := 0; i < nblocks && viol == nil; i++ {
		b, v := g.block(vs.Pct(c, 35))
		viol = v
		sess = append(sess, b)
	}
	finish := func(nontrivial bool, decoded int) {
		vs.G.EndRun(tr, nontrivial, 0, func() any {
			return map[string]any{"config": cfg, "blocks": len(sess), "fields_decoded": decoded, "events": tr.Log[:min(len(tr.Log), 30)]}
		})
		if viol != nil && viol.Prop != prop {
			vs.G.Inc("foreign_violation." + viol.Prop + "." + viol.Oracle)
			return
		}
		vs.Report(rt, viol, tr)
	}
	if viol != nil {
		finish(false, 0)
		return
	}

	// --- delivery list, damage
	ds := make([]hpDeliv, len(sess))
	for i, b := range sess {
		ds[i] = hpDeliv{data: b.data, orig: b, allowed: b.allowed}
	}
	// --- decoder configuration
	tableSize := uint32(initialHeaderTableSize)
	maxStr := 0
	if fault {
		tableSize = uint32(vs.Pick(c, 4096, 4096, 4096, 4096, 0, 100, 256, 65536))
		if vs.Bool(c) {
			maxStr = vs.Pick(c, 16, 1, 5, 100, 127, 300, 1000)
		}
	} else if prop == "C03" && vs.Pct(c, 25) {
		maxStr = vs.Pick(c, 16, 1, 5, 100, 300)
	}
	tr.Ev("decoder table=%d maxstr=%d", tableSize, maxStr)
	nfaults := 0
	if fault {
		var altBlocks [][]byte
		altDone := false
		alt := func() [][]byte {
			if altDone {
				return altBlocks
			}
			altDone = true
			ag := hpNewGen(c, tr, "alt ", 10, 20)
			for k := vs.Range(c, 1, 3); k > 0; k-- {
				b, v := ag.block(vs.Pct(c, 30))
				if v != nil {
					break
				}
				altBlocks = append(altBlocks, b.data)
			}
			return altBlocks
		}
		for k := vs.Pick(c, 1, 1, 2, 3, 4); k > 0; k-- {
			var kind string
			var at int
			ds, kind, at = hpDamage(c, ds, alt, maxStr)
			ds[min(at, len(ds)-1)].faults = append(ds[min(at, len(ds)-1)].faults, kind)
			vs.G.Inc("fault." + kind)
			tr.Ev("fault %s at block %d", kind, at)
			nfaults++
		}
	}

	B := hpNewSide("chunked", tableSize, maxStr)
	var A *hpSide
	if prop == "C03" {
		A = hpNewSide("one-write", tableSize, maxStr)
	}
	ref := hpNewRef(uint64(tableSize))
	inSync := true // reference and decoder B agree on the table (C02)
	decoded := 0
	errorsSeen := 0

	for bi := 0; bi < len(ds) && viol == nil; bi++ {
		d := &ds[bi]
		// settings channel, decoder side
		for _, a := range d.allowed {
			if prop == "C02" && a < B.d.dynTab.maxSize {
				vs.G.Inc("probe.allowed_lowered_pending")
			}
			B.setAllowed(a)
			if A != nil {
				A.setAllowed(a)
			}
			ref.allowed = uint64(a)
			tr.Ev("allowed %d", a)
		}
		if fault && vs.Pct(c, 4) {
			a := uint32(vs.Pick(c, 0, 64, 4096, 100, 65536))
			if prop == "C02" && a < B.d.dynTab.maxSize {
				vs.G.Inc("probe.allowed_lowered_pending")
			}
			B.setAllowed(a)
			if A != nil {
				A.setAllowed(a)
			}
			ref.allowed = uint64(a)
			vs.G.Inc("fault.allowed_skew")
			tr.Ev("allowed(skew) %d", a)
		}
		emitLimit := -1
		if (fault || prop == "C03") && vs.Pct(c, 15) {
			emitLimit = vs.Range(c, 0, 5)
			vs.G.Inc("probe.emit_switched_off")
		}

		// reference decoding of what is about to be delivered
		var taint func(int) bool
		if d.orig != nil {
			fs := d.orig.fields
			taint = func(i int) bool { return i < len(fs) && fs[i].Sensitive }
		}
		R := ref.decodeBlock(d.data, emitLimit, taint)
		for _, rep := range R.reprs {
			switch {
			case rep.kind == hpKindIndexed && rep.idx > uint64(len(hpRefStatic)):
				vs.G.Inc("probe.dynamic_index_ref")
			case rep.kind == hpKindIndexed:
				vs.G.Inc("probe.static_index_ref")
			case rep.kind == hpKindSizeUpdate:
				vs.G.Inc("probe.size_update_emitted")
			}
		}
		if len(R.reprs) >= 2 && R.reprs[0].kind == hpKindSizeUpdate && R.reprs[1].kind == hpKindSizeUpdate {
			vs.G.Inc("probe.two_size_updates")
		}

		chunks, cdesc := hpChunks(c, d.data, R.cuts, A != nil)
		tr.Ev("deliver %d bytes=%d %s emitlimit=%d faults=%v %s", bi, len(d.data), cdesc, emitLimit, d.faults, vs.Hex(d.data))

		if A != nil {
			var whole [][]byte
			if len(d.data) > 0 {
				whole = [][]byte{d.data}
			}
			if v := A.feed("C02", emitLimit, whole, false); v != nil {
				viol = v // a panic that does not need splitting is C02's business
				break
			}
		}
		if vs.Pct(c, 20) {
			// Another user of the package in the same process: the exported Huffman
			// helpers (internal/http3's QPACK calls them) share the Decoder's buffer
			// pool. What they leave behind must not show up in decoded fields.
			txt := vs.Pick(c, "stale-text-from-another-caller", "x", strings.Repeat("q", 300))
			enc := AppendHuffmanString(nil, txt)
			for k := vs.Range(c, 1, 3); k > 0; k-- {
				if got, err := HuffmanDecodeToString(enc); err != nil || got != txt {
					viol = vs.Violf(feedPropOf(prop), "huffman_helper", "huffman_helper_wrong", "HuffmanDecodeToString(AppendHuffmanString(%q)) = %q, %v", txt, got, err)
					break
				}
				var sink bytes.Buffer
				HuffmanDecode(&sink, enc)
			}
			vs.G.Inc("probe.huffman_helper_interleaved")
			tr.Ev("huffman helpers called by another user (%d bytes of text)", len(txt))
			if viol != nil {
				break
			}
		}
		r0 := B.resumes
		// a decoder panic on an undamaged block is a round-trip failure (C01);
		// on the split side of C03, where the one-Write side survived, it is C03's.
		feedProp := map[string]string{"C01": "C01", "C05": "C01", "C02": "C02", "C03": "C03"}[prop]
		if viol = B.feed(feedProp, emitLimit, chunks, prop == "C02"); viol != nil {
			break
		}
		vs.G.Add("probe.savebuf_resume", int64(B.resumes-r0))
		decoded += len(B.emitted)
		tr.Ev("-> emitted=%d err=%s table=%d/%d", len(B.emitted), hpErrClass(B.err), B.d.dynTab.table.len(), B.d.dynTab.size)
		if B.err != nil {
			errorsSeen++
		} else if errorsSeen > 0 && prop == "C02" {
			vs.G.Inc("probe.blocks_after_first_error")
		}

		switch prop {
		case "C01", "C05":
			viol = hpCheckClean(prop, g, d.orig, B, &R, ref)
		case "C02":
			viol = hpCheckC02(d, B, &R, ref, &inSync)
		case "C03":
			viol = hpCheckC03(d, A, B)
			ref.adopt(A.d)
		}
	}
	nontrivial := decoded > 0
	if fault {
		nontrivial = nfaults > 0
	}
	finish(nontrivial, decoded)
}

// hpCheckClean: C01 and C05 oracles for an undamaged block delivered to a
// decoder with matching limits.
func hpCheckClean(prop string, g *hpGen, b *hpBlock, B *hpSide, R *hpRefResult, ref *hpRef) *vs.Violation {
	if prop == "C05" {
		// C05's own oracles come first: they look at the encoder's output and at
		// the tables and do not presuppose a successful round trip (which is C01's
		// concern and checked afterwards).
		if v := hpCheckC05(g, b, B, R); v != nil {
			return v
		}
	}
	ev := hpEvClass(b.evsig)
	if B.err != nil {
		lead := 0
		for lead < len(R.reprs) && R.reprs[lead].kind == hpKindSizeUpdate {
			lead++
		}
		return vs.Violf("C01", "decoder_error", fmt.Sprintf("%s|leading_updates=%d|%s", hpErrClass(B.err), lead, ev),
			"decoder returned %v for an undamaged block (%d of %d fields emitted); size events before the block: [%s]; block %s", B.err, len(B.emitted), len(b.fields), b.evsig, vs.Hex(b.data))
	}
	if i, same := hpSameFields(B.emitted, b.fields); !same {
		return vs.Violf("C01", "field_mismatch", ev,
			"block of %d fields decoded to %d fields; first difference at field %d: wrote %s, decoder emitted %s", len(b.fields), len(B.emitted), i, hpFieldsStr(b.fields[min(i, len(b.fields)):]), hpFieldsStr(B.emitted[min(i, len(B.emitted)):]))
	}
	dt := &B.d.dynTab
	if !hpSameTable(dt.table.ents, b.encTab) {
		return vs.Violf("C01", "table_divergence", ev,
			"after the block the decoder's dynamic table %s differs from the encoder's %s (decoder max %d, encoder max %d); size events before the block: [%s]", hpTableStr(dt.table.ents), hpTableStr(b.encTab), dt.maxSize, b.encMax, b.evsig)
	}
	if w := B.walk(); w > uint64(b.limit) {
		return vs.Violf("C01", "table_exceeds_limit", ev,
			"after the block the decoder's dynamic table holds %d bytes, limit %d (decoder max %d, encoder max %d); size events: [%s]", w, b.limit, dt.maxSize, b.encMax, b.evsig)
	}
	// reference decoder vs. the validated real round trip (bookkeeping only)
	if _, same := hpSameFields(R.fields, b.fields); R.status == hpRefOK && same && ref.sameTable(dt.table.ents) {
		vs.G.Inc("refcheck.agree")
	} else {
		vs.G.Inc("refcheck.DISAGREE")
		ref.adopt(B.d)
	}
	return nil
}

// hpEvClass is the normal form of the size events at a block boundary used in
// violation signatures.
func hpEvClass(evsig string) string {
	if evsig == "" {
		return "no_size_event"
	}
	toks := strings.Split(evsig, ",")
	limitLowered, lowered := false, false
	for _, t := range toks {
		switch {
		case strings.HasSuffix(t, "-"):
			lowered = true
			if t[0] == 'a' || t[0] == 'm' {
				limitLowered = true
			}
		case strings.HasSuffix(t, "+"):
			if limitLowered {
				return "limit_lowered_then_size_raised"
			}
			if lowered {
				return "size_lowered_then_raised"
			}
		}
	}
	switch {
	case lowered:
		return "size_lowered"
	case strings.Contains(evsig, "+"):
		return "size_raised"
	}
	return "size_unchanged"
}

var hpKindNames = []string{"indexed", "literal with incremental indexing", "literal without indexing", "literal never indexed", "size update"}

// hpCheckC05: representation level, per field, on the encoder's output (parsed
// by the reference decoder), plus the decoder's view and both tables.
func hpCheckC05(g *hpGen, b *hpBlock, B *hpSide, R *hpRefResult) *vs.Violation {
	k := 0
	for _, rep := range R.reprs {
		if rep.kind == hpKindSizeUpdate {
			continue
		}
		if k >= len(b.fields) {
			break
		}
		f := b.fields[k]
		if rep.end > b.spans[k] || (k > 0 && rep.off < b.spans[k-1]) {
			break // representation does not line up with the field's bytes; C01 territory
		}
		if f.Sensitive {
			if rep.kind != hpKindLitNever {
				return vs.Violf("C05", "sensitive_not_never_indexed", hpKindNames[rep.kind],
					"sensitive field %d %v was encoded as %q (bytes %s), not as a never-indexed literal", k, f, hpKindNames[rep.kind], vs.Hex(b.data[rep.off:rep.end]))
			}
			if rep.idx != 0 {
				vs.G.Inc("probe.sensitive_name_indexed")
			}
		}
		if rep.fromTaint {
			return vs.Violf("C05", "reference_to_sensitive_entry", "indexed",
				"field %d %v was encoded as index %d, which resolves to a table entry inserted by a sensitive field", k, f, rep.idx)
		}
		k++
	}
	// the decoder's view, as far as it decoded the fields that were written
	for k, f := range b.fields {
		if k >= len(B.emitted) || B.emitted[k].Name != f.Name || B.emitted[k].Value != f.Value {
			break
		}
		if !f.Sensitive {
			continue
		}
		if !B.emitted[k].Sensitive {
			return vs.Violf("C05", "sensitive_flag_lost", "decoder", "sensitive field %d %v was reported by the decoder without Sensitive", k, f)
		}
		prev := B.insStart
		if k > 0 {
			prev = B.insAt[k-1]
		}
		if B.insAt[k] != prev {
			return vs.Violf("C05", "sensitive_in_decoder_table", "inserted_on_decode",
				"decoding sensitive field %d %v inserted %d entr(ies) into the decoder's dynamic table", k, f, B.insAt[k]-prev)
		}
	}
	// no table entry may carry a pair that was only ever written as sensitive
	for side, ents := range [][]HeaderField{b.encTab, B.d.dynTab.table.ents} {
		for _, e := range ents {
			p := pairNameValue{e.Name, e.Value}
			if g.sens[p] && !g.nonSens[p] {
				return vs.Violf("C05", []string{"sensitive_in_encoder_table", "sensitive_in_decoder_table"}[side], "entry_present",
					"after the block the %s dynamic table contains %q=%q, which was only ever written as a sensitive field", []string{"encoder's", "decoder's"}[side], hpShort(e.Name), hpShort(e.Value))
			}
		}
	}
	return nil
}

// hpCheckC02 compares decoder B with the reference classification of the block.
func hpCheckC02(d *hpDeliv, B *hpSide, R *hpRefResult, ref *hpRef, inSync *bool) *vs.Violation {
	switch R.status {
	case hpRefMalformed:
		vs.G.Inc("probe.ref_malformed")
	case hpRefTruncated:
		vs.G.Inc("probe.ref_truncated")
	case hpRefDontCare:
		vs.G.Inc("probe.ref_dontcare")
	case hpRefOK:
		if d.orig == nil {
			vs.G.Inc("probe.ref_ok_after_damage")
		}
	}
	defer func() {
		// whatever happened, continue from the decoder's actual state: nothing is
		// claimed about the table after a failed or don't-care block.
		if !*inSync || R.status != hpRefOK || B.err != nil {
			ref.adopt(B.d)
			*inSync = true
		}
	}()
	// (a) nothing fabricated: the emitted fields are a prefix of the valid prefix
	i, _ := hpSameFields(B.emitted, R.fields)
	if i < min(len(B.emitted), len(R.fields)) {
		return vs.Violf("C02", "fabricated_field", "differs",
			"emitted field %d is %s; RFC 7541 decoding of the block gives %s (block %s)", i, hpFieldsStr(B.emitted[i:i+1]), hpFieldsStr(R.fields[i:i+1]), vs.Hex(d.data))
	}
	if len(B.emitted) > len(R.fields) && R.status != hpRefDontCare {
		return vs.Violf("C02", "fabricated_field", "beyond_valid_prefix",
			"decoder emitted %d fields, the valid prefix of the block has %d (reference: %s); extra: %s (block %s)", len(B.emitted), len(R.fields), hpRefStatusStr(R), hpFieldsStr(B.emitted[len(R.fields):]), vs.Hex(d.data))
	}
	// (b) malformed input is reported by Close at the latest
	if (R.status == hpRefMalformed || R.status == hpRefTruncated) && B.err == nil {
		return vs.Violf("C02", "malformed_accepted", hpRefReasonClass(R.reason),
			"block is malformed (%s) but Write and Close returned no error; emitted %s (block %s)", hpRefStatusStr(R), hpFieldsStr(B.emitted), vs.Hex(d.data))
	}
	if R.status == hpRefOK && B.err != nil {
		vs.G.Inc("probe.real_error_ref_ok") // local limits or stricter-than-RFC rejection: not a C02 matter
		if B.err != ErrStringLength {
			vs.G.Inc("info.real_rejects_valid." + hpRefReasonClass(hpErrClass(B.err)))
		}
	}
	// (c) accepted by both: same fields, same table
	if R.status == hpRefOK && B.err == nil {
		if len(B.emitted) != len(R.fields) {
			return vs.Violf("C02", "accepted_mismatch", "missing_fields",
				"block accepted, but only %d of its %d fields were emitted: got %s want %s (block %s)", len(B.emitted), len(R.fields), hpFieldsStr(B.emitted), hpFieldsStr(R.fields), vs.Hex(d.data))
		}
		if !ref.sameTable(B.d.dynTab.table.ents) {
			var want []HeaderField
			for _, e := range ref.ents {
				want = append(want, HeaderField{Name: e.name, Value: e.value})
			}
			return vs.Violf("C02", "accepted_table_mismatch", "table",
				"block accepted, but the dynamic table is %s; RFC 7541 processing gives %s (block %s)", hpTableStr(B.d.dynTab.table.ents), hpTableStr(want), vs.Hex(d.data))
		}
	}
	return nil
}

func hpRefStatusStr(R *hpRefResult) string {
	switch R.status {
	case hpRefOK:
		return "valid"
	case hpRefMalformed:
		return "malformed: " + R.reason
	case hpRefTruncated:
		return "truncated: " + R.reason
	}
	return "don't care: " + R.reason
}

// hpRefReasonClass strips numbers from a reason so that it can serve as a sig.
func hpRefReasonClass(s string) string {
	var sb strings.Builder
	for _, r := range s {
		if r >= '0' && r <= '9' {
			continue
		}
		sb.WriteRune(r)
	}
	return strings.Join(strings.Fields(sb.String()), "_")
}

// hpCheckC03 compares the one-Write decoder A with the chunked decoder B.
func hpCheckC03(d *hpDeliv, A, B *hpSide) *vs.Violation {
	if A.err != nil || B.err != nil {
		vs.G.Inc("probe.failing_block_compared")
	}
	if (A.err == nil) != (B.err == nil) {
		sig := hpErrClass(A.err) + "/" + hpErrClass(B.err)
		if A.maxStr != 0 && len(d.data) > 2*(A.maxStr+8) {
			sig += "|block_longer_than_2x(maxstr+8)"
		}
		return vs.Violf("C03", "outcome_differs", sig,
			"one Write: %v; split into several Writes: %v (block %s)", A.err, B.err, vs.Hex(d.data))
	}
	if hpErrClass(A.err) != hpErrClass(B.err) {
		vs.G.Inc("info.error_class_differs")
	}
	if i, same := hpSameFields(A.emitted, B.emitted); !same {
		return vs.Violf("C03", "emit_differs", "fields",
			"one Write emitted %d fields, split delivery %d; first difference at %d: %s vs %s (block %s)", len(A.emitted), len(B.emitted), i, hpFieldsStr(A.emitted[min(i, len(A.emitted)):]), hpFieldsStr(B.emitted[min(i, len(B.emitted)):]), vs.Hex(d.data))
	}
	a, b := &A.d.dynTab, &B.d.dynTab
	if !hpSameTable(a.table.ents, b.table.ents) || a.size != b.size || a.maxSize != b.maxSize {
		return vs.Violf("C03", "table_differs", "table",
			"after the block: one Write table %s size=%d max=%d; split delivery table %s size=%d max=%d (block %s)", hpTableStr(a.table.ents), a.size, a.maxSize, hpTableStr(b.table.ents), b.size, b.maxSize, vs.Hex(d.data))
	}
	return nil
}

func hpCheck(t *testing.T, prop string) {
	hpRefInit()
	if hpRefInitErr != "" {
		t.Fatalf("VERIF-HARNESS reference decoder self-test failed: %s", hpRefInitErr)
	}
	vs.Check(t, func(rt *rapid.T) { hpRun(rt, prop) })
}

func TestVerif_C01(t *testing.T) { hpCheck(t, "C01") }
func TestVerif_C02(t *testing.T) { hpCheck(t, "C02") }
func TestVerif_C03(t *testing.T) { hpCheck(t, "C03") }
func TestVerif_C05(t *testing.T) { hpCheck(t, "C05") }

func feedPropOf(prop string) string {
	return map[string]string{"C01": "C01", "C05": "C01", "C02": "C02", "C03": "C03"}[prop]
}
