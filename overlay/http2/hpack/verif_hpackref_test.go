// Engine hpacklink, part 1: an independent RFC 7541 reference decoder used as
// the oracle of C02/C05 (and to find "interesting" split offsets for C03).
//
// Written from the RFC text: section 2.3 (tables, index address space), 4
// (dynamic table management), 5.1 (integers), 5.2 (strings), 6 (binary format),
// Appendix A (static table) and Appendix B (Huffman code). It shares no code and
// no tables with package hpack: the static table and the Huffman code lengths
// below are this file's own copy of the appendices; the Huffman codes themselves
// are re-derived from the lengths (the Appendix B code is canonical: codes are
// assigned in order of length, then symbol) and checked with the Kraft sum and
// the Appendix C example encodings (hpRefSelfTest).
//
// Where RFC 7541 leaves a decoder latitude, the reference does not decide: it
// stops with status hpRefDontCare and the harness adopts whatever the decoder
// under test did. The latitude points are
//   - a dynamic table size update after the first field representation of a
//     block (4.2 puts the obligation on the encoder; it does not say a decoder
//     must reject);
//   - an integer with more than 5 continuation octets (5.1: "encodings that
//     exceed implementation limits - in value or octet length - MUST be treated
//     as decoding errors": the limit is the implementation's);
//   - an invalid Huffman string in a literal that is neither emitted nor indexed
//     (emission switched off by the application: SetEmitEnabled(false) documents
//     that such strings are not decompressed).

package hpack

import (
	"fmt"
)

// --- Appendix A -------------------------------------------------------------

var hpRefStatic = [...][2]string{
	{":authority", ""},
	{":method", "GET"},
	{":method", "POST"},
	{":path", "/"},
	{":path", "/index.html"},
	{":scheme", "http"},
	{":scheme", "https"},
	{":status", "200"},
	{":status", "204"},
	{":status", "206"},
	{":status", "304"},
	{":status", "400"},
	{":status", "404"},
	{":status", "500"},
	{"accept-charset", ""},
	{"accept-encoding", "gzip, deflate"},
	{"accept-language", ""},
	{"accept-ranges", ""},
	{"accept", ""},
	{"access-control-allow-origin", ""},
	{"age", ""},
	{"allow", ""},
	{"authorization", ""},
	{"cache-control", ""},
	{"content-disposition", ""},
	{"content-encoding", ""},
	{"content-language", ""},
	{"content-length", ""},
	{"content-location", ""},
	{"content-range", ""},
	{"content-type", ""},
	{"cookie", ""},
	{"date", ""},
	{"etag", ""},
	{"expect", ""},
	{"expires", ""},
	{"from", ""},
	{"host", ""},
	{"if-match", ""},
	{"if-modified-since", ""},
	{"if-none-match", ""},
	{"if-range", ""},
	{"if-unmodified-since", ""},
	{"last-modified", ""},
	{"link", ""},
	{"location", ""},
	{"max-forwards", ""},
	{"proxy-authenticate", ""},
	{"proxy-authorization", ""},
	{"range", ""},
	{"referer", ""},
	{"refresh", ""},
	{"retry-after", ""},
	{"server", ""},
	{"set-cookie", ""},
	{"strict-transport-security", ""},
	{"transfer-encoding", ""},
	{"user-agent", ""},
	{"vary", ""},
	{"via", ""},
	{"www-authenticate", ""},
}

// --- Appendix B (code lengths in bits per symbol 0..255; EOS = 30) -------------

var hpRefHuffLen = [257]uint8{
	// 0x00
	13, 23, 28, 28, 28, 28, 28, 28, 28, 24, 30, 28, 28, 30, 28, 28,
	// 0x10
	28, 28, 28, 28, 28, 28, 30, 28, 28, 28, 28, 28, 28, 28, 28, 28,
	// ' ' ! " # $ % & ' ( ) * + , - . /
	6, 10, 10, 12, 13, 6, 8, 11, 10, 10, 8, 11, 8, 6, 6, 6,
	// 0 1 2 3 4 5 6 7 8 9 : ; < = > ?
	5, 5, 5, 6, 6, 6, 6, 6, 6, 6, 7, 8, 15, 6, 12, 10,
	// @ A B C D E F G H I J K L M N O
	13, 6, 7, 7, 7, 7, 7, 7, 7, 7, 7, 7, 7, 7, 7, 7,
	// P Q R S T U V W X Y Z [ \ ] ^ _
	7, 7, 7, 7, 7, 7, 7, 7, 8, 7, 8, 13, 19, 13, 14, 6,
	// ` a b c d e f g h i j k l m n o
	15, 5, 6, 5, 6, 5, 6, 6, 6, 5, 7, 7, 6, 6, 6, 5,
	// p q r s t u v w x y z { | } ~ DEL
	6, 7, 6, 5, 5, 6, 7, 7, 7, 7, 7, 15, 11, 14, 13, 28,
	// 0x80
	20, 22, 20, 20, 22, 22, 22, 23, 22, 23, 23, 23, 23, 23, 24, 23,
	// 0x90
	24, 24, 22, 23, 24, 23, 23, 23, 23, 21, 22, 23, 22, 23, 23, 24,
	// 0xa0
	22, 21, 20, 22, 22, 23, 23, 21, 23, 22, 22, 24, 21, 22, 23, 23,
	// 0xb0
	21, 21, 22, 21, 23, 22, 23, 23, 20, 22, 22, 22, 23, 22, 22, 23,
	// 0xc0
	26, 26, 20, 19, 22, 23, 22, 25, 26, 26, 26, 27, 27, 26, 24, 25,
	// 0xd0
	19, 21, 26, 27, 27, 26, 27, 24, 21, 21, 26, 26, 28, 27, 27, 27,
	// 0xe0
	20, 24, 20, 21, 22, 21, 21, 23, 22, 22, 25, 25, 24, 24, 26, 23,
	// 0xf0
	26, 27, 26, 26, 27, 27, 27, 27, 27, 28, 27, 27, 27, 27, 27, 26,
	// EOS
	30,
}

// canonical decoding tables, built once by hpRefInit.
var (
	hpRefFirstCode [32]uint32 // first code of each length
	hpRefCount     [32]uint32 // number of codes of each length
	hpRefOffset    [32]int    // index into hpRefSyms of the first symbol of each length
	hpRefSyms      [257]int   // symbols sorted by (length, symbol)
	hpRefInitErr   string
	hpRefInitDone  bool
)

func hpRefInit() {
	if hpRefInitDone {
		return
	}
	hpRefInitDone = true
	if len(hpRefStatic) != 61 {
		hpRefInitErr = "static table does not have 61 entries"
		return
	}
	// Kraft sum must be exactly 1 (complete prefix code), in units of 2^-30.
	var kraft uint64
	for _, l := range hpRefHuffLen {
		if l < 5 || l > 30 {
			hpRefInitErr = "huffman length out of range"
			return
		}
		hpRefCount[l]++
		kraft += 1 << (30 - l)
	}
	if kraft != 1<<30 {
		hpRefInitErr = fmt.Sprintf("huffman lengths are not a complete prefix code (kraft %d)", kraft)
		return
	}
	code := uint32(0)
	off := 0
	for l := 1; l <= 30; l++ {
		code <<= 1
		hpRefFirstCode[l] = code
		hpRefOffset[l] = off
		for s := 0; s <= 256; s++ {
			if int(hpRefHuffLen[s]) == l {
				hpRefSyms[off] = s
				off++
			}
		}
		code += hpRefCount[l]
	}
	// EOS must be the all-ones 30-bit code (5.2: "the most significant bits of
	// the code corresponding to the EOS symbol" are the padding).
	if hpRefSyms[256] != 256 || hpRefFirstCode[30]+hpRefCount[30]-1 != 1<<30-1 {
		hpRefInitErr = "EOS is not the all-ones code"
		return
	}
	hpRefInitErr = hpRefSelfTest()
}

// hpRefHuffDecode decodes a Huffman string literal per 5.2. ok=false when the
// string contains EOS, ends in padding longer than 7 bits, or in padding that is
// not all ones.
func hpRefHuffDecode(b []byte) (string, bool) {
	out := make([]byte, 0, len(b)*8/5+1)
	var code uint32
	n := 0
	for _, by := range b {
		for bit := 7; bit >= 0; bit-- {
			code = code<<1 | uint32(by>>uint(bit))&1
			n++
			if n < 5 {
				continue
			}
			if d := code - hpRefFirstCode[n]; code >= hpRefFirstCode[n] && d < hpRefCount[n] {
				sym := hpRefSyms[hpRefOffset[n]+int(d)]
				if sym == 256 {
					return "", false // EOS inside the string
				}
				out = append(out, byte(sym))
				code, n = 0, 0
			} else if n == 30 {
				return "", false // cannot happen for a complete code; defensive
			}
		}
	}
	if n > 7 {
		return "", false
	}
	if code != 1<<uint(n)-1 {
		return "", false
	}
	return string(out), true
}

// --- decoder state ------------------------------------------------------------

type hpRefEntry struct {
	name, value string
	taint       bool // inserted by a representation the harness marked sensitive
}

// hpRef is the decoding context of section 2.2: the dynamic table (newest entry
// last in ents), its size, its current maximum and the protocol limit.
type hpRef struct {
	ents    []hpRefEntry
	size    uint64
	maxSize uint64
	allowed uint64
}

func hpNewRef(maxSize uint64) *hpRef { return &hpRef{maxSize: maxSize, allowed: maxSize} }

func hpEntrySize(name, value string) uint64 { return uint64(len(name)) + uint64(len(value)) + 32 }

func (r *hpRef) evictTo(limit uint64) {
	n := 0
	for r.size > limit && n < len(r.ents) {
		r.size -= hpEntrySize(r.ents[n].name, r.ents[n].value)
		n++
	}
	if n == 0 {
		return
	}
	r.ents = append(r.ents[:0:0], r.ents[n:]...)
}

// add implements 4.4.
func (r *hpRef) add(e hpRefEntry) {
	sz := hpEntrySize(e.name, e.value)
	if sz > r.maxSize {
		r.ents, r.size = nil, 0
		return
	}
	r.evictTo(r.maxSize - sz)
	r.ents = append(r.ents, e)
	r.size += sz
}

// at resolves an index of the single address space of 2.3.3.
func (r *hpRef) at(i uint64) (hpRefEntry, bool) {
	if i == 0 {
		return hpRefEntry{}, false
	}
	if i <= uint64(len(hpRefStatic)) {
		s := hpRefStatic[i-1]
		return hpRefEntry{name: s[0], value: s[1]}, true
	}
	k := i - uint64(len(hpRefStatic)) // 1 = newest
	if k > uint64(len(r.ents)) {
		return hpRefEntry{}, false
	}
	return r.ents[uint64(len(r.ents))-k], true
}

// --- block parsing --------------------------------------------------------------

const (
	hpRefOK        = iota // whole block decoded
	hpRefMalformed        // a decoding error per RFC 7541 at reprs[len(reprs)] (not included)
	hpRefTruncated        // block ends inside a representation
	hpRefDontCare         // latitude point reached; nothing is claimed from there on
)

const (
	hpKindIndexed = iota
	hpKindLitInc
	hpKindLitNoIdx
	hpKindLitNever
	hpKindSizeUpdate
)

type hpRefRepr struct {
	kind      int
	off, end  int
	idx       uint64 // index (indexed) or name index (literals, 0 = literal name)
	name      string
	value     string
	size      uint64 // size update
	fromTaint bool   // indexed representation resolving to a tainted entry
	emitted   bool
}

type hpRefResult struct {
	status  int
	reason  string
	reprs   []hpRefRepr
	fields  []HeaderField // what a decoder must emit, in order (emission switch honoured)
	cuts    []int         // offsets inside integers / strings worth splitting at
	intEnds []int         // offsets of the last octet of every multi-octet integer
}

type hpIntStatus int

const (
	hpIntOK hpIntStatus = iota
	hpIntMore
	hpIntLong
)

// hpRefInt reads an integer with an n-bit prefix (5.1).
func hpRefInt(n uint, b []byte, pos int, res *hpRefResult) (v uint64, next int, st hpIntStatus) {
	if pos >= len(b) {
		return 0, pos, hpIntMore
	}
	mask := uint64(1)<<n - 1
	v = uint64(b[pos]) & mask
	pos++
	if v < mask {
		return v, pos, hpIntOK
	}
	shift := uint(0)
	for k := 0; ; k++ {
		if pos >= len(b) {
			return 0, pos, hpIntMore
		}
		if k >= 5 {
			return 0, pos, hpIntLong
		}
		res.cuts = append(res.cuts, pos)
		c := b[pos]
		pos++
		v += uint64(c&0x7f) << shift
		shift += 7
		if c&0x80 == 0 {
			res.intEnds = append(res.intEnds, pos-1)
			return v, pos, hpIntOK
		}
	}
}

type hpStrStatus int

const (
	hpStrOK hpStrStatus = iota
	hpStrMore
	hpStrLong
	hpStrBadHuffman
)

// hpRefStr reads a string literal (5.2).
func hpRefStr(b []byte, pos int, res *hpRefResult) (s string, next int, st hpStrStatus) {
	if pos >= len(b) {
		return "", pos, hpStrMore
	}
	huff := b[pos]&0x80 != 0
	l, p, ist := hpRefInt(7, b, pos, res)
	switch ist {
	case hpIntMore:
		return "", p, hpStrMore
	case hpIntLong:
		return "", p, hpStrLong
	}
	if l > uint64(len(b)-p) {
		if p < len(b) {
			res.cuts = append(res.cuts, p)
		}
		return "", p, hpStrMore
	}
	end := p + int(l)
	if l > 0 {
		res.cuts = append(res.cuts, p, p+int(l)/2, end-1)
	}
	raw := b[p:end]
	if !huff {
		return string(raw), end, hpStrOK
	}
	dec, ok := hpRefHuffDecode(raw)
	if !ok {
		return "", end, hpStrBadHuffman
	}
	return dec, end, hpStrOK
}

// decodeBlock decodes one complete header block against r's state, which it
// updates. emitLimit < 0: every field is emitted; otherwise emission is switched
// off by the application after emitLimit fields of this block have been emitted.
// taint(i) (may be nil) says whether the i-th field representation of the block
// was produced for a sensitive field (C05 bookkeeping only).
func (r *hpRef) decodeBlock(b []byte, emitLimit int, taint func(i int) bool) hpRefResult {
	var res hpRefResult
	pos := 0
	seenField := false
	nfield := 0
	stop := func(status int, reason string) hpRefResult {
		res.status, res.reason = status, reason
		return res
	}
	for pos < len(b) {
		start := pos
		c := b[pos]
		emitOn := emitLimit < 0 || len(res.fields) < emitLimit
		rep := hpRefRepr{off: start}
		switch {
		case c&0x80 != 0: // 6.1 indexed header field
			idx, p, st := hpRefInt(7, b, pos, &res)
			if st == hpIntMore {
				return stop(hpRefTruncated, "indexed: integer incomplete")
			}
			if st == hpIntLong {
				return stop(hpRefDontCare, "indexed: long integer")
			}
			e, ok := r.at(idx)
			if !ok {
				return stop(hpRefMalformed, fmt.Sprintf("indexed: index %d not in table (dynamic entries %d)", idx, len(r.ents)))
			}
			rep.kind, rep.idx, rep.name, rep.value, rep.fromTaint = hpKindIndexed, idx, e.name, e.value, e.taint
			pos = p
		case c&0xe0 == 0x20: // 6.3 dynamic table size update
			v, p, st := hpRefInt(5, b, pos, &res)
			if st == hpIntMore {
				return stop(hpRefTruncated, "size update: integer incomplete")
			}
			if st == hpIntLong {
				return stop(hpRefDontCare, "size update: long integer")
			}
			if v > r.allowed {
				return stop(hpRefMalformed, fmt.Sprintf("size update %d above the limit %d", v, r.allowed))
			}
			if seenField {
				return stop(hpRefDontCare, "size update after a field representation")
			}
			r.maxSize = v
			r.evictTo(v)
			rep.kind, rep.size = hpKindSizeUpdate, v
			pos = p
		default: // 6.2 literal header field
			var n uint
			switch {
			case c&0xc0 == 0x40:
				rep.kind, n = hpKindLitInc, 6
			case c&0xf0 == 0x10:
				rep.kind, n = hpKindLitNever, 4
			default: // 0000xxxx
				rep.kind, n = hpKindLitNoIdx, 4
			}
			idx, p, st := hpRefInt(n, b, pos, &res)
			if st == hpIntMore {
				return stop(hpRefTruncated, "literal: name index incomplete")
			}
			if st == hpIntLong {
				return stop(hpRefDontCare, "literal: long integer")
			}
			needStrings := emitOn || rep.kind == hpKindLitInc
			rep.idx = idx
			if idx != 0 {
				e, ok := r.at(idx)
				if !ok {
					return stop(hpRefMalformed, fmt.Sprintf("literal: name index %d not in table (dynamic entries %d)", idx, len(r.ents)))
				}
				rep.name = e.name
			} else {
				if p < len(b) {
					res.cuts = append(res.cuts, p)
				}
				s, p2, sst := hpRefStr(b, p, &res)
				switch sst {
				case hpStrMore:
					return stop(hpRefTruncated, "literal: name incomplete")
				case hpStrLong:
					return stop(hpRefDontCare, "literal: long integer in name length")
				case hpStrBadHuffman:
					if !needStrings {
						return stop(hpRefDontCare, "invalid Huffman name in a literal that is neither emitted nor indexed")
					}
					return stop(hpRefMalformed, "literal: invalid Huffman name")
				}
				rep.name, p = s, p2
			}
			if p < len(b) {
				res.cuts = append(res.cuts, p)
			}
			s, p2, sst := hpRefStr(b, p, &res)
			switch sst {
			case hpStrMore:
				return stop(hpRefTruncated, "literal: value incomplete")
			case hpStrLong:
				return stop(hpRefDontCare, "literal: long integer in value length")
			case hpStrBadHuffman:
				if !needStrings {
					return stop(hpRefDontCare, "invalid Huffman value in a literal that is neither emitted nor indexed")
				}
				return stop(hpRefMalformed, "literal: invalid Huffman value")
			}
			rep.value = s
			pos = p2
			if rep.kind == hpKindLitInc {
				r.add(hpRefEntry{name: rep.name, value: rep.value, taint: taint != nil && taint(nfield)})
			}
		}
		rep.end = pos
		if rep.kind != hpKindSizeUpdate {
			seenField = true
			nfield++
			if emitOn {
				rep.emitted = true
				res.fields = append(res.fields, HeaderField{Name: rep.name, Value: rep.value, Sensitive: rep.kind == hpKindLitNever})
			}
		}
		if rep.end-rep.off > 1 {
			res.cuts = append(res.cuts, rep.off+1)
		}
		res.reprs = append(res.reprs, rep)
	}
	res.status = hpRefOK
	return res
}

// --- self test against RFC 7541 Appendix C ---------------------------------------

func hpRefUnhex(s string) []byte {
	var out []byte
	var hi int = -1
	for i := 0; i < len(s); i++ {
		c := s[i]
		var v int
		switch {
		case c >= '0' && c <= '9':
			v = int(c - '0')
		case c >= 'a' && c <= 'f':
			v = int(c-'a') + 10
		default:
			continue
		}
		if hi < 0 {
			hi = v
		} else {
			out = append(out, byte(hi<<4|v))
			hi = -1
		}
	}
	return out
}

func hpRefSelfTest() string {
	type step struct {
		hex    string
		fields [][2]string
		size   uint64
	}
	run := func(name string, max uint64, steps []step) string {
		r := hpNewRef(max)
		for i, st := range steps {
			res := r.decodeBlock(hpRefUnhex(st.hex), -1, nil)
			if res.status != hpRefOK {
				return fmt.Sprintf("%s step %d: status %d (%s)", name, i, res.status, res.reason)
			}
			if len(res.fields) != len(st.fields) {
				return fmt.Sprintf("%s step %d: %d fields, want %d", name, i, len(res.fields), len(st.fields))
			}
			for k, f := range res.fields {
				if f.Name != st.fields[k][0] || f.Value != st.fields[k][1] {
					return fmt.Sprintf("%s step %d field %d: %q=%q", name, i, k, f.Name, f.Value)
				}
			}
			if r.size != st.size {
				return fmt.Sprintf("%s step %d: table size %d, want %d", name, i, r.size, st.size)
			}
		}
		return ""
	}
	// C.4 request examples with Huffman coding
	if e := run("C.4", 4096, []step{
		{"8286 8441 8cf1 e3c2 e5f2 3a6b a0ab 90f4 ff", [][2]string{{":method", "GET"}, {":scheme", "http"}, {":path", "/"}, {":authority", "www.example.com"}}, 57},
		{"8286 84be 5886 a8eb 1064 9cbf", [][2]string{{":method", "GET"}, {":scheme", "http"}, {":path", "/"}, {":authority", "www.example.com"}, {"cache-control", "no-cache"}}, 110},
		{"8287 85bf 4088 25a8 49e9 5ba9 7d7f 8925 a849 e95b b8e8 b4bf", [][2]string{{":method", "GET"}, {":scheme", "https"}, {":path", "/index.html"}, {":authority", "www.example.com"}, {"custom-key", "custom-value"}}, 164},
	}); e != "" {
		return e
	}
	// C.6 response examples with Huffman coding, table size 256 (evictions)
	if e := run("C.6", 256, []step{
		{"4882 6402 5885 aec3 771a 4b61 96d0 7abe 9410 54d4 44a8 2005 9504 0b81 66e0 82a6 2d1b ff6e 919d 29ad 1718 63c7 8f0b 97c8 e9ae 82ae 43d3",
			[][2]string{{":status", "302"}, {"cache-control", "private"}, {"date", "Mon, 21 Oct 2013 20:13:21 GMT"}, {"location", "https://www.example.com"}}, 222},
		{"4883 640e ffc1 c0bf", [][2]string{{":status", "307"}, {"cache-control", "private"}, {"date", "Mon, 21 Oct 2013 20:13:21 GMT"}, {"location", "https://www.example.com"}}, 222},
		{"88c1 6196 d07a be94 1054 d444 a820 0595 040b 8166 e084 a62d 1bff c05a 839b d9ab 77ad 94e7 821d d7f2 e6c7 b335 dfdf cd5b 3960 d5af 2708 7f36 72c1 ab27 0fb5 291f 9587 3160 65c0 03ed 4ee5 b106 3d50 07",
			[][2]string{{":status", "200"}, {"cache-control", "private"}, {"date", "Mon, 21 Oct 2013 20:13:22 GMT"}, {"location", "https://www.example.com"}, {"content-encoding", "gzip"}, {"set-cookie", "foo=ASDJKHQKBZXOQWEOPIUAXQWEOIU; max-age=3600; version=1"}}, 215},
	}); e != "" {
		return e
	}
	// C.2.3 literal never indexed; C.2.4 indexed; 6.3 size update; error cases
	r := hpNewRef(4096)
	res := r.decodeBlock(hpRefUnhex("1008 7061 7373 776f 7264 0673 6563 7265 74"), -1, nil)
	if res.status != hpRefOK || len(res.fields) != 1 || !res.fields[0].Sensitive || res.fields[0].Name != "password" || res.fields[0].Value != "secret" || len(r.ents) != 0 {
		return "C.2.3 never-indexed literal"
	}
	for _, bad := range []struct {
		hex  string
		want int
	}{
		{"80", hpRefMalformed},       // index 0
		{"be", hpRefMalformed},       // index 62 with an empty dynamic table
		{"3fe21f", hpRefMalformed},   // size update 4097 > 4096
		{"0081ff00", hpRefMalformed}, // name: Huffman padding of 8 bits... (one byte 0xff = 8 ones)
		{"008100 00", hpRefMalformed},
		{"0085ffffffff fc00", hpRefMalformed},    // EOS in string
		{"0003 6162", hpRefTruncated},            // name cut short
		{"82 20", hpRefDontCare},                 // size update after a field
		{"ff80808080808000", hpRefDontCare},      // 7 continuation octets
		{"3f e1 1f 20 3f e1 1f 82", hpRefOK},     // three leading size updates
		{"0f 2f 00", hpRefMalformed},             // literal, name index 62 (15+47)
		{"0f 2e 00", hpRefOK},                    // literal, name index 61
		{"40 00 00 be", hpRefOK},                 // empty name/value indexed, then referenced
		{"00 00 80", hpRefOK},                    // empty Huffman value
		{"00 00 81 1f", hpRefOK},                 // 'a' (00011) + 3 bits of padding
		{"00 00 81 1e", hpRefMalformed},          // padding not all ones
		{"00 00 82 1f ff", hpRefMalformed},       // 'a' + 11 bits of padding
		{"00 00 83 ff ff ff", hpRefMalformed},    // 24 ones: incomplete code longer than 7 bits
		{"00 00 84 ff ff ff ff", hpRefMalformed}, // contains EOS (30 ones) + 2
	} {
		r := hpNewRef(4096)
		if got := r.decodeBlock(hpRefUnhex(bad.hex), -1, nil); got.status != bad.want {
			return fmt.Sprintf("case %q: status %d (%s), want %d", bad.hex, got.status, got.reason, bad.want)
		}
	}
	return ""
}
