// Engine h2srv, byzantine configuration (C16): the real server is fed an
// arbitrary client byte stream (a generated session damaged in flight, floods,
// garbage) in scheduler-chosen chunks, with stalled reads, handler scripts and
// configured timeouts.

//go:build !(go1.27 && !http2legacy)

package http2

import (
	"bytes"
	"fmt"
	"io"
	"log"
	"net/http"
	"strconv"
	"testing"
	"time"

	"golang.org/x/net/http2/hpack"
	vs "golang.org/x/net/internal/verifsim"
	"pgregory.net/rapid"
)

type hbPlan struct {
	base        *hsPlan
	idle        time.Duration
	readIdle    time.Duration
	pingTO      time.Duration
	writeByteTO time.Duration
	h1Read      time.Duration
	h1Write     time.Duration
	stall       bool
	bound       int
	floodBig    bool
	closeAtEnd  bool
	gracefulAt  int // >= 0: the server begins a graceful shutdown at this scheduler step
}

// hbSession renders the plan's client script into bytes without looking at what
// the server answers (a byzantine client does not care about windows or limits).
func hbSession(p *hsPlan, c vs.Chooser) []byte {
	var out bytes.Buffer
	fr := NewFramer(&out, nil)
	fr.AllowIllegalWrites = true
	r := &hsRun{p: p}
	r.henc = hpack.NewEncoder(&r.hbuf)
	henc, hb := r.henc, &r.hbuf
	out.WriteString(ClientPreface)
	var ss []Setting
	if p.initIW >= 0 {
		ss = append(ss, Setting{SettingInitialWindowSize, uint32(p.initIW)})
	}
	if p.initMF >= 0 {
		ss = append(ss, Setting{SettingMaxFrameSize, uint32(p.initMF)})
	}
	fr.WriteSettings(ss...)
	fr.WriteSettingsAck()
	nextID := uint32(1)
	ids := map[int]uint32{}
	sent := map[int]int64{}
	for _, op := range p.ops {
		switch op.kind {
		case "open":
			st := &hsStream{idx: op.s, op: op}
			r.hbuf.Reset()
			block := r.encodeHeaders(st)
			ids[op.s] = nextID
			first := block
			if len(first) > 16384 {
				first = block[:16384]
			}
			rest := block[len(first):]
			fr.WriteHeaders(HeadersFrameParam{StreamID: nextID, BlockFragment: first, EndStream: !op.post, EndHeaders: len(rest) == 0})
			for len(rest) > 0 {
				k := min(len(rest), 16384)
				fr.WriteContinuation(nextID, k == len(rest), rest[:k])
				rest = rest[k:]
			}
			nextID += 2
		case "data", "overdata":
			id, ok := ids[op.s]
			if !ok {
				continue
			}
			n := min(op.n, 16000)
			data := make([]byte, n)
			for i := range data {
				data[i] = hsReqByte(op.s, sent[op.s]+int64(i))
			}
			sent[op.s] += int64(n)
			if op.pad > 0 {
				fr.WriteDataPadded(id, op.end, data, make([]byte, op.pad))
			} else {
				fr.WriteData(id, op.end, data)
			}
		case "wu":
			id := uint32(0)
			if op.s >= 0 {
				id = ids[op.s]
			}
			fr.WriteWindowUpdate(id, uint32(op.n))
		case "settings":
			var s []Setting
			if op.iw >= 0 {
				s = append(s, Setting{SettingInitialWindowSize, uint32(op.iw)})
			}
			if op.mf >= 0 {
				s = append(s, Setting{SettingMaxFrameSize, uint32(op.mf)})
			}
			fr.WriteSettings(s...)
		case "rst":
			if id, ok := ids[op.s]; ok {
				fr.WriteRSTStream(id, op.code)
			}
		case "ping":
			fr.WritePing(false, [8]byte{byte(op.n), byte(op.n >> 8)})
		}
	}
	// floods (appended as part of the session, then everything is damaged)
	for _, b := range p.byz {
		n := b.n
		switch b.kind {
		case "unsolicited-ack":
			// acknowledgements of things the server never sent: PING ACKs with
			// boundary and arbitrary opaque data, a SETTINGS ACK
			for i := 0; i < 1+n%6; i++ {
				switch (b.a + i) % 4 {
				case 0:
					fr.WritePing(true, [8]byte{})
				case 1:
					fr.WritePing(true, [8]byte{0xff, 0xff, 0xff, 0xff, 0xff, 0xff, 0xff, 0xff})
				case 2:
					fr.WritePing(true, [8]byte{byte(b.b), byte(b.b >> 8), byte(i)})
				default:
					fr.WriteSettingsAck()
				}
			}
		case "flood-ping":
			for i := 0; i < n*40; i++ {
				fr.WritePing(false, [8]byte{byte(i), byte(i >> 8), 7})
			}
		case "flood-settings":
			for i := 0; i < n*40; i++ {
				if i%2 == 0 {
					fr.WriteSettings()
				} else {
					fr.WriteSettings(Setting{SettingInitialWindowSize, uint32(1000 + i)})
				}
			}
		case "flood-rst":
			for i := 0; i < n*10; i++ {
				hb.Reset()
				henc.WriteField(hpack.HeaderField{Name: ":method", Value: "GET"})
				henc.WriteField(hpack.HeaderField{Name: ":scheme", Value: "https"})
				henc.WriteField(hpack.HeaderField{Name: ":authority", Value: "vf.test"})
				henc.WriteField(hpack.HeaderField{Name: ":path", Value: "/flood"})
				fr.WriteHeaders(HeadersFrameParam{StreamID: nextID, BlockFragment: hb.Bytes(), EndStream: true, EndHeaders: true})
				fr.WriteRSTStream(nextID, ErrCodeCancel)
				nextID += 2
			}
		case "flood-wu0":
			for i := 0; i < n*10; i++ {
				fr.WriteWindowUpdate(0, uint32(i%2))
			}
		case "flood-cont":
			hb.Reset()
			henc.WriteField(hpack.HeaderField{Name: ":method", Value: "GET"})
			fr.WriteHeaders(HeadersFrameParam{StreamID: nextID, BlockFragment: hb.Bytes(), EndStream: true, EndHeaders: false})
			for i := 0; i < n*40; i++ {
				hb.Reset()
				if i%3 == 0 {
					henc.WriteField(hpack.HeaderField{Name: "x-f-" + strconv.Itoa(i), Value: "v"})
				}
				fr.WriteContinuation(nextID, false, hb.Bytes())
			}
			nextID += 2
		case "rawframes":
			// frames of every type with payload lengths around the type's fixed
			// size and pad-length octets around the payload length
			h := uint64(b.a)*65537 + uint64(b.b) + 1
			next := func(k int) int {
				h ^= h << 13
				h ^= h >> 7
				h ^= h << 17
				return int(h % uint64(k))
			}
			for i := 0; i < 1+n%24; i++ {
				typ := FrameType([]byte{0, 1, 2, 3, 4, 5, 6, 7, 8, 9, 0x10, 0x42}[next(12)])
				flags := Flags([]byte{0, 0x8, 0x20, 0x28, 0x2c, 0x24, 0x0c, 0x4, 0x1, 0x5, 0x9, 0xff}[next(12)])
				l := []int{0, 1, 2, 3, 4, 5, 6, 7, 8, 9, 12, 20}[next(12)]
				pl := make([]byte, l)
				fill := next(4) // payload octets: all zero, all ones, or arbitrary
				for k := range pl {
					switch fill {
					case 0:
					case 1:
						pl[k] = 0xff
					default:
						pl[k] = byte(next(256))
					}
				}
				if l > 0 && fill >= 2 {
					cand := []int{0, l - 1, l, l - 2, l - 5, l - 6, l - 7, 255, l + 1}[next(9)]
					if cand >= 0 && cand < 256 {
						pl[0] = byte(cand)
					}
				}
				sid := []uint32{0, 1, nextID, nextID + 2, 2}[next(5)]
				if typ == FrameHeaders && sid == nextID {
					nextID += 2
				}
				fr.WriteRawFrame(typ, flags, sid, pl)
			}
		case "flood-emptydata":
			id := uint32(1)
			for i := 0; i < n*40; i++ {
				fr.WriteData(id, false, nil)
			}
		}
	}
	return out.Bytes()
}

func hbDamage(b []byte, ops []hsByzOp) ([]byte, map[string]int) {
	fired := map[string]int{}
	for _, op := range ops {
		if len(b) == 0 {
			break
		}
		pos := (op.a*65536 + op.b) % len(b)
		switch op.kind {
		case "flip":
			b[pos] ^= 1 << (op.n % 8)
		case "truncate":
			b = b[:pos]
		case "insert":
			ins := make([]byte, 1+op.n%16)
			for i := range ins {
				ins[i] = byte(op.a + i*op.b)
			}
			b = append(b[:pos:pos], append(ins, b[pos:]...)...)
		case "delete":
			end := min(len(b), pos+1+op.n%32)
			b = append(b[:pos:pos], b[end:]...)
		case "dup":
			end := min(len(b), pos+1+op.n)
			seg := append([]byte(nil), b[pos:end]...)
			b = append(b[:end:end], append(seg, b[end:]...)...)
		case "garbage":
			g := make([]byte, op.n)
			for i := range g {
				g[i] = byte(op.a*i + op.b + i*i)
			}
			b = append(b[:pos:pos], append(g, b[pos:]...)...)
		case "lenedit":
			// edit the length field of the frame that starts at or after pos
			off := len(ClientPreface)
			for off+9 <= len(b) {
				l := int(b[off])<<16 | int(b[off+1])<<8 | int(b[off+2])
				if off >= pos || off+9+l > len(b) {
					nl := (l + op.n - 150) & 0xffffff
					b[off], b[off+1], b[off+2] = byte(nl>>16), byte(nl>>8), byte(nl)
					break
				}
				off += 9 + l
			}
		case "typeedit":
			off := len(ClientPreface)
			for off+9 <= len(b) {
				l := int(b[off])<<16 | int(b[off+1])<<8 | int(b[off+2])
				if off >= pos || off+9+l > len(b) {
					b[off+3] = byte(op.n % 12)
					break
				}
				off += 9 + l
			}
		case "nopreface":
			if len(b) > len(ClientPreface) {
				switch op.n % 3 {
				case 0:
					b = b[len(ClientPreface):]
				case 1:
					b[op.a%len(ClientPreface)] ^= 0x20
				default:
					b = b[:op.a%len(ClientPreface)]
				}
			}
		default:
			continue
		}
		fired[op.kind]++
	}
	return b, fired
}

func hbRunOnce(t *testing.T, rt *rapid.T) {
	base := hsDrawPlan(rt, "C16")
	c := vs.RapidChooser{T: rt}
	bp := &hbPlan{base: base}
	bp.idle = time.Duration(vs.Pick(c, 0, 1, 5, 30)) * time.Second
	bp.readIdle = time.Duration(vs.Pick(c, 0, 1, 5)) * time.Second
	bp.pingTO = time.Duration(vs.Pick(c, 0, 1, 15)) * time.Second
	bp.writeByteTO = time.Duration(vs.Pick(c, 0, 0, 1, 10)) * time.Second
	bp.h1Read = time.Duration(vs.Pick(c, 0, 0, 2)) * time.Second
	bp.h1Write = time.Duration(vs.Pick(c, 0, 0, 2)) * time.Second
	bp.stall = vs.Pct(c, 30)
	bp.bound = vs.Pick(c, 0, 0, 1, 100, 5000, 70000)
	bp.closeAtEnd = vs.Bool(c)
	bp.gracefulAt = -1
	if vs.Pct(c, 15) {
		bp.gracefulAt = vs.Range(c, 0, 60)
	}
	if bp.stall && bp.bound == 0 {
		bp.bound = 5000
	}
	session := hbSession(base, c)
	input, fired := hbDamage(session, base.byz)
	tape := vs.DrawTape(rt, 3000)
	tr := vs.NewTrace()
	var viol *vs.Violation
	var simDur time.Duration
	var harness string
	deadlock := vs.Bubble(t, func() {
		sim := vs.NewSim(tape, tr)
		sim.MaxSteps = vs.Thorough(3000, 10000)
		sim.Horizon = 3 * time.Minute
		r := &hsRun{p: base, sim: sim, tr: tr, byID: map[uint32]*hsStream{}, honest: false}
		r.conn = vs.NewStreamConn(sim, "h2")
		r.conn.DeliverWeight = 6
		r.conn.DiscardBA()
		if bp.bound > 0 {
			r.conn.BoundBA(bp.bound)
		}
		r.mon = newVMParser(false, &r.step)
		r.mon.allowTableSize(1 << 16)
		r.conn.TapBA(func(b []byte) { r.mon.write(b) })
		for i := 0; i < base.nstreams; i++ {
			r.streams = append(r.streams, &hsStream{idx: i})
		}
		i := 0
		for _, op := range base.ops {
			if op.kind == "open" {
				r.streams[i].op = op
				r.streams[i].op.bad = "" // any request may reach a handler in this configuration
				i++
			}
		}
		r.conn.SplitHintAB = hsSplitHint

		srv := &Server{MaxConcurrentStreams: base.maxStreams, MaxUploadBufferPerConnection: base.upConn,
			MaxUploadBufferPerStream: base.upStream, MaxReadFrameSize: base.maxReadFrame, NewWriteScheduler: hsScheduler(base.sched),
			IdleTimeout: bp.idle, ReadIdleTimeout: bp.readIdle, PingTimeout: bp.pingTO, WriteByteTimeout: bp.writeByteTO}
		h1 := &http.Server{Handler: http.HandlerFunc(r.byzHandler), ErrorLog: log.New(io.Discard, "", 0), ReadTimeout: bp.h1Read, WriteTimeout: bp.h1Write}
		if err := ConfigureServer(h1, srv); err != nil {
			harness = "ConfigureServer: " + err.Error()
			return
		}
		oldHook := testHookOnPanic
		testHookOnPanic = func(sc *serverConn, pv interface{}) bool {
			r.mu.Lock()
			r.srvPanic = fmt.Sprintf("%v\n%s", pv, hsStack())
			r.mu.Unlock()
			return false
		}
		defer func() { testHookOnPanic = oldHook }()
		served := make(chan struct{})
		go func() {
			defer close(served)
			srv.serveConn(r.conn.B, &ServeConnOpts{BaseConfig: h1}, func(sc *serverConn) { r.sc = sc })
			r.mu.Lock()
			r.srvClosed = true
			r.mu.Unlock()
			sim.Wake()
		}()
		tr.Ev("byz plan sched=%s maxStreams=%d idle=%v readIdle=%v pingTO=%v wbTO=%v h1r=%v h1w=%v stall=%v bound=%d input=%d bytes damage=%v", base.sched, base.maxStreams, bp.idle, bp.readIdle, bp.pingTO, bp.writeByteTO, bp.h1Read, bp.h1Write, bp.stall, bp.bound, len(input), len(base.byz))
		for k, n := range fired {
			vs.G.Add("fault.byz_"+k, int64(n))
		}
		if bp.stall {
			r.conn.StallBA(true)
			vs.G.Inc("fault.client_stalled")
		}
		r.conn.A.Write(input)

		maxHandlers := int64(base.maxStreams)
		if maxHandlers == 0 {
			maxHandlers = 250 // documented default of Server.MaxConcurrentStreams
		}
		r.advMaxStr = maxHandlers
		gracefulDone := false
		sim.Check = func() *vs.Violation {
			r.mu.Lock()
			defer r.mu.Unlock()
			r.step++
			if bp.gracefulAt >= 0 && !gracefulDone && r.step > bp.gracefulAt && r.sc != nil && !r.srvClosed {
				// the server's own graceful shutdown (http.Server.Shutdown) in the
				// middle of the byzantine session: a connection error after the
				// GOAWAY(NO_ERROR) must still end the connection
				gracefulDone = true
				r.sc.startGracefulShutdown()
				vs.G.Inc("fault.byz_graceful_shutdown")
			}
			if r.viol != nil {
				return r.viol
			}
			if r.srvPanic != nil {
				return vs.Violf("C16", "serve_panic", "srv:serve_panic", "panic on the server's connection goroutine: %v", r.srvPanic)
			}
			for {
				f := r.mon.next()
				if f == nil {
					break
				}
				r.srvFrames = append(r.srvFrames, f)
				if f.Type == FrameGoAway {
					r.goAway = true
					if len(f.Payload) >= 8 {
						r.goAwayCode = ErrCode(uint32(f.Payload[4])<<24 | uint32(f.Payload[5])<<16 | uint32(f.Payload[6])<<8 | uint32(f.Payload[7]))
					}
				}
				if f.Type == FramePing && f.Flags&FlagPingAck != 0 && len(f.Payload) == 8 {
					var d [8]byte
					copy(d[:], f.Payload)
					r.pingAcks = append(r.pingAcks, d)
				}
			}
			if sc := r.sc; sc != nil && !r.srvClosed {
				if sc.queuedControlFrames > 10000+16 {
					return vs.Violf("C16", "control_queue_unbounded", "srv:queued_control_frames", "%d control frames queued", sc.queuedControlFrames)
				}
				if int64(len(sc.unstartedHandlers)) > 4*maxHandlers+16 {
					return vs.Violf("C16", "handler_queue_unbounded", "srv:unstarted_handlers", "%d handlers queued (max concurrent %d)", len(sc.unstartedHandlers), maxHandlers)
				}
				if sc.queuedControlFrames > 1000 {
					vs.G.Inc("probe.control_queue_over_1000")
				}
			}
			return nil
		}
		delivered := func() bool { return r.conn.InflightAB() == 0 }
		sim.Done = func() bool {
			r.mu.Lock()
			defer r.mu.Unlock()
			return r.srvClosed || delivered()
		}
		sim.Run()
		viol = sim.Viol
		// ---- end phase ----
		settle := func() {
			for i := 0; i < 300000; i++ {
				sim.Sleep(0)
				if r.conn.InflightAB() == 0 && r.conn.InflightBA() == 0 {
					return
				}
				r.conn.DeliverAll()
			}
		}
		if viol == nil && !sim.StepsOut {
			r.conn.StallBA(false)
			settle()
			if v := sim.Check(); v != nil {
				viol = v
			}
			r.mu.Lock()
			closed, goaway := r.srvClosed, r.goAway
			// after a graceful GOAWAY(NO_ERROR) the server keeps serving its open
			// streams and control frames until they are done
			graceful := goaway && r.goAwayCode == ErrCodeNo && gracefulDone
			r.mu.Unlock()
			atBoundary := hbAtFrameBoundary(input)
			if viol == nil && !closed && (!goaway || graceful) && atBoundary && !r.conn.A.IsClosed() {
				// the server is still serving: a fresh PING must be answered
				probe := [8]byte{0xfe, 0xed, 0xfa, 0xce, 1, 2, 3, 4}
				NewFramer(r.conn.A, nil).WritePing(false, probe)
				settle()
				if graceful {
					// (or the connection ends: the close after a GOAWAY with an error
					// code, or after the last stream of a graceful shutdown, is a timer)
					sim.Sleep(3 * time.Second)
					settle()
					vs.G.Inc("probe.fresh_ping_probe_during_graceful_shutdown")
				}
				sim.Check()
				r.mu.Lock()
				ok := r.srvClosed || (r.goAway && !graceful) || (graceful && r.goAwayCode != ErrCodeNo)
				for _, a := range r.pingAcks {
					ok = ok || a == probe
				}
				r.mu.Unlock()
				vs.G.Inc("probe.fresh_ping_probe")
				if !ok {
					viol = vs.Violf("C16", "not_serving", "srv:ping_unanswered_after_input", "after the byte stream ended at a frame boundary the connection is open but a fresh PING is not answered")
				}
			}
			// let every configured timeout expire, then hang up: the connection
			// goroutine must exit.
			if viol == nil {
				sim.Sleep(40 * time.Second)
				settle()
				if v := sim.Check(); v != nil {
					viol = v
				}
			}
		}
		r.conn.A.Close()
		r.conn.DeliverAll()
		r.conn.StallBA(false)
		exited := false
		for i := 0; i < 200 && !exited; i++ {
			sim.Abort()
			r.conn.DeliverAll()
			select {
			case <-served:
				exited = true
			default:
				sim.Sleep(500 * time.Millisecond)
			}
		}
		if !exited && viol == nil {
			viol = vs.Violf("C16", "conn_goroutine_stuck", "srv:serve_not_exiting", "the client hung up but the server's connection goroutine did not exit within 100s of simulated time")
			r.conn.Cut(io.ErrClosedPipe)
			<-served
		}
		if viol == nil {
			r.mu.Lock()
			if r.srvPanic != nil {
				viol = vs.Violf("C16", "serve_panic", "srv:serve_panic", "panic on the server's connection goroutine: %v", r.srvPanic)
			} else if r.viol != nil {
				viol = r.viol
			}
			r.mu.Unlock()
		}
		r.conn.Cut(io.ErrClosedPipe)
		simDur = sim.Elapsed()
		if !sim.Drain() && harness == "" {
			harness = fmt.Sprintf("tasks did not exit at teardown: %v", sim.PendingTasks())
		}
		r.conn.StopTimers()
		if sim.StepsOut {
			vs.G.Inc("run.steps_exhausted")
		}
	})
	if deadlock != "" && viol == nil && harness == "" {
		harness = "bubble did not wind down: " + deadlock
	}
	vs.G.EndRun(tr, len(input) > 0, simDur, func() any {
		return map[string]any{"focus": "C16", "input_bytes": len(input), "trace_head": tr.Log[:min(len(tr.Log), 40)]}
	})
	if harness != "" && viol == nil {
		vs.LogTrace(rt, tr)
		vs.Harnessf(rt, "%s", harness)
	}
	if viol != nil && viol.Prop != "C16" {
		vs.G.Inc("foreign_violation." + viol.Prop + "." + viol.Oracle)
		viol = nil
	}
	vs.Report(rt, viol, tr)
}

func hbAtFrameBoundary(b []byte) bool {
	if len(b) < len(ClientPreface) || string(b[:len(ClientPreface)]) != ClientPreface {
		return false
	}
	off := len(ClientPreface)
	for off < len(b) {
		if off+9 > len(b) {
			return false
		}
		l := int(b[off])<<16 | int(b[off+1])<<8 | int(b[off+2])
		off += 9 + l
	}
	return off == len(b)
}

// byzHandler is the handler used in the byzantine configuration: any request may
// arrive; requests the plan knows run their script, others a default one.
func (r *hsRun) byzHandler(w http.ResponseWriter, req *http.Request) {
	idx, err := strconv.Atoi(req.Header.Get("X-Vf-Idx"))
	if err == nil && idx >= 0 && idx < len(r.streams) && len(req.Header.Values("X-Vf-Idx")) == 1 {
		r.mu.Lock()
		started := r.streams[idx].hStarted
		r.mu.Unlock()
		if !started {
			r.handler(w, req)
			return
		}
	}
	r.mu.Lock()
	r.running++
	over := int64(r.running) > r.advMaxStr
	running := r.running
	r.mu.Unlock()
	if over {
		r.setViol(vs.Violf("C16", "handler_concurrency", "handlers>max", "%d handlers running at once, limit %d", running, r.advMaxStr))
	}
	defer func() {
		r.mu.Lock()
		r.running--
		r.mu.Unlock()
	}()
	w.Write([]byte("generic"))
}

func TestVerif_C16(t *testing.T) { vs.Check(t, func(rt *rapid.T) { hbRunOnce(t, rt) }) }
