// Shared wire monitor for the HTTP/2 engines (h2srv, h2cli, h2e2e): an independent
// parser of what one endpoint wrote on the simulated connection (its own 9-byte
// frame-header parser, not http2.Framer) plus the HPACK decoder (trusted for the
// monitor; HPACK itself is covered by C01-C05).

//go:build !(go1.27 && !http2legacy)

package http2

import (
	"encoding/binary"
	"fmt"

	"golang.org/x/net/http2/hpack"
)

// vmFrame is one frame as seen on the wire.
type vmFrame struct {
	Type    FrameType
	Flags   Flags
	SID     uint32
	Payload []byte
	Start   int64 // offset of the first byte in the direction's byte stream
	End     int64 // offset one past the last byte
	Seq     int   // index in output order
	Step    int   // scheduler step at which the frame's first byte was written
	// decoded (HEADERS / PUSH_PROMISE with END_HEADERS reached at this frame)
	Fields    []hpack.HeaderField
	HdrSID    uint32
	HdrEndStr bool
	HdrDone   bool
	HdrErr    error
}

func (f *vmFrame) String() string {
	return fmt.Sprintf("%v(sid=%d flags=%#x len=%d)", f.Type, f.SID, uint8(f.Flags), len(f.Payload))
}

// dataLen returns (flow-controlled length, data bytes) of a DATA frame.
func (f *vmFrame) data() (flow int, data []byte, ok bool) {
	p := f.Payload
	flow = len(p)
	if f.Flags&FlagDataPadded != 0 {
		if len(p) < 1 {
			return flow, nil, false
		}
		pad := int(p[0])
		if pad > len(p)-1 {
			return flow, nil, false
		}
		return flow, p[1 : len(p)-pad], true
	}
	return flow, p, true
}

// vmParser incrementally splits a byte stream into frames.
type vmParser struct {
	buf      []byte
	off      int64 // stream offset of buf[0]
	n        int
	preface  int // bytes of client preface still to skip
	curStep  *int
	firstAt  int // step at which buf[0] was appended
	stepsBuf []int
	hdec     *hpack.Decoder
	hfields  []hpack.HeaderField
	hblock   []byte
	hsid     uint32
	hend     bool
	inHdr    bool
	Err      error
}

func newVMParser(skipPreface bool, step *int) *vmParser {
	p := &vmParser{curStep: step}
	if skipPreface {
		p.preface = len(ClientPreface)
	}
	p.hdec = hpack.NewDecoder(4096, func(f hpack.HeaderField) { p.hfields = append(p.hfields, f) })
	return p
}

// allowTableSize raises the dynamic table size the peer may select.
func (p *vmParser) allowTableSize(n uint32) { p.hdec.SetAllowedMaxDynamicTableSize(n) }

// write appends bytes as they are written by the endpoint.
func (p *vmParser) write(b []byte) {
	for range b {
		p.stepsBuf = append(p.stepsBuf, *p.curStep)
	}
	p.buf = append(p.buf, b...)
}

// next returns the next complete frame, or nil.
func (p *vmParser) next() *vmFrame {
	if p.preface > 0 {
		k := min(p.preface, len(p.buf))
		p.buf = p.buf[k:]
		p.stepsBuf = p.stepsBuf[k:]
		p.off += int64(k)
		p.preface -= k
		if p.preface > 0 {
			return nil
		}
	}
	if len(p.buf) < 9 {
		return nil
	}
	l := int(p.buf[0])<<16 | int(p.buf[1])<<8 | int(p.buf[2])
	if len(p.buf) < 9+l {
		return nil
	}
	f := &vmFrame{
		Type:    FrameType(p.buf[3]),
		Flags:   Flags(p.buf[4]),
		SID:     binary.BigEndian.Uint32(p.buf[5:9]) & 0x7fffffff,
		Payload: append([]byte(nil), p.buf[9:9+l]...),
		Start:   p.off,
		End:     p.off + int64(9+l),
		Seq:     p.n,
		Step:    p.stepsBuf[0],
	}
	p.n++
	p.buf = p.buf[9+l:]
	p.stepsBuf = p.stepsBuf[9+l:]
	p.off = f.End
	p.decodeHeaders(f)
	return f
}

func (p *vmParser) decodeHeaders(f *vmFrame) {
	var frag []byte
	switch f.Type {
	case FrameHeaders:
		b := f.Payload
		if f.Flags&FlagHeadersPadded != 0 && len(b) > 0 {
			pad := int(b[0])
			b = b[1:]
			if pad <= len(b) {
				b = b[:len(b)-pad]
			}
		}
		if f.Flags&FlagHeadersPriority != 0 && len(b) >= 5 {
			b = b[5:]
		}
		frag = b
		p.inHdr, p.hsid, p.hend = true, f.SID, f.Flags&FlagHeadersEndStream != 0
		p.hblock = p.hblock[:0]
	case FramePushPromise:
		b := f.Payload
		if f.Flags&FlagPushPromisePadded != 0 && len(b) > 0 {
			pad := int(b[0])
			b = b[1:]
			if pad <= len(b) {
				b = b[:len(b)-pad]
			}
		}
		if len(b) >= 4 {
			b = b[4:]
		}
		frag = b
		p.inHdr, p.hsid, p.hend = true, f.SID, false
		p.hblock = p.hblock[:0]
	case FrameContinuation:
		if !p.inHdr {
			return
		}
		frag = f.Payload
	default:
		return
	}
	p.hblock = append(p.hblock, frag...)
	endHeaders := f.Flags&FlagHeadersEndHeaders != 0 // same bit (0x4) for all three types
	if !endHeaders {
		return
	}
	p.inHdr = false
	p.hfields = nil
	_, err := p.hdec.Write(p.hblock)
	if err == nil {
		err = p.hdec.Close()
	}
	f.Fields, f.HdrSID, f.HdrEndStr, f.HdrDone, f.HdrErr = p.hfields, p.hsid, p.hend, true, err
	p.hfields = nil
}

func vmField(fs []hpack.HeaderField, name string) (string, bool) {
	for _, f := range fs {
		if f.Name == name {
			return f.Value, true
		}
	}
	return "", false
}

// vmSettings decodes a SETTINGS payload.
func vmSettings(p []byte) []Setting {
	var out []Setting
	for len(p) >= 6 {
		out = append(out, Setting{ID: SettingID(binary.BigEndian.Uint16(p[:2])), Val: binary.BigEndian.Uint32(p[2:6])})
		p = p[6:]
	}
	return out
}

// The package's tests switch on DebugGoroutines (every serveG.check() then parses
// a stack trace to find the goroutine id, 75% of the run time); the simulation
// runs with it off.
func init() { disableDebugGoroutines.Store(true) }
