//go:build !(go1.27 && !http2legacy)

// Engine framerlink: a writer http2.Framer joined to a reader http2.Framer by a
// simulated byte stream (chunked delivery, zero-length reads, damage in flight).
//   C06 (config clean / ppcont): valid frame histories must read back identically.
//   C07 (config fault / ppcont): damaged sessions; the reader must stay safe and
//       must reject what an independent RFC 9113 frame-sequence validator rejects.
// Sequential engine: every choice is drawn from rapid; the chunk sizes used inside
// ReadFrame come from a tape drawn before the reader is started (no rapid draw
// happens under vs.Guard).
//
// Configuration "ppcont" isolates one situation so that it cannot mask the rest
// of the search: field blocks opened by PUSH_PROMISE without END_HEADERS
// (RFC 9113 section 6.6 / 6.10). In every other configuration PUSH_PROMISE always
// carries END_HEADERS (C06) and an open PUSH_PROMISE block is a don't-care (C07).

package http2

import (
	"bytes"
	"encoding/binary"
	"fmt"
	"io"
	"testing"

	"golang.org/x/net/http2/hpack"
	vs "golang.org/x/net/internal/verifsim"
	"pgregory.net/rapid"
)

// ---------------------------------------------------------------------------
// The simulated byte stream (reader side).

type flChunkReader struct {
	b       []byte
	off     int
	tape    *vs.Tape
	mode    int  // 0 whole requests, 1 one byte per Read, 2 mixed (tape decides)
	eofData bool // deliver io.EOF together with the last bytes
	zrun    int
	nzero   int // zero-length reads delivered
	nreads  int
	nshort  int // reads that returned fewer bytes than asked for
}

func (r *flChunkReader) Read(p []byte) (int, error) {
	if len(p) == 0 {
		return 0, nil
	}
	if r.off >= len(r.b) {
		return 0, io.EOF
	}
	n := len(p)
	switch r.mode {
	case 0:
	case 1:
		n = 1
	default:
		switch r.tape.Intn(6) {
		case 0:
		case 1:
			n = 1
		case 2:
			if r.zrun < 2 {
				r.zrun++
				r.nzero++
				return 0, nil
			}
			n = 1
		case 3:
			n = 1 + r.tape.Intn(9)
		case 4:
			n = 1 + r.tape.Intn(64)
		default:
			n = 1 + r.tape.Intn(len(p))
		}
	}
	r.zrun = 0
	if n > len(p) {
		n = len(p)
	}
	if n > len(r.b)-r.off {
		n = len(r.b) - r.off
	}
	if n < len(p) {
		r.nshort++
	}
	copy(p, r.b[r.off:r.off+n])
	r.off += n
	r.nreads++
	if r.eofData && r.off == len(r.b) {
		return n, io.EOF
	}
	return n, nil
}

// ---------------------------------------------------------------------------
// Frame specifications: what the harness asked the writer to emit, kept in the
// harness's own memory, and from which the expected read-back is derived.

type flSpec struct {
	typ      FrameType
	flags    Flags // complete flags octet expected on the wire
	stream   uint32
	raw      bool   // emitted through WriteRawFrame with a payload built by flEncodePayload
	rbit     bool   // raw only: set the reserved bit of 31-bit payload fields (must be ignored)
	data     []byte // DATA data / field block fragment / GOAWAY debug / PRIORITY_UPDATE value / unknown payload
	pad      int    // -1: not padded; else pad length
	hasPrio  bool
	prio     PriorityParam
	promise  uint32
	settings []Setting
	ping     [8]byte
	last     uint32
	code     uint32
	incr     uint32

	chainEnd int  // HEADERS / PUSH_PROMISE: index of the last frame of its field block
	byPP     bool // frame belongs to a block opened by PUSH_PROMISE
	fields   []hpack.HeaderField
	realHP   bool // fragment is real HPACK output
	start    int
	end      int
}

func flTypeName(t FrameType) string {
	switch t {
	case FrameData, FrameHeaders, FramePriority, FrameRSTStream, FrameSettings, FramePushPromise,
		FramePing, FrameGoAway, FrameWindowUpdate, FrameContinuation, FramePriorityUpdate:
		return t.String()
	}
	return "UNKNOWN"
}

// wireLen is the payload length the frame must have on the wire (RFC 9113 section 6).
func (s *flSpec) wireLen() int {
	padExtra := 0
	if s.pad >= 0 {
		padExtra = 1 + s.pad
	}
	switch s.typ {
	case FrameData:
		return len(s.data) + padExtra
	case FrameHeaders:
		n := len(s.data) + padExtra
		if s.hasPrio {
			n += 5
		}
		return n
	case FramePriority:
		return 5
	case FrameRSTStream:
		return 4
	case FrameSettings:
		return 6 * len(s.settings)
	case FramePushPromise:
		return 4 + len(s.data) + padExtra
	case FramePing:
		return 8
	case FrameGoAway:
		return 8 + len(s.data)
	case FrameWindowUpdate:
		return 4
	case FrameContinuation:
		return len(s.data)
	case FramePriorityUpdate:
		return 4 + len(s.data)
	}
	return len(s.data)
}

// flEncodePayload is the harness's own payload encoder, written from RFC 9113
// section 6 and RFC 9218 section 7.1.
func flEncodePayload(s *flSpec) []byte {
	p := make([]byte, 0, s.wireLen())
	u32 := func(v uint32) { p = binary.BigEndian.AppendUint32(p, v) }
	r := uint32(0)
	if s.rbit {
		r = 1 << 31
	}
	if s.pad >= 0 && (s.typ == FrameData || s.typ == FrameHeaders || s.typ == FramePushPromise) {
		p = append(p, byte(s.pad))
	}
	switch s.typ {
	case FrameData:
		p = append(p, s.data...)
	case FrameHeaders:
		if s.hasPrio {
			v := s.prio.StreamDep
			if s.prio.Exclusive {
				v |= 1 << 31
			}
			u32(v)
			p = append(p, s.prio.Weight)
		}
		p = append(p, s.data...)
	case FramePriority:
		v := s.prio.StreamDep
		if s.prio.Exclusive {
			v |= 1 << 31
		}
		u32(v)
		p = append(p, s.prio.Weight)
	case FrameRSTStream:
		u32(s.code)
	case FrameSettings:
		for _, st := range s.settings {
			p = append(p, byte(st.ID>>8), byte(st.ID))
			u32(st.Val)
		}
	case FramePushPromise:
		u32(s.promise | r)
		p = append(p, s.data...)
	case FramePing:
		p = append(p, s.ping[:]...)
	case FrameGoAway:
		u32(s.last | r)
		u32(s.code)
		p = append(p, s.data...)
	case FrameWindowUpdate:
		u32(s.incr | r)
	case FramePriorityUpdate:
		u32(s.promise | r)
		p = append(p, s.data...)
	default:
		p = append(p, s.data...)
	}
	if s.pad > 0 && (s.typ == FrameData || s.typ == FrameHeaders || s.typ == FramePushPromise) {
		p = append(p, make([]byte, s.pad)...)
	}
	return p
}

func flAppendFrame(b []byte, typ FrameType, flags Flags, stream uint32, payload []byte) []byte {
	l := len(payload)
	b = append(b, byte(l>>16), byte(l>>8), byte(l), byte(typ), byte(flags))
	b = binary.BigEndian.AppendUint32(b, stream)
	return append(b, payload...)
}

// ---------------------------------------------------------------------------
// Workload generator (writer side: the real Framer and the real hpack.Encoder).

type flGen struct {
	c           vs.Chooser
	wr          *Framer
	buf         *bytes.Buffer
	enc         *hpack.Encoder
	encBuf      *bytes.Buffer
	specs       []*flSpec
	realHPACK   bool // every HEADERS block must be real HPACK (reader decodes it)
	ppChains    bool // PUSH_PROMISE may omit END_HEADERS and be continued
	hdrFaults   bool // C07: header lists may be made invalid
	bigLists    bool // C07: large header lists
	maxPayload  int
	maxChain    int
	salt        int
	streams     []uint32 // C07: small pool of stream ids (interleavings); nil = full range
	checkWire   bool     // C06: check the written bytes
	viol        *vs.Violation
	tr          *vs.Trace
	listSizes   []int
	hdrKinds    []string // header faults fired
	rejected    int
	sizePending bool
}

func flNewGen(c vs.Chooser, tr *vs.Trace) *flGen {
	g := &flGen{c: c, tr: tr, buf: new(bytes.Buffer), encBuf: new(bytes.Buffer), maxChain: 4}
	g.wr = NewFramer(g.buf, nil)
	g.wr.logWrites = false
	g.enc = hpack.NewEncoder(g.encBuf)
	return g
}

func (g *flGen) streamID() uint32 {
	c := g.c
	if g.streams != nil {
		return g.streams[c.Intn(len(g.streams))]
	}
	switch c.Intn(6) {
	case 0:
		return 1
	case 1:
		return 2
	case 2:
		return 1<<31 - 1
	case 3:
		return uint32(1 + c.Intn(16))
	case 4:
		return 1<<31 - 2
	default:
		return uint32(1 + c.Intn(1<<31-1))
	}
}

func (g *flGen) u32() uint32 {
	c := g.c
	switch c.Intn(6) {
	case 0:
		return 0
	case 1:
		return 1
	case 2:
		return 0xffffffff
	case 3:
		return 0x80000000
	case 4:
		return uint32(c.Intn(1 << 16))
	default:
		return uint32(c.Intn(1 << 32))
	}
}

func (g *flGen) payload(n int) []byte {
	g.salt++
	b := make([]byte, n)
	for i := range b {
		b[i] = byte(g.salt*131 + i*7 + i>>8 + 1)
	}
	return b
}

func (g *flGen) size() int {
	return vs.SizeBiased(g.c, g.maxPayload, 255, 256, 16384, 16375, 65535)
}

func (g *flGen) padLen() int {
	c := g.c
	switch c.Intn(5) {
	case 0:
		return 0
	case 1:
		return 1
	case 2:
		return 255
	default:
		return c.Intn(256)
	}
}

func (g *flGen) isRaw() bool { return vs.Pct(g.c, 20) }

func flExtra(c vs.Chooser, raw bool, defined Flags) Flags {
	if !raw {
		return 0
	}
	return Flags(c.Intn(256)) &^ defined
}

var flPseudoReq = []hpack.HeaderField{
	{Name: ":method", Value: "GET"}, {Name: ":scheme", Value: "https"}, {Name: ":authority", Value: "example.com:443"},
	{Name: ":path", Value: "/a?b=c"}, {Name: ":protocol", Value: "websocket"},
}
var flNames = []string{"accept", "content-type", "x-a", "cookie", "te", "priority", "via", "user-agent", "content-length", "x-custom-header-name"}
var flValues = []string{"", "a", "gzip, deflate", "text/html; q=0.9", "u=1, i", "0", "trailers", "a\tb", "caf\xc3\xa9", "a b  c"}

const flTokenLower = "abcdefghijklmnopqrstuvwxyz0123456789!#$%&'*+-.^_`|~"

func (g *flGen) randName() string {
	c := g.c
	n := 1 + c.Intn(12)
	b := make([]byte, n)
	for i := range b {
		b[i] = flTokenLower[c.Intn(len(flTokenLower))]
	}
	return string(b)
}

func (g *flGen) randValue(max int) string {
	c := g.c
	n := c.Intn(max + 1)
	b := make([]byte, n)
	for i := range b {
		switch k := c.Intn(20); {
		case k == 0 && i > 0 && i < n-1:
			b[i] = ' '
		case k == 1 && i > 0 && i < n-1:
			b[i] = '\t'
		case k == 2:
			b[i] = byte(0x80 + c.Intn(0x80))
		default:
			b[i] = byte(0x21 + c.Intn(0x7e-0x21+1))
		}
	}
	return string(b)
}

// validFields draws a header list that RFC 9113 section 8 accepts: pseudo-header
// fields first (request or response, no duplicates), then regular fields with
// lower-case token names and field values without control characters and
// without leading/trailing whitespace.
func (g *flGen) validFields() []hpack.HeaderField {
	c := g.c
	var fs []hpack.HeaderField
	switch c.Intn(3) {
	case 0:
		off := c.Intn(len(flPseudoReq))
		for i := range flPseudoReq {
			if i == 0 || vs.Bool(c) {
				fs = append(fs, flPseudoReq[(i+off)%len(flPseudoReq)])
			}
		}
	case 1:
		fs = append(fs, hpack.HeaderField{Name: ":status", Value: vs.Pick(c, "200", "404", "103")})
	}
	k := c.Intn(6)
	vmax := 24
	if g.bigLists {
		k = 4 + c.Intn(24)
		vmax = 200
	}
	for i := 0; i < k; i++ {
		var hf hpack.HeaderField
		if vs.Pct(c, 30) {
			hf.Name = g.randName()
		} else {
			hf.Name = flNames[c.Intn(len(flNames))]
		}
		if vs.Pct(c, 40) || g.bigLists {
			hf.Value = g.randValue(vmax)
		} else {
			hf.Value = flValues[c.Intn(len(flValues))]
		}
		hf.Sensitive = vs.Pct(c, 10)
		fs = append(fs, hf)
	}
	return fs
}

// breakFields makes a header list invalid in one way (C07 only).
func (g *flGen) breakFields(fs []hpack.HeaderField) ([]hpack.HeaderField, string) {
	c := g.c
	np := 0
	for np < len(fs) && len(fs[np].Name) > 0 && fs[np].Name[0] == ':' {
		np++
	}
	insertRegular := func(hf hpack.HeaderField) []hpack.HeaderField {
		pos := np + c.Intn(len(fs)-np+1)
		out := append([]hpack.HeaderField{}, fs[:pos]...)
		out = append(out, hf)
		return append(out, fs[pos:]...)
	}
	switch c.Intn(9) {
	case 0:
		return insertRegular(hpack.HeaderField{Name: vs.Pick(c, "X-Foo", "Accept", "x-fOo", "Z"), Value: "v"}), "hdr_upper_name"
	case 1:
		if vs.Bool(c) {
			// a name with one arbitrary non-ASCII rune (2-, 3- or 4-byte UTF-8) among
			// token characters, or a lone byte >= 0x80
			var r rune
			switch c.Intn(4) {
			case 0:
				r = rune(0x80 + c.Intn(0x800-0x80))
			case 1:
				r = rune(0x800 + c.Intn(0xd800-0x800))
			case 2:
				r = rune(0x10000 + c.Intn(0x100000))
			default:
				return insertRegular(hpack.HeaderField{Name: "x" + string([]byte{byte(0x80 + c.Intn(0x80))}) + "y", Value: "v"}), "hdr_bad_name"
			}
			name := vs.Pick(c, "", "x-", "a") + string(r) + vs.Pick(c, "", "-id", "bc")
			return insertRegular(hpack.HeaderField{Name: name, Value: "v"}), "hdr_bad_name"
		}
		return insertRegular(hpack.HeaderField{Name: vs.Pick(c, "x y", "a:b", "x\x00", "caf\xc3\xa9", "x(", "x\n", "a/b", "\x7f", " x"), Value: "v"}), "hdr_bad_name"
	case 2:
		return insertRegular(hpack.HeaderField{Name: "", Value: "v"}), "hdr_empty_name"
	case 3:
		return insertRegular(hpack.HeaderField{Name: "x-v", Value: vs.Pick(c, "a\nb", "a\rb", "\x00", "a\x7f", "\x01", "a\x1fb", "\n")}), "hdr_bad_value"
	case 4:
		if np == len(fs) {
			fs = append(append([]hpack.HeaderField{}, fs...), hpack.HeaderField{Name: "x-r", Value: "1"})
		}
		pos := np + 1 + c.Intn(len(fs)-np)
		out := append([]hpack.HeaderField{}, fs[:pos]...)
		out = append(out, hpack.HeaderField{Name: vs.Pick(c, ":path", ":status", ":method"), Value: "/late"})
		return append(out, fs[pos:]...), "hdr_pseudo_after_regular"
	case 5:
		d := hpack.HeaderField{Name: ":method", Value: "POST"}
		if np > 0 {
			d = fs[c.Intn(np)]
			if vs.Bool(c) {
				d.Value = "other"
			}
		} else {
			fs = append([]hpack.HeaderField{{Name: ":method", Value: "GET"}}, fs...)
			np = 1
		}
		out := append([]hpack.HeaderField{}, fs[:np]...)
		out = append(out, d)
		return append(out, fs[np:]...), "hdr_dup_pseudo"
	case 6:
		u := hpack.HeaderField{Name: vs.Pick(c, ":foo", ":", ":Method", ":path ", ":statuss"), Value: "x"}
		pos := c.Intn(np + 1)
		out := append([]hpack.HeaderField{}, fs[:pos]...)
		out = append(out, u)
		return append(out, fs[pos:]...), "hdr_unknown_pseudo"
	case 7:
		if np > 0 && fs[0].Name == ":status" {
			return append([]hpack.HeaderField{{Name: ":method", Value: "GET"}}, fs...), "hdr_mixed_pseudo"
		}
		return append([]hpack.HeaderField{{Name: ":status", Value: "200"}}, fs...), "hdr_mixed_pseudo"
	default:
		out := append([]hpack.HeaderField{{Name: ":path", Value: vs.Pick(c, "/a\nb", "/\x00", "/\r")}}, fs...)
		return out, "hdr_bad_pseudo_value"
	}
}

// headerBlock returns a field block and (when it is real HPACK) the list it encodes.
func (g *flGen) headerBlock() ([]byte, []hpack.HeaderField, bool) {
	c := g.c
	if !g.realHPACK && vs.Bool(c) {
		return g.payload(g.size()), nil, false
	}
	fs := g.validFields()
	if g.hdrFaults && vs.Pct(c, 35) {
		var kind string
		fs, kind = g.breakFields(fs)
		g.hdrKinds = append(g.hdrKinds, kind)
	}
	// At most one table size change between two non-empty blocks: two changes make
	// the encoder emit two size updates, which is HPACK's business (C01), not the
	// Framer's.
	if !g.sizePending && vs.Pct(c, 5) {
		g.enc.SetMaxDynamicTableSize(uint32(vs.Pick(c, 0, 64, 4096, 100)))
		g.sizePending = true
	}
	if len(fs) > 0 {
		g.sizePending = false
	}
	g.encBuf.Reset()
	size := 0
	for _, hf := range fs {
		g.enc.WriteField(hf)
		size += len(hf.Name) + len(hf.Value) + 32
	}
	g.listSizes = append(g.listSizes, size)
	return append([]byte(nil), g.encBuf.Bytes()...), fs, true
}

// splitBlock cuts a block into n fragments at arbitrary points (fragments may be empty).
func (g *flGen) splitBlock(b []byte, n int) [][]byte {
	cuts := make([]int, n-1)
	for i := range cuts {
		cuts[i] = g.c.Intn(len(b) + 1)
	}
	for i := 1; i < len(cuts); i++ { // insertion sort
		for j := i; j > 0 && cuts[j] < cuts[j-1]; j-- {
			cuts[j], cuts[j-1] = cuts[j-1], cuts[j]
		}
	}
	out := make([][]byte, 0, n)
	prev := 0
	for _, x := range cuts {
		out = append(out, b[prev:x])
		prev = x
	}
	return append(out, b[prev:])
}

func (g *flGen) genData() {
	c := g.c
	s := &flSpec{typ: FrameData, stream: g.streamID(), pad: -1, raw: g.isRaw()}
	s.data = g.payload(g.size())
	if vs.Bool(c) {
		s.flags |= FlagDataEndStream
	}
	if vs.Bool(c) {
		s.pad = g.padLen()
		s.flags |= FlagDataPadded
	}
	s.flags |= flExtra(c, s.raw, FlagDataEndStream|FlagDataPadded)
	g.emit(s)
}

func (g *flGen) genPrio() PriorityParam {
	c := g.c
	var p PriorityParam
	switch c.Intn(4) {
	case 0:
		p.StreamDep = 0
	case 1:
		p.StreamDep = 1<<31 - 1
	case 2:
		p.StreamDep = uint32(c.Intn(16))
	default:
		p.StreamDep = uint32(c.Intn(1 << 31))
	}
	p.Exclusive = vs.Bool(c)
	p.Weight = uint8(vs.Pick(c, 0, 255, 15, c.Intn(256)))
	return p
}

// illegalDep makes p's dependency illegal (reserved bit set) now and then, for
// typed writes only: WriteHeaders / WritePriority refuse it, and a refused write
// must leave nothing behind for the next frame.
func (g *flGen) illegalDep(p PriorityParam, raw bool) PriorityParam {
	if !raw && vs.Pct(g.c, 6) {
		p.StreamDep |= 1 << 31
		vs.G.Inc("probe.illegal_stream_dependency")
	}
	return p
}

// genBlockFrames emits HEADERS or PUSH_PROMISE followed by its CONTINUATION frames.
func (g *flGen) genBlockFrames(typ FrameType) {
	c := g.c
	var block []byte
	var fields []hpack.HeaderField
	var real bool
	if typ == FramePushPromise && g.realHPACK {
		// a reader with ReadMetaHeaders does not decode PUSH_PROMISE blocks: keep the
		// shared HPACK state out of them.
		block = g.payload(vs.SizeBiased(c, min(g.maxPayload, 300)))
	} else {
		block, fields, real = g.headerBlock()
	}
	nfrag := 1
	canChain := typ == FrameHeaders || g.ppChains
	if canChain && (vs.Pct(c, 40) || typ == FramePushPromise && vs.Pct(c, 60)) {
		nfrag = 2 + c.Intn(g.maxChain)
	}
	frags := g.splitBlock(block, nfrag)
	first := len(g.specs)
	s := &flSpec{typ: typ, stream: g.streamID(), pad: -1, raw: g.isRaw(), data: frags[0], fields: fields, realHP: real}
	s.byPP = typ == FramePushPromise
	if nfrag == 1 {
		s.flags |= FlagHeadersEndHeaders
	}
	if vs.Pct(c, 40) {
		s.pad = g.padLen()
		if !s.raw && s.pad == 0 {
			s.pad = 1 // WriteHeaders / WritePushPromise express "padded" as PadLength != 0
		}
		s.flags |= FlagHeadersPadded
	}
	if typ == FrameHeaders {
		if vs.Bool(c) {
			s.flags |= FlagHeadersEndStream
		}
		if vs.Pct(c, 40) {
			// (not with a real HPACK block: its encoder state would run ahead of a
			// decoder that never sees the refused block)
			s.prio = g.illegalDep(g.genPrio(), s.raw || real)
			s.hasPrio = s.raw || !s.prio.IsZero()
			if s.hasPrio {
				s.flags |= FlagHeadersPriority
			} else {
				s.prio = PriorityParam{}
			}
		}
		s.flags |= flExtra(c, s.raw, FlagHeadersEndStream|FlagHeadersEndHeaders|FlagHeadersPadded|FlagHeadersPriority)
	} else {
		s.promise = g.streamID()
		if !s.raw && !real && vs.Pct(c, 6) {
			s.promise = uint32(vs.Pick(c, 0, 1<<31, 1<<31|5)) // refused by WritePushPromise
			vs.G.Inc("probe.illegal_promise_id")
		}
		s.rbit = s.raw && vs.Bool(c)
		s.flags |= flExtra(c, s.raw, FlagPushPromiseEndHeaders|FlagPushPromisePadded)
	}
	if !g.emit(s) {
		return
	}
	for i := 1; i < nfrag; i++ {
		cs := &flSpec{typ: FrameContinuation, stream: s.stream, pad: -1, raw: g.isRaw(), data: frags[i], byPP: s.byPP}
		if i == nfrag-1 {
			cs.flags |= FlagContinuationEndHeaders
		}
		cs.flags |= flExtra(c, cs.raw, FlagContinuationEndHeaders)
		g.emit(cs)
	}
	g.specs[first].chainEnd = len(g.specs) - 1
	if typ == FramePushPromise && nfrag > 1 {
		vs.G.Inc("probe.pp_chain")
	}
}

func (g *flGen) genSetting() Setting {
	c := g.c
	switch c.Intn(10) {
	case 0:
		return Setting{SettingHeaderTableSize, g.u32()}
	case 1:
		return Setting{SettingEnablePush, uint32(c.Intn(2))}
	case 2:
		return Setting{SettingMaxConcurrentStreams, g.u32()}
	case 3:
		return Setting{SettingInitialWindowSize, uint32(vs.Pick(c, 65535, 0, 1<<31-1, c.Intn(1<<31)))}
	case 4:
		return Setting{SettingMaxFrameSize, uint32(vs.Pick(c, 16384, 1<<24-1, vs.Range(c, 16384, 1<<24-1)))}
	case 5:
		return Setting{SettingMaxHeaderListSize, g.u32()}
	case 6:
		return Setting{SettingEnableConnectProtocol, uint32(c.Intn(2))}
	case 7:
		return Setting{SettingNoRFC7540Priorities, uint32(c.Intn(2))}
	default:
		return Setting{SettingID(vs.Pick(c, 0, 7, 10, 0xffff, 0x4d, c.Intn(1<<16-10)+10)), g.u32()}
	}
}

func (g *flGen) genOther(op int) {
	c := g.c
	s := &flSpec{pad: -1}
	switch op {
	case 2:
		s.typ, s.stream, s.prio = FramePriority, g.streamID(), g.genPrio()
		s.raw = g.isRaw()
		s.flags = flExtra(c, s.raw, 0)
	case 3:
		s.typ, s.stream, s.code = FrameRSTStream, g.streamID(), g.u32()
		s.raw = g.isRaw()
		s.flags = flExtra(c, s.raw, 0)
	case 4:
		s.typ = FrameSettings
		n := vs.SizeBiased(c, 12, 1, 9, 10)
		for i := 0; i < n; i++ {
			s.settings = append(s.settings, g.genSetting())
		}
		s.raw = g.isRaw()
		s.flags = flExtra(c, s.raw, FlagSettingsAck)
	case 5:
		s.typ = FrameSettings
		s.raw = g.isRaw()
		s.flags = FlagSettingsAck | flExtra(c, s.raw, FlagSettingsAck)
	case 7:
		s.typ = FramePing
		copy(s.ping[:], g.payload(8))
		s.raw = g.isRaw()
		if vs.Bool(c) {
			s.flags = FlagPingAck
		}
		s.flags |= flExtra(c, s.raw, FlagPingAck)
	case 8:
		s.typ = FrameGoAway
		if vs.Bool(c) {
			s.last = g.streamID()
		}
		s.code = g.u32()
		s.data = g.payload(vs.SizeBiased(c, min(g.maxPayload, 2000)))
		s.raw = g.isRaw()
		s.rbit = s.raw && vs.Bool(c)
		s.flags = flExtra(c, s.raw, 0)
	case 9:
		s.typ = FrameWindowUpdate
		if vs.Bool(c) {
			s.stream = g.streamID()
		}
		s.incr = uint32(vs.Pick(c, 1, 1<<31-1, 65535, 1+c.Intn(1<<31-1)))
		s.raw = g.isRaw()
		s.rbit = s.raw && vs.Bool(c)
		s.flags = flExtra(c, s.raw, 0)
	case 10:
		s.typ = FramePriorityUpdate
		s.promise = g.streamID()
		switch c.Intn(4) {
		case 0:
			s.data = []byte("u=3")
		case 1:
			s.data = []byte{}
		case 2:
			s.data = []byte("u=0, i")
		default:
			s.data = g.payload(c.Intn(40))
		}
		s.raw = g.isRaw()
		s.rbit = s.raw && vs.Bool(c)
		s.flags = flExtra(c, s.raw, 0)
	default: // extension frame of a type this package does not know
		t := FrameType(0x0a + c.Intn(0xf6))
		if t == FramePriorityUpdate {
			t = 0x11
		}
		s.typ, s.raw = t, true
		if vs.Bool(c) {
			s.stream = g.streamID()
		}
		s.flags = Flags(c.Intn(256))
		s.data = g.payload(g.size())
	}
	g.emit(s)
}

func (g *flGen) genOp() {
	switch op := g.c.Intn(14); op {
	case 0, 12:
		g.genData()
	case 1, 13:
		g.genBlockFrames(FrameHeaders)
	case 6:
		g.genBlockFrames(FramePushPromise)
	default:
		g.genOther(op)
	}
}

// emit writes the frame through the real Framer. It returns false when the
// Write method refused the arguments (the frame is then not part of the history).
func (g *flGen) emit(s *flSpec) bool {
	if g.viol != nil {
		return false
	}
	s.start = g.buf.Len()
	var err error
	wr := g.wr
	v := vs.Guard("C06", "panic_in_write:"+flTypeName(s.typ), func() {
		if s.raw {
			err = wr.WriteRawFrame(s.typ, s.flags, s.stream, flEncodePayload(s))
			return
		}
		switch s.typ {
		case FrameData:
			end := s.flags.Has(FlagDataEndStream)
			switch {
			case s.pad >= 0:
				err = wr.WriteDataPadded(s.stream, end, s.data, make([]byte, s.pad))
			case len(s.data)&1 == 0:
				err = wr.WriteData(s.stream, end, s.data)
			default:
				err = wr.WriteDataPadded(s.stream, end, s.data, nil)
			}
		case FrameHeaders:
			p := HeadersFrameParam{StreamID: s.stream, BlockFragment: s.data, EndStream: s.flags.Has(FlagHeadersEndStream),
				EndHeaders: s.flags.Has(FlagHeadersEndHeaders), Priority: s.prio}
			if s.pad > 0 {
				p.PadLength = uint8(s.pad)
			}
			err = wr.WriteHeaders(p)
		case FramePriority:
			err = wr.WritePriority(s.stream, s.prio)
		case FrameRSTStream:
			err = wr.WriteRSTStream(s.stream, ErrCode(s.code))
		case FrameSettings:
			if s.flags.Has(FlagSettingsAck) {
				err = wr.WriteSettingsAck()
			} else {
				err = wr.WriteSettings(s.settings...)
			}
		case FramePushPromise:
			p := PushPromiseParam{StreamID: s.stream, PromiseID: s.promise, BlockFragment: s.data, EndHeaders: s.flags.Has(FlagPushPromiseEndHeaders)}
			if s.pad > 0 {
				p.PadLength = uint8(s.pad)
			}
			err = wr.WritePushPromise(p)
		case FramePing:
			err = wr.WritePing(s.flags.Has(FlagPingAck), s.ping)
		case FrameGoAway:
			err = wr.WriteGoAway(s.last, ErrCode(s.code), s.data)
		case FrameWindowUpdate:
			err = wr.WriteWindowUpdate(s.stream, s.incr)
		case FrameContinuation:
			err = wr.WriteContinuation(s.stream, s.flags.Has(FlagContinuationEndHeaders), s.data)
		case FramePriorityUpdate:
			err = wr.WritePriorityUpdate(s.promise, string(s.data))
		}
	})
	if v != nil {
		g.viol = v
		return false
	}
	if err != nil {
		g.rejected++
		g.buf.Truncate(s.start)
		g.tr.Ev("w %s s=%d len=%d -> refused: %v", flTypeName(s.typ), s.stream, s.wireLen(), err)
		return false
	}
	s.end = g.buf.Len()
	g.specs = append(g.specs, s)
	s.chainEnd = len(g.specs) - 1
	how := "typed"
	if s.raw {
		how = "raw"
	}
	g.tr.Ev("w %s %s s=%d fl=%02x len=%d pad=%d", flTypeName(s.typ), how, s.stream, uint8(s.flags), s.wireLen(), s.pad)
	if g.checkWire {
		g.viol = flCheckWire(s, g.buf.Bytes()[s.start:s.end])
	}
	return true
}

// flCheckWire compares the bytes one Write call produced with the frame layout of
// RFC 9113 section 4.1 / 6 computed by the harness.
func flCheckWire(s *flSpec, w []byte) *vs.Violation {
	name := flTypeName(s.typ)
	if len(w) < 9 {
		return vs.Violf("C06", "wire_header", name, "Write produced %d bytes, less than a frame header", len(w))
	}
	l := int(w[0])<<16 | int(w[1])<<8 | int(w[2])
	if l != len(w)-9 || l != s.wireLen()&0xffffff || s.wireLen() != len(w)-9 || FrameType(w[3]) != s.typ || Flags(w[4]) != s.flags || binary.BigEndian.Uint32(w[5:9]) != s.stream {
		return vs.Violf("C06", "wire_header", name, "%s: header on the wire %s for %d payload bytes written; want length=%d type=%d flags=%02x stream=%d",
			name, vs.Hex(w[:9]), len(w)-9, s.wireLen(), uint8(s.typ), uint8(s.flags), s.stream)
	}
	if !s.raw {
		want := flEncodePayload(s)
		if !bytes.Equal(w[9:], want) {
			i := 0
			for i < len(want) && i < len(w)-9 && want[i] == w[9+i] {
				i++
			}
			return vs.Violf("C06", "wire_payload", name, "%s: payload on the wire differs from RFC 9113 layout at payload offset %d (flags=%02x pad=%d prio=%v): got %s want %s",
				name, i, uint8(s.flags), s.pad, s.hasPrio, vs.Hex(w[9+i:]), vs.Hex(want[i:]))
		}
	}
	return nil
}

// genHuge emits one frame at the 2^24-1 length boundary: a payload of exactly
// 2^24-1 octets must be written and read back; one octet more must be refused.
func (g *flGen) genHuge() {
	c := g.c
	over := vs.Bool(c)
	n := 1<<24 - 1
	s := &flSpec{typ: FrameData, stream: g.streamID(), pad: -1}
	if vs.Bool(c) {
		s.pad = c.Intn(3)
		s.flags |= FlagDataPadded
		n -= 1 + s.pad
	}
	if over {
		n++
	}
	s.data = make([]byte, n)
	for i := 0; i < n; i += 4093 {
		s.data[i] = byte(i>>4 + 1)
	}
	s.data[n-1] = 0xa5
	ok := g.emit(s)
	if over && !ok && g.viol == nil {
		vs.G.Inc("probe.huge_frame_refused")
	}
	if over && ok && g.viol == nil {
		g.viol = vs.Violf("C06", "wire_header", "DATA:too_large", "a DATA frame with a %d-octet payload (more than 2^24-1) was written instead of refused", s.wireLen())
	}
}

// ---------------------------------------------------------------------------
// C06: read-back comparison.

func flPrioEq(a, b PriorityParam) bool {
	return a.StreamDep == b.StreamDep && a.Exclusive == b.Exclusive && a.Weight == b.Weight
}

// flCompare compares a frame returned by ReadFrame with the specification it
// was written from. meta says the reader merges HEADERS blocks.
func flCompare(s *flSpec, f Frame, meta bool) *vs.Violation {
	name := flTypeName(s.typ)
	fh := f.Header()
	if fh.Type != s.typ {
		return vs.Violf("C06", "frame_type", name, "wrote %s, read back type %v (%T)", name, fh.Type, f)
	}
	if fh.Flags != s.flags || fh.StreamID != s.stream || int(fh.Length) != s.wireLen() {
		return vs.Violf("C06", "header_mismatch", name, "%s: wrote flags=%02x stream=%d length=%d, read back flags=%02x stream=%d length=%d",
			name, uint8(s.flags), s.stream, s.wireLen(), uint8(fh.Flags), fh.StreamID, fh.Length)
	}
	bad := func(what string, got, want any) *vs.Violation {
		return vs.Violf("C06", "payload_mismatch", name+":"+what, "%s (flags=%02x stream=%d pad=%d raw=%v): %s read back as %v, written as %v",
			name, uint8(s.flags), s.stream, s.pad, s.raw, what, got, want)
	}
	badBytes := func(what string, got, want []byte) *vs.Violation {
		return vs.Violf("C06", "payload_mismatch", name+":"+what, "%s (flags=%02x stream=%d pad=%d raw=%v): %s read back as %d bytes %s, written as %d bytes %s",
			name, uint8(s.flags), s.stream, s.pad, s.raw, what, len(got), vs.Hex(got), len(want), vs.Hex(want))
	}
	wrongType := func() *vs.Violation {
		return vs.Violf("C06", "frame_type", name, "wrote %s, ReadFrame returned a %T", name, f)
	}
	switch s.typ {
	case FrameData:
		df, ok := f.(*DataFrame)
		if !ok {
			return wrongType()
		}
		if !bytes.Equal(df.Data(), s.data) {
			return badBytes("data", df.Data(), s.data)
		}
		if df.StreamEnded() != s.flags.Has(FlagDataEndStream) {
			return bad("end_stream", df.StreamEnded(), s.flags.Has(FlagDataEndStream))
		}
	case FrameHeaders:
		var hf *HeadersFrame
		if meta {
			mh, ok := f.(*MetaHeadersFrame)
			if !ok {
				return wrongType()
			}
			hf = mh.HeadersFrame
			if mh.Truncated {
				return bad("truncated", true, false)
			}
			if len(mh.Fields) != len(s.fields) {
				return bad("field_count", len(mh.Fields), len(s.fields))
			}
			for i, want := range s.fields {
				if got := mh.Fields[i]; got.Name != want.Name || got.Value != want.Value {
					return bad("field", fmt.Sprintf("#%d %q=%q", i, got.Name, got.Value), fmt.Sprintf("%q=%q", want.Name, want.Value))
				}
			}
		} else {
			var ok bool
			if hf, ok = f.(*HeadersFrame); !ok {
				return wrongType()
			}
			if !bytes.Equal(hf.HeaderBlockFragment(), s.data) {
				return badBytes("fragment", hf.HeaderBlockFragment(), s.data)
			}
		}
		if hf.HasPriority() != s.hasPrio || !flPrioEq(hf.Priority, s.prio) {
			return bad("priority", fmt.Sprintf("%v %+v", hf.HasPriority(), hf.Priority), fmt.Sprintf("%v %+v", s.hasPrio, s.prio))
		}
		if hf.HeadersEnded() != s.flags.Has(FlagHeadersEndHeaders) || hf.StreamEnded() != s.flags.Has(FlagHeadersEndStream) {
			return bad("end_flags", fmt.Sprint(hf.HeadersEnded(), hf.StreamEnded()), fmt.Sprintf("%02x", uint8(s.flags)))
		}
	case FramePriority:
		pf, ok := f.(*PriorityFrame)
		if !ok {
			return wrongType()
		}
		if !flPrioEq(pf.PriorityParam, s.prio) {
			return bad("priority", fmt.Sprintf("%+v", pf.PriorityParam), fmt.Sprintf("%+v", s.prio))
		}
	case FrameRSTStream:
		rf, ok := f.(*RSTStreamFrame)
		if !ok {
			return wrongType()
		}
		if uint32(rf.ErrCode) != s.code {
			return bad("error_code", uint32(rf.ErrCode), s.code)
		}
	case FrameSettings:
		sf, ok := f.(*SettingsFrame)
		if !ok {
			return wrongType()
		}
		if sf.IsAck() != s.flags.Has(FlagSettingsAck) {
			return bad("ack", sf.IsAck(), s.flags.Has(FlagSettingsAck))
		}
		if sf.NumSettings() != len(s.settings) {
			return bad("num_settings", sf.NumSettings(), len(s.settings))
		}
		for i, want := range s.settings {
			if got := sf.Setting(i); got != want {
				return bad("setting", fmt.Sprintf("#%d %#x=%d", i, uint16(got.ID), got.Val), fmt.Sprintf("%#x=%d", uint16(want.ID), want.Val))
			}
		}
	case FramePushPromise:
		pf, ok := f.(*PushPromiseFrame)
		if !ok {
			return wrongType()
		}
		if pf.PromiseID != s.promise {
			return bad("promise_id", pf.PromiseID, s.promise)
		}
		if !bytes.Equal(pf.HeaderBlockFragment(), s.data) {
			return badBytes("fragment", pf.HeaderBlockFragment(), s.data)
		}
		if pf.HeadersEnded() != s.flags.Has(FlagPushPromiseEndHeaders) {
			return bad("end_headers", pf.HeadersEnded(), !pf.HeadersEnded())
		}
	case FramePing:
		pf, ok := f.(*PingFrame)
		if !ok {
			return wrongType()
		}
		if pf.Data != s.ping || pf.IsAck() != s.flags.Has(FlagPingAck) {
			return bad("ping", fmt.Sprintf("%x ack=%v", pf.Data, pf.IsAck()), fmt.Sprintf("%x flags=%02x", s.ping, uint8(s.flags)))
		}
	case FrameGoAway:
		gf, ok := f.(*GoAwayFrame)
		if !ok {
			return wrongType()
		}
		if gf.LastStreamID != s.last || uint32(gf.ErrCode) != s.code {
			return bad("last_stream_or_code", fmt.Sprint(gf.LastStreamID, uint32(gf.ErrCode)), fmt.Sprint(s.last, s.code))
		}
		if !bytes.Equal(gf.DebugData(), s.data) {
			return badBytes("debug_data", gf.DebugData(), s.data)
		}
	case FrameWindowUpdate:
		wf, ok := f.(*WindowUpdateFrame)
		if !ok {
			return wrongType()
		}
		if wf.Increment != s.incr {
			return bad("increment", wf.Increment, s.incr)
		}
	case FrameContinuation:
		cf, ok := f.(*ContinuationFrame)
		if !ok {
			return wrongType()
		}
		if !bytes.Equal(cf.HeaderBlockFragment(), s.data) {
			return badBytes("fragment", cf.HeaderBlockFragment(), s.data)
		}
		if cf.HeadersEnded() != s.flags.Has(FlagContinuationEndHeaders) {
			return bad("end_headers", cf.HeadersEnded(), !cf.HeadersEnded())
		}
	case FramePriorityUpdate:
		pf, ok := f.(*PriorityUpdateFrame)
		if !ok {
			return wrongType()
		}
		if pf.PrioritizedStreamID != s.promise {
			return bad("prioritized_stream", pf.PrioritizedStreamID, s.promise)
		}
		if pf.Priority != string(s.data) {
			return badBytes("priority_value", []byte(pf.Priority), s.data)
		}
	default:
		uf, ok := f.(*UnknownFrame)
		if !ok {
			return wrongType()
		}
		if !bytes.Equal(uf.Payload(), s.data) {
			return badBytes("payload", uf.Payload(), s.data)
		}
	}
	return nil
}

var flC06Probes = []string{"probe.meta_continuation_merged", "probe.max_read_exact", "probe.zero_len_read", "probe.short_read",
	"probe.reuse_second_dataframe", "probe.padded_zero_pad", "probe.raw_known_extra_flags", "probe.huge_frame_read",
	"probe.huge_frame_refused", "probe.stream_id_max", "probe.continuation_read_raw", "probe.pp_chain"}

func flRunC06(rt *rapid.T) {
	c := vs.RapidChooser{T: rt}
	tr := vs.NewTrace()
	for _, p := range flC06Probes {
		vs.G.Add(p, 0)
	}
	ppMode := vs.Config() == "ppcont"
	meta := vs.Bool(c)
	reuse := vs.Bool(c)
	mode := c.Intn(3)
	g := flNewGen(c, tr)
	g.realHPACK, g.ppChains, g.checkWire = meta, ppMode, true
	switch k := c.Intn(10); {
	case k < 6:
		g.maxPayload = 64
	case k < 9:
		g.maxPayload = 1024
	default:
		g.maxPayload = vs.Thorough(17000, 70000)
	}
	tr.Ev("cfg meta=%v reuse=%v chunk=%d maxpayload=%d pp=%v", meta, reuse, mode, g.maxPayload, ppMode)
	nops := vs.Range(c, 1, 40)
	hugeAt := -1
	if c.Intn(vs.Thorough(3000, 1000)) == 1777%vs.Thorough(3000, 1000) {
		hugeAt = c.Intn(nops)
		if mode == 1 {
			mode = 2
		}
	}
	for op := 0; len(g.specs) < nops && op < nops && g.viol == nil; op++ {
		switch {
		case op == hugeAt:
			g.genHuge()
		case ppMode && vs.Bool(c):
			g.genBlockFrames(FramePushPromise)
		default:
			g.genOp()
		}
	}
	viol := g.viol
	specs := g.specs
	stream := g.buf.Bytes()
	maxLen := 0
	for _, s := range specs {
		maxLen = max(maxLen, s.wireLen())
	}
	tape := vs.DrawTape(rt, 48)
	rd := &flChunkReader{b: stream, tape: tape, mode: mode, eofData: vs.Bool(c)}
	fr := NewFramer(nil, rd)
	fr.logReads = false
	if reuse {
		fr.SetReuseFrames()
	}
	if meta {
		fr.ReadMetaHeaders = hpack.NewDecoder(4096, nil)
	}
	exact := false
	switch c.Intn(3) {
	case 1:
		fr.SetMaxReadFrameSize(uint32(maxLen))
		exact = true
	case 2:
		fr.SetMaxReadFrameSize(uint32(max(maxLen, minMaxFrameSize)))
	}
	tr.Ev("read maxread_exact=%v frames=%d bytes=%d", exact, len(specs), len(stream))
	dataFrames := 0
	reads := 0
	for i := 0; i < len(specs) && viol == nil; {
		s := specs[i]
		last := i
		if meta && s.typ == FrameHeaders {
			last = s.chainEnd
		}
		name := flTypeName(s.typ)
		if s.byPP && s.typ == FrameContinuation {
			name += ":pp_block"
		}
		var f Frame
		var err error
		if viol = vs.Guard("C06", "panic_in_readframe:"+name, func() { f, err = fr.ReadFrame() }); viol != nil {
			tr.Ev("r #%d -> PANIC", i)
			break
		}
		reads++
		if err != nil || f == nil {
			tr.Ev("r #%d %s -> error %v", i, name, err)
			viol = vs.Violf("C06", "read_error", name, "frame #%d %s (flags=%02x stream=%d length=%d raw=%v, meta=%v) written by the Framer was not read back: ReadFrame error %v (detail: %v)",
				i, name, uint8(s.flags), s.stream, s.wireLen(), s.raw, meta, err, fr.ErrorDetail())
			break
		}
		var cmp *vs.Violation
		if viol = vs.Guard("C06", "panic_in_accessor:"+name, func() { cmp = flCompare(s, f, meta) }); viol == nil {
			viol = cmp
		}
		if viol != nil {
			tr.Ev("r #%d %s -> MISMATCH", i, name)
			break
		}
		if rd.off != specs[last].end {
			viol = vs.Violf("C06", "consumed_offset", name, "after reading frame #%d %s the reader consumed %d stream bytes; the frame (block) ends at %d", i, name, rd.off, specs[last].end)
			break
		}
		tr.Ev("r #%d..%d %s ok", i, last, name)
		// probes
		if last > i {
			vs.G.Inc("probe.meta_continuation_merged")
		}
		if exact && s.wireLen() == maxLen {
			vs.G.Inc("probe.max_read_exact")
		}
		if s.typ == FrameData {
			dataFrames++
			if reuse && dataFrames == 2 {
				vs.G.Inc("probe.reuse_second_dataframe")
			}
			if s.wireLen() >= 1<<24-4 {
				vs.G.Inc("probe.huge_frame_read")
			}
		}
		if s.pad == 0 {
			vs.G.Inc("probe.padded_zero_pad")
		}
		if s.raw && s.typ <= FrameContinuation {
			vs.G.Inc("probe.raw_known_extra_flags")
		}
		if s.stream == 1<<31-1 {
			vs.G.Inc("probe.stream_id_max")
		}
		if s.typ == FrameContinuation {
			vs.G.Inc("probe.continuation_read_raw")
		}
		i = last + 1
	}
	vs.G.Add("probe.zero_len_read", int64(rd.nzero))
	vs.G.Add("probe.short_read", int64(rd.nshort))
	vs.G.Add("frames_written", int64(len(specs)))
	vs.G.EndRun(tr, reads > 0, 0, func() any {
		return map[string]any{"meta": meta, "reuse": reuse, "chunk_mode": mode, "events": tr.Log[:min(len(tr.Log), 40)]}
	})
	vs.Report(rt, viol, tr)
}

func TestVerif_C06(t *testing.T) { vs.Check(t, flRunC06) }

// ---------------------------------------------------------------------------
// C07: independent wire parser and frame-sequence validator (RFC 9113 sections
// 4.1, 4.2, 4.3, 6.1-6.10; RFC 9218 section 7.1 for PRIORITY_UPDATE). It does
// not use any code of frame.go.

type flWire struct {
	start    int
	hdrOK    bool // nine header octets present
	length   int
	typ      uint8
	flags    uint8
	stream   uint32 // reserved bit removed
	payEnd   int
	complete bool
	payload  []byte
}

func flParseWire(b []byte) []flWire {
	var out []flWire
	off := 0
	for off < len(b) {
		w := flWire{start: off}
		if len(b)-off < 9 {
			w.payEnd = len(b)
			out = append(out, w)
			break
		}
		w.hdrOK = true
		w.length = int(b[off])<<16 | int(b[off+1])<<8 | int(b[off+2])
		w.typ, w.flags = b[off+3], b[off+4]
		w.stream = (uint32(b[off+5])<<24 | uint32(b[off+6])<<16 | uint32(b[off+7])<<8 | uint32(b[off+8])) & 0x7fffffff
		w.payEnd = off + 9 + w.length
		if w.payEnd <= len(b) {
			w.complete = true
			w.payload = b[off+9 : w.payEnd]
		}
		out = append(out, w)
		if !w.complete {
			break
		}
		off = w.payEnd
	}
	return out
}

func flWireTypeName(t uint8) string {
	names := [...]string{"DATA", "HEADERS", "PRIORITY", "RST_STREAM", "SETTINGS", "PUSH_PROMISE", "PING", "GOAWAY", "WINDOW_UPDATE", "CONTINUATION"}
	if int(t) < len(names) {
		return names[t]
	}
	if t == 0x10 {
		return "PRIORITY_UPDATE"
	}
	return "UNKNOWN"
}

type flValidator struct {
	maxRead  int  // configured maximum frame size of the reader
	ppStrict bool // treat a block opened by PUSH_PROMISE like one opened by HEADERS
	open     uint32
	openByPP bool
}

// step classifies the next frame of the sequence. class is "" when nothing in
// RFC 9113 obliges the receiver to reject the frame; otherwise it names the rule
// (oracle id) and sig the situation.
func (v *flValidator) step(w flWire) (class, sig string) {
	name := flWireTypeName(w.typ)
	set := func(c, s string) {
		if class == "" {
			class, sig = c, s+":"+name
		}
	}
	if !w.hdrOK {
		return "truncated", "header"
	}
	// 4.2: a frame larger than the receiver's SETTINGS_MAX_FRAME_SIZE.
	if w.length > v.maxRead {
		set("oversize", "length_above_max_read_size")
	}
	// 4.3 / 6.10: field blocks are contiguous.
	const (
		tData, tHeaders, tPriority, tRST, tSettings, tPush, tPing, tGoAway, tWindow, tCont = 0, 1, 2, 3, 4, 5, 6, 7, 8, 9
		tPrioUpdate                                                                        = 0x10
	)
	if v.open != 0 {
		if w.typ != tCont || w.stream != v.open {
			if v.openByPP && !v.ppStrict {
				// don't-care (see file comment); continue as if the block had ended
				v.open, v.openByPP = 0, false
			} else if v.openByPP {
				set("must_error_contiguity", "inside_push_promise_block")
			} else if w.typ != tCont {
				set("must_error_contiguity", "inside_headers_block")
			} else {
				set("must_error_contiguity", "continuation_on_other_stream")
			}
		}
	}
	if v.open == 0 && w.typ == tCont {
		set("must_error_contiguity", "continuation_without_open_block")
	}
	// 6.x: stream identifier rules.
	switch w.typ {
	case tData, tHeaders, tPriority, tRST, tPush, tCont:
		if w.stream == 0 {
			set("must_error_streamid", "stream_zero")
		}
	case tSettings, tPing, tGoAway, tPrioUpdate:
		if w.stream != 0 {
			set("must_error_streamid", "stream_nonzero")
		}
	}
	// 4.2 / 6.x: frame size rules (only decidable on a complete payload for padding).
	l := w.length
	padded := w.flags&0x8 != 0
	short := func() { set("must_error_framesize", "too_short") }
	padRule := func(fixed int) {
		if !padded {
			if l < fixed {
				short()
			}
			return
		}
		if l < fixed+1 {
			short()
			return
		}
		if w.complete && int(w.payload[0]) > l-fixed-1 {
			set("must_error_framesize", "padding_exceeds_payload")
		}
	}
	switch w.typ {
	case tData:
		padRule(0)
	case tHeaders:
		if w.flags&0x20 != 0 {
			padRule(5)
		} else {
			padRule(0)
		}
	case tPriority:
		if l != 5 {
			set("must_error_framesize", "length_not_5")
		}
	case tRST:
		if l != 4 {
			set("must_error_framesize", "length_not_4")
		}
	case tSettings:
		if w.flags&0x1 != 0 && l != 0 {
			set("must_error_framesize", "ack_with_payload")
		} else if l%6 != 0 {
			set("must_error_framesize", "length_not_multiple_of_6")
		}
	case tPush:
		padRule(4)
	case tPing:
		if l != 8 {
			set("must_error_framesize", "length_not_8")
		}
	case tGoAway:
		if l < 8 {
			short()
		}
	case tWindow:
		if l != 4 {
			set("must_error_framesize", "length_not_4")
		}
	case tPrioUpdate:
		if l < 4 {
			short()
		}
	}
	if !w.complete {
		set("truncated", "payload")
	}
	// state
	switch w.typ {
	case tHeaders:
		if w.flags&0x4 == 0 {
			v.open, v.openByPP = w.stream, false
		} else {
			v.open = 0
		}
	case tPush:
		if v.open == 0 && w.flags&0x4 == 0 {
			v.open, v.openByPP = w.stream, true
		}
	case tCont:
		if w.flags&0x4 != 0 {
			v.open, v.openByPP = 0, false
		} else if v.open == 0 {
			v.open = w.stream
		}
	}
	return class, sig
}

// Field validity, written from RFC 9110 section 5.1 / 5.5 and RFC 9113 section 8.2.1 / 8.3.

func flValidName(s string) bool {
	if len(s) == 0 {
		return false
	}
	for i := 0; i < len(s); i++ {
		b := s[i]
		switch {
		case b >= 'a' && b <= 'z', b >= '0' && b <= '9':
		case b == '!' || b == '#' || b == '$' || b == '%' || b == '&' || b == '\'' || b == '*' || b == '+' ||
			b == '-' || b == '.' || b == '^' || b == '_' || b == '`' || b == '|' || b == '~':
		default:
			return false
		}
	}
	return true
}

func flValidValue(s string) bool {
	for i := 0; i < len(s); i++ {
		b := s[i]
		if b < 0x20 && b != '\t' || b == 0x7f {
			return false
		}
	}
	return true
}

// flCheckMeta checks the clauses the property states about a returned MetaHeadersFrame.
func flCheckMeta(mh *MetaHeadersFrame, maxList uint32) *vs.Violation {
	sawRegular := false
	var size uint64
	for i, hf := range mh.Fields {
		if len(hf.Name) > 0 && hf.Name[0] == ':' {
			if sawRegular {
				return vs.Violf("C07", "meta_pseudo_after_regular", "pseudo_after_regular", "field #%d %q follows a regular field in a returned MetaHeadersFrame (fields %s)", i, hf.Name, flFieldNames(mh.Fields))
			}
			switch hf.Name {
			case ":method", ":scheme", ":authority", ":path", ":status", ":protocol":
			default:
				return vs.Violf("C07", "meta_unknown_pseudo", "unknown_pseudo", "unknown pseudo-header %q in a returned MetaHeadersFrame (fields %s)", hf.Name, flFieldNames(mh.Fields))
			}
			for _, prev := range mh.Fields[:i] {
				if prev.Name == hf.Name {
					return vs.Violf("C07", "meta_duplicate_pseudo", "duplicate_pseudo", "duplicate pseudo-header %q in a returned MetaHeadersFrame (fields %s)", hf.Name, flFieldNames(mh.Fields))
				}
			}
		} else {
			sawRegular = true
			if !flValidName(hf.Name) {
				return vs.Violf("C07", "meta_invalid_name", "invalid_name", "field #%d has invalid name %q in a returned MetaHeadersFrame", i, hf.Name)
			}
		}
		if !flValidValue(hf.Value) {
			return vs.Violf("C07", "meta_invalid_value", "invalid_value", "field #%d %q has invalid value %q in a returned MetaHeadersFrame", i, hf.Name, hf.Value)
		}
		size += uint64(len(hf.Name) + len(hf.Value) + 32)
	}
	if maxList != 0 && !mh.Truncated && size > uint64(maxList) {
		return vs.Violf("C07", "meta_size_over_limit", "size_over_limit", "returned MetaHeadersFrame holds %d fields of total size %d > MaxHeaderListSize %d and is not marked Truncated", len(mh.Fields), size, maxList)
	}
	return nil
}

func flFieldNames(fs []hpack.HeaderField) string {
	var sb bytes.Buffer
	for i, f := range fs {
		if i > 0 {
			sb.WriteByte(' ')
		}
		fmt.Fprintf(&sb, "%q", f.Name)
	}
	return sb.String()
}

// flTouch calls the public accessors of a freshly returned frame.
func flTouch(f Frame) {
	switch f := f.(type) {
	case *DataFrame:
		_ = f.Data()
		_ = f.StreamEnded()
	case *HeadersFrame:
		_ = f.HeaderBlockFragment()
		_ = f.HasPriority()
	case *MetaHeadersFrame:
		_ = f.PseudoFields()
		_ = f.RegularFields()
		_ = f.PseudoValue("path")
	case *SettingsFrame:
		_ = f.HasDuplicates()
		_, _ = f.Value(SettingMaxFrameSize)
		n := 0
		f.ForeachSetting(func(Setting) error { n++; return nil })
	case *GoAwayFrame:
		_ = f.DebugData()
	case *UnknownFrame:
		_ = f.Payload()
	case *ContinuationFrame:
		_ = f.HeaderBlockFragment()
	case *PushPromiseFrame:
		_ = f.HeaderBlockFragment()
	}
}

// ---------------------------------------------------------------------------
// C07: damage in flight.

type flDamager struct {
	c       vs.Chooser
	tr      *vs.Trace
	maxRead int
	other   func() []byte // a second, independent valid session (splice)
	fired   []string
}

func (d *flDamager) fire(kind string, format string, args ...any) {
	d.fired = append(d.fired, kind)
	d.tr.Ev("fault %s "+format, append([]any{kind}, args...)...)
}

// pickFrame returns the index of a complete-header frame, preferring one for which want is true.
func (d *flDamager) pickFrame(ws []flWire, want func(flWire) bool) int {
	var cand []int
	for i, w := range ws {
		if w.hdrOK && want != nil && want(w) {
			cand = append(cand, i)
		}
	}
	if len(cand) > 0 {
		return cand[d.c.Intn(len(cand))]
	}
	n := 0
	for _, w := range ws {
		if w.hdrOK {
			n++
		}
	}
	if n == 0 {
		return -1
	}
	return d.c.Intn(n)
}

func flSmallFrame(c vs.Chooser) []byte {
	switch c.Intn(5) {
	case 0:
		return flAppendFrame(nil, FramePing, 0, 0, make([]byte, 8))
	case 1:
		return flAppendFrame(nil, FrameData, 0, uint32(1+2*c.Intn(4)), []byte("x"))
	case 2:
		return flAppendFrame(nil, FrameWindowUpdate, 0, 0, []byte{0, 0, 0, 1})
	case 3:
		return flAppendFrame(nil, FrameHeaders, FlagHeadersEndHeaders, uint32(1+2*c.Intn(4)), []byte{0x82})
	default:
		return flAppendFrame(nil, FrameType(0x20+c.Intn(4)), Flags(c.Intn(256)), uint32(c.Intn(4)), []byte("ext"))
	}
}

// apply performs one damage operator on b and returns the damaged stream.
func (d *flDamager) apply(b []byte) []byte {
	c := d.c
	ws := flParseWire(b)
	b = append([]byte(nil), b...)
	isCont := func(w flWire) bool { return w.typ == 9 }
	isBlock := func(w flWire) bool { return w.typ == 1 || w.typ == 9 || w.typ == 5 }
	switch op := c.Intn(14); op {
	case 0: // bit flips
		if len(b) == 0 {
			return b
		}
		n := 1 + c.Intn(4)
		for k := 0; k < n; k++ {
			pos := c.Intn(len(b))
			if i := d.pickFrame(ws, nil); i >= 0 && vs.Bool(c) {
				pos = ws[i].start + c.Intn(9)
			}
			bit := c.Intn(8)
			b[pos] ^= 1 << bit
			d.fire("bitflip", "@%d bit %d", pos, bit)
		}
	case 1: // truncation
		if len(b) == 0 {
			return b
		}
		cut := c.Intn(len(b))
		if i := d.pickFrame(ws, nil); i >= 0 && vs.Bool(c) {
			cut = min(len(b)-1, ws[i].start+c.Intn(12))
		}
		b = b[:cut]
		d.fire("truncate", "@%d", cut)
	case 2: // splice of two sessions
		o := d.other()
		cutA, cutB := c.Intn(len(b)+1), c.Intn(len(o)+1)
		if i := d.pickFrame(ws, nil); i >= 0 && vs.Bool(c) {
			cutA = ws[i].start
		}
		b = append(b[:cutA], o[cutB:]...)
		d.fire("splice", "a[:%d]+b[%d:]", cutA, cutB)
	case 3: // length field edit
		i := d.pickFrame(ws, nil)
		if i < 0 {
			return b
		}
		l := ws[i].length
		nl := vs.Pick(c, l+1, l-1, 0, l+9, d.maxRead+1, 0xffffff, l+6, c.Intn(1<<24))
		if nl < 0 || nl > 0xffffff || nl == l {
			nl = l + 1
		}
		o := ws[i].start
		b[o], b[o+1], b[o+2] = byte(nl>>16), byte(nl>>8), byte(nl)
		d.fire("len_edit", "frame %d %s %d->%d", i, flWireTypeName(ws[i].typ), l, nl)
	case 4: // type edit
		i := d.pickFrame(ws, nil)
		if i < 0 {
			return b
		}
		nt := uint8(vs.Pick(c, 0, 1, 2, 3, 4, 5, 6, 7, 8, 9, 0x10, c.Intn(256)))
		if nt == ws[i].typ {
			nt = (nt + 1) % 10
		}
		b[ws[i].start+3] = nt
		d.fire("type_edit", "frame %d %s->%s(%d)", i, flWireTypeName(ws[i].typ), flWireTypeName(nt), nt)
	case 5: // CONTINUATION moved to another stream
		i := d.pickFrame(ws, isCont)
		if i < 0 || !isCont(ws[i]) {
			return b
		}
		ns := vs.Pick(c, ws[i].stream+2, 0, ws[i].stream+1, ws[i].stream^1, uint32(1+c.Intn(1<<31-1)))
		ns &= 0x7fffffff
		if ns == ws[i].stream {
			ns = ws[i].stream + 2
		}
		binary.BigEndian.PutUint32(b[ws[i].start+5:], ns)
		d.fire("cont_other_stream", "frame %d stream %d->%d", i, ws[i].stream, ns)
	case 6: // stream id edit (incl. the reserved bit)
		i := d.pickFrame(ws, nil)
		if i < 0 {
			return b
		}
		s := ws[i].stream
		ns := vs.Pick(c, 0, 1, s+2, s|0x80000000, 0x80000000, uint32(c.Intn(1<<32)))
		binary.BigEndian.PutUint32(b[ws[i].start+5:], ns)
		d.fire("stream_edit", "frame %d %s stream %d->%#x", i, flWireTypeName(ws[i].typ), s, ns)
	case 7: // flag edit
		i := d.pickFrame(ws, isBlock)
		if i < 0 {
			return b
		}
		bit := uint8(vs.Pick(c, 0x4, 0x8, 0x20, 0x1, 1<<c.Intn(8)))
		b[ws[i].start+4] ^= bit
		d.fire("flag_edit", "frame %d %s flags %02x^%02x", i, flWireTypeName(ws[i].typ), ws[i].flags, bit)
	case 8: // a frame inserted (inside a field block when there is one)
		i := d.pickFrame(ws, isCont)
		if i < 0 {
			return b
		}
		ins := flSmallFrame(c)
		at := ws[i].start
		b = append(b[:at:at], append(ins, b[at:]...)...)
		if isCont(ws[i]) {
			d.fire("interleave", "before frame %d: %s", i, vs.Hex(ins))
		} else {
			d.fire("insert_frame", "before frame %d: %s", i, vs.Hex(ins))
		}
	case 9: // a frame dropped
		i := d.pickFrame(ws, isBlock)
		if i < 0 || !ws[i].complete {
			return b
		}
		b = append(b[:ws[i].start:ws[i].start], b[ws[i].payEnd:]...)
		d.fire("drop_frame", "frame %d %s", i, flWireTypeName(ws[i].typ))
	case 10: // a frame duplicated
		i := d.pickFrame(ws, isBlock)
		if i < 0 || !ws[i].complete {
			return b
		}
		dup := append([]byte(nil), b[ws[i].start:ws[i].payEnd]...)
		at := ws[i].payEnd
		b = append(b[:at:at], append(dup, b[at:]...)...)
		d.fire("dup_frame", "frame %d %s", i, flWireTypeName(ws[i].typ))
	case 11: // two neighbours swapped
		i := d.pickFrame(ws, isBlock)
		if i < 0 || i+1 >= len(ws) || !ws[i+1].complete {
			return b
		}
		x := append([]byte(nil), b[ws[i].start:ws[i].payEnd]...)
		y := append([]byte(nil), b[ws[i+1].start:ws[i+1].payEnd]...)
		copy(b[ws[i].start:], y)
		copy(b[ws[i].start+len(y):], x)
		d.fire("swap_frames", "frames %d,%d", i, i+1)
	case 12: // pad length edit / PADDED set on an unpadded frame
		i := d.pickFrame(ws, func(w flWire) bool { return (w.typ == 0 || w.typ == 1 || w.typ == 5) && w.length > 0 && w.complete })
		if i < 0 || ws[i].length == 0 || !ws[i].complete {
			return b
		}
		l := ws[i].length
		if ws[i].flags&0x8 != 0 {
			np := byte(vs.Pick(c, l, l-1, 255, l+1, l-5, l-6, c.Intn(256)))
			b[ws[i].start+9] = np
			d.fire("pad_edit", "frame %d %s len=%d pad->%d", i, flWireTypeName(ws[i].typ), l, np)
		} else {
			b[ws[i].start+4] |= 0x8
			d.fire("pad_flag_set", "frame %d %s len=%d first octet %d", i, flWireTypeName(ws[i].typ), l, b[ws[i].start+9])
		}
	default: // payload octet overwritten (fixed-length frames, SETTINGS values, HPACK)
		i := d.pickFrame(ws, func(w flWire) bool { return w.length > 0 && w.complete })
		if i < 0 || ws[i].length == 0 || !ws[i].complete {
			return b
		}
		pos := ws[i].start + 9 + c.Intn(ws[i].length)
		nv := byte(vs.Pick(c, 0, 0xff, 0x80, c.Intn(256)))
		b[pos] = nv
		d.fire("payload_edit", "frame %d %s @%d=%02x", i, flWireTypeName(ws[i].typ), pos, nv)
	}
	return b
}

// flRandomFrames builds a stream of syntactically framed but otherwise random frames.
func flRandomFrames(c vs.Chooser) []byte {
	var b []byte
	n := 1 + c.Intn(8)
	for i := 0; i < n; i++ {
		typ := FrameType(vs.Pick(c, 0, 1, 2, 3, 4, 5, 6, 7, 8, 9, 0x10, c.Intn(256)))
		flags := Flags(vs.Pick(c, 0, 0x4, 0x8, 0x1, 0x20, 0x2c, c.Intn(256)))
		stream := uint32(vs.Pick(c, 0, 1, 3, 1<<31-1, c.Intn(1<<32)))
		l := vs.Pick(c, 0, 4, 5, 8, 6, 1, 12, c.Intn(40))
		p := make([]byte, l)
		for j := range p {
			p[j] = byte(vs.Pick(c, 0, 1, 0x82, 0xff, c.Intn(256)))
		}
		b = flAppendFrame(b, typ, flags, stream, p)
	}
	return b
}

// flSession generates one valid session with the real writer and encoder.
func flSession(c vs.Chooser, tr *vs.Trace, hdrFaults, ppChains bool) *flGen {
	g := flNewGen(c, tr)
	g.realHPACK, g.hdrFaults, g.ppChains = true, hdrFaults, ppChains
	g.bigLists = vs.Pct(c, 25)
	g.maxPayload = vs.Pick(c, 16, 64, 300, 2000)
	g.maxChain = 6
	g.streams = []uint32{1, 3, 5, 7, 2}
	n := vs.Range(c, 1, 12)
	for op := 0; op < n && len(g.specs) < 24 && g.viol == nil; op++ {
		switch k := c.Intn(10); {
		case k < 4:
			g.genBlockFrames(FrameHeaders)
		case k == 4 || ppChains && k < 7:
			g.genBlockFrames(FramePushPromise)
		case k == 5:
			g.genData()
		default:
			g.genOp()
		}
	}
	return g
}

var flC07Probes = []string{"probe.must_error_rejected", "probe.rejected_dontcare", "probe.stream_error_then_continue",
	"probe.meta_returned", "probe.meta_truncated", "probe.frames_ok_after_damage", "probe.error_with_frame",
	"probe.oversize_rejected", "probe.meta_invalid_rejected", "probe.clean_eof"}

func flErrClass(err error) string {
	switch e := err.(type) {
	case ConnectionError:
		return "conn:" + ErrCode(e).String()
	case StreamError:
		return "stream:" + e.Code.String()
	}
	if err == ErrFrameTooLarge {
		return "too_large"
	}
	return "other:" + err.Error()
}

func flRunC07(rt *rapid.T) {
	c := vs.RapidChooser{T: rt}
	tr := vs.NewTrace()
	for _, p := range flC07Probes {
		vs.G.Add(p, 0)
	}
	ppMode := vs.Config() == "ppcont"

	// reader configuration
	meta := c.Intn(3) != 1
	reuse := vs.Bool(c)
	maxReadSet := c.Intn(3) != 0
	maxRead := 1<<24 - 1
	if maxReadSet {
		maxRead = vs.Pick(c, 16384, 0, 1, 8, 9, 64, 100, 16383, 1<<20, 1<<24-1, c.Intn(400))
	}
	maxList := uint32(0)
	if meta && vs.Bool(c) {
		maxList = uint32(vs.Pick(c, 65536, 1, 31, 32, 33, 64, 100, 256, 1000, 4096, c.Intn(3000)))
	}

	// workload
	var stream []byte
	var fired []string
	var hdrKinds []string
	var listSizes []int
	switch m := c.Intn(10); {
	case m == 8:
		stream = flRandomFrames(c)
		fired = append(fired, "random_frames")
		tr.Ev("fault random_frames %s", vs.Hex(stream))
	case m == 9:
		stream = rapid.SliceOfN(rapid.Byte(), 0, 64).Draw(rt, "bytes")
		fired = append(fired, "random_bytes")
		tr.Ev("fault random_bytes %s", vs.Hex(stream))
	default:
		g := flSession(c, tr, true, ppMode || vs.Pct(c, 10))
		if g.viol != nil {
			return // a writer problem is C06's business
		}
		stream = append([]byte(nil), g.buf.Bytes()...)
		hdrKinds, listSizes = g.hdrKinds, g.listSizes
		nd := 0
		if m != 7 {
			nd = 1 + c.Intn(3)
		}
		if ppMode {
			nd = c.Intn(2)
		}
		d := &flDamager{c: c, tr: tr, maxRead: maxRead}
		d.other = func() []byte {
			o := flSession(c, tr, false, false)
			return o.buf.Bytes()
		}
		for k := 0; k < nd; k++ {
			stream = d.apply(stream)
		}
		fired = append(fired, d.fired...)
	}
	if maxList != 0 && len(listSizes) > 0 && vs.Pct(c, 30) {
		// a limit right at the size of one of the lists
		maxList = uint32(max(1, listSizes[c.Intn(len(listSizes))]+c.Intn(3)-1))
	}
	wires := flParseWire(stream)
	if maxReadSet && len(wires) > 0 && vs.Pct(c, 30) {
		// a limit right at the length of one of the frames
		maxRead = max(0, wires[c.Intn(len(wires))].length+c.Intn(3)-1)
	}
	for _, k := range hdrKinds {
		fired = append(fired, k)
		tr.Ev("fault %s", k)
	}
	if maxList != 0 {
		for _, sz := range listSizes {
			if sz > int(maxList) {
				fired = append(fired, "oversize_header_list")
				tr.Ev("fault oversize_header_list %d>%d", sz, maxList)
				break
			}
		}
	}
	for _, w := range wires {
		if w.hdrOK && w.length > maxRead {
			fired = append(fired, "frame_above_max_read")
			tr.Ev("fault frame_above_max_read %d>%d", w.length, maxRead)
			break
		}
	}
	for _, k := range fired {
		vs.G.Inc("fault." + k)
	}

	tape := vs.DrawTape(rt, 32)
	rd := &flChunkReader{b: stream, tape: tape, mode: c.Intn(3), eofData: vs.Bool(c)}
	fr := NewFramer(nil, rd)
	fr.logReads = false
	if reuse {
		fr.SetReuseFrames()
	}
	if meta {
		fr.ReadMetaHeaders = hpack.NewDecoder(4096, nil)
		fr.MaxHeaderListSize = maxList
	}
	if maxReadSet {
		fr.SetMaxReadFrameSize(uint32(maxRead))
	}
	tr.Ev("cfg meta=%v reuse=%v maxread=%d(set=%v) maxlist=%d chunk=%d bytes=%d frames=%d pp=%v", meta, reuse, maxRead, maxReadSet, maxList, rd.mode, len(stream), len(wires), ppMode)

	val := &flValidator{maxRead: maxRead, ppStrict: ppMode}
	var viol *vs.Violation
	wi := 0
	reads := 0
	sawError := false
	for calls := 0; calls < len(wires)+3 && viol == nil; calls++ {
		startOff := rd.off
		var f Frame
		var err error
		if viol = vs.Guard("C07", "panic_in_readframe", func() { f, err = fr.ReadFrame() }); viol != nil {
			tr.Ev("read -> PANIC")
			break
		}
		reads++
		endOff := rd.off
		// wire frames this call consumed (at least their first octet)
		first := wi
		var class, sig string
		var bad flWire
		for wi < len(wires) && wires[wi].start < endOff {
			cl, sg := val.step(wires[wi])
			if cl != "" && class == "" {
				class, sig, bad = cl, sg, wires[wi]
			}
			wi++
		}
		if err != nil {
			tr.Ev("read -> %s (frames %d..%d, validator %q)", flErrClass(err), first, wi-1, class)
			switch {
			case class == "" && wi > first:
				vs.G.Inc("probe.rejected_dontcare")
			case class == "oversize":
				vs.G.Inc("probe.oversize_rejected")
				vs.G.Inc("probe.must_error_rejected")
			case class != "" && class != "truncated":
				vs.G.Inc("probe.must_error_rejected")
			}
			if err == io.EOF && startOff == len(stream) {
				vs.G.Inc("probe.clean_eof")
			}
			if f != nil {
				vs.G.Inc("probe.error_with_frame")
			}
			if se, ok := err.(StreamError); ok {
				if se.Cause != nil && meta {
					vs.G.Inc("probe.meta_invalid_rejected")
				}
				vs.G.Inc("probe.stream_error_then_continue")
				sawError = true
				continue
			}
			break
		}
		if f == nil {
			tr.Ev("read -> nil frame, nil error")
			break
		}
		fh := f.Header()
		tr.Ev("read -> ok %T type=%d len=%d stream=%d (frames %d..%d)", f, uint8(fh.Type), fh.Length, fh.StreamID, first, wi-1)
		if wi == first || !wires[wi-1].complete || endOff != wires[wi-1].payEnd || startOff != wires[first].start {
			// The reader's idea of the frame boundaries differs from the wire's:
			// nothing further can be attributed to a frame (C06 checks lengths).
			vs.G.Inc("probe.desync")
			break
		}
		if maxReadSet && int(fh.Length) > maxRead {
			viol = vs.Violf("C07", "frame_longer_than_max", flTypeName(fh.Type), "ReadFrame returned a %v frame of length %d with SetMaxReadFrameSize(%d)", fh.Type, fh.Length, maxRead)
			break
		}
		if class != "" {
			viol = vs.Violf("C07", class, sig, "ReadFrame returned %T without error, but wire frame %s (type=%d flags=%02x stream=%d length=%d payload=%s, max read size %d) must be rejected: %s",
				f, flWireTypeName(bad.typ), bad.typ, bad.flags, bad.stream, bad.length, vs.Hex(bad.payload), maxRead, sig)
			break
		}
		if viol = vs.Guard("C07", "panic_in_accessor:"+flTypeName(fh.Type), func() { flTouch(f) }); viol != nil {
			break
		}
		if mh, ok := f.(*MetaHeadersFrame); ok {
			vs.G.Inc("probe.meta_returned")
			if mh.Truncated {
				vs.G.Inc("probe.meta_truncated")
			}
			if viol = flCheckMeta(mh, maxList); viol != nil {
				break
			}
		}
		if len(fired) > 0 || sawError {
			vs.G.Inc("probe.frames_ok_after_damage")
		}
	}
	vs.G.EndRun(tr, reads > 0 && len(fired) > 0, 0, func() any {
		return map[string]any{"faults": fired, "events": tr.Log[:min(len(tr.Log), 40)]}
	})
	vs.Report(rt, viol, tr)
}

func TestVerif_C07(t *testing.T) { vs.Check(t, flRunC07) }
