// Engine h2e2e: the real http2.Transport (one ClientConn) and the real
// http2.Server joined by ONE simulated connection whose delivery, in both
// directions, is decided by the seeded scheduler. Caller tasks issue generated
// requests, handler tasks (attached inside the real handler goroutines) answer
// them from generated scripts, request bodies come from a simulator-owned
// io.Reader. Property C14 (clean and fault configurations).
//
// Determinism notes.
//   - The Transport ranges over the req.Header / req.Trailer maps (random order).
//     The generated request field names are unique per (request, key), values of
//     one key are consecutive on the wire, and nothing else can match them in the
//     HPACK tables; the encoded length of a header block is then independent of
//     the map order. Delivery split hints are computed from frame boundaries
//     only (heScan), never from frame contents.
//   - The Transport reads request bodies into sync.Pool buffers of varying
//     length; the body reader never returns more than the guaranteed minimum.
//   - Residual: Go's select chooses at random among ready channels inside the
//     code under test (see check and the engine JSON).
//
// Environment knobs (debugging / sensitivity work only; registered jobs set none):
//   VERIF_H2E2E_AVOID=late_trailers  do not combine request trailers with handlers
//                                    that finish before reading the body (open
//                                    finding: the server answers trailers for a
//                                    stream it has reset with GOAWAY)
//   VERIF_H2E2E_AVOID=-frame_cap     lift the cap on DATA frames per request
//   VERIF_H2E2E_FRAMES=1             log every wire frame into the trace
//   VERIF_H2E2E_DUMP=<file>          append every run's trace to <file>

//go:build !(go1.27 && !http2legacy)

package http2

import (
	"context"
	"errors"
	"fmt"
	"io"
	"log"
	"net/http"
	"net/url"
	"os"
	"runtime"
	"sort"
	"strconv"
	"strings"
	"sync"
	"sync/atomic"
	"testing"
	"time"

	vs "golang.org/x/net/internal/verifsim"
	"pgregory.net/rapid"
)

// ---------------------------------------------------------------------------
// plan

type heField struct{ k, v string }

type heHOp struct {
	kind string // read, readall, header, write, flush, trailers, panic, abort, return
	n    int
}

type heReq struct {
	method    string
	path      string // path?query as it must appear in RequestURI
	hdr       []heField
	hasBody   bool
	body      int   // bytes the body reader produces
	declLen   int64 // Request.ContentLength (0 with a body = undeclared)
	chunks    []int // sizes returned by the body reader, cycled
	scratch   int   // lower bound of the Transport's read buffer: no Read returns more (see heBody.Read)
	stepped   int   // number of leading body reads that are scheduler steps
	eofData   bool  // final chunk is returned together with io.EOF
	trailers  []heField
	trLate    bool // trailer values are set when the body reaches EOF
	bodyErrAt int  // fault: body reader fails at this offset (-1 none)
	overReq   bool // request header list deliberately above the server's limit

	readSizes    []int // caller: response body read sizes, cycled
	readStepped  int   // number of leading response reads that are scheduler steps
	closeEarlyAt int   // fault: caller closes the response body after this many reads (-1 none)
	cancel       bool  // fault: the request context is cancelled
	cancelAfter  int   // ... no earlier than this many scheduler steps after RoundTrip started

	status     int
	explicit   bool // handler calls WriteHeader(status) with the generated fields
	rhdr       []heField
	rbody      int
	rdeclCL    int64 // -1: handler sets no Content-Length
	rtrailers  []heField
	rptrailers []heField
	trailerHdr []string // values of the Trailer response header
	ops        []heHOp
	readAll    bool   // the script reads the request body to the end
	mode       string // first, duplex, after, partial
	hfault     string // "", panic, abort, return
	planned    bool   // some fault is planned for this request
}

type hePlan struct {
	cfg           string
	sched         string
	maxStreams    uint32
	strict        bool // Transport.StrictMaxConcurrentStreams
	upConn        int32
	upStream      int32
	srvMaxRead    uint32
	srvDec        uint32
	srvEnc        uint32
	maxHdrBytes   int
	cliMaxRead    uint32
	cliMaxHdrList uint32
	cliDec        uint32
	cliEnc        uint32
	cliStreamWin  int
	cliConnWin    int
	boundBA       int
	boundAB       int // client->server back-pressure (needs the verif build tag of /repo: ClientConn.wmu waiters block durably)
	cutAfter      int
	reqs          []*heReq
}

const heAlnum = "abcdefghijklmnopqrstuvwxyzABCDEFGHIJKLMNOPQRSTUVWXYZ0123456789"

// heValue returns a valid field value of exactly n bytes (no leading/trailing
// whitespace; inner spaces, punctuation and UTF-8 allowed), a pure function of
// (seed, n).
func heValue(seed uint32, n int) string {
	if n <= 0 {
		return ""
	}
	b := make([]byte, 0, n)
	x := seed*2654435761 + 0x9e3779b9
	next := func() uint32 {
		x ^= x << 13
		x ^= x >> 17
		x ^= x << 5
		return x
	}
	if x == 0 {
		x = 1
	}
	for len(b) < n {
		r := next()
		rem := n - len(b)
		inner := len(b) > 0 && rem > 1
		switch (r >> 8) % 16 {
		case 0:
			if inner && b[len(b)-1] != ' ' {
				b = append(b, ' ')
				continue
			}
		case 1:
			if rem >= 2 {
				b = append(b, "é"...)
				continue
			}
		case 2:
			if rem >= 3 {
				b = append(b, "日"...)
				continue
			}
		case 3:
			if inner {
				b = append(b, ",;=/()'*~"[r%9])
				continue
			}
		}
		b = append(b, heAlnum[r%uint32(len(heAlnum))])
	}
	return string(b)
}

func heFieldSize(f heField) int { return len(f.k) + len(f.v) + 32 }

func heFieldsSize(fs []heField) int {
	n := 0
	for _, f := range fs {
		n += heFieldSize(f)
	}
	return n
}

// heDrawFields generates header fields named prefix<j>. Values of one name are
// adjacent in the result. budget bounds the header-list size of the result.
func heDrawFields(c vs.Chooser, prefix string, maxFields, budget int, big bool, sharedSeeds bool) []heField {
	var out []heField
	nf := vs.SizeBiased(c, maxFields, 1, 3)
	used := 0
	key := 0
	for len(out) < nf {
		name := prefix + strconv.Itoa(key)
		key++
		nv := 1
		if vs.Pct(c, 25) {
			nv = vs.Range(c, 2, 4)
		}
		var vals []string
		for j := 0; j < nv && len(out) < nf; j++ {
			var v string
			if len(vals) > 0 && vs.Pct(c, 30) {
				v = vals[c.Intn(len(vals))] // exact duplicate of an earlier value of this name
			} else {
				sz := vs.SizeBiased(c, 160, 0, 1, 64)
				if big && vs.Pct(c, 50) {
					sz = vs.Pick(c, 3000, 8000, 16000, 16384, 20000) + c.Intn(200)
				}
				seed := uint32(c.Intn(1 << 16))
				if sharedSeeds && vs.Bool(c) {
					seed = uint32(c.Intn(4))
				}
				v = heValue(seed, sz)
			}
			f := heField{name, v}
			if used+heFieldSize(f) > budget {
				// does not fit: try a short one, else stop
				f.v = heValue(uint32(len(out)), 3)
				if used+heFieldSize(f) > budget {
					return out
				}
			}
			used += heFieldSize(f)
			vals = append(vals, f.v)
			out = append(out, f)
		}
	}
	return out
}

func heDrawSizes(c vs.Chooser, n int, choices ...int) []int {
	out := make([]int, n)
	for i := range out {
		out[i] = vs.Pick(c, choices...)
	}
	return out
}

func heSplit(c vs.Chooser, total, maxParts int) []int {
	if total <= 0 {
		return nil
	}
	parts := vs.Range(c, 1, maxParts)
	var out []int
	rem := total
	for i := 0; i < parts-1 && rem > 1; i++ {
		k := 1 + vs.SizeBiased(c, rem-1, 1, 4095, 4096, 16384)
		if k >= rem {
			k = rem - 1
		}
		if k < 1 {
			k = 1
		}
		out = append(out, k)
		rem -= k
	}
	return append(out, rem)
}

func heDrawPlan(rt *rapid.T, cfg string) *hePlan {
	c := vs.RapidChooser{T: rt}
	fault := cfg == "fault"
	p := &hePlan{cfg: cfg, cutAfter: -1}
	p.sched = vs.Pick(c, "default", "roundrobin", "rfc7540", "rfc9218")
	p.maxStreams = uint32(vs.Pick(c, 0, 1, 2, 3, 100))
	p.strict = vs.Pct(c, 85)
	p.upConn = int32(vs.Pick(c, 0, 65535, 70000, 1<<20, 1<<24))
	p.upStream = int32(vs.Pick(c, 0, 1<<20, 65535, 5000, 1000, 37, 1, 1<<22))
	p.srvMaxRead = uint32(vs.Pick(c, 0, 16384, 16385, 20000, 65536, 1<<20, 1<<24-1))
	tbl := []int{0, 4096, 1, 32, 64, 100, 256, 1000, 65536}
	p.srvDec = uint32(vs.Pick(c, tbl...))
	p.srvEnc = uint32(vs.Pick(c, tbl...))
	p.cliDec = uint32(vs.Pick(c, tbl...))
	p.cliEnc = uint32(vs.Pick(c, tbl...))
	p.maxHdrBytes = vs.Pick(c, 0, 1<<20, 65536, 16384, 4096)
	p.cliMaxRead = uint32(vs.Pick(c, 0, 16384, 16385, 32768, 1<<20))
	p.cliMaxHdrList = uint32(vs.Pick(c, 0, 1<<20, 65536, 16384, 4096))
	if vs.Pct(c, 35) {
		p.cliStreamWin = vs.Pick(c, 65535, 5000, 1000, 100, 1<<20)
		p.cliConnWin = vs.Pick(c, 0, 65535, 70000, 1<<20)
	}
	if vs.Pct(c, 20) {
		p.boundBA = vs.Pick(c, 5000, 1, 9, 100, 70000)
	}
	if cfg == "fault" && vs.Pct(c, 25) {
		p.boundAB = vs.Pick(c, 5000, 1, 9, 100, 70000)
	}
	upStreamEff := int(p.upStream)
	if upStreamEff == 0 {
		upStreamEff = 1 << 20
	}
	cliStreamEff := p.cliStreamWin
	if cliStreamEff == 0 {
		cliStreamEff = 4 << 20
	}
	srvLimit := p.maxHdrBytes
	if srvLimit == 0 {
		srvLimit = 1 << 20
	}
	srvLimit += 320
	cliLimit := int(p.cliMaxHdrList)
	if cliLimit == 0 {
		cliLimit = 10 << 20
	}
	maxBody := vs.Thorough(64<<10, 512<<10)
	reqCap := min(maxBody, upStreamEff*100)
	respCap := min(maxBody, cliStreamEff*100)
	if p.boundBA > 0 {
		respCap = min(respCap, p.boundBA*300) // every bound-full of bytes needs a delivery step
	}
	if p.boundAB > 0 {
		reqCap = min(reqCap, p.boundAB*300)
	}
	maxHdrTotal := vs.Thorough(48000, 140000)

	n := vs.Range(c, 1, 6)
	for i := 0; i < n; i++ {
		q := &heReq{bodyErrAt: -1, closeEarlyAt: -1, rdeclCL: -1}
		q.method = vs.Pick(c, "POST", "GET", "PUT", "POST", "PUT", "GET", "POST", "HEAD")
		switch q.method {
		case "GET":
			q.hasBody = vs.Pct(c, 15)
		case "HEAD":
			q.hasBody = false
		default:
			q.hasBody = vs.Pct(c, 90)
		}
		q.path = "/r" + strconv.Itoa(i) + "/" + heValuePath(uint32(c.Intn(1<<16)), vs.SizeBiased(c, 40, 0, 1))
		if vs.Pct(c, 60) {
			q.path += "?" + heValueQuery(uint32(c.Intn(1<<16)), vs.Range(c, 0, 3))
		}

		// request trailers (need a body)
		if q.hasBody && vs.Pct(c, 35) {
			q.trailers = heDrawFields(c, "X-Vf-Tr"+strconv.Itoa(i)+"-", 6, 1500, false, false)
			q.trLate = vs.Bool(c)
		}
		var trKeys int
		for _, f := range q.trailers {
			trKeys += len(f.k) + 1
		}
		// request header fields within the server's advertised limit
		overhead := 49 + 43 + 37 + len(q.path) + 44 + 39 + trKeys + 53 + 60 + 64
		budget := min(srvLimit-overhead, maxHdrTotal)
		if vs.Pct(c, 90) && budget > 64 {
			big := vs.Pct(c, 20)
			q.hdr = heDrawFields(c, "X-Vf-R"+strconv.Itoa(i)+"-", 60, budget, big, false)
		}
		if vs.Pct(c, 3) && srvLimit <= 20000 {
			// deliberately above the limit: the Transport must refuse to send it
			q.overReq = true
			q.hdr = append(q.hdr, heField{"X-Vf-R" + strconv.Itoa(i) + "-over", heValue(uint32(i), srvLimit+200)})
		}

		// request body
		if q.hasBody {
			q.chunks = heDrawSizes(c, vs.Range(c, 1, 5), 1<<20, 1, 3, 100, 1000, 4096, 16383, 16384, 16385, 65536)
			// The Transport turns every body Read into a DATA frame. Keep the
			// number of frames of one request below ~1500: a server that has
			// already answered and reset the stream replies to each late DATA
			// frame with RST_STREAM, and more than 10000 queued control frames
			// trip its documented flood protection (connection closed).
			minChunk := q.chunks[0]
			for _, k := range q.chunks {
				minChunk = min(minChunk, k)
			}
			bcap := min(reqCap, minChunk*1500)
			if heAvoid("-frame_cap") {
				bcap = reqCap // reproduces the flood-protection observation (see the report)
			}
			q.body = min(vs.SizeBiased(c, bcap, 1, 4096, 16384, 65535, 65536), bcap)
			if vs.Pct(c, 50) && q.body > 0 {
				q.declLen = int64(q.body)
			}
			if vs.Bool(c) {
				q.stepped = vs.Range(c, 0, 8)
			}
			q.eofData = vs.Bool(c)
		}

		// caller's reads of the response body
		q.readSizes = heDrawSizes(c, vs.Range(c, 1, 5), 1<<20, 1, 7, 100, 4096, 16384, 65536)
		q.readStepped = vs.Range(c, 0, 6)

		// response
		q.status = vs.Pick(c, 200, 200, 200, 201, 404, 500, 204, 304, 200)
		q.explicit = vs.Pct(c, 85)
		if !q.explicit {
			q.status = 200
		}
		noBodyStatus := q.status == 204 || q.status == 304
		if !noBodyStatus {
			q.rbody = min(vs.SizeBiased(c, respCap, 1, 4095, 4096, 4097, 16384, 65535), respCap)
		}
		trailersOK := !noBodyStatus && q.method != "HEAD"
		if q.explicit && trailersOK && vs.Pct(c, 35) {
			q.rtrailers = heDrawFields(c, "X-Vf-Td", 5, 1200, false, true)
			seen := map[string]bool{}
			var keys []string
			for _, f := range q.rtrailers {
				if !seen[f.k] {
					seen[f.k] = true
					keys = append(keys, f.k)
				}
			}
			if vs.Bool(c) {
				q.trailerHdr = []string{strings.Join(keys, ", ")}
			} else {
				q.trailerHdr = keys
			}
		}
		if trailersOK && vs.Pct(c, 25) {
			q.rptrailers = heDrawFields(c, "X-Vf-Tp", 4, 1200, false, true)
		}
		if q.explicit {
			var tk int
			for _, v := range q.trailerHdr {
				tk += 39 + len(v)
			}
			roverhead := 42 + 68 + 53 + 65 + tk + 64
			rbudget := min(cliLimit-roverhead, maxHdrTotal)
			if vs.Pct(c, 85) && rbudget > 64 {
				q.rhdr = heDrawFields(c, "X-Vf-S", 40, rbudget, vs.Pct(c, 18), true)
			}
			if !noBodyStatus && vs.Pct(c, 30) {
				q.rdeclCL = int64(q.rbody)
			}
		}

		// handler script
		var reads, resp []heHOp
		mode := vs.Pick(c, "first", "first", "duplex", "first", "after", "partial", "first", "duplex")
		if q.status > 299 && (mode == "duplex" || mode == "after") {
			// the Transport stops sending the body once it sees such a status
			mode = "first"
		}
		q.mode = mode
		q.readAll = mode != "partial"
		for j, k := 0, vs.Range(c, 0, 3); j < k; j++ {
			reads = append(reads, heHOp{kind: "read", n: vs.Pick(c, 1, 10, 1000, 4096, 16384, 70000)})
		}
		if q.readAll {
			reads = append(reads, heHOp{kind: "readall", n: vs.Pick(c, 1<<16, 1, 100, 4096, 16384)})
		}
		if q.explicit {
			resp = append(resp, heHOp{kind: "header"})
			if vs.Pct(c, 30) {
				resp = append(resp, heHOp{kind: "flush"})
			}
		}
		ws := heSplit(c, q.rbody, 6)
		for j, w := range ws {
			resp = append(resp, heHOp{kind: "write", n: w})
			if vs.Pct(c, 35) && !(j == len(ws)-1 && vs.Bool(c)) {
				resp = append(resp, heHOp{kind: "flush"})
			}
		}
		if len(q.rtrailers)+len(q.rptrailers) > 0 {
			resp = append(resp, heHOp{kind: "trailers"})
			if vs.Pct(c, 20) {
				resp = append(resp, heHOp{kind: "flush"})
			}
		}
		switch mode {
		case "first", "partial":
			q.ops = append(reads, resp...)
		case "after":
			q.ops = append(resp, reads...)
		case "duplex":
			for len(reads) > 0 || len(resp) > 0 {
				if len(resp) == 0 || (len(reads) > 0 && vs.Bool(c)) {
					q.ops = append(q.ops, reads[0])
					reads = reads[1:]
				} else {
					q.ops = append(q.ops, resp[0])
					resp = resp[1:]
				}
			}
		}

		// faults
		if fault {
			if vs.Pct(c, 20) {
				q.hfault = vs.Pick(c, "abort", "panic", "return")
				at := c.Intn(len(q.ops) + 1)
				ops := append([]heHOp{}, q.ops[:at]...)
				ops = append(ops, heHOp{kind: q.hfault})
				q.ops = append(ops, q.ops[at:]...)
				q.planned = true
			}
			if q.explicit && !noBodyStatus && vs.Pct(c, 12) {
				q.rdeclCL = int64(q.rbody + vs.Pick(c, 1, 2, 100, 5000))
				q.planned = true
			}
			if vs.Pct(c, 15) {
				q.cancel = true
				q.cancelAfter = vs.SizeBiased(c, 400, 0, 5, 50)
				q.planned = true
			}
			if vs.Pct(c, 10) {
				q.closeEarlyAt = vs.Range(c, 0, 4)
				q.planned = true
			}
			if q.hasBody && q.body > 0 && vs.Pct(c, 10) {
				q.bodyErrAt = c.Intn(q.body)
				q.planned = true
			}
			if q.hasBody && q.body > 1 && vs.Pct(c, 10) {
				if vs.Bool(c) {
					q.declLen = int64(q.body + vs.Pick(c, 1, 100, 70000)) // declares more than it sends
				} else {
					q.declLen = int64(q.body - 1 - c.Intn(min(q.body-1, 100))) // sends more than declared
				}
				q.planned = true
			}
		}
		if q.hasBody {
			// The Transport reads the body into a pooled buffer that is at least
			// min(peer's max frame size, 512 KiB, ContentLength+1) bytes long but
			// may be longer (sync.Pool leftovers of earlier connections). Reads
			// never return more than that lower bound, so that the DATA framing
			// does not depend on the state of the pool.
			q.scratch = 512 << 10
			if sm := int(p.srvMaxRead); sm != 0 {
				q.scratch = min(q.scratch, sm)
			}
			if q.declLen > 0 {
				q.scratch = min(q.scratch, int(q.declLen)+1)
			}
		}
		if q.overReq {
			q.planned = true
		}
		if heAvoid("late_trailers") && len(q.trailers) > 0 && (mode == "partial" || q.hfault != "") {
			// see heAvoid: keeps the rest of the workload usable while the
			// finding "GOAWAY on trailers for a stream the server has reset" is open
			q.trailers = nil
		}
		p.reqs = append(p.reqs, q)
	}
	if fault && vs.Pct(c, 35) {
		p.cutAfter = vs.SizeBiased(c, 1500, 0, 10, 100)
	}
	return p
}

// heAvoid reports whether $VERIF_H2E2E_AVOID lists the named workload
// restriction. Restrictions exist only to keep sensitivity runs meaningful while
// a finding on the unchanged tree is open; the registered jobs do not set it.
func heAvoid(name string) bool {
	for _, a := range strings.Split(os.Getenv("VERIF_H2E2E_AVOID"), ",") {
		if a == name {
			return true
		}
	}
	return false
}

var heDebugFrames = os.Getenv("VERIF_H2E2E_FRAMES") != ""

func heValuePath(seed uint32, n int) string {
	const set = "abcdefghijklmnopqrstuvwxyz0123456789-._~"
	b := make([]byte, n)
	x := seed*40503 + 77
	for i := range b {
		x = x*1664525 + 1013904223
		b[i] = set[(x>>16)%uint32(len(set))]
	}
	if n > 0 && b[0] == '.' {
		b[0] = 'd'
	}
	return string(b)
}

func heValueQuery(seed uint32, n int) string {
	var parts []string
	for i := 0; i < n; i++ {
		k := heValuePath(seed+uint32(i)*7, 1+int(seed+uint32(i))%5)
		v := heValuePath(seed*3+uint32(i), int(seed>>3+uint32(i))%9)
		if (seed+uint32(i))%4 == 0 {
			v += "%20%C3%A9"
		}
		parts = append(parts, k+"="+v)
	}
	return strings.Join(parts, "&")
}

// ---------------------------------------------------------------------------
// run state

func heReqByte(idx int, off int64) byte {
	return byte(((uint32(off) + uint32(idx+1)<<22) * 2654435761) >> 24)
}

func heRespByte(idx int, off int64) byte {
	return byte((((uint32(off) ^ 0x5a5a5a5a) + uint32(idx+1)<<21) * 2246822519) >> 24)
}

type heReqState struct {
	// caller side
	cStarted    bool
	cDone       bool
	startStep   int
	cancel      context.CancelFunc
	canceled    bool
	closedEarly bool
	gotResp     bool
	cRead       int64
	clog        []string
	blog        []string
	// request body reader
	bodyFault bool
	// handler side
	hCount    int
	hStarted  bool
	hDone     bool
	hHeader   bool // the "header" op was executed
	hTrailers bool // the "trailers" op was executed
	hFaulted  bool // planned panic/abort/return fired
	hRead     int64
	hWrote    int64
	hCurOp    string
	hlog      []string
}

type heRun struct {
	p    *hePlan
	sim  *vs.Sim
	conn *vs.StreamConn
	tr   *vs.Trace
	cc   *ClientConn
	step int

	mu       sync.Mutex
	reqs     []*heReqState
	viol     *vs.Violation
	ending   bool
	srvPanic any
	srvDone  bool
	faults   int
	okResp   int

	monAB, monBA *heScan
	ledAB, ledBA heLedger

	// select-race detection (see check): server frames not yet delivered
	pendBA []*heFrame
	prevBA int64
	raced  bool
	cEnded map[uint32]bool // streams on which the client has written END_STREAM
}

// heLedger is the passive flow-control ledger of one direction.
type heLedger struct {
	iw      int64 // receiver's advertised initial stream window (-1 unknown yet)
	connWU  int64
	connUse int64
	wu      map[uint32]int64
	use     map[uint32]int64
	maxFr   int64          // receiver's advertised max frame size
	hdrs    map[uint32]int // header blocks started by the sender of this direction, per stream
	rstStep map[uint32]int // scheduler step at which the sender wrote RST_STREAM, per stream
	lateTrl bool           // (c2s) trailers were written for a stream the peer had already reset
}

func (r *heRun) setViol(v *vs.Violation) {
	if v == nil {
		return
	}
	r.mu.Lock()
	if r.viol == nil && !r.ending {
		r.viol = v
	}
	r.mu.Unlock()
}

// affected reports whether an error on request i is an accepted outcome.
func (r *heRun) affected(i int) bool {
	q := r.p.reqs[i]
	r.mu.Lock()
	defer r.mu.Unlock()
	return r.ending || r.conn.IsCut() || q.planned || r.reqs[i].canceled
}

func heMultiset(fs []heField) map[string][]string {
	m := map[string][]string{}
	for _, f := range fs {
		m[f.k] = append(m[f.k], f.v)
	}
	for _, vv := range m {
		sort.Strings(vv)
	}
	return m
}

func heObserved(h http.Header, prefix string) map[string][]string {
	m := map[string][]string{}
	for k, vv := range h {
		if !strings.HasPrefix(k, prefix) || len(vv) == 0 {
			continue
		}
		c := append([]string(nil), vv...)
		sort.Strings(c)
		m[k] = c
	}
	return m
}

func heShort(s string) string {
	if len(s) > 40 {
		return fmt.Sprintf("%q…(%d bytes)", s[:40], len(s))
	}
	return strconv.Quote(s)
}

// heDiff returns "" if the two field multisets are equal.
func heDiff(exp, got map[string][]string) string {
	keys := map[string]bool{}
	for k := range exp {
		keys[k] = true
	}
	for k := range got {
		keys[k] = true
	}
	var ks []string
	for k := range keys {
		ks = append(ks, k)
	}
	sort.Strings(ks)
	for _, k := range ks {
		e, g := exp[k], got[k]
		if len(e) != len(g) {
			return fmt.Sprintf("field %s: sent %d value(s), observed %d", k, len(e), len(g))
		}
		for i := range e {
			if e[i] != g[i] {
				return fmt.Sprintf("field %s: value %d sent %s, observed %s", k, i, heShort(e[i]), heShort(g[i]))
			}
		}
	}
	return ""
}

// ---------------------------------------------------------------------------
// request body reader (simulator-owned)

var (
	errHeBodyClosed = errors.New("vf: request body closed")
	errHeBodyFault  = errors.New("vf: injected request body read error")
)

type heBody struct {
	r   *heRun
	idx int
	q   *heReq
	tk  *vs.Task
	req *http.Request

	mu     sync.Mutex
	off    int
	ci     int
	closed bool
	eof    bool
	fin    bool
	inStep bool // a Read is parked in Step: only that Read may finish the task
}

func (b *heBody) finish() {
	if !b.fin {
		b.fin = true
		b.tk.Finish()
	}
}

func (b *heBody) Close() error {
	b.mu.Lock()
	b.closed = true
	if !b.inStep {
		b.finish()
	}
	b.mu.Unlock()
	return nil
}

func (b *heBody) Read(p []byte) (n int, err error) {
	defer func() {
		if rec := recover(); rec != nil {
			if !vs.IsAbort(rec) {
				panic(rec)
			}
			b.mu.Lock()
			b.closed = true
			b.inStep = false
			b.finish()
			b.mu.Unlock()
			n, err = 0, errHeBodyClosed
		}
	}()
	b.mu.Lock()
	if b.closed {
		b.mu.Unlock()
		return 0, errHeBodyClosed
	}
	if b.eof {
		b.mu.Unlock()
		return 0, io.EOF
	}
	stepped := b.ci < b.q.stepped && b.off < b.q.body && len(p) > 0
	b.inStep = stepped
	b.mu.Unlock()
	if len(p) == 0 {
		return 0, nil
	}
	if stepped {
		b.tk.Step("body")
	}
	b.mu.Lock()
	defer b.mu.Unlock()
	b.inStep = false
	if b.closed {
		b.finish()
		return 0, errHeBodyClosed
	}
	q := b.q
	if q.bodyErrAt >= 0 && b.off >= q.bodyErrAt {
		b.r.mu.Lock()
		b.r.reqs[b.idx].bodyFault = true
		b.r.faults++
		b.r.reqs[b.idx].blog = append(b.r.reqs[b.idx].blog, fmt.Sprintf("  b%d: injected read error at %d", b.idx, b.off))
		b.r.mu.Unlock()
		vs.G.Inc("fault.req_body_error")
		b.closed = true
		b.finish()
		return 0, errHeBodyFault
	}
	k := min(len(p), q.scratch)
	if len(q.chunks) > 0 {
		k = min(k, q.chunks[b.ci%len(q.chunks)])
	}
	b.ci++
	k = min(k, q.body-b.off)
	if q.bodyErrAt >= 0 {
		k = min(k, q.bodyErrAt-b.off)
	}
	for i := 0; i < k; i++ {
		p[i] = heReqByte(b.idx, int64(b.off+i))
	}
	b.off += k
	if b.off >= q.body && (q.eofData || k == 0) {
		b.eof = true
		if q.trLate {
			for key, vv := range heMultisetOrdered(q.trailers) {
				b.req.Trailer[key] = vv
			}
		}
		if q.eofData && k > 0 {
			vs.G.Inc("probe.req_eof_with_data")
		}
		b.finish()
		return k, io.EOF
	}
	return k, nil
}

// heMultisetOrdered groups values per name keeping their order.
func heMultisetOrdered(fs []heField) map[string][]string {
	m := map[string][]string{}
	for _, f := range fs {
		m[f.k] = append(m[f.k], f.v)
	}
	return m
}

// ---------------------------------------------------------------------------
// caller

func (r *heRun) clogf(i int, format string, args ...any) {
	r.mu.Lock()
	r.reqs[i].clog = append(r.reqs[i].clog, fmt.Sprintf("  c%d: ", i)+fmt.Sprintf(format, args...))
	r.mu.Unlock()
}

func (r *heRun) hlogf(i int, format string, args ...any) {
	r.mu.Lock()
	r.reqs[i].hlog = append(r.reqs[i].hlog, fmt.Sprintf("  h%d: ", i)+fmt.Sprintf(format, args...))
	r.mu.Unlock()
}

func heErrKind(err error) string {
	switch {
	case err == nil:
		return "nil"
	case err == io.EOF:
		return "EOF"
	case err == io.ErrUnexpectedEOF:
		return "UnexpectedEOF"
	case errors.Is(err, context.Canceled):
		return "canceled"
	case errors.Is(err, errRequestHeaderListSize):
		return "req_header_list_size"
	case err == errClientConnUnusable:
		return "conn_unusable"
	}
	var se StreamError
	if errors.As(err, &se) {
		if se.Cause == errResponseHeaderListSize {
			return "resp_header_list_size"
		}
		return "stream_error_" + se.Code.String()
	}
	return "error"
}

func (r *heRun) caller(i int) func(tk *vs.Task) {
	return func(tk *vs.Task) {
		q := r.p.reqs[i]
		rs := r.reqs[i]
		defer func() {
			r.mu.Lock()
			rs.cDone = true
			r.mu.Unlock()
		}()
		<-r.cc.seenSettingsChan // the server's SETTINGS (limits) are known to the client
		tk.Step("roundtrip")
		ctx, cancel := context.WithCancel(context.Background())
		defer cancel()
		u, err := url.Parse("https://vf.test" + q.path)
		if err != nil {
			panic("vf harness: bad generated url: " + err.Error())
		}
		req := (&http.Request{Method: q.method, URL: u, Header: http.Header{}, Proto: "HTTP/1.1", ProtoMajor: 1, ProtoMinor: 1}).WithContext(ctx)
		for k, vv := range heMultisetOrdered(q.hdr) {
			req.Header[k] = vv
		}
		if q.hasBody {
			body := &heBody{r: r, idx: i, q: q, req: req}
			body.tk = r.sim.Attach(fmt.Sprintf("b%d", i))
			req.Body = body
			req.ContentLength = q.declLen
			if len(q.trailers) > 0 {
				req.Trailer = http.Header{}
				for k, vv := range heMultisetOrdered(q.trailers) {
					if q.trLate {
						req.Trailer[k] = nil
					} else {
						req.Trailer[k] = vv
					}
				}
			}
		}
		r.mu.Lock()
		rs.cStarted = true
		rs.startStep = r.step
		rs.cancel = cancel
		if q.hasBody && q.declLen != 0 && q.declLen != int64(q.body) {
			r.faults++
			vs.G.Inc("fault.req_declared_length_mismatch")
		}
		r.mu.Unlock()
		res, err := r.cc.RoundTrip(req)
		if err != nil {
			r.clogf(i, "roundtrip error %s", heErrKind(err))
			kind := heErrKind(err)
			switch {
			case q.overReq && kind == "req_header_list_size":
				vs.G.Inc("probe.req_over_limit_refused")
			case kind == "conn_unusable" && !r.p.strict && r.p.maxStreams > 0 && (int(r.p.maxStreams) < len(r.p.reqs) || r.anyCanceled()) && !r.hStartedOf(i):
				// Without StrictMaxConcurrentStreams a ClientConn at its stream
				// limit declines the request (the pool would dial another
				// connection); nothing was sent. A cancelled request keeps its
				// slot until the server has answered the PING sent with its
				// RST_STREAM (and while that write is blocked it counts twice).
				vs.G.Inc("probe.declined_at_stream_limit")
			case !r.affected(i):
				r.setViol(vs.Violf("C14", "roundtrip_error", "resp:roundtrip_error:"+kind, "request %d (%s %s): RoundTrip failed although no fault touched it: %v", i, q.method, q.path, err))
			}
			return
		}
		r.mu.Lock()
		rs.gotResp = true
		hHeader, hStarted := rs.hHeader, rs.hStarted
		r.mu.Unlock()
		r.clogf(i, "response %d", res.StatusCode)
		if q.overReq {
			r.setViol(vs.Violf("C14", "over_limit_sent", "req:over_limit_sent", "request %d: header list above the server's advertised SETTINGS_MAX_HEADER_LIST_SIZE was sent and answered %d", i, res.StatusCode))
			return
		}
		if !hStarted {
			r.setViol(vs.Violf("C14", "response_without_handler", "resp:no_handler", "request %d: response %d received but the handler never ran", i, res.StatusCode))
			return
		}
		// status and header fields: exactly what the handler set (a handler that
		// did not reach its WriteHeader answers an implicit 200 without fields)
		wantStatus, wantHdr := 200, []heField(nil)
		if hHeader {
			wantStatus, wantHdr = q.status, q.rhdr
		}
		if res.StatusCode != wantStatus {
			r.setViol(vs.Violf("C14", "response_status", "resp:status", "request %d: handler answered %d, client received %d", i, wantStatus, res.StatusCode))
			return
		}
		if d := heDiff(heMultiset(wantHdr), heObserved(res.Header, "X-Vf-")); d != "" {
			r.setViol(vs.Violf("C14", "response_headers", "resp:headers", "request %d: response header fields differ: %s", i, d))
			return
		}
		if len(wantHdr) > 0 {
			vs.G.Inc("probe.resp_headers_checked")
		}
		defer res.Body.Close()
		// body
		bufLen := 1
		for _, k := range q.readSizes {
			bufLen = max(bufLen, min(k, 1<<16))
		}
		buf := make([]byte, bufLen)
		var total int64
		nread := 0
		var rerr error
		for {
			if q.closeEarlyAt >= 0 && nread >= q.closeEarlyAt {
				tk.Step("close-early")
				r.mu.Lock()
				rs.closedEarly = true
				r.faults++
				r.mu.Unlock()
				vs.G.Inc("fault.client_close_early")
				res.Body.Close()
				r.clogf(i, "closed early after %d bytes", total)
				return
			}
			if nread < q.readStepped {
				tk.Step("read")
			}
			k := min(len(buf), q.readSizes[nread%len(q.readSizes)])
			nread++
			n, err := res.Body.Read(buf[:k])
			for j := 0; j < n; j++ {
				if buf[j] != heRespByte(i, total+int64(j)) {
					r.setViol(vs.Violf("C14", "response_body_bytes", "resp:body_byte", "request %d: response body byte at offset %d is %#x, the handler wrote %#x", i, total+int64(j), buf[j], heRespByte(i, total+int64(j))))
					return
				}
			}
			total += int64(n)
			r.mu.Lock()
			rs.cRead = total
			r.mu.Unlock()
			if err != nil {
				rerr = err
				break
			}
			if n == 0 && k > 0 {
				vs.G.Inc("probe.resp_zero_read")
			}
		}
		r.clogf(i, "body %d bytes, %s", total, heErrKind(rerr))
		r.mu.Lock()
		hDone, hWrote, hFaulted, hTrailers := rs.hDone, rs.hWrote, rs.hFaulted, rs.hTrailers
		r.mu.Unlock()
		if rerr != io.EOF {
			if !r.affected(i) {
				r.setViol(vs.Violf("C14", "response_body_error", "resp:read_error:"+heErrKind(rerr), "request %d: reading the response body failed after %d bytes although no fault touched it: %v", i, total, rerr))
			}
			return
		}
		// clean EOF: the body must be complete
		want := hWrote
		if q.method == "HEAD" {
			want = 0
		}
		if q.method == "HEAD" {
			// a HEAD response is complete with its HEADERS frame, whatever the
			// handler does afterwards; trailers are not sent
			if total != 0 {
				r.setViol(vs.Violf("C14", "response_body_length", "resp:head_body", "request %d: HEAD response carried %d body bytes", i, total))
				return
			}
			if d := heDiff(nil, heObserved(res.Trailer, "X-Vf-")); d != "" {
				r.setViol(vs.Violf("C14", "response_trailers", "resp:trailers", "request %d: HEAD response trailers: %s", i, d))
				return
			}
			r.mu.Lock()
			r.okResp++
			r.mu.Unlock()
			vs.G.Inc("probe.exchange_complete")
			vs.G.Inc("probe.head_exchange")
			tk.Step("close")
			res.Body.Close()
			return
		}
		if !hDone || (hFaulted && q.hfault != "return") {
			r.setViol(vs.Violf("C14", "response_eof_before_handler_end", "resp:eof_early", "request %d: response body ended with a clean EOF after %d bytes but the handler has not completed its response (done=%v aborted=%v)", i, total, hDone, hFaulted))
			return
		}
		if q.rdeclCL >= 0 && hHeader && q.method != "HEAD" && total != q.rdeclCL {
			r.setViol(vs.Violf("C14", "declared_length_clean_eof", "resp:declared_cl_clean_eof", "request %d: response declared Content-Length %d but the body ended with a clean EOF after %d bytes", i, q.rdeclCL, total))
			return
		}
		if total != want {
			r.setViol(vs.Violf("C14", "response_body_length", "resp:body_length", "request %d: handler wrote %d body bytes, client read %d before a clean EOF", i, want, total))
			return
		}
		if !hFaulted && !r.affected(i) && q.method != "HEAD" && total != int64(q.rbody) {
			r.setViol(vs.Violf("C14", "response_body_length", "resp:body_length_plan", "request %d: planned response body %d bytes, client read %d before a clean EOF", i, q.rbody, total))
			return
		}
		// trailers
		var wantTr []heField
		if hTrailers && q.method != "HEAD" {
			wantTr = append(append(wantTr, q.rtrailers...), q.rptrailers...)
		}
		if d := heDiff(heMultiset(wantTr), heObserved(res.Trailer, "X-Vf-")); d != "" {
			r.setViol(vs.Violf("C14", "response_trailers", "resp:trailers", "request %d: response trailers differ: %s", i, d))
			return
		}
		if len(wantTr) > 0 {
			vs.G.Inc("probe.resp_trailers_checked")
		}
		r.mu.Lock()
		r.okResp++
		r.mu.Unlock()
		vs.G.Inc("probe.exchange_complete")
		if total >= 64<<10 {
			vs.G.Inc("probe.resp_body_ge_64k")
		}
		tk.Step("close")
		res.Body.Close()
	}
}

// ---------------------------------------------------------------------------
// handler

func (r *heRun) handler(w http.ResponseWriter, req *http.Request) {
	idx := -1
	if p := req.URL.Path; strings.HasPrefix(p, "/r") {
		if j := strings.IndexByte(p[2:], '/'); j > 0 {
			if v, err := strconv.Atoi(p[2 : 2+j]); err == nil {
				idx = v
			}
		}
	}
	if idx < 0 || idx >= len(r.reqs) {
		r.setViol(vs.Violf("C14", "unknown_request_in_handler", "req:unknown", "handler invoked for a request the client never sent: %s %s", req.Method, req.RequestURI))
		return
	}
	q := r.p.reqs[idx]
	rs := r.reqs[idx]
	r.mu.Lock()
	rs.hCount++
	dup := rs.hCount > 1
	rs.hStarted = true
	cStarted := rs.cStarted
	r.mu.Unlock()
	if dup {
		r.setViol(vs.Violf("C14", "request_duplicated", "req:duplicate", "request %d reached the handler twice", idx))
		return
	}
	if !cStarted || q.overReq {
		r.setViol(vs.Violf("C14", "unknown_request_in_handler", "req:not_sent", "handler invoked for request %d which the client has not sent (over limit=%v)", idx, q.overReq))
		return
	}
	tk := r.sim.Attach(fmt.Sprintf("h%d", idx))
	planned := false
	defer func() {
		rec := recover()
		r.mu.Lock()
		rs.hDone = true
		rs.hCurOp = ""
		r.mu.Unlock()
		tk.Finish()
		if rec != nil && !vs.IsAbort(rec) {
			if planned {
				panic(rec) // the server's own handler-panic recovery deals with it
			}
			r.setViol(vs.Violf("C14", "panic", "handler_side_panic", "panic in handler %d inside the code under test: %v\n%s", idx, rec, heStack()))
		}
	}()

	// --- the request as the handler sees it
	if req.Method != q.method {
		r.setViol(vs.Violf("C14", "request_method", "req:method", "request %d: sent method %q, handler sees %q", idx, q.method, req.Method))
		return
	}
	if req.RequestURI != q.path {
		r.setViol(vs.Violf("C14", "request_path", "req:path", "request %d: sent :path %q, handler sees RequestURI %q", idx, q.path, req.RequestURI))
		return
	}
	if d := heDiff(heMultiset(q.hdr), heObserved(req.Header, "X-Vf-")); d != "" {
		r.setViol(vs.Violf("C14", "request_headers", "req:headers", "request %d: request header fields differ: %s", idx, d))
		return
	}
	if len(q.hdr) > 0 {
		vs.G.Inc("probe.req_headers_checked")
	}
	w.Header().Set("Content-Type", "application/octet-stream")

	bufLen := 1
	for _, op := range q.ops {
		if op.kind == "read" || op.kind == "readall" {
			bufLen = max(bufLen, min(op.n, 1<<16))
		}
	}
	buf := make([]byte, bufLen)
	var respOff int64
	sawEOF := false
	readOnce := func(n int) error {
		n = max(1, min(n, len(buf)))
		m, err := req.Body.Read(buf[:n])
		r.mu.Lock()
		off := rs.hRead
		r.mu.Unlock()
		for j := 0; j < m; j++ {
			if off+int64(j) >= int64(q.body) {
				r.setViol(vs.Violf("C14", "request_body_extra", "req:body_extra", "request %d: handler read more than the %d body bytes the client sent", idx, q.body))
				return errors.New("vf: stop")
			}
			if buf[j] != heReqByte(idx, off+int64(j)) {
				r.setViol(vs.Violf("C14", "request_body_bytes", "req:body_byte", "request %d: handler read %#x at body offset %d, the client sent %#x", idx, buf[j], off+int64(j), heReqByte(idx, off+int64(j))))
				return errors.New("vf: stop")
			}
		}
		r.mu.Lock()
		rs.hRead += int64(m)
		total := rs.hRead
		r.mu.Unlock()
		if err == io.EOF && !sawEOF {
			sawEOF = true
			if total != int64(q.body) {
				r.setViol(vs.Violf("C14", "request_body_length", "req:body_short_eof", "request %d: client sent %d body bytes, handler read %d before a clean EOF", idx, q.body, total))
				return err
			}
			if d := heDiff(heMultiset(q.trailers), heObserved(req.Trailer, "X-Vf-")); d != "" {
				r.setViol(vs.Violf("C14", "request_trailers", "req:trailers", "request %d: request trailers differ: %s", idx, d))
				return err
			}
			if len(q.trailers) > 0 {
				vs.G.Inc("probe.req_trailers_checked")
			}
			if q.hasBody {
				vs.G.Inc("probe.req_body_complete")
				if q.body >= 64<<10 {
					vs.G.Inc("probe.req_body_ge_64k")
				}
			}
		} else if err != nil && err != io.EOF && !r.affected(idx) {
			r.setViol(vs.Violf("C14", "request_body_error", "req:read_error", "request %d: reading the request body failed after %d of %d bytes although no fault touched it: %v", idx, total, q.body, err))
		}
		return err
	}
	setOp := func(k string) { r.mu.Lock(); rs.hCurOp = k; r.mu.Unlock() }
	for _, op := range q.ops {
		tk.Step(op.kind)
		setOp(op.kind)
		switch op.kind {
		case "read":
			err := readOnce(op.n)
			r.hlogf(idx, "read -> %d %s", r.hReadOf(idx), heErrKind(err))
		case "readall":
			var err error
			for err == nil {
				err = readOnce(op.n)
			}
			r.hlogf(idx, "readall -> %d %s", r.hReadOf(idx), heErrKind(err))
		case "header":
			h := w.Header()
			for _, f := range q.rhdr {
				h.Add(f.k, f.v)
			}
			if len(q.trailerHdr) > 0 {
				h["Trailer"] = append([]string(nil), q.trailerHdr...)
			}
			if q.rdeclCL >= 0 {
				h.Set("Content-Length", strconv.FormatInt(q.rdeclCL, 10))
				if q.rdeclCL > int64(q.rbody) {
					r.mu.Lock()
					r.faults++
					r.mu.Unlock()
					vs.G.Inc("fault.short_content_length")
				}
			}
			r.mu.Lock()
			rs.hHeader = true
			r.mu.Unlock()
			w.WriteHeader(q.status)
			r.hlogf(idx, "header %d", q.status)
		case "write":
			b := make([]byte, op.n)
			for j := range b {
				b[j] = heRespByte(idx, respOff+int64(j))
			}
			n, err := w.Write(b)
			respOff += int64(n)
			r.mu.Lock()
			rs.hWrote = respOff
			r.mu.Unlock()
			if q.method == "HEAD" {
				// The first Write that makes the server send the (final) HEADERS of
				// a HEAD response races stream closure against the write result in
				// serverConn.writeHeaders (select over two ready channels) and may
				// return errHandlerComplete; the response itself is unaffected.
				r.hlogf(idx, "write %d", op.n)
				break
			}
			if err != nil && !r.affected(idx) {
				// data loss, if any, is caught end to end by the caller's checks
				vs.G.Inc("probe.handler_write_error_unaffected")
			}
			r.hlogf(idx, "write %d -> %d %s", op.n, n, heErrKind(err))
		case "flush":
			w.(http.Flusher).Flush()
			r.hlogf(idx, "flush")
		case "trailers":
			h := w.Header()
			for _, f := range q.rtrailers {
				h.Add(f.k, f.v)
			}
			for _, f := range q.rptrailers {
				h.Add(http.TrailerPrefix+f.k, f.v)
			}
			r.mu.Lock()
			rs.hTrailers = true
			r.mu.Unlock()
		case "panic", "abort", "return":
			r.mu.Lock()
			rs.hFaulted = true
			r.faults++
			r.mu.Unlock()
			vs.G.Inc("fault.handler_" + op.kind)
			r.hlogf(idx, "%s", op.kind)
			if op.kind == "return" {
				return
			}
			planned = true
			if op.kind == "abort" {
				panic(http.ErrAbortHandler)
			}
			panic("vf: planned handler panic")
		}
		setOp("")
	}
}

func (r *heRun) hStartedOf(i int) bool {
	r.mu.Lock()
	defer r.mu.Unlock()
	return r.reqs[i].hStarted
}

func (r *heRun) hReadOf(i int) int64 {
	r.mu.Lock()
	defer r.mu.Unlock()
	return r.reqs[i].hRead
}

func heStack() string {
	buf := make([]byte, 4096)
	return string(buf[:runtime.Stack(buf, false)])
}

// ---------------------------------------------------------------------------
// scheduler source: cancellations, enabling the cut

// anyCanceled: some request of the plan makes the client give up a stream by
// itself (cancellation, a request body that fails or disagrees with its declared
// length, a response body closed early, an injected handler fault): such a stream keeps its slot until the PING sent
// with its RST_STREAM is answered.
func (r *heRun) anyCanceled() bool {
	for _, q := range r.p.reqs {
		if q.cancel || q.bodyErrAt >= 0 || q.closeEarlyAt >= 0 || q.hfault != "" || (q.hasBody && q.declLen != 0 && q.declLen != int64(q.body)) {
			return true
		}
	}
	return false
}

func (r *heRun) Events(now time.Time) []vs.Event {
	r.mu.Lock()
	defer r.mu.Unlock()
	var evs []vs.Event
	anyStarted := false
	for i, rs := range r.reqs {
		q := r.p.reqs[i]
		anyStarted = anyStarted || rs.cStarted
		if q.cancel && rs.cStarted && !rs.cDone && !rs.canceled && r.step >= rs.startStep+q.cancelAfter {
			i, rs := i, rs
			evs = append(evs, vs.Event{Label: fmt.Sprintf("cancel c%d", i), Weight: 1, Run: func() {
				r.mu.Lock()
				rs.canceled = true
				r.faults++
				cancel := rs.cancel
				r.mu.Unlock()
				vs.G.Inc("fault.cancel")
				cancel()
			}})
		}
	}
	if r.p.cutAfter >= 0 && anyStarted && r.step >= r.p.cutAfter && !r.conn.AllowCut {
		r.conn.AllowCut = true
	}
	return evs
}

func (r *heRun) NextTimed(now time.Time) (time.Time, bool) { return time.Time{}, false }

// ---------------------------------------------------------------------------
// quiescent-point check: flush the per-task logs in a fixed order, run the
// passive wire monitors, report the first violation any task recorded.

func (l *heLedger) init() {
	l.iw, l.maxFr = -1, 16384
	l.wu, l.use = map[uint32]int64{}, map[uint32]int64{}
	l.hdrs, l.rstStep = map[uint32]int{}, map[uint32]int{}
}

// onFrame: f was written by the sender of this direction; peer is the ledger
// of the opposite direction (whose SETTINGS / WINDOW_UPDATE frames grant credit
// to this one).
func heWire(dir string, f *heFrame, mine, peer *heLedger) *vs.Violation {
	prop := "C08"
	if dir == "c2s" {
		prop = "C09"
	}
	switch f.Type {
	case FrameSettings:
		if f.Flags&FlagSettingsAck != 0 {
			return nil
		}
		// limits the sender of this frame advertises constrain the OTHER direction
		for _, s := range heSettings(f.Payload) {
			switch s.ID {
			case SettingInitialWindowSize:
				peer.iw = int64(s.Val)
			case SettingMaxFrameSize:
				peer.maxFr = int64(s.Val)
			}
		}
	case FrameWindowUpdate:
		if len(f.Payload) == 4 {
			inc := int64(uint32(f.Payload[0])<<24|uint32(f.Payload[1])<<16|uint32(f.Payload[2])<<8|uint32(f.Payload[3])) & 0x7fffffff
			if f.SID == 0 {
				peer.connWU += inc
			} else {
				peer.wu[f.SID] += inc
			}
		}
	case FrameContinuation:
		vs.G.Inc("probe.continuation_" + dir)
	case FrameRSTStream:
		if len(f.Payload) == 4 && f.Payload[0]|f.Payload[1]|f.Payload[2]|f.Payload[3] == 0 {
			vs.G.Inc("probe.rst_no_error_" + dir)
		}
	case FrameGoAway:
		if len(f.Payload) >= 8 {
			code := ErrCode(uint32(f.Payload[4])<<24 | uint32(f.Payload[5])<<16 | uint32(f.Payload[6])<<8 | uint32(f.Payload[7]))
			if code != ErrCodeNo {
				why := "other"
				if dir == "s2c" && peer.lateTrl {
					why = "trailers_after_rst"
				}
				return vs.Violf("C14", "goaway_error", fmt.Sprintf("%s:goaway_%s:%s", dir, code, why),
					"%s GOAWAY with error %v (last stream %d, debug %q) although every frame the peer sent was legitimate; it terminates all exchanges on the connection (trailers for an already reset stream seen before: %v)",
					dir, code, uint32(f.Payload[0])<<24|uint32(f.Payload[1])<<16|uint32(f.Payload[2])<<8|uint32(f.Payload[3])&0x7fffffff, string(f.Payload[8:]), peer.lateTrl)
			}
		}
	case FrameHeaders:
		if len(f.Payload) > 0 && f.Flags&(FlagHeadersPadded|FlagHeadersPriority) == 0 && f.Payload[0]&0xe0 == 0x20 {
			vs.G.Inc("probe.hpack_table_size_update_" + dir)
		}
	case FrameData:
		flow := int64(f.Len)
		if flow > 16384 {
			vs.G.Inc("probe.data_frame_gt_16k_" + dir)
		}
		// Sound bounds: the receiver's limits can only have been learned from
		// frames it has already WRITTEN (a superset of what was delivered).
		if flow > max(mine.maxFr, 16384) {
			return vs.Violf(prop, "frame_exceeds_max_frame_size", dir+":max_frame", "%v exceeds the peer's SETTINGS_MAX_FRAME_SIZE %d", f, mine.maxFr)
		}
		mine.use[f.SID] += flow
		mine.connUse += flow
		iw := max(mine.iw, 65535)
		if flow > 0 && mine.use[f.SID] > iw+mine.wu[f.SID] {
			return vs.Violf(prop, "stream_window_exceeded", dir+":stream_window", "stream %d: %d flow-controlled bytes sent, the peer has granted at most %d", f.SID, mine.use[f.SID], iw+mine.wu[f.SID])
		}
		if flow > 0 && mine.connUse > 65535+mine.connWU {
			return vs.Violf(prop, "conn_window_exceeded", dir+":conn_window", "connection: %d flow-controlled bytes sent, the peer has granted at most %d", mine.connUse, 65535+mine.connWU)
		}
		if flow > 0 && mine.iw >= 0 && mine.use[f.SID] == mine.iw+mine.wu[f.SID] {
			vs.G.Inc("probe.stream_window_exhausted_" + dir)
		}
	}
	return nil
}

func (r *heRun) check() *vs.Violation {
	r.mu.Lock()
	defer r.mu.Unlock()
	r.step++
	for _, rs := range r.reqs {
		for _, l := range rs.clog {
			r.tr.Ev("%s", l)
		}
		for _, l := range rs.blog {
			r.tr.Ev("%s", l)
		}
		for _, l := range rs.hlog {
			r.tr.Ev("%s", l)
		}
		rs.clog, rs.blog, rs.hlog = rs.clog[:0], rs.blog[:0], rs.hlog[:0]
	}
	if r.viol != nil {
		return r.viol
	}
	if r.srvPanic != nil {
		return vs.Violf("C14", "panic", "srv:serve_panic", "panic on the server's connection goroutine: %v", r.srvPanic)
	}
	// server frames first: credit they grant was written before the client used it
	fsBA, fsAB := r.monBA.next(), r.monAB.next()
	for _, f := range fsBA {
		if f.Type == FrameRSTStream {
			if _, ok := r.ledBA.rstStep[f.SID]; !ok {
				r.ledBA.rstStep[f.SID] = f.Step
			}
		}
	}
	for _, f := range fsAB {
		if f.Type == FrameHeaders {
			r.ledAB.hdrs[f.SID]++
		}
	}
	if heDebugFrames {
		for _, f := range fsBA {
			r.tr.Ev("    s2c %v", f)
		}
		for _, f := range fsAB {
			r.tr.Ev("    c2s %v", f)
		}
	}
	for sid, n := range r.ledAB.hdrs {
		if _, ok := r.ledBA.rstStep[sid]; ok && n >= 2 && !r.ledAB.lateTrl {
			// request trailers were written for a stream the server has reset
			// (legitimate: the frames crossed on the wire)
			r.ledAB.lateTrl = true
			vs.G.Inc("probe.trailers_and_server_rst")
		}
	}
	// The Transport's writeRequest selects over cs.peerClosed and cs.abort. When
	// the server has ended a stream and then sends RST_STREAM(NO_ERROR) (early
	// response) while the client has not finished sending the request, the
	// client's request writer can find both ready and Go's select picks at
	// random (the client then does or does not send its own RST_STREAM). Such
	// runs are legitimate and stay under the oracle, but their traces are not
	// reproducible: they are excluded from the distinct-trace evidence
	// (probe.select_race_run).
	for _, f := range fsAB {
		if f.endStream() {
			r.cEnded[f.SID] = true
		}
	}
	r.pendBA = append(r.pendBA, fsBA...)
	if cur := r.conn.DeliveredBA(); cur != r.prevBA {
		k := 0
		for _, f := range r.pendBA {
			if f.End > cur {
				break
			}
			k++
			if f.Type == FrameRSTStream && len(f.Payload) == 4 && f.Payload[0]|f.Payload[1]|f.Payload[2]|f.Payload[3] == 0 && !r.cEnded[f.SID] && !r.raced {
				r.raced = true
				vs.G.Inc("probe.select_race_run")
			}
		}
		r.pendBA = r.pendBA[k:]
		r.prevBA = cur
	}
	for _, f := range fsBA {
		if v := heWire("s2c", f, &r.ledBA, &r.ledAB); v != nil {
			if v.Prop == "C14" {
				return v
			}
			vs.G.Inc("foreign_violation." + v.Prop + "." + v.Oracle)
		}
	}
	for _, f := range fsAB {
		if v := heWire("c2s", f, &r.ledAB, &r.ledBA); v != nil {
			if v.Prop == "C14" {
				return v
			}
			vs.G.Inc("foreign_violation." + v.Prop + "." + v.Oracle)
		}
	}
	return nil
}

// ---------------------------------------------------------------------------
// the run

func heScheduler(name string) func() WriteScheduler {
	switch name {
	case "roundrobin":
		return func() WriteScheduler { return newRoundRobinWriteScheduler() }
	case "rfc7540":
		return func() WriteScheduler { return NewPriorityWriteScheduler(nil) }
	case "rfc9218":
		return func() WriteScheduler { return newPriorityWriteSchedulerRFC9218() }
	}
	return nil
}

// heFrame is one frame as seen on the wire (payload captured up to 128 bytes;
// DATA payloads are not kept).
type heFrame struct {
	Type    FrameType
	Flags   Flags
	SID     uint32
	Len     int
	Payload []byte
	End     int64 // offset one past the frame's last byte in the direction's stream
	Step    int   // scheduler step at which the frame header was written
}

func (f *heFrame) String() string {
	return fmt.Sprintf("%v(sid=%d flags=%#x len=%d)", f.Type, f.SID, uint8(f.Flags), f.Len)
}

func (f *heFrame) endStream() bool {
	return (f.Type == FrameData || f.Type == FrameHeaders) && f.Flags&FlagDataEndStream != 0 // same bit 0x1
}

// heScan splits one direction's byte stream into frames as the bytes are
// written (its own 9-byte header parser), and proposes delivery split points
// that depend only on frame lengths, never on frame contents (header blocks are
// encoded in map order by the Transport). write and hint run under the link's
// mutex (tap and split hint are called there); next runs on the scheduler
// goroutine at quiescent points.
type heScan struct {
	step    *int
	written int64
	preface int64 // bytes of client preface still to skip
	nh      int   // bytes of the current frame header seen so far
	hdr     [9]byte
	cur     *heFrame // frame whose payload is being captured / skipped
	want    int      // payload bytes still to capture
	skip    int64    // payload bytes still to skip after the capture
	starts  []int64  // absolute offsets of frame starts not yet fully delivered
	out     []*heFrame
}

func (t *heScan) write(b []byte) {
	for len(b) > 0 {
		if t.preface > 0 {
			k := min(int64(len(b)), t.preface)
			t.preface -= k
			t.written += k
			b = b[k:]
			continue
		}
		if t.want > 0 {
			k := min(len(b), t.want)
			t.cur.Payload = append(t.cur.Payload, b[:k]...)
			t.want -= k
			t.written += int64(k)
			b = b[k:]
			if t.want == 0 {
				t.out = append(t.out, t.cur)
			}
			continue
		}
		if t.skip > 0 {
			k := min(int64(len(b)), t.skip)
			t.skip -= k
			t.written += k
			b = b[k:]
			continue
		}
		if t.nh == 0 {
			t.starts = append(t.starts, t.written)
		}
		k := min(len(b), 9-t.nh)
		copy(t.hdr[t.nh:], b[:k])
		t.nh += k
		t.written += int64(k)
		b = b[k:]
		if t.nh == 9 {
			t.nh = 0
			l := int(t.hdr[0])<<16 | int(t.hdr[1])<<8 | int(t.hdr[2])
			f := &heFrame{Type: FrameType(t.hdr[3]), Flags: Flags(t.hdr[4]), Len: l, Step: *t.step,
				SID: (uint32(t.hdr[5])<<24 | uint32(t.hdr[6])<<16 | uint32(t.hdr[7])<<8 | uint32(t.hdr[8])) & 0x7fffffff,
				End: t.written + int64(l)}
			t.cur = f
			if f.Type != FrameData {
				t.want = min(l, 128)
			}
			t.skip = int64(l - t.want)
			if t.want == 0 {
				t.out = append(t.out, f)
			}
		}
	}
}

// next returns the frames whose headers (and captured payload) have been written
// since the last call.
func (t *heScan) next() []*heFrame {
	out := t.out
	t.out = nil
	return out
}

// hint proposes chunk sizes that end inside frame headers and at frame boundaries.
func (t *heScan) hint(inflight []byte) []int {
	delivered := t.written - int64(len(inflight))
	for len(t.starts) > 1 && t.starts[1] <= delivered {
		t.starts = t.starts[1:]
	}
	var out []int
	add := func(off int64) {
		if off >= 1 && off <= int64(len(inflight)) && len(out) < 12 {
			out = append(out, int(off))
		}
	}
	for _, st := range t.starts {
		if len(out) >= 10 {
			break
		}
		add(st - delivered)     // end of the previous frame
		add(st - delivered + 1) // one byte into the header
		add(st - delivered + 9) // exactly the header
	}
	return out
}

func heSettings(p []byte) []Setting {
	var out []Setting
	for len(p) >= 6 {
		out = append(out, Setting{ID: SettingID(uint16(p[0])<<8 | uint16(p[1])), Val: uint32(p[2])<<24 | uint32(p[3])<<16 | uint32(p[4])<<8 | uint32(p[5])})
		p = p[6:]
	}
	return out
}

func heSig(pending []string) string {
	set := map[string]bool{}
	for _, p := range pending {
		// "c3@read" -> "c@read"
		name, at, _ := strings.Cut(p, "@")
		kind := strings.TrimRight(name, "0123456789")
		set[kind+"@"+at] = true
	}
	var ks []string
	for k := range set {
		ks = append(ks, k)
	}
	sort.Strings(ks)
	return strings.Join(ks, ",")
}

func heRunOnce(t *testing.T, rt *rapid.T, cfg string) {
	p := heDrawPlan(rt, cfg)
	tape := vs.DrawTape(rt, 3000)
	tr := vs.NewTrace()
	var viol *vs.Violation
	var simDur time.Duration
	var harness string
	nontrivial := false
	for _, name := range []string{"probe.continuation_c2s", "probe.continuation_s2c", "probe.req_trailers_checked", "probe.resp_trailers_checked",
		"probe.req_eof_with_data", "probe.rst_no_error_s2c", "probe.hpack_table_size_update_c2s", "probe.hpack_table_size_update_s2c",
		"probe.stream_window_exhausted_c2s", "probe.stream_window_exhausted_s2c", "probe.data_frame_gt_16k_c2s", "probe.exchange_complete",
		"probe.req_body_complete", "probe.req_headers_checked", "probe.resp_headers_checked", "probe.req_body_ge_64k", "probe.resp_body_ge_64k"} {
		vs.G.Add(name, 0)
	}
	deadlock := vs.Bubble(t, func() {
		sim := vs.NewSim(tape, tr)
		sim.MaxSteps = vs.Thorough(30000, 120000)
		sim.Horizon = 2 * time.Minute
		r := &heRun{p: p, sim: sim, tr: tr, cEnded: map[uint32]bool{}}
		for range p.reqs {
			r.reqs = append(r.reqs, &heReqState{})
		}
		r.conn = vs.NewStreamConn(sim, "h2")
		r.conn.DeliverWeight = 4
		r.monAB = &heScan{step: &r.step, preface: int64(len(ClientPreface))}
		r.monBA = &heScan{step: &r.step}
		r.conn.SplitHintAB = r.monAB.hint
		r.conn.SplitHintBA = r.monBA.hint
		if p.boundBA > 0 {
			r.conn.BoundBA(p.boundBA)
		}
		r.ledAB.init()
		r.ledBA.init()
		r.conn.TapAB(r.monAB.write)
		r.conn.TapBA(r.monBA.write)

		srv := &Server{MaxConcurrentStreams: p.maxStreams, MaxUploadBufferPerConnection: p.upConn,
			MaxUploadBufferPerStream: p.upStream, MaxReadFrameSize: p.srvMaxRead,
			MaxDecoderHeaderTableSize: p.srvDec, MaxEncoderHeaderTableSize: p.srvEnc,
			NewWriteScheduler: heScheduler(p.sched)}
		h1 := &http.Server{Handler: http.HandlerFunc(r.handler), ErrorLog: log.New(io.Discard, "", 0), MaxHeaderBytes: p.maxHdrBytes}
		if err := ConfigureServer(h1, srv); err != nil {
			harness = "ConfigureServer: " + err.Error()
			return
		}
		oldHook := testHookOnPanic
		testHookOnPanic = func(sc *serverConn, pv interface{}) bool {
			r.mu.Lock()
			r.srvPanic = fmt.Sprintf("%v\n%s", pv, heStack())
			r.mu.Unlock()
			return false
		}
		defer func() { testHookOnPanic = oldHook }()
		served := make(chan struct{})
		go func() {
			defer close(served)
			srv.serveConn(r.conn.B, &ServeConnOpts{BaseConfig: h1}, nil)
			r.mu.Lock()
			r.srvDone = true
			r.mu.Unlock()
			sim.Wake()
		}()

		tp := &Transport{DisableCompression: true, StrictMaxConcurrentStreams: p.strict, MaxReadFrameSize: p.cliMaxRead, MaxHeaderListSize: p.cliMaxHdrList,
			MaxDecoderHeaderTableSize: p.cliDec, MaxEncoderHeaderTableSize: p.cliEnc}
		if p.cliStreamWin > 0 {
			// receive windows come from the net/http configuration, as when the
			// Transport is configured through net/http
			tp.t1 = &http.Transport{HTTP2: &http.HTTP2Config{MaxReceiveBufferPerStream: p.cliStreamWin, MaxReceiveBufferPerConnection: p.cliConnWin}}
		}
		cc, err := tp.newClientConn(r.conn.A, false, nil)
		if err != nil {
			harness = "newClientConn: " + err.Error()
			r.conn.Cut(io.ErrClosedPipe)
			<-served
			return
		}
		atomic.StoreUint32(&cc.atomicReused, 1) // as Transport.RoundTrip marks a connection it uses
		r.cc = cc
		if p.boundAB > 0 {
			// (after newClientConn, which writes the preface and SETTINGS on this
			// goroutine, before the scheduler runs)
			r.conn.BoundAB(p.boundAB)
			vs.G.Inc("fault.client_write_backpressure")
		}
		tr.Ev("plan cfg=%s sched=%s maxStreams=%d strict=%v upConn=%d upStream=%d srvMaxRead=%d srvTbl=%d/%d maxHdrBytes=%d cliMaxRead=%d cliHdrList=%d cliTbl=%d/%d cliWin=%d/%d boundBA=%d cutAfter=%d reqs=%d",
			cfg, p.sched, p.maxStreams, p.strict, p.upConn, p.upStream, p.srvMaxRead, p.srvDec, p.srvEnc, p.maxHdrBytes, p.cliMaxRead, p.cliMaxHdrList, p.cliDec, p.cliEnc, p.cliStreamWin, p.cliConnWin, p.boundBA, p.cutAfter, len(p.reqs))
		for i, q := range p.reqs {
			tr.Ev("  req %d %s %s hdr=%d/%dB body=%d decl=%d chunks=%v stepped=%d eofData=%v trailers=%d | status=%d explicit=%v rhdr=%d/%dB rbody=%d rdecl=%d tr=%d+%d mode=%s ops=%d fault=%q cancel=%v closeEarly=%d bodyErr=%d over=%v",
				i, q.method, q.path, len(q.hdr), heFieldsSize(q.hdr), q.body, q.declLen, q.chunks, q.stepped, q.eofData, len(q.trailers),
				q.status, q.explicit, len(q.rhdr), heFieldsSize(q.rhdr), q.rbody, q.rdeclCL, len(q.rtrailers), len(q.rptrailers), q.mode, len(q.ops), q.hfault, q.cancel, q.closeEarlyAt, q.bodyErrAt, q.overReq)
			sim.Go(fmt.Sprintf("c%d", i), "C14", r.caller(i))
		}
		sim.AddSource(r)
		sim.Check = r.check
		sim.Run()
		viol = sim.Viol
		if viol == nil {
			viol = r.check()
		}
		pending := sim.PendingTasks()
		if viol == nil && sim.Stuck {
			sort.Strings(pending)
			viol = vs.Violf("C14", "liveness", "hang:"+heSig(pending), "after %v of simulated time with nothing left to deliver (in flight c>s %d, s>c %d, cut=%v) these tasks have not finished: %v", sim.Horizon, r.conn.InflightAB(), r.conn.InflightBA(), r.conn.IsCut(), pending)
		}
		r.mu.Lock()
		r.ending = true
		nontrivial = r.okResp > 0 && !r.raced
		if cfg == "fault" {
			started := false
			for _, rs := range r.reqs {
				started = started || rs.cStarted
			}
			nontrivial = started && (r.faults > 0 || r.conn.IsCut()) && !r.raced
		}
		var cancels []context.CancelFunc
		for _, rs := range r.reqs {
			if rs.cancel != nil {
				cancels = append(cancels, rs.cancel)
			}
		}
		r.mu.Unlock()
		if sim.StepsOut {
			vs.G.Inc("run.steps_exhausted")
		}
		// teardown: nothing may outlive the bubble
		for _, c := range cancels {
			c()
		}
		cc.Close()
		r.conn.DeliverAll()
		sim.Abort()
		r.conn.Cut(io.ErrClosedPipe)
		r.conn.A.Close()
		r.conn.B.Close()
		<-served
		simDur = sim.Elapsed()
		if !sim.Drain() && harness == "" {
			harness = fmt.Sprintf("tasks did not exit at teardown: %v", sim.PendingTasks())
		}
		tp.CloseIdleConnections()
		r.conn.StopTimers()
	})
	if deadlock != "" && viol == nil && harness == "" {
		harness = "bubble did not wind down: " + deadlock
	}
	if dp := os.Getenv("VERIF_H2E2E_DUMP"); dp != "" {
		if f, err := os.OpenFile(dp, os.O_APPEND|os.O_CREATE|os.O_WRONLY, 0o644); err == nil {
			fmt.Fprintf(f, "RUN %x n=%d nontrivial=%v\n%s\n", tr.Hash(), tr.N, nontrivial, strings.Join(tr.Log, "\n"))
			f.Close()
		}
	}
	vs.G.EndRun(tr, nontrivial, simDur, func() any {
		return map[string]any{"config": cfg, "trace_head": tr.Log[:min(len(tr.Log), 60)]}
	})
	if harness != "" && viol == nil {
		vs.LogTrace(rt, tr)
		vs.Harnessf(rt, "%s", harness)
	}
	vs.Report(rt, viol, tr)
}

func TestVerif_C14(t *testing.T) {
	log.SetOutput(io.Discard)
	vs.Check(t, func(rt *rapid.T) { heRunOnce(t, rt, "clean") })
}

func TestVerif_C14_fault(t *testing.T) {
	log.SetOutput(io.Discard)
	vs.Check(t, func(rt *rapid.T) { heRunOnce(t, rt, "fault") })
}
