// Engine wsched: the four HTTP/2 WriteSchedulers driven by operation histories
// produced by a model of the serve loop (C12, C13). Sequential engine: every
// choice is drawn from rapid; the "fault" is a CloseStream / window collapse /
// priority change landing at an arbitrary instant between pushes and pops.

//go:build !(go1.27 && !http2legacy)

package http2

import (
	"bytes"
	"fmt"
	"testing"

	vs "golang.org/x/net/internal/verifsim"
	"pgregory.net/rapid"
)

// vfFrame is a non-DATA stream or control frame with an identity.
type vfFrame struct {
	tag  int
	kind string
}

func (f *vfFrame) writeFrame(writeContext) error { return nil }
func (f *vfFrame) staysWithinBuffer(int) bool    { return true }

type wsFrame struct {
	tag    int
	isData bool
	data   []byte // remaining bytes (DATA)
	end    bool
	write  writeFramer // identity for non-DATA
	rst    bool
}

type wsStream struct {
	id        uint32
	st        *stream
	open      bool
	q         []*wsFrame
	urg, inc  uint8
	dontCare  bool // priority not determined by the property (overwritten buffered update)
	wait      int  // C13: stream pops since last served while continuously eligible
	waitK     int  // C13: max number of competing incremental streams during the wait
	closedQ   int  // frames discarded by CloseStream
	everyPush int
}

type wsModel struct {
	kind     string
	ws       WriteScheduler
	sc       *serverConn
	connFlow *outflow
	streams  map[uint32]*wsStream
	order    []uint32 // ids in open order
	control  []*wsFrame
	nextTag  int
	nextID   uint32
	nextPush uint32
	tr       *vs.Trace

	// RFC 9218 pre-open updates
	pending     map[uint32]PriorityParam
	lastPending uint32

	// C13 bookkeeping for Pop-only windows
	popWindow    bool
	lastNonInc   map[uint8]uint32 // urgency -> stream served on the last non-incremental turn in this window
	closedQueued int
}

func wsNewScheduler(c vs.Chooser, only9218 bool) (string, WriteScheduler) {
	k := 4
	if only9218 {
		return "rfc9218", newPriorityWriteSchedulerRFC9218()
	}
	switch c.Intn(k + 2) {
	case 0:
		return "rfc7540", NewPriorityWriteScheduler(nil)
	case 1:
		return "roundrobin", newRoundRobinWriteScheduler()
	case 2:
		return "rfc9218", newPriorityWriteSchedulerRFC9218()
	case 3:
		return "random", NewRandomWriteScheduler()
	default:
		cfg := &PriorityWriteSchedulerConfig{
			MaxClosedNodesInTree:     vs.Pick(c, 0, 1, 2, 10),
			MaxIdleNodesInTree:       vs.Pick(c, 0, 1, 2, 10),
			ThrottleOutOfOrderWrites: vs.Bool(c),
		}
		return "rfc7540", NewPriorityWriteScheduler(cfg)
	}
}

func (m *wsModel) sendable(s *wsStream) bool {
	if !s.open || len(s.q) == 0 {
		return false
	}
	h := s.q[0]
	if !h.isData || len(h.data) == 0 {
		return true
	}
	return s.st.flow.n > 0 && m.connFlow.n > 0
}

func (m *wsModel) anySendable() bool {
	if len(m.control) > 0 {
		return true
	}
	for _, s := range m.streams {
		if m.sendable(s) {
			return true
		}
	}
	return false
}

func (m *wsModel) sig(ctx string) string { return m.kind + ":" + ctx }

// pop executes one Pop and checks it against the model.
func (m *wsModel) pop() *vs.Violation {
	preStream := map[uint32]int32{}
	for id, s := range m.streams {
		preStream[id] = s.st.flow.n
	}
	preConn := m.connFlow.n
	preSendable := map[uint32]bool{}
	for id, s := range m.streams {
		preSendable[id] = m.sendable(s)
	}
	maxFrame := m.sc.maxFrameSize

	var wr FrameWriteRequest
	var ok bool
	if v := vs.Guard("C12", m.sig("panic_in_pop"), func() { wr, ok = m.ws.Pop() }); v != nil {
		m.tr.Ev("pop -> PANIC")
		return v
	}
	if !ok {
		if m.kind != "random" {
			m.tr.Ev("pop -> none")
		}
		if m.anySendable() {
			var which []uint32
			for _, id := range m.order {
				if preSendable[id] {
					which = append(which, id)
				}
			}
			return vs.Violf("C12", "pop_none_while_sendable", m.sig("pop_none"), "Pop returned ok=false while control=%d queued and sendable streams=%v", len(m.control), which)
		}
		return nil
	}
	if wr.write == nil {
		ctx := "zero_pop"
		if m.closedQueued > 0 {
			ctx = "zero_pop_after_close_with_queued"
		}
		m.tr.Ev("pop -> ZERO")
		return vs.Violf("C12", "zero_pop", m.sig(ctx), "Pop returned (FrameWriteRequest{}, true)")
	}
	if wr.stream == nil {
		// control frame
		if len(m.control) == 0 {
			m.tr.Ev("pop -> control?")
			return vs.Violf("C12", "control_unknown", m.sig("control_unknown"), "Pop returned a control frame %v but the model's control queue is empty", wr)
		}
		h := m.control[0]
		if !wsSameWrite(wr.write, h.write) {
			return vs.Violf("C12", "control_order", m.sig("control_order"), "control frame out of order: got %v want tag %d", wr, h.tag)
		}
		m.control = m.control[1:]
		if m.kind != "random" {
			m.tr.Ev("pop -> control tag=%d", h.tag)
		}
		return nil
	}
	// stream frame
	if len(m.control) > 0 {
		return vs.Violf("C12", "control_first", m.sig("control_first"), "Pop returned stream frame %v while %d control frames are queued", wr, len(m.control))
	}
	id := wr.stream.id
	s := m.streams[id]
	if s == nil || s.st != wr.stream {
		return vs.Violf("C12", "unknown_stream", m.sig("unknown_stream"), "Pop returned a frame for unknown stream %d", id)
	}
	if !s.open {
		return vs.Violf("C12", "after_close", m.sig("after_close"), "Pop returned frame %v of closed stream %d", wr, id)
	}
	if len(s.q) == 0 {
		return vs.Violf("C12", "duplicate_or_phantom", m.sig("phantom"), "Pop returned frame %v of stream %d whose model queue is empty", wr, id)
	}
	h := s.q[0]
	// (the random scheduler picks streams in Go map order, which no seed controls:
	// its pop results are kept out of the trace, the oracle does not depend on them)
	if m.kind != "random" {
		m.tr.Ev("pop -> stream %d tag=%d", id, h.tag)
	}
	if !h.isData {
		if !wsSameWrite(wr.write, h.write) {
			return vs.Violf("C12", "stream_order", m.sig("stream_order"), "stream %d: got %v want tag %d (%v)", id, wr, h.tag, h.write)
		}
		s.q = s.q[1:]
	} else {
		wd, isData := wr.write.(*writeData)
		if !isData {
			return vs.Violf("C12", "stream_order", m.sig("stream_order"), "stream %d: got non-DATA %v, want DATA tag %d", id, wr, h.tag)
		}
		n := len(wd.p)
		if wd.streamID != id {
			return vs.Violf("C12", "data_streamid", m.sig("data_streamid"), "DATA carries stream id %d on stream %d", wd.streamID, id)
		}
		if n > len(h.data) || !bytes.Equal(wd.p, h.data[:n]) {
			return vs.Violf("C12", "data_bytes", m.sig("data_bytes"), "stream %d: DATA bytes differ from what was pushed (got %d bytes %s, head has %d bytes %s)", id, n, vs.Hex(wd.p), len(h.data), vs.Hex(h.data))
		}
		if len(h.data) > 0 {
			if n == 0 {
				return vs.Violf("C12", "data_empty_piece", m.sig("data_empty_piece"), "stream %d: empty DATA piece for %d pending bytes", id, len(h.data))
			}
			lim := preStream[id]
			if preConn < lim {
				lim = preConn
			}
			if maxFrame < lim {
				lim = maxFrame
			}
			if int32(n) > lim {
				return vs.Violf("C12", "data_exceeds_window", m.sig("data_exceeds_window"), "stream %d: DATA piece %d bytes > min(stream window %d, conn window %d, max frame %d)", id, n, preStream[id], preConn, maxFrame)
			}
			if s.st.flow.n != preStream[id]-int32(n) || m.connFlow.n != preConn-int32(n) {
				return vs.Violf("C12", "window_accounting", m.sig("window_accounting"), "stream %d: after %d-byte piece stream window %d->%d conn window %d->%d", id, n, preStream[id], s.st.flow.n, preConn, m.connFlow.n)
			}
		}
		last := n == len(h.data)
		if wd.endStream && !(last && h.end) {
			return vs.Violf("C12", "end_stream_early", m.sig("end_stream_early"), "stream %d: END_STREAM on a piece that is not the last (piece %d of %d, pushed end=%v)", id, n, len(h.data), h.end)
		}
		if last && h.end && !wd.endStream {
			return vs.Violf("C12", "end_stream_lost", m.sig("end_stream_lost"), "stream %d: last piece lacks END_STREAM", id)
		}
		if last {
			s.q = s.q[1:]
		} else {
			h.data = h.data[n:]
		}
	}

	// C13 oracles (RFC 9218 only; streams with determined priority only)
	if m.kind == "rfc9218" {
		if v := m.check9218(s, preSendable); v != nil {
			return v
		}
	}
	return nil
}

func (m *wsModel) check9218(served *wsStream, preSendable map[uint32]bool) *vs.Violation {
	anyDontCare := false
	for _, id := range m.order {
		if s := m.streams[id]; s.open && s.dontCare {
			anyDontCare = true
		}
	}
	if anyDontCare {
		// priorities not fully determined by the property: no ordering claim.
		for _, s := range m.streams {
			s.wait, s.waitK = 0, 0
		}
		m.lastNonInc = map[uint8]uint32{}
		return nil
	}
	// (1) urgency
	minU := uint8(8)
	for _, id := range m.order {
		s := m.streams[id]
		if preSendable[id] && s.urg < minU {
			minU = s.urg
		}
	}
	if served.urg > minU {
		var better []uint32
		for _, id := range m.order {
			if s := m.streams[id]; preSendable[id] && s.urg < served.urg {
				better = append(better, id)
			}
		}
		return vs.Violf("C13", "urgency_inversion", "rfc9218:urgency", "Pop served stream %d (u=%d,i=%d) while streams %v with smaller urgency were sendable", served.id, served.urg, served.inc, better)
	}
	// (2) non-incremental stickiness
	if served.inc == 0 {
		if prev, ok := m.lastNonInc[served.urg]; ok && prev != served.id {
			if ps := m.streams[prev]; ps != nil && ps.open && ps.urg == served.urg && ps.inc == 0 && preSendable[prev] {
				return vs.Violf("C13", "nonincremental_preempted", "rfc9218:noninc", "non-incremental stream %d (u=%d) still sendable but stream %d was served on a non-incremental turn", prev, served.urg, served.id)
			}
		}
		m.lastNonInc[served.urg] = served.id
	}
	if !m.popWindow {
		return nil
	}
	// (3) bounded service of incremental streams at the minimal urgency
	k := 0
	for _, id := range m.order {
		s := m.streams[id]
		if preSendable[id] && s.urg == minU && s.inc == 1 {
			k++
		}
	}
	for _, id := range m.order {
		s := m.streams[id]
		if s == served || !preSendable[id] || s.urg != minU || s.inc != 1 || !m.sendable(s) {
			s.wait, s.waitK = 0, 0
			continue
		}
		s.wait++
		if k > s.waitK {
			s.waitK = k
		}
		if s.wait > 2*s.waitK+2 {
			return vs.Violf("C13", "incremental_starved", "rfc9218:starved", "incremental stream %d (u=%d) sendable for %d consecutive stream Pops without service (k=%d)", s.id, s.urg, s.wait, s.waitK)
		}
	}
	served.wait, served.waitK = 0, 0
	return nil
}

func wsSameWrite(a, b writeFramer) bool {
	if sa, ok := a.(StreamError); ok {
		sb, ok2 := b.(StreamError)
		return ok2 && sa.StreamID == sb.StreamID && sa.Code == sb.Code
	}
	return a == b
}

func (m *wsModel) endWindow() {
	m.popWindow = false
	// (lastNonInc survives pushes and window changes: "a non-incremental stream is
	// served until it has nothing sendable" also when another stream of its
	// urgency gets data in the meantime; it is forgotten when the stream is
	// closed or re-prioritised, see forgetNonInc)
	for _, s := range m.streams {
		s.wait, s.waitK = 0, 0
	}
}

func (m *wsModel) forgetNonInc(id uint32) {
	for u, cur := range m.lastNonInc {
		if cur == id {
			delete(m.lastNonInc, u)
		}
	}
}

func (m *wsModel) openIDs() []uint32 {
	var ids []uint32
	for _, id := range m.order {
		if m.streams[id].open {
			ids = append(ids, id)
		}
	}
	return ids
}

func wsRun(rt *rapid.T, prop string) {
	c := vs.RapidChooser{T: rt}
	tr := vs.NewTrace()
	kind, ws := wsNewScheduler(c, prop == "C13")
	sc := &serverConn{maxFrameSize: int32(vs.Pick(c, 16384, 1, 7, 64, 1024))}
	m := &wsModel{kind: kind, ws: ws, sc: sc, connFlow: &outflow{}, streams: map[uint32]*wsStream{},
		tr: tr, nextID: 1, nextPush: 2, pending: map[uint32]PriorityParam{}, lastNonInc: map[uint8]uint32{}}
	m.connFlow.add(int32(vs.Pick(c, 65535, 0, 1, 10, 100, 1<<20)))
	initWin := int32(vs.Pick(c, 65535, 0, 1, 10, 100))
	// With the random scheduler the model state after a Pop depends on Go map
	// order, so only the operation kinds (not state-dependent values) enter the trace.
	ev := func(format string, args ...any) {
		if kind == "random" {
			tr.Ev("%s", format)
			return
		}
		tr.Ev(format, args...)
	}
	ev("sched=%s maxframe=%d conn=%d initwin=%d", kind, sc.maxFrameSize, m.connFlow.n, initWin)
	maxStreams := vs.Thorough(8, 16)
	nops := vs.Range(c, 1, vs.Thorough(80, 250))
	var viol *vs.Violation
	pops := 0
	pushes := 0

	randPrio := func() PriorityParam {
		p := PriorityParam{urgency: uint8(c.Intn(8)), incremental: uint8(c.Intn(2))}
		if vs.Bool(c) {
			// RFC 7540 style fields as well (any stream id, incl. self, unknown, closed)
			p.StreamDep = uint32(c.Intn(int(m.nextID) + 4))
			p.Exclusive = vs.Bool(c)
			p.Weight = uint8(c.Intn(256))
		}
		return p
	}

	for op := 0; op < nops && viol == nil; op++ {
		open := m.openIDs()
		choice := c.Intn(12)
		switch {
		case choice == 0 || len(open) == 0 && choice < 6: // open
			if len(m.order) >= maxStreams {
				continue
			}
			m.endWindow()
			var id uint32
			opt := OpenStreamOptions{}
			if len(open) > 0 && vs.Pct(c, 15) {
				id = m.nextPush
				m.nextPush += 2
				opt.PusherID = open[c.Intn(len(open))]
			} else {
				id = m.nextID
				m.nextID += 2
			}
			opt.priority = PriorityParam{urgency: 3}
			if kind == "rfc9218" && vs.Bool(c) {
				// the server passes the priority parsed from the request's Priority header
				u, i := c.Intn(8), c.Intn(2)
				hv := fmt.Sprintf("u=%d", u)
				if i == 1 {
					hv += ", i"
				} else if vs.Bool(c) {
					hv += ", i=?0"
				}
				// canUseDefault=true: absent parameters take the RFC 9218
				// defaults (u=3, i=?0); with false the package deliberately
				// defaults to incremental for priority-unaware clients.
				p, ok := parseRFC9218Priority(hv, true)
				if !ok || p.urgency != uint8(u) || p.incremental != uint8(i) {
					viol = vs.Violf("C13", "priority_parse", "rfc9218:parse", "parseRFC9218Priority(%q) = %+v, %v", hv, p, ok)
					break
				}
				opt.priority = p
			}
			st := &stream{sc: sc, id: id}
			st.flow.conn = m.connFlow
			st.flow.add(initWin)
			s := &wsStream{id: id, st: st, open: true, urg: opt.priority.urgency, inc: opt.priority.incremental}
			if p, ok := m.pending[id]; ok {
				if m.lastPending == id {
					s.urg, s.inc = p.urgency, p.incremental
				} else {
					s.dontCare = true
				}
				delete(m.pending, id)
				if m.lastPending == id {
					m.lastPending = 0
				}
			}
			m.streams[id] = s
			m.order = append(m.order, id)
			ev("open %d pusher=%d u=%d i=%d", id, opt.PusherID, s.urg, s.inc)
			viol = vs.Guard("C12", m.sig("panic_in_open"), func() { ws.OpenStream(id, opt) })
		case choice == 1: // close
			if len(open) == 0 {
				continue
			}
			m.endWindow()
			id := open[c.Intn(len(open))]
			s := m.streams[id]
			s.open = false
			if len(s.q) > 0 {
				m.closedQueued++
				vs.G.Inc("probe.close_with_queued_frames")
			}
			s.closedQ = len(s.q)
			s.q = nil
			m.forgetNonInc(id)
			ev("close %d (discarding %d)", id, s.closedQ)
			viol = vs.Guard("C12", m.sig("panic_in_close"), func() { ws.CloseStream(id) })
		case choice == 2: // adjust
			m.endWindow()
			id := uint32(1 + c.Intn(int(m.nextID)+6))
			p := randPrio()
			if p.StreamDep == id && kind == "rfc7540" {
				// a stream cannot depend on itself; the server treats that as a stream error
				// and never calls AdjustStream with it.
				p.StreamDep = 0
			}
			s := m.streams[id]
			m.forgetNonInc(id)
			if s != nil && s.open {
				s.urg, s.inc = p.urgency, p.incremental
			} else if s == nil {
				m.pending[id] = p
				m.lastPending = id
				vs.G.Inc("probe.adjust_before_open")
			} else {
				vs.G.Inc("probe.adjust_closed_stream")
			}
			ev("adjust %d dep=%d excl=%v w=%d u=%d i=%d", id, p.StreamDep, p.Exclusive, p.Weight, p.urgency, p.incremental)
			if s != nil && !s.open && kind == "rfc9218" {
				// closed stream: rfc9218 would buffer it as a pending update for a
				// stream id that is never opened again; harmless, but it overwrites
				// the one-slot buffer, so mark older pending updates as don't-care.
				m.lastPending = id
			}
			viol = vs.Guard("C12", m.sig("panic_in_adjust"), func() { ws.AdjustStream(id, p) })
		case choice == 3 || choice == 4 || choice == 5: // push stream frame
			if len(open) == 0 {
				continue
			}
			m.endWindow()
			id := open[c.Intn(len(open))]
			s := m.streams[id]
			m.nextTag++
			f := &wsFrame{tag: m.nextTag}
			var wr FrameWriteRequest
			if vs.Pct(c, 70) {
				n := vs.SizeBiased(c, vs.Thorough(300, 40000), int(sc.maxFrameSize), int(initWin))
				f.isData = true
				f.data = make([]byte, n)
				for i := range f.data {
					f.data[i] = byte(f.tag*31 + i*7)
				}
				f.end = vs.Pct(c, 25)
				wd := &writeData{streamID: id, p: append([]byte(nil), f.data...), endStream: f.end}
				wr = FrameWriteRequest{write: wd, stream: s.st}
				if vs.Bool(c) {
					wr.done = make(chan error, 1)
				}
				ev("push %d DATA tag=%d len=%d end=%v", id, f.tag, n, f.end)
			} else {
				w := &vfFrame{tag: f.tag, kind: "HEADERS"}
				f.write = w
				wr = FrameWriteRequest{write: w, stream: s.st}
				ev("push %d HEADERS tag=%d", id, f.tag)
			}
			s.q = append(s.q, f)
			pushes++
			viol = vs.Guard("C12", m.sig("panic_in_push"), func() { ws.Push(wr) })
		case choice == 6: // push control
			// (a control frame does not change which streams are sendable: the
			// service window of the fairness oracle goes on)
			m.nextTag++
			f := &wsFrame{tag: m.nextTag}
			if vs.Bool(c) {
				// RST_STREAM: any stream id, open, closed or idle
				id := uint32(1 + c.Intn(int(m.nextID)+2))
				f.write = StreamError{StreamID: id, Code: ErrCode(f.tag)}
				f.rst = true
				ev("push RST_STREAM(%d) tag=%d", id, f.tag)
			} else {
				f.write = &vfFrame{tag: f.tag, kind: "CONTROL"}
				ev("push CONTROL tag=%d", f.tag)
			}
			m.control = append(m.control, f)
			pushes++
			viol = vs.Guard("C12", m.sig("panic_in_push"), func() { ws.Push(FrameWriteRequest{write: f.write}) })
		case choice == 7: // window change
			m.endWindow()
			if len(open) > 0 && vs.Pct(c, 70) {
				id := open[c.Intn(len(open))]
				s := m.streams[id]
				d := int32(vs.Pick(c, 1, 10, 100, 65535, -1, -10, -100, -65535))
				if s.st.flow.add(d) {
					ev("window stream %d %+d -> %d", id, d, s.st.flow.n)
					if s.st.flow.n < 0 {
						vs.G.Inc("probe.window_negative")
					}
				}
			} else {
				d := int32(vs.Pick(c, 1, 10, 100, 65535, 1<<20))
				if m.connFlow.add(d) {
					ev("window conn %+d -> %d", d, m.connFlow.n)
				}
			}
		case choice == 8 && vs.Pct(c, 30): // max frame size change
			m.endWindow()
			sc.maxFrameSize = int32(vs.Pick(c, 16384, 1, 7, 64, 1024, 1<<24-1))
			ev("maxframe %d", sc.maxFrameSize)
		default: // pop burst
			n := vs.Range(c, 1, 12)
			// sometimes with one control frame (a WINDOW_UPDATE or PING ACK, say)
			// queued before every Pop, so that control and stream frames alternate
			alternate := vs.Pct(c, 25)
			if alternate {
				n = vs.Range(c, 4, 40)
				vs.G.Inc("probe.control_stream_alternation")
			}
			for i := 0; i < n && viol == nil; i++ {
				if alternate {
					m.nextTag++
					f := &wsFrame{tag: m.nextTag}
					f.write = &vfFrame{tag: f.tag, kind: "CONTROL"}
					m.control = append(m.control, f)
					pushes++
					ev("push CONTROL tag=%d (alternating)", f.tag)
					if viol = vs.Guard("C12", m.sig("panic_in_push"), func() { ws.Push(FrameWriteRequest{write: f.write}) }); viol != nil {
						break
					}
				}
				viol = m.pop()
				pops++
				m.popWindow = true
				if alternate && viol == nil {
					viol = m.pop() // the control frame went first; this one serves a stream
					pops++
				}
			}
		}
	}
	// Drain: ample windows, then every frame still queued on an open stream must
	// come out (nothing dropped except by CloseStream).
	if viol == nil {
		m.endWindow()
		m.connFlow.n = 0
		m.connFlow.add(1 << 30)
		for _, s := range m.streams {
			if s.open {
				s.st.flow.n = 0
				s.st.flow.add(1 << 30)
			}
		}
		sc.maxFrameSize = 1 << 20
		ev("drain")
		for i := 0; i < 100000 && viol == nil; i++ {
			if !m.anySendable() {
				// one more Pop must report nothing
				var wr FrameWriteRequest
				var ok bool
				if viol = vs.Guard("C12", m.sig("panic_in_pop"), func() { wr, ok = ws.Pop() }); viol != nil {
					break
				}
				if ok {
					if wr.write == nil {
						viol = vs.Violf("C12", "zero_pop", m.sig("zero_pop_at_drain"), "Pop returned (FrameWriteRequest{}, true) with nothing queued")
					} else {
						viol = vs.Violf("C12", "duplicate_or_phantom", m.sig("phantom_at_drain"), "Pop returned %v with nothing queued in the model", wr)
					}
				}
				break
			}
			viol = m.pop()
			pops++
		}
	}
	vs.G.EndRun(tr, pops > 0 && pushes > 0, 0, func() any {
		return map[string]any{"scheduler": kind, "events": tr.Log[:min(len(tr.Log), 40)]}
	})
	vs.G.Inc("sched." + kind)
	if viol != nil && prop == "C13" && viol.Prop != "C13" {
		// C12-class mismatch seen while checking C13: reported by C12's check.
		return
	}
	if viol != nil && prop == "C12" && viol.Prop != "C12" {
		return
	}
	vs.Report(rt, viol, tr)
}

func TestVerif_C12(t *testing.T) { vs.Check(t, func(rt *rapid.T) { wsRun(rt, "C12") }) }
func TestVerif_C13(t *testing.T) { vs.Check(t, func(rt *rapid.T) { wsRun(rt, "C13") }) }
