// Engine xsrf: xsrftoken.Generate / Valid / ValidFor under a simulated clock (C57).
//
// A run draws the whole plan from rapid first (key, user, action, confusable
// variants, issue instants with sub-millisecond parts, check instants around the
// window edges, timeouts, tampering operations). Then bubble A (testing/synctest,
// fake clock starting 2000-01-01) is the issuer node: it sleeps to each issue
// instant and calls Generate. Bubble B is the verifier node with its own clock
// (so it can be behind the issuer): it sleeps to each check instant and calls
// Valid / ValidFor. Every check is also made through validTokenAtTime with the
// instant passed explicitly (which reaches instants before the bubble epoch), and
// explicit-time tokens from generateTokenAtTime are checked the same way.
// Nothing is drawn and rapid is never failed inside a bubble; the first violation
// is recorded and reported after the bubbles return.
//
// Model (properties.jsonl C57): a token generated for (k,u,a) at t is valid for
// (k',u',a') at t' with timeout T  <=>  (k',u',a') == (k,u,a)  and
// issue - 1min <= t' < issue + T, issue = t rounded up to the millisecond.
// A string that is not a token returned by Generate for that triple (a tampered
// token) is never valid (package documentation of Valid).

package xsrftoken

import (
	"encoding/base64"
	"fmt"
	"sort"
	"strconv"
	"strings"
	"testing"
	"testing/synctest"
	"time"

	vs "golang.org/x/net/internal/verifsim"
	"pgregory.net/rapid"
)

var xsEpoch = time.Date(2000, 1, 1, 0, 0, 0, 0, time.UTC) // start of every synctest bubble

type xsIssue struct {
	at       int64 // absolute ns since the Unix epoch
	inBubble bool  // issued with Generate in bubble A (else generateTokenAtTime)
	issueMs  int64 // model: at rounded up to the millisecond
	tok      string
}

type xsCheck struct {
	issue     int
	tamper    int // 0 = none
	tamperArg int
	key, user string
	action    string
	variant   string
	useValid  bool // Valid (default Timeout) instead of ValidFor
	timeout   time.Duration
	at        int64 // absolute ns
	where     string
	// filled in while executing
	tok     string
	want    bool
	class   string // which oracle a mismatch belongs to
	dontChk bool
}

var xsPieces = []string{"a", "b", "c", "_", ":", "_c", "__", "::", "x", "", " ", "é", "%", "/", "0", "_:", ":_", "__c", "c_"}

func xsStr(c vs.Chooser, maxPieces int) string {
	n := c.Intn(maxPieces + 1)
	var sb strings.Builder
	for i := 0; i < n; i++ {
		sb.WriteString(vs.Pick(c, xsPieces...))
	}
	return sb.String()
}

// xsVariant returns a triple that is confusable with (k,u,a).
func xsVariant(c vs.Chooser, k, u, a string) (string, string, string, string) {
	switch c.Intn(12) {
	case 0:
		return k, u, a, "same"
	case 1: // move the user/action boundary to another ':' of "user:action"
		s := u + ":" + a
		var idx []int
		for i := 0; i < len(s); i++ {
			if s[i] == ':' && i != len(u) {
				idx = append(idx, i)
			}
		}
		if len(idx) > 0 {
			i := idx[c.Intn(len(idx))]
			return k, s[:i], s[i+1:], "move_colon_boundary"
		}
		return k, u + ":", strings.TrimPrefix(a, ":"), "shift_colon"
	case 2: // move one character across the boundary
		if len(u) > 0 {
			return k, u[:len(u)-1], u[len(u)-1:] + a, "move_char_right"
		}
		if len(a) > 0 {
			return k, u + a[:1], a[1:], "move_char_left"
		}
		return k, ":", "", "add_colon"
	case 3: // pre-escaped look-alike of the user
		return k, strings.NewReplacer(":", "_c", "_", "__").Replace(u), a, "user_preescaped"
	case 4: // un-escaped look-alike of the user
		return k, strings.NewReplacer("_c", ":", "__", "_").Replace(u), a, "user_unescaped"
	case 5:
		return k, u, strings.NewReplacer(":", "_c", "_", "__").Replace(a), "action_preescaped"
	case 6:
		return k, u, strings.NewReplacer("_c", ":", "__", "_").Replace(a), "action_unescaped"
	case 7:
		return k, a, u, "swap_user_action"
	case 8: // ':' <-> '_' confusion
		return k, strings.NewReplacer(":", "_", "_", ":").Replace(u), strings.NewReplacer(":", "_", "_", ":").Replace(a), "colon_underscore_swapped"
	case 9: // part of the user moved into the key
		if len(u) > 0 {
			return k + ":" + u[:1], u[1:], a, "key_takes_user_prefix"
		}
		return k + ":", u, a, "key_colon"
	case 10:
		return k + vs.Pick(c, "x", "_", ":", " "), u, a, "key_suffix"
	default:
		if len(k) > 1 {
			return k[:len(k)-1], u, a, "key_truncated"
		}
		return strings.ToUpper(k) + "k", u, a, "key_other"
	}
}

const xsTamperKinds = 16

// xsTamper returns a modified token string (deterministic in tok and arg).
func xsTamper(tok string, kind, arg int) (string, string) {
	sep := strings.LastIndex(tok, ":")
	if sep < 0 {
		return tok + "x", "nosep"
	}
	mac, ms := tok[:sep], tok[sep+1:]
	msv, _ := strconv.ParseInt(ms, 10, 64)
	const b64 = "ABCDEFGHIJKLMNOPQRSTUVWXYZabcdefghijklmnopqrstuvwxyz0123456789-_"
	switch kind {
	case 1: // change one character of the MAC (bit flips within the base64 alphabet)
		if len(mac) == 0 {
			return "A:" + ms, "mac_char"
		}
		i := arg % len(mac)
		j := strings.IndexByte(b64, mac[i])
		nc := b64[(j+1+arg/len(mac))%64]
		if nc == mac[i] {
			nc = b64[(j+1)%64]
		}
		return mac[:i] + string(nc) + mac[i+1:] + ":" + ms, "mac_char"
	case 2:
		if len(mac) == 0 {
			return tok + "0", "mac_truncated"
		}
		if arg%2 == 0 {
			return mac[:len(mac)-1] + ":" + ms, "mac_truncated"
		}
		return mac[1:] + ":" + ms, "mac_truncated"
	case 3:
		d := []int64{1, -1, 1000, -1000, 60000, 86400000, -86400000}[arg%7]
		return mac + ":" + strconv.FormatInt(msv+d, 10), "millis_changed"
	case 4: // same number, different spelling
		return mac + ":" + []string{"+" + ms, "0" + ms, "00" + ms, ms + " ", " " + ms, ms + ".0", "0x" + strconv.FormatInt(msv, 16)}[arg%7], "millis_reencoded"
	case 5:
		return ms + ":" + mac, "fields_swapped"
	case 6:
		return []string{mac + "_" + ms, mac + ms, mac + ";" + ms}[arg%3], "no_colon"
	case 7:
		return mac + "::" + ms, "double_colon"
	case 8: // the MAC re-encoded with another base64 flavour
		raw, err := base64.RawURLEncoding.DecodeString(mac)
		if err != nil {
			return tok + "=", "mac_reencoded"
		}
		return []string{base64.URLEncoding.EncodeToString(raw), base64.StdEncoding.EncodeToString(raw), base64.RawStdEncoding.EncodeToString(raw) + "=", fmt.Sprintf("%x", raw)}[arg%4] + ":" + ms, "mac_reencoded"
	case 9:
		return []string{"1234" + tok, tok + "0", mac + "A:" + ms, "A" + tok}[arg%4], "junk_added"
	case 10:
		return []string{"", ":", ":" + ms, mac + ":", mac}[arg%5], "part_missing"
	case 11:
		if strings.ToUpper(mac) != mac {
			return strings.ToUpper(mac) + ":" + ms, "mac_case"
		}
		return strings.ToLower(mac) + ":" + ms, "mac_case"
	case 12:
		return tok + ":" + ms, "millis_repeated"
	case 13: // truncated token
		n := arg % (len(tok) + 1)
		return tok[:n], "truncated"
	case 14: // only a prefix of the MAC kept, time intact
		n := arg % (len(mac) + 1)
		return mac[:n] + ":" + ms, "mac_prefix"
	default:
		return mac + ":" + ms + "\x00", "nul_suffix"
	}
}

func xsRun(t *testing.T, rt *rapid.T) {
	c := vs.RapidChooser{T: rt}
	tr := vs.NewTrace()
	for _, p := range []string{"probe.edge_lower_exact", "probe.edge_upper_exact", "probe.edge_within_1ms", "probe.submilli_issue", "probe.verifier_behind_issuer",
		"probe.confusable_same_join", "probe.confusable_same_cleaned_naive", "probe.valid_true", "probe.valid_false", "fault.tampered", "fault.other_triple", "fault.clock_skew_behind"} {
		vs.G.Add(p, 0)
	}

	// ------------------------------------------------------------------ plan
	key := xsStr(c, 3)
	if key == "" {
		key = "k"
	}
	user, action := xsStr(c, 4), xsStr(c, 4)
	epochNs := xsEpoch.UnixNano()

	nIssue := vs.Range(c, 1, 3)
	issues := make([]*xsIssue, nIssue)
	for i := range issues {
		is := &xsIssue{}
		sec := int64(vs.Pick(c, 61, 0, 1, 59, 60, 3600, 86400, 86399, 120, 259200))
		if vs.Pct(c, 30) {
			sec = int64(c.Intn(3 * 86400))
		}
		ns := int64(vs.Pick(c, 0, 1, 999_999, 1_000_000, 1_000_001, 500_000, 999_999_999, 123_456_789))
		if vs.Pct(c, 30) {
			ns = int64(c.Intn(1_000_000_000))
		}
		off := sec*1e9 + ns
		if i > 0 && vs.Pct(c, 40) {
			// explicit-time token anywhere between 1971 and 2200
			is.at = int64(vs.Pick(c, 1, 31, 50, 100, 229))*365*86400*1e9 + off
		} else {
			is.inBubble = true
			is.at = epochNs + off
		}
		is.issueMs = (is.at + 999_999) / 1_000_000 // at >= 0: rounds up
		issues[i] = is
	}

	nCheck := vs.Range(c, 1, vs.Thorough(10, 30))
	checks := make([]*xsCheck, nCheck)
	for i := range checks {
		ck := &xsCheck{issue: c.Intn(nIssue)}
		is := issues[ck.issue]
		ck.key, ck.user, ck.action, ck.variant = key, user, action, "same"
		switch c.Intn(4) {
		case 1:
			ck.key, ck.user, ck.action, ck.variant = xsVariant(c, key, user, action)
		case 2:
			ck.tamper = 1 + c.Intn(xsTamperKinds-1)
			ck.tamperArg = c.Intn(1000)
		}
		if vs.Pct(c, 35) {
			ck.useValid = true
			ck.timeout = Timeout
		} else {
			ck.timeout = vs.Pick(c, time.Hour, time.Millisecond, time.Second, time.Minute, 0, -time.Second, time.Nanosecond, 90*time.Minute+1234567*time.Nanosecond,
				7*24*time.Hour, 500*time.Microsecond, -2*time.Minute, time.Duration(1<<62), 24*time.Hour)
		}
		issueNs := is.issueMs * 1_000_000
		delta := int64(vs.Pick(c, 0, -1, 1, -1000, 1000, -999_999, 999_999, -1_000_000, 1_000_000, -1_000_001, 1_000_001, -500_000, 500_000))
		switch c.Intn(7) {
		case 0: // upper edge
			if ck.timeout < time.Duration(1<<61) {
				ck.at, ck.where = issueNs+int64(ck.timeout)+delta, "upper"
			} else {
				ck.at, ck.where = issueNs+delta, "issue"
			}
		case 1: // lower edge
			ck.at, ck.where = issueNs-60_000_000_000+delta, "lower"
		case 2: // around the issue instant itself / the unrounded instant
			ck.at, ck.where = vs.Pick(c, issueNs, is.at)+delta, "issue"
		case 3: // inside the window
			if ck.timeout > 0 && ck.timeout < time.Duration(1<<61) {
				ck.at, ck.where = issueNs+int64(ck.timeout)/2, "middle"
			} else {
				ck.at, ck.where = issueNs+delta, "issue"
			}
		case 4:
			ck.at, ck.where = issueNs-int64(vs.Pick(c, 61, 120, 3600, 86400))*1e9+delta, "far_before"
		case 5:
			ck.at, ck.where = issueNs+int64(vs.Pick(c, 86400, 86401, 90000, 7*86400, 365*86400))*1e9+delta, "far_after"
		default:
			ck.at, ck.where = issueNs+int64(c.Intn(2*86400))*1e9+int64(c.Intn(1_000_000_000)), "random"
		}
		if ck.at < 86400*1e9 {
			ck.at = 86400 * 1e9 // stay after 1970-01-02
		}
		checks[i] = ck
	}

	// ------------------------------------------------------------------ execution
	var viol *vs.Violation
	var harness string
	note := func(v *vs.Violation) {
		if viol == nil && v != nil {
			viol = v
		}
	}

	// Bubble A: the issuer.
	order := make([]*xsIssue, 0, nIssue)
	for _, is := range issues {
		if is.inBubble {
			order = append(order, is)
		}
	}
	sort.SliceStable(order, func(i, j int) bool { return order[i].at < order[j].at })
	synctest.Test(t, func(t *testing.T) {
		if got := time.Now().UnixNano(); got != epochNs {
			harness = fmt.Sprintf("bubble clock starts at %d, expected %d", got, epochNs)
			return
		}
		for _, is := range order {
			time.Sleep(time.Duration(is.at - time.Now().UnixNano()))
			if time.Now().UnixNano() != is.at {
				harness = "issuer clock did not reach the planned instant"
				return
			}
			note(vs.Guard("C57", "panic_in_generate", func() { is.tok = Generate(key, user, action) }))
		}
	})
	for _, is := range issues {
		if !is.inBubble {
			note(vs.Guard("C57", "panic_in_generate", func() { is.tok = generateTokenAtTime(key, user, action, time.Unix(0, is.at)) }))
		}
		tr.Ev("issue at=%d bubble=%v ms=%d", is.at, is.inBubble, is.issueMs)
		if is.at%1_000_000 != 0 {
			vs.G.Inc("probe.submilli_issue")
		}
	}

	// expectations
	for _, ck := range checks {
		is := issues[ck.issue]
		ck.tok = is.tok
		tkind := ""
		if ck.tamper != 0 {
			ck.tok, tkind = xsTamper(is.tok, ck.tamper, ck.tamperArg)
		}
		sameTriple := ck.key == key && ck.user == user && ck.action == action
		issueNs := is.issueMs * 1_000_000
		inWindow := ck.at >= issueNs-60_000_000_000 && ck.at-issueNs < int64(ck.timeout)
		switch {
		case ck.tok != is.tok:
			ck.want, ck.class = false, "tampered_token_accepted"
			ck.variant += "+" + tkind
			// another issue of the same triple could coincide with the tampered string
			for _, o := range issues {
				if o.tok == ck.tok {
					ck.dontChk = true
				}
			}
		case !sameTriple:
			ck.want, ck.class = false, "other_triple_accepted"
		default:
			ck.want, ck.class = inWindow, "window"
		}
	}

	// Bubble B: the verifier, with its own clock.
	var inB []*xsCheck
	for _, ck := range checks {
		if ck.at >= epochNs && ck.at-epochNs < int64(20*365*24*time.Hour) {
			inB = append(inB, ck)
		}
	}
	sort.SliceStable(inB, func(i, j int) bool { return inB[i].at < inB[j].at })
	verdict := func(ck *xsCheck, api string, got bool) {
		if got {
			vs.G.Inc("probe.valid_true")
		} else {
			vs.G.Inc("probe.valid_false")
		}
		tr.Ev("check %s issue=%d variant=%s where=%s at=%d timeout=%d -> %v", api, ck.issue, ck.variant, ck.where, ck.at, int64(ck.timeout), got)
		if got == ck.want || ck.dontChk || viol != nil {
			return
		}
		is := issues[ck.issue]
		issueNs := is.issueMs * 1_000_000
		sig := ck.class + ":" + ck.variant
		if ck.class == "window" {
			sig = fmt.Sprintf("window:%s:want_%v", ck.where, ck.want)
		}
		viol = vs.Violf("C57", ck.class, sig, "%s(token %q, key %q, user %q, action %q, timeout %v) = %v, want %v: token issued for (%q,%q,%q) at unix ns %d (issue time %d ms); check at unix ns %d = issue %+d ns = window end %+d ns",
			api, ck.tok, ck.key, ck.user, ck.action, ck.timeout, got, ck.want, key, user, action, is.at, is.issueMs, ck.at, ck.at-issueNs, ck.at-issueNs-int64(ck.timeout))
	}
	if harness == "" && len(inB) > 0 {
		synctest.Test(t, func(t *testing.T) {
			for _, ck := range inB {
				time.Sleep(time.Duration(ck.at - time.Now().UnixNano()))
				if time.Now().UnixNano() != ck.at {
					harness = "verifier clock did not reach the planned instant"
					return
				}
				var got bool
				if ck.useValid {
					note(vs.Guard("C57", "panic_in_valid", func() { got = Valid(ck.tok, ck.key, ck.user, ck.action) }))
					verdict(ck, "Valid", got)
				} else {
					note(vs.Guard("C57", "panic_in_valid", func() { got = ValidFor(ck.tok, ck.key, ck.user, ck.action, ck.timeout) }))
					verdict(ck, "ValidFor", got)
				}
			}
		})
	}
	// Every check once more with the instant passed explicitly.
	var simMax int64
	for _, ck := range checks {
		var got bool
		note(vs.Guard("C57", "panic_in_valid", func() {
			got = validTokenAtTime(ck.tok, ck.key, ck.user, ck.action, time.Unix(0, ck.at), ck.timeout)
		}))
		verdict(ck, "validTokenAtTime", got)

		is := issues[ck.issue]
		issueNs := is.issueMs * 1_000_000
		if ck.class == "window" {
			switch d := ck.at - (issueNs - 60_000_000_000); {
			case d == 0:
				vs.G.Inc("probe.edge_lower_exact")
			case -1_000_000 <= d && d <= 1_000_000:
				vs.G.Inc("probe.edge_within_1ms")
			}
			if ck.timeout < time.Duration(1<<61) {
				switch d := ck.at - issueNs - int64(ck.timeout); {
				case d == 0:
					vs.G.Inc("probe.edge_upper_exact")
				case -1_000_000 <= d && d <= 1_000_000:
					vs.G.Inc("probe.edge_within_1ms")
				}
			}
			if ck.at < is.at {
				vs.G.Inc("probe.verifier_behind_issuer")
				vs.G.Inc("fault.clock_skew_behind")
			}
		}
		if ck.class == "tampered_token_accepted" {
			vs.G.Inc("fault.tampered")
		}
		if ck.class == "other_triple_accepted" {
			vs.G.Inc("fault.other_triple")
			if ck.user+":"+ck.action == user+":"+action {
				vs.G.Inc("probe.confusable_same_join")
			}
			un := strings.NewReplacer(":", "_c").Replace
			if un(ck.user)+":"+un(ck.action) == un(user)+":"+un(action) || strings.ReplaceAll(ck.user, "_", "__")+":"+strings.ReplaceAll(ck.action, "_", "__") == strings.ReplaceAll(user, "_", "__")+":"+strings.ReplaceAll(action, "_", "__") {
				vs.G.Inc("probe.confusable_same_cleaned_naive")
			}
		}
		if ck.at >= epochNs && ck.at-epochNs > simMax && ck.at-epochNs < int64(20*365*24*time.Hour) {
			simMax = ck.at - epochNs
		}
	}
	tr.Ev("key=%q user=%q action=%q", key, user, action)

	if simMax > int64(time.Hour) {
		simMax = int64(time.Hour) // the core's nanosecond accumulator would overflow on years per run
	}
	vs.G.EndRun(tr, len(checks) > 0, time.Duration(simMax), func() any {
		return map[string]any{"key": key, "user": user, "action": action, "events": tr.Log[:min(len(tr.Log), 30)]}
	})
	if harness != "" {
		vs.Harnessf(rt, "%s", harness)
	}
	vs.Report(rt, viol, tr)
}

func TestVerif_C57(t *testing.T) { vs.Check(t, func(rt *rapid.T) { xsRun(t, rt) }) }
