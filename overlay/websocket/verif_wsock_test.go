// Engine wsock (C59): a client websocket.Conn and a server websocket.Conn (hybi)
// over a simulated byte stream inside a synctest bubble, after a real opening
// handshake (NewClient on end A; http.ReadRequest + newServerConn, i.e. what
// Server.serveWebSocket does after Hijack, on end B). Each side runs a sender
// task (text/binary messages through Message.Send / Codec.Send / Conn.Write with
// lengths around 0, 125/126, 65535/65536 and up to 256 KiB, interleaved
// frame-level PINGs) and a receiver task (Codec.Receive with a generated
// MaxPayloadBytes). Delivery in both directions is split by the scheduler, with
// hints that land inside the 2/4/10/14-byte frame headers and the masking key.
//
// Wire monitors: an RFC 6455 §5.2 frame parser written for this file sees every
// byte written in each direction (StreamConn taps).
//
// Oracle (property statement, clause by clause):
//   message_mismatch / missing_message / extra_message
//                        received == sent (payload type, bytes, order) per direction
//   too_large            a message above MaxPayloadBytes yields ErrFrameTooLarge (and
//                        only such a message does); the next message is intact
//   client_frame_unmasked / server_frame_masked   (wire)
//   ping_unanswered / pong_payload                every PING is answered by a PONG
//                        with its payload (RFC 6455 §5.5.3 latitude: a PONG may be
//                        skipped only for a PING older than the most recent one)
//   mask_violation_accepted (config byz)          a frame violating the masking rule,
//                        injected by the man-in-the-middle stage, is not delivered
//                        as a message: the Receive that meets it fails
// Byzantine stage (config byz): a rewriting wrapper around the victim's net.Conn
// (streaming, so the victim still sees the scheduler's splits) that unmasks one
// client frame, masks one server frame, fragments one control frame, or sets
// reserved bits. The property statement says nothing about the last two: from
// that frame on the direction is a don't-care (only "no panic").

package websocket

import (
	"bufio"
	"bytes"
	"errors"
	"fmt"
	"net"
	"net/http"
	"testing"
	"time"

	vs "golang.org/x/net/internal/verifsim"
	"pgregory.net/rapid"
)

// ---------------------------------------------------------------------------
// plan

type wsOp struct {
	Ping  bool
	Bin   bool
	Len   int
	Seed  uint32
	Via   int // 0 Message.Send, 1 custom Codec.Send, 2 Conn.Write
	Recv  int // how the peer receives it: 0 custom codec (type visible), 1 Message into *[]byte, 2 Message into *string, 3 Conn.Read in chunks
	Chunk int // buffer size for Recv == 3
}

type wsByz struct {
	Kind   string // "", unmask, mask, fragment_control, rsv
	Dir    int    // 0 client->server, 1 server->client
	Target int    // n-th frame of the class the fault applies to
	Bits   byte   // rsv bits (0x10..0x70)
	Key    [4]byte
}

type wsPlan struct {
	Ops [2][]wsOp // [0] client->server, [1] server->client
	Max [2]int    // MaxPayloadBytes of the receiver of direction d
	Byz []wsByz
	// Bound[d] > 0: writes in direction d meet back-pressure (bounded transport
	// buffer); at most one direction per run, so that the two sides cannot block
	// each other. Needs the verif build tag of /repo (Conn.wio waiters block durably).
	Bound [2]int
}

// wsFlaky is the receiving side's net.Conn with one injectable fault: when armed,
// the n-th following Read fails once with a timeout error (what an expired read
// deadline looks like to the websocket.Conn) without consuming anything.
type wsFlaky struct {
	net.Conn
	failIn int         // 0 = not armed; k = the k-th qualifying Read from now fails
	when   func() bool // a Read qualifies only while this holds (the Conn is draining a refused frame)
	fired  int
}

type wsTimeoutErr struct{}

func (wsTimeoutErr) Error() string   { return "vf: i/o timeout (injected read deadline)" }
func (wsTimeoutErr) Timeout() bool   { return true }
func (wsTimeoutErr) Temporary() bool { return true }

func (f *wsFlaky) Read(p []byte) (int, error) {
	if f.failIn > 0 && (f.when == nil || f.when()) {
		f.failIn--
		if f.failIn == 0 {
			f.fired++
			return 0, wsTimeoutErr{}
		}
	}
	return f.Conn.Read(p)
}

func wsPayload(op wsOp) []byte {
	b := make([]byte, op.Len)
	x := op.Seed*2654435761 + 1
	for i := range b {
		x = x*1664525 + 1013904223
		if op.Bin || op.Ping {
			b[i] = byte(x >> 15)
		} else {
			b[i] = byte(' ' + (x>>16)%95)
		}
	}
	return b
}

func wsDrawPlan(rt *rapid.T, byz bool) *wsPlan {
	c := vs.RapidChooser{T: rt}
	p := &wsPlan{}
	maxLen := vs.Thorough(70000, 262144)
	bigLeft := vs.Thorough(2, 3)
	for d := 0; d < 2; d++ {
		n := vs.Range(c, 0, vs.Thorough(6, 10))
		if d == 0 && n == 0 {
			n = 1
		}
		for i := 0; i < n; i++ {
			op := wsOp{Seed: uint32(c.Intn(1 << 16))}
			if vs.Pct(c, 25) {
				op.Ping = true
				op.Len = vs.Pick(c, 5, 0, 1, 124, 125, vs.Range(c, 0, 125))
			} else {
				op.Bin = vs.Bool(c)
				op.Len = vs.SizeBiased(c, maxLen, 0, 125, 126, 127, 65535, 65536, 65537, maxLen)
				if op.Len > 4096 {
					if bigLeft == 0 {
						op.Len = 126 + op.Len%1000
					} else {
						bigLeft--
					}
				}
				op.Via = c.Intn(3)
				op.Recv = vs.Pick(c, 0, 1, 2, 0, 3)
				op.Chunk = vs.Pick(c, 512, 1, 3, 7, 64, 1000, 4096, 65536)
			}
			p.Ops[d] = append(p.Ops[d], op)
		}
	}
	if !byz && vs.Pct(c, 25) {
		d := c.Intn(2)
		total := 0
		for _, op := range p.Ops[d] {
			total += op.Len + 14
		}
		// (every bound-full of bytes costs a delivery step: keep a run within its step budget)
		p.Bound[d] = max(vs.Pick(c, 1, 9, 100, 4096, 5000), total/2000+1)
	}
	for d := 0; d < 2; d++ {
		switch c.Intn(4) {
		case 0: // default limit
		case 1:
			p.Max[d] = vs.Pick(c, 1, 125, 126, 127, 1000, 65535, 65536, 65537)
		default:
			// around the length of one of the messages
			var lens []int
			for _, op := range p.Ops[d] {
				if !op.Ping {
					lens = append(lens, op.Len)
				}
			}
			if len(lens) > 0 {
				p.Max[d] = lens[c.Intn(len(lens))] + vs.Pick(c, 0, -1, 1)
				if p.Max[d] < 1 {
					p.Max[d] = 1
				}
			}
		}
	}
	for d := 0; d < 2; d++ {
		// Conn.Read has stream semantics (no message boundary, no size limit): only
		// used for non-empty messages within the limit, where it must yield the bytes.
		// Nor directly after a refused message: Codec.Receive documents that the *next
		// Receive* discards the refused frame's payload; Read would return it.
		prevRefused := false
		for i := range p.Ops[d] {
			op := &p.Ops[d][i]
			if op.Ping {
				continue
			}
			refused := p.Max[d] != 0 && op.Len > p.Max[d]
			if op.Recv == 3 && (op.Len == 0 || refused || prevRefused) {
				op.Recv = 0
			}
			prevRefused = refused
			if op.Chunk < op.Len/1500 {
				op.Chunk = op.Len/1500 + 1
			}
		}
	}
	if byz {
		n := vs.Pick(c, 1, 1, 2)
		for i := 0; i < n; i++ {
			z := wsByz{Dir: c.Intn(2), Target: vs.Pick(c, 0, 0, 1, 2, 3)}
			switch c.Intn(4) {
			case 0, 1:
				z.Kind = "unmask"
				if z.Dir == 1 {
					z.Kind = "mask"
				}
			case 2:
				z.Kind = "fragment_control"
			default:
				z.Kind = "rsv"
				z.Bits = byte(vs.Pick(c, 0x40, 0x20, 0x10, 0x70))
			}
			for k := range z.Key {
				z.Key[k] = byte(c.Intn(256))
			}
			p.Byz = append(p.Byz, z)
		}
		if len(p.Byz) == 2 && p.Byz[0].Dir == p.Byz[1].Dir {
			p.Byz = p.Byz[:1]
		}
	}
	return p
}

// ---------------------------------------------------------------------------
// RFC 6455 §5.2 frame parser (wire monitor and man-in-the-middle share it)

type wsFrameInfo struct {
	Off     int64 // stream offset of the first header byte
	HdrLen  int
	Fin     bool
	Rsv     byte
	Op      byte
	Masked  bool
	Key     [4]byte
	Len     int64
	Payload []byte // unmasked (monitor only)
}

type wsWire struct {
	seen      int64 // bytes seen
	handshake bool  // past the HTTP header block
	tail      [4]byte
	hdr       []byte
	cur       *wsFrameInfo
	left      int64
	Frames    []*wsFrameInfo
	keep      bool // keep payloads
}

// wsHeaderNeed returns the full header length once the first two bytes are known.
func wsHeaderNeed(h []byte) int {
	if len(h) < 2 {
		return 2
	}
	n := 2
	switch h[1] & 0x7f {
	case 126:
		n += 2
	case 127:
		n += 8
	}
	if h[1]&0x80 != 0 {
		n += 4
	}
	return n
}

func wsParseHeader(h []byte, off int64) *wsFrameInfo {
	f := &wsFrameInfo{Off: off, HdrLen: len(h), Fin: h[0]&0x80 != 0, Rsv: h[0] & 0x70, Op: h[0] & 0x0f, Masked: h[1]&0x80 != 0}
	i := 2
	switch l := h[1] & 0x7f; l {
	case 126:
		f.Len = int64(h[2])<<8 | int64(h[3])
		i = 4
	case 127:
		for k := 2; k < 10; k++ {
			f.Len = f.Len<<8 | int64(h[k])
		}
		i = 10
	default:
		f.Len = int64(l)
	}
	if f.Masked {
		copy(f.Key[:], h[i:i+4])
	}
	return f
}

// feed consumes stream bytes; onFrame is called when a header is complete,
// onPayload for every payload chunk (raw wire bytes), onRaw for handshake bytes.
func (w *wsWire) feed(b []byte, onRaw func([]byte), onFrame func(*wsFrameInfo), onPayload func(f *wsFrameInfo, pos int64, chunk []byte)) {
	for len(b) > 0 {
		if !w.handshake {
			i := 0
			for i < len(b) && !w.handshake {
				w.tail = [4]byte{w.tail[1], w.tail[2], w.tail[3], b[i]}
				i++
				if w.tail == [4]byte{'\r', '\n', '\r', '\n'} {
					w.handshake = true
				}
			}
			if onRaw != nil {
				onRaw(b[:i])
			}
			w.seen += int64(i)
			b = b[i:]
			continue
		}
		if w.cur == nil {
			need := wsHeaderNeed(w.hdr)
			k := min(need-len(w.hdr), len(b))
			w.hdr = append(w.hdr, b[:k]...)
			b = b[k:]
			w.seen += int64(k)
			if len(w.hdr) >= 2 && len(w.hdr) == wsHeaderNeed(w.hdr) {
				f := wsParseHeader(w.hdr, w.seen-int64(len(w.hdr)))
				w.hdr = w.hdr[:0]
				w.Frames = append(w.Frames, f)
				if onFrame != nil {
					onFrame(f)
				}
				if f.Len > 0 {
					w.cur, w.left = f, f.Len
				} else if onPayload != nil {
					onPayload(f, 0, nil)
				}
			}
			continue
		}
		k := int64(len(b))
		if k > w.left {
			k = w.left
		}
		f := w.cur
		pos := f.Len - w.left
		if w.keep {
			for i, ch := range b[:k] {
				if f.Masked {
					ch ^= f.Key[(pos+int64(i))%4]
				}
				f.Payload = append(f.Payload, ch)
			}
		}
		if onPayload != nil {
			onPayload(f, pos, b[:k])
		}
		w.left -= k
		w.seen += k
		b = b[k:]
		if w.left == 0 {
			w.cur = nil
		}
	}
}

// ---------------------------------------------------------------------------
// man-in-the-middle stage: a net.Conn wrapper rewriting what the victim reads

type wsMitm struct {
	net.Conn
	dir    int
	faults []wsByz // faults for this direction
	w      wsWire
	out    []byte
	buf    []byte

	nData, nCtl, nAny int // frames seen so far, per class
	// current frame rewriting
	inKey, outKey     [4]byte
	inMasked, outMask bool
	outPos            int64
	splitAt           int64 // >0: emit a continuation header after this many payload bytes
	splitHdr          []byte

	Fired       []string
	FiredAtMsg  int // data frames completely preceding the first fired fault
	FiredOnData bool
	firedKind   string
}

func wsEncodeHeader(fin bool, rsv, op byte, masked bool, key [4]byte, n int64) []byte {
	h := []byte{op | rsv, 0}
	if fin {
		h[0] |= 0x80
	}
	switch {
	case n <= 125:
		h[1] = byte(n)
	case n < 65536:
		h[1] = 126
		h = append(h, byte(n>>8), byte(n))
	default:
		h[1] = 127
		for k := 7; k >= 0; k-- {
			h = append(h, byte(n>>(8*uint(k))))
		}
	}
	if masked {
		h[1] |= 0x80
		h = append(h, key[:]...)
	}
	return h
}

func (m *wsMitm) onFrame(f *wsFrameInfo) {
	isCtl := f.Op >= 8
	kind := ""
	var z wsByz
	if len(m.Fired) == 0 { // one fault per direction
		for _, cand := range m.faults {
			switch cand.Kind {
			case "unmask":
				if f.Masked && m.nAny == cand.Target {
					kind, z = cand.Kind, cand
				}
			case "mask":
				if !f.Masked && m.nAny == cand.Target {
					kind, z = cand.Kind, cand
				}
			case "rsv":
				if m.nAny == cand.Target {
					kind, z = cand.Kind, cand
				}
			case "fragment_control":
				if isCtl && f.Op != CloseFrame && f.Len >= 2 && m.nCtl == cand.Target {
					kind, z = cand.Kind, cand
				}
			}
			if kind != "" {
				break
			}
		}
	}
	m.inMasked, m.inKey = f.Masked, f.Key
	m.outMask, m.outKey = f.Masked, f.Key
	m.outPos, m.splitAt, m.splitHdr = 0, 0, nil
	fin, rsv, n := f.Fin, f.Rsv, f.Len
	switch kind {
	case "unmask":
		m.outMask = false
	case "mask":
		m.outMask, m.outKey = true, z.Key
	case "rsv":
		rsv |= z.Bits
	case "fragment_control":
		fin = false
		n = f.Len / 2
		m.splitAt = n
		m.splitHdr = wsEncodeHeader(true, 0, ContinuationFrame, m.outMask, m.outKey, f.Len-n)
	}
	if kind != "" {
		m.Fired = append(m.Fired, kind)
		m.FiredAtMsg, m.FiredOnData, m.firedKind = m.nData, !isCtl, kind
		vs.G.Inc("fault." + kind)
	}
	m.out = append(m.out, wsEncodeHeader(fin, rsv, f.Op, m.outMask, m.outKey, n)...)
	m.nAny++
	if isCtl {
		m.nCtl++
	} else {
		m.nData++
	}
}

func (m *wsMitm) onPayload(f *wsFrameInfo, pos int64, chunk []byte) {
	for i, ch := range chunk {
		if m.inMasked {
			ch ^= m.inKey[(pos+int64(i))%4]
		}
		if m.splitAt > 0 && pos+int64(i) == m.splitAt {
			m.out = append(m.out, m.splitHdr...)
			m.outPos = 0
		}
		if m.outMask {
			ch ^= m.outKey[m.outPos%4]
		}
		m.outPos++
		m.out = append(m.out, ch)
	}
}

func (m *wsMitm) Read(p []byte) (int, error) {
	for len(m.out) == 0 {
		if m.buf == nil {
			m.buf = make([]byte, 4096)
		}
		n, err := m.Conn.Read(m.buf)
		if n > 0 {
			m.w.feed(m.buf[:n], func(raw []byte) { m.out = append(m.out, raw...) }, m.onFrame, m.onPayload)
		}
		if err != nil {
			if len(m.out) > 0 {
				break
			}
			return 0, err
		}
	}
	n := copy(p, m.out)
	m.out = m.out[n:]
	if len(m.out) == 0 {
		m.out = nil
	}
	return n, nil
}

// ---------------------------------------------------------------------------
// run

type wsRecv struct {
	Err  error
	Type int // -1 unknown (Message codec)
	Data []byte
}

type wsCapture struct {
	Type byte
	Data []byte
}

var wsCodec = Codec{
	Marshal: func(v interface{}) ([]byte, byte, error) {
		c := v.(*wsCapture)
		return c.Data, c.Type, nil
	},
	Unmarshal: func(data []byte, payloadType byte, v interface{}) error {
		c := v.(*wsCapture)
		c.Type, c.Data = payloadType, data
		return nil
	},
}

func wsRun(rt *rapid.T, t *testing.T) {
	byz := vs.Config() == "byz"
	for _, n := range []string{"probe.len_0", "probe.len_125", "probe.len_126", "probe.len_65535", "probe.len_65536", "probe.len_over_65536",
		"probe.too_large_then_intact", "probe.limit_exact", "probe.ping_answered", "probe.split_inside_header", "probe.text", "probe.binary", "probe.conn_read_chunks"} {
		vs.G.Add(n, 0)
	}
	if byz {
		for _, n := range []string{"probe.mask_violation_rejected", "fault.unmask", "fault.mask", "fault.fragment_control", "fault.rsv"} {
			vs.G.Add(n, 0)
		}
	}
	p := wsDrawPlan(rt, byz)
	tape := vs.DrawTape(rt, 1024)
	tr := vs.NewTrace()
	for d := 0; d < 2; d++ {
		s := ""
		for _, op := range p.Ops[d] {
			switch {
			case op.Ping:
				s += fmt.Sprintf(" ping(%d)", op.Len)
			case op.Bin:
				s += fmt.Sprintf(" bin(%d,v%d,r%d/%d)", op.Len, op.Via, op.Recv, op.Chunk)
			default:
				s += fmt.Sprintf(" text(%d,v%d,r%d/%d)", op.Len, op.Via, op.Recv, op.Chunk)
			}
		}
		tr.Ev("plan dir%d max=%d:%s", d, p.Max[d], s)
	}
	for _, z := range p.Byz {
		tr.Ev("plan byz %s dir%d target=%d bits=%#x", z.Kind, z.Dir, z.Target, z.Bits)
	}

	var viol *vs.Violation
	var harness string
	var simDur time.Duration
	var results [2][]wsRecv // results[d]: what the receiver of direction d got
	var wire [2]*wsWire
	var mitm [2]*wsMitm
	hsOK := false
	recvDone := [2]bool{}

	deadlock := vs.Bubble(t, func() {
		sim := vs.NewSim(tape, tr)
		sim.MaxSteps, sim.Horizon = vs.Thorough(40000, 120000), 10*time.Minute
		conn := vs.NewStreamConn(sim, "ws")
		if p.Bound[0] > 0 {
			conn.BoundAB(p.Bound[0])
			vs.G.Inc("fault.write_backpressure")
		}
		if p.Bound[1] > 0 {
			conn.BoundBA(p.Bound[1])
			vs.G.Inc("fault.write_backpressure")
		}
		wire[0], wire[1] = &wsWire{keep: true}, &wsWire{keep: true}
		conn.TapAB(func(b []byte) { wire[0].feed(b, nil, nil, nil) })
		conn.TapBA(func(b []byte) { wire[1].feed(b, nil, nil, nil) })
		hint := func(w *wsWire) func([]byte) []int {
			return func(inflight []byte) []int {
				// absolute offset of the first undelivered byte; w.seen counts the bytes written
				delivered := w.seen - int64(len(inflight))
				var out []int
				for i := len(w.Frames) - 1; i >= 0 && len(out) < 24; i-- {
					f := w.Frames[i]
					if f.Off+int64(f.HdrLen)+1 <= delivered {
						break
					}
					for _, k := range []int64{1, 2, 3, 4, int64(f.HdrLen) - 2, int64(f.HdrLen) - 1, int64(f.HdrLen), int64(f.HdrLen) + 1} {
						if x := f.Off + k - delivered; x >= 1 && x <= int64(len(inflight)) {
							out = append(out, int(x))
						}
					}
				}
				return out
			}
		}
		conn.SplitHintAB = hint(wire[0])
		conn.SplitHintBA = hint(wire[1])

		var endA, endB net.Conn = conn.A, conn.B
		if byz {
			for d := 0; d < 2; d++ {
				var fs []wsByz
				for _, z := range p.Byz {
					if z.Dir == d {
						fs = append(fs, z)
					}
				}
				if len(fs) == 0 {
					continue
				}
				if d == 0 { // client->server frames are rewritten on the server's read side
					mitm[0] = &wsMitm{Conn: conn.B, dir: 0, faults: fs}
					endB = mitm[0]
				} else {
					mitm[1] = &wsMitm{Conn: conn.A, dir: 1, faults: fs}
					endA = mitm[1]
				}
			}
		}

		// (clean configuration only: the byzantine stage has its own wrapper)
		var flaky [2]*wsFlaky
		if !byz {
			flaky[0], flaky[1] = &wsFlaky{Conn: endA}, &wsFlaky{Conn: endB}
			endA, endB = flaky[0], flaky[1]
		}
		var ws [2]*Conn // [0] client, [1] server
		ready := [2]chan struct{}{make(chan struct{}), make(chan struct{})}
		var hsErr [2]error
		tearing := false

		hsC := sim.Go("c.handshake", "C59", func(tk *vs.Task) {
			defer close(ready[0])
			tk.Step("client handshake")
			cfg, err := NewConfig("ws://server.example/ws", "http://client.example")
			if err != nil {
				hsErr[0] = err
				return
			}
			cfg.handshakeData = map[string]string{"key": "dGhlIHNhbXBsZSBub25jZQ=="}
			c, err := NewClient(cfg, endA)
			if err != nil {
				hsErr[0] = err
				return
			}
			c.MaxPayloadBytes = p.Max[1]
			ws[0] = c
		})
		hsS := sim.Go("s.handshake", "C59", func(tk *vs.Task) {
			defer close(ready[1])
			tk.Step("server handshake")
			br := bufio.NewReader(endB)
			bw := bufio.NewWriter(endB)
			req, err := http.ReadRequest(br)
			if err != nil {
				hsErr[1] = err
				return
			}
			c, err := newServerConn(endB, bufio.NewReadWriter(br, bw), req, &Config{}, nil)
			if err != nil {
				hsErr[1] = err
				return
			}
			c.MaxPayloadBytes = p.Max[0]
			ws[1] = c
		})

		var senders [2]*vs.Task
		for side := 0; side < 2; side++ {
			side := side
			name := []string{"c", "s"}[side]
			senders[side] = sim.Go(name+".send", "C59", func(tk *vs.Task) {
				<-ready[side]
				c := ws[side]
				if c == nil {
					return
				}
				for i, op := range p.Ops[side] {
					data := wsPayload(op)
					var err error
					switch {
					case op.Ping:
						tk.Step(fmt.Sprintf("ping #%d len=%d", i, op.Len))
						c.wio.Lock()
						w, e := c.frameWriterFactory.NewFrameWriter(PingFrame)
						if e == nil {
							_, e = w.Write(data)
							w.Close()
						}
						c.wio.Unlock()
						err = e
					default:
						tk.Step(fmt.Sprintf("send #%d bin=%v len=%d via=%d", i, op.Bin, op.Len, op.Via))
						switch op.Via {
						case 0:
							if op.Bin {
								err = Message.Send(c, data)
							} else {
								err = Message.Send(c, string(data))
							}
						case 1:
							typ := byte(TextFrame)
							if op.Bin {
								typ = BinaryFrame
							}
							err = wsCodec.Send(c, &wsCapture{Type: typ, Data: data})
						default:
							c.PayloadType = TextFrame
							if op.Bin {
								c.PayloadType = BinaryFrame
							}
							var n int
							n, err = c.Write(data)
							if err == nil && n != len(data) {
								err = fmt.Errorf("Write returned %d for %d bytes", n, len(data))
							}
						}
					}
					if err != nil {
						tr.Ev("%s.send #%d error", name, i)
						if !byz {
							sim.SetViolation(vs.Violf("C59", "send_error", "send", "%s: sending op #%d (%+v) failed: %v", name, i, op, err))
						}
						return
					}
				}
			})
			// the receiver of direction d = 1-side runs on this side
			d := 1 - side
			sim.Go(name+".recv", "C59", func(tk *vs.Task) {
				<-ready[side]
				c := ws[side]
				if c == nil {
					return
				}
				var recvAPI []int
				var recvOps []wsOp
				for _, op := range p.Ops[d] {
					if !op.Ping {
						recvAPI = append(recvAPI, op.Recv)
						recvOps = append(recvOps, op)
					}
				}
				prevTooLarge := false
				for i := 0; ; i++ {
					api := 0
					if i < len(recvAPI) {
						api = recvAPI[i]
					}
					tk.Step(fmt.Sprintf("receive #%d api=%d", i, api))
					injected := false
					if prevTooLarge && flaky[side] != nil && i < len(recvOps) && recvOps[i].Seed%3 != 0 {
						// the rest of the refused message is drained by this Receive: let
						// a read deadline expire in the middle of it, then retry
						// (only while the Conn still holds the refused frame's reader: a
						// timeout inside the next frame's header is a different matter,
						// about which the property says nothing)
						flaky[side].when = func() bool { return c.frameReader != nil }
						flaky[side].failIn = 1 + int(recvOps[i].Seed>>8)%3
						injected = true
						vs.G.Inc("fault.read_timeout_armed_after_refusal")
					}
					prevTooLarge = false
				retry:
					var r wsRecv
					switch api {
					case 0:
						var cp wsCapture
						r.Err = wsCodec.Receive(c, &cp)
						r.Type, r.Data = int(cp.Type), cp.Data
					case 1:
						var b []byte
						r.Err = Message.Receive(c, &b)
						r.Type, r.Data = -1, b
					case 2:
						var s string
						r.Err = Message.Receive(c, &s)
						r.Type, r.Data = -1, []byte(s)
					default:
						op := recvOps[i]
						buf := make([]byte, op.Len)
						got := 0
						for got < op.Len && r.Err == nil {
							var n int
							n, r.Err = c.Read(buf[got:min(got+op.Chunk, op.Len)])
							got += n
						}
						r.Type, r.Data = -1, buf[:got]
						vs.G.Inc("probe.conn_read_chunks")
					}
					if tearing {
						return
					}
					if injected {
						var te wsTimeoutErr
						if errors.As(r.Err, &te) {
							// the injected timeout surfaced: the application retries
							injected = false
							vs.G.Inc("fault.read_timeout_during_drain")
							tr.Ev("%s.recv #%d -> injected read timeout, retrying", name, i)
							goto retry
						}
						flaky[side].failIn = 0
					}
					prevTooLarge = r.Err == ErrFrameTooLarge
					results[d] = append(results[d], r)
					if r.Err != nil {
						tr.Ev("%s.recv #%d -> error toolarge=%v", name, i, r.Err == ErrFrameTooLarge)
					} else {
						tr.Ev("%s.recv #%d -> type=%d len=%d", name, i, r.Type, len(r.Data))
					}
					if r.Err != nil && r.Err != ErrFrameTooLarge {
						recvDone[d] = true
						return
					}
				}
			})
		}
		var lastDelivered [2]int64
		sim.Check = func() *vs.Violation {
			for d := 0; d < 2; d++ {
				del := conn.DeliveredAB()
				if d == 1 {
					del = conn.DeliveredBA()
				}
				if del == lastDelivered[d] {
					continue
				}
				lastDelivered[d] = del
				fs := wire[d].Frames
				for i := len(fs) - 1; i >= 0 && fs[i].Off+int64(fs[i].HdrLen) > del; i-- {
					if fs[i].Off < del {
						vs.G.Inc("probe.split_inside_header")
					}
				}
			}
			return nil
		}
		sim.Done = func() bool { return hsC.Done() && hsS.Done() && senders[0].Done() && senders[1].Done() }
		sim.Run()
		viol = sim.Viol
		if viol == nil {
			switch {
			case sim.StepsOut:
				harness = fmt.Sprintf("step budget exhausted: %v", sim.PendingTasks())
			case sim.Stuck:
				harness = fmt.Sprintf("stuck: %v (handshake errors %v)", sim.PendingTasks(), hsErr)
			case hsErr[0] != nil || hsErr[1] != nil:
				if !byz {
					harness = fmt.Sprintf("handshake failed: %v", hsErr)
				}
			default:
				hsOK = true
			}
		}
		tearing = true
		conn.Cut(errors.New("sim: teardown"))
		conn.A.Close()
		conn.B.Close()
		sim.Abort()
		conn.StopTimers()
		simDur = sim.Elapsed()
	})
	if deadlock != "" && viol == nil && harness == "" {
		harness = "goroutines left in bubble: " + deadlock
	}
	fired := false
	if viol == nil && harness == "" && hsOK {
		viol = wsJudge(p, byz, results, recvDone, wire, mitm)
	}
	for d := 0; d < 2; d++ {
		if mitm[d] != nil && len(mitm[d].Fired) > 0 {
			fired = true
		}
	}
	nontrivial := hsOK && len(results[0])+len(results[1]) > 0
	if byz {
		nontrivial = nontrivial && fired
	}
	vs.G.EndRun(tr, nontrivial, simDur, func() any {
		return map[string]any{"events": tr.Log[:min(len(tr.Log), 40)]}
	})
	if harness != "" {
		vs.Harnessf(rt, "%s", harness)
	}
	vs.Report(rt, viol, tr)
}

func wsJudge(p *wsPlan, byz bool, results [2][]wsRecv, recvDone [2]bool, wire [2]*wsWire, mitm [2]*wsMitm) *vs.Violation {
	anyFired := false
	for d := 0; d < 2; d++ {
		if mitm[d] != nil && len(mitm[d].Fired) > 0 {
			anyFired = true
		}
	}
	dirName := []string{"client->server", "server->client"}
	// --- messages per direction
	for d := 0; d < 2; d++ {
		var msgs []wsOp
		for _, op := range p.Ops[d] {
			if !op.Ping {
				msgs = append(msgs, op)
			}
		}
		max := p.Max[d]
		if max == 0 {
			max = DefaultMaxPayloadBytes
		}
		// strictUntil: results before this index are fully determined by the property
		strictUntil := len(msgs) + 1
		maskFault := false
		if m := mitm[d]; m != nil && len(m.Fired) > 0 {
			strictUntil = m.FiredAtMsg
			maskFault = m.firedKind == "unmask" || m.firedKind == "mask"
		}
		res := results[d]
		prevTooLarge := false
		for i, r := range res {
			if i >= strictUntil {
				if i == strictUntil && maskFault {
					// the Receive that met the frame violating the masking rule
					if r.Err == nil {
						return vs.Violf("C59", "mask_violation_accepted", dirName[d], "%s: a frame rewritten to violate the masking rule (%s) was delivered as message #%d (type %d, %d bytes)", dirName[d], mitm[d].firedKind, i, r.Type, len(r.Data))
					}
					vs.G.Inc("probe.mask_violation_rejected")
				}
				break // don't-care from here on
			}
			if i >= len(msgs) {
				if r.Err != nil && r.Err != ErrFrameTooLarge {
					// the receive after the last message failed: by itself that contradicts
					// no clause (what it breaks, an unanswered PING, is checked below)
					vs.G.Inc("stat.error_after_last_message")
					break
				}
				return vs.Violf("C59", "extra_message", dirName[d], "%s: receive #%d returned (err=%v, type %d, %d bytes) but only %d messages were sent", dirName[d], i, r.Err, r.Type, len(r.Data), len(msgs))
			}
			op := msgs[i]
			want := wsPayload(op)
			wantType := TextFrame
			if op.Bin {
				wantType = BinaryFrame
			}
			sig := fmt.Sprintf("%s:len%s", dirName[d], wsLenClass(op.Len))
			if r.Err != nil && r.Err != ErrFrameTooLarge {
				if anyFired {
					break
				}
				return vs.Violf("C59", "receive_error", sig, "%s: receive #%d (message of %d bytes, limit %d) failed: %v", dirName[d], i, op.Len, max, r.Err)
			}
			if op.Len > max {
				if r.Err != ErrFrameTooLarge {
					return vs.Violf("C59", "too_large", "accepted:"+sig, "%s: message #%d has %d bytes > MaxPayloadBytes %d but Receive returned err=%v with %d bytes", dirName[d], i, op.Len, max, r.Err, len(r.Data))
				}
				prevTooLarge = true
				continue
			}
			if r.Err == ErrFrameTooLarge {
				return vs.Violf("C59", "too_large", "spurious:"+sig, "%s: message #%d has %d bytes <= MaxPayloadBytes %d but Receive returned ErrFrameTooLarge", dirName[d], i, op.Len, max)
			}
			if !bytes.Equal(r.Data, want) || (r.Type >= 0 && r.Type != wantType) {
				oracle := "message_mismatch"
				if prevTooLarge {
					oracle = "message_after_too_large"
				}
				return vs.Violf("C59", oracle, sig, "%s: message #%d sent type %d len %d (%s), received type %d len %d (%s)%s", dirName[d], i, wantType, len(want), vs.Hex(want), r.Type, len(r.Data), vs.Hex(r.Data), wsFirstDiff(want, r.Data))
			}
			if prevTooLarge {
				vs.G.Inc("probe.too_large_then_intact")
				prevTooLarge = false
			}
			if op.Len == max {
				vs.G.Inc("probe.limit_exact")
			}
			switch {
			case op.Len == 0:
				vs.G.Inc("probe.len_0")
			case op.Len == 125:
				vs.G.Inc("probe.len_125")
			case op.Len == 126:
				vs.G.Inc("probe.len_126")
			case op.Len == 65535:
				vs.G.Inc("probe.len_65535")
			case op.Len == 65536:
				vs.G.Inc("probe.len_65536")
			case op.Len > 65536:
				vs.G.Inc("probe.len_over_65536")
			}
			if op.Bin {
				vs.G.Inc("probe.binary")
			} else {
				vs.G.Inc("probe.text")
			}
		}
		if !anyFired && len(res) < len(msgs) {
			op := msgs[len(res)]
			return vs.Violf("C59", "missing_message", fmt.Sprintf("%s:len%s", dirName[d], wsLenClass(op.Len)), "%s: %d messages sent, all bytes delivered, but only %d receives completed (next: %d bytes, limit %d)", dirName[d], len(msgs), len(res), op.Len, max)
		}
	}
	// --- wire: masking
	for d := 0; d < 2; d++ {
		for i, f := range wire[d].Frames {
			if d == 0 && !f.Masked {
				return vs.Violf("C59", "client_frame_unmasked", fmt.Sprintf("op%d", f.Op), "client->server frame #%d (opcode %d, %d bytes) is not masked on the wire", i, f.Op, f.Len)
			}
			if d == 1 && f.Masked {
				return vs.Violf("C59", "server_frame_masked", fmt.Sprintf("op%d", f.Op), "server->client frame #%d (opcode %d, %d bytes) is masked on the wire", i, f.Op, f.Len)
			}
		}
		if wire[d].cur != nil || len(wire[d].hdr) > 0 {
			// a sender never leaves a frame half written (writes do not fail in this simulation)
			return vs.Violf("C59", "wire_incomplete_frame", dirName[d], "%s: the byte stream ends inside a frame (header bytes %d, payload bytes missing %d)", dirName[d], len(wire[d].hdr), wire[d].left)
		}
	}
	// --- PING / PONG
	if !anyFired {
		for d := 0; d < 2; d++ {
			var pings, pongs [][]byte
			for _, f := range wire[d].Frames {
				if f.Op == PingFrame {
					pings = append(pings, f.Payload)
				}
			}
			for _, f := range wire[1-d].Frames {
				if f.Op == PongFrame {
					pongs = append(pongs, f.Payload)
				}
			}
			j := 0
			last := -1
			for _, pg := range pongs {
				k := j
				for k < len(pings) && !bytes.Equal(pings[k], pg) {
					k++
				}
				if k == len(pings) {
					return vs.Violf("C59", "pong_payload", dirName[d], "a PONG with payload %s (%d bytes) answers none of the outstanding PINGs sent %s (%d pings)", vs.Hex(pg), len(pg), dirName[d], len(pings))
				}
				last = k
				j = k + 1
				vs.G.Inc("probe.ping_answered")
			}
			if len(pings) > 0 && last != len(pings)-1 {
				return vs.Violf("C59", "ping_unanswered", dirName[d], "%d PINGs sent %s and consumed by the peer, %d PONGs came back; the most recent PING (payload %s) was never answered", len(pings), dirName[d], len(pongs), vs.Hex(pings[len(pings)-1]))
			}
		}
	}
	return nil
}

func wsLenClass(n int) string {
	switch {
	case n <= 125:
		return "7"
	case n < 65536:
		return "16"
	default:
		return "64"
	}
}

func wsFirstDiff(a, b []byte) string {
	n := min(len(a), len(b))
	for i := 0; i < n; i++ {
		if a[i] != b[i] {
			return fmt.Sprintf(" first difference at byte %d", i)
		}
	}
	if len(a) != len(b) {
		return fmt.Sprintf(" first difference at byte %d (length)", n)
	}
	return ""
}

func TestVerif_C59(t *testing.T) { vs.Check(t, func(rt *rapid.T) { wsRun(rt, t) }) }
