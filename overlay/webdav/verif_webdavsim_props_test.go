// Engine webdavsim, part 4: C47 — PROPPATCH / PROPFIND through the real Handler
// on memFS from several clients, interleaved with COPY/MOVE, against a reference
// model resource -> (property name -> canonical inner XML). Responses are parsed
// with the standard library's encoding/xml (not the package's fork) and compared
// after canonicalisation of namespace prefixes.

package webdav

import (
	"bytes"
	"context"
	"encoding/xml"
	"fmt"
	"io"
	"net/http"
	"net/http/httptest"
	"net/url"
	"os"
	"path"
	"sort"
	"strings"
	"testing"
	"time"

	vs "golang.org/x/net/internal/verifsim"
	"pgregory.net/rapid"
)

// ---------------------------------------------------------------------------
// Generated XML values

type pxItem struct {
	text string // when el == nil
	el   *pxElem
}

type pxAttr struct {
	space, local, value string
}

type pxElem struct {
	space, local string
	attrs        []pxAttr
	kids         []pxItem
}

var (
	pxSpaces = []string{"urn:a", "urn:b", "http://ex.com/ns?a=1&b=2", "urn:a", "urn:b", "urn:c:'q'"}
	pxLocals = []string{"p", "q", "r", "x-y.z", "_u"}
	pxTexts  = []string{"v", "a<b", "x&y", "\"quoted\"", "it's", "a>b", "]]>", " ", "  lead", "trail ", "line\nbreak", "tab\there", "cr\rhere",
		"é€", "𝄞", "&amp;", "<!-- no comment -->", "&#65;", "1", "two words"}
)

func pxCanonText(s string) string {
	var b strings.Builder
	for _, r := range s {
		switch r {
		case '&':
			b.WriteString("&amp;")
		case '<':
			b.WriteString("&lt;")
		case '>':
			b.WriteString("&gt;")
		case '"':
			b.WriteString("&quot;")
		case '\r':
			b.WriteString("&#xD;")
		default:
			b.WriteRune(r)
		}
	}
	return b.String()
}

// pxCanonItems is the canonical form of a value: names written as {space}local,
// attributes sorted, adjacent text merged, no namespace declarations.
func pxCanonItems(items []pxItem) string {
	var b strings.Builder
	for _, it := range items {
		if it.el == nil {
			b.WriteString(pxCanonText(it.text))
			continue
		}
		e := it.el
		fmt.Fprintf(&b, "<{%s}%s", e.space, e.local)
		as := append([]pxAttr(nil), e.attrs...)
		sort.Slice(as, func(i, j int) bool {
			if as[i].space != as[j].space {
				return as[i].space < as[j].space
			}
			return as[i].local < as[j].local
		})
		for _, a := range as {
			fmt.Fprintf(&b, " {%s}%s=\"%s\"", a.space, a.local, pxCanonText(a.value))
		}
		b.WriteString(">")
		b.WriteString(pxCanonItems(e.kids))
		b.WriteString("</>")
	}
	return b.String()
}

// pxCanonXML canonicalises the content of the element the decoder is positioned
// in (after its start tag) up to the matching end tag.
func pxCanonXML(d *xml.Decoder) (string, error) {
	var b strings.Builder
	depth := 0
	for {
		t, err := d.Token()
		if err != nil {
			return "", err
		}
		switch t := t.(type) {
		case xml.StartElement:
			depth++
			fmt.Fprintf(&b, "<{%s}%s", t.Name.Space, t.Name.Local)
			var as []pxAttr
			for _, a := range t.Attr {
				if a.Name.Space == "xmlns" || a.Name.Space == "" && a.Name.Local == "xmlns" {
					continue
				}
				as = append(as, pxAttr{a.Name.Space, a.Name.Local, a.Value})
			}
			sort.Slice(as, func(i, j int) bool {
				if as[i].space != as[j].space {
					return as[i].space < as[j].space
				}
				return as[i].local < as[j].local
			})
			for _, a := range as {
				fmt.Fprintf(&b, " {%s}%s=\"%s\"", a.space, a.local, pxCanonText(a.value))
			}
			b.WriteString(">")
		case xml.EndElement:
			if depth == 0 {
				return b.String(), nil
			}
			depth--
			b.WriteString("</>")
		case xml.CharData:
			b.WriteString(pxCanonText(string(t)))
		}
	}
}

func pxCanonFragment(inner []byte) (string, error) {
	d := xml.NewDecoder(io.MultiReader(strings.NewReader("<r>"), bytes.NewReader(inner), strings.NewReader("</r>")))
	if _, err := d.Token(); err != nil {
		return "", err
	}
	return pxCanonXML(d)
}

func pxGenItems(c vs.Chooser, depth int) []pxItem {
	var items []pxItem
	n := vs.Pick(c, 1, 1, 0, 2, 3)
	for i := 0; i < n; i++ {
		if depth < 2 && vs.Pct(c, 30) {
			e := &pxElem{space: vs.Pick(c, "urn:a", "urn:n", "", "urn:b", "DAV:"), local: vs.Pick(c, "e", "f", "p", "q", "href")}
			for j, na := 0, vs.Pick(c, 0, 0, 1, 2); j < na; j++ {
				a := pxAttr{space: vs.Pick(c, "", "", "urn:a", "urn:t"), local: vs.Pick(c, "k", "l", "m"), value: vs.Pick(c, "1", "a\"b", "x<y&z", "it's", " sp ", "é")}
				dup := false
				for _, x := range e.attrs {
					dup = dup || x.space == a.space && x.local == a.local
				}
				if !dup {
					e.attrs = append(e.attrs, a)
				}
			}
			if vs.Pct(c, 70) {
				e.kids = pxGenItems(c, depth+1)
			}
			items = append(items, pxItem{el: e})
		} else {
			items = append(items, pxItem{text: pxTexts[c.Intn(len(pxTexts))]})
		}
	}
	return items
}

// pxWriter serialises generated XML with a chosen spelling.
type pxWriter struct {
	c      vs.Chooser
	b      strings.Builder
	prefix map[string]string // namespaces declared on an enclosing element
}

func pxEscText(c vs.Chooser, s string) string {
	if s != "" && !strings.Contains(s, "]]>") && !strings.Contains(s, "\r") && vs.Pct(c, 15) {
		return "<![CDATA[" + s + "]]>"
	}
	var b strings.Builder
	for _, r := range s {
		switch {
		case r == '&':
			b.WriteString("&amp;")
		case r == '<':
			b.WriteString("&lt;")
		case r == '>':
			b.WriteString("&gt;")
		case r == '\r':
			b.WriteString("&#xD;")
		case r == '"' && vs.Bool(c):
			b.WriteString("&quot;")
		case r == '\'' && vs.Bool(c):
			b.WriteString("&apos;")
		case r > 127 && vs.Bool(c):
			fmt.Fprintf(&b, "&#x%X;", r)
		default:
			b.WriteRune(r)
		}
	}
	return b.String()
}

func pxEscAttr(s string) string {
	r := strings.NewReplacer("&", "&amp;", "<", "&lt;", ">", "&gt;", "\"", "&quot;", "\r", "&#xD;", "\n", "&#xA;", "\t", "&#x9;")
	return r.Replace(s)
}

// open writes a start tag for {space}local, declaring what is needed, and
// returns the tag name used (for the end tag).
func (w *pxWriter) open(space, local string, attrs []pxAttr, selfClose bool) string {
	tag := local
	decl := ""
	local2 := map[string]string{}
	switch {
	case space == "":
		decl = ` xmlns=""`
	default:
		if p, ok := w.prefix[space]; ok && vs.Pct(w.c, 70) {
			tag = p + ":" + local
		} else if vs.Bool(w.c) {
			decl = fmt.Sprintf(` xmlns="%s"`, pxEscAttr(space))
		} else {
			p := vs.Pick(w.c, "n", "m", "y", "x")
			local2[space] = p
			tag = p + ":" + local
			decl = fmt.Sprintf(` xmlns:%s="%s"`, p, pxEscAttr(space))
		}
	}
	w.b.WriteString("<" + tag + decl)
	np := 0
	for _, a := range attrs {
		name := a.local
		if a.space != "" {
			p, ok := local2[a.space]
			if !ok {
				if q, ok2 := w.prefix[a.space]; ok2 && !strings.Contains(decl, "xmlns:"+q+"=") {
					p, ok = q, true
				}
			}
			if !ok {
				np++
				p = fmt.Sprintf("a%d", np)
				local2[a.space] = p
				fmt.Fprintf(&w.b, ` xmlns:%s="%s"`, p, pxEscAttr(a.space))
			}
			name = p + ":" + a.local
		}
		fmt.Fprintf(&w.b, ` %s="%s"`, name, pxEscAttr(a.value))
	}
	if selfClose {
		w.b.WriteString("/>")
	} else {
		w.b.WriteString(">")
	}
	return tag
}

func (w *pxWriter) items(items []pxItem) {
	for _, it := range items {
		if it.el == nil {
			w.b.WriteString(pxEscText(w.c, it.text))
			continue
		}
		e := it.el
		if len(e.kids) == 0 && vs.Bool(w.c) {
			w.open(e.space, e.local, e.attrs, true)
			continue
		}
		// a prefix redeclared by this element shadows the outer one for its subtree
		saved := w.prefix
		tag := w.open(e.space, e.local, e.attrs, false)
		w.prefix = map[string]string{} // keep it simple: nothing inherited below a nested element
		w.items(e.kids)
		w.prefix = saved
		w.b.WriteString("</" + tag + ">")
	}
}

// ---------------------------------------------------------------------------
// Response parsing

type pxResp struct {
	href  string
	stats []pxStat
}

type pxStat struct {
	code  int
	props map[xml.Name]string // canonical inner XML
}

func pxParseMultistatus(body []byte) ([]pxResp, error) {
	d := xml.NewDecoder(bytes.NewReader(body))
	var out []pxResp
	var cur *pxResp
	var st *pxStat
	var stack []xml.Name
	for {
		t, err := d.Token()
		if err == io.EOF {
			if len(stack) != 0 {
				return nil, fmt.Errorf("unexpected end of document")
			}
			return out, nil
		}
		if err != nil {
			return nil, err
		}
		switch t := t.(type) {
		case xml.StartElement:
			stack = append(stack, t.Name)
			dav := t.Name.Space == "DAV:"
			switch {
			case dav && t.Name.Local == "response" && len(stack) == 2:
				out = append(out, pxResp{})
				cur = &out[len(out)-1]
			case dav && t.Name.Local == "href" && len(stack) == 3 && cur != nil:
				var s string
				if err := d.DecodeElement(&s, &t); err != nil {
					return nil, err
				}
				cur.href = s
				stack = stack[:len(stack)-1]
			case dav && t.Name.Local == "propstat" && len(stack) == 3 && cur != nil:
				cur.stats = append(cur.stats, pxStat{props: map[xml.Name]string{}})
				st = &cur.stats[len(cur.stats)-1]
			case dav && t.Name.Local == "status" && len(stack) == 4 && st != nil:
				var s string
				if err := d.DecodeElement(&s, &t); err != nil {
					return nil, err
				}
				fmt.Sscanf(s, "HTTP/1.1 %d", &st.code)
				stack = stack[:len(stack)-1]
			case len(stack) == 5 && st != nil && stack[3] == (xml.Name{Space: "DAV:", Local: "prop"}):
				v, err := pxCanonXML(d)
				if err != nil {
					return nil, err
				}
				st.props[t.Name] = v
				stack = stack[:len(stack)-1]
			}
		case xml.EndElement:
			if len(stack) == 0 {
				return nil, fmt.Errorf("unbalanced end element")
			}
			stack = stack[:len(stack)-1]
		}
	}
}

// ---------------------------------------------------------------------------
// Simulation

type ppSim struct {
	ctx   context.Context
	fs    FileSystem
	ls    LockSystem
	h     *Handler
	tr    *vs.Trace
	isDir map[string]bool                // existing resources
	props map[string]map[xml.Name]string // reference model
	locks []cmLock
}

func ppName(n xml.Name) string { return "{" + n.Space + "}" + n.Local }

func ppSortedNames(m map[xml.Name]string) []xml.Name {
	ns := make([]xml.Name, 0, len(m))
	for n := range m {
		ns = append(ns, n)
	}
	sort.Slice(ns, func(i, j int) bool { return ppName(ns[i]) < ppName(ns[j]) })
	return ns
}

func (s *ppSim) walk(rt *rapid.T) {
	snap, err := cmSnap(s.ctx, s.fs)
	if err != nil {
		vs.Harnessf(rt, "walk: %v", err)
	}
	s.isDir = map[string]bool{}
	for p, n := range snap {
		s.isDir[p] = n.dir
	}
}

func (s *ppSim) resources() []string {
	var ps []string
	for p := range s.isDir {
		ps = append(ps, p)
	}
	sort.Strings(ps)
	return ps
}

// observed reads a resource's dead properties straight from the file system
// (used only where the outcome is a don't-care and the model adopts it).
func (s *ppSim) observed(rt *rapid.T, p string) map[xml.Name]string {
	out := map[xml.Name]string{}
	f, err := s.fs.OpenFile(s.ctx, p, os.O_RDONLY, 0)
	if err != nil {
		return out
	}
	defer f.Close()
	m, _ := f.(DeadPropsHolder).DeadProps()
	for n, pr := range m {
		v, err := pxCanonFragment(pr.InnerXML)
		if err != nil {
			v = "unparsable:" + string(pr.InnerXML)
		}
		out[n] = v
	}
	return out
}

func (s *ppSim) resync(rt *rapid.T) {
	s.walk(rt)
	s.props = map[string]map[xml.Name]string{}
	for p := range s.isDir {
		s.props[p] = s.observed(rt, p)
	}
}

func (s *ppSim) coveringLock(p string) *cmLock {
	for i := range s.locks {
		l := &s.locks[i]
		if l.root == p || !l.zero && wdIsDesc(p, l.root) {
			return l
		}
	}
	return nil
}

func (s *ppSim) do(method, p string, hdr map[string]string, body string) (*httptest.ResponseRecorder, *vs.Violation) {
	var rd io.Reader
	if body != "" {
		rd = strings.NewReader(body)
	}
	r := httptest.NewRequest(method, "/", rd)
	r.URL.Path = p
	r.URL.RawPath = ""
	for k, v := range hdr {
		r.Header.Set(k, v)
	}
	w := httptest.NewRecorder()
	v := vs.Guard("C47", strings.ToLower(method)+":panic", func() { s.h.ServeHTTP(w, r) })
	return w, v
}

func (s *ppSim) genName(c vs.Chooser) xml.Name {
	sp := pxSpaces[c.Intn(len(pxSpaces))]
	if vs.Pct(c, 4) {
		sp = "DAV:" // a DAV: name that is not a live property is an ordinary dead property
		return xml.Name{Space: sp, Local: vs.Pick(c, "author", "x-custom")}
	}
	return xml.Name{Space: sp, Local: pxLocals[c.Intn(len(pxLocals))]}
}

type ppInstr struct {
	remove bool
	names  []xml.Name
	vals   [][]pxItem
}

func (s *ppSim) proppatch(rt *rapid.T, c vs.Chooser, client int) *vs.Violation {
	res := s.resources()
	p := res[c.Intn(len(res))]
	if p == "/" && len(res) > 1 && !vs.Pct(c, 10) {
		p = res[1+c.Intn(len(res)-1)] // memFS refuses PROPPATCH on its root: keep that rare
	}
	missing := false
	if vs.Pct(c, 4) {
		p, missing = "/nosuch", true
	}
	var instrs []ppInstr
	live := false
	for i, n := 0, vs.Pick(c, 1, 1, 2, 3); i < n; i++ {
		in := ppInstr{remove: vs.Pct(c, 35)}
		for j, m := 0, vs.Pick(c, 1, 1, 2, 3); j < m; j++ {
			nm := s.genName(c)
			if in.remove && !missing && vs.Pct(c, 70) {
				// aim at a property that exists
				var have []xml.Name
				for k := range s.props[p] {
					have = append(have, k)
				}
				sort.Slice(have, func(a, b int) bool { return ppName(have[a]) < ppName(have[b]) })
				if len(have) > 0 {
					nm = have[c.Intn(len(have))]
				}
			}
			if vs.Pct(c, 2) {
				nm, live = xml.Name{Space: "DAV:", Local: vs.Pick(c, "getetag", "displayname")}, true
			}
			in.names = append(in.names, nm)
			if in.remove {
				in.vals = append(in.vals, nil)
			} else {
				in.vals = append(in.vals, pxGenItems(c, 0))
			}
		}
		instrs = append(instrs, in)
	}
	// serialise
	w := &pxWriter{c: c, prefix: map[string]string{"DAV:": "D"}}
	rootDecl := ` xmlns:D="DAV:"`
	if vs.Bool(c) {
		w.prefix["urn:a"] = "A"
		rootDecl += ` xmlns:A="urn:a"`
	}
	if vs.Pct(c, 30) {
		w.prefix["http://ex.com/ns?a=1&b=2"] = "E"
		rootDecl += ` xmlns:E="http://ex.com/ns?a=1&amp;b=2"`
	}
	w.b.WriteString(`<?xml version="1.0" encoding="utf-8"?>` + "\n<D:propertyupdate" + rootDecl + ">")
	var desc []string
	for _, in := range instrs {
		kind := "set"
		if in.remove {
			kind = "remove"
		}
		w.b.WriteString("<D:" + kind + "><D:prop>")
		for i, nm := range in.names {
			desc = append(desc, fmt.Sprintf("%s %s=%q", kind, ppName(nm), pxCanonItems(in.vals[i])))
			if len(in.vals[i]) == 0 && vs.Bool(c) {
				w.open(nm.Space, nm.Local, nil, true)
				continue
			}
			saved := w.prefix
			tag := w.open(nm.Space, nm.Local, nil, false)
			w.items(in.vals[i])
			w.prefix = saved
			w.b.WriteString("</" + tag + ">")
		}
		w.b.WriteString("</D:prop></D:" + kind + ">")
		if vs.Pct(c, 20) {
			w.b.WriteString("\n  ")
		}
	}
	w.b.WriteString("</D:propertyupdate>")
	body := w.b.String()

	hdr := map[string]string{}
	lk := s.coveringLock(p)
	withToken := false
	if lk != nil && lk.client == client && vs.Pct(c, 85) {
		hdr["If"] = "(<" + lk.token + ">)"
		withToken = true
	}
	rec, pv := s.do("PROPPATCH", p, hdr, body)
	s.tr.Ev("c%d PROPPATCH %s [%s] token=%v -> %d", client, p, strings.Join(desc, "; "), withToken, rec.Code)
	if pv != nil {
		return pv
	}
	applied := false
	if rec.Code == StatusMulti {
		rs, err := pxParseMultistatus(rec.Body.Bytes())
		if err != nil {
			return vs.Violf("C47", "response_malformed", "proppatch:response_malformed", "PROPPATCH %s: multistatus response does not parse: %v\nrequest: %s\nresponse: %s", p, err, body, rec.Body.String())
		}
		applied = len(rs) == 1 && len(rs[0].stats) > 0
		for _, r := range rs {
			for _, st := range r.stats {
				if st.code != http.StatusOK {
					applied = false
				}
			}
		}
	}
	// memFS does not allow its root to be opened for writing, so PROPPATCH on
	// "/" answers 500: nothing was "set with PROPPATCH", the property is silent.
	mustApply := !missing && !live && (lk == nil || withToken) && p != "/"
	if p == "/" && !applied {
		vs.G.Inc("probe.proppatch_root_refused")
	}
	if lk != nil && !withToken {
		vs.G.Inc("probe.proppatch_on_locked")
	}
	if mustApply && !applied {
		cls := ""
		for _, in := range instrs {
			for i, nm := range in.names {
				if strings.Contains(pxCanonItems(in.vals[i]), "<{"+nm.Space+"}"+nm.Local+">") || strings.Contains(pxCanonItems(in.vals[i]), "<{"+nm.Space+"}"+nm.Local+" ") {
					cls = ":value_contains_element_named_like_property"
				}
			}
		}
		return vs.Violf("C47", "proppatch_refused"+cls, "proppatch:refused"+cls, "PROPPATCH %s of dead properties on an existing, accessible resource was not applied (status %d)\nrequest: %s\nresponse: %s", p, rec.Code, body, cmShort(rec.Body.String()))
	}
	if missing && applied {
		return vs.Violf("C47", "proppatch_on_missing", "proppatch:missing_resource", "PROPPATCH on a resource that does not exist reported success")
	}
	if live {
		vs.G.Inc("probe.proppatch_live_property")
	}
	if !applied {
		return nil
	}
	vs.G.Inc("probe.proppatch_applied")
	m := s.props[p]
	if m == nil {
		m = map[xml.Name]string{}
		s.props[p] = m
	}
	for _, in := range instrs {
		for i, nm := range in.names {
			if in.remove {
				if _, ok := m[nm]; ok {
					vs.G.Inc("probe.removed_existing")
					for k := range m {
						if k != nm && k.Local == nm.Local {
							vs.G.Inc("probe.remove_with_same_local_elsewhere")
							break
						}
					}
				}
				delete(m, nm)
			} else {
				if _, ok := m[nm]; ok {
					vs.G.Inc("probe.overwrote_value")
				}
				m[nm] = pxCanonItems(in.vals[i])
				if strings.Contains(m[nm], "<{") {
					vs.G.Inc("probe.nested_xml_value")
				}
			}
		}
	}
	return nil
}

func (s *ppSim) hrefToPath(h string) string {
	if u, err := url.Parse(h); err == nil {
		h = u.Path
	}
	return slashClean(h)
}

// ppValueClass recognises one specific way a returned value can differ: child
// elements that were sent in no namespace (xmlns="") come back in a namespace
// (captured by an enclosing default namespace declaration).
func ppValueClass(n xml.Name, got, want string) string {
	if strings.Contains(want, "<{}") && ppOnlyUnqualifiedMoved(got, want) {
		return ":unqualified_child_captured"
	}
	return ""
}

// ppOnlyUnqualifiedMoved: got equals want except that some elements that were
// sent in no namespace came back in some namespace.
func ppOnlyUnqualifiedMoved(got, want string) bool {
	i, j := 0, 0
	for i < len(want) && j < len(got) {
		if strings.HasPrefix(want[i:], "<{}") && strings.HasPrefix(got[j:], "<{") {
			k := strings.IndexByte(got[j:], '}')
			if k < 0 {
				return false
			}
			i += 3
			j += k + 1
			continue
		}
		if want[i] != got[j] {
			return false
		}
		i++
		j++
	}
	return i == len(want) && j == len(got)
}

func ppIsLiveName(n xml.Name) bool { _, ok := liveProps[n]; return ok }

func (s *ppSim) propfind(rt *rapid.T, c vs.Chooser, client int, p string, mode int, depth string) *vs.Violation {
	var body string
	var asked []xml.Name
	switch mode {
	case 0:
		body = vs.Pick(c, `<D:propfind xmlns:D="DAV:"><D:allprop/></D:propfind>`, "", `<propfind xmlns="DAV:"><allprop/></propfind>`)
	case 1:
		body = `<D:propfind xmlns:D="DAV:"><D:propname/></D:propfind>`
	default:
		w := &pxWriter{c: c, prefix: map[string]string{"DAV:": "D"}}
		w.b.WriteString(`<D:propfind xmlns:D="DAV:"><D:prop>`)
		var have []xml.Name
		for k := range s.props[p] {
			have = append(have, k)
		}
		sort.Slice(have, func(a, b int) bool { return ppName(have[a]) < ppName(have[b]) })
		seen := map[xml.Name]bool{}
		for i, n := 0, vs.Range(c, 1, 4); i < n; i++ {
			nm := s.genName(c)
			if len(have) > 0 && vs.Pct(c, 60) {
				nm = have[c.Intn(len(have))]
			}
			if seen[nm] {
				continue
			}
			seen[nm] = true
			asked = append(asked, nm)
			w.open(nm.Space, nm.Local, nil, true)
		}
		w.b.WriteString(`</D:prop></D:propfind>`)
		body = w.b.String()
	}
	hdr := map[string]string{}
	if depth != "" {
		hdr["Depth"] = depth
	}
	rec, pv := s.do("PROPFIND", p, hdr, body)
	var an []string
	for _, n := range asked {
		an = append(an, ppName(n))
	}
	s.tr.Ev("c%d PROPFIND %s mode=%d depth=%q %v -> %d", client, p, mode, depth, an, rec.Code)
	if pv != nil {
		return pv
	}
	if _, ok := s.isDir[p]; !ok {
		if rec.Code == StatusMulti {
			return vs.Violf("C47", "propfind_on_missing", "propfind:missing_resource", "PROPFIND of a resource that does not exist returned 207")
		}
		return nil
	}
	if rec.Code != StatusMulti {
		return vs.Violf("C47", "propfind_failed", "propfind:status", "PROPFIND %s (mode %d, depth %q) returned %d\nrequest: %s\nresponse: %s", p, mode, depth, rec.Code, body, cmShort(rec.Body.String()))
	}
	rs, err := pxParseMultistatus(rec.Body.Bytes())
	if err != nil {
		return vs.Violf("C47", "response_malformed", "propfind:response_malformed", "PROPFIND %s: multistatus response does not parse: %v\nresponse: %s", p, err, cmShort(rec.Body.String()))
	}
	sawSelf := false
	// memFS lists directories in map order: judge the responses in a fixed order.
	sort.SliceStable(rs, func(i, j int) bool { return rs[i].href < rs[j].href })
	for _, r := range rs {
		rp := s.hrefToPath(r.href)
		if rp == p {
			sawSelf = true
		}
		if _, ok := s.isDir[rp]; !ok {
			return vs.Violf("C47", "propfind_unknown_resource", "propfind:unknown_href", "PROPFIND %s lists href %q, which is not an existing resource", p, r.href)
		}
		if !wdUnder(rp, p) {
			return vs.Violf("C47", "propfind_unknown_resource", "propfind:href_outside", "PROPFIND %s lists href %q outside the request URI", p, r.href)
		}
		model := s.props[rp]
		got := map[xml.Name]string{} // properties reported with 200
		for _, st := range r.stats {
			if st.code != http.StatusOK {
				continue
			}
			for n, v := range st.props {
				got[n] = v
			}
		}
		switch mode {
		case 0, 1:
			for _, n := range ppSortedNames(got) {
				v := got[n]
				want, ok := model[n]
				if !ok {
					if n.Space == "DAV:" {
						continue // live property
					}
					return vs.Violf("C47", "propfind_extra_property", "propfind:extra", "PROPFIND %s (mode %d) reports %s on %s, which was never set or was removed (value %q)", p, mode, ppName(n), rp, v)
				}
				if mode == 0 && v != want {
					return vs.Violf("C47", "propfind_value_differs"+ppValueClass(n, v, want), "propfind:value"+ppValueClass(n, v, want), "PROPFIND allprop: %s of %s is %q, PROPPATCH had set %q\nresponse: %s", ppName(n), rp, v, want, cmShort(rec.Body.String()))
				}
				if mode == 1 && v != "" {
					return vs.Violf("C47", "propfind_value_differs", "propfind:propname_has_value", "PROPFIND propname: %s of %s carries a value %q", ppName(n), rp, v)
				}
			}
			for _, n := range ppSortedNames(model) {
				if _, ok := got[n]; !ok {
					return vs.Violf("C47", "propfind_missing_property", "propfind:missing", "PROPFIND %s (mode %d) does not report %s of %s (set to %q)\nresponse: %s", p, mode, ppName(n), rp, model[n], cmShort(rec.Body.String()))
				}
			}
			vs.G.Inc("probe.propfind_all_compared")
		default:
			for _, n := range asked {
				want, inModel := model[n]
				v, ok := got[n]
				switch {
				case inModel && !ok:
					return vs.Violf("C47", "propfind_missing_property", "propfind:missing", "PROPFIND prop: %s of %s not returned with 200 (set to %q)\nresponse: %s", ppName(n), rp, want, cmShort(rec.Body.String()))
				case inModel && v != want:
					return vs.Violf("C47", "propfind_value_differs"+ppValueClass(n, v, want), "propfind:value"+ppValueClass(n, v, want), "PROPFIND prop: %s of %s is %q, PROPPATCH had set %q\nresponse: %s", ppName(n), rp, v, want, cmShort(rec.Body.String()))
				case !inModel && ok && !(n.Space == "DAV:" && ppIsLiveName(n)):
					return vs.Violf("C47", "propfind_extra_property", "propfind:extra", "PROPFIND prop: %s of %s returned with 200 (value %q) but it was never set or was removed", ppName(n), rp, v)
				}
				if inModel {
					vs.G.Inc("probe.propfind_named_hit")
				} else {
					vs.G.Inc("probe.propfind_named_absent")
				}
			}
		}
	}
	if !sawSelf {
		return vs.Violf("C47", "propfind_missing_resource", "propfind:no_self", "PROPFIND %s: the response has no entry for the request URI\nresponse: %s", p, cmShort(rec.Body.String()))
	}
	if len(rs) > 1 {
		vs.G.Inc("probe.propfind_multi_resource")
	}
	return nil
}

func (s *ppSim) copyMove(rt *rapid.T, c vs.Chooser, client int) *vs.Violation {
	res := s.resources()
	var srcs []string
	for _, p := range res {
		if p != "/" {
			srcs = append(srcs, p)
		}
	}
	if len(srcs) == 0 {
		return nil
	}
	src := srcs[c.Intn(len(srcs))]
	method := vs.Pick(c, "COPY", "MOVE")
	// destination: unrelated to the source
	var dirs []string
	for _, p := range res {
		if s.isDir[p] && !wdUnder(p, src) {
			dirs = append(dirs, p)
		}
	}
	dst := path.Join(dirs[c.Intn(len(dirs))], vs.Pick(c, "n", "m", "x y", "a", "b"))
	if wdUnder(dst, src) || wdUnder(src, dst) {
		return nil
	}
	hdr := map[string]string{"Destination": cmEsc(dst)}
	if vs.Bool(c) {
		hdr["Destination"] = "http://example.com" + cmEsc(dst)
	}
	ow := vs.Pick(c, "T", "", "F")
	if ow != "" {
		hdr["Overwrite"] = ow
	}
	depth := ""
	if method == "COPY" && vs.Pct(c, 20) {
		depth = "0"
		hdr["Depth"] = "0"
	}
	_, dstExists := s.isDir[dst]
	rec, pv := s.do(method, src, hdr, "")
	s.tr.Ev("c%d %s %s -> %s overwrite=%q depth=%q -> %d", client, method, src, dst, ow, depth, rec.Code)
	if pv != nil {
		return pv
	}
	ok := rec.Code == http.StatusCreated || rec.Code == http.StatusNoContent
	if !ok {
		// refused (locks, Overwrite: F, MOVE without Overwrite: T onto an
		// existing resource ...): not this property's business; adopt what is there.
		vs.G.Inc("probe.copymove_refused")
		s.resync(rt)
		return nil
	}
	old := s.props
	oldDir := s.isDir
	s.walk(rt)
	np := map[string]map[xml.Name]string{}
	for p, m := range old {
		if wdUnder(p, dst) || method == "MOVE" && wdUnder(p, src) {
			continue
		}
		if _, still := s.isDir[p]; still {
			np[p] = m
		}
	}
	for _, p := range res {
		if !wdUnder(p, src) {
			continue
		}
		q := dst + p[len(src):]
		if _, exists := s.isDir[q]; !exists {
			continue // Depth: 0
		}
		cp := map[xml.Name]string{}
		for k, v := range old[p] {
			cp[k] = v
		}
		switch {
		case method == "MOVE":
			np[q] = cp
		case !oldDir[p]:
			np[q] = cp // dead properties travel with a COPY of a file
			if len(cp) > 0 {
				vs.G.Inc("probe.copied_file_with_props")
			}
		default:
			// RFC 4918 9.8.2 only says SHOULD for collections: adopt.
			np[q] = s.observed(rt, q)
		}
	}
	for p := range s.isDir {
		if np[p] == nil {
			np[p] = map[xml.Name]string{}
		}
	}
	s.props = np
	if dstExists {
		vs.G.Inc("probe.copymove_overwrote")
	}
	vs.G.Inc("probe." + strings.ToLower(method) + "_ok")
	return nil
}

func ppRun(rt *rapid.T) {
	c := vs.RapidChooser{T: rt}
	tr := vs.NewTrace()
	for _, p := range []string{"probe.proppatch_applied", "probe.proppatch_on_locked", "probe.proppatch_live_property", "probe.removed_existing",
		"probe.remove_with_same_local_elsewhere", "probe.overwrote_value", "probe.nested_xml_value", "probe.propfind_all_compared",
		"probe.propfind_named_hit", "probe.propfind_named_absent", "probe.propfind_multi_resource", "probe.copymove_refused",
		"probe.copymove_overwrote", "probe.copy_ok", "probe.move_ok", "probe.copied_file_with_props"} {
		vs.G.Add(p, 0)
	}
	s := &ppSim{ctx: context.Background(), fs: NewMemFS(), ls: NewMemLS(), tr: tr, props: map[string]map[xml.Name]string{}}
	s.h = &Handler{FileSystem: s.fs, LockSystem: s.ls}
	// resources
	dirs := []string{"/"}
	for i, n := 0, vs.Range(c, 1, 5); i < n; i++ {
		p := path.Join(dirs[c.Intn(len(dirs))], vs.Pick(c, "f", "g", "d", "x y", "ü"))
		if vs.Pct(c, 35) {
			if s.fs.Mkdir(s.ctx, p, 0777) == nil {
				dirs = append(dirs, p)
				tr.Ev("mkcol %s", p)
			}
		} else if f, err := s.fs.OpenFile(s.ctx, p, os.O_RDWR|os.O_CREATE|os.O_EXCL, 0666); err == nil {
			fmt.Fprintf(f, "content %d", i)
			f.Close()
			tr.Ev("put %s", p)
		}
	}
	s.walk(rt)
	for p := range s.isDir {
		s.props[p] = map[xml.Name]string{}
	}
	nclients := vs.Range(c, 1, 3)
	if vs.Pct(c, 25) {
		res := s.resources()
		root := res[c.Intn(len(res))]
		l := cmLock{client: c.Intn(nclients), root: root, zero: vs.Bool(c)}
		if tok, err := s.ls.Create(time.Now(), LockDetails{Root: root, Duration: infiniteTimeout, ZeroDepth: l.zero}); err == nil {
			l.token = tok
			s.locks = append(s.locks, l)
			tr.Ev("lock by c%d on %s zero=%v", l.client, root, l.zero)
		}
	}
	var viol *vs.Violation
	nops := vs.Range(c, 1, vs.Thorough(14, 40))
	patches, finds := 0, 0
	for i := 0; i < nops && viol == nil; i++ {
		client := c.Intn(nclients)
		switch k := c.Intn(10); {
		case k < 5:
			viol = s.proppatch(rt, c, client)
			patches++
		case k < 9:
			res := s.resources()
			p := res[c.Intn(len(res))]
			if vs.Pct(c, 3) {
				p = "/nosuch"
			}
			viol = s.propfind(rt, c, client, p, c.Intn(3), vs.Pick(c, "0", "0", "", "1", "infinity"))
			finds++
		default:
			viol = s.copyMove(rt, c, client)
		}
	}
	// final read-back of everything
	if viol == nil {
		viol = s.propfind(rt, c, 0, "/", 0, "infinity")
		finds++
	}
	vs.G.EndRun(tr, patches > 0 && finds > 0, 0, func() any {
		return map[string]any{"events": tr.Log[:min(len(tr.Log), 30)]}
	})
	vs.Report(rt, wdFilter(viol), tr)
}

func TestVerif_C47(t *testing.T) { vs.Check(t, ppRun) }
